#!/usr/bin/env python3
"""selftest.py <ID> [mutant-name ...] [--tests] [--tier quick]
Detection demonstration: applies each mutants/<ID>/<name>.py (FILE = repo-relative path, mutate(src)->src)
to an OVERLAY COPY of the repo file (never to /repo), rebuilds the harness against it and expects the
check to exit 1 with a VIOLATION line.  --tests additionally runs the package's own tests on the mutant
(go test -overlay) to show the existing suite does not notice it."""
import importlib.util, json, os, subprocess, sys, tempfile, shutil
V = os.path.dirname(os.path.abspath(__file__))
R = os.environ.get("VERIF_REPO", "/repo")
args = [a for a in sys.argv[1:] if not a.startswith("--")]
flags = [a for a in sys.argv[1:] if a.startswith("--")]
pid, names = args[0], args[1:]
mdir = os.path.join(V, "mutants", pid)
if not names:
    names = sorted(f[:-3] for f in os.listdir(mdir) if f.endswith(".py"))
env = dict(os.environ, GOFLAGS="-mod=mod", GOPROXY="off", GOSUMDB="off", GOTOOLCHAIN="local")
ok_all = True
for n in names:
    spec = importlib.util.spec_from_file_location(n, os.path.join(mdir, n + ".py"))
    mod = importlib.util.module_from_spec(spec); spec.loader.exec_module(mod)
    files = mod.FILE if isinstance(mod.FILE, list) else [mod.FILE]
    tmp = tempfile.mkdtemp(prefix="vq-mut-")
    try:
        rep = {}
        for i, f in enumerate(files):
            src = open(os.path.join(R, f)).read()
            new = mod.mutate(src) if len(files) == 1 else mod.mutate(src, f)
            if new == src:
                print(f"MUTANT {pid}/{n}: pattern not found in {f} (mutant is stale)"); ok_all = False; break
            mf = os.path.join(tmp, f"m{i}_" + os.path.basename(f))
            open(mf, "w").write(new)
            rep[os.path.join(R, f)] = mf
        else:
            extra = os.path.join(tmp, "extra.json"); json.dump({"Replace": rep}, open(extra, "w"))
            e = dict(env, VERIF_EXTRA_OVERLAY=extra, VERIF_OUT=tmp)
            tier = "quick"
            for fl in flags:
                if fl.startswith("--tier="): tier = fl.split("=")[1]
            r = subprocess.run([os.path.join(V, "vcheck"), pid, tier] + getattr(mod, "ARGS", []), env=e, capture_output=True, text=True)
            caught = r.returncode == 1 and "VIOLATION property=" + pid in r.stdout
            line = next((l for l in r.stdout.splitlines() if l.strip().startswith("key=")), "").strip()
            print(f"MUTANT {pid}/{n}: {'CAUGHT' if caught else 'MISSED rc=%d' % r.returncode} {line}")
            if not caught:
                ok_all = False
                print(r.stdout[-1500:]); print(r.stderr[-1500:])
            if "--tests" in flags:
                pkgs = sorted({"./" + os.path.dirname(f) + "/..." for f in files})
                ov = os.path.join(tmp, "ov.json"); json.dump({"Replace": rep}, open(ov, "w"))
                t = subprocess.run(["go", "test", "-vet=off", "-count=1", "-overlay", ov] + pkgs, cwd=R, env=env, capture_output=True, text=True)
                print(f"  existing tests of {pkgs} on mutant: {'PASS' if t.returncode == 0 else 'FAIL'}")
                if t.returncode != 0: print(t.stdout[-800:])
    finally:
        shutil.rmtree(tmp, ignore_errors=True)
sys.exit(0 if ok_all else 1)
