#!/bin/bash
# seedsome.sh <seed-name>...: like seedall.sh for the named seeds
V=$(cd "$(dirname "$0")" && pwd)
for name in "$@"; do
  d=$V/seeded/$name
  chk=${name%%_*}
  out=$($V/seedrun.sh $d $chk quick 2>&1)
  rc=$(echo "$out" | grep -o "seedrun: .* exit [0-9]*" | grep -o "[0-9]*$")
  keys=$(echo "$out" | grep "^  key=" | sed 's/^  key=//' | head -4 | tr '\n' ' ')
  echo -e "$name\t$chk\texit=${rc:-?}\t$keys"
done
