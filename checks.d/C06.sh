# C06: second binary in which core/headerchain_validation.go imports the scheduler shim instead of sync
GEN=$V/.build/gen.c06.$$
CLEAN+=("$GEN")
if python3 $V/gen/sync_rewrite.py $GEN core/headerchain_validation.go; then
  build_bin vqs vq $GEN/overlay.json
else
  echo "note: scheduler build skipped (source pattern changed); part trim-schedules will be reported incomplete"
fi
# part "trim-race": the plain harness built with the race detector (free-running pass)
build_bin vqr vq - -race
# part "map-order": the harness built against a Go runtime whose map-iteration start is a harness decision
. $V/checks.d/_vqm.inc
