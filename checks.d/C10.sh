# part "map-order" (see cmd/vq/maporder.go, child part reorg)
. $V/checks.d/_vqm.inc
