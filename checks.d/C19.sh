# C19 part "race": the same harness overlay, built with the race detector.
# cmd/vqrace is executed by the C19 check (cmd/vq/c19_race.go) as a sub-process.
build_bin vqrace vqrace - -race
. $V/checks.d/_vqm.inc
