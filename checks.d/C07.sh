# part "map-order" (see cmd/vq/maporder.go)
. $V/checks.d/_vqm.inc
