# part "map-order" (see cmd/vq/maporder.go, child part routing)
. $V/checks.d/_vqm.inc
