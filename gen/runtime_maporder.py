#!/usr/bin/env python3
"""runtime_maporder.py <out_dir>
Writes an overlay that makes the START POSITION of every Go map iteration a harness decision:
a copy of GOROOT/src/runtime/map.go in which the random draw of mapiterinit can be overridden, plus
a new runtime file exporting runtime.VerifSetMapIter(on, v).  Go randomises where a `range` over a
map starts (bucket r&mask, in-bucket slot (r>>B)&7); with r fixed to v the order of a map that fits
one bucket (<= 8 entries) is its slot order rotated by v&7, so v = 0..7 enumerates every rotation.
Nothing under GOROOT or /repo is written."""
import json, os, subprocess, sys
out = os.path.abspath(sys.argv[1])
os.makedirs(os.path.join(out, "rt"), exist_ok=True)
goroot = subprocess.check_output(["go", "env", "GOROOT"], text=True).strip()
path = os.path.join(goroot, "src", "runtime", "map.go")
if not os.path.exists(path):
    sys.exit("runtime_maporder: %s not found (different map implementation in this Go version)" % path)
src = open(path).read()
pat = "\tr := uintptr(rand())\n\tit.startBucket = r & bucketMask(h.B)\n"
if src.count(pat) != 1:
    sys.exit("runtime_maporder: mapiterinit's random draw not found in " + path)
new = src.replace(pat, "\tr := uintptr(rand())\n\tif verifMapIterOn != 0 {\n\t\tr = uintptr(verifMapIterVal)\n\t}\n\tit.startBucket = r & bucketMask(h.B)\n")
open(os.path.join(out, "rt", "map.go"), "w").write(new)
open(os.path.join(out, "rt", "zz_verif_mapiter.go"), "w").write('''package runtime

var verifMapIterOn uint32
var verifMapIterVal uint64

// VerifSetMapIter fixes the random draw that decides where every map iteration starts
// (on=false: random as usual). Harness-only; exists only in the overlay build.
func VerifSetMapIter(on bool, v uint64) {
	if on {
		verifMapIterVal = v
		verifMapIterOn = 1
	} else {
		verifMapIterOn = 0
	}
}
''')
rep = {path: os.path.join(out, "rt", "map.go"),
       os.path.join(goroot, "src", "runtime", "zz_verif_mapiter.go"): os.path.join(out, "rt", "zz_verif_mapiter.go")}
json.dump({"Replace": rep}, open(os.path.join(out, "overlay.json"), "w"))
