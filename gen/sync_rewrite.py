#!/usr/bin/env python3
"""sync_rewrite.py <out_dir> <repo-relative file> [...]
Writes, for each file, a copy in which ONLY the import of package "sync" is redirected to the
scheduler shim (verifshim/vsync), plus <out_dir>/overlay.json mapping the repo path to the copy.
The source is /repo's current working tree, or the mutant copy named in VERIF_EXTRA_OVERLAY."""
import json, os, re, sys
R = os.environ.get("VERIF_REPO", "/repo")
out = os.path.abspath(sys.argv[1])
os.makedirs(out, exist_ok=True)
subst = {}
for extra in os.environ.get("VERIF_EXTRA_OVERLAY", "").split():
    subst.update(json.load(open(extra))["Replace"])
def match(src, i, open_ch, close_ch):
    """index of the bracket closing the one at src[i]; skips strings, runes and comments"""
    depth = 0
    n = len(src)
    while i < n:
        c = src[i]
        if c == '"':
            i += 1
            while src[i] != '"':
                i += 2 if src[i] == "\\" else 1
        elif c == '`':
            i = src.index('`', i + 1)
        elif c == "'":
            i += 1
            while src[i] != "'":
                i += 2 if src[i] == "\\" else 1
        elif src.startswith('//', i):
            i = src.index('\n', i)
            continue
        elif src.startswith('/*', i):
            i = src.index('*/', i) + 1
        elif c == open_ch:
            depth += 1
        elif c == close_ch:
            depth -= 1
            if depth == 0:
                return i
        i += 1
    raise ValueError("unbalanced")

def hook_spawns(src, rel):
    """`go func(..) {..}(args)` -> `go sync.G(func(..) {..})(args)`: every spawn is announced to the scheduler"""
    out, i, n = [], 0, 0
    while True:
        j = src.find('go func(', i)
        if j < 0:
            out.append(src[i:])
            break
        k = j + 3
        try:
            close_params = match(src, src.index('(', k), '(', ')')
            body_open = src.index('{', close_params)
            body_close = match(src, body_open, '{', '}')
        except ValueError:
            sys.exit("sync_rewrite: cannot delimit a go statement in " + rel)
        out.append(src[i:j] + 'go sync.G(' + src[k:body_close + 1] + ')')
        i = body_close + 1
        n += 1
    if n == 0:
        return src
    return ''.join(out) + "\n// generated: spawns of this file are announced to the scheduler through sync.G\nvar _ = sync.HookSpawns()\n"

rep = {}
for rel in sys.argv[2:]:
    path = os.path.join(R, rel)
    src = open(subst.get(path, path)).read()
    new, n = re.subn(r'^(\s*)"sync"\s*$', r'\1sync "github.com/dominant-strategies/go-quai/verifshim/vsync"', src, count=1, flags=re.M)
    if n != 1:
        sys.exit(f"sync_rewrite: no plain \"sync\" import found in {rel}")
    # the trimming goroutines are spawned while ranging over a map: make that order a harness choice
    if rel.endswith("headerchain_validation.go"):
        pat = "for denomination, depth := range types.TrimDepths {"
        if pat not in new:
            sys.exit("sync_rewrite: range over types.TrimDepths not found in " + rel)
        new = new.replace(pat, "for _, denomination := range sync.OrderU8(types.TrimDepths) {\n\t\tdepth := types.TrimDepths[denomination]", 1)
    new = hook_spawns(new, rel)
    dst = os.path.join(out, rel.replace("/", "__"))
    open(dst, "w").write(new)
    rep[path] = dst
json.dump({"Replace": rep}, open(os.path.join(out, "overlay.json"), "w"))
