#!/usr/bin/env python3
"""sync_rewrite.py <out_dir> <repo-relative file> [...]
Writes, for each file, a copy in which ONLY the import of package "sync" is redirected to the
scheduler shim (verifshim/vsync), plus <out_dir>/overlay.json mapping the repo path to the copy.
The source is /repo's current working tree, or the mutant copy named in VERIF_EXTRA_OVERLAY."""
import json, os, re, sys
R = os.environ.get("VERIF_REPO", "/repo")
out = os.path.abspath(sys.argv[1])
os.makedirs(out, exist_ok=True)
subst = {}
for extra in os.environ.get("VERIF_EXTRA_OVERLAY", "").split():
    subst.update(json.load(open(extra))["Replace"])
rep = {}
for rel in sys.argv[2:]:
    path = os.path.join(R, rel)
    src = open(subst.get(path, path)).read()
    new, n = re.subn(r'^(\s*)"sync"\s*$', r'\1sync "github.com/dominant-strategies/go-quai/verifshim/vsync"', src, count=1, flags=re.M)
    if n != 1:
        sys.exit(f"sync_rewrite: no plain \"sync\" import found in {rel}")
    # the trimming goroutines are spawned while ranging over a map: make that order a harness choice
    if rel.endswith("headerchain_validation.go"):
        pat = "for denomination, depth := range types.TrimDepths {"
        if pat not in new:
            sys.exit("sync_rewrite: range over types.TrimDepths not found in " + rel)
        new = new.replace(pat, "for _, denomination := range sync.OrderU8(types.TrimDepths) {\n\t\tdepth := types.TrimDepths[denomination]", 1)
    dst = os.path.join(out, rel.replace("/", "__"))
    open(dst, "w").write(new)
    rep[path] = dst
json.dump({"Replace": rep}, open(os.path.join(out, "overlay.json"), "w"))
