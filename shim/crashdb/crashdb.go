// Package crashdb (engine E3) records every top-level database mutation of a set of databases in
// one global write log and materialises crash images: the stores obtained by applying a PREFIX of
// that log. Direct Put/Delete are one entry each; Batch.Write is one atomic entry holding its
// ordered operations (batches handed out by the wrapper are wrapped too, including the ones
// trie.Database.Commit and StateDB.Commit create). Assumed: process crash (the engine preserves
// write order) and atomic batches (leveldb/pebble WAL guarantee).
package crashdb

import (
	"sync"

	"github.com/dominant-strategies/go-quai/ethdb"
)

type Op struct {
	Del bool
	K   []byte
	V   []byte
}

type Entry struct {
	DB    int    // which database (context index)
	Batch bool   // atomic batch commit vs single put/delete
	Ops   []Op   // ordered
	Tag   string // harness marker active when the entry was written
}

type Recorder struct {
	mu  sync.Mutex
	Log []Entry
	tag string
	on  bool
}

func (r *Recorder) Start()          { r.mu.Lock(); r.on = true; r.mu.Unlock() }
func (r *Recorder) Stop()           { r.mu.Lock(); r.on = false; r.mu.Unlock() }
func (r *Recorder) SetTag(t string) { r.mu.Lock(); r.tag = t; r.mu.Unlock() }
func (r *Recorder) Len() int        { r.mu.Lock(); defer r.mu.Unlock(); return len(r.Log) }

func (r *Recorder) add(e Entry) {
	r.mu.Lock()
	if r.on {
		e.Tag = r.tag
		r.Log = append(r.Log, e)
	}
	r.mu.Unlock()
}

// DB wraps a database; everything not overridden is delegated.
type DB struct {
	ethdb.Database
	id  int
	rec *Recorder
}

func Wrap(inner ethdb.Database, id int, rec *Recorder) *DB {
	return &DB{Database: inner, id: id, rec: rec}
}

func cp(b []byte) []byte {
	if b == nil {
		return nil
	}
	c := make([]byte, len(b))
	copy(c, b)
	return c
}

func (d *DB) Put(k, v []byte) error {
	if err := d.Database.Put(k, v); err != nil {
		return err
	}
	d.rec.add(Entry{DB: d.id, Ops: []Op{{K: cp(k), V: cp(v)}}})
	return nil
}

func (d *DB) Delete(k []byte) error {
	if err := d.Database.Delete(k); err != nil {
		return err
	}
	d.rec.add(Entry{DB: d.id, Ops: []Op{{Del: true, K: cp(k)}}})
	return nil
}

func (d *DB) NewBatch() ethdb.Batch { return &batch{Batch: d.Database.NewBatch(), d: d} }

type batch struct {
	ethdb.Batch
	d   *DB
	ops []Op
}

func (b *batch) Put(k, v []byte) error {
	b.ops = append(b.ops, Op{K: cp(k), V: cp(v)})
	return b.Batch.Put(k, v)
}

func (b *batch) Delete(k []byte) error {
	b.ops = append(b.ops, Op{Del: true, K: cp(k)})
	return b.Batch.Delete(k)
}

func (b *batch) Write() error {
	if err := b.Batch.Write(); err != nil {
		return err
	}
	if len(b.ops) > 0 {
		b.d.rec.add(Entry{DB: b.d.id, Batch: true, Ops: append([]Op{}, b.ops...)})
	}
	return nil
}

func (b *batch) Reset() {
	b.ops = nil
	b.Batch.Reset()
}

func (b *batch) Replay(w ethdb.KeyValueWriter) error {
	for _, o := range b.ops {
		var err error
		if o.Del {
			err = w.Delete(o.K)
		} else {
			err = w.Put(o.K, o.V)
		}
		if err != nil {
			return err
		}
	}
	return nil
}

// Apply applies log[:k] restricted to database id onto a key/value map (the snapshot taken when
// recording started).
func Apply(base map[string]string, log []Entry, k int, id int) map[string]string {
	out := make(map[string]string, len(base))
	for key, v := range base {
		out[key] = v
	}
	for _, e := range log[:k] {
		if e.DB != id {
			continue
		}
		for _, o := range e.Ops {
			if o.Del {
				delete(out, string(o.K))
			} else {
				out[string(o.K)] = string(o.V)
			}
		}
	}
	return out
}
