// Package vsync (engine E2) is a drop-in replacement for the parts of package sync used by the
// files whose goroutine interleavings are explored (their `"sync"` import is rewritten to this
// package in a build-time overlay copy; nothing else changes). Outside an active exploration, or
// when called by a goroutine the scheduler does not know, every type delegates to the real sync
// primitive. Inside an exploration every operation is a scheduling point of a cooperative
// scheduler: exactly one registered goroutine runs at a time, a decision is taken only at
// quiescence (every live registered goroutine parked at a hooked operation and every goroutine
// announced by WaitGroup.Add has arrived), and the explorer enumerates the decisions.
package vsync

import (
	"bytes"
	"fmt"
	"reflect"
	"runtime"
	"strconv"
	gosync "sync"
)

// re-exports so that the rewritten file keeps compiling whatever it uses
type (
	Once   = gosync.Once
	Map    = gosync.Map
	Pool   = gosync.Pool
	Cond   = gosync.Cond
	Locker = gosync.Locker
)

func goid() int64 {
	var buf [64]byte
	b := buf[:runtime.Stack(buf[:], false)]
	b = bytes.TrimPrefix(b, []byte("goroutine "))
	if i := bytes.IndexByte(b, ' '); i > 0 {
		b = b[:i]
	}
	n, _ := strconv.ParseInt(string(b), 10, 64)
	return n
}

// ---- scheduler ----------------------------------------------------------------------------------

type thread struct {
	id     int
	gid    int64
	wake   chan struct{}
	op     string      // pending operation kind
	obj    interface{} // primitive it applies to
	parked bool
	done   bool
	n      int // operand of a pending Add
}

// Point is one scheduling decision of an execution.
type Point struct {
	Enabled        []int // thread ids in canonical order: running thread first if enabled, then ascending
	Chosen         int   // index into Enabled
	RunningEnabled bool
	Ops            []string
}

type Sched struct {
	mu       gosync.Mutex
	cv       *gosync.Cond
	active   bool
	threads  []*thread
	byGid    map[int64]*thread
	pending  int // goroutines announced by WaitGroup.Add that have not arrived yet
	prefix   []int
	Points   []Point
	last     int // id of the thread that ran last
	Deadlock bool
	Diverged string
	mstate   map[*Mutex]int     // owner thread id + 1, 0 = free
	wstate   map[*WaitGroup]int // counter
	rstate   map[*RWMutex]*rwState
}

type rwState struct {
	writer  int // owner + 1
	readers int
}

var cur *Sched
var curMu gosync.Mutex

func current() *Sched {
	curMu.Lock()
	s := cur
	curMu.Unlock()
	return s
}

// Run executes body as thread 0 under the scheduler, following prefix and taking choice 0 afterwards.
// It returns the recorded decision points. body runs on the calling goroutine.
func Run(prefix []int, body func()) *Sched {
	s := &Sched{active: true, byGid: map[int64]*thread{}, prefix: prefix, mstate: map[*Mutex]int{}, wstate: map[*WaitGroup]int{}, rstate: map[*RWMutex]*rwState{}}
	s.cv = gosync.NewCond(&s.mu)
	curMu.Lock()
	if cur != nil {
		curMu.Unlock()
		panic("vsync: nested exploration")
	}
	cur = s
	curMu.Unlock()
	main := &thread{id: 0, gid: goid(), wake: make(chan struct{}, 1)}
	s.threads = append(s.threads, main)
	s.byGid[main.gid] = main
	finished := make(chan struct{})
	go s.loop(finished)
	body()
	// main thread leaves: mark done so that the loop can terminate
	s.mu.Lock()
	main.done = true
	s.cv.Broadcast()
	s.mu.Unlock()
	<-finished
	curMu.Lock()
	cur = nil
	curMu.Unlock()
	return s
}

func (s *Sched) me() *thread {
	return s.byGid[goid()]
}

// arrive parks the calling goroutine at a hooked operation; returns when it is scheduled. newThread
// registers a goroutine announced by WaitGroup.Add on its first hooked operation.
func (s *Sched) arrive(op string, obj interface{}) *thread {
	s.mu.Lock()
	t := s.byGid[goid()]
	if t == nil {
		if s.pending <= 0 {
			s.mu.Unlock()
			return nil // unknown goroutine: delegate to the real primitive
		}
		s.pending--
		t = &thread{id: len(s.threads), gid: goid(), wake: make(chan struct{}, 1)}
		s.threads = append(s.threads, t)
		s.byGid[t.gid] = t
	}
	t.op, t.obj, t.parked = op, obj, true
	s.cv.Broadcast()
	s.mu.Unlock()
	<-t.wake
	return t
}

func (s *Sched) enabled(t *thread) bool {
	switch t.op {
	case "Lock":
		return s.mstate[t.obj.(*Mutex)] == 0
	case "WLock":
		r := s.rw(t.obj.(*RWMutex))
		return r.writer == 0 && r.readers == 0
	case "RLock":
		return s.rw(t.obj.(*RWMutex)).writer == 0
	case "Wait":
		return s.wstate[t.obj.(*WaitGroup)] == 0
	}
	return true
}

func (s *Sched) rw(m *RWMutex) *rwState {
	r := s.rstate[m]
	if r == nil {
		r = &rwState{}
		s.rstate[m] = r
	}
	return r
}

// apply performs the model effect of the operation the thread was parked at.
func (s *Sched) apply(t *thread) {
	switch t.op {
	case "Lock":
		s.mstate[t.obj.(*Mutex)] = t.id + 1
	case "Unlock":
		s.mstate[t.obj.(*Mutex)] = 0
	case "WLock":
		s.rw(t.obj.(*RWMutex)).writer = t.id + 1
	case "WUnlock":
		s.rw(t.obj.(*RWMutex)).writer = 0
	case "RLock":
		s.rw(t.obj.(*RWMutex)).readers++
	case "RUnlock":
		s.rw(t.obj.(*RWMutex)).readers--
	case "Add":
		s.wstate[t.obj.(*WaitGroup)] += t.n
	case "Done":
		s.wstate[t.obj.(*WaitGroup)]--
		if t.id != 0 && !spawnHooked {
			t.done = true // (spawns not hooked) a spawned goroutine's Done is its last hooked operation
		}
	}
}

func (s *Sched) loop(finished chan struct{}) {
	defer close(finished)
	s.mu.Lock()
	defer s.mu.Unlock()
	for {
		// quiescence: every live thread parked, nobody still expected
		for {
			live, parked := 0, 0
			for _, t := range s.threads {
				if !t.done {
					live++
					if t.parked {
						parked++
					}
				}
			}
			if live == 0 {
				return
			}
			if parked == live && s.pending == 0 {
				break
			}
			s.cv.Wait()
		}
		// "Start" has no effect on shared state and commutes with every operation of every other
		// thread: it is not a decision. The started thread runs (alone) to its first real operation.
		started := false
		for _, t := range s.threads {
			if !t.done && t.parked && t.op == "Start" {
				t.parked = false
				t.wake <- struct{}{}
				started = true
				break
			}
		}
		if started {
			continue
		}
		var en []*thread
		var running *thread
		for _, t := range s.threads {
			if !t.done && t.parked && s.enabled(t) {
				if t.id == s.last {
					running = t
				} else {
					en = append(en, t)
				}
			}
		}
		if running != nil {
			en = append([]*thread{running}, en...)
		}
		if len(en) == 0 {
			s.Deadlock = true
			// release everybody so that the process does not hang; the execution is void
			for _, t := range s.threads {
				if !t.done && t.parked {
					t.parked, t.done = false, true
					t.wake <- struct{}{}
				}
			}
			return
		}
		choice := 0
		i := len(s.Points)
		if i < len(s.prefix) {
			choice = s.prefix[i]
			if choice >= len(en) {
				s.Diverged = fmt.Sprintf("prefix choice %d at point %d but only %d enabled", choice, i, len(en))
				choice = 0
			}
		}
		pt := Point{Chosen: choice, RunningEnabled: running != nil}
		for _, t := range en {
			pt.Enabled = append(pt.Enabled, t.id)
			pt.Ops = append(pt.Ops, fmt.Sprintf("t%d:%s", t.id, t.op))
		}
		s.Points = append(s.Points, pt)
		t := en[choice]
		s.apply(t)
		s.last = t.id
		t.parked = false
		t.wake <- struct{}{}
	}
}

// ---- spawn ----------------------------------------------------------------------------------------

// spawnHooked: the rewritten source announces every goroutine it starts through G (gen/sync_rewrite.py
// turns `go func(..){..}(args)` into `go sync.G(func(..){..})(args)`); WaitGroup.Add then no longer
// stands in for the announcement, and a thread ends when its function returns.
var spawnHooked bool

// HookSpawns is called from a package-level initialiser of the rewritten file.
func HookSpawns() bool { spawnHooked = true; return true }

// G is evaluated by the SPAWNING goroutine (the operands of a go statement are evaluated there): it
// announces the new thread to the scheduler - after every goroutine announced earlier has arrived,
// so that thread ids follow the spawn order - and returns a function of the same type that first
// parks at the scheduling point "Start" and marks the thread finished when f returns. Outside an
// exploration, or when called by a goroutine the scheduler does not know, it returns f itself.
func G[F any](f F) F {
	s := current()
	if s == nil {
		return f
	}
	s.mu.Lock()
	if s.byGid[goid()] == nil {
		s.mu.Unlock()
		return f
	}
	for s.pending > 0 {
		s.cv.Wait()
	}
	s.pending++
	s.mu.Unlock()
	v := reflect.ValueOf(f)
	w := reflect.MakeFunc(v.Type(), func(args []reflect.Value) []reflect.Value {
		th := s.arrive("Start", nil)
		defer func() {
			if th != nil {
				s.mu.Lock()
				th.done = true
				s.cv.Broadcast()
				s.mu.Unlock()
			}
		}()
		return v.Call(args)
	})
	return w.Interface().(F)
}

// ---- primitives ---------------------------------------------------------------------------------

type Mutex struct{ real gosync.Mutex }

func (m *Mutex) Lock() {
	if s := current(); s != nil {
		if t := s.arrive("Lock", m); t != nil {
			return
		}
	}
	m.real.Lock()
}

func (m *Mutex) Unlock() {
	if s := current(); s != nil {
		if t := s.arrive("Unlock", m); t != nil {
			return
		}
	}
	m.real.Unlock()
}

func (m *Mutex) TryLock() bool { return m.real.TryLock() }

type RWMutex struct{ real gosync.RWMutex }

func (m *RWMutex) Lock() {
	if s := current(); s != nil {
		if t := s.arrive("WLock", m); t != nil {
			return
		}
	}
	m.real.Lock()
}
func (m *RWMutex) Unlock() {
	if s := current(); s != nil {
		if t := s.arrive("WUnlock", m); t != nil {
			return
		}
	}
	m.real.Unlock()
}
func (m *RWMutex) RLock() {
	if s := current(); s != nil {
		if t := s.arrive("RLock", m); t != nil {
			return
		}
	}
	m.real.RLock()
}
func (m *RWMutex) RUnlock() {
	if s := current(); s != nil {
		if t := s.arrive("RUnlock", m); t != nil {
			return
		}
	}
	m.real.RUnlock()
}
func (m *RWMutex) TryLock() bool          { return m.real.TryLock() }
func (m *RWMutex) TryRLock() bool         { return m.real.TryRLock() }
func (m *RWMutex) RLocker() gosync.Locker { return m.real.RLocker() }

type WaitGroup struct{ real gosync.WaitGroup }

func (w *WaitGroup) Add(n int) {
	if s := current(); s != nil {
		s.mu.Lock()
		if t := s.byGid[goid()]; t != nil && spawnHooked && t.id != 0 {
			// an Add made by a spawned goroutine races with the spawner's Wait: a decision point
			// (the model effect is applied by the scheduler when the thread is chosen)
			t.n = n
			s.mu.Unlock()
			s.arrive("Add", w)
			return
		}
		if t := s.byGid[goid()]; t != nil {
			// not a scheduling point: it only announces goroutines that the scheduler must wait for.
			// Goroutines announced earlier must have arrived first, so that thread ids follow the
			// (deterministic) spawn order instead of the arrival race.
			for s.pending > 0 && !spawnHooked {
				s.cv.Wait()
			}
			s.wstate[w] += n
			if n > 0 && !spawnHooked {
				s.pending += n
			}
			s.mu.Unlock()
			return
		}
		s.mu.Unlock()
	}
	w.real.Add(n)
}

func (w *WaitGroup) Done() {
	if s := current(); s != nil {
		if t := s.arrive("Done", w); t != nil {
			return
		}
	}
	w.real.Done()
}

func (w *WaitGroup) Wait() {
	if s := current(); s != nil {
		if t := s.arrive("Wait", w); t != nil {
			return
		}
	}
	w.real.Wait()
}

// ---- controlled map iteration order ---------------------------------------------------------------

var permIndex int

// SetPerm selects which permutation OrderU8 applies to the sorted key list (0 = ascending).
func SetPerm(i int) { permIndex = i }

// OrderU8 returns the keys of m in an order chosen by the harness (the rewritten source ranges over
// this instead of over the map, whose iteration order is random).
func OrderU8(m map[uint8]uint64) []uint8 {
	keys := make([]uint8, 0, len(m))
	for k := range m {
		keys = append(keys, k)
	}
	for i := 1; i < len(keys); i++ {
		for j := i; j > 0 && keys[j] < keys[j-1]; j-- {
			keys[j], keys[j-1] = keys[j-1], keys[j]
		}
	}
	n := len(keys)
	if n == 0 {
		return keys
	}
	switch {
	case permIndex == 0:
	case permIndex == 1:
		for i, j := 0, n-1; i < j; i, j = i+1, j-1 {
			keys[i], keys[j] = keys[j], keys[i]
		}
	default:
		r := permIndex % n
		keys = append(keys[r:], keys[:r]...)
	}
	return keys
}
