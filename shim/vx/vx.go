// Package vx is the small runtime shared by every check: tier/shard/replay handling, counters,
// outcome classes, violation artefacts, known-finding matching and the evidence file.
//
// It is mapped into the repository's module by `go build -overlay` as
// github.com/dominant-strategies/go-quai/verifshim/vx and never exists on disk under /repo.
package vx

import (
	"bytes"
	"crypto/sha256"
	"encoding/hex"
	"encoding/json"
	"flag"
	"fmt"
	"os"
	"os/exec"
	"path/filepath"
	"runtime"
	"runtime/debug"
	"sort"
	"strconv"
	"strings"
	"sync"
	"syscall"
	"time"
)

// VerifRoot is where evidence, replays and known_findings.json live (VERIF_ROOT overrides it for
// scratch copies of the framework used during development).
var VerifRoot = envOr("VERIF_ROOT", "/verif")

// OutRoot receives evidence/ and replays/ (VERIF_OUT redirects them, e.g. for mutant self-tests,
// so that a deliberately broken run never overwrites real evidence).
var OutRoot = envOr("VERIF_OUT", VerifRoot)

// Violation is one failing execution. Key identifies the failing call site / input class and is
// what known_findings.json is matched against; Replay is the minimal artefact to reproduce it.
type Violation struct {
	Key    string      `json:"key"`
	Desc   string      `json:"desc"`
	Part   string      `json:"part,omitempty"`
	Replay interface{} `json:"replay,omitempty"`
}

// Part is the accumulator of one sub-exploration of a property (e.g. C04 "queue", "routing").
type Part struct {
	States      int64            `json:"states"`
	Transitions int64            `json:"transitions"`
	Traces      int64            `json:"traces_validated_against_impl"`
	Evals       int64            `json:"evaluations"`
	MaxDepth    int64            `json:"max_depth,omitempty"`
	Outcomes    map[string]int64 `json:"outcomes,omitempty"`
	Exhaustive  bool             `json:"exhaustive"`
	// SamplingPass: a free-running pass (race detector) kept beside the enumerating parts because a
	// cooperative scheduler cannot see unsynchronised accesses. It is never exhaustive, only ever adds
	// findings, and is left out of the check's overall exhaustive flag (which speaks for the
	// enumerating parts); the evidence names it.
	SamplingPass bool           `json:"sampling_pass,omitempty"`
	Notes        []string       `json:"notes,omitempty"`
	Bounds       map[string]any `json:"bounds,omitempty"`
	Samples      []any          `json:"samples,omitempty"`
	mu           sync.Mutex
}

func (p *Part) Outcome(class string) {
	p.mu.Lock()
	if p.Outcomes == nil {
		p.Outcomes = map[string]int64{}
	}
	p.Outcomes[class]++
	p.mu.Unlock()
}

func (p *Part) Sample(v any) {
	p.mu.Lock()
	if len(p.Samples) < 3 {
		p.Samples = append(p.Samples, v)
	}
	p.mu.Unlock()
}

func (p *Part) Note(format string, a ...any) {
	p.mu.Lock()
	s := fmt.Sprintf(format, a...)
	for _, n := range p.Notes {
		if n == s {
			p.mu.Unlock()
			return
		}
	}
	p.Notes = append(p.Notes, s)
	p.mu.Unlock()
}

func (p *Part) Bound(k string, v any) {
	p.mu.Lock()
	if p.Bounds == nil {
		p.Bounds = map[string]any{}
	}
	p.Bounds[k] = v
	p.mu.Unlock()
}

// Sampling marks the part as a free-running sampling pass (see Part.SamplingPass).
func (p *Part) Sampling(why string) {
	p.mu.Lock()
	p.Exhaustive = false
	p.SamplingPass = true
	p.mu.Unlock()
	p.Note("sampling pass, not exhaustive: %s", why)
}

// Incomplete marks the part as not exhaustively covered (cap or deadline hit).
func (p *Part) Incomplete(why string) {
	p.mu.Lock()
	p.Exhaustive = false
	p.mu.Unlock()
	p.Note("incomplete: %s", why)
}

type Ctx struct {
	ID      string
	Tier    string
	Seed    int64
	Shard   int
	NShards int
	Replay  json.RawMessage
	Only    string // optional: restrict to one part (debugging)

	Assumptions []string
	Rule        string

	deadline time.Time
	start    time.Time
	mu       sync.Mutex
	parts    map[string]*Part
	order    []string
	viols    []Violation
	harness  []string
	// transient: events of sampling passes that did not reproduce (a timing-dependent observation on
	// a loaded machine) or waits between workers that ran out: recorded in the evidence, never an
	// alarm and never a harness error
	transient []string
}

type shardOut struct {
	Parts       map[string]*Part `json:"parts"`
	Order       []string         `json:"order"`
	Viols       []Violation      `json:"viols"`
	Harness     []string         `json:"harness"`
	Transient   []string         `json:"transient"`
	Assumptions []string         `json:"assumptions"`
	Rule        string           `json:"rule"`
}

func (c *Ctx) Quick() bool    { return c.Tier != "thorough" }
func (c *Ctx) Thorough() bool { return c.Tier == "thorough" }

// Mine reports whether work item i belongs to this shard.
func (c *Ctx) Mine(i int64) bool {
	if c.NShards <= 1 {
		return true
	}
	return int((i+c.Seed)%int64(c.NShards)) == c.Shard
}

func (c *Ctx) Wants(part string) bool { return c.Only == "" || c.Only == part }

func (c *Ctx) Part(name string) *Part {
	c.mu.Lock()
	defer c.mu.Unlock()
	if p, ok := c.parts[name]; ok {
		return p
	}
	p := &Part{Exhaustive: true}
	c.parts[name] = p
	c.order = append(c.order, name)
	return p
}

// Expired reports whether the internal deadline passed; callers stop and mark Incomplete.
func (c *Ctx) Expired() bool { return time.Now().After(c.deadline) }

func (c *Ctx) Assume(s string) {
	c.mu.Lock()
	for _, a := range c.Assumptions {
		if a == s {
			c.mu.Unlock()
			return
		}
	}
	c.Assumptions = append(c.Assumptions, s)
	c.mu.Unlock()
}

// Violate records a violation. Call only after the failing case was confirmed (see Confirm).
func (c *Ctx) Violate(part, key, desc string, replay any) {
	// a panic raised by the harness itself (internal wait timed out under load, scenario could not
	// be built) is never evidence against the code under test
	if strings.Contains(desc, "panic: harness:") || strings.Contains(key, "harness:") {
		c.HarnessError("harness panic reported as failure: " + desc)
		return
	}
	c.mu.Lock()
	defer c.mu.Unlock()
	for _, v := range c.viols {
		if v.Key == key {
			return // one artefact per key is enough
		}
	}
	c.viols = append(c.viols, Violation{Key: key, Desc: desc, Part: part, Replay: replay})
}

// Confirm re-runs a failing case five times; it must fail identically every time, otherwise the
// harness (not the code under test) is at fault and the run ends with a harness error.
func (c *Ctx) Confirm(what string, rerun func() string) bool {
	first := rerun()
	if first == "" {
		c.HarnessError("non-reproducible failure (passed on re-run): " + what)
		return false
	}
	for i := 0; i < 4; i++ {
		if r := rerun(); r != first {
			c.HarnessError(fmt.Sprintf("failure not stable on re-run %d: %s: %q vs %q", i, what, first, r))
			return false
		}
	}
	return true
}

// Transient records an observation of a sampling pass that is neither a violation nor a harness
// error (see Ctx.transient).
func (c *Ctx) Transient(s string) {
	c.mu.Lock()
	c.transient = append(c.transient, s)
	c.mu.Unlock()
}

// ConfirmSampling is Confirm for sampling passes (free-running, timing-dependent executions): a
// failure that does not show again in the re-runs is recorded as transient instead of ending the
// run with a harness error.
func (c *Ctx) ConfirmSampling(what string, rerun func() string) bool {
	first := rerun()
	if first == "" {
		c.Transient("not reproduced in a re-run (sampling pass): " + what)
		return false
	}
	for i := 0; i < 4; i++ {
		if r := rerun(); r != first {
			c.Transient(fmt.Sprintf("not stable on re-run %d (sampling pass): %s: %q vs %q", i, what, first, r))
			return false
		}
	}
	return true
}

// Checkpoint writes what this shard has found so far to its output file, so that findings made early
// survive a later unrecoverable crash of the worker process (e.g. a Go "fatal error" in code under
// test); the parent merges a dead shard's checkpoint and still reports the death.
func (c *Ctx) Checkpoint() {
	if out := os.Getenv("VX_OUT"); out != "" && os.Getenv("VX_SHARD") != "" {
		c.mu.Lock()
		defer c.mu.Unlock()
		so := shardOut{Parts: c.parts, Order: c.order, Viols: c.viols, Harness: c.harness, Transient: c.transient, Assumptions: c.Assumptions, Rule: c.Rule}
		raw, _ := json.Marshal(so)
		os.WriteFile(out+".tmp", raw, 0o644)
		os.Rename(out+".tmp", out)
	}
}

func (c *Ctx) HarnessError(s string) {
	c.mu.Lock()
	c.harness = append(c.harness, s)
	c.mu.Unlock()
}

// Guard runs f and converts a panic into an error string (with a short stack).
func Guard(f func()) (perr string) {
	defer func() {
		if r := recover(); r != nil {
			st := string(debug.Stack())
			perr = fmt.Sprintf("panic: %v\n%s", r, trimStack(st))
		}
	}()
	f()
	return ""
}

func trimStack(s string) string {
	lines := strings.Split(s, "\n")
	var out []string
	for _, l := range lines {
		if strings.Contains(l, "runtime/debug") || strings.Contains(l, "runtime/panic") {
			continue
		}
		out = append(out, l)
		if len(out) > 24 {
			break
		}
	}
	return strings.Join(out, "\n")
}

// PanicSite extracts "file:line" of the first non-runtime, non-harness frame of a Guard error.
func PanicSite(perr string) string {
	lines := strings.Split(perr, "\n")
	for _, l := range lines {
		l = strings.TrimSpace(l)
		if !strings.HasPrefix(l, "/") {
			continue
		}
		if strings.Contains(l, "/runtime/") || strings.Contains(l, "zz_verif") || strings.Contains(l, "verifshim") || strings.Contains(l, "verifcmd") {
			continue
		}
		if i := strings.Index(l, " "); i > 0 {
			l = l[:i]
		}
		if j := strings.Index(l, "/go-quai/"); j >= 0 {
			l = l[j+len("/go-quai/"):]
		}
		l = strings.TrimPrefix(l, "/repo/")
		return l
	}
	return "unknown"
}

type knownFile struct {
	Findings []struct {
		Property string `json:"property"`
		Key      string `json:"key"`
		What     string `json:"what"`
	} `json:"findings"`
	Fixed []struct {
		Property string `json:"property"`
		Commit   string `json:"commit"`
		What     string `json:"what"`
	} `json:"fixed"`
}

type CheckSpec struct {
	ID string
	// Default number of worker processes and internal deadlines.
	Shards       int
	QuickBudget  time.Duration
	ThoroughBudg time.Duration
	Run          func(c *Ctx)
	// ReplayFn re-executes one violation artefact and returns "" if it no longer fails.
	ReplayFn func(c *Ctx, v Violation) string
}

// Main is the entry point of one check (sub-command already stripped from args).
func Main(spec CheckSpec, args []string) int {
	fs := flag.NewFlagSet(spec.ID, flag.ContinueOnError)
	tier := fs.String("tier", envOr("VERIF_TIER", "quick"), "quick|thorough")
	replay := fs.String("replay", "", "replay one violation artefact")
	shards := fs.Int("shards", 0, "worker processes (0 = default)")
	only := fs.String("only", "", "restrict to one part")
	budget := fs.Duration("budget", 0, "override internal deadline")
	if err := fs.Parse(args); err != nil {
		return 2
	}
	if *tier != "quick" && *tier != "thorough" {
		*tier = "quick"
	}
	seed, _ := strconv.ParseInt(os.Getenv("VERIF_SEED"), 10, 64)
	if seed < 0 {
		seed = -seed
	}
	bud := spec.QuickBudget
	if *tier == "thorough" {
		bud = spec.ThoroughBudg
	}
	if *budget > 0 {
		bud = *budget
	}
	if bud == 0 {
		bud = 90 * time.Second
	}
	newCtx := func() *Ctx {
		return &Ctx{ID: spec.ID, Tier: *tier, Seed: seed, NShards: 1, Only: *only,
			parts: map[string]*Part{}, start: time.Now(), deadline: time.Now().Add(bud)}
	}

	// ---- child (one shard) ----
	if sh := os.Getenv("VX_SHARD"); sh != "" {
		c := newCtx()
		fmt.Sscanf(sh, "%d/%d", &c.Shard, &c.NShards)
		runGuarded(spec, c)
		writeShard(c, os.Getenv("VX_OUT"))
		return 0
	}

	// ---- replay ----
	if *replay != "" {
		raw, err := os.ReadFile(*replay)
		if err != nil {
			fmt.Fprintln(os.Stderr, "cannot read replay:", err)
			return 2
		}
		var v Violation
		if err := json.Unmarshal(raw, &v); err != nil {
			fmt.Fprintln(os.Stderr, "bad replay file:", err)
			return 2
		}
		if spec.ReplayFn == nil {
			fmt.Fprintln(os.Stderr, "check has no replay function; artefact:", string(raw))
			return 2
		}
		c := newCtx()
		if r := spec.ReplayFn(c, v); r != "" {
			fmt.Printf("VIOLATION property=%s replay=%s\n  %s\n", spec.ID, *replay, r)
			return 1
		}
		fmt.Println("replay: no violation")
		return 0
	}

	// ---- parent ----
	n := spec.Shards
	if *shards > 0 {
		n = *shards
	}
	if n <= 0 {
		n = 1
	}
	if n > runtime.NumCPU() {
		n = runtime.NumCPU()
	}
	start := time.Now()
	merged := newCtx()
	if n == 1 {
		runGuarded(spec, merged)
	} else {
		tmp, _ := os.MkdirTemp("", "vx-"+spec.ID+"-")
		defer os.RemoveAll(tmp)
		var wg sync.WaitGroup
		outs := make([]string, n)
		errs := make([]error, n)
		logs := make([][]byte, n)
		for i := 0; i < n; i++ {
			outs[i] = filepath.Join(tmp, fmt.Sprintf("shard%d.json", i))
			wg.Add(1)
			go func(i int) {
				defer wg.Done()
				cmd := exec.Command(os.Args[0], os.Args[1:]...)
				cmd.Env = append(os.Environ(), fmt.Sprintf("VX_SHARD=%d/%d", i, n), "VX_OUT="+outs[i], "GOMAXPROCS=2")
				var buf bytes.Buffer
				cmd.Stdout, cmd.Stderr = &buf, &buf
				err := cmd.Start()
				if err == nil {
					done := make(chan error, 1)
					go func() { done <- cmd.Wait() }()
					select {
					case err = <-done:
					case <-time.After(bud + 120*time.Second):
						// a shard that outlives its internal deadline by two minutes is stuck: ask
						// the Go runtime for a goroutine dump and give up on it
						cmd.Process.Signal(syscall.SIGQUIT)
						select {
						case err = <-done:
						case <-time.After(20 * time.Second):
							cmd.Process.Kill()
							err = <-done
						}
						err = fmt.Errorf("shard stuck past its deadline (%v)", err)
					}
				}
				logs[i], errs[i] = buf.Bytes(), err
			}(i)
		}
		wg.Wait()
		for i := 0; i < n; i++ {
			raw, err := os.ReadFile(outs[i])
			if err != nil || errs[i] != nil {
				tail := string(logs[i])
				if i := strings.Index(tail, "goroutine 1 "); i >= 0 {
					tail = tail[i:]
					if len(tail) > 6000 {
						tail = tail[:6000]
					}
				} else if len(tail) > 3000 {
					tail = tail[len(tail)-3000:]
				}
				merged.HarnessError(fmt.Sprintf("shard %d died: %v\n%s", i, errs[i], tail))
				if err != nil || errs[i] == nil {
					continue
				}
				// the shard left a checkpoint before it died: what it had found until then counts
			}
			var so shardOut
			if err := json.Unmarshal(raw, &so); err != nil {
				merged.HarnessError(fmt.Sprintf("shard %d output unreadable: %v", i, err))
				continue
			}
			mergeShard(merged, &so)
		}
	}
	return finish(spec, merged, time.Since(start))
}

func runGuarded(spec CheckSpec, c *Ctx) {
	if perr := Guard(func() { spec.Run(c) }); perr != "" {
		c.HarnessError("check body panicked outside a guarded execution: " + perr)
	}
}

func writeShard(c *Ctx, path string) {
	so := shardOut{Parts: c.parts, Order: c.order, Viols: c.viols, Harness: c.harness, Transient: c.transient, Assumptions: c.Assumptions, Rule: c.Rule}
	raw, _ := json.Marshal(so)
	if path == "" {
		os.Stdout.Write(raw)
		return
	}
	os.WriteFile(path, raw, 0o644)
}

func mergeShard(m *Ctx, so *shardOut) {
	for _, name := range so.Order {
		sp := so.Parts[name]
		if sp == nil {
			continue
		}
		p := m.Part(name)
		first := p.Evals == 0 && p.States == 0 && p.Transitions == 0 && len(p.Outcomes) == 0
		p.States += sp.States
		p.Transitions += sp.Transitions
		p.Traces += sp.Traces
		p.Evals += sp.Evals
		if sp.MaxDepth > p.MaxDepth {
			p.MaxDepth = sp.MaxDepth
		}
		for k, v := range sp.Outcomes {
			if p.Outcomes == nil {
				p.Outcomes = map[string]int64{}
			}
			p.Outcomes[k] += v
		}
		if first {
			p.Exhaustive = sp.Exhaustive
		} else {
			p.Exhaustive = p.Exhaustive && sp.Exhaustive
		}
		p.SamplingPass = p.SamplingPass || sp.SamplingPass
		for _, nn := range sp.Notes {
			p.Note("%s", nn)
		}
		for k, v := range sp.Bounds {
			p.Bound(k, v)
		}
		for _, s := range sp.Samples {
			p.Sample(s)
		}
	}
	for _, v := range so.Viols {
		m.Violate(v.Part, v.Key, v.Desc, v.Replay)
	}
	m.harness = append(m.harness, so.Harness...)
	m.transient = append(m.transient, so.Transient...)
	for _, a := range so.Assumptions {
		m.Assume(a)
	}
	if m.Rule == "" {
		m.Rule = so.Rule
	}
}

func envOr(k, d string) string {
	if v := os.Getenv(k); v != "" {
		return v
	}
	return d
}

func finish(spec CheckSpec, c *Ctx, wall time.Duration) int {
	var known knownFile
	if raw, err := os.ReadFile(filepath.Join(VerifRoot, "known_findings.json")); err == nil {
		if err := json.Unmarshal(raw, &known); err != nil {
			c.HarnessError("known_findings.json unreadable: " + err.Error())
		}
	}
	isKnown := func(key string) (string, bool) {
		for _, f := range known.Findings {
			if f.Property == spec.ID && f.Key == key {
				return f.What, true
			}
		}
		return "", false
	}

	var tot Part
	tot.Exhaustive = true
	var sampling []string
	outc := map[string]int64{}
	var samples []any
	partsOut := map[string]*Part{}
	for _, name := range c.order {
		p := c.parts[name]
		partsOut[name] = p
		tot.States += p.States
		tot.Transitions += p.Transitions
		tot.Traces += p.Traces
		tot.Evals += p.Evals
		if p.MaxDepth > tot.MaxDepth {
			tot.MaxDepth = p.MaxDepth
		}
		if p.SamplingPass {
			sampling = append(sampling, name)
		} else {
			tot.Exhaustive = tot.Exhaustive && p.Exhaustive
		}
		for k, v := range p.Outcomes {
			outc[name+":"+k] += v
		}
		for _, s := range p.Samples {
			if len(samples) < 8 {
				samples = append(samples, map[string]any{"part": name, "case": s})
			}
		}
	}
	// vacuity guard: a part that ran many executions but saw a single outcome class did not collide
	for _, name := range c.order {
		p := c.parts[name]
		if p.Evals+p.Transitions > 50 && len(p.Outcomes) == 1 {
			p.Note("vacuity-warning: single outcome class over %d executions", p.Evals+p.Transitions)
		}
	}

	rc := 0
	nviol, nknown := 0, 0
	os.MkdirAll(filepath.Join(OutRoot, "replays", spec.ID), 0o755)
	sort.Slice(c.viols, func(i, j int) bool { return c.viols[i].Key < c.viols[j].Key })
	seenKnown := map[string]bool{}
	for _, v := range c.viols {
		if what, ok := isKnown(v.Key); ok {
			if !seenKnown[v.Key] {
				fmt.Printf("KNOWN-FINDING: property=%s %s [%s]\n", spec.ID, what, v.Key)
				seenKnown[v.Key] = true
			}
			nknown++
			continue
		}
		raw, _ := json.MarshalIndent(v, "", " ")
		h := sha256.Sum256([]byte(v.Key))
		path := filepath.Join(OutRoot, "replays", spec.ID, hex.EncodeToString(h[:6])+".json")
		os.WriteFile(path, raw, 0o644)
		fmt.Printf("VIOLATION property=%s replay=%s\n", spec.ID, path)
		fmt.Printf("  key=%s\n  %s\n", v.Key, strings.ReplaceAll(v.Desc, "\n", "\n  "))
		nviol++
		rc = 1
	}
	if len(c.harness) > 0 {
		// kept for post-mortems of intermittent harness errors (build directory, not under git)
		if f, err := os.OpenFile(filepath.Join(VerifRoot, ".build", "harness-errors.log"), os.O_APPEND|os.O_CREATE|os.O_WRONLY, 0o644); err == nil {
			for _, h := range c.harness {
				fmt.Fprintf(f, "%s %s tier=%s: %s\n", time.Now().Format(time.RFC3339), spec.ID, c.Tier, h)
			}
			f.Close()
		}
		for _, h := range c.harness {
			fmt.Fprintf(os.Stderr, "HARNESS-ERROR %s: %s\n", spec.ID, h)
		}
		if rc == 0 {
			rc = 2
		}
	}
	if tot.States == 0 {
		// checks that enumerate executions without a separate notion of state: every execution starts
		// from a freshly built object, so it is its own (history-)state
		tot.States = tot.Evals
		if tot.States == 0 {
			tot.States = tot.Transitions
		}
	}
	if len(samples) == 0 {
		samples = append(samples, "no sample recorded")
	}
	ev := map[string]any{
		"property_id": spec.ID,
		"tier":        c.Tier,
		"seed":        c.Seed,
		"level":       "model_checking",
		"wall_s":      float64(wall.Milliseconds()) / 1000.0,
		"violations":  nviol,
		"assumptions": append([]string{}, c.Assumptions...),
		"coverage": map[string]any{
			"states":                        tot.States,
			"transitions":                   tot.Transitions,
			"traces_validated_against_impl": tot.Traces,
			"evaluations":                   tot.Evals + tot.Transitions,
			"distinct_nontrivial":           len(outc),
			"rule":                          c.Rule,
			"max_depth":                     tot.MaxDepth,
			"exhaustive":                    tot.Exhaustive && len(c.harness) == 0,
			"samples":                       samples,
			"outcome_classes":               outc,
			"parts":                         partsOut,
			"known_findings_reported":       nknown,
			"harness_errors":                len(c.harness),
		},
	}
	if len(sampling) > 0 {
		ev["coverage"].(map[string]any)["sampling_passes_not_counted_in_exhaustive"] = sampling
	}
	if len(c.transient) > 0 {
		tr := c.transient
		if len(tr) > 20 {
			tr = tr[:20]
		}
		for i := range tr {
			if len(tr[i]) > 600 {
				tr[i] = tr[i][:600] + "…"
			}
		}
		ev["coverage"].(map[string]any)["transient_observations_of_sampling_passes"] = tr
		for _, t := range tr {
			fmt.Fprintf(os.Stderr, "note %s: %s\n", spec.ID, strings.SplitN(t, "\n", 2)[0])
		}
	}
	if ev["assumptions"] == nil {
		ev["assumptions"] = []string{}
	}
	raw, _ := json.MarshalIndent(ev, "", " ")
	os.MkdirAll(filepath.Join(OutRoot, "evidence"), 0o755)
	tmp := filepath.Join(OutRoot, "evidence", spec.ID+".json.tmp")
	os.WriteFile(tmp, raw, 0o644)
	os.Rename(tmp, filepath.Join(OutRoot, "evidence", spec.ID+".json"))
	fmt.Printf("%s tier=%s states=%d transitions=%d traces=%d outcomes=%d exhaustive=%v violations=%d known=%d wall=%.1fs\n",
		spec.ID, c.Tier, tot.States, tot.Transitions, tot.Traces, len(outc), tot.Exhaustive, nviol, nknown, wall.Seconds())
	return rc
}
