#!/bin/bash
# dbg.sh <timeout-seconds> <vq args...> : build once into .build/bin/vq.dbg and run with a QUIT-on-timeout
T=$1; shift
cd /verif && python3 mkoverlay.py .build/ov.dbg.json ${VERIF_EXTRA_OVERLAY:-} && (cd /repo && GOFLAGS=-mod=mod GOPROXY=off GOSUMDB=off GOTOOLCHAIN=local go build -tags verif -overlay /verif/.build/ov.dbg.json -o /verif/.build/bin/vq.dbg ./verifcmd/vq) || exit 2
cd /repo && VERIF_OUT=${VERIF_OUT:-/tmp/dbgout} timeout -s QUIT $T /verif/.build/bin/vq.dbg "$@"
