// vqrace: free-running race/deadlock pass of C19 (built with -race).
//
// Every event sequence of the given depth over the public-API alphabet is issued to a LIVE pool
// (all of its goroutines running, reorg ticker 1 ms, eviction ticker 2 ms) from 3 goroutines that
// start together (event i goes to goroutine i%3). After they return the pool is polled until its
// snapshot is stable (quiescent) and the C19 invariants are evaluated on it. Data races are
// collected from the race detector's log (GORACE log_path, halt_on_error=0) after every sequence;
// a sequence that does not finish within 60 s is a stall (goroutine dump). The result is one JSON
// object on stdout. This pass samples schedules; it is not exhaustive.
package main

import (
	"encoding/json"
	"flag"
	"fmt"
	"os"
	"regexp"
	"runtime"
	"sort"
	"strings"
	"sync"
	"time"

	"github.com/dominant-strategies/go-quai/core"
)

type ev = core.VerifC19Event

type viol struct {
	Key  string `json:"key"`
	Desc string `json:"desc"`
	Seq  []ev   `json:"seq"`
}

type result struct {
	Sequences int64            `json:"sequences"`
	Total     int64            `json:"total"`
	Depth     int              `json:"depth"`
	Alphabet  int              `json:"alphabet"`
	Outcomes  map[string]int64 `json:"outcomes"`
	Quiescent int              `json:"distinct_quiescent_states"`
	Viols     []viol           `json:"viols"`
	Done      bool             `json:"done"`
	Next      int64            `json:"next"`
	Samples   []any            `json:"samples"`
	Err       string           `json:"err,omitempty"`
}

func liveConfig() core.TxPoolConfig {
	return core.TxPoolConfig{
		Journal: "", Rejournal: 24 * time.Hour,
		PriceLimit: 1, PriceBump: 5,
		AccountSlots: 1, GlobalSlots: 2, AccountQueue: 2, GlobalQueue: 3,
		MaxSenders: 64, MaxFeesCached: 64, SendersChBuffer: 16,
		QiPoolSize: 4, QiTxLifetime: time.Hour,
		Lifetime: time.Hour, ReorgFrequency: time.Millisecond,
	}
}

func alphabet(w *core.VerifC19World, full bool) []ev {
	var a []ev
	in := func(id string) bool { return full || (id[1] != '2' && id[2] != 'b') }
	for _, id := range w.IDs {
		if in(id) {
			a = append(a, ev{K: "addR", Tx: id})
		}
	}
	for _, id := range w.IDs {
		if id[0] == 'A' && in(id) {
			a = append(a, ev{K: "addL", Tx: id})
		}
	}
	for i := range w.Heads {
		a = append(a, ev{K: "head", A: i})
	}
	a = append(a, ev{K: "price", A: 1}, ev{K: "price", A: 0}, ev{K: "qiadd"}, ev{K: "qirm"}, ev{K: "evict", A: 0}, ev{K: "read"})
	return a
}

var (
	reAccess = regexp.MustCompile(`(?m)^(Read at|Write at|Previous read at|Previous write at|Previous atomic read at|Previous atomic write at|Atomic read at|Atomic write at) .*$`)
	reFrame  = regexp.MustCompile(`(?m)^  (\S+)\(\)$`)
)

// raceKey names a race report by the innermost go-quai frames of its two accesses.
func raceKey(report string) string {
	locs := reAccess.FindAllStringIndex(report, -1)
	var fns []string
	for i, l := range locs {
		end := len(report)
		if i+1 < len(locs) {
			end = locs[i+1][0]
		}
		if j := strings.Index(report[l[1]:end], "\n\n"); j >= 0 {
			end = l[1] + j
		}
		block := report[l[1]:end]
		pick := ""
		for _, m := range reFrame.FindAllStringSubmatch(block, -1) {
			f := m[1]
			if k := strings.LastIndex(f, "/"); k >= 0 {
				f = f[k+1:]
			}
			if pick == "" {
				pick = f
			}
			if strings.HasPrefix(f, "core.") && !strings.Contains(f, "VerifC19") {
				pick = f
				break
			}
		}
		fns = append(fns, pick)
		if len(fns) == 2 {
			break
		}
	}
	sort.Strings(fns)
	return "race:" + strings.Join(fns, "|")
}

func splitReports(log string) []string {
	var out []string
	for _, part := range strings.Split(log, "==================") {
		if strings.Contains(part, "WARNING: DATA RACE") {
			out = append(out, strings.TrimSpace(part))
		}
	}
	return out
}

type runner struct {
	w       *core.VerifC19World
	res     *result
	quies   map[string]bool
	racelog string
	logOff  int64
	seen    map[string]bool
}

func (r *runner) newRaces(seq []ev) {
	if r.racelog == "" {
		return
	}
	path := fmt.Sprintf("%s.%d", r.racelog, os.Getpid())
	st, err := os.Stat(path)
	if err != nil || st.Size() <= r.logOff {
		return
	}
	b, err := os.ReadFile(path)
	if err != nil {
		return
	}
	fresh := string(b[r.logOff:])
	r.logOff = int64(len(b))
	for _, rep := range splitReports(fresh) {
		k := raceKey(rep)
		r.res.Outcomes["race-report"]++
		if !r.seen[k] {
			r.seen[k] = true
			if len(rep) > 5000 {
				rep = rep[:5000] + "…"
			}
			r.res.Viols = append(r.res.Viols, viol{k, "the race detector reported a data race while 3 goroutines issued " + fmt.Sprint(seq) + " through the pool's public API\n" + rep, seq})
		}
	}
}

// one runs one sequence on a fresh live pool; returns false if the process must stop (stall).
func (r *runner) one(seq []ev, sample bool) bool {
	p := r.w.NewLivePool()
	var wg sync.WaitGroup
	start := make(chan struct{})
	results := make([]string, len(seq))
	var panicked sync.Map
	for g := 0; g < 3; g++ {
		wg.Add(1)
		go func(g int) {
			defer wg.Done()
			defer func() {
				if rec := recover(); rec != nil {
					buf := make([]byte, 8<<10)
					buf = buf[:runtime.Stack(buf, false)]
					panicked.Store(g, fmt.Sprintf("panic: %v\n%s", rec, buf))
				}
			}()
			<-start
			for i := g; i < len(seq); i += 3 {
				results[i] = p.Do(seq[i])
			}
		}(g)
	}
	done := make(chan struct{})
	go func() { wg.Wait(); close(done) }()
	close(start)
	stall := func(what string) bool {
		buf := make([]byte, 512<<10)
		buf = buf[:runtime.Stack(buf, true)]
		var keep []string
		for _, g := range strings.Split(string(buf), "\n\n") {
			if strings.Contains(g, "core.(*TxPool)") {
				keep = append(keep, g)
			}
		}
		d := strings.Join(keep, "\n\n")
		if len(d) > 8000 {
			d = d[:8000] + "…"
		}
		r.res.Viols = append(r.res.Viols, viol{"stall:live:" + what, fmt.Sprintf("%s: 3 goroutines issuing %v did not finish within 60 s\n%s", what, seq, d), seq})
		return false
	}
	select {
	case <-done:
	case <-time.After(60 * time.Second):
		return stall("api-call")
	}
	var perr string
	panicked.Range(func(k, v any) bool { perr = v.(string); return false })
	if perr != "" {
		r.res.Viols = append(r.res.Viols, viol{"panic:live", fmt.Sprintf("public API panicked while 3 goroutines issued %v\n%s", seq, perr), seq})
		return false
	}
	// Quiescence: all API calls returned, loop() has consumed every head event, the pool validates
	// against the chain's head, and since then at least two MORE runReorg executions completed
	// (the first may have been launched before the last request arrived; the second serves
	// everything) with the same snapshot before and after.
	var snap *core.VerifC19Snap
	takeSnap := func() bool {
		sdone := make(chan *core.VerifC19Snap, 1)
		go func() { sdone <- p.Snapshot() }()
		select {
		case snap = <-sdone:
			return true
		case <-time.After(60 * time.Second):
			return false
		}
	}
	deadline := time.Now().Add(60 * time.Second)
	prev := ""
	mark := int64(-1)
	for {
		if time.Now().After(deadline) {
			r.res.Viols = append(r.res.Viols, viol{"stall:live:no-quiescence", fmt.Sprintf("60 s after %v returned the pool still had not served its requests (head backlog %d, reorg runs %d)", seq, p.HeadBacklog(), p.ReorgRuns()), seq})
			return false
		}
		time.Sleep(500 * time.Microsecond)
		if p.HeadBacklog() > 0 {
			mark = -1
			continue
		}
		runs := p.ReorgRuns()
		if mark >= 0 && runs < mark+2 {
			continue
		}
		if !takeSnap() {
			return stall("snapshot")
		}
		if snap.PoolHead != snap.ChainHead {
			mark = -1
			continue
		}
		k := snap.Key()
		if mark >= 0 && k == prev {
			break
		}
		prev, mark = k, runs
	}
	msgs, swallowed := r.w.TakeLogs()
	for _, m := range msgs {
		r.res.Outcomes["pool-logged-error:"+m]++
	}
	if len(swallowed) > 0 {
		r.res.Viols = append(r.res.Viols, viol{"panic:live:swallowed", fmt.Sprintf("a pool goroutine panicked (recovered and logged by the pool) during %v\n%s", seq, swallowed[0]), seq})
	}
	for _, v := range core.VerifC19CheckQuiescent(snap, "live") {
		if !r.seen[v.Key] {
			r.seen[v.Key] = true
			r.res.Viols = append(r.res.Viols, viol{v.Key, v.Desc + "\n sequence (event i issued by goroutine i%3): " + fmt.Sprint(seq) + " results " + fmt.Sprint(results), seq})
		}
	}
	shape := fmt.Sprintf("quiescent:pending%d/%d,queued%d/%d,qi%d,head%d", len(snap.Accts[0].Pending.Txs), len(snap.Accts[1].Pending.Txs), len(snap.Accts[0].Queue.Txs), len(snap.Accts[1].Queue.Txs), len(snap.Qi), snap.PoolHead)
	r.res.Outcomes[shape]++
	r.quies[prev] = true
	if sample && len(r.res.Samples) < 3 {
		r.res.Samples = append(r.res.Samples, map[string]any{"sequence": fmt.Sprint(seq), "results": results, "quiescent": snap.Render()})
	}
	stopped := make(chan struct{})
	go func() { p.Stop(); close(stopped) }()
	select {
	case <-stopped:
	case <-time.After(60 * time.Second):
		return stall("Stop")
	}
	r.newRaces(seq)
	return true
}

func main() {
	depth := flag.Int("depth", 3, "sequence length")
	full := flag.Bool("full", false, "full transaction universe")
	shard := flag.String("shard", "0/1", "i/n")
	from := flag.Int64("from", 0, "first sequence index")
	stop := flag.Int64("stop", 0, "unix seconds at which to stop")
	replay := flag.String("replay", "", "JSON file with one sequence")
	repeat := flag.Int("repeat", 40, "executions of the replayed sequence")
	until := flag.String("until", "", "replay: stop as soon as a finding with this key shows")
	flag.String("progress", "", "file that receives the partial result every 2 s")
	flag.Parse()
	res := &result{Outcomes: map[string]int64{}, Depth: *depth}
	progress := flag.Lookup("progress").Value.String()
	emit := func() {
		raw, _ := json.Marshal(res)
		os.Stdout.Write(raw)
		os.Stdout.Write([]byte("\n"))
	}
	lastSave := time.Now()
	save := func(next int64) {
		if progress == "" || time.Since(lastSave) < 2*time.Second {
			return
		}
		lastSave = time.Now()
		cp := *res
		cp.Done, cp.Next = false, next
		raw, _ := json.Marshal(&cp)
		if os.WriteFile(progress+".tmp", raw, 0o644) == nil {
			os.Rename(progress+".tmp", progress)
		}
	}
	w, err := core.VerifC19NewWorld(liveConfig())
	if err != nil {
		res.Err = err.Error()
		emit()
		os.Exit(3)
	}
	core.VerifC19SetTimers(2 * time.Millisecond)
	r := &runner{w: w, res: res, quies: map[string]bool{}, racelog: os.Getenv("C19_RACELOG"), seen: map[string]bool{}}
	if *replay != "" {
		raw, err := os.ReadFile(*replay)
		var seq []ev
		if err == nil {
			err = json.Unmarshal(raw, &seq)
		}
		if err != nil {
			res.Err = err.Error()
			emit()
			os.Exit(3)
		}
	rep:
		for i := 0; i < *repeat; i++ {
			res.Sequences++
			if !r.one(seq, i == 0) {
				break
			}
			for _, v := range res.Viols {
				if *until != "" && v.Key == *until {
					break rep
				}
			}
		}
		res.Done = true
		res.Quiescent = len(r.quies)
		emit()
		return
	}
	var si, sn int
	fmt.Sscanf(*shard, "%d/%d", &si, &sn)
	if sn <= 0 {
		sn = 1
	}
	a := alphabet(w, *full)
	res.Alphabet = len(a)
	total := int64(1)
	for i := 0; i < *depth; i++ {
		total *= int64(len(a))
	}
	res.Total = total
	res.Done = true
	// deterministic permutation of the enumeration order, so that a run cut by the deadline has
	// seen a spread of sequences rather than one corner of the lexicographic order
	const stride = 7919
	for j := *from; j < total; j++ {
		if j%int64(sn) != int64(si) {
			continue
		}
		if *stop > 0 && time.Now().Unix() >= *stop {
			res.Done = false
			res.Next = j
			break
		}
		idx := j
		if total%stride != 0 {
			idx = (j*stride + 13) % total
		}
		seq := make([]ev, *depth)
		x := idx
		for i := *depth - 1; i >= 0; i-- {
			seq[i] = a[x%int64(len(a))]
			x /= int64(len(a))
		}
		res.Sequences++
		if !r.one(seq, j%997 == int64(si)) {
			res.Done = false
			res.Next = j + 1
			break
		}
		res.Quiescent = len(r.quies)
		save(j + 1)
	}
	res.Quiescent = len(r.quies)
	emit()
}
