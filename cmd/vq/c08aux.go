package main

// C08 helpers: harness MuSig2 keys, template signing with the repository's own 2-of-3 signing
// flow (crypto/musig2), and construction of a merge-mined AuxPoW for a Quai header exactly the way
// Slice.GetPendingHeader does it (core/slice.go).

import (
	"bytes"
	"crypto/sha256"
	"encoding/binary"
	"encoding/hex"
	"fmt"
	"math/big"
	"sort"

	"github.com/btcsuite/btcd/btcec/v2"
	bmusig "github.com/btcsuite/btcd/btcec/v2/schnorr/musig2"
	"github.com/dominant-strategies/go-quai/common"
	"github.com/dominant-strategies/go-quai/core/types"
	"github.com/dominant-strategies/go-quai/crypto/musig2"
	"github.com/dominant-strategies/go-quai/params"
)

var c08Priv [3]*btcec.PrivateKey

// c08InstallKeys replaces the three protocol public keys (a package variable) by the public keys of
// three fixed harness secrets, so that valid template signatures can be produced. The verification
// code is unchanged.
func c08InstallKeys() {
	pubs := make([]string, 3)
	for i := 0; i < 3; i++ {
		seed := sha256.Sum256([]byte(fmt.Sprintf("verif-c08-musig2-key-%d", i)))
		priv, pub := btcec.PrivKeyFromBytes(seed[:])
		c08Priv[i] = priv
		pubs[i] = hex.EncodeToString(pub.SerializeCompressed())
	}
	params.MuSig2PublicKeys = pubs
}

// c08Sign runs the two-party MuSig2 session of signers i<j over the 32-byte digest with the btcec
// MuSig2 primitives the repository's crypto/musig2 wrapper is built on (same context: unsorted keys,
// known signers in participant order), but with nonces derived from a fixed seed, so that the
// signature - and with it every block hash of the harness chain - is identical in every shard and run.
// Verification is the repository's (AuxTemplate.VerifySignature -> musig2.VerifyCompositeSignature).
func c08Sign(msg [32]byte, i, j int) ([]byte, error) {
	signers := []*btcec.PublicKey{c08Priv[i].PubKey(), c08Priv[j].PubKey()}
	mk := func(k int) (*bmusig.Session, error) {
		ctx, err := bmusig.NewContext(c08Priv[k], false, bmusig.WithKnownSigners(signers))
		if err != nil {
			return nil, err
		}
		seed := sha256.Sum256(append([]byte(fmt.Sprintf("verif-c08-nonce-%d-", k)), msg[:]...))
		nonces, err := bmusig.GenNonces(bmusig.WithCustomRand(bytes.NewReader(seed[:])), bmusig.WithPublicKey(c08Priv[k].PubKey()))
		if err != nil {
			return nil, err
		}
		return ctx.NewSession(bmusig.WithPreGeneratedNonce(nonces))
	}
	si, err := mk(i)
	if err != nil {
		return nil, err
	}
	sj, err := mk(j)
	if err != nil {
		return nil, err
	}
	if _, err := si.RegisterPubNonce(sj.PublicNonce()); err != nil {
		return nil, err
	}
	if _, err := sj.RegisterPubNonce(si.PublicNonce()); err != nil {
		return nil, err
	}
	if _, err := si.Sign(msg); err != nil {
		return nil, err
	}
	pj, err := sj.Sign(msg)
	if err != nil {
		return nil, err
	}
	if done, err := si.CombineSig(pj); err != nil || !done {
		return nil, fmt.Errorf("combine: done=%v err=%v", done, err)
	}
	return si.FinalSig().Serialize(), nil
}

// c08SignRepoFlow is the same signature made with the repository's own Manager/SigningSession API
// (random nonces); used once per run to show that flow produces an acceptable template too.
func c08SignRepoFlow(msg [32]byte, i, j int) ([]byte, error) {
	mi, err := musig2.NewManager(c08Priv[i])
	if err != nil {
		return nil, err
	}
	mj, err := musig2.NewManager(c08Priv[j])
	if err != nil {
		return nil, err
	}
	si, err := mi.NewSigningSession(msg[:], j)
	if err != nil {
		return nil, err
	}
	sj, err := mj.NewSigningSession(msg[:], i)
	if err != nil {
		return nil, err
	}
	ni, nj := si.GetPublicNonce(), sj.GetPublicNonce()
	if err := si.RegisterOtherNonce(nj); err != nil {
		return nil, err
	}
	if err := sj.RegisterOtherNonce(ni); err != nil {
		return nil, err
	}
	pi, err := si.CreatePartialSignature()
	if err != nil {
		return nil, err
	}
	pj, err := sj.CreatePartialSignature()
	if err != nil {
		return nil, err
	}
	return musig2.CombinePartialSignatures(si.(*musig2.SigningSession), pi, pj)
}

// c08Template returns a signed template of the given kind. The payout script, branch and donor
// parameters are the repository's recorded default templates; only the signature time is lowered
// (harness chains live near t=0) and the signature is made with the harness keys.
func c08Template(kind types.PowID, sigTime uint32) (*types.AuxTemplate, error) {
	var t *types.AuxTemplate
	switch kind {
	case types.Kawpow:
		t = types.DefaultKawpowAuxTemplate()
		t.SetMerkleBranch([][]byte{c08Bytes32(0x51), c08Bytes32(0x52)})
	case types.SHA_BTC:
		t = types.DefaultShaBchAuxTemplate()
		t.SetPowID(types.SHA_BTC)
		t.SetMerkleBranch(t.MerkleBranch()[:3])
	case types.SHA_BCH:
		t = types.DefaultShaBchAuxTemplate()
		t.SetMerkleBranch(t.MerkleBranch()[:3])
	case types.Scrypt:
		t = types.DefaultScryptAuxTemplate()
		t.SetMerkleBranch(t.MerkleBranch()[:3])
	default:
		return nil, fmt.Errorf("no template for pow id %v", kind)
	}
	t.SetSignatureTime(sigTime)
	t.SetSigs(nil)
	sig, err := c08Sign(t.Hash(), 0, 1)
	if err != nil {
		return nil, err
	}
	t.SetSigs(sig)
	if !t.VerifySignature() {
		return nil, fmt.Errorf("freshly signed %v template does not verify", kind)
	}
	if kind == types.Kawpow && sigTime == 1 { // once per world: the repository's own signing flow verifies as well
		rs, err := c08SignRepoFlow(t.Hash(), 0, 2)
		if err != nil {
			return nil, fmt.Errorf("repo signing flow: %v", err)
		}
		t2 := types.NewAuxTemplate()
		*t2 = *t
		t2.SetSigs(rs)
		if !t2.VerifySignature() {
			return nil, fmt.Errorf("template signed with the repository's flow (signers 0,2) does not verify")
		}
	}
	return t, nil
}

func c08Bytes32(b byte) []byte {
	out := make([]byte, 32)
	for i := range out {
		out[i] = b + byte(i)
	}
	return out
}

// c08AttachAuxPow commits the template's donor block to wh's seal hash (the recipe of
// Slice.GetPendingHeader) and stores the AuxPoW on wh. The donor PoW solution is left to the caller.
func c08AttachAuxPow(wh *types.WorkObjectHeader, t *types.AuxTemplate) {
	kind := t.PowID()
	if kind == types.Scrypt || kind == types.SHA_BCH || kind == types.SHA_BTC {
		wh.SetTxHash(types.EmptyRootHash)
	}
	wh.SetAuxPow(nil)
	root := wh.SealHash()
	if kind == types.Scrypt {
		root = types.CreateAuxMerkleRoot(common.Hash(common.BytesToHash(t.AuxPow2())), wh.SealHash())
	}
	cb := types.NewAuxPowCoinbaseTx(kind, t.Height(), t.CoinbaseOut(), root, t.SignatureTime())
	mr := types.CalculateMerkleRoot(kind, cb, t.MerkleBranch())
	hdr := types.NewBlockHeader(kind, int32(t.Version()), t.PrevHash(), mr, t.SignatureTime(), t.Bits(), 0, t.Height())
	ap := types.NewAuxPow(kind, hdr, t.AuxPow2(), t.Sigs(), t.MerkleBranch(), cb)
	wh.SetAuxPow(c08PinDonorTime(ap, t.SignatureTime()+1))
}

// c08PinDonorTime: types.NewBitcoin/BitcoinCash/LitecoinBlockHeader ignore their time argument (btcd
// stamps time.Now()); the donor timestamp is pinned so that the harness chain is the same in every
// shard and run. Kawpow donor headers take the time they are given.
func c08PinDonorTime(ap *types.AuxPow, ts uint32) *types.AuxPow {
	if ap.PowID() == types.Kawpow || ap.Header() == nil {
		return ap
	}
	raw := ap.Header().Bytes()
	if len(raw) < 80 {
		return ap
	}
	binary.LittleEndian.PutUint32(raw[68:72], ts)
	pa := ap.ProtoEncode()
	pa.Header = raw
	fixed := &types.AuxPow{}
	if err := fixed.ProtoDecode(pa); err != nil {
		panic("harness: donor header re-decode: " + err.Error())
	}
	return fixed
}

// c08SortUncles puts the uncles of a pending block into a canonical order (the worker collects them
// from a map) and re-derives the uncle root, so that the harness chain is deterministic.
func c08SortUncles(ph *types.WorkObject) {
	us := append([]*types.WorkObjectHeader{}, ph.Uncles()...)
	sort.Slice(us, func(i, j int) bool {
		return bytes.Compare(us[i].SealHash().Bytes(), us[j].SealHash().Bytes()) < 0
	})
	ph.Body().SetUncles(us)
	ph.Body().Header().SetUncleHash(types.CalcUncleHash(us))
	ph.WorkObjectHeader().SetHeaderHash(ph.Body().Header().Hash())
}

// c08MineDonor searches the 32-bit donor nonce (real sha256d / scrypt kernel) until the donor PoW
// hash is strictly below 2^256/diff. Deterministic: nonces are tried in order from 0.
func c08MineDonor(ap *types.AuxPow, diff *big.Int, max uint32) (uint32, bool) {
	target := new(big.Int).Div(common.Big2e256, diff)
	for n := uint32(0); n < max; n++ {
		ap.Header().SetNonce(n)
		if new(big.Int).SetBytes(ap.Header().PowHash().Bytes()).Cmp(target) < 0 {
			return n, true
		}
	}
	return 0, false
}
