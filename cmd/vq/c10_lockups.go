package main

// C10 part "lockups": reorganisation across blocks that create and accumulate contract-held coinbase
// lockups. A forwarding contract is deployed, every block from then on is mined with the contract
// as lockup owner; for EVERY height h of the history at which the block executes at least one
// contract coinbase ETX (creating a record, or accumulating one or several rewards into an existing
// one), two sibling blocks A and B are built on the state before h. The reorganising node follows
// A, then switches B, A, B; after each switch it must equal the node that only saw the winner.

import (
	"fmt"
	"strings"

	"github.com/dominant-strategies/go-quai/common"
	"github.com/dominant-strategies/go-quai/core"
	"github.com/dominant-strategies/go-quai/core/types"
	"github.com/dominant-strategies/go-quai/verifshim/vx"
)

const c10LPattern = "zpzzpzpzzpzpzzzpzzpzzpzzzpzzpz"

// c10LHistory builds the common history; returns the scen positioned before the block of index stop.
func c10LHistory(stop, variant int) (*scen, common.Address, error) {
	u := c13Universe()
	s, err := newScen(3, true, nil)
	if err != nil {
		return nil, common.Address{}, err
	}
	pre := core.VLockupPrecompile()
	var X common.Address
	for i := 0; i < stop; i++ {
		o := c10LOpts(i, variant, X, u)
		if i == 2 {
			n := s.nonce(s.k[1])
			code, addr := c13ForwarderInit(pre, s.k[1].Addr, n)
			tx := s.n.QuaiTxAL(s.k[1], n, nil, common.Big0, 1000000, scenPrice, code, types.AccessList{{Address: addr}})
			if errs := s.n.AddTxs(tx); errs[0] != nil {
				return nil, X, fmt.Errorf("deploy refused: %v", errs[0])
			}
			X = addr
		}
		if _, err := s.mine(o); err != nil {
			return nil, X, fmt.Errorf("history block %d: %w", i, err)
		}
	}
	return s, X, nil
}

// variant 1: the miner names a delegate in the coinbase data and changes it from block to block
// (none, m[1], m[2], none, ...), so that rewards accumulate into records whose delegate changes.
func c10LOpts(i, variant int, X common.Address, u *c13Uni) core.VBuildOpts {
	o := core.VBuildOpts{Fill: true, Order: 2}
	if c10LPattern[i] == 'p' {
		o.Order = 0
	}
	cb := u.m[0].Addr
	o.Coinbase = &cb
	if i >= 3 {
		o.CoinbaseData = append([]byte{0}, X.Bytes()...)
		if variant == 1 && i%3 != 0 {
			o.CoinbaseData = append(o.CoinbaseData, u.m[i%3].Addr.Bytes()...)
		}
	}
	return o
}

func c10LContractCoinbases(b *types.WorkObject, X common.Address) int {
	n := 0
	for _, t := range b.Transactions() {
		if t.Type() == types.ExternalTxType && types.IsCoinBaseTx(t) && (len(t.Data()) == 1+common.AddressLength+common.HashLength || len(t.Data()) == 1+2*common.AddressLength+common.HashLength) {
			if common.BytesToAddress(t.Data()[1:21], core.VZoneLoc).Equal(X) {
				n++
			}
		}
	}
	return n
}

func c10LRun(idx, variant int) (string, string, string) {
	u := c13Universe()
	s, X, err := c10LHistory(idx, variant)
	if err != nil {
		return "harness", err.Error(), ""
	}
	defer s.close()
	common_ := append([]*types.WorkObject{}, s.blocks...)
	o := c10LOpts(idx, variant, X, u)
	o.Salt = 5
	a, err := s.n.Build(o)
	if err != nil {
		return "harness", "A: " + err.Error(), ""
	}
	o.Salt = 9
	cb2 := u.m[1].Addr
	o.Coinbase = &cb2
	b, err := s.n.Build(o)
	if err != nil {
		return "harness", "B: " + err.Error(), ""
	}
	nA := c10LContractCoinbases(a, X)
	if nA == 0 {
		return "", "", "n/a"
	}
	lockupsBefore, _ := core.VScanLockups(s.n.DB[2], core.VZoneLoc)
	cls := fmt.Sprintf("records-before=%d,contract-coinbases-in-block=%d,order=%d,delegates=%s", len(lockupsBefore), nA, o.Order, []string{"none", "changing"}[variant])
	mk := func(blocks ...*types.WorkObject) (*scen, error) {
		r, err := newScen(3, true, nil)
		if err != nil {
			return nil, err
		}
		for i, blk := range append(append([]*types.WorkObject{}, common_...), blocks...) {
			if res := r.n.Append(blk); res.Err() != nil {
				r.close()
				return nil, fmt.Errorf("block %d: %v", i, res.Err())
			}
		}
		return r, nil
	}
	ra, err := mk(a)
	if err != nil {
		return "harness", "ref A: " + err.Error(), ""
	}
	defer ra.close()
	rb, err := mk(b)
	if err != nil {
		return "harness", "ref B: " + err.Error(), ""
	}
	defer rb.close()
	n1, err := mk(a)
	if err != nil {
		return "harness", err.Error(), ""
	}
	defer n1.close()
	order := o.Order
	if _, err := n1.n.Insert(b); err != nil {
		return "insert-side-block", fmt.Sprintf("height index %d: sibling refused by Insert: %v", idx, err), cls
	}
	for r, tgt := range []*types.WorkObject{b, a, b} {
		ref := rb
		if tgt == a {
			ref = ra
		}
		if err := n1.n.SetHead(tgt, order); err != nil {
			return fmt.Sprintf("switch%d-error", r), fmt.Sprintf("block index %d: switch %d failed: %v", idx, r, err), cls
		}
		if h := n1.n.Zone().HeaderChain().CurrentHeader().Hash(); h != tgt.Hash() {
			return fmt.Sprintf("switch%d:head-did-not-move", r), fmt.Sprintf("block index %d (%s): SetCurrentHeader returned nil but the head is %x, not the sibling %x", idx, cls, h[:5], tgt.Hash().Bytes()[:5]), cls
		}
		if d := c10CanonDiff(n1.n.VCanon(), ref.n.VCanon()); d != "" {
			var fields []string
			for _, l := range strings.Split(d, "\n") {
				fields = append(fields, strings.SplitN(l, ":", 2)[0])
			}
			return fmt.Sprintf("switch%d:%s", r, strings.Join(fields, "+")), fmt.Sprintf("block index %d (%s) after switch %d:\n%s", idx, cls, r, c11Short(d)), cls
		}
		if err := n1.n.VCheckCommitments(tgt); err != nil {
			return fmt.Sprintf("switch%d:commitment:%s", r, strings.SplitN(err.Error(), ":", 2)[0]), fmt.Sprintf("block index %d after switch %d: %v", idx, r, err), cls
		}
	}
	return "", "", cls
}

func c10Lockups(c *vx.Ctx) {
	p := c.Part("lockups")
	core.VScaleLockBytes()
	p.Bound("pattern", c10LPattern)
	if c.Shard == 0 {
		p.States = 2 * int64(len(c10LPattern)-4)
	}
	p.Bound("delegate_variants", "none; changing from block to block (none, m1, m2)")
	for job := 8; job < 2*len(c10LPattern); job++ {
		idx, variant := job/2, job%2
		if !c.Mine(int64(job)) {
			continue
		}
		if c.Expired() {
			p.Incomplete("deadline")
			return
		}
		var key, desc, cls string
		if perr := vx.Guard(func() { key, desc, cls = c10LRun(idx, variant) }); perr != "" {
			key, desc = "panic:"+vx.PanicSite(perr), perr
		}
		if key == "harness" {
			c.HarnessError(fmt.Sprintf("lockups idx %d: %s", idx, desc))
			return
		}
		p.Transitions += 3
		p.Traces += 3
		if key != "" {
			p.Outcome("DIVERGED:" + cls)
			idx, variant := idx, variant
			if c.Confirm(desc, func() string {
				var k string
				vx.Guard(func() { k, _, _ = c10LRun(idx, variant) })
				return k
			}) {
				c.Violate("lockups", "lockups:"+key, desc, map[string]int{"block_index": idx, "delegates": variant})
			}
			continue
		}
		p.Outcome(cls)
		p.Sample(map[string]any{"fork_at_block_index": idx, "class": cls})
		_ = variant
	}
}
