package main

// C07 part "etx-backlog": the worker stops taking inbound ETXs off the destination queue when the
// block has reached the protocol's floor (more than MinEtxCount ETXs before TimeToStartTx; a fifth of
// the gas limit afterwards) - with the queue still non-empty. Both floors are constants of the
// protocol (50 ETXs; 2.4M gas = 115 coinbase-sized ETXs), so the backlog is produced for real: a run
// of k zone blocks, each of which emits one coinbase ETX, is made coincident with prime at once, for
// every k around the floor. Every block of the run, and the blocks that drain the queue afterwards,
// is assembled by the node's own worker and must be accepted by the node; the routing monitor of C04
// then confirms that every ETX was executed exactly once, in hand-down order.

import (
	"errors"
	"fmt"
	"strings"

	"github.com/dominant-strategies/go-quai/core"
	"github.com/dominant-strategies/go-quai/core/types"
	"github.com/dominant-strategies/go-quai/params"
	"github.com/dominant-strategies/go-quai/verifshim/vx"
)

type c07BacklogCase struct {
	Floor string `json:"floor"` // "count" (before TimeToStartTx) | "gas"
	K     int    `json:"zone_blocks_before_the_prime_block"`
	// Shares: work shares offered to the worker before every zone block of the run (each included
	// share is paid by a coinbase ETX of its own; more than c_zoneHorizonThreshold = 60 zone blocks
	// cannot lie between two prime blocks, so the 115-ETX gas floor needs them)
	Shares int `json:"work_shares_per_block,omitempty"`
}

func c07BacklogRun(cs c07BacklogCase) (key, desc, outcome, harness string) {
	saved := params.TimeToStartTx
	defer func() { params.TimeToStartTx = saved }()
	if cs.Floor == "count" {
		params.TimeToStartTx = 1 << 40
	}
	s, err := newScen(3, false, nil)
	if err != nil {
		return "", "", "", err.Error()
	}
	defer s.close()
	body := "zp" + strings.Repeat("z", cs.K) + "p" + "zzz"
	word := body + c04Drain
	maxIn := 0
	for i := range word {
		if cs.Shares > 0 && i >= 2 && i < 2+cs.K {
			for sh := 0; sh < cs.Shares; sh++ {
				if _, err := s.n.VMakeWorkShare(s.k[2].Addr, 0, int64(i*8+sh)); err != nil {
					return "", "", "", fmt.Sprintf("step %d: work share: %v", i, err)
				}
			}
		}
		if err := s.runWord(word[i : i+1]); err != nil {
			var rej core.VOwnBlockRejected
			if errors.As(err, &rej) {
				return "etx-backlog:own-block-rejected:" + c07ErrClass(rej.Err), fmt.Sprintf("floor %s, %d zone blocks made coincident with prime at once: block %d of %q assembled by the node's own worker is rejected: %v", cs.Floor, cs.K, i, word, rej.Err), "", ""
			}
			return "", "", "", fmt.Sprintf("step %d: %v", i, err)
		}
		n := 0
		for _, t := range s.blocks[len(s.blocks)-1].Transactions() {
			if t.Type() == types.ExternalTxType {
				n++
			}
		}
		if n > maxIn {
			maxIn = n
		}
	}
	limit := s.blocks[len(body)-1].NumberU64(2) + 1
	if k, d := c04Monitor(s, true, limit); k != "" {
		return "etx-backlog:routing:" + k, fmt.Sprintf("floor %s, %d zone blocks made coincident with prime at once: %s", cs.Floor, cs.K, d), "", ""
	}
	return "", "", fmt.Sprintf("%s-floor:max-inbound-per-block=%d", cs.Floor, maxIn), ""
}

func c07Backlog(c *vx.Ctx) {
	if !c.Wants("etx-backlog") {
		return
	}
	p := c.Part("etx-backlog")
	var cases []c07BacklogCase
	lo, hi := params.MinEtxCount-1, params.MinEtxCount+3
	glo, ghi := 39, 44
	if c.Thorough() {
		lo, hi = params.MinEtxCount-3, params.MinEtxCount+8
		glo, ghi = 34, 50
	}
	for k := lo; k <= hi; k++ {
		cases = append(cases, c07BacklogCase{Floor: "count", K: k})
	}
	for k := glo; k <= ghi; k++ {
		cases = append(cases, c07BacklogCase{Floor: "gas", K: k, Shares: 2})
	}
	p.Bound("count_floor_backlogs", fmt.Sprintf("%d..%d zone blocks (floor: more than %d ETXs per block before TimeToStartTx)", lo, hi, params.MinEtxCount))
	p.Bound("gas_floor_backlogs", fmt.Sprintf("%d..%d zone blocks with 2 work shares each (floor: gas limit / %d, coinbase ETXs of %d gas)", glo, ghi, params.MinimumEtxGasDivisor, params.TxGas))
	sawBacklog := false
	for i, cs := range cases {
		if !c.Mine(int64(i)) {
			continue
		}
		if c.Expired() {
			p.Incomplete("deadline")
			return
		}
		key, desc, oc, harness := c07BacklogRun(cs)
		if harness != "" {
			c.HarnessError(fmt.Sprintf("etx-backlog %+v: %s", cs, harness))
			return
		}
		p.Transitions += int64(cs.K + 6 + len(c04Drain))
		p.Traces++
		if key == "" {
			p.Outcome(oc)
			p.Sample(map[string]any{"case": cs, "result": oc})
			sawBacklog = true
			continue
		}
		p.Outcome("VIOLATED:" + key)
		cs := cs
		if c.Confirm(desc, func() string { k, _, _, _ := c07BacklogRun(cs); return k }) {
			c.Violate("etx-backlog", key, desc, map[string]any{"backlog": cs})
		}
	}
	_ = sawBacklog
	if c.Shard == 0 {
		p.States = int64(len(cases))
	}
}
