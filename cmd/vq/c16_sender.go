package main

// C16 part "sender-cache": the sender of a signed Quai transaction is an address object built by
// types.Sender from the recovered key; the object remembers whether it is internal to the location
// of the signer that built it, and types.Sender memoises its result on the transaction object
// (tx.Hash() fills that memo through a signer of its own). "Every constructor classifies an address
// identically for a given node location" must therefore hold for EVERY history of calls on one
// object: all sequences of {Hash(), Sender(signer of location L)} up to a depth, for senders living
// in several zones; the address returned by the LAST Sender call is judged against the reference
// partition for that signer's location and against the same call on a fresh object.

import (
	"fmt"
	"math/big"
	"strings"

	"github.com/dominant-strategies/go-quai/common"
	"github.com/dominant-strategies/go-quai/core"
	"github.com/dominant-strategies/go-quai/core/types"
	"github.com/dominant-strategies/go-quai/verifshim/vx"
)

type c16SenderCase struct {
	KeyZone [2]byte  `json:"key_zone"` // zone the signing key's address lives in
	Ops     []string `json:"ops"`      // "hash" | "sender@r-z"
}

var c16SenderLocs = []common.Location{{0, 0}, {0, 1}, {1, 0}}

func c16SenderOps() []string {
	ops := []string{"hash"}
	for _, l := range c16SenderLocs {
		ops = append(ops, fmt.Sprintf("sender@%d-%d", l[0], l[1]))
	}
	return ops
}

func c16SenderLoc(op string) (common.Location, bool) {
	var r, z int
	if n, _ := fmt.Sscanf(op, "sender@%d-%d", &r, &z); n == 2 {
		return common.Location{byte(r), byte(z)}, true
	}
	return nil, false
}

func c16SenderTx(kz [2]byte) (*types.Transaction, *core.VKey, error) {
	k := core.VGrindKey(7, kz[0], kz[1], false)
	loc := common.Location{kz[0], kz[1]}
	to := core.VGrindKey(8, kz[0], kz[1], false).Addr
	chainID := big.NewInt(9000)
	signed, err := types.SignNewTx(k.Priv, types.NewSigner(chainID, loc), &types.QuaiTx{ChainID: chainID, Nonce: 1, GasPrice: big.NewInt(1), Gas: 21000, To: &to, Value: big.NewInt(1)})
	if err != nil {
		return nil, nil, err
	}
	// a node receives the transaction in its wire form: decode relative to the first location that
	// will look at it (the classification of To is not what is judged here)
	p, err := signed.ProtoEncode()
	if err != nil {
		return nil, nil, err
	}
	tx := new(types.Transaction)
	if err := tx.ProtoDecode(p, loc); err != nil {
		return nil, nil, err
	}
	return tx, k, nil
}

// c16SenderExec runs one case; the judged call is the last op (always a Sender).
func c16SenderExec(cs c16SenderCase) (divs []c16Div, outcome string) {
	tx, k, err := c16SenderTx(cs.KeyZone)
	if err != nil {
		return []c16Div{{"harness", err.Error()}}, ""
	}
	chainID := big.NewInt(9000)
	var last common.Address
	var lastErr error
	var lastLoc common.Location
	if perr := vx.Guard(func() {
		for _, op := range cs.Ops {
			if op == "hash" {
				tx.Hash()
				continue
			}
			l, _ := c16SenderLoc(op)
			lastLoc = l
			last, lastErr = types.Sender(types.NewSigner(chainID, l), tx)
		}
	}); perr != "" {
		return []c16Div{{"sender-cache:panic:" + vx.PanicSite(perr), fmt.Sprintf("call sequence %v on one transaction object panicked: %s", cs.Ops, perr)}}, ""
	}
	if lastErr != nil {
		return []c16Div{{"sender-cache:error", fmt.Sprintf("call sequence %v: Sender fails on a correctly signed transaction: %v", cs.Ops, lastErr)}}, ""
	}
	raw := k.Addr.Bytes()
	if string(last.Bytes()) != string(raw) {
		return []c16Div{{"sender-cache:other-address", fmt.Sprintf("call sequence %v: Sender returns %x, the key's address is %x", cs.Ops, last.Bytes(), raw)}}, ""
	}
	wantInternal := c16RefInternal(raw, lastLoc)
	_, ierr := last.InternalAddress()
	gotInternal := ierr == nil
	_, iqerr := last.InternalAndQuaiAddress()
	hist := strings.Join(cs.Ops[:len(cs.Ops)-1], "+")
	if hist == "" {
		hist = "nothing"
	}
	cls := "external"
	if wantInternal {
		cls = "internal"
	}
	if gotInternal != wantInternal {
		divs = append(divs, c16Div{"sender-cache:classified-for-another-location:after-" + c16SenderHistClass(cs.Ops), fmt.Sprintf("sender %x (zone %d-%d) obtained with a signer of %s after %s on the same object: InternalAddress() succeeds=%v, the reference partition says internal=%v", raw, cs.KeyZone[0], cs.KeyZone[1], c16LocName(lastLoc), hist, gotInternal, wantInternal)})
	}
	if (iqerr == nil) != wantInternal {
		divs = append(divs, c16Div{"sender-cache:internal-quai-verdict-for-another-location:after-" + c16SenderHistClass(cs.Ops), fmt.Sprintf("sender %x (zone %d-%d) obtained with a signer of %s after %s: InternalAndQuaiAddress() succeeds=%v, reference says %v", raw, cs.KeyZone[0], cs.KeyZone[1], c16LocName(lastLoc), hist, iqerr == nil, wantInternal)})
	}
	return divs, "sender:" + cls
}

// c16SenderHistClass names the kinds of calls that preceded the judged one (stable finding key).
func c16SenderHistClass(ops []string) string {
	h, s := false, false
	for _, o := range ops[:len(ops)-1] {
		if o == "hash" {
			h = true
		} else {
			s = true
		}
	}
	switch {
	case h && s:
		return "hash+sender"
	case h:
		return "hash"
	case s:
		return "sender-of-other-location"
	}
	return "nothing"
}

func c16SenderCache(c *vx.Ctx) {
	p := c.Part("sender-cache")
	depth := 3
	if c.Thorough() {
		depth = 4
	}
	p.Bound("call_sequence_length", depth)
	p.Bound("calls", c16SenderOps())
	zones := [][2]byte{{0, 0}, {0, 1}, {1, 0}}
	p.Bound("sender_zones", zones)
	ops := c16SenderOps()
	var idx int64
	reported := map[string]bool{}
	var rec func(cur []string)
	run := func(seq []string) {
		for _, kz := range zones {
			idx++
			if !c.Mine(idx) {
				continue
			}
			cs := c16SenderCase{KeyZone: kz, Ops: append([]string{}, seq...)}
			divs, oc := c16SenderExec(cs)
			p.Transitions++
			p.Traces++
			if int64(len(seq)) > p.MaxDepth {
				p.MaxDepth = int64(len(seq))
			}
			for _, d := range divs {
				if d.Key == "harness" {
					c.HarnessError("sender-cache: " + d.Desc)
					return
				}
				p.Outcome("VIOLATED:" + d.Key)
				if reported[d.Key] {
					continue
				}
				reported[d.Key] = true
				d := d
				if c.Confirm(d.Desc, func() string {
					ds, _ := c16SenderExec(cs)
					for _, x := range ds {
						if x.Key == d.Key {
							return x.Key
						}
					}
					return ""
				}) {
					c.Violate("sender-cache", d.Key, d.Desc, c16Replay{Part: "sender-cache", Sender: &cs})
				}
			}
			if len(divs) == 0 {
				p.Outcome(oc + "/after-" + c16SenderHistClass(seq))
				if len(seq) == depth {
					p.Sample(cs)
				}
			}
		}
	}
	rec = func(cur []string) {
		if len(cur) > 0 && cur[len(cur)-1] != "hash" {
			run(cur)
		}
		if len(cur) == depth {
			return
		}
		for _, o := range ops {
			rec(append(cur, o))
		}
	}
	rec(nil)
	if c.Shard == 0 {
		p.States = idx
	}
}
