package main

// C14 subjects: the three transaction kinds (Quai, External, Qi) and their encoding paths.

import (
	"crypto/ecdsa"
	"encoding/binary"
	"errors"
	"fmt"
	"io"
	"math/big"
	"sort"

	"github.com/btcsuite/btcd/btcec/v2/schnorr"
	"github.com/dominant-strategies/go-quai/common"
	"github.com/dominant-strategies/go-quai/core/rawdb"
	"github.com/dominant-strategies/go-quai/core/types"
	"github.com/dominant-strategies/go-quai/crypto"
	"github.com/dominant-strategies/go-quai/ethdb"
	"github.com/dominant-strategies/go-quai/rlp"
	"github.com/sirupsen/logrus"
	"google.golang.org/protobuf/proto"
)

// ---- shared helpers ---------------------------------------------------------------------------

func c14Logger() *logrus.Logger {
	l := logrus.New()
	l.SetOutput(io.Discard)
	l.ExitFunc = func(int) { panic("logger.Fatal called") }
	return l
}

var c14Log = c14Logger()

func c14Key(seed byte) *ecdsa.PrivateKey {
	d := make([]byte, 32)
	for i := range d {
		d[i] = seed + byte(i)
	}
	d[0] = 0x11
	k, err := crypto.ToECDSA(d)
	if err != nil {
		panic(err)
	}
	return k
}

var (
	c14Key1 = c14Key(7)
	c14Key2 = c14Key(99)
)

// c14NewDB returns an in-memory database that reports the given node location.
func c14NewDB(loc common.Location) (ethdb.Database, ethdb.Database) {
	mem := rawdb.NewMemoryDatabase(c14Log)
	return rawdb.NewTable(mem, "", loc, c14Log), mem
}

// c14DBEnc runs a Write* accessor on a fresh DB and returns the stored key/value pairs as one blob.
func c14DBEnc(loc common.Location, write func(db ethdb.Database) error) ([]byte, error) {
	db, mem := c14NewDB(loc)
	defer mem.Close()
	if err := write(db); err != nil {
		return nil, err
	}
	type kv struct{ k, v []byte }
	var kvs []kv
	it := mem.NewIterator(nil, nil)
	for it.Next() {
		kvs = append(kvs, kv{append([]byte{}, it.Key()...), append([]byte{}, it.Value()...)})
	}
	it.Release()
	sort.Slice(kvs, func(i, j int) bool { return string(kvs[i].k) < string(kvs[j].k) })
	var out []byte
	var l [4]byte
	for _, e := range kvs {
		binary.BigEndian.PutUint32(l[:], uint32(len(e.k)))
		out = append(out, l[:]...)
		out = append(out, e.k...)
		binary.BigEndian.PutUint32(l[:], uint32(len(e.v)))
		out = append(out, l[:]...)
		out = append(out, e.v...)
	}
	return out, nil
}

// c14DBDec loads the blob into a fresh DB and runs a Read* accessor.
func c14DBDec(loc common.Location, blob []byte, read func(db ethdb.Database) (any, error)) (any, error) {
	db, mem := c14NewDB(loc)
	defer mem.Close()
	for len(blob) > 0 {
		if len(blob) < 4 {
			return nil, errors.New("harness: bad kv blob")
		}
		kl := int(binary.BigEndian.Uint32(blob))
		k := blob[4 : 4+kl]
		blob = blob[4+kl:]
		vl := int(binary.BigEndian.Uint32(blob))
		v := blob[4 : 4+vl]
		blob = blob[4+vl:]
		if err := mem.Put(k, v); err != nil {
			return nil, err
		}
	}
	return read(db)
}

var errC14Nil = errors.New("rawdb read accessor returned nil (not found / invalid)")

// ---- transaction content model ----------------------------------------------------------------

func c14CompressedPub(pk []byte) string {
	switch len(pk) {
	case 65:
		if k, err := crypto.UnmarshalPubkey(pk); err == nil {
			return fmt.Sprintf("%x", crypto.CompressPubkey(k))
		}
	case 33:
		if _, err := crypto.DecompressPubkey(pk); err == nil {
			return fmt.Sprintf("%x", pk)
		}
	}
	return fmt.Sprintf("raw:%x", pk)
}

func c14RefAccessList(r *c14Ref, n string, al types.AccessList) {
	r.u(n+".len", uint64(len(al)))
	for i, t := range al {
		r.addr(fmt.Sprintf("%s[%d].addr", n, i), t.Address)
		r.u(fmt.Sprintf("%s[%d].keys", n, i), uint64(len(t.StorageKeys)))
		for j, k := range t.StorageKeys {
			r.h(fmt.Sprintf("%s[%d].key[%d]", n, i, j), k)
		}
	}
}

func c14RefTxInto(r *c14Ref, pre string, tx *types.Transaction) {
	if tx == nil {
		r.s(pre+"tx", "nil")
		return
	}
	if tx.Inner() == nil {
		r.s(pre+"tx", "no-inner")
		return
	}
	r.u(pre+"type", uint64(tx.Type()))
	switch tx.Type() {
	case types.QuaiTxType:
		r.big(pre+"chainId", tx.ChainId())
		r.u(pre+"nonce", tx.Nonce())
		r.big(pre+"gasPrice", tx.GasPrice())
		r.u(pre+"gas", tx.Gas())
		if tx.To() == nil {
			r.s(pre+"to", "nil")
		} else {
			r.addr(pre+"to", *tx.To())
		}
		r.big(pre+"value", tx.Value())
		r.byt(pre+"data", tx.Data())
		c14RefAccessList(r, pre+"accessList", tx.AccessList())
		v, rr, s := tx.GetEcdsaSignatureValues()
		r.big(pre+"v", v)
		r.big(pre+"r", rr)
		r.big(pre+"s", s)
		r.hp(pre+"parentHash", tx.ParentHash())
		r.hp(pre+"mixHash", tx.MixHash())
		if tx.WorkNonce() == nil {
			r.s(pre+"workNonce", "nil")
		} else {
			r.u(pre+"workNonce", tx.WorkNonce().Uint64())
		}
	case types.ExternalTxType:
		r.h(pre+"originatingTxHash", tx.OriginatingTxHash())
		r.u(pre+"etxIndex", uint64(tx.ETXIndex()))
		r.u(pre+"gas", tx.Gas())
		if tx.To() == nil {
			r.s(pre+"to", "nil")
		} else {
			r.addr(pre+"to", *tx.To())
		}
		r.big(pre+"value", tx.Value())
		r.byt(pre+"data", tx.Data())
		c14RefAccessList(r, pre+"accessList", tx.AccessList())
		r.addr(pre+"sender", tx.ETXSender())
		r.u(pre+"etxType", tx.EtxType())
	case types.QiTxType:
		r.big(pre+"chainId", tx.ChainId())
		ins := tx.TxIn()
		r.u(pre+"txIn.len", uint64(len(ins)))
		for i, in := range ins {
			r.h(fmt.Sprintf("%stxIn[%d].txHash", pre, i), in.PreviousOutPoint.TxHash)
			r.u(fmt.Sprintf("%stxIn[%d].index", pre, i), uint64(in.PreviousOutPoint.Index))
			r.s(fmt.Sprintf("%stxIn[%d].pubKey", pre, i), c14CompressedPub(in.PubKey))
		}
		outs := tx.TxOut()
		r.u(pre+"txOut.len", uint64(len(outs)))
		for i, o := range outs {
			r.u(fmt.Sprintf("%stxOut[%d].denomination", pre, i), uint64(o.Denomination))
			r.byt(fmt.Sprintf("%stxOut[%d].address", pre, i), o.Address)
			r.big(fmt.Sprintf("%stxOut[%d].lock", pre, i), o.Lock)
		}
		if sig := tx.GetSchnorrSignature(); sig == nil {
			r.s(pre+"signature", "nil")
		} else {
			r.byt(pre+"signature", sig.Serialize())
		}
		r.byt(pre+"data", tx.Data())
		r.hp(pre+"parentHash", tx.ParentHash())
		r.hp(pre+"mixHash", tx.MixHash())
		if tx.WorkNonce() == nil {
			r.s(pre+"workNonce", "nil")
		} else {
			r.u(pre+"workNonce", tx.WorkNonce().Uint64())
		}
	}
}

func c14RefTx(e *c14Env, o any) string {
	r := c14NewRef()
	c14RefTxInto(r, "", o.(*types.Transaction))
	return r.String()
}

func c14RefTxs(r *c14Ref, n string, txs types.Transactions) {
	r.u(n+".len", uint64(len(txs)))
	for i, t := range txs {
		c14RefTxInto(r, fmt.Sprintf("%s[%d].", n, i), t)
	}
}

// c14FreshTx wraps the same inner data in a Transaction without caches.
func c14FreshTx(tx *types.Transaction) *types.Transaction {
	t := new(types.Transaction)
	t.SetInner(tx.Inner())
	return t
}

// c14HashTx: the identity of a transaction = Hash() (sender-derived prefix) and Hash(loc...) (the
// form used when the origin is known), each computed on a cache-free wrapper, plus the possibly
// memoised Hash() of the object itself (a stale cache shows up as a difference between them).
func c14HashTx(e *c14Env, o any) string {
	tx := o.(*types.Transaction)
	h1 := c14FreshTx(tx).Hash()
	h2 := c14FreshTx(tx).Hash(e.Loc...)
	h3 := tx.Hash()
	if h3 != h1 {
		return fmt.Sprintf("%x/%x/memoised:%x", h1[:], h2[:], h3[:])
	}
	return fmt.Sprintf("%x/%x", h1[:], h2[:])
}

// ---- transaction paths ------------------------------------------------------------------------

func c14TxPaths() []c14Path {
	return []c14Path{
		{Name: "proto",
			Enc: func(e *c14Env, o any) ([]byte, error) {
				p, err := o.(*types.Transaction).ProtoEncode()
				if err != nil {
					return nil, err
				}
				return proto.Marshal(p)
			},
			Dec: func(e *c14Env, b []byte) (any, error) {
				p := new(types.ProtoTransaction)
				if err := proto.Unmarshal(b, p); err != nil {
					return nil, err
				}
				tx := new(types.Transaction)
				if err := tx.ProtoDecode(p, e.Loc); err != nil {
					return nil, err
				}
				return tx, nil
			}},
		{Name: "rlp",
			Enc: func(e *c14Env, o any) ([]byte, error) { return rlp.EncodeToBytes(o.(*types.Transaction)) },
			Dec: func(e *c14Env, b []byte) (any, error) {
				tx := new(types.Transaction)
				if err := rlp.DecodeBytes(b, tx); err != nil {
					return nil, err
				}
				return tx, nil
			}},
		{Name: "binary", // the raw form served by quai_getRawTransaction* and accepted by UnmarshalBinary
			Enc: func(e *c14Env, o any) ([]byte, error) { return o.(*types.Transaction).MarshalBinary() },
			Dec: func(e *c14Env, b []byte) (any, error) {
				tx := new(types.Transaction)
				if err := tx.UnmarshalBinary(b); err != nil {
					return nil, err
				}
				return tx, nil
			}},
		{Name: "json",
			Enc: func(e *c14Env, o any) ([]byte, error) { return o.(*types.Transaction).MarshalJSON() },
			Dec: func(e *c14Env, b []byte) (any, error) {
				tx := new(types.Transaction)
				if err := tx.UnmarshalJSON(b); err != nil {
					return nil, err
				}
				return tx, nil
			}},
		{Name: "rawdb-inboundEtxs",
			Applies: func(o any) bool { return o.(*types.Transaction).Type() == types.ExternalTxType },
			Enc: func(e *c14Env, o any) ([]byte, error) {
				return c14DBEnc(e.Loc, func(db ethdb.Database) error {
					rawdb.WriteInboundEtxs(db, c14HashOf("blk"), types.Transactions{o.(*types.Transaction)})
					return nil
				})
			},
			Dec: func(e *c14Env, b []byte) (any, error) {
				return c14DBDec(e.Loc, b, func(db ethdb.Database) (any, error) {
					txs := rawdb.ReadInboundEtxs(db, c14HashOf("blk"))
					if len(txs) != 1 {
						return nil, fmt.Errorf("ReadInboundEtxs returned %d transactions, want 1", len(txs))
					}
					return txs[0], nil
				})
			}},
	}
}

// ---- Quai transaction -------------------------------------------------------------------------

func c14AccessListMenu() []c14Val {
	return []c14Val{{L: "1tuple-2keys", V: "1x2"}, {L: "nil", V: "nil"}, {L: "empty", V: "empty"}, {L: "tuple-nokeys", V: "1x0"},
		{L: "2tuples", V: "2"}, {L: "external-addr", V: "ext"}, {L: "zero-key", V: "zerokey"}}
}

func c14ResolveAccessList(sym string, loc common.Location) types.AccessList {
	in, _ := c14ResolveAddr(c14AInQuai, loc, 0x21)
	in2, _ := c14ResolveAddr(c14AInQi, loc, 0x22)
	ext, _ := c14ResolveAddr(c14AExtQuai, loc, 0x23)
	switch sym {
	case "nil":
		return nil
	case "empty":
		return types.AccessList{}
	case "1x2":
		return types.AccessList{{Address: in, StorageKeys: []common.Hash{c14HashOf("k1"), c14HashOf("k2")}}}
	case "1x0":
		return types.AccessList{{Address: in, StorageKeys: nil}}
	case "2":
		return types.AccessList{{Address: in, StorageKeys: []common.Hash{c14HashOf("k1")}}, {Address: in2, StorageKeys: []common.Hash{}}}
	case "ext":
		return types.AccessList{{Address: ext, StorageKeys: []common.Hash{c14HashOf("k1")}}}
	case "zerokey":
		return types.AccessList{{Address: in, StorageKeys: []common.Hash{{}}}}
	}
	panic("bad access list symbol")
}

// Work fields (ParentHash, MixHash, WorkNonce) are optional pointers. The group field "work" selects
// the baseline regime (all absent / all present) and the three individual fields deviate from it.
type c14Inherit struct{}

func c14WorkMenu() []c14Val {
	return []c14Val{{L: "none", V: "none"}, {L: "all-set", V: "typ"}, {L: "all-zero", V: "zero"}}
}

func c14WorkHashMenu(seed string) []c14Val {
	m := c14HashMenu(seed + "2")
	m[0].L = "other"
	return append([]c14Val{{L: "inherit", V: c14Inherit{}}, {L: "nil", V: nil}}, m...)
}

func c14WorkNonceMenu() []c14Val {
	return []c14Val{{L: "inherit", V: c14Inherit{}}, {L: "nil", V: nil}, {L: "other", V: uint64(0x1112131415161718)}, {L: "0", V: uint64(0)}, {L: "1", V: uint64(1)}, {L: "256", V: uint64(256)}, {L: "max64", V: ^uint64(0)}}
}

func c14WorkHash(v *c14Vals, n, seed string) *common.Hash {
	x := v.raw(n)
	if _, ok := x.(c14Inherit); ok {
		switch v.str("work") {
		case "none":
			return nil
		case "typ":
			h := c14HashOf(seed)
			return &h
		default:
			return &common.Hash{}
		}
	}
	if x == nil {
		return nil
	}
	h := x.(common.Hash)
	return &h
}

func c14WorkNonce(v *c14Vals, n string) *types.BlockNonce {
	x := v.raw(n)
	if _, ok := x.(c14Inherit); ok {
		switch v.str("work") {
		case "none":
			return nil
		case "typ":
			bn := types.EncodeNonce(0x0102030405060708)
			return &bn
		default:
			return &types.BlockNonce{}
		}
	}
	if x == nil {
		return nil
	}
	bn := types.EncodeNonce(x.(uint64))
	return &bn
}

func c14AddrPtr(v *c14Vals, n string, loc common.Location, tag byte) *common.Address {
	a, nilp := c14ResolveAddr(v.raw(n).(c14AddrSym), loc, tag)
	if nilp {
		return nil
	}
	return &a
}

func init() {
	c14Register(&c14Subject{
		Name:   "quaitx",
		Domain: "tx",
		Fields: func() []c14Field {
			return []c14Field{
				{N: "loc", M: c14LocMenu()},
				{N: "chainId", M: []c14Val{{L: "9000", V: big.NewInt(9000)}, {L: "nil", V: (*big.Int)(nil)}, {L: "0", V: big.NewInt(0)}, {L: "1", V: big.NewInt(1)}, {L: "2^64-1", V: c14Max(64)}, {L: "2^256-1", V: c14Max(256)}}},
				{N: "nonce", M: c14U64Menu(7)},
				{N: "gasPrice", M: c14BigMenu(1_000_000_007, false)},
				{N: "gas", M: c14U64Menu(21000)},
				{N: "to", M: c14AddrMenu(c14AInQuai, true, false, true, true)},
				{N: "value", M: c14BigMenu(123456789, false)},
				{N: "data", M: c14BytesMenu([]byte{0xde, 0xad, 0xbe, 0xef})},
				{N: "accessList", M: c14AccessListMenu()},
				{N: "sig", M: []c14Val{{L: "signed", V: "signed"}, {L: "unsigned(0,0,0)", V: "unsigned"}, {L: "signed-key2", V: "signed2"},
					{L: "v=2", V: "badv", Ill: true}, {L: "r=0", V: "zeror", Ill: true}, {L: "s=N", V: "bigs", Ill: true}}},
				{N: "work", M: c14WorkMenu()},
				{N: "parentHash", M: c14WorkHashMenu("txparent")},
				{N: "mixHash", M: c14WorkHashMenu("txmix")},
				{N: "workNonce", M: c14WorkNonceMenu()},
			}
		},
		Build: func(e *c14Env, v *c14Vals) (any, bool) {
			inner := &types.QuaiTx{
				ChainID:    v.big("chainId"),
				Nonce:      v.u64("nonce"),
				GasPrice:   v.big("gasPrice"),
				Gas:        v.u64("gas"),
				To:         c14AddrPtr(v, "to", e.Loc, 0x31),
				Value:      v.big("value"),
				Data:       v.bytes("data"),
				AccessList: c14ResolveAccessList(v.str("accessList"), e.Loc),
				ParentHash: c14WorkHash(v, "parentHash", "txparent"),
				MixHash:    c14WorkHash(v, "mixHash", "txmix"),
				WorkNonce:  c14WorkNonce(v, "workNonce"),
			}
			tx := types.NewTx(inner)
			sig := v.str("sig")
			if sig == "unsigned" {
				return tx, false
			}
			key := c14Key1
			if sig == "signed2" {
				key = c14Key2
			}
			signer := types.NewSigner(tx.ChainId(), e.Loc)
			stx, err := types.SignTx(tx, signer, key)
			if err != nil {
				panic("harness: cannot sign: " + err.Error())
			}
			switch sig {
			case "badv", "zeror", "bigs":
				in := stx.Inner().(*types.QuaiTx)
				cp := *in
				switch sig {
				case "badv":
					cp.V = big.NewInt(2)
				case "zeror":
					cp.R = big.NewInt(0)
				case "bigs":
					cp.S = new(big.Int).Set(crypto.S256().Params().N)
				}
				return types.NewTx(&cp), true
			}
			return stx, false
		},
		Ref:   c14RefTx,
		Hash:  c14HashTx,
		Paths: c14TxPaths(),
	})
}

// ---- External transaction ---------------------------------------------------------------------

func init() {
	c14Register(&c14Subject{
		Name:   "etx",
		Domain: "tx",
		Fields: func() []c14Field {
			return []c14Field{
				{N: "loc", M: c14LocMenu()},
				{N: "originatingTxHash", M: c14HashMenu("orig")},
				{N: "etxIndex", M: []c14Val{{L: "3", V: uint64(3)}, {L: "0", V: uint64(0)}, {L: "255", V: uint64(255)}, {L: "256", V: uint64(256)}, {L: "65535", V: uint64(65535)}}},
				{N: "gas", M: c14U64Menu(42000)},
				{N: "to", M: c14AddrMenu(c14AInQuai, true, true, true, true)},
				{N: "value", M: c14BigMenu(5_000_000, false)},
				{N: "data", M: c14BytesMenu([]byte{1, 2, 3})},
				{N: "accessList", M: c14AccessListMenu()},
				{N: "sender", M: c14AddrMenu(c14AExtQuai, false, false, true, true)},
				{N: "etxType", M: []c14Val{{L: "default", V: uint64(types.DefaultType)}, {L: "coinbase", V: uint64(types.CoinbaseType)}, {L: "conversion", V: uint64(types.ConversionType)},
					{L: "coinbaseLockup", V: uint64(types.CoinbaseLockupType)}, {L: "wrappingQi", V: uint64(types.WrappingQiType)}, {L: "conversionRevert", V: uint64(types.ConversionRevertType)},
					{L: "unwrapQi", V: uint64(types.UnwrapQiType)}, {L: "7", V: uint64(7)}, {L: "max64", V: ^uint64(0)}}},
			}
		},
		Build: func(e *c14Env, v *c14Vals) (any, bool) {
			sender, _ := c14ResolveAddr(v.raw("sender").(c14AddrSym), e.Loc, 0x41)
			inner := &types.ExternalTx{
				OriginatingTxHash: v.hash("originatingTxHash"),
				ETXIndex:          uint16(v.u64("etxIndex")),
				Gas:               v.u64("gas"),
				To:                c14AddrPtr(v, "to", e.Loc, 0x42),
				Value:             v.big("value"),
				Data:              v.bytes("data"),
				AccessList:        c14ResolveAccessList(v.str("accessList"), e.Loc),
				Sender:            sender,
				EtxType:           v.u64("etxType"),
			}
			return types.NewTx(inner), false
		},
		Ref:   c14RefTx,
		Hash:  c14HashTx,
		Paths: c14TxPaths(),
	})
}

// ---- Qi transaction ---------------------------------------------------------------------------

func c14SchnorrSig(seed string) *schnorr.Signature {
	r := c14HashOf(seed + "r")
	s := c14HashOf(seed + "s")
	r[0] &= 0x7f
	s[0] &= 0x7f
	sig, err := schnorr.ParseSignature(append(r[:], s[:]...))
	if err != nil {
		panic("harness: schnorr sig: " + err.Error())
	}
	return sig
}

func c14PubMenu() []c14Val {
	u1 := crypto.FromECDSAPub(&c14Key1.PublicKey)
	u2 := crypto.FromECDSAPub(&c14Key2.PublicKey)
	c1 := crypto.CompressPubkey(&c14Key1.PublicKey)
	bad65 := append([]byte{4}, make([]byte, 64)...)
	return []c14Val{{L: "uncompressed65", V: u1}, {L: "compressed33", V: c1}, {L: "other-key65", V: u2},
		{L: "len20", V: make([]byte, 20), Ill: true}, {L: "nil", V: []byte(nil), Ill: true}, {L: "65B-not-on-curve", V: bad65, Ill: true}}
}

func init() {
	c14Register(&c14Subject{
		Name:   "qitx",
		Domain: "tx",
		Fields: func() []c14Field {
			return []c14Field{
				{N: "loc", M: c14LocMenu()},
				{N: "chainId", M: []c14Val{{L: "9000", V: big.NewInt(9000)}, {L: "nil", V: (*big.Int)(nil)}, {L: "0", V: big.NewInt(0)}, {L: "2^64-1", V: c14Max(64)}, {L: "2^256-1", V: c14Max(256)}}},
				{N: "in0.txHash", M: c14HashMenu("prevout")},
				{N: "in0.index", M: []c14Val{{L: "2", V: uint64(2)}, {L: "0", V: uint64(0)}, {L: "255", V: uint64(255)}, {L: "256", V: uint64(256)}, {L: "65535", V: uint64(65535)}}},
				{N: "in0.pubKey", M: c14PubMenu()},
				{N: "ins", M: []c14Val{{L: "1", V: "1"}, {L: "2", V: "2"}, {L: "0", V: "0", Ill: true}, {L: "nil", V: "nil", Ill: true}}},
				{N: "out0.denomination", M: []c14Val{{L: "5", V: uint64(5)}, {L: "0", V: uint64(0)}, {L: "14", V: uint64(14)}, {L: "15", V: uint64(15)}, {L: "255", V: uint64(255)}}},
				{N: "out0.address", M: []c14Val{{L: "20B", V: c14Addr20(common.Location{0, 0}, true, 0x51)}, {L: "20B-zero", V: make([]byte, 20)}, {L: "20B-quai-ledger", V: c14Addr20(common.Location{0, 1}, false, 0x53)},
					// since 27790edd TxOut.ProtoDecode rejects owners that are not exactly 20 bytes: such outputs are not well-formed
					{L: "nil", V: []byte(nil), Ill: true}, {L: "empty", V: []byte{}, Ill: true},
					{L: "19B", V: c14Addr20(common.Location{1, 0}, true, 0x52)[:19], Ill: true}, {L: "32B", V: append(c14Addr20(common.Location{0, 1}, false, 0x53), make([]byte, 12)...), Ill: true}}},
				{N: "out0.lock", M: c14BigMenu(1000, false)},
				{N: "outs", M: []c14Val{{L: "1", V: "1"}, {L: "2", V: "2"}, {L: "0", V: "0"}, {L: "nil", V: "nil"}}},
				{N: "signature", M: []c14Val{{L: "typ", V: "typ"}, {L: "nil", V: "nil"}, {L: "other", V: "other"}}},
				{N: "data", M: c14BytesMenu([]byte{9, 8, 7})},
				{N: "work", M: c14WorkMenu()},
				{N: "parentHash", M: c14WorkHashMenu("qiparent")},
				{N: "mixHash", M: c14WorkHashMenu("qimix")},
				{N: "workNonce", M: c14WorkNonceMenu()},
			}
		},
		Build: func(e *c14Env, v *c14Vals) (any, bool) {
			in0 := types.TxIn{PreviousOutPoint: types.OutPoint{TxHash: v.hash("in0.txHash"), Index: uint16(v.u64("in0.index"))}, PubKey: v.bytes("in0.pubKey")}
			var ins types.TxIns
			switch v.str("ins") {
			case "1":
				ins = types.TxIns{in0}
			case "2":
				ins = types.TxIns{in0, {PreviousOutPoint: types.OutPoint{TxHash: c14HashOf("prev2"), Index: 1}, PubKey: crypto.CompressPubkey(&c14Key2.PublicKey)}}
			case "0":
				ins = types.TxIns{}
			case "nil":
				ins = nil
			}
			out0 := types.TxOut{Denomination: uint8(v.u64("out0.denomination")), Address: v.bytes("out0.address"), Lock: v.big("out0.lock")}
			var outs types.TxOuts
			switch v.str("outs") {
			case "1":
				outs = types.TxOuts{out0}
			case "2":
				outs = types.TxOuts{out0, {Denomination: 1, Address: c14Addr20(e.Loc, true, 0x54), Lock: big.NewInt(0)}}
			case "0":
				outs = types.TxOuts{}
			case "nil":
				outs = nil
			}
			var sig *schnorr.Signature
			switch v.str("signature") {
			case "typ":
				sig = c14SchnorrSig("a")
			case "other":
				sig = c14SchnorrSig("b")
			}
			inner := &types.QiTx{
				ChainID:    v.big("chainId"),
				TxIn:       ins,
				TxOut:      outs,
				Signature:  sig,
				Data:       v.bytes("data"),
				ParentHash: c14WorkHash(v, "parentHash", "qiparent"),
				MixHash:    c14WorkHash(v, "mixHash", "qimix"),
				WorkNonce:  c14WorkNonce(v, "workNonce"),
			}
			return types.NewTx(inner), false
		},
		Ref:   c14RefTx,
		Hash:  c14HashTx,
		Paths: c14TxPaths(),
	})
}
