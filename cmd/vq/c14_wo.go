package main

// C14 subjects: WorkObject in each view, pending-ETX bundles, PendingHeader, Termini, p2p envelopes.

import (
	"encoding/json"
	"errors"
	"fmt"
	"math/big"

	"github.com/dominant-strategies/go-quai/common"
	"github.com/dominant-strategies/go-quai/core/rawdb"
	"github.com/dominant-strategies/go-quai/core/types"
	"github.com/dominant-strategies/go-quai/ethdb"
	"github.com/dominant-strategies/go-quai/p2p/pb"
	"google.golang.org/protobuf/proto"
)

// c14BuildFrom builds an object of another subject: its baseline plus the named deviations, at
// the given node location.
func c14BuildFrom(subject string, e *c14Env, devs map[string]string) any {
	s := c14SubjectByName(subject)
	if s == nil {
		panic("c14: unknown subject " + subject)
	}
	fields := s.F()
	choice, err := c14ChoiceFromDevs(fields, devs)
	if err != nil {
		panic("c14: " + err.Error())
	}
	idx := map[string]int{}
	for i, f := range fields {
		idx[f.N] = i
	}
	// force the location
	li := idx["loc"]
	found := false
	for m, v := range fields[li].M {
		if common.Location(v.V.(common.Location)).Equal(e.Loc) {
			choice[li] = m
			found = true
		}
	}
	if !found {
		fields = append([]c14Field{}, fields...)
		fields[li] = c14Field{N: "loc", M: []c14Val{{L: "env", V: append(common.Location{}, e.Loc...)}}}
		choice[li] = 0
	}
	o, _ := s.Build(e, &c14Vals{idx: idx, f: fields, c: choice})
	return o
}

func c14Tx(subject string, e *c14Env, devs map[string]string) *types.Transaction {
	return c14BuildFrom(subject, e, devs).(*types.Transaction)
}

func c14TxsMenu() []c14Val {
	return []c14Val{{L: "quai+qi+etx", V: "3"}, {L: "nil", V: "nil"}, {L: "empty", V: "empty"}, {L: "quai", V: "quai"}, {L: "qi", V: "qi"}, {L: "etx", V: "etx"},
		{L: "quai-create+qi2", V: "alt"}}
}

func c14ResolveTxs(sym string, e *c14Env) types.Transactions {
	switch sym {
	case "nil":
		return nil
	case "empty":
		return types.Transactions{}
	case "quai":
		return types.Transactions{c14Tx("quaitx", e, nil)}
	case "qi":
		return types.Transactions{c14Tx("qitx", e, nil)}
	case "etx":
		return types.Transactions{c14Tx("etx", e, nil)}
	case "3":
		return types.Transactions{c14Tx("quaitx", e, nil), c14Tx("qitx", e, nil), c14Tx("etx", e, nil)}
	case "alt":
		return types.Transactions{c14Tx("quaitx", e, map[string]string{"to": "nil-pointer", "data": "300B"}), c14Tx("qitx", e, map[string]string{"ins": "2", "outs": "2"})}
	}
	panic("bad txs symbol")
}

func c14EtxsMenu() []c14Val {
	return []c14Val{{L: "1", V: "1"}, {L: "nil", V: "nil"}, {L: "empty", V: "empty"}, {L: "2", V: "2"}}
}

func c14ResolveEtxs(sym string, e *c14Env) types.Transactions {
	switch sym {
	case "nil":
		return nil
	case "empty":
		return types.Transactions{}
	case "1":
		return types.Transactions{c14Tx("etx", e, map[string]string{"etxType": "conversion"})}
	case "2":
		return types.Transactions{c14Tx("etx", e, map[string]string{"etxIndex": "65535"}), c14Tx("etx", e, map[string]string{"etxType": "coinbase", "to": "external-qi"})}
	}
	panic("bad etxs symbol")
}

func c14WoHeaderMenu() []c14Val {
	return []c14Val{{L: "prefork", V: "pre"}, {L: "prefork-alt", V: "pre2"}, {L: "kawpow", V: "kaw"}, {L: "kawpow-transition(no auxpow)", V: "kawt"}, {L: "kawpow-scrypt-auxpow2", V: "scrypt"}}
}

func c14ResolveWoHeader(sym string, e *c14Env) *types.WorkObjectHeader {
	switch sym {
	case "pre":
		return c14BuildFrom("woheader-prefork", e, nil).(*types.WorkObjectHeader)
	case "pre2":
		return c14BuildFrom("woheader-prefork", e, map[string]string{"number": "2^256-1", "lock": "255", "data": "nil", "primaryCoinbase": "internal-qi"}).(*types.WorkObjectHeader)
	case "kaw":
		return c14BuildFrom("woheader-kawpow", e, nil).(*types.WorkObjectHeader)
	case "kawt":
		return c14BuildFrom("woheader-kawpow", e, map[string]string{"auxPow": "nil(transition)"}).(*types.WorkObjectHeader)
	case "scrypt":
		return c14BuildFrom("woheader-kawpow", e, map[string]string{"auxPow": "scrypt", "auxPow.auxPow2": "32B"}).(*types.WorkObjectHeader)
	}
	panic("bad woheader symbol")
}

func c14BodyHeaderMenu() []c14Val {
	return []c14Val{{L: "typ", V: "typ"}, {L: "empty(EmptyHeader)", V: "empty"}, {L: "alt", V: "alt"}}
}

func c14ResolveBodyHeader(sym string, e *c14Env) *types.Header {
	switch sym {
	case "typ":
		return c14BuildFrom("header", e, nil).(*types.Header)
	case "empty":
		return types.EmptyHeader()
	case "alt":
		return c14BuildFrom("header", e, map[string]string{"number[1]": "2^256-1", "extra": "nil", "efficiencyScore": "65535", "expansionNumber": "255", "parentEntropy[2]": "0"}).(*types.Header)
	}
	panic("bad header symbol")
}

func c14UnclesMenu() []c14Val {
	return []c14Val{{L: "1", V: "1"}, {L: "nil", V: "nil"}, {L: "empty", V: "empty"}, {L: "2(prefork+kawpow)", V: "2"}}
}

func c14ResolveUncles(sym string, e *c14Env) []*types.WorkObjectHeader {
	switch sym {
	case "nil":
		return nil
	case "empty":
		return []*types.WorkObjectHeader{}
	case "1":
		return []*types.WorkObjectHeader{c14ResolveWoHeader("pre2", e)}
	case "2":
		return []*types.WorkObjectHeader{c14ResolveWoHeader("pre", e), c14ResolveWoHeader("kaw", e)}
	}
	panic("bad uncles symbol")
}

func c14HashListMenu() []c14Val {
	return []c14Val{{L: "2", V: "2"}, {L: "nil", V: "nil"}, {L: "empty", V: "empty"}, {L: "1-zero", V: "1z"}, {L: "4", V: "4"}}
}

func c14ResolveHashList(sym, seed string) []common.Hash {
	switch sym {
	case "nil":
		return nil
	case "empty":
		return []common.Hash{}
	case "1z":
		return []common.Hash{{}}
	case "2":
		return []common.Hash{c14HashOf(seed + "1"), c14HashOf(seed + "2")}
	case "4":
		return []common.Hash{c14HashOf(seed + "1"), c14HashOf(seed + "2"), {}, c14HashOf(seed + "4")}
	}
	panic("bad hash list symbol")
}

func c14RefWoInto(r *c14Ref, pre string, wo *types.WorkObject) {
	if wo == nil {
		r.s(pre+"wo", "nil")
		return
	}
	c14RefWoHeaderInto(r, pre+"woHeader.", wo.WorkObjectHeader())
	b := wo.Body()
	if b == nil {
		r.s(pre+"woBody", "nil")
	} else {
		c14RefHeaderInto(r, pre+"body.header.", b.Header())
		c14RefTxs(r, pre+"body.transactions", b.Transactions())
		c14RefTxs(r, pre+"body.outboundEtxs", b.OutboundEtxs())
		r.u(pre+"body.uncles.len", uint64(len(b.Uncles())))
		for i, u := range b.Uncles() {
			c14RefWoHeaderInto(r, fmt.Sprintf("%sbody.uncles[%d].", pre, i), u)
		}
		r.u(pre+"body.manifest.len", uint64(len(b.Manifest())))
		for i, h := range b.Manifest() {
			r.h(fmt.Sprintf("%sbody.manifest[%d]", pre, i), h)
		}
		r.u(pre+"body.interlinkHashes.len", uint64(len(b.InterlinkHashes())))
		for i, h := range b.InterlinkHashes() {
			r.h(fmt.Sprintf("%sbody.interlinkHashes[%d]", pre, i), h)
		}
	}
	if wo.Tx() == nil || wo.Tx().Inner() == nil {
		r.s(pre+"tx", "none")
	} else {
		c14RefTxInto(r, pre+"tx.", wo.Tx())
	}
}

func c14RefWo(e *c14Env, o any) string {
	r := c14NewRef()
	c14RefWoInto(r, "", o.(*types.WorkObject))
	return r.String()
}

func c14HashWo(e *c14Env, o any) string {
	wo := o.(*types.WorkObject)
	s := c14HashWoHeader(wo.WorkObjectHeader())
	if h := wo.Hash(); fmt.Sprintf("%x", h[:]) != s[:64] {
		s += fmt.Sprintf("/wo.Hash:%x", h[:])
	}
	if wo.Body() != nil && wo.Body().Header() != nil {
		h := wo.Body().Header().Hash()
		s += fmt.Sprintf("/body:%x", h[:])
	}
	return s
}

func c14WoProtoEnc(wo *types.WorkObject, view types.WorkObjectView) ([]byte, error) {
	p, err := wo.ProtoEncode(view)
	if err != nil {
		return nil, err
	}
	return proto.Marshal(p)
}

func c14WoProtoDec(b []byte, loc common.Location, view types.WorkObjectView) (any, error) {
	p := new(types.ProtoWorkObject)
	if err := proto.Unmarshal(b, p); err != nil {
		return nil, err
	}
	wo := new(types.WorkObject)
	if err := wo.ProtoDecode(p, loc, view); err != nil {
		return nil, err
	}
	return wo, nil
}

func c14NoTx(wo *types.WorkObject) *types.WorkObject {
	cp := types.CopyWorkObject(wo)
	cp.SetTx(nil)
	return cp
}

func c14WoKey() common.Hash { return c14HashOf("wo-db-key") }

func c14WoNumber(db ethdb.Database) (uint64, error) {
	n := rawdb.ReadHeaderNumber(db, c14WoKey())
	if n == nil {
		return 0, errors.New("ReadHeaderNumber returned nil")
	}
	return *n, nil
}

func c14WoPaths() []c14Path {
	projHeader := func(e *c14Env, o any) any { return o.(*types.WorkObject).ConvertToHeaderView().WorkObject }
	projPEtx := func(e *c14Env, o any) any { return c14NoTx(o.(*types.WorkObject).ConvertToPEtxView()) }
	projShare := func(e *c14Env, o any) any {
		wo := o.(*types.WorkObject)
		return wo.ConvertToWorkObjectShareView(wo.Transactions()).WorkObject
	}
	projWorkShares := func(e *c14Env, o any) any {
		wo := o.(*types.WorkObject)
		return c14NoTx(wo.WithBody(wo.Header(), nil, nil, wo.Uncles(), nil, nil))
	}
	projNoTx := func(e *c14Env, o any) any { return c14NoTx(o.(*types.WorkObject)) }
	return []c14Path{
		{Name: "proto-block",
			Enc: func(e *c14Env, o any) ([]byte, error) { return c14WoProtoEnc(o.(*types.WorkObject), types.BlockObject) },
			Dec: func(e *c14Env, b []byte) (any, error) { return c14WoProtoDec(b, e.Loc, types.BlockObject) }},
		{Name: "proto-headerview", Proj: projHeader,
			Enc: func(e *c14Env, o any) ([]byte, error) {
				p, err := (&types.WorkObjectHeaderView{WorkObject: o.(*types.WorkObject)}).ProtoEncode()
				if err != nil {
					return nil, err
				}
				return proto.Marshal(p)
			},
			Dec: func(e *c14Env, b []byte) (any, error) {
				p := new(types.ProtoWorkObjectHeaderView)
				if err := proto.Unmarshal(b, p); err != nil {
					return nil, err
				}
				v := new(types.WorkObjectHeaderView)
				if err := v.ProtoDecode(p, e.Loc); err != nil {
					return nil, err
				}
				return v.WorkObject, nil
			}},
		{Name: "proto-petx", Proj: projPEtx,
			Enc: func(e *c14Env, o any) ([]byte, error) { return c14WoProtoEnc(o.(*types.WorkObject), types.PEtxObject) },
			Dec: func(e *c14Env, b []byte) (any, error) { return c14WoProtoDec(b, e.Loc, types.PEtxObject) }},
		{Name: "proto-shareview", Proj: projShare,
			Enc: func(e *c14Env, o any) ([]byte, error) {
				p, err := (&types.WorkObjectShareView{WorkObject: o.(*types.WorkObject)}).ProtoEncode()
				if err != nil {
					return nil, err
				}
				return proto.Marshal(p)
			},
			Dec: func(e *c14Env, b []byte) (any, error) {
				p := new(types.ProtoWorkObjectShareView)
				if err := proto.Unmarshal(b, p); err != nil {
					return nil, err
				}
				v := new(types.WorkObjectShareView)
				if err := v.ProtoDecode(p, e.Loc); err != nil {
					return nil, err
				}
				return v.WorkObject, nil
			}},
		{Name: "gossip-block",
			Enc: func(e *c14Env, o any) ([]byte, error) {
				return pb.ConvertAndMarshal(o.(*types.WorkObject).ConvertToBlockView())
			},
			Dec: func(e *c14Env, b []byte) (any, error) {
				var out interface{}
				if err := pb.UnmarshalAndConvert(b, e.Loc, &out, &types.WorkObjectBlockView{}); err != nil {
					return nil, err
				}
				return out.(types.WorkObjectBlockView).WorkObject, nil
			}},
		{Name: "gossip-headerview", Proj: projHeader,
			Enc: func(e *c14Env, o any) ([]byte, error) {
				return pb.ConvertAndMarshal(&types.WorkObjectHeaderView{WorkObject: o.(*types.WorkObject)})
			},
			Dec: func(e *c14Env, b []byte) (any, error) {
				var out interface{}
				if err := pb.UnmarshalAndConvert(b, e.Loc, &out, &types.WorkObjectHeaderView{}); err != nil {
					return nil, err
				}
				return out.(types.WorkObjectHeaderView).WorkObject, nil
			}},
		{Name: "gossip-shareview", Proj: projShare,
			Enc: func(e *c14Env, o any) ([]byte, error) {
				return pb.ConvertAndMarshal(&types.WorkObjectShareView{WorkObject: o.(*types.WorkObject)})
			},
			Dec: func(e *c14Env, b []byte) (any, error) {
				var out interface{}
				if err := pb.UnmarshalAndConvert(b, e.Loc, &out, &types.WorkObjectShareView{}); err != nil {
					return nil, err
				}
				return out.(types.WorkObjectShareView).WorkObject, nil
			}},
		{Name: "p2p-response-block",
			Enc: func(e *c14Env, o any) ([]byte, error) {
				return pb.EncodeQuaiResponse(4711, e.Loc, &types.WorkObjectBlockView{}, o.(*types.WorkObject).ConvertToBlockView())
			},
			Dec: func(e *c14Env, b []byte) (any, error) {
				msg, err := pb.DecodeQuaiMessage(b)
				if err != nil {
					return nil, err
				}
				id, v, err := pb.DecodeQuaiResponse(msg.GetResponse())
				if err != nil {
					return nil, err
				}
				if id != 4711 {
					return nil, fmt.Errorf("response id changed: %d", id)
				}
				return v.(*types.WorkObjectBlockView).WorkObject, nil
			}},
		{Name: "p2p-response-headerview", Proj: projHeader,
			Enc: func(e *c14Env, o any) ([]byte, error) {
				return pb.EncodeQuaiResponse(4712, e.Loc, &types.WorkObjectHeaderView{}, &types.WorkObjectHeaderView{WorkObject: o.(*types.WorkObject)})
			},
			Dec: func(e *c14Env, b []byte) (any, error) {
				msg, err := pb.DecodeQuaiMessage(b)
				if err != nil {
					return nil, err
				}
				id, v, err := pb.DecodeQuaiResponse(msg.GetResponse())
				if err != nil {
					return nil, err
				}
				if id != 4712 {
					return nil, fmt.Errorf("response id changed: %d", id)
				}
				return v.(*types.WorkObjectHeaderView).WorkObject, nil
			}},
		{Name: "p2p-response-blocks",
			Enc: func(e *c14Env, o any) ([]byte, error) {
				wo := o.(*types.WorkObject)
				return pb.EncodeQuaiResponse(4713, e.Loc, []*types.WorkObjectBlockView{}, []*types.WorkObjectBlockView{wo.ConvertToBlockView(), wo.ConvertToBlockView()})
			},
			Dec: func(e *c14Env, b []byte) (any, error) {
				msg, err := pb.DecodeQuaiMessage(b)
				if err != nil {
					return nil, err
				}
				_, v, err := pb.DecodeQuaiResponse(msg.GetResponse())
				if err != nil {
					return nil, err
				}
				l := v.([]*types.WorkObjectBlockView)
				if len(l) != 2 {
					return nil, fmt.Errorf("blocks response carries %d blocks, want 2", len(l))
				}
				if c14RefWo(e, l[0].WorkObject) != c14RefWo(e, l[1].WorkObject) {
					return nil, errors.New("the two copies of the block decode differently")
				}
				return l[1].WorkObject, nil
			}},
		{Name: "json-rpc-v2",
			Enc: func(e *c14Env, o any) ([]byte, error) {
				return json.Marshal(o.(*types.WorkObject).RPCMarshalWorkObject("v2"))
			},
			Dec: func(e *c14Env, b []byte) (any, error) {
				wo := new(types.WorkObject)
				if err := wo.UnmarshalJSON(b); err != nil {
					return nil, err
				}
				return wo, nil
			}},
		{Name: "json-marshal",
			Enc: func(e *c14Env, o any) ([]byte, error) { return o.(*types.WorkObject).MarshalJSON() },
			Dec: func(e *c14Env, b []byte) (any, error) {
				wo := new(types.WorkObject)
				if err := wo.UnmarshalJSON(b); err != nil {
					return nil, err
				}
				return wo, nil
			}},
		{Name: "rawdb-workobject", Proj: projNoTx,
			Enc: func(e *c14Env, o any) ([]byte, error) {
				return c14DBEnc(e.Loc, func(db ethdb.Database) error {
					rawdb.WriteWorkObject(db, c14WoKey(), o.(*types.WorkObject), types.BlockObject, common.ZONE_CTX)
					return nil
				})
			},
			Dec: func(e *c14Env, b []byte) (any, error) {
				return c14DBDec(e.Loc, b, func(db ethdb.Database) (any, error) {
					n, err := c14WoNumber(db)
					if err != nil {
						return nil, err
					}
					wo := rawdb.ReadWorkObject(db, n, c14WoKey(), types.BlockObject)
					if wo == nil {
						return nil, errC14Nil
					}
					return wo, nil
				})
			}},
		{Name: "rawdb-headeronly", Proj: projPEtx,
			Enc: func(e *c14Env, o any) ([]byte, error) {
				return c14DBEnc(e.Loc, func(db ethdb.Database) error {
					rawdb.WriteWorkObject(db, c14WoKey(), o.(*types.WorkObject), types.BlockObject, common.ZONE_CTX)
					return nil
				})
			},
			Dec: func(e *c14Env, b []byte) (any, error) {
				return c14DBDec(e.Loc, b, func(db ethdb.Database) (any, error) {
					n, err := c14WoNumber(db)
					if err != nil {
						return nil, err
					}
					wo := rawdb.ReadWorkObjectHeaderOnly(db, n, c14WoKey(), types.BlockObject)
					if wo == nil {
						return nil, errC14Nil
					}
					return wo, nil
				})
			}},
		{Name: "rawdb-withworkshares", Proj: projWorkShares,
			Enc: func(e *c14Env, o any) ([]byte, error) {
				return c14DBEnc(e.Loc, func(db ethdb.Database) error {
					rawdb.WriteWorkObject(db, c14WoKey(), o.(*types.WorkObject), types.BlockObject, common.ZONE_CTX)
					return nil
				})
			},
			Dec: func(e *c14Env, b []byte) (any, error) {
				return c14DBDec(e.Loc, b, func(db ethdb.Database) (any, error) {
					n, err := c14WoNumber(db)
					if err != nil {
						return nil, err
					}
					wo := rawdb.ReadWorkObjectWithWorkShares(db, n, c14WoKey())
					if wo == nil {
						return nil, errC14Nil
					}
					return wo, nil
				})
			}},
		{Name: "rawdb-bestPendingHeader",
			Enc: func(e *c14Env, o any) ([]byte, error) {
				return c14DBEnc(e.Loc, func(db ethdb.Database) error {
					rawdb.WriteBestPendingHeader(db, o.(*types.WorkObject))
					return nil
				})
			},
			Dec: func(e *c14Env, b []byte) (any, error) {
				return c14DBDec(e.Loc, b, func(db ethdb.Database) (any, error) {
					wo := rawdb.ReadBestPendingHeader(db)
					if wo == nil {
						return nil, errC14Nil
					}
					return wo, nil
				})
			}},
		{Name: "rawdb-pbCacheBody",
			Enc: func(e *c14Env, o any) ([]byte, error) {
				return c14DBEnc(e.Loc, func(db ethdb.Database) error {
					rawdb.WritePbCacheBody(db, c14WoKey(), o.(*types.WorkObject))
					return nil
				})
			},
			Dec: func(e *c14Env, b []byte) (any, error) {
				return c14DBDec(e.Loc, b, func(db ethdb.Database) (any, error) {
					wo := rawdb.ReadPbCacheBody(db, c14WoKey())
					if wo == nil {
						return nil, errC14Nil
					}
					return wo, nil
				})
			}},
	}
}

func c14BuildWo(e *c14Env, v *c14Vals, pre string) (*types.WorkObject, bool) {
	wh := c14ResolveWoHeader(v.str(pre+"woHeader"), e)
	hdr := c14ResolveBodyHeader(v.str(pre+"body.header"), e)
	var tx *types.Transaction
	ill := false
	switch v.str(pre + "tx") {
	case "nil":
	case "quai":
		tx = c14Tx("quaitx", e, nil)
	case "qi":
		tx = c14Tx("qitx", e, nil)
	case "empty-quai":
		tx = types.NewEmptyQuaiTx() // To = &common.Address{} (no inner): placeholder of EmptyWorkObject
		ill = true
	case "no-inner":
		tx = &types.Transaction{}
	}
	var manifest types.BlockManifest
	if m := c14ResolveHashList(v.str(pre+"body.manifest"), "mf"); m != nil {
		manifest = types.BlockManifest(m)
	}
	var interlink common.Hashes
	if m := c14ResolveHashList(v.str(pre+"body.interlinkHashes"), "il"); m != nil {
		interlink = common.Hashes(m)
	}
	body := &types.WorkObjectBody{}
	body.SetHeader(hdr)
	body.SetTransactions(c14ResolveTxs(v.str(pre+"body.transactions"), e))
	body.SetOutboundEtxs(c14ResolveEtxs(v.str(pre+"body.outboundEtxs"), e))
	body.SetUncles(c14ResolveUncles(v.str(pre+"body.uncles"), e))
	body.SetManifest(manifest)
	body.SetInterlinkHashes(interlink)
	return types.NewWorkObject(wh, body, tx), ill
}

func c14WoFields(pre string) []c14Field {
	return []c14Field{
		{N: pre + "woHeader", M: c14WoHeaderMenu()},
		{N: pre + "body.header", M: c14BodyHeaderMenu()},
		{N: pre + "body.transactions", M: c14TxsMenu()},
		{N: pre + "body.outboundEtxs", M: c14EtxsMenu()},
		{N: pre + "body.uncles", M: c14UnclesMenu()},
		{N: pre + "body.manifest", M: c14HashListMenu()},
		{N: pre + "body.interlinkHashes", M: c14HashListMenu()},
		{N: pre + "tx", M: []c14Val{{L: "nil", V: "nil"}, {L: "quai", V: "quai"}, {L: "qi", V: "qi"}, {L: "no-inner(&Transaction{})", V: "no-inner", Ill: true}, {L: "NewEmptyQuaiTx", V: "empty-quai", Ill: true}}},
	}
}

func init() {
	c14Register(&c14Subject{
		// no collision domain of its own: a work object's identity is its header's (domain "woheader");
		// the body is committed through the roots in the body header, which variants do not keep consistent
		Name:   "workobject",
		Fields: func() []c14Field { return append([]c14Field{{N: "loc", M: c14LocMenu()}}, c14WoFields("")...) },
		Build: func(e *c14Env, v *c14Vals) (any, bool) {
			wo, ill := c14BuildWo(e, v, "")
			return wo, ill
		},
		Ref:   c14RefWo,
		Hash:  c14HashWo,
		Paths: c14WoPaths(),
	})
}

// ---- pending ETX bundles and pending header ---------------------------------------------------

type c14Bundle struct {
	Kind   string // petxs, rollup, ph
	Petxs  *types.PendingEtxs
	Rollup *types.PendingEtxsRollup
	Ph     *types.PendingHeader
}

func (b *c14Bundle) header() *types.WorkObject {
	switch b.Kind {
	case "petxs":
		return b.Petxs.Header
	case "rollup":
		return b.Rollup.Header
	}
	return b.Ph.WorkObject()
}

func c14RefTerminiInto(r *c14Ref, pre string, t types.Termini) {
	r.u(pre+"domTermini.len", uint64(len(t.DomTermini())))
	for i, h := range t.DomTermini() {
		r.h(fmt.Sprintf("%sdomTermini[%d]", pre, i), h)
	}
	r.u(pre+"subTermini.len", uint64(len(t.SubTermini())))
	for i, h := range t.SubTermini() {
		r.h(fmt.Sprintf("%ssubTermini[%d]", pre, i), h)
	}
}

func c14RefBundle(e *c14Env, o any) string {
	b := o.(*c14Bundle)
	r := c14NewRef()
	c14RefWoInto(r, "header.", b.header())
	switch b.Kind {
	case "petxs":
		c14RefTxs(r, "outboundEtxs", b.Petxs.OutboundEtxs)
	case "rollup":
		c14RefTxs(r, "etxsRollup", b.Rollup.EtxsRollup)
	case "ph":
		c14RefTerminiInto(r, "termini.", b.Ph.Termini())
	}
	return r.String()
}

func c14TerminiFromSym(sym string) types.Termini {
	t := types.EmptyTermini()
	switch sym {
	case "typ":
		for i := 0; i < common.MaxWidth; i++ {
			t.SetDomTerminiAtIndex(c14HashOf(fmt.Sprintf("dom%d", i)), i)
			t.SetSubTerminiAtIndex(c14HashOf(fmt.Sprintf("sub%d", i)), i)
		}
	case "zeros":
	case "sparse":
		t.SetDomTerminiAtIndex(c14HashOf("dom0"), 0)
		t.SetSubTerminiAtIndex(c14HashOf("sub15"), common.MaxWidth-1)
	}
	return t
}

func init() {
	for _, kind := range []string{"petxs", "rollup", "ph"} {
		kind := kind
		name := map[string]string{"petxs": "pendingEtxs", "rollup": "pendingEtxsRollup", "ph": "pendingHeader"}[kind]
		paths := []c14Path{}
		switch kind {
		case "petxs":
			paths = append(paths,
				c14Path{Name: "proto",
					Enc: func(e *c14Env, o any) ([]byte, error) {
						p, err := o.(*c14Bundle).Petxs.ProtoEncode()
						if err != nil {
							return nil, err
						}
						return proto.Marshal(p)
					},
					Dec: func(e *c14Env, b []byte) (any, error) {
						p := new(types.ProtoPendingEtxs)
						if err := proto.Unmarshal(b, p); err != nil {
							return nil, err
						}
						x := new(types.PendingEtxs)
						if err := x.ProtoDecode(p, e.Loc); err != nil {
							return nil, err
						}
						return &c14Bundle{Kind: kind, Petxs: x}, nil
					}},
				c14Path{Name: "rawdb",
					Enc: func(e *c14Env, o any) ([]byte, error) {
						return c14DBEnc(e.Loc, func(db ethdb.Database) error { rawdb.WritePendingEtxs(db, *o.(*c14Bundle).Petxs); return nil })
					},
					Dec: func(e *c14Env, b []byte) (any, error) {
						return c14DBDec(e.Loc, b, func(db ethdb.Database) (any, error) {
							// stored under the header hash: find it from the only key
							it := db.NewIterator(nil, nil)
							defer it.Release()
							for it.Next() {
								k := it.Key()
								if len(k) < 32 {
									continue
								}
								x := rawdb.ReadPendingEtxs(db, common.BytesToHash(k[len(k)-32:]))
								if x == nil {
									return nil, errC14Nil
								}
								return &c14Bundle{Kind: kind, Petxs: x}, nil
							}
							return nil, errC14Nil
						})
					}})
		case "rollup":
			paths = append(paths,
				c14Path{Name: "proto",
					Enc: func(e *c14Env, o any) ([]byte, error) {
						p, err := o.(*c14Bundle).Rollup.ProtoEncode()
						if err != nil {
							return nil, err
						}
						return proto.Marshal(p)
					},
					Dec: func(e *c14Env, b []byte) (any, error) {
						p := new(types.ProtoPendingEtxsRollup)
						if err := proto.Unmarshal(b, p); err != nil {
							return nil, err
						}
						x := new(types.PendingEtxsRollup)
						if err := x.ProtoDecode(p, e.Loc); err != nil {
							return nil, err
						}
						return &c14Bundle{Kind: kind, Rollup: x}, nil
					}},
				c14Path{Name: "rawdb",
					Enc: func(e *c14Env, o any) ([]byte, error) {
						return c14DBEnc(e.Loc, func(db ethdb.Database) error {
							rawdb.WritePendingEtxsRollup(db, *o.(*c14Bundle).Rollup)
							return nil
						})
					},
					Dec: func(e *c14Env, b []byte) (any, error) {
						return c14DBDec(e.Loc, b, func(db ethdb.Database) (any, error) {
							it := db.NewIterator(nil, nil)
							defer it.Release()
							for it.Next() {
								k := it.Key()
								if len(k) < 32 {
									continue
								}
								x := rawdb.ReadPendingEtxsRollup(db, common.BytesToHash(k[len(k)-32:]))
								if x == nil {
									return nil, errC14Nil
								}
								return &c14Bundle{Kind: kind, Rollup: x}, nil
							}
							return nil, errC14Nil
						})
					}})
		case "ph":
			paths = append(paths,
				c14Path{Name: "proto",
					Enc: func(e *c14Env, o any) ([]byte, error) {
						p, err := o.(*c14Bundle).Ph.ProtoEncode()
						if err != nil {
							return nil, err
						}
						return proto.Marshal(p)
					},
					Dec: func(e *c14Env, b []byte) (any, error) {
						p := new(types.ProtoPendingHeader)
						if err := proto.Unmarshal(b, p); err != nil {
							return nil, err
						}
						x := new(types.PendingHeader)
						if err := x.ProtoDecode(p, e.Loc); err != nil {
							return nil, err
						}
						return &c14Bundle{Kind: kind, Ph: x}, nil
					}})
		}
		c14Register(&c14Subject{
			Name: name,
			Fields: func() []c14Field {
				fs := []c14Field{{N: "loc", M: c14LocMenu()}}
				if kind == "ph" {
					fs = append(fs, c14WoFields("wo.")...)
					fs = append(fs, c14Field{N: "termini", M: []c14Val{{L: "typ", V: "typ"}, {L: "zeros", V: "zeros"}, {L: "sparse", V: "sparse"}}})
					return fs
				}
				fs = append(fs,
					c14Field{N: "header.woHeader", M: c14WoHeaderMenu()},
					c14Field{N: "header.body.header", M: c14BodyHeaderMenu()},
					c14Field{N: "etxs", M: []c14Val{{L: "1", V: "1"}, {L: "empty", V: "empty"}, {L: "2", V: "2"}, {L: "nil", V: "nil"}}})
				return fs
			},
			Build: func(e *c14Env, v *c14Vals) (any, bool) {
				if kind == "ph" {
					wo, ill := c14BuildWo(e, v, "wo.")
					ph := types.NewPendingHeader(wo, c14TerminiFromSym(v.str("termini")))
					return &c14Bundle{Kind: kind, Ph: &ph}, ill
				}
				// the bundle carries the header in its pending-ETX view
				body := &types.WorkObjectBody{}
				body.SetHeader(c14ResolveBodyHeader(v.str("header.body.header"), e))
				wo := types.NewWorkObject(c14ResolveWoHeader(v.str("header.woHeader"), e), body, nil).ConvertToPEtxView()
				etxs := c14ResolveEtxs(v.str("etxs"), e)
				if kind == "petxs" {
					return &c14Bundle{Kind: kind, Petxs: &types.PendingEtxs{Header: wo, OutboundEtxs: etxs}}, false
				}
				return &c14Bundle{Kind: kind, Rollup: &types.PendingEtxsRollup{Header: wo, EtxsRollup: etxs}}, false
			},
			Ref: c14RefBundle,
			Hash: func(e *c14Env, o any) string {
				return c14HashWo(e, o.(*c14Bundle).header())
			},
			Paths: paths,
		})
	}
}

// ---- Termini ----------------------------------------------------------------------------------

func init() {
	hm := func(seed string) []c14Val { return c14HashMenu(seed) }
	c14Register(&c14Subject{
		Name: "termini",
		Fields: func() []c14Field {
			return []c14Field{{N: "loc", M: c14LocMenu()[:1]},
				{N: "dom[0]", M: hm("d0")}, {N: "dom[1]", M: hm("d1")}, {N: "dom[15]", M: hm("d15")},
				{N: "sub[0]", M: hm("s0")}, {N: "sub[2]", M: hm("s2")}, {N: "sub[15]", M: hm("s15")},
				{N: "others", M: []c14Val{{L: "zero", V: "zero"}, {L: "filled", V: "filled"}}},
			}
		},
		Build: func(e *c14Env, v *c14Vals) (any, bool) {
			t := types.EmptyTermini()
			if v.str("others") == "filled" {
				t = c14TerminiFromSym("typ")
			}
			t.SetDomTerminiAtIndex(v.hash("dom[0]"), 0)
			t.SetDomTerminiAtIndex(v.hash("dom[1]"), 1)
			t.SetDomTerminiAtIndex(v.hash("dom[15]"), 15)
			t.SetSubTerminiAtIndex(v.hash("sub[0]"), 0)
			t.SetSubTerminiAtIndex(v.hash("sub[2]"), 2)
			t.SetSubTerminiAtIndex(v.hash("sub[15]"), 15)
			return &t, false
		},
		Ref: func(e *c14Env, o any) string {
			r := c14NewRef()
			c14RefTerminiInto(r, "", *o.(*types.Termini))
			return r.String()
		},
		Paths: []c14Path{
			{Name: "proto",
				Enc: func(e *c14Env, o any) ([]byte, error) { return proto.Marshal(o.(*types.Termini).ProtoEncode()) },
				Dec: func(e *c14Env, b []byte) (any, error) {
					p := new(types.ProtoTermini)
					if err := proto.Unmarshal(b, p); err != nil {
						return nil, err
					}
					t := new(types.Termini)
					if err := t.ProtoDecode(p); err != nil {
						return nil, err
					}
					return t, nil
				}},
			{Name: "rawdb",
				Enc: func(e *c14Env, o any) ([]byte, error) {
					return c14DBEnc(e.Loc, func(db ethdb.Database) error { rawdb.WriteTermini(db, c14WoKey(), *o.(*types.Termini)); return nil })
				},
				Dec: func(e *c14Env, b []byte) (any, error) {
					return c14DBDec(e.Loc, b, func(db ethdb.Database) (any, error) {
						t := rawdb.ReadTermini(db, c14WoKey())
						if t == nil {
							return nil, errC14Nil
						}
						return t, nil
					})
				}},
			{Name: "json-rpc",
				Enc: func(e *c14Env, o any) ([]byte, error) { return json.Marshal(o.(*types.Termini).RPCMarshalTermini()) },
				Dec: func(e *c14Env, b []byte) (any, error) {
					t := new(types.Termini)
					if err := t.UnmarshalJSON(b); err != nil {
						return nil, err
					}
					return t, nil
				}},
			{Name: "json-marshal",
				Enc: func(e *c14Env, o any) ([]byte, error) { return o.(*types.Termini).MarshalJSON() },
				Dec: func(e *c14Env, b []byte) (any, error) {
					t := new(types.Termini)
					if err := t.UnmarshalJSON(b); err != nil {
						return nil, err
					}
					return t, nil
				}},
		},
	})
}

// ---- p2p request envelope ---------------------------------------------------------------------

type c14P2PReq struct {
	ID   uint32
	Loc  common.Location
	Hash *common.Hash
	Num  *big.Int
	Kind string
}

func init() {
	c14Register(&c14Subject{
		Name: "p2p-request",
		Fields: func() []c14Field {
			return []c14Field{{N: "loc", M: c14LocMenu()},
				{N: "id", M: []c14Val{{L: "7", V: uint64(7)}, {L: "0", V: uint64(0)}, {L: "65536", V: uint64(65536)}, {L: "max32", V: uint64(^uint32(0))}}},
				{N: "location", M: []c14Val{{L: "node-zone", V: "node"}, {L: "other-zone", V: "other"}, {L: "region", V: "region"}, {L: "prime-empty", V: "prime"}}},
				{N: "data", M: []c14Val{{L: "hash", V: "hash"}, {L: "hash-zero", V: "hash0"}, {L: "number", V: "num"}, {L: "number-0", V: "num0"}, {L: "number-2^64", V: "numbig"}}},
				{N: "request", M: []c14Val{{L: "block", V: "block"}, {L: "blocks", V: "blocks"}, {L: "header", V: "header"}, {L: "blockHash", V: "hash"}}},
			}
		},
		Build: func(e *c14Env, v *c14Vals) (any, bool) {
			r := &c14P2PReq{ID: uint32(v.u64("id")), Loc: c14ResolveWoLocation(v.str("location"), e.Loc), Kind: v.str("request")}
			switch v.str("data") {
			case "hash":
				h := c14HashOf("req")
				r.Hash = &h
			case "hash0":
				r.Hash = &common.Hash{}
			case "num":
				r.Num = big.NewInt(123456)
			case "num0":
				r.Num = big.NewInt(0)
			case "numbig":
				r.Num = c14Pow2(64)
			}
			return r, false
		},
		Ref: func(e *c14Env, o any) string {
			q := o.(*c14P2PReq)
			r := c14NewRef()
			r.u("id", uint64(q.ID))
			r.byt("location", q.Loc)
			r.hp("hash", q.Hash)
			if q.Num == nil {
				r.s("number", "nil")
			} else {
				r.big("number", q.Num)
			}
			r.s("request", q.Kind)
			return r.String()
		},
		Paths: []c14Path{{Name: "p2p",
			Enc: func(e *c14Env, o any) ([]byte, error) {
				q := o.(*c14P2PReq)
				var data, typ any
				if q.Hash != nil {
					data = *q.Hash
				} else {
					data = q.Num
				}
				switch q.Kind {
				case "block":
					typ = &types.WorkObjectBlockView{}
				case "blocks":
					typ = []*types.WorkObjectBlockView{}
				case "header":
					typ = &types.WorkObjectHeaderView{}
				case "hash":
					typ = common.Hash{}
				}
				return pb.EncodeQuaiRequest(q.ID, q.Loc, data, typ)
			},
			Dec: func(e *c14Env, b []byte) (any, error) {
				msg, err := pb.DecodeQuaiMessage(b)
				if err != nil {
					return nil, err
				}
				id, typ, loc, data, err := pb.DecodeQuaiRequest(msg.GetRequest())
				if err != nil {
					return nil, err
				}
				q := &c14P2PReq{ID: id, Loc: loc}
				switch d := data.(type) {
				case *common.Hash:
					q.Hash = d
				case *big.Int:
					q.Num = d
				default:
					return nil, fmt.Errorf("request data decoded as %T", data)
				}
				switch typ.(type) {
				case *types.WorkObjectBlockView:
					q.Kind = "block"
				case []*types.WorkObjectBlockView:
					q.Kind = "blocks"
				case *types.WorkObjectHeaderView:
					q.Kind = "header"
				case *common.Hash:
					q.Kind = "hash"
				default:
					return nil, fmt.Errorf("request type decoded as %T", typ)
				}
				return q, nil
			}}},
	})
}
