package main

// C20 — Quai<->Qi conversions never credit more than the rate allows; refusals refund.
//
// Part "algebra": the unit helpers over an exhaustive grid of boundary amounts x exchange rates x
// difficulties x both sides of the KawPow reward fork: back-and-forth conversion at a fixed rate
// never gains, the cubic discount never exceeds its input nor goes negative, the denomination
// split never exceeds the value and loses nothing above the smallest denomination.
// Part "pipeline": on a real prime/region/zone node every set of <= N conversions (direction x
// amount x slippage x destination gas) is injected before a prime block; a per-id monitor follows
// each conversion from the origin block through the value the prime chain hands down to the
// destination outcome.

import (
	"fmt"
	"math/big"
	"sort"
	"strings"
	"time"

	"github.com/dominant-strategies/go-quai/common"
	"github.com/dominant-strategies/go-quai/consensus/misc"
	"github.com/dominant-strategies/go-quai/core"
	"github.com/dominant-strategies/go-quai/core/types"
	"github.com/dominant-strategies/go-quai/core/vm"
	"github.com/dominant-strategies/go-quai/crypto"
	"github.com/dominant-strategies/go-quai/params"
	"github.com/dominant-strategies/go-quai/verifshim/vx"
)

func init() {
	register(vx.CheckSpec{ID: "C20", Shards: 16, QuickBudget: 110 * time.Second, ThoroughBudg: 25 * time.Minute, Run: runC20, ReplayFn: replayC20})
}

func c20Pow10(n int) *big.Int { return new(big.Int).Exp(big.NewInt(10), big.NewInt(int64(n)), nil) }

func c20Algebra(c *vx.Ctx) {
	p := c.Part("algebra")
	// amounts: 1, every denomination +-1, minimum conversion +-1, powers, 2^64, 2^128
	var amounts []*big.Int
	add := func(v *big.Int) {
		if v.Sign() > 0 {
			amounts = append(amounts, v)
		}
	}
	add(big.NewInt(1))
	for d := uint8(0); d <= types.MaxDenomination; d++ {
		v := types.Denominations[d]
		add(new(big.Int).Sub(v, big.NewInt(1)))
		add(new(big.Int).Set(v))
		add(new(big.Int).Add(v, big.NewInt(1)))
	}
	m := params.MinQuaiConversionAmount
	add(new(big.Int).Sub(m, big.NewInt(1)))
	add(new(big.Int).Set(m))
	add(new(big.Int).Add(m, big.NewInt(1)))
	for _, e := range []int{18, 21, 24, 27} {
		add(c20Pow10(e))
		add(new(big.Int).Add(c20Pow10(e), big.NewInt(7)))
	}
	add(new(big.Int).Lsh(big.NewInt(1), 64))
	add(new(big.Int).Lsh(big.NewInt(1), 128))
	rates := []*big.Int{big.NewInt(1), new(big.Int).Set(params.ExchangeRate), new(big.Int).Mul(params.ExchangeRate, big.NewInt(30)), new(big.Int).Div(params.ExchangeRate, big.NewInt(1000)), new(big.Int).Lsh(big.NewInt(1), 70)}
	diffs := []*big.Int{big.NewInt(1000), big.NewInt(3e9), new(big.Int).Mul(big.NewInt(3e11), big.NewInt(50)), new(big.Int).Lsh(big.NewInt(1), 80)}
	p.Bound("amounts", len(amounts))
	p.Bound("rates", len(rates))
	p.Bound("difficulties", len(diffs))
	// both sides of the reward fork
	oldK, oldR := params.KawPowForkBlock, params.KQuaiResetAfterKawPowForkBlock
	params.KawPowForkBlock, params.KQuaiResetAfterKawPowForkBlock = 5, 5
	defer func() { params.KawPowForkBlock, params.KQuaiResetAfterKawPowForkBlock = oldK, oldR }()
	var idx int64
	for _, pt := range []int64{0, 10} {
		hdr := types.EmptyWorkObject(common.ZONE_CTX)
		hdr.WorkObjectHeader().SetPrimeTerminusNumber(big.NewInt(pt))
		hdr.WorkObjectHeader().SetNumber(big.NewInt(100))
		for _, rate := range rates {
			for _, diff := range diffs {
				if pt >= 5 && diff.Cmp(new(big.Int).SetUint64(2*params.KQuaiDifficultyDivisor)) < 0 {
					continue // after the reward fork difficulties below the KQuai divisor do not occur (the log term would go negative)
				}
				for _, a := range amounts {
					idx++
					if !c.Mine(idx) {
						continue
					}
					p.Transitions++
					p.Traces++
					var qi, back, quai, back2 *big.Int
					if perr := vx.Guard(func() {
						qi = misc.QuaiToQi(hdr, rate, diff, a)
						back = misc.QiToQuai(hdr, rate, diff, qi)
						quai = misc.QiToQuai(hdr, rate, diff, a)
						back2 = misc.QuaiToQi(hdr, rate, diff, quai)
					}); perr != "" {
						c.Violate("algebra", "algebra:panic:"+vx.PanicSite(perr), fmt.Sprintf("conversion helpers panic for amount %v rate %v difficulty %v pt %d: %s", a, rate, diff, pt, perr), nil)
						continue
					}
					if qi.Sign() < 0 || quai.Sign() < 0 {
						c.Violate("algebra", "algebra:negative", fmt.Sprintf("negative conversion result for %v", a), map[string]string{"amount": a.String(), "rate": rate.String(), "diff": diff.String()})
					}
					if back.Cmp(a) > 0 {
						c.Violate("algebra", "algebra:quai->qi->quai-gains", fmt.Sprintf("QiToQuai(QuaiToQi(%v)) = %v > input (rate %v, difficulty %v, pt %d)", a, back, rate, diff, pt), map[string]string{"amount": a.String(), "rate": rate.String(), "diff": diff.String()})
						p.Outcome("roundtrip-quai=>GAIN")
					} else {
						p.Outcome(fmt.Sprintf("roundtrip-quai/pt%d=>%s", pt, c20LossClass(a, back)))
					}
					if back2.Cmp(a) > 0 {
						c.Violate("algebra", "algebra:qi->quai->qi-gains", fmt.Sprintf("QuaiToQi(QiToQuai(%v)) = %v > input (rate %v, difficulty %v, pt %d)", a, back2, rate, diff, pt), map[string]string{"amount": a.String(), "rate": rate.String(), "diff": diff.String()})
						p.Outcome("roundtrip-qi=>GAIN")
					} else {
						p.Outcome(fmt.Sprintf("roundtrip-qi/pt%d=>%s", pt, c20LossClass(a, back2)))
					}
				}
			}
		}
	}
	// cubic discount and denomination split depend on amounts only
	for i, a := range amounts {
		for j, mean := range amounts {
			idx++
			if !c.Mine(idx) {
				continue
			}
			p.Transitions++
			d := misc.ApplyCubicDiscount(a, mean)
			di, _ := d.Int(nil)
			if di.Sign() < 0 || di.Cmp(a) > 0 {
				c.Violate("algebra", "algebra:cubic-discount-out-of-range", fmt.Sprintf("ApplyCubicDiscount(%v, mean %v) = %v is outside [0, value]", a, mean, di), map[string]int{"i": i, "j": j})
			}
			p.Outcome("discount=>" + c20LossClass(a, di))
		}
		if a.BitLen() > 90 {
			continue // more than 2^64 notes of the largest denomination: beyond any reachable supply (the note count is a uint64)
		}
		den := misc.FindMinDenominations(a)
		sum := new(big.Int)
		for dd, cnt := range den {
			sum.Add(sum, new(big.Int).Mul(types.Denominations[dd], new(big.Int).SetUint64(cnt)))
		}
		if sum.Cmp(a) > 0 {
			c.Violate("algebra", "algebra:denominations-exceed-value", fmt.Sprintf("FindMinDenominations(%v) sums to %v", a, sum), nil)
		}
		if new(big.Int).Sub(a, sum).Cmp(types.Denominations[0]) >= 0 {
			c.Violate("algebra", "algebra:denominations-lose-more-than-dust", fmt.Sprintf("FindMinDenominations(%v) sums to %v: loss above the smallest denomination", a, sum), nil)
		}
	}
	if c.Shard == 0 {
		p.States = idx
	}
}

func c20LossClass(in, out *big.Int) string {
	if out.Cmp(in) == 0 {
		return "exact"
	}
	if out.Sign() == 0 {
		return "all-lost"
	}
	r := new(big.Int).Div(new(big.Int).Mul(out, big.NewInt(100)), in)
	switch {
	case r.Int64() >= 99:
		return "loss<1%"
	case r.Int64() >= 50:
		return "loss<50%"
	}
	return "loss>=50%"
}

// ---- pipeline -------------------------------------------------------------------------------------

type c20Conv struct {
	Dir  string `json:"dir"`    // "quai->qi" | "qi->quai"
	Amt  int    `json:"amount"` // index into the amount menu of the direction
	Slip int    `json:"slip"`   // 0 = none (default 90%), else basis points
	Gas  int    `json:"gas"`    // index into gas menu (quai->qi only)
}

var c20QuaiAmounts = []*big.Int{new(big.Int).Set(params.MinQuaiConversionAmount), new(big.Int).Mul(c20Pow10(18), big.NewInt(3000)), new(big.Int).Mul(c20Pow10(18), big.NewInt(200000))}
var c20Slips = []int{0, 30, 5000}
var c20Gas = []uint64{60000, 400000}

func c20Menu() []c20Conv {
	var out []c20Conv
	for a := range c20QuaiAmounts {
		for _, s := range c20Slips {
			for g := range c20Gas {
				out = append(out, c20Conv{"quai->qi", a, s, g})
			}
		}
	}
	// a conversion made by contract code: k0 calls the factory, which CREATEs a child (endowment =
	// amount + margin) whose constructor executes CONVERT and then stops (Amt 0) or reverts (Amt 1)
	out = append(out, c20Conv{"contract->qi", 0, 0, 0}, c20Conv{"contract->qi", 1, 0, 0})
	// the same through a library: the child's constructor DELEGATECALLs a deployed library whose code
	// executes CONVERT (in the child's context) and then stops (Amt 2) or reverts (Amt 3); the
	// constructor ignores the result and stops, so the transaction succeeds either way
	out = append(out, c20Conv{"contract->qi", 2, 0, 0}, c20Conv{"contract->qi", 3, 0, 0})
	for _, d := range []int{6, 4} { // spend a denomination-6 / denomination-4 output
		for _, s := range c20Slips {
			out = append(out, c20Conv{"qi->quai", d, s, 0})
		}
	}
	return out
}

func (cv c20Conv) String() string {
	return fmt.Sprintf("%s/a%d/slip%d/g%d", cv.Dir, cv.Amt, cv.Slip, cv.Gas)
}

// c20Inject creates the conversion transaction; returns nil if not applicable.
func c20Inject(s *scen, cv c20Conv, nonceOff uint64) *types.Transaction {
	if cv.Dir == "contract->qi" {
		if cv.Amt >= 2 {
			return c20FactoryCallVia(s, c20Libs[cv.Amt-2], nonceOff)
		}
		return c20FactoryCall(s, cv.Amt == 1, nonceOff)
	}
	var slip []byte
	if cv.Slip > 0 {
		slip = []byte{byte(cv.Slip >> 8), byte(cv.Slip)}
	}
	if cv.Dir == "quai->qi" {
		to := s.q[1].Addr
		return s.n.QuaiTx(s.k[0], s.nonce(s.k[0])+nonceOff, &to, c20QuaiAmounts[cv.Amt], c20Gas[cv.Gas], new(big.Int).Mul(scenPrice, big.NewInt(3)), slip)
	}
	// qi->quai: q0 spends an output of denomination Amt into (Amt-1) paid to the Quai address k1;
	// data = slip (2 bytes, 0 = default) + refund address (Qi)
	data := append([]byte{byte(cv.Slip >> 8), byte(cv.Slip)}, s.q[2].Addr.Bytes()...)
	utxos, _ := core.VScanUtxos(s.n.DB[2])
	height := s.n.Heads[2].NumberU64(2) + 1
	nth := int(nonceOff)
	for _, u := range utxos {
		if string(u.Entry.Address) != string(s.q[0].Addr.Bytes()) || u.Entry.Denomination != uint8(cv.Amt) {
			continue
		}
		if u.Entry.Lock != nil && u.Entry.Lock.Uint64() > height {
			continue
		}
		if nth > 0 {
			nth--
			continue
		}
		outs := []core.VQiOut{{Denom: uint8(cv.Amt) - 1, Addr: s.k[1].Addr}}
		return core.VQiTx(s.n.ChainID(), core.VZoneLoc, []core.VQiIn{{Hash: u.Hash, Index: u.Index, Key: s.q[0]}}, outs, data, s.q[0])
	}
	return nil
}

// ---- contract-originated conversions ---------------------------------------------------------

const c20EtxGas = 100000

var c20ContractAmount = new(big.Int).Set(params.MinQuaiConversionAmount)
var c20ContractMargin = new(big.Int).Mul(c20Pow10(18), big.NewInt(1000)) // covers the prepaid fee gasPrice x 21000 of CONVERT

// c20FactoryRuntime: CREATE(value = CALLVALUE, init code = calldata); STOP.
func c20FactoryRuntime() []byte {
	a := &c02Asm{}
	a.Op(vm.CALLDATASIZE).Push(0).Push(0).Op(vm.CALLDATACOPY)
	a.Op(vm.CALLDATASIZE).Push(0).Op(vm.CALLVALUE).Op(vm.CREATE, vm.STOP)
	return a.Bytes()
}

// c20Pad appends dead bytes to code until CreateAddress(creator, nonce, code) is an in-zone Quai
// address (so that the creation does not depend on address grinding and can be put in the access list).
func c20Pad(creator common.Address, nonce uint64, code []byte) ([]byte, common.Address) {
	for n := 0; n < 1<<16; n++ {
		c := append(append([]byte{}, code...), 0x00, byte(n>>8), byte(n))
		addr := crypto.CreateAddress(creator, nonce, c, core.VZoneLoc)
		if _, err := addr.InternalAndQuaiAddress(); err == nil {
			return c, addr
		}
	}
	panic("harness: no in-zone creation address found")
}

// c20FactoryInit: init code deploying the factory runtime, and the factory's address for (k1, nonce).
func c20FactoryInit(s *scen, nonce uint64) ([]byte, common.Address) {
	rt := c20FactoryRuntime()
	a := &c02Asm{}
	a.MStoreBytes(0, rt)
	a.Push(uint64(len(rt))).Push(0).Op(vm.RETURN)
	return c20Pad(s.k[1].Addr, nonce, a.Bytes())
}

var c20Libs [2]common.Address    // libraries: CONVERT then STOP / CONVERT then REVERT (set by c20DeployFactory)
var c20Factory common.Address    // set by c20DeployFactory for the scenario being run
var c20Children []common.Address // predicted children of the factory calls of the scenario being run

func c20DeployFactory(s *scen) error {
	nonce := s.nonce(s.k[1]) // deployed by k1: k0's next nonce belongs to the prefix's own conversion
	init, addr := c20FactoryInit(s, nonce)
	tx := s.n.QuaiTxAL(s.k[1], nonce, nil, common.Big0, 1500000, new(big.Int).Mul(scenPrice, big.NewInt(3)), init, types.AccessList{{Address: addr}})
	if errs := s.n.AddTxs(tx); errs[0] != nil {
		return fmt.Errorf("factory deployment refused: %v", errs[0])
	}
	c20Factory = addr
	c20Children = nil
	// the two libraries, deployed by k1 with the next two nonces
	for i := 0; i < 2; i++ {
		a := &c02Asm{}
		a.Push(c20EtxGas).PushBig(c20ContractAmount).PushAddr(s.q[1].Addr).Push(0).Op(vm.CONVERT, vm.POP)
		if i == 1 {
			a.Push(0).Push(0).Op(vm.REVERT)
		} else {
			a.Op(vm.STOP)
		}
		rt := a.Bytes()
		d := &c02Asm{}
		d.MStoreBytes(0, rt)
		d.Push(uint64(len(rt))).Push(0).Op(vm.RETURN)
		ln := nonce + 1 + uint64(i)
		linit, laddr := c20Pad(s.k[1].Addr, ln, d.Bytes())
		ltx := s.n.QuaiTxAL(s.k[1], ln, nil, common.Big0, 1500000, new(big.Int).Mul(scenPrice, big.NewInt(3)), linit, types.AccessList{{Address: laddr}})
		if errs := s.n.AddTxs(ltx); errs[0] != nil {
			return fmt.Errorf("library deployment refused: %v", errs[0])
		}
		c20Libs[i] = laddr
	}
	return nil
}

// c20FactoryCallVia: as c20FactoryCall, but the child's constructor reaches CONVERT through a
// DELEGATECALL into lib and ignores whether that frame succeeded.
func c20FactoryCallVia(s *scen, lib common.Address, nonceOff uint64) *types.Transaction {
	a := &c02Asm{}
	a.Push(0).Push(0).Push(0).Push(0).PushAddr(lib).Push(600000).Op(vm.DELEGATECALL, vm.POP, vm.STOP)
	st, err := s.n.VStateAt(s.n.Heads[2])
	if err != nil {
		panic("harness: state at head: " + err.Error())
	}
	fi, _ := c20Factory.InternalAddress()
	li, _ := lib.InternalAddress()
	if st.GetCodeSize(fi) == 0 || st.GetCodeSize(li) == 0 {
		panic("harness: factory or library contract is not deployed")
	}
	init, child := c20Pad(c20Factory, st.GetNonce(fi), a.Bytes())
	c20Children = append(c20Children, child)
	to := c20Factory
	value := new(big.Int).Add(c20ContractAmount, c20ContractMargin)
	al := types.AccessList{{Address: c20Factory}, {Address: child}, {Address: lib}, {Address: s.q[1].Addr}}
	return s.n.QuaiTxAL(s.k[0], s.nonce(s.k[0])+nonceOff, &to, value, 2500000, new(big.Int).Mul(scenPrice, big.NewInt(3)), init, al)
}

// c20FactoryCall: k0 calls the factory with the child's init code: CONVERT(amount -> Qi address q1),
// then STOP or REVERT. nonceOff counts the conversions of k0 injected before this one in the set.
func c20FactoryCall(s *scen, revert bool, nonceOff uint64) *types.Transaction {
	a := &c02Asm{}
	a.Push(c20EtxGas).PushBig(c20ContractAmount).PushAddr(s.q[1].Addr).Push(0).Op(vm.CONVERT, vm.POP)
	if revert {
		a.Push(0).Push(0).Op(vm.REVERT)
	} else {
		a.Op(vm.STOP)
	}
	st, err := s.n.VStateAt(s.n.Heads[2])
	if err != nil {
		panic("harness: state at head: " + err.Error())
	}
	fi, _ := c20Factory.InternalAddress()
	if st.GetCodeSize(fi) == 0 {
		panic("harness: the factory contract is not deployed")
	}
	init, child := c20Pad(c20Factory, st.GetNonce(fi), a.Bytes()) // at most one factory call per set
	c20Children = append(c20Children, child)
	to := c20Factory
	value := new(big.Int).Add(c20ContractAmount, c20ContractMargin)
	al := types.AccessList{{Address: c20Factory}, {Address: child}, {Address: s.q[1].Addr}}
	return s.n.QuaiTxAL(s.k[0], s.nonce(s.k[0])+nonceOff, &to, value, 1500000, new(big.Int).Mul(scenPrice, big.NewInt(3)), init, al)
}

const c20Prefix = "zpczpzpzzzz" // Qi outputs of q0 exist and are unlocked; several prime blocks behind us
const c20Drain = "zpzpzpzzzzz"

// c20RunSet: forks=true mines every prime block of the drain as two siblings (see scen.forkPrimes):
// the conversions are then repriced by prime once for each sibling.
func c20RunSet(set []c20Conv, forks bool) (string, string, string) {
	return c20RunSetP(set, forks, 0)
}

// c20RunSetP: pressure > 0 puts that many large Quai->Qi conversions through as many earlier prime
// periods before the set under test is injected, so that the controller's exchange rate / discount
// is not the genesis one when the set is repriced (the pressure conversions are monitored too).
func c20RunSetP(set []c20Conv, forks bool, pressure int) (string, string, string) {
	if pressure > 0 {
		// the exchange-rate controller computes a new rate only after the protocol's first year (or
		// when the governance key unfreezes it): end that year after four blocks for this variant
		saved := params.BlocksPerYear
		params.BlocksPerYear = 4
		defer func() { params.BlocksPerYear = saved }()
	}
	s, err := newScen(3, false, nil)
	if err != nil {
		return "harness", err.Error(), ""
	}
	defer s.close()
	if err := s.runWord(c20Prefix[:2]); err != nil {
		return "harness", "prefix: " + err.Error(), ""
	}
	if err := c20DeployFactory(s); err != nil { // included in the third block of the prefix
		return "harness", err.Error(), ""
	}
	if err := s.runWord(c20Prefix[2:]); err != nil {
		return "harness", "prefix: " + err.Error(), ""
	}
	startBlocks := len(s.blocks)
	rate0 := new(big.Int).Set(s.n.Heads[0].ExchangeRate())
	for r := 0; r < pressure; r++ {
		tx := c20Inject(s, c20Conv{"quai->qi", len(c20QuaiAmounts) - 1, 0, 1}, 0)
		if tx == nil {
			return "harness", "pressure conversion not applicable", ""
		}
		if errs := s.n.AddTxs(tx); errs[0] != nil {
			return "harness", "pressure conversion refused by the pool: " + errs[0].Error(), ""
		}
		if err := s.runWord("zzp"); err != nil {
			return "harness", "pressure round: " + err.Error(), ""
		}
	}
	var nq, nqi uint64
	admitted := 0
	factoryCalls := 0
	for _, cv := range set {
		off := nq
		if cv.Dir == "qi->quai" {
			off = nqi
		}
		if cv.Dir == "contract->qi" {
			if factoryCalls > 0 {
				continue // the child address is predicted for the factory's current nonce: one call per set
			}
			factoryCalls++
		}
		tx := c20Inject(s, cv, off)
		if tx == nil {
			continue
		}
		if errs := s.n.AddTxs(tx); errs[0] == nil {
			admitted++
			if cv.Dir != "qi->quai" {
				nq++
			} else {
				nqi++
			}
		} else if cv.Dir == "contract->qi" {
			return "harness", "factory call refused by the pool: " + errs[0].Error(), ""
		}
	}
	balK1 := s.n.VBalance(s.k[1].Addr)
	s.forkPrimes = forks
	if err := s.runWord(c20Drain); err != nil {
		if forks {
			return "forks:chain-stuck", fmt.Sprintf("set %v, every prime block of the drain mined as two siblings: %v", set, err), ""
		}
		return "harness", "drain: " + err.Error(), ""
	}
	// ---- origin ledger: the Quai accounts that convert (k0, the factory, the children) lose exactly
	// what the conversions emitted by the block carry away plus k0's gas, block by block
	if key, desc := c20OriginLedger(s, startBlocks, set); key != "" {
		return key, desc, ""
	}
	// ---- monitor
	type emitted struct {
		tx     *types.Transaction
		height uint64
	}
	em := map[c04Id]emitted{}
	for _, b := range s.blocks[startBlocks:] {
		for _, e := range b.OutboundEtxs() {
			if e.EtxType() == types.ConversionType {
				em[c04IdOf(e)] = emitted{e, b.NumberU64(2)}
			}
		}
	}
	outcomes := map[c04Id]int{}
	var cls []string
	for _, b := range s.blocks[startBlocks:] {
		for _, t := range b.Transactions() {
			if t.Type() != types.ExternalTxType {
				continue
			}
			id := c04IdOf(t)
			e, ok := em[id]
			if !ok {
				continue
			}
			outcomes[id]++
			if outcomes[id] > 1 {
				return "outcome:twice", fmt.Sprintf("set %v: conversion %v has a second outcome at height %d", set, id, b.NumberU64(2)), ""
			}
			orig := e.tx.Value()
			toQi := t.To().IsInQiLedgerScope()
			switch t.EtxType() {
			case types.ConversionRevertType:
				if t.Value().Cmp(orig) != 0 {
					return "revert:amount", fmt.Sprintf("set %v: reverted conversion %v carries %v, the original amount was %v", set, id, t.Value(), orig), ""
				}
				cls = append(cls, "reverted")
				if !toQi {
					// Qi -> Quai refused: the original Qi must come back as outputs for the refund address
					got := c20OutputsOf(s, t.Hash())
					if got.Cmp(orig) > 0 {
						return "revert:over-refund", fmt.Sprintf("set %v: reverted Qi->Quai conversion %v of %v qits is refunded with outputs worth %v", set, id, orig, got), ""
					}
					if got.Cmp(orig) != 0 {
						return "revert:qi-refund-short", fmt.Sprintf("set %v: reverted Qi->Quai conversion %v of %v qits is refunded with outputs worth only %v", set, id, orig, got), ""
					}
				}
			case types.ConversionType:
				// the rate the protocol applied to conversions confirmed in prime block P is the rate
				// written into P's child prime header; take the most favourable of P and child(P)
				rates := s.n.VPrimeRatesAround(b)
				if len(rates) == 0 {
					return "harness", "no prime block found for executed conversion", ""
				}
				ok, floorOK := false, false
				var best *big.Int
				for _, r := range rates {
					var implied *big.Int
					if toQi {
						implied = misc.QuaiToQi(r.Hdr, r.Rate, r.Hdr.MinerDifficulty(), orig)
					} else {
						implied = misc.QiToQuai(r.Hdr, r.Rate, r.Hdr.MinerDifficulty(), orig)
					}
					if best == nil || implied.Cmp(best) > 0 {
						best = implied
					}
					if t.Value().Cmp(implied) <= 0 {
						ok = true
					}
					floor := new(big.Int).Div(implied, big.NewInt(10))
					floor.Sub(floor, big.NewInt(2))
					if t.Value().Cmp(floor) >= 0 {
						floorOK = true
					}
				}
				if !ok {
					return "credit:above-rate", fmt.Sprintf("set %v: conversion %v of %v is credited %v, the applied exchange rate implies at most %v", set, id, orig, t.Value(), best), ""
				}
				if !floorOK {
					return "credit:below-floor", fmt.Sprintf("set %v: conversion %v of %v is credited %v, below the 10%% floor of %v", set, id, orig, t.Value(), best), ""
				}
				if toQi {
					got := c20OutputsOf(s, t.Hash())
					if got.Cmp(t.Value()) > 0 {
						return "credit:minted-more-than-repriced", fmt.Sprintf("set %v: conversion %v repriced to %v qits minted outputs worth %v", set, id, t.Value(), got), ""
					}
					cls = append(cls, fmt.Sprintf("minted:%s", c20LossClass(t.Value(), got)))
				} else {
					cls = append(cls, "locked-quai")
				}
			default:
				return "outcome:type", fmt.Sprintf("conversion %v arrives with type %d", id, t.EtxType()), ""
			}
		}
	}
	for id, e := range em {
		if outcomes[id] != 1 {
			return "outcome:none", fmt.Sprintf("set %v: conversion %v emitted at height %d has no outcome after %d more blocks", set, id, e.height, len(c20Drain)), ""
		}
	}
	// Qi->Quai credits reach k1 (which has no other activity after the prefix... it is also a
	// transfer target in other checks, not here): the balance change equals the locked conversions
	// that unlocked within the drain, never more than the repriced sum.
	sumQuai := new(big.Int)
	for _, b := range s.blocks[startBlocks:] {
		for _, t := range b.Transactions() {
			if t.Type() == types.ExternalTxType && t.EtxType() == types.ConversionType && t.To().Equal(s.k[1].Addr) {
				if _, ok := em[c04IdOf(t)]; ok {
					sumQuai.Add(sumQuai, t.Value())
				}
			}
		}
	}
	delta := new(big.Int).Sub(s.n.VBalance(s.k[1].Addr), balK1)
	if delta.Cmp(sumQuai) > 0 {
		return "credit:quai-over-credit", fmt.Sprintf("set %v: recipient gained %v Quai, the repriced conversions sum to %v", set, delta, sumQuai), ""
	}
	if len(cls) == 0 {
		cls = []string{fmt.Sprintf("none(admitted=%d)", admitted)}
	}
	if pressure > 0 {
		moved := "rate-unchanged"
		if c := s.n.Heads[0].ExchangeRate().Cmp(rate0); c > 0 {
			moved = "rate-rose"
		} else if c < 0 {
			moved = "rate-fell"
		}
		return "", "", strings.Join(cls, "+") + "/" + moved
	}
	return "", "", strings.Join(cls, "+")
}

func c20OriginLedger(s *scen, startBlocks int, set []c20Conv) (string, string) {
	group := map[[20]byte]common.Address{s.k[0].Addr.Bytes20(): s.k[0].Addr, c20Factory.Bytes20(): c20Factory} // keyed by the bytes: common.Address holds a pointer
	for _, ch := range c20Children {
		group[ch.Bytes20()] = ch
	}
	for _, b := range s.blocks[startBlocks:] {
		for _, e := range b.OutboundEtxs() {
			if e.EtxType() == types.ConversionType && e.To().IsInQiLedgerScope() { // Quai -> Qi: the sender is a Quai account
				group[e.ETXSender().Bytes20()] = e.ETXSender() // children of the factory
			}
		}
	}
	sumAt := func(blk *types.WorkObject) (*big.Int, error) {
		st, err := s.n.VStateAt(blk)
		if err != nil {
			return nil, err
		}
		t := new(big.Int)
		for _, a := range group {
			if ia, err := a.InternalAddress(); err == nil {
				t.Add(t, st.GetBalance(ia))
			}
		}
		return t, nil
	}
	for i := startBlocks; i < len(s.blocks); i++ {
		b := s.blocks[i]
		before, err := sumAt(s.blocks[i-1])
		if err != nil {
			return "harness", "state before block: " + err.Error()
		}
		after, err := sumAt(b)
		if err != nil {
			return "harness", "state after block: " + err.Error()
		}
		expect := new(big.Int)
		var parts []string
		for _, e := range b.OutboundEtxs() {
			if _, in := group[e.ETXSender().Bytes20()]; !in {
				continue
			}
			carried := new(big.Int).Set(e.Value())
			if !e.ETXSender().Equal(s.k[0].Addr) { // emitted by contract code: the prepaid fee travels with it
				for _, t := range b.Transactions() {
					if t.Type() == types.QuaiTxType && t.Hash() == e.OriginatingTxHash() {
						carried.Add(carried, new(big.Int).Mul(t.GasPrice(), new(big.Int).SetUint64(e.Gas())))
					}
				}
			}
			expect.Add(expect, carried)
			parts = append(parts, fmt.Sprintf("etx{type=%d from=%x value=%v}", e.EtxType(), e.ETXSender().Bytes()[:3], e.Value()))
		}
		receipts := s.n.VReceipts(b)
		for j, t := range b.Transactions() {
			switch {
			case t.Type() == types.QuaiTxType:
				from, err := types.Sender(s.n.Signer(), t)
				if err == nil && from.Equal(s.k[0].Addr) && j < len(receipts) {
					fee := new(big.Int).Mul(t.GasPrice(), new(big.Int).SetUint64(receipts[j].GasUsed))
					expect.Add(expect, fee)
					parts = append(parts, fmt.Sprintf("gas{%d x %v}", receipts[j].GasUsed, t.GasPrice()))
				}
			case t.Type() == types.ExternalTxType && t.To() != nil && j < len(receipts) && receipts[j].Status == types.ReceiptStatusSuccessful:
				credited := *t.To()
				if t.EtxType() == types.ConversionRevertType {
					credited = t.ETXSender() // a refused conversion is paid back to its sender
				}
				if !c20In(group, credited) {
					continue
				}
				expect.Sub(expect, t.Value())
				parts = append(parts, fmt.Sprintf("inbound{type=%d value=%v}", t.EtxType(), t.Value()))
			}
		}
		debit := new(big.Int).Sub(before, after)
		if debit.Cmp(expect) != 0 {
			what := "origin:debit-differs-from-emitted-conversions"
			var per []string
			sb, _ := s.n.VStateAt(s.blocks[i-1])
			sa, _ := s.n.VStateAt(b)
			for _, a := range group {
				if ia, err := a.InternalAddress(); err == nil {
					per = append(per, fmt.Sprintf("%x: %v -> %v", a.Bytes()[:3], sb.GetBalance(ia), sa.GetBalance(ia)))
				}
			}
			for j, t := range b.Transactions() {
				st := -1
				if j < len(receipts) {
					st = int(receipts[j].Status)
				}
				to := "nil"
				if t.To() != nil {
					to = fmt.Sprintf("%x", t.To().Bytes()[:3])
				}
				et := -1
				if t.Type() == types.ExternalTxType {
					et = int(t.EtxType())
				}
				per = append(per, fmt.Sprintf("tx%d{type=%d etxtype=%d to=%s value=%v status=%d}", j, t.Type(), et, to, t.Value(), st))
			}
			per = append(per, fmt.Sprintf("receipts=%d", len(receipts)))
			sort.Strings(per)
			return what, fmt.Sprintf("set %v, block at height %d: the converting Quai accounts (k0, factory, children) lost %v, the block's emitted ETXs, gas and credits account for %v (%v); balances: %v", set, b.NumberU64(2), debit, expect, parts, per)
		}
	}
	return "", ""
}

func c20In(group map[[20]byte]common.Address, a common.Address) bool {
	_, ok := group[a.Bytes20()]
	return ok
}

func c20OutputsOf(s *scen, h common.Hash) *big.Int {
	sum := new(big.Int)
	utxos, _ := core.VScanUtxos(s.n.DB[2])
	for _, x := range utxos {
		if x.Hash == h {
			sum.Add(sum, types.Denominations[x.Entry.Denomination])
		}
	}
	return sum
}

func c20Sets(maxN int) [][]c20Conv {
	menu := c20Menu()
	var out [][]c20Conv
	for i := range menu {
		out = append(out, []c20Conv{menu[i]})
	}
	if maxN >= 2 {
		for i := range menu {
			for j := range menu {
				out = append(out, []c20Conv{menu[i], menu[j]})
			}
		}
	}
	return out
}

func c20Pipeline(c *vx.Ctx) {
	p := c.Part("pipeline")
	maxN := 1
	if c.Thorough() {
		maxN = 2
	}
	sets := c20Sets(maxN)
	// quick also explores the mixed-direction and same-direction pairs of the extreme menu members
	if !c.Thorough() {
		m := c20Menu()
		ext := []c20Conv{m[0], m[len(c20Slips)*len(c20Gas)*2+1], m[len(c20Slips)*len(c20Gas)*2+3], m[len(m)-1], m[len(m)-5]}
		for _, a := range ext {
			for _, b := range ext {
				sets = append(sets, []c20Conv{a, b})
			}
		}
	}
	p.Bound("conversions_per_prime_block", maxN)
	p.Bound("menu", len(c20Menu()))
	p.Bound("variants", "plain drain; drain in which every prime block is mined as two siblings (head P1, then P2); set injected after two prime periods that each confirmed a large Quai->Qi conversion (exchange-rate trajectory; quick: single conversions)")
	if c.Shard == 0 {
		p.States = int64(len(sets))
	}
	for i, set := range sets {
		if !c.Mine(int64(i)) {
			continue
		}
		if c.Expired() {
			p.Incomplete("deadline")
			return
		}
		plainKey := ""
		for vi, forks := range []bool{false, true, false} {
			forks := forks
			pressure := 0
			if vi == 2 {
				pressure = 2
				if len(set) > 1 && !c.Thorough() {
					continue // quick: the trajectory variant runs on the single conversions
				}
			}
			var key, desc, cls string
			if perr := vx.Guard(func() { key, desc, cls = c20RunSetP(set, forks, pressure) }); perr != "" {
				key, desc = "panic:"+vx.PanicSite(perr), fmt.Sprintf("set %v: %s", set, perr)
			}
			if key == "harness" {
				c.HarnessError(fmt.Sprintf("set %v (sibling prime blocks=%v): %s", set, forks, desc))
				return
			}
			p.Transitions += int64(len(c20Drain))
			p.Traces++
			tag := ""
			if forks {
				tag = "sibling-primes:"
			}
			if pressure > 0 {
				tag = "after-pressure:"
			}
			if !forks && pressure == 0 {
				plainKey = key
			} else if key != "" && key == plainKey {
				// the same failure as without the sibling blocks: one finding, reported above
				p.Outcome("sibling-primes:same-failure-as-plain-drain")
				continue
			}
			if key != "" {
				p.Outcome("VIOLATED:" + tag + key)
				set := set
				if forks {
					desc = "every prime block of the drain mined as two siblings (head P1, then switch to P2): " + desc
				}
				if pressure > 0 {
					desc = fmt.Sprintf("after %d prime periods with a large Quai->Qi conversion each: %s", pressure, desc)
				}
				if c.Confirm(desc, func() string {
					var k string
					vx.Guard(func() { k, _, _ = c20RunSetP(set, forks, pressure) })
					return k
				}) {
					c.Violate("pipeline", "pipeline:"+tag+key, desc, map[string]any{"set": set, "sibling_primes": forks, "pressure": pressure})
				}
				continue
			}
			p.Outcome(tag + cls)
			if i%9 == 0 && !forks && pressure == 0 {
				p.Sample(map[string]any{"set": fmt.Sprint(set), "outcomes": cls})
			}
		}
	}
}

func runC20(c *vx.Ctx) {
	core.VScaleParams(core.VR1)
	c.Rule = "algebra: grid of boundary amounts x 5 rates x 4 difficulties x both reward-fork sides; pipeline: every set of <=N conversions from a menu (direction x amount x slippage x destination gas) injected before a prime block on a real 3-level node, per-id monitor from origin to outcome; every set also with each prime block of the drain mined as two siblings and (singles in quick) after two prime periods of conversion pressure with a live controller"
	c.Assume("scaled protocol constants: " + fmt.Sprint(core.VScaled))
	c.Assume("pipeline: flat exchange-rate trajectory (the controller's rate moves only marginally within the short histories); rising/falling trajectories are not steered")
	if c.Wants("algebra") {
		c20Algebra(c)
	}
	if c.Wants("pipeline") {
		c20Pipeline(c)
	}
}

func replayC20(c *vx.Ctx, v vx.Violation) string {
	core.VScaleParams(core.VR1)
	if v.Part != "pipeline" {
		return "algebra violations are self-describing (inputs are in the description)"
	}
	raw, _ := jsonMarshal(v.Replay)
	var set []c20Conv
	var rp struct {
		Set      []c20Conv `json:"set"`
		Forks    bool      `json:"sibling_primes"`
		Pressure int       `json:"pressure"`
	}
	if err := jsonUnmarshal(raw, &set); err != nil {
		if err := jsonUnmarshal(raw, &rp); err != nil {
			return "bad replay: " + err.Error()
		}
		set = rp.Set
	}
	_, d, _ := c20RunSetP(set, rp.Forks, rp.Pressure)
	return d
}
