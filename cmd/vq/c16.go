package main

// C16 — every address has one zone and one ledger, respected by all state.
//
// Bounded-exhaustive parts, all executed on the REAL code (part sender-cache: see c16_sender.go):
//
//   classify  every way of building a common.Address (bytes of every length 0..33, [20]byte, hex,
//             big.Int, proto, RLP, text, JSON, mixed-case JSON, sql Scan, pubkey, CREATE, CREATE2,
//             address grinding) x every first byte x both ledger bits x tails x node locations.
//             Oracle = the partition of the statement evaluated on the 20 bytes the object holds:
//             zone = byte 0 (region = high nibble, zone = low nibble), ledger = bit 7 of byte 1,
//             internal <=> node is a zone chain and byte 0 == its prefix.  Every predicate the
//             repository offers (Internal*Address, IsIn*LedgerScope, Location, IsInChainScope,
//             ContainsAddress, IsConversionOutput, CheckIfBytesAreInternalAndQiAddress, the
//             AddressBytes/InternalAddress/ExternalAddress methods) must agree with it and with
//             Bytes20ToAddress of the same 20 bytes.
//   state     BFS over StateDB mutators, journal operations, evm.Call/Create/Create2 and contracts
//             executing CALL/SELFDESTRUCT/CREATE/CREATE2 with addresses of every class; after every
//             transition the state is finalised on a copy and the account trie is iterated.
//   qitx      core.ProcessQiTx on a populated UTXO set: all output-address classes x address
//             lengths x data kinds x fork regimes; every UTXO a successful transaction leaves in
//             the database must be owned by a 20-byte in-zone Qi address.

import (
	"encoding/hex"
	"fmt"
	"io"
	"strings"
	"time"

	"github.com/dominant-strategies/go-quai/common"
	"github.com/dominant-strategies/go-quai/log"
	"github.com/dominant-strategies/go-quai/verifshim/vx"
	"github.com/sirupsen/logrus"
)

func init() {
	register(vx.CheckSpec{ID: "C16", Shards: 8, QuickBudget: 75 * time.Second, ThoroughBudg: 14 * time.Minute, Run: runC16, ReplayFn: replayC16})
}

// ---- reference partition (the statement, nothing else) ----

func c16RefLocation(b []byte) common.Location { return common.Location{b[0] >> 4, b[0] & 0x0f} }
func c16RefQi(b []byte) bool                  { return b[1]&0x80 != 0 }
func c16RefInternal(b []byte, node common.Location) bool {
	return len(node) == 2 && b[0] == node[0]<<4|node[1]
}
func c16RefInZoneQuai(b []byte, node common.Location) bool {
	return len(b) == common.AddressLength && c16RefInternal(b, node) && !c16RefQi(b)
}
func c16RefInZoneQi(b []byte, node common.Location) bool {
	return len(b) == common.AddressLength && c16RefInternal(b, node) && c16RefQi(b)
}

func c16LocName(l common.Location) string {
	switch len(l) {
	case 0:
		return "prime"
	case 1:
		return fmt.Sprintf("region-%d", l[0])
	}
	return fmt.Sprintf("zone-%d-%d", l[0], l[1])
}

func c16Logger() *logrus.Logger {
	l := logrus.New()
	l.SetOutput(io.Discard)
	l.ExitFunc = func(int) { panic("logger.Fatal called") }
	return l
}

// c16Quiet keeps the repository's global logger from writing ./nodelogs under /repo.
func c16Quiet() {
	log.Global.SetOutput(io.Discard)
	log.Global.ExitFunc = func(int) { panic("log.Global.Fatal called") }
}

type c16Div struct{ Key, Desc string }

// c16Replay is the artefact of any C16 violation: which part, and the part's own case.
type c16Replay struct {
	Part   string         `json:"part"`
	Class  *c16ClassCase  `json:"classify,omitempty"`
	State  *c16StateCase  `json:"state,omitempty"`
	Qi     *c16QiCase     `json:"qitx,omitempty"`
	Sender *c16SenderCase `json:"sender_cache,omitempty"`
}

func c16Hex(b []byte) string { return hex.EncodeToString(b) }
func c16UnHex(s string) []byte {
	b, err := hex.DecodeString(s)
	if err != nil {
		panic("bad hex in C16 case: " + s)
	}
	return b
}

func runC16(c *vx.Ctx) {
	c16Quiet()
	c.Rule = "classify: every constructor/decoder x input (first byte x ledger byte x tail x length/padding) x node location, all classification predicates compared with the reference partition of the 20 bytes held; state: BFS over StateDB/EVM operations x address classes, account trie iterated after every transition; qitx: ProcessQiTx over output-address classes x lengths x data kinds x fork regimes, created UTXO owners inspected. Outcome class = constructor x verdict / operation x result class / ProcessQiTx error class; sender-cache: all call sequences Hash()/Sender(signer of location L) on one transaction object x sender zones"
	c.Assume("node locations have region and zone indices 0..15 (common.MaxRegions/MaxZones); a Location with an index >= 16 aliases another prefix and is outside the statement")
	c.Assume("decoders that take no node location (RLP, text, JSON, MixedcaseAddress) are judged twice: against the location they hard-code and against the node's location")
	// cheap parts first, so that a deadline can only cut the widest sweep
	if c.Wants("qitx") {
		c16QiTx(c)
	}
	if c.Wants("sender-cache") {
		c16SenderCache(c)
	}
	if c.Wants("classify") {
		c16Classify(c, 1)
	}
	if c.Wants("state") {
		c16State(c)
	}
	if c.Wants("classify") && c.Thorough() {
		c16Classify(c, 2)
	}
}

func replayC16(c *vx.Ctx, v vx.Violation) string {
	c16Quiet()
	raw, _ := jsonMarshal(v.Replay)
	var r c16Replay
	if err := jsonUnmarshal(raw, &r); err != nil {
		return "bad replay: " + err.Error()
	}
	var divs []c16Div
	switch {
	case r.Class != nil:
		divs = c16ClassExec(*r.Class, nil)
	case r.State != nil:
		divs = c16StateReplay(*r.State)
	case r.Qi != nil:
		divs = c16QiExec(*r.Qi, nil)
	case r.Sender != nil:
		divs, _ = c16SenderExec(*r.Sender)
	default:
		return "bad replay: no case"
	}
	var other []string
	for _, d := range divs {
		if d.Key == v.Key {
			return d.Desc
		}
		other = append(other, d.Key)
	}
	if len(other) > 0 {
		return "" // a different key fails now; the recorded one does not
	}
	return ""
}

func c16Join(ss []string) string { return strings.Join(ss, ",") }
