package main

// C19 — the transaction pool stays internally consistent under any interleaving.
//
// Part "sections" (exhaustive within bounds): all pool state is mutated inside critical sections of
// pool.mu, so every concurrent execution is equivalent to some ORDER of those sections. The explorer
// enumerates orders of the REAL sections (AddLocal/AddRemotes bodies, runReorg with the request set
// scheduleReorgLoop would hand it - as one step or split into launch/run so that other sections
// interleave -, the eviction branch of loop(), SetGasPrice, removeTx, Qi add/remove) on a real
// TxPool built by NewTxPool over a mock chain with three heads (H0, its children H1 and the sibling
// H1s, so that resets drop, keep and resurrect transactions). A state is the history reaching it
// plus the canonical key after every step; successors are computed by replaying the history on a
// fresh pool. Sections contain Go map iterations (Reheap, RemotesBelowTip, promote order), i.e. the
// real transition relation is NOT a function: a replay is steered (re-executed until it follows the
// recorded key path) and every divergence met while steering is a newly discovered successor that
// is explored like any other. BFS is level-synchronous across the worker processes (frontier
// slices exchanged through /dev/shm), dedup on the canonical snapshot key (core.VerifC19Snap.Key).
//
// Part "race" (free-running, NOT exhaustive): see c19_race.go.
//
// PART 2 HOOK: c19Part2Hook (bottom of this file) receives every history of the depth-4 family
// that ends in a reorg section containing a reset - the lead's controlled-scheduler exploration of
// reset's two goroutines plugs in there.

import (
	"encoding/binary"
	"encoding/json"
	"fmt"
	"hash/fnv"
	"os"
	"path/filepath"
	"runtime"
	"runtime/debug"
	"runtime/pprof"
	"sort"
	"strings"
	"sync"
	"sync/atomic"
	"time"

	"github.com/dominant-strategies/go-quai/core"
	"github.com/dominant-strategies/go-quai/verifshim/vx"
)

func init() {
	register(vx.CheckSpec{ID: "C19", Shards: 16, QuickBudget: 70 * time.Second, ThoroughBudg: 14 * time.Minute, Run: runC19, ReplayFn: replayC19})
}

// c19PoolConfig: limits shrunk so that every truncation path is reachable within the depth
// bound; timers inert (hours) so that nothing happens behind the explorer's back.
func c19PoolConfig() core.TxPoolConfig {
	return core.TxPoolConfig{
		Journal: "", Rejournal: 24 * time.Hour,
		PriceLimit: 1, PriceBump: 5,
		AccountSlots: 1, GlobalSlots: 2, AccountQueue: 2, GlobalQueue: 3,
		MaxSenders: 64, MaxFeesCached: 64, SendersChBuffer: 16,
		QiPoolSize: 4, QiTxLifetime: time.Hour,
		Lifetime: time.Hour, ReorgFrequency: 24 * time.Hour,
	}
}

type c19Ev = core.VerifC19Event

// c19Alphabet: simplest first (remote adds by nonce, price, account; the reorg section; head
// moves; local adds for account A; split reorg; price floor; removals; eviction; Qi).
// The universe selects which transactions may be submitted/removed:
//
//	full   2 accounts x nonces {0,1,2} x prices {100,104,110}
//	acctA  account A only, all nonces and prices
//	small  2 accounts x nonces {0,1} x prices {100,110}
//
// Every universe has all section kinds.
func c19Alphabet(w *core.VerifC19World, universe string) []c19Ev {
	var a []c19Ev
	in := func(id string) bool {
		switch universe {
		case "acctA":
			return id[0] == 'A'
		case "small":
			return id[1] != '2' && id[2] != 'b'
		}
		return true
	}
	for _, id := range w.IDs {
		if in(id) {
			a = append(a, c19Ev{K: "addR", Tx: id})
		}
	}
	a = append(a, c19Ev{K: "reorg"})
	for i := range w.Heads {
		a = append(a, c19Ev{K: "head", A: i})
	}
	for _, id := range w.IDs {
		if id[0] == 'A' && in(id) { // local submissions for one account: the local flag is per account
			a = append(a, c19Ev{K: "addL", Tx: id})
		}
	}
	a = append(a, c19Ev{K: "launch"}, c19Ev{K: "run"})
	a = append(a, c19Ev{K: "price", A: 1}, c19Ev{K: "price", A: 0})
	for _, id := range w.IDs {
		if in(id) {
			a = append(a, c19Ev{K: "rm", Tx: id})
		}
	}
	a = append(a, c19Ev{K: "evict", A: 0})
	if universe != "acctA" {
		a = append(a, c19Ev{K: "evict", A: 1})
	}
	a = append(a, c19Ev{K: "qiadd"}, c19Ev{K: "qibad"}, c19Ev{K: "qirm"})
	return a
}

func c19Hash(s string) uint64 {
	h := fnv.New64a()
	h.Write([]byte(s))
	return h.Sum64()
}

type c19Node struct {
	Hist []c19Ev  `json:"h"`
	Keys []uint64 `json:"k"` // hash of the canonical key after every step
}

func c19HistStr(h []c19Ev) string {
	var s []string
	for _, e := range h {
		s = append(s, e.String())
	}
	return strings.Join(s, " ")
}

type c19Viol struct {
	Key  string
	Desc string
	Node c19Node
}

type c19Replay struct {
	Part string   `json:"part"`
	Hist []c19Ev  `json:"hist,omitempty"`
	Keys []string `json:"keys,omitempty"` // hex: hash of the canonical state key after every step (steers the replay past map-order nondeterminism)
	Seq  []c19Ev  `json:"seq,omitempty"`  // race part
}

func c19KeysHex(k []uint64) []string {
	out := make([]string, len(k))
	for i, v := range k {
		out[i] = fmt.Sprintf("%016x", v)
	}
	return out
}

func c19KeysParse(k []string) []uint64 {
	out := make([]uint64, len(k))
	for i, v := range k {
		fmt.Sscanf(v, "%x", &out[i])
	}
	return out
}

// c19Explorer owns the per-process world and the counters of one run.
type c19Explorer struct {
	c        *vx.Ctx
	p        *vx.Part
	part     string
	w        *core.VerifC19World
	alpha    []c19Ev
	pools    int64
	viols    []c19Viol
	reported map[string]bool
	cand     []c19Node // newly discovered nodes of this level (own shard)
	candSeen map[uint64]bool
	ntrans   int64
	levels   []int
	evIdx    map[string]int
	// stall supervision: the explorer publishes what it is executing
	curStart atomic.Int64 // unix nanos of the section in flight, 0 = none
	curMu    sync.Mutex
	curNode  c19Node
	level    int
	dir      string
}

func (x *c19Explorer) begin(hist []c19Ev, keys []uint64, ev c19Ev) {
	x.curMu.Lock()
	x.curNode = c19Node{Hist: append(append([]c19Ev{}, hist...), ev), Keys: append([]uint64{}, keys...)}
	x.curMu.Unlock()
	x.curStart.Store(time.Now().UnixNano())
}
func (x *c19Explorer) end() { x.curStart.Store(0) }

// step executes ev on pool p (already in the state after `hist`), evaluates the oracle for this
// transition and returns the successor's key.
func (x *c19Explorer) step(p *core.VerifC19Pool, before *core.VerifC19Snap, hist []c19Ev, ev c19Ev, count bool) (after *core.VerifC19Snap, key string, viols []core.VerifC19Viol, class string) {
	// supervised window: the section itself AND the snapshot after it (a section that returns
	// with pool.mu still held blocks the snapshot, not itself)
	x.begin(hist, nil, ev)
	defer x.end()
	res := p.Apply(ev)
	class = ev.K + ":" + res.Class
	if strings.HasPrefix(res.Class, "reorg:") || strings.HasPrefix(res.Class, "evict:") || res.Class == ev.K {
		class = res.Class
	}
	if res.Panic != "" {
		site := vx.PanicSite(res.Panic)
		viols = append(viols, core.VerifC19Viol{Key: "panic:" + site, Desc: fmt.Sprintf("section %v panicked after [%s]\n%s", ev, c19HistStr(hist), res.Panic)})
		return nil, "DEAD:panic:" + site, viols, class + ":panic"
	}
	if res.Stall != "" {
		viols = append(viols, core.VerifC19Viol{Key: "stall:" + ev.K, Desc: fmt.Sprintf("section %v did not return within 20 s after [%s]\n%s", ev, c19HistStr(hist), c19Trunc(res.Stall, 6000))})
		return nil, "DEAD:stall:" + ev.K, viols, class + ":stall"
	}
	after = p.Snapshot()
	key = after.Key()
	if count {
		for _, m := range res.Logs {
			x.p.Outcome("pool-logged-error:" + m)
		}
	}
	// (e) replacement rule on every accepted add
	if (ev.K == "addR" || ev.K == "addL") && res.Accept {
		viols = append(viols, core.VerifC19CheckReplace(before, ev.Tx)...)
		if _, where, found := c19Slot(before, ev.Tx); found && count {
			class += ":replaces-" + where
		}
	}
	if strings.HasPrefix(res.Class, "reorg:") {
		viols = append(viols, core.VerifC19CheckReinject(before, after)...)
		// invariants at the quiescent point that follows a reorg section
		if p.Quiescent() {
			viols = append(viols, core.VerifC19CheckQuiescent(after, res.Class)...)
			if count && core.VerifC19NonceDrift(after) {
				x.p.Outcome("note:pending-nonce-not-last+1")
			}
		}
	}
	return after, key, viols, class
}

func c19Slot(s *core.VerifC19Snap, id string) (string, string, bool) {
	acct, nonce, _, ok := core.VerifC19ParseID(id)
	if !ok {
		return "", "", false
	}
	for _, t := range s.Accts[acct].Pending.Txs {
		if t.Nonce == nonce && t.ID != id {
			return t.ID, "pending", true
		}
	}
	for _, t := range s.Accts[acct].Queue.Txs {
		if t.Nonce == nonce && t.ID != id {
			return t.ID, "queue", true
		}
	}
	return "", "", false
}

func c19Trunc(s string, n int) string {
	if len(s) > n {
		return s[:n] + "…"
	}
	return s
}

// reach builds a fresh pool and steers it along node n. Divergences (the real code took another
// branch of a map iteration) are registered as discovered successors. Returns nil if the path
// could not be followed within the attempt budget.
func (x *c19Explorer) reach(n c19Node, register bool) (*core.VerifC19Pool, *core.VerifC19Snap) {
	for attempt := 0; attempt < 400; attempt++ {
		x.pools++
		p := x.w.NewOwnedPool(x.pools%8 != 0) // every 8th pool gets cold transactions (real sender recovery)
		snap := p.Snapshot()
		ok := true
		for i, ev := range n.Hist {
			x.p.Evals++
			after, key, viols, _ := x.step(p, snap, n.Hist[:i], ev, false)
			kh := c19Hash(key)
			if kh != n.Keys[i] {
				if register {
					alt := c19Node{Hist: append([]c19Ev{}, n.Hist[:i+1]...), Keys: append(append([]uint64{}, n.Keys[:i]...), kh)}
					x.p.Outcome("nondeterministic-section:" + ev.K)
					x.record(alt, viols)
				}
				ok = false
				break
			}
			snap = after
			if after == nil {
				break
			}
		}
		if ok {
			return p, snap
		}
	}
	return nil, nil
}

func (x *c19Explorer) record(n c19Node, viols []core.VerifC19Viol) {
	for _, v := range viols {
		if !x.reported[v.Key] {
			x.reported[v.Key] = true
			x.viols = append(x.viols, c19Viol{v.Key, v.Desc, n})
		}
	}
	kh := n.Keys[len(n.Keys)-1]
	if !x.candSeen[kh] {
		x.candSeen[kh] = true
		x.cand = append(x.cand, n)
	}
}

// expand executes every enabled section from node n: the node's state is produced once by a
// (steered) replay on a pool built by NewTxPool, every section then runs on its own deep copy.
func (x *c19Explorer) expand(n c19Node, sample bool) bool {
	base, snap := x.reach(n, true)
	if base == nil {
		x.c.HarnessError("could not steer a replay along [" + c19HistStr(n.Hist) + "]")
		return false
	}
	if snap == nil { // dead state (panic/stall): no successors
		return true
	}
	var enabled []c19Ev
	for _, ev := range x.alpha {
		if base.Enabled(ev) {
			enabled = append(enabled, ev)
		}
	}
	for i, ev := range enabled {
		p := base.Clone()
		x.p.Transitions++
		x.p.Traces++
		x.ntrans++
		after, key, viols, class := x.step(p, snap, n.Hist, ev, true)
		x.p.Outcome(class)
		succ := c19Node{Hist: append(append([]c19Ev{}, n.Hist...), ev), Keys: append(append([]uint64{}, n.Keys...), c19Hash(key))}
		x.record(succ, viols)
		if x.ntrans%41 == 0 && !x.validate(n, base, snap, ev, key) {
			return false
		}
		if sample && after != nil && i == len(enabled)/2 {
			x.p.Sample(map[string]string{"history": c19HistStr(succ.Hist), "outcome": class, "state": after.Render()})
		}
	}
	return true
}

// validate cross-checks the deep copy against a real replay: the same section executed on a
// freshly replayed pool must give the same successor key (or, for a section that iterates a Go
// map, the two ways must at least share an outcome over repeated executions).
func (x *c19Explorer) validate(n c19Node, base *core.VerifC19Pool, snap *core.VerifC19Snap, ev c19Ev, key string) bool {
	x.p.Evals++
	r, rs := x.reach(n, false)
	if r == nil || rs == nil {
		x.c.HarnessError("validation replay failed along [" + c19HistStr(n.Hist) + "]")
		return false
	}
	_, k2, _, _ := x.step(r, rs, n.Hist, ev, false)
	if k2 == key {
		return true
	}
	viaClone, viaReplay := map[string]bool{key: true}, map[string]bool{k2: true}
	for i := 0; i < 24; i++ {
		_, kc, _, _ := x.step(base.Clone(), snap, n.Hist, ev, false)
		viaClone[kc] = true
		if r, rs = x.reach(n, false); r != nil && rs != nil {
			_, kr, _, _ := x.step(r, rs, n.Hist, ev, false)
			viaReplay[kr] = true
		}
	}
	for k := range viaClone {
		if viaReplay[k] {
			x.p.Outcome("nondeterministic-section:" + ev.K)
			return true
		}
	}
	x.c.HarnessError(fmt.Sprintf("deep copy disagrees with a real replay after [%s] + %v:\n copy  : %s\n replay: %s", c19HistStr(n.Hist), ev, key, k2))
	return false
}

// ---- exchange between worker processes (distributed BFS) ----
//
// A state whose key hashes to h is OWNED by worker h % N: only the owner deduplicates and expands
// it. In every round a worker expands its own frontier, buckets the successors by owner and
// writes one binary file per destination; then it reads the N files addressed to it, keeps the
// states it has not seen, and publishes a small status record from which all workers take the
// same continue/stop decision.

func c19ShareDir(c *vx.Ctx) string {
	return filepath.Join("/dev/shm", fmt.Sprintf("vq-c19-%d-%s", os.Getppid(), c.Tier))
}

func (x *c19Explorer) encode(nodes []c19Node) []byte {
	var buf []byte
	for _, n := range nodes {
		buf = append(buf, byte(len(n.Hist)))
		for _, ev := range n.Hist {
			buf = append(buf, byte(x.evIdx[ev.String()]))
		}
		for _, k := range n.Keys {
			buf = binary.LittleEndian.AppendUint64(buf, k)
		}
	}
	return buf
}

func (x *c19Explorer) decode(buf []byte) ([]c19Node, error) {
	var out []c19Node
	for len(buf) > 0 {
		n := int(buf[0])
		if len(buf) < 1+n+8*n {
			return nil, fmt.Errorf("truncated frontier file")
		}
		nd := c19Node{Hist: make([]c19Ev, n), Keys: make([]uint64, n)}
		for i := 0; i < n; i++ {
			nd.Hist[i] = x.alpha[buf[1+i]]
		}
		for i := 0; i < n; i++ {
			nd.Keys[i] = binary.LittleEndian.Uint64(buf[1+n+8*i:])
		}
		out = append(out, nd)
		buf = buf[1+n+8*n:]
	}
	return out, nil
}

func c19WriteAtomic(path string, data []byte) error {
	if err := os.WriteFile(path+".tmp", data, 0o644); err != nil {
		return err
	}
	return os.Rename(path+".tmp", path)
}

func c19WaitRead(path string, giveUp time.Time) ([]byte, error) {
	for {
		b, err := os.ReadFile(path)
		if err == nil {
			return b, nil
		}
		if time.Now().After(giveUp) {
			return nil, fmt.Errorf("%s never appeared (a worker died or is stuck)", filepath.Base(path))
		}
		time.Sleep(2 * time.Millisecond)
	}
}

type c19Status struct {
	Frontier int  `json:"frontier"`
	Expired  bool `json:"expired"`
	Left     int  `json:"left"`
	Fatal    bool `json:"fatal"`
}

// scatter writes this worker's successors of round r, bucketed by owner.
func (x *c19Explorer) scatter(round int, cand []c19Node) error {
	n := x.c.NShards
	buckets := make([][]c19Node, n)
	for _, nd := range cand {
		o := int(nd.Keys[len(nd.Keys)-1] % uint64(n))
		buckets[o] = append(buckets[o], nd)
	}
	for d := 0; d < n; d++ {
		if err := c19WriteAtomic(filepath.Join(x.dir, fmt.Sprintf("L%03d.F%02d.T%02d", round, x.c.Shard, d)), x.encode(buckets[d])); err != nil {
			return err
		}
	}
	return nil
}

// gather reads the successors addressed to this worker, in source order.
func (x *c19Explorer) gather(round int) ([]c19Node, error) {
	var out []c19Node
	giveUp := time.Now().Add(3 * time.Minute)
	for s := 0; s < x.c.NShards; s++ {
		path := filepath.Join(x.dir, fmt.Sprintf("L%03d.F%02d.T%02d", round, s, x.c.Shard))
		b, err := c19WaitRead(path, giveUp)
		if err != nil {
			return nil, err
		}
		nodes, err := x.decode(b)
		if err != nil {
			return nil, err
		}
		out = append(out, nodes...)
		os.Remove(path)
	}
	return out, nil
}

// agree publishes this worker's status of round r and returns everybody's.
func (x *c19Explorer) agree(round int, mine c19Status) ([]c19Status, error) {
	n := x.c.NShards
	raw, _ := json.Marshal(mine)
	if err := c19WriteAtomic(filepath.Join(x.dir, fmt.Sprintf("R%03d.S%02d", round, x.c.Shard)), raw); err != nil {
		return nil, err
	}
	out := make([]c19Status, n)
	giveUp := time.Now().Add(3 * time.Minute)
	for s := 0; s < n; s++ {
		b, err := c19WaitRead(filepath.Join(x.dir, fmt.Sprintf("R%03d.S%02d", round, s)), giveUp)
		if err != nil {
			return nil, err
		}
		if err := json.Unmarshal(b, &out[s]); err != nil {
			return nil, err
		}
	}
	return out, nil
}

func runC19(c *vx.Ctx) {
	c.Rule = "sections*: distributed BFS over orders of the pool's real critical sections (AddLocal/AddRemotes, runReorg whole or split launch/run, head move, eviction branch of loop(), SetGasPrice, removeTx, Qi add/remove) in three transaction universes (full / small / acctA) over 3 heads incl. siblings, dedup on the canonical pool snapshot, every transition executed by the real code on a deep copy of a pool reached by replay on a NewTxPool instance; outcome class = section kind x result (accept / error class / replaces-pending|queue / reorg flavour). race: event sequences issued through the public API from 3 free-running goroutines in a -race build; outcome class = quiescent pool shape"
	c.Assume("pool.mu critical sections are atomic (refutable only by the race part); the channel/select scheduling of loop()/scheduleReorgLoop is replaced by the explorer choosing the order; their request bookkeeping (old/new head merge, dirty-set merge) is mirrored in the harness")
	c.Assume("timers are inert (ReorgFrequency, Lifetime, Rejournal = hours); the eviction section is the real loop() branch run with a 100 µs ticker after the chosen account's heartbeat/time stamps were set old")
	c.Assume("invariants are evaluated at quiescent points = after a reorg section that left no request outstanding; the replacement rule is evaluated on every accepted add and across every reorg section")
	c.Assume("'affordable' = each pending transaction's cost <= balance (the pool's admission rule, not cumulative); the price index tracks remote transactions only and deletes lazily: it 'holds' entries minus its own stale count")
	c.Assume("limits scaled: AccountSlots 1, GlobalSlots 2, AccountQueue 2, GlobalQueue 3, PriceBump 5%, QiPoolSize 4")
	c.Assume("poolLimiterGoroutine (hard-coded 30 s ticker) and qiTxExpirationGoroutine bodies are not drivable without rewriting the source: not covered")
	// stale exchange directories of killed runs
	if c.Shard == 0 {
		if ds, err := filepath.Glob("/dev/shm/vq-c19-*"); err == nil {
			for _, d := range ds {
				if st, err := os.Stat(d); err == nil && time.Since(st.ModTime()) > 40*time.Minute {
					os.RemoveAll(d)
				}
			}
		}
	}
	t0 := time.Now()
	at := func(quick, thorough time.Duration) time.Time {
		if c.Thorough() {
			return t0.Add(thorough)
		}
		return t0.Add(quick)
	}
	pick := func(q, t int) int {
		if c.Thorough() {
			return t
		}
		return q
	}
	if got, want := core.VerifC19PoolFieldCount(); got != want {
		c.HarnessError(fmt.Sprintf("core.TxPool has %d fields, the deep copy in overlay/core/c19_clone.go knows %d: update it", got, want))
		return
	}
	debug.SetGCPercent(300)
	debug.SetMemoryLimit(768 << 20)
	w, err := core.VerifC19NewWorld(c19PoolConfig())
	if err != nil {
		c.HarnessError("world: " + err.Error())
		return
	}
	// three universes, each explored exhaustively to its own depth (see c19Alphabet); the
	// smallest universe goes deepest and runs first
	if c.Wants("sections-acctA") {
		c19Sections(c, w, "sections-acctA", "acctA", pick(5, 8), at(18*time.Second, 4*time.Minute))
	}
	if c.Wants("sections-small") {
		c19Sections(c, w, "sections-small", "small", pick(5, 7), at(28*time.Second, 7*time.Minute))
	}
	if c.Wants("sections") {
		c19Sections(c, w, "sections", "full", pick(4, 5), at(42*time.Second, 11*time.Minute))
	}
	if c.Wants("race") {
		c19Race(c, at(56*time.Second, 13*time.Minute+30*time.Second))
	}
	c19MapOrder(c)
}

func c19Sections(c *vx.Ctx, w *core.VerifC19World, part, universe string, depth int, stopAt time.Time) {
	p := c.Part(part)
	if v := os.Getenv("C19_DEPTH"); v != "" {
		fmt.Sscanf(v, "%d", &depth)
	}
	if v := os.Getenv("C19_REGIME"); v != "" {
		universe = v
	}
	if v := os.Getenv("C19_STOP"); v != "" {
		var sec int
		fmt.Sscanf(v, "%d", &sec)
		stopAt = time.Now().Add(time.Duration(sec) * time.Second)
	}
	if pf := os.Getenv("C19_PROF"); pf != "" {
		f, _ := os.Create(pf)
		pprof.StartCPUProfile(f)
		defer pprof.StopCPUProfile()
	}
	x := &c19Explorer{c: c, p: p, part: part, w: w, alpha: c19Alphabet(w, universe), reported: map[string]bool{}, candSeen: map[uint64]bool{}}
	x.evIdx = map[string]int{}
	for i, ev := range x.alpha {
		x.evIdx[ev.String()] = i
	}
	p.Bound("depth", depth)
	p.Bound("alphabet", len(x.alpha))
	p.Bound("universe", map[string]string{"full": "2 accounts x nonces {0,1,2} x prices {100,104,110}", "small": "2 accounts x nonces {0,1} x prices {100,110}", "acctA": "account A x nonces {0,1,2} x prices {100,104,110}"}[universe])
	p.Bound("heads", map[string]any{"names": w.HeadNames, "included": w.HeadTxs})
	p.Bound("limits", "AccountSlots 1 GlobalSlots 2 AccountQueue 2 GlobalQueue 3 PriceBump 5")
	x.dir = c19ShareDir(c) + "-" + part
	if c.NShards > 1 {
		os.MkdirAll(x.dir, 0o755)
	}

	// The explorer runs on its own goroutine; this one supervises it: a section that does not
	// return within 20 s is a stall (deadlock) of the code under test.
	done := make(chan struct{})
	go func() {
		defer close(done)
		if perr := vx.Guard(func() { x.bfs(depth, stopAt) }); perr != "" {
			c.HarnessError("explorer panicked outside a section: " + perr)
		}
	}()
	tick := time.NewTicker(250 * time.Millisecond)
	defer tick.Stop()
	stalled := false
loop:
	for {
		select {
		case <-done:
			break loop
		case <-tick.C:
			if st := x.curStart.Load(); st != 0 && time.Since(time.Unix(0, st)) > 20*time.Second {
				stalled = true
				break loop
			}
		}
	}
	if stalled {
		x.curMu.Lock()
		n := x.curNode
		lvl := x.level
		x.curMu.Unlock()
		key, desc := c19StallFinding(w, n)
		p.Incomplete("a section stalled; exploration abandoned")
		// let the other workers finish their round
		if c.NShards > 1 {
			x.scatter(lvl, nil)
			raw, _ := json.Marshal(c19Status{Fatal: true})
			c19WriteAtomic(filepath.Join(x.dir, fmt.Sprintf("R%03d.S%02d", lvl, c.Shard)), raw)
		}
		if c.Confirm(desc, func() string { return c19StallRecheck(n) }) {
			c.Violate(part, key, desc, c19Replay{Part: "stall", Hist: n.Hist})
		}
		return
	}
	p.Bound("pools-built-per-worker", x.pools)
	for _, v := range x.viols {
		v := v
		if c.Confirm(v.Desc, func() string { return x.recheck(v.Node, v.Key) }) {
			c.Violate(part, v.Key, v.Desc+"\n history: "+c19HistStr(v.Node.Hist), c19Replay{Part: "sections", Hist: v.Node.Hist, Keys: c19KeysHex(v.Node.Keys)})
		}
	}
	if c19Part2Hook != nil {
		c19Part2Hook(c, x)
	}
}

// c19StallFinding names a stall: if the pool's own recover() swallowed a panic just before (reset()
// then waits forever for the goroutine that skipped wg.Done), the finding is that panic.
func c19StallFinding(w *core.VerifC19World, n c19Node) (key, desc string) {
	last := n.Hist[len(n.Hist)-1]
	if ps := w.SwallowedPanics(); len(ps) > 0 {
		site := vx.PanicSite(ps[0])
		return "panic:" + site, fmt.Sprintf("section %v panicked inside a goroutine whose recover() swallowed it, and then never returned (stall) after [%s]\n%s", last, c19HistStr(n.Hist[:len(n.Hist)-1]), c19Trunc(ps[0], 4000))
	}
	buf := make([]byte, 256<<10)
	buf = buf[:runtime.Stack(buf, true)]
	return "stall:" + last.K, fmt.Sprintf("section %v (or the pool snapshot right after it) did not return within 20 s after [%s]: a pool lock is stuck\n%s", last, c19HistStr(n.Hist[:len(n.Hist)-1]), c19Trunc(c19PoolFrames(string(buf)), 6000))
}

// c19PoolFrames keeps the goroutines of a dump that are inside the pool.
func c19PoolFrames(dump string) string {
	var out []string
	for _, g := range strings.Split(dump, "\n\n") {
		if strings.Contains(g, "core.(*TxPool)") {
			out = append(out, g)
		}
	}
	return strings.Join(out, "\n\n")
}

// c19StallRecheck re-executes a history on a fresh world with a 5 s limit for the last section.
func c19StallRecheck(n c19Node) string {
	w, err := core.VerifC19NewWorld(c19PoolConfig())
	if err != nil {
		return ""
	}
	res := make(chan string, 1)
	go func() {
		p := w.NewOwnedPool(true)
		for _, ev := range n.Hist {
			r := p.Apply(ev)
			if r.Panic != "" {
				res <- "panic:" + vx.PanicSite(r.Panic)
				return
			}
			p.Snapshot()
		}
		res <- ""
	}()
	select {
	case r := <-res:
		return r
	case <-time.After(5 * time.Second):
		if ps := w.SwallowedPanics(); len(ps) > 0 {
			return "panic:" + vx.PanicSite(ps[0])
		}
		return "stall:" + n.Hist[len(n.Hist)-1].K
	}
}

func (x *c19Explorer) bfs(depth int, stopAt time.Time) {
	c, p := x.c, x.p
	root := x.w.NewOwnedPool(true).Snapshot()
	rootKey := c19Hash(root.Key())
	seen := map[uint64]bool{}
	var frontier []c19Node
	multi := c.NShards > 1
	owner := func(kh uint64) int {
		if !multi {
			return 0
		}
		return int(kh % uint64(c.NShards))
	}
	if owner(rootKey) == c.Shard {
		seen[rootKey] = true
		frontier = []c19Node{{}}
	}
	for {
		x.curMu.Lock()
		x.level++
		round := x.level
		x.curMu.Unlock()
		st := c19Status{}
		x.cand, x.candSeen = nil, map[uint64]bool{}
		for i, n := range frontier {
			if st.Expired || c.Expired() || time.Now().After(stopAt) {
				st.Expired = true
				st.Left++
				continue
			}
			if !x.expand(n, len(n.Hist) == depth-1 && i%97 == 0) {
				st.Fatal = true
				break
			}
		}
		incoming := x.cand
		if multi {
			if err := x.scatter(round, x.cand); err != nil {
				c.HarnessError(err.Error())
				return
			}
			var err error
			if incoming, err = x.gather(round); err != nil {
				c.HarnessError(err.Error())
				return
			}
		}
		total := len(frontier)
		frontier = frontier[:0:0]
		for _, n := range incoming {
			kh := n.Keys[len(n.Keys)-1]
			if seen[kh] {
				continue
			}
			seen[kh] = true
			if int64(len(n.Hist)) > p.MaxDepth {
				p.MaxDepth = int64(len(n.Hist))
			}
			if len(n.Hist) < depth {
				frontier = append(frontier, n)
			}
		}
		sort.SliceStable(frontier, func(i, j int) bool { return len(frontier[i].Hist) < len(frontier[j].Hist) })
		st.Frontier = len(frontier)
		all := []c19Status{st}
		if multi {
			var err error
			if all, err = x.agree(round, st); err != nil {
				c.HarnessError(err.Error())
				return
			}
		}
		next, left, expired, fatal := 0, 0, false, false
		for _, s := range all {
			next += s.Frontier
			left += s.Left
			expired = expired || s.Expired
			fatal = fatal || s.Fatal
		}
		x.levels = append(x.levels, next)
		_ = total
		if fatal {
			p.Incomplete(fmt.Sprintf("a worker aborted in round %d", round))
			break
		}
		if expired {
			p.Incomplete(fmt.Sprintf("deadline in round %d: %d states of that round's frontier were not expanded (every history shorter than %d sections is complete)", round, left, round-1))
			break
		}
		if next == 0 {
			break
		}
	}
	p.States = int64(len(seen)) // states owned by this worker; the merge adds the workers up
	if multi {
		c19WriteAtomic(filepath.Join(x.dir, fmt.Sprintf("done.S%02d", c.Shard)), nil)
		if c.Shard == 0 {
			// wait until every worker has read the last round, then clean up
			giveUp := time.Now().Add(90 * time.Second)
			for s := 0; s < c.NShards && time.Now().Before(giveUp); {
				if _, err := os.Stat(filepath.Join(x.dir, fmt.Sprintf("done.S%02d", s))); err == nil {
					s++
				} else {
					time.Sleep(5 * time.Millisecond)
				}
			}
			os.RemoveAll(x.dir)
		}
	}
	if os.Getenv("C19_LEVELS") != "" && c.Shard == 0 {
		fmt.Fprintf(os.Stderr, "frontier sizes per round: %v\n", x.levels)
	}
}

// recheck re-executes a history (steered along its key path) and returns key if the same
// violation shows again at its last step.
func (x *c19Explorer) recheck(n c19Node, key string) string {
	last := len(n.Hist) - 1
	prefix := c19Node{Hist: n.Hist[:last], Keys: n.Keys[:last]}
	for attempt := 0; attempt < 60; attempt++ {
		p, snap := x.reach(prefix, false)
		if p == nil || snap == nil {
			return ""
		}
		_, k, viols, _ := x.step(p, snap, prefix.Hist, n.Hist[last], false)
		if c19Hash(k) != n.Keys[last] {
			continue // the nondeterministic section took its other branch this time
		}
		for _, v := range viols {
			if v.Key == key {
				return key
			}
		}
		return ""
	}
	return ""
}

func replayC19(c *vx.Ctx, v vx.Violation) string {
	if v.Part == "map-order" {
		return c19MapReplay(v)
	}
	if strings.HasPrefix(v.Part, "draw-") && mapIterAvail {
		var i int
		fmt.Sscanf(v.Part, "draw-%d", &i)
		if i >= 0 && i < len(mapOrderDraws) {
			setMapIter(true, mapOrderDraws[i])
			defer setMapIter(false, 0)
		}
	}
	raw, _ := jsonMarshal(v.Replay)
	var r c19Replay
	if err := jsonUnmarshal(raw, &r); err != nil {
		return "bad replay: " + err.Error()
	}
	if r.Part == "race" {
		return c19RaceReplay(c, v, r)
	}
	if r.Part == "stall" {
		if k := c19StallRecheck(c19Node{Hist: r.Hist}); k == v.Key {
			return "key=" + k + " (reproduced: [" + c19HistStr(r.Hist) + "] does not return)"
		}
		return ""
	}
	w, err := core.VerifC19NewWorld(c19PoolConfig())
	if err != nil {
		return "harness: " + err.Error()
	}
	x := &c19Explorer{c: c, p: c.Part("replay"), w: w, alpha: c19Alphabet(w, "full"), reported: map[string]bool{}, candSeen: map[uint64]bool{}}
	if len(r.Keys) != len(r.Hist) || len(r.Hist) == 0 {
		return "bad replay: history/key path mismatch"
	}
	n := c19Node{Hist: r.Hist, Keys: c19KeysParse(r.Keys)}
	if x.recheck(n, v.Key) == v.Key {
		// produce the description again
		last := len(n.Hist) - 1
		for attempt := 0; attempt < 60; attempt++ {
			p, snap := x.reach(c19Node{Hist: n.Hist[:last], Keys: n.Keys[:last]}, false)
			if p == nil || snap == nil {
				break
			}
			_, _, viols, _ := x.step(p, snap, n.Hist[:last], n.Hist[last], false)
			for _, vv := range viols {
				if vv.Key == v.Key {
					return "key=" + vv.Key + "\n  " + strings.ReplaceAll(vv.Desc, "\n", "\n  ") + "\n  history: " + c19HistStr(n.Hist)
				}
			}
		}
		return "key=" + v.Key + " (reproduced)"
	}
	return ""
}

// ---------------------------------------------------------------------------------------------
// PART 2 HOOK (lead): controlled-scheduler exploration of the two goroutines that reset() runs
// under the pool lock (addTxsLocked re-injection and addQiTxsWithoutValidationLocked).
// Assign c19Part2Hook from another file of this package; it is called once per worker after the
// sections part. c19ResetFamily(x, 4) lists every history (with its key path) of at most 4
// sections whose last section is a reorg containing a reset with a non-empty re-injection set;
// x.reach(node, false) puts a fresh real pool in the state BEFORE that last section
// (pass c19Node{Hist: h[:len-1], Keys: k[:len-1]}), after which pool.Apply(last) runs reset().
var c19Part2Hook func(c *vx.Ctx, x *c19Explorer)

// c19ResetFamily enumerates (deterministically, sequentially, no dedup) the histories of the
// given length whose last section is a reorg that performs a reset away from a head with
// transactions (i.e. reset() starts both goroutines with work to do).
func c19ResetFamily(x *c19Explorer, length int) []c19Node {
	var out []c19Node
	var rec func(n c19Node)
	rec = func(n c19Node) {
		p, snap := x.reach(n, false)
		if p == nil || snap == nil {
			return
		}
		for _, ev := range x.alpha {
			if !p.Enabled(ev) {
				continue
			}
			if len(n.Hist) == length-1 {
				if (ev.K == "reorg" || ev.K == "run") && strings.Contains(snap.Sched, "reset(") && !strings.Contains(snap.Sched, "reset(0>") {
					out = append(out, c19Node{Hist: append(append([]c19Ev{}, n.Hist...), ev), Keys: n.Keys})
				}
				continue
			}
			q, s2 := x.reach(n, false)
			if q == nil {
				continue
			}
			_, key, _, _ := x.step(q, s2, n.Hist, ev, false)
			rec(c19Node{Hist: append(append([]c19Ev{}, n.Hist...), ev), Keys: append(append([]uint64{}, n.Keys...), c19Hash(key))})
		}
	}
	rec(c19Node{})
	return out
}
