package main

// C14 subjects: receipts (consensus / storage / JSON forms), Qi outputs (UTXO entries, spent
// entries, address outpoints, DB keys) and the AuxTemplate p2p message.

import (
	"errors"
	"fmt"
	"math/big"

	"github.com/dominant-strategies/go-quai/common"
	"github.com/dominant-strategies/go-quai/core/rawdb"
	"github.com/dominant-strategies/go-quai/core/types"
	"github.com/dominant-strategies/go-quai/ethdb"
	"github.com/dominant-strategies/go-quai/p2p/pb"
	"github.com/dominant-strategies/go-quai/rlp"
	"google.golang.org/protobuf/proto"
)

// ---- receipts ---------------------------------------------------------------------------------

func c14MkLog(e *c14Env, sym c14AddrSym, topics int, data []byte, tag byte) *types.Log {
	a, _ := c14ResolveAddr(sym, e.Loc, tag)
	l := &types.Log{Address: a, Data: data}
	if topics >= 0 {
		l.Topics = make([]common.Hash, 0, topics)
		for i := 0; i < topics; i++ {
			l.Topics = append(l.Topics, c14HashOf(fmt.Sprintf("topic%d-%d", tag, i)))
		}
	}
	return l
}

func c14ResolveLogs(sym string, e *c14Env) []*types.Log {
	switch sym {
	case "nil":
		return nil
	case "empty":
		return []*types.Log{}
	case "1":
		return []*types.Log{c14MkLog(e, c14AInQuai, 2, []byte{1, 2, 3, 4}, 0x71)}
	case "2":
		return []*types.Log{c14MkLog(e, c14AInQuai, 1, []byte{5}, 0x72), c14MkLog(e, c14AInQuai, 4, c14BytesMenu(nil)[3].V.([]byte), 0x73)}
	case "no-topics":
		return []*types.Log{c14MkLog(e, c14AInQuai, 0, []byte{1}, 0x74)}
	case "nil-topics":
		return []*types.Log{c14MkLog(e, c14AInQuai, -1, []byte{1}, 0x74)}
	case "nil-data":
		return []*types.Log{c14MkLog(e, c14AInQuai, 1, nil, 0x75)}
	case "empty-data":
		return []*types.Log{c14MkLog(e, c14AInQuai, 1, []byte{}, 0x75)}
	case "external-addr":
		return []*types.Log{c14MkLog(e, c14AExtQuai, 1, []byte{9}, 0x76)}
	case "zero-addr":
		return []*types.Log{c14MkLog(e, c14AZero, 1, []byte{9}, 0x77)}
	}
	panic("bad logs symbol")
}

func c14RefLogs(r *c14Ref, logs []*types.Log) {
	r.u("logs.len", uint64(len(logs)))
	for i, l := range logs {
		r.addr(fmt.Sprintf("logs[%d].address", i), l.Address)
		r.u(fmt.Sprintf("logs[%d].topics.len", i), uint64(len(l.Topics)))
		for j, t := range l.Topics {
			r.h(fmt.Sprintf("logs[%d].topics[%d]", i, j), t)
		}
		r.byt(fmt.Sprintf("logs[%d].data", i), l.Data)
	}
}

// c14RefReceipt renders the fields a given form of the receipt is meant to carry.
func c14RefReceipt(mode string) func(e *c14Env, o any) string {
	return func(e *c14Env, o any) string {
		rc := o.(*types.Receipt)
		r := c14NewRef()
		if mode == "consensus" || mode == "json" {
			r.u("type", uint64(rc.Type))
		}
		r.byt("postState", rc.PostState)
		r.u("status", rc.Status)
		r.u("cumulativeGasUsed", rc.CumulativeGasUsed)
		r.byt("bloom", rc.Bloom[:])
		c14RefLogs(r, rc.Logs)
		c14RefTxs(r, "outboundEtxs", rc.OutboundEtxs)
		if mode == "storage" || mode == "json" {
			r.h("txHash", rc.TxHash)
			r.addr("contractAddress", rc.ContractAddress)
			r.u("gasUsed", rc.GasUsed)
		}
		if mode == "json" {
			r.h("blockHash", rc.BlockHash)
			r.big("blockNumber", rc.BlockNumber)
			r.u("transactionIndex", uint64(rc.TransactionIndex))
		}
		return r.String()
	}
}

func init() {
	c14Register(&c14Subject{
		Name: "receipt",
		Fields: func() []c14Field {
			return []c14Field{
				{N: "loc", M: c14LocMenu()},
				{N: "type", M: []c14Val{{L: "quai", V: uint64(types.QuaiTxType)}, {L: "external", V: uint64(types.ExternalTxType)}, {L: "qi", V: uint64(types.QiTxType)}, {L: "3(unsupported)", V: uint64(3), Ill: true}}},
				{N: "status", M: []c14Val{{L: "successful", V: types.ReceiptStatusSuccessful}, {L: "failed", V: types.ReceiptStatusFailed}, {L: "locked", V: types.ReceiptStatusLocked}}},
				{N: "postState", M: []c14Val{{L: "nil", V: []byte(nil)}, {L: "empty", V: []byte{}}, {L: "32B-root", V: c14HashOf("root").Bytes()}, {L: "31B", V: c14HashOf("root").Bytes()[:31], Ill: true}}},
				{N: "cumulativeGasUsed", M: c14U64Menu(63000)},
				{N: "logs", M: []c14Val{{L: "1", V: "1"}, {L: "nil", V: "nil"}, {L: "empty", V: "empty"}, {L: "2", V: "2"}, {L: "no-topics", V: "no-topics"}, {L: "nil-topics", V: "nil-topics"},
					{L: "nil-data", V: "nil-data"}, {L: "empty-data", V: "empty-data"}, {L: "external-addr", V: "external-addr"}, {L: "zero-addr", V: "zero-addr"}}},
				{N: "txHash", M: c14HashMenu("rc-tx")},
				{N: "contractAddress", M: []c14Val{{L: "none(nil-inner)", V: c14ANilIn}, {L: "internal-quai", V: c14AInQuai}, {L: "external-quai", V: c14AExtQuai}, {L: "zero20", V: c14AZero}}},
				{N: "gasUsed", M: c14U64Menu(21000)},
				{N: "outboundEtxs", M: []c14Val{{L: "nil", V: "nil"}, {L: "empty", V: "empty"}, {L: "1", V: "1"}, {L: "2", V: "2"}}},
				{N: "inclusion", M: []c14Val{{L: "unset", V: "unset"}, {L: "set", V: "set"}, {L: "set-max", V: "max"}}},
			}
		},
		Build: func(e *c14Env, v *c14Vals) (any, bool) {
			ca, _ := c14ResolveAddr(v.raw("contractAddress").(c14AddrSym), e.Loc, 0x78)
			rc := &types.Receipt{
				Type:              uint8(v.u64("type")),
				PostState:         v.bytes("postState"),
				Status:            v.u64("status"),
				CumulativeGasUsed: v.u64("cumulativeGasUsed"),
				Logs:              c14ResolveLogs(v.str("logs"), e),
				TxHash:            v.hash("txHash"),
				ContractAddress:   ca,
				GasUsed:           v.u64("gasUsed"),
				OutboundEtxs:      c14ResolveEtxs(v.str("outboundEtxs"), e),
			}
			if len(rc.PostState) > 0 {
				rc.Status = 0 // a receipt carries either a post-state root or a status
			}
			switch v.str("inclusion") {
			case "set":
				rc.BlockHash, rc.BlockNumber, rc.TransactionIndex = c14HashOf("rc-blk"), big.NewInt(4242), 3
			case "max":
				rc.BlockHash, rc.BlockNumber, rc.TransactionIndex = c14HashOf("rc-blk"), c14Max(64), uint(^uint32(0))
			}
			rc.Bloom = types.CreateBloom(types.Receipts{rc})
			return rc, false
		},
		Ref: c14RefReceipt("json"),
		Paths: []c14Path{
			{Name: "rlp-consensus", Ref: c14RefReceipt("consensus"),
				Enc: func(e *c14Env, o any) ([]byte, error) { return rlp.EncodeToBytes(o.(*types.Receipt)) },
				Dec: func(e *c14Env, b []byte) (any, error) {
					r := new(types.Receipt)
					if err := rlp.DecodeBytes(b, r); err != nil {
						return nil, err
					}
					return r, nil
				}},
			{Name: "proto-storage", Ref: c14RefReceipt("storage"),
				Enc: func(e *c14Env, o any) ([]byte, error) {
					p, err := (*types.ReceiptForStorage)(o.(*types.Receipt)).ProtoEncode()
					if err != nil {
						return nil, err
					}
					return proto.Marshal(p)
				},
				Dec: func(e *c14Env, b []byte) (any, error) {
					p := new(types.ProtoReceiptForStorage)
					if err := proto.Unmarshal(b, p); err != nil {
						return nil, err
					}
					r := new(types.ReceiptForStorage)
					if err := r.ProtoDecode(p, e.Loc); err != nil {
						return nil, err
					}
					return (*types.Receipt)(r), nil
				}},
			{Name: "rlp-storage", Ref: c14RefReceipt("storage"),
				Enc: func(e *c14Env, o any) ([]byte, error) {
					return rlp.EncodeToBytes((*types.ReceiptForStorage)(o.(*types.Receipt)))
				},
				Dec: func(e *c14Env, b []byte) (any, error) {
					r := new(types.ReceiptForStorage)
					if err := rlp.DecodeBytes(b, r); err != nil {
						return nil, err
					}
					return (*types.Receipt)(r), nil
				}},
			{Name: "rawdb-receipts", Ref: c14RefReceipt("storage"),
				Enc: func(e *c14Env, o any) ([]byte, error) {
					return c14DBEnc(e.Loc, func(db ethdb.Database) error {
						rawdb.WriteReceipts(db, c14WoKey(), 77, types.Receipts{o.(*types.Receipt), o.(*types.Receipt)})
						return nil
					})
				},
				Dec: func(e *c14Env, b []byte) (any, error) {
					return c14DBDec(e.Loc, b, func(db ethdb.Database) (any, error) {
						rs := rawdb.ReadRawReceipts(db, c14WoKey(), 77)
						if len(rs) != 2 {
							return nil, fmt.Errorf("ReadRawReceipts returned %d receipts, want 2", len(rs))
						}
						if c14RefReceipt("storage")(e, rs[0]) != c14RefReceipt("storage")(e, rs[1]) {
							return nil, errors.New("the two copies of the receipt decode differently")
						}
						return rs[1], nil
					})
				}},
			{Name: "json",
				Enc: func(e *c14Env, o any) ([]byte, error) { return o.(*types.Receipt).MarshalJSON() },
				Dec: func(e *c14Env, b []byte) (any, error) {
					r := new(types.Receipt)
					if err := r.UnmarshalJSON(b); err != nil {
						return nil, err
					}
					return r, nil
				}},
		},
	})
}

// ---- Qi outputs -------------------------------------------------------------------------------

type c14Utxo struct {
	Spent *types.SpentUtxoEntry          // outpoint + entry
	OD    *types.OutpointAndDenomination // the address-index form of the same output
}

func c14RefUtxo(mode string) func(e *c14Env, o any) string {
	return func(e *c14Env, o any) string {
		u := o.(*c14Utxo)
		r := c14NewRef()
		switch mode {
		case "entry":
			r.u("denomination", uint64(u.Spent.UtxoEntry.Denomination))
			r.byt("address", u.Spent.UtxoEntry.Address)
			r.big("lock", u.Spent.UtxoEntry.Lock)
		case "spent":
			r.h("txHash", u.Spent.TxHash)
			r.u("index", uint64(u.Spent.Index))
			r.u("denomination", uint64(u.Spent.UtxoEntry.Denomination))
			r.byt("address", u.Spent.UtxoEntry.Address)
			r.big("lock", u.Spent.UtxoEntry.Lock)
		case "od":
			r.h("txHash", u.OD.TxHash)
			r.u("index", uint64(u.OD.Index))
			r.u("denomination", uint64(u.OD.Denomination))
			r.big("lock", u.OD.Lock)
		case "key":
			r.h("txHash", u.Spent.TxHash)
			r.u("index", uint64(u.Spent.Index))
		}
		return r.String()
	}
}

func c14ProjSpent(e *c14Env, o any) any { return &c14Utxo{Spent: o.(*c14Utxo).Spent} }

func c14SpentListPath(name string, write func(db ethdb.KeyValueWriter, h common.Hash, l []*types.SpentUtxoEntry) error, read func(db ethdb.Reader, h common.Hash) ([]*types.SpentUtxoEntry, error)) c14Path {
	return c14Path{Name: name, Ref: c14RefUtxo("spent"), Proj: c14ProjSpent,
		Enc: func(e *c14Env, o any) ([]byte, error) {
			u := o.(*c14Utxo)
			return c14DBEnc(e.Loc, func(db ethdb.Database) error {
				sib := &types.SpentUtxoEntry{OutPoint: types.OutPoint{TxHash: u.Spent.TxHash, Index: u.Spent.Index ^ 0x100}, UtxoEntry: &types.UtxoEntry{Denomination: 1, Address: make([]byte, 20), Lock: big.NewInt(0)}}
				return write(db, c14WoKey(), []*types.SpentUtxoEntry{sib, u.Spent})
			})
		},
		Dec: func(e *c14Env, b []byte) (any, error) {
			return c14DBDec(e.Loc, b, func(db ethdb.Database) (any, error) {
				l, err := read(db, c14WoKey())
				if err != nil {
					return nil, err
				}
				if len(l) != 2 {
					return nil, fmt.Errorf("read back %d spent entries, want 2", len(l))
				}
				return &c14Utxo{Spent: l[1]}, nil
			})
		}}
}

func init() {
	addr20 := c14Addr20(common.Location{0, 0}, true, 0x81)
	c14Register(&c14Subject{
		Name:   "utxo",
		Domain: "utxo",
		Fields: func() []c14Field {
			return []c14Field{
				{N: "loc", M: c14LocMenu()[:2]},
				{N: "txHash", M: c14HashMenu("utxo-tx")},
				{N: "index", M: []c14Val{{L: "2", V: uint64(2)}, {L: "0", V: uint64(0)}, {L: "255", V: uint64(255)}, {L: "256", V: uint64(256)}, {L: "258", V: uint64(258)}, {L: "65535", V: uint64(65535)}}},
				{N: "denomination", M: []c14Val{{L: "5", V: uint64(5)}, {L: "0", V: uint64(0)}, {L: "14", V: uint64(14)}, {L: "15", V: uint64(15)}, {L: "255", V: uint64(255)}}},
				{N: "address", M: []c14Val{{L: "20B", V: addr20}, {L: "20B-zero", V: make([]byte, 20)}, {L: "20B-quai-ledger", V: c14Addr20(common.Location{1, 2}, false, 0x82)},
					{L: "nil", V: []byte(nil)}, {L: "empty", V: []byte{}}, {L: "19B", V: addr20[:19]}, {L: "32B", V: append(append([]byte{}, addr20...), make([]byte, 12)...)}}},
				{N: "lock", M: c14BigMenu(5000, false)},
			}
		},
		Build: func(e *c14Env, v *c14Vals) (any, bool) {
			entry := types.NewUtxoEntry(types.NewTxOut(uint8(v.u64("denomination")), v.bytes("address"), v.big("lock")))
			h := v.hash("txHash")
			op := types.NewOutPoint(&h, uint16(v.u64("index")))
			return &c14Utxo{
				Spent: &types.SpentUtxoEntry{OutPoint: *op, UtxoEntry: entry},
				OD:    &types.OutpointAndDenomination{TxHash: h, Index: uint16(v.u64("index")), Denomination: uint8(v.u64("denomination")), Lock: v.big("lock")},
			}, false
		},
		Ref: c14RefUtxo("spent"),
		Hash: func(e *c14Env, o any) string {
			u := o.(*c14Utxo)
			if u.Spent == nil {
				return ""
			}
			h := types.UTXOHash(u.Spent.TxHash, u.Spent.Index, u.Spent.UtxoEntry)
			return fmt.Sprintf("%x", h[:])
		},
		Paths: []c14Path{
			{Name: "proto-spent", Proj: c14ProjSpent,
				Enc: func(e *c14Env, o any) ([]byte, error) {
					p, err := o.(*c14Utxo).Spent.ProtoEncode()
					if err != nil {
						return nil, err
					}
					return proto.Marshal(p)
				},
				Dec: func(e *c14Env, b []byte) (any, error) {
					p := new(types.ProtoSpentUTXO)
					if err := proto.Unmarshal(b, p); err != nil {
						return nil, err
					}
					s := new(types.SpentUtxoEntry)
					if err := s.ProtoDecode(p); err != nil {
						return nil, err
					}
					return &c14Utxo{Spent: s}, nil
				}},
			{Name: "rawdb-utxo", Proj: c14ProjSpent,
				Enc: func(e *c14Env, o any) ([]byte, error) {
					u := o.(*c14Utxo)
					return c14DBEnc(e.Loc, func(db ethdb.Database) error {
						// a sibling output whose index differs in the high byte only
						if err := rawdb.CreateUTXO(db, u.Spent.TxHash, u.Spent.Index^0x100, &types.UtxoEntry{Denomination: 1, Address: make([]byte, 20), Lock: big.NewInt(0)}); err != nil {
							return err
						}
						if err := rawdb.CreateUTXO(db, u.Spent.TxHash, u.Spent.Index, u.Spent.UtxoEntry); err != nil {
							return err
						}
						return rawdb.CreateUTXO(db, u.Spent.TxHash, u.Spent.Index^0x1, &types.UtxoEntry{Denomination: 2, Address: make([]byte, 20), Lock: big.NewInt(0)})
					})
				},
				Dec: func(e *c14Env, b []byte) (any, error) {
					return c14DBDec(e.Loc, b, func(db ethdb.Database) (any, error) {
						// the outpoint is recovered from the stored keys with the real key decoder
						it := db.NewIterator(rawdb.UtxoPrefix, nil)
						defer it.Release()
						var found []*c14Utxo
						for it.Next() {
							h, idx, err := rawdb.ReverseUtxoKey(it.Key())
							if err != nil {
								return nil, err
							}
							ent := rawdb.GetUTXO(db, h, idx)
							if ent == nil {
								return nil, errC14Nil
							}
							if ent.Denomination == 1 || ent.Denomination == 2 {
								if len(ent.Address) == 20 && ent.Lock != nil && ent.Lock.Sign() == 0 && new(big.Int).SetBytes(ent.Address).Sign() == 0 {
									continue // sibling
								}
							}
							found = append(found, &c14Utxo{Spent: &types.SpentUtxoEntry{OutPoint: types.OutPoint{TxHash: h, Index: idx}, UtxoEntry: ent}})
						}
						if len(found) != 1 {
							return nil, fmt.Errorf("found %d candidate outputs in the database, want 1 (an output was overwritten or lost)", len(found))
						}
						return found[0], nil
					})
				}},
			c14SpentListPath("rawdb-spentUTXOs", rawdb.WriteSpentUTXOs, rawdb.ReadSpentUTXOs),
			c14SpentListPath("rawdb-trimmedUTXOs", rawdb.WriteTrimmedUTXOs, rawdb.ReadTrimmedUTXOs),
			{Name: "rawdb-addressOutpoints", Ref: c14RefUtxo("od"), NoHash: true,
				Proj: func(e *c14Env, o any) any { return &c14Utxo{OD: o.(*c14Utxo).OD} },
				Enc: func(e *c14Env, o any) ([]byte, error) {
					u := o.(*c14Utxo)
					return c14DBEnc(e.Loc, func(db ethdb.Database) error {
						var a [20]byte
						a[0] = 7
						return rawdb.WriteOutpointsForAddressAndBlockHeight(db, a, []*types.OutpointAndDenomination{u.OD, u.OD})
					})
				},
				Dec: func(e *c14Env, b []byte) (any, error) {
					return c14DBDec(e.Loc, b, func(db ethdb.Database) (any, error) {
						var a [20]byte
						a[0] = 7
						l, err := rawdb.ReadOutpointsForAddressAtBlock(db, a)
						if err != nil {
							return nil, err
						}
						if len(l) != 2 {
							return nil, fmt.Errorf("read back %d outpoints, want 2", len(l))
						}
						return &c14Utxo{OD: l[1]}, nil
					})
				}},
		},
	})
}

// ---- AuxTemplate (p2p gossip) -----------------------------------------------------------------

func init() {
	c14Register(&c14Subject{
		Name: "auxtemplate", // no collision domain: Hash() masks the version-rolling bits of SHA donors by design
		Fields: func() []c14Field {
			u32 := func(typ uint64) []c14Val {
				return []c14Val{{L: "typ", V: typ}, {L: "0", V: uint64(0)}, {L: "65536", V: uint64(65536)}, {L: "max32", V: uint64(^uint32(0))}}
			}
			return []c14Field{
				{N: "loc", M: c14LocMenu()[:1]},
				{N: "powID", M: []c14Val{{L: "kawpow", V: uint64(types.Kawpow)}, {L: "sha_btc", V: uint64(types.SHA_BTC)}, {L: "sha_bch", V: uint64(types.SHA_BCH)}, {L: "scrypt", V: uint64(types.Scrypt)}, {L: "progpow", V: uint64(types.Progpow)}, {L: "max32", V: uint64(^uint32(0))}}},
				{N: "prevHash", M: c14HashMenu("at-prev")},
				{N: "auxPow2", M: []c14Val{{L: "empty", V: []byte{}}, {L: "nil", V: []byte(nil)}, {L: "32B", V: c14HashOf("at-ap2").Bytes()}}},
				{N: "version", M: u32(0x20000000)},
				{N: "bits", M: u32(0x1b00ffff)},
				{N: "signatureTime", M: u32(1700000000)},
				{N: "height", M: u32(2500000)},
				{N: "coinbaseOut", M: c14BytesMenu([]byte("coinbase-out-script"))},
				{N: "merkleBranch", M: []c14Val{{L: "2x32B", V: "2"}, {L: "nil", V: "nil"}, {L: "empty", V: "empty"}, {L: "1x32B", V: "1"}}},
				{N: "sigs", M: c14BytesMenu(append(c14HashOf("sig1").Bytes(), c14HashOf("sig2").Bytes()...))},
			}
		},
		Build: func(e *c14Env, v *c14Vals) (any, bool) {
			at := types.NewAuxTemplate()
			at.SetPowID(types.PowID(v.u64("powID")))
			at.SetPrevHash(v.hash("prevHash"))
			at.SetAuxPow2(v.bytes("auxPow2"))
			at.SetVersion(uint32(v.u64("version")))
			at.SetNBits(uint32(v.u64("bits")))
			at.SetSignatureTime(uint32(v.u64("signatureTime")))
			at.SetHeight(uint32(v.u64("height")))
			at.SetCoinbaseOut(v.bytes("coinbaseOut"))
			switch v.str("merkleBranch") {
			case "2":
				at.SetMerkleBranch([][]byte{c14HashOf("amb1").Bytes(), c14HashOf("amb2").Bytes()})
			case "1":
				at.SetMerkleBranch([][]byte{c14HashOf("amb1").Bytes()})
			case "empty":
				at.SetMerkleBranch([][]byte{})
			}
			at.SetSigs(v.bytes("sigs"))
			return at, false
		},
		Ref: func(e *c14Env, o any) string {
			at := o.(*types.AuxTemplate)
			r := c14NewRef()
			r.u("powID", uint64(at.PowID()))
			r.h("prevHash", at.PrevHash())
			r.byt("auxPow2", at.AuxPow2())
			r.u("version", uint64(at.Version()))
			r.u("bits", uint64(at.Bits()))
			r.u("signatureTime", uint64(at.SignatureTime()))
			r.u("height", uint64(at.Height()))
			r.byt("coinbaseOut", at.CoinbaseOut())
			r.u("merkleBranch.len", uint64(len(at.MerkleBranch())))
			for i, b := range at.MerkleBranch() {
				r.byt(fmt.Sprintf("merkleBranch[%d]", i), b)
			}
			r.byt("sigs", at.Sigs())
			return r.String()
		},
		// the template's identity is the signed message hash (signatures excluded by design)
		Hash: func(e *c14Env, o any) string {
			at := o.(*types.AuxTemplate)
			h := at.Hash()
			return fmt.Sprintf("%x/sigs:%x", h[:], at.Sigs())
		},
		Paths: []c14Path{
			{Name: "proto",
				Enc: func(e *c14Env, o any) ([]byte, error) { return proto.Marshal(o.(*types.AuxTemplate).ProtoEncode()) },
				Dec: func(e *c14Env, b []byte) (any, error) {
					p := new(types.ProtoAuxTemplate)
					if err := proto.Unmarshal(b, p); err != nil {
						return nil, err
					}
					at := new(types.AuxTemplate)
					if err := at.ProtoDecode(p); err != nil {
						return nil, err
					}
					return at, nil
				}},
			{Name: "gossip",
				Enc: func(e *c14Env, o any) ([]byte, error) { return pb.ConvertAndMarshal(o.(*types.AuxTemplate)) },
				Dec: func(e *c14Env, b []byte) (any, error) {
					var out interface{}
					if err := pb.UnmarshalAndConvert(b, e.Loc, &out, &types.AuxTemplate{}); err != nil {
						return nil, err
					}
					return out.(*types.AuxTemplate), nil
				}},
		},
	})
}
