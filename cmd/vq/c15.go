package main

// C15 — no input can crash the node or make it use resources it did not pay for.
//
// Part (a), decoders and pre-validation: for baseline encodings produced by the production
// encoders, EVERY truncation length, EVERY byte position set to {0x00,0xff,+1}, and every
// protobuf-structure-level combination of <=k deviations {field absent, empty, one byte short, one
// byte long, oversized, length prefix beyond the buffer, wrong wire type, duplicated, transaction
// type retagged / swapped Qi<->Quai<->External} is fed to each production decode + pre-validation
// entry point (see c15_entries.go). Oracle = the statement: the call returns (value|error) — a
// panic, a logger.Fatal, or a panic swallowed by a production recover() wrapper is a violation
// keyed by entry point + panic site; bytes allocated during the call <= c0 + c1*len(input).
//
// Part (b), interpreter: see c15_evm.go.

import (
	"encoding/hex"
	"fmt"
	"io"
	"os"
	"regexp"
	"runtime"
	"runtime/metrics"
	"sort"
	"strings"
	"sync"
	"syscall"
	"time"

	"github.com/sirupsen/logrus"

	"github.com/dominant-strategies/go-quai/log"
	"github.com/dominant-strategies/go-quai/verifshim/vx"
)

func init() {
	register(vx.CheckSpec{ID: "C15", Shards: 14, QuickBudget: 180 * time.Second, ThoroughBudg: 13 * time.Minute, Run: runC15, ReplayFn: replayC15})
}

const (
	c15AllocC0 = 4 << 20 // bytes
	c15AllocC1 = 1024    // bytes per input byte
)

// c15Case is the replay artefact of a decoder-side violation.
type c15Case struct {
	Kind     string   `json:"kind"` // "decode" | "rawdb" | "interp"
	Entry    string   `json:"entry"`
	Baseline string   `json:"baseline,omitempty"`
	Mutation string   `json:"mutation,omitempty"`
	InputHex string   `json:"input_hex,omitempty"`
	Key      string   `json:"db_key_hex,omitempty"`
	Interp   *c15Prog `json:"interp,omitempty"`
}

// ---------------------------------------------------------------------------------------------
// panic capture through the production recover() wrappers: they log "Go-Quai Panicked" with the
// stack; a logrus hook on every logger in play turns that into an observation.
// ---------------------------------------------------------------------------------------------

type c15Hook struct {
	mu   sync.Mutex
	last string // "error\nstack" of the last swallowed panic
}

func (h *c15Hook) Levels() []logrus.Level {
	return []logrus.Level{logrus.ErrorLevel, logrus.PanicLevel, logrus.FatalLevel}
}
func (h *c15Hook) Fire(e *logrus.Entry) error {
	if !strings.Contains(e.Message, "Panicked") && !strings.Contains(e.Message, "crashed") {
		return nil
	}
	h.mu.Lock()
	h.last = fmt.Sprintf("recovered panic: %v\n%v", e.Data["error"], e.Data["stacktrace"])
	h.mu.Unlock()
	return nil
}
func (h *c15Hook) take() string {
	h.mu.Lock()
	s := h.last
	h.last = ""
	h.mu.Unlock()
	return s
}

var c15LogHook = &c15Hook{}
var c15LogOnce sync.Once

func c15SetupLogging() {
	c15LogOnce.Do(func() {
		log.Global.SetOutput(io.Discard)
		log.Global.SetLevel(logrus.ErrorLevel)
		log.Global.ExitFunc = func(int) { panic("logger.Fatal called") }
		log.Global.AddHook(c15LogHook)
	})
}

// c15RecoveredSite finds the panic site inside a stack printed by a deferred recover handler
// (frames: debug.Stack, the handler, runtime.gopanic..., then the faulting frame).
func c15RecoveredSite(st string) string { return c15StackSite(st, true) }

// c15FrameSite renders a stack frame (function line + file line) as "<file>:<Func>": stable when
// unrelated edits shift line numbers.
func c15FrameSite(fn, file string) string {
	t := strings.TrimSpace(file)
	if i := strings.Index(t, " "); i > 0 {
		t = t[:i]
	}
	if i := strings.LastIndex(t, ":"); i > 0 {
		t = t[:i] // drop the line number
	}
	t = strings.TrimPrefix(t, "/repo/")
	f := strings.TrimSpace(fn)
	if i := strings.LastIndex(f, "("); i > 0 {
		f = f[:i]
	}
	if i := strings.LastIndex(f, "/"); i >= 0 {
		f = f[i+1:]
	}
	if i := strings.Index(f, "."); i >= 0 {
		f = f[i+1:]
	}
	// closures of inlined constructors are named after the whole inline chain
	// (main.x.y.(*T).M.func1): keep the part from the receiver on
	if i := strings.Index(f, "(*"); i > 0 {
		f = f[i:]
	}
	return t + ":" + f
}

// c15PanicClass abstracts the panic message.
func c15PanicClass(msg string) string {
	switch {
	case strings.Contains(msg, "division by zero"):
		return "div0"
	case strings.Contains(msg, "nil pointer dereference"):
		return "nilptr"
	case strings.Contains(msg, "index out of range"):
		return "index"
	case strings.Contains(msg, "slice bounds out of range"):
		return "slicebounds"
	case strings.Contains(msg, "cannot convert slice"):
		return "slice2array"
	case strings.Contains(msg, "interface conversion"):
		return "typeassert"
	case strings.Contains(msg, "logger.Fatal"):
		return "fatal"
	case strings.Contains(msg, "makeslice"):
		return "makeslice"
	}
	return "explicit"
}

// c15StackSite finds the innermost repository frame of a stack dump (after the panic frames when
// afterPanic is set: stacks printed by a deferred recover handler start with the handler itself) and
// returns "<file>:<Func>:<panic class>". A panic raised inside the standard library or a dependency
// is attributed to the repository function that called it.
func c15StackSite(st string, afterPanic bool) string {
	lines := strings.Split(st, "\n")
	head := st
	if len(head) > 300 {
		head = head[:300]
	}
	class := c15PanicClass(head)
	seen := !afterPanic
	for i, l := range lines {
		t := strings.TrimSpace(l)
		if strings.HasPrefix(t, "panic(") || strings.HasPrefix(t, "runtime.gopanic") || strings.HasPrefix(t, "runtime.sigpanic") || strings.HasPrefix(t, "runtime.goPanic") || strings.HasPrefix(t, "runtime.panic") {
			seen = true
			continue
		}
		if !seen || !strings.HasPrefix(t, "/repo/") || i == 0 {
			continue
		}
		if strings.Contains(t, "zz_verif") || strings.Contains(t, "/verifshim/") || strings.Contains(t, "/verifcmd/") {
			continue
		}
		return c15FrameSite(lines[i-1], t) + ":" + class
	}
	return "unknown:" + class
}

func c15GuardSite(perr string) string { return c15StackSite(perr, false) }

// c15Site shortens module-cache paths (…/pkg/mod/github.com/x/y@v/file.go:1 -> x/y@v/file.go:1).
func c15Site(s string) string {
	if i := strings.Index(s, "/pkg/mod/"); i >= 0 {
		s = s[i+len("/pkg/mod/"):]
	}
	return s
}

// ---------------------------------------------------------------------------------------------
// allocation measurement
// ---------------------------------------------------------------------------------------------

var c15AllocSample = []metrics.Sample{{Name: "/gc/heap/allocs:bytes"}}

func c15Allocs() uint64 {
	metrics.Read(c15AllocSample)
	return c15AllocSample[0].Value.Uint64()
}

func c15PreciseAlloc(f func()) uint64 {
	var a, b runtime.MemStats
	runtime.GC()
	runtime.ReadMemStats(&a)
	f()
	runtime.ReadMemStats(&b)
	return b.TotalAlloc - a.TotalAlloc
}

// ---------------------------------------------------------------------------------------------
// entry points and the per-execution oracle
// ---------------------------------------------------------------------------------------------

// c15Entry is one production decode (+ pre-validation) entry point. Fn returns an outcome class.
type c15Entry struct {
	Name    string
	Kinds   []string // baseline kinds it consumes
	Wrapped string   // non-empty: the production call site sits under this recover() wrapper
	Fn      func(in []byte) string
}

type c15Obs struct {
	class string
	key   string // violation key, "" if the execution satisfied the oracle
	desc  string
}

var c15HexRun = regexp.MustCompile(`(0x)?[0-9a-fA-F]{6,}`)
var c15NumRun = regexp.MustCompile(`[0-9]+`)

// c15ErrClass maps an error to a coarse class (hashes, numbers and lengths are abstracted away so
// that the class set stays finite).
func c15ErrClass(err error) string {
	if err == nil {
		return "ok"
	}
	s := err.Error()
	if len(s) > 160 {
		s = s[:160]
	}
	s = c15HexRun.ReplaceAllString(s, "#")
	s = c15NumRun.ReplaceAllString(s, "#")
	if len(s) > 56 {
		s = s[:56]
	}
	return "err:" + s
}

var c15MaxAlloc uint64
var c15MaxAllocLen int
var c15MaxAllocEntry string

var c15DryRun = os.Getenv("C15_COUNT") != ""
var c15DryCounts = map[string]int{}

// c15Run executes one entry on one input under the oracle.
func c15Run(e *c15Entry, in []byte) c15Obs {
	if c15DryRun {
		c15DryCounts[e.Name]++
		return c15Obs{class: "dry"}
	}
	// exact-capacity copy: a truncated input must not keep the baseline's bytes reachable through
	// the slice capacity (data[:n] beyond len would silently succeed)
	exact := make([]byte, len(in))
	copy(exact, in)
	in = exact
	c15LogHook.take()
	var class string
	a0 := c15Allocs()
	perr := vx.Guard(func() { class = e.Fn(in) })
	a1 := c15Allocs()
	if perr != "" {
		kind := "panic"
		if strings.Contains(perr, "logger.Fatal called") {
			kind = "fatal"
		}
		site := c15GuardSite(perr)
		w := ""
		if e.Wrapped != "" {
			w = "\n(in production this call runs under: " + e.Wrapped + ")"
		}
		return c15Obs{class: kind, key: fmt.Sprintf("%s:%s@%s", kind, e.Name, site), desc: fmt.Sprintf("%s did not return: %s%s", e.Name, c15Trunc(perr, 1800), w)}
	}
	if rp := c15LogHook.take(); rp != "" {
		site := c15Site(c15RecoveredSite(rp))
		return c15Obs{class: "recovered-panic", key: fmt.Sprintf("recovered-panic:%s@%s", e.Name, site), desc: fmt.Sprintf("%s panicked; the panic was swallowed by the production recover() wrapper, the step did not return a value or an error: %s", e.Name, c15Trunc(rp, 1800))}
	}
	bound := uint64(c15AllocC0 + c15AllocC1*len(in))
	if d := a1 - a0; d > c15MaxAlloc {
		c15MaxAlloc, c15MaxAllocLen, c15MaxAllocEntry = d, len(in), e.Name
	}
	if d := a1 - a0; d > bound {
		// confirm with the precise (stop-the-world) counter, best of 3
		best := ^uint64(0)
		for i := 0; i < 3; i++ {
			if x := c15PreciseAlloc(func() { vx.Guard(func() { e.Fn(in) }) }); x < best {
				best = x
			}
		}
		if best > bound {
			return c15Obs{class: "alloc", key: fmt.Sprintf("alloc:%s", e.Name), desc: fmt.Sprintf("%s allocated %d bytes for a %d-byte input (bound %d + %d*len)", e.Name, best, len(in), c15AllocC0, c15AllocC1)}
		}
	}
	return c15Obs{class: class}
}

func c15SortedKeysInt(m map[string]int) []string {
	ks := make([]string, 0, len(m))
	for k := range m {
		ks = append(ks, k)
	}
	sort.Strings(ks)
	return ks
}

func c15Trunc(s string, n int) string {
	if len(s) > n {
		return s[:n] + "…"
	}
	return s
}

// ---------------------------------------------------------------------------------------------
// run
// ---------------------------------------------------------------------------------------------

type c15Ctx struct {
	c        *vx.Ctx
	idx      int64 // global work item counter (sharding)
	reported map[string]bool
	risky    *c15RiskyJob
}

func (x *c15Ctx) mine() bool {
	x.idx++
	return x.c.Mine(x.idx)
}

// report confirms and records a violation.
func (x *c15Ctx) report(part string, o c15Obs, cs c15Case, rerun func() c15Obs) {
	if x.reported[o.key] {
		return
	}
	x.reported[o.key] = true
	confirm := x.c.Confirm
	if strings.HasPrefix(o.key, "alloc:") {
		// an allocation figure is a measurement taken while the node's own goroutines run: one that
		// does not show again in the re-runs is noise (recorded as transient), not a harness fault
		confirm = x.c.ConfirmSampling
	}
	if confirm(o.key, func() string { return rerun().key }) {
		x.c.Violate(part, o.key, o.desc+"\n input: "+cs.Baseline+" / "+cs.Mutation, cs)
	}
}

func c15SetRlimit(bytes uint64) {
	var r syscall.Rlimit
	if syscall.Getrlimit(syscall.RLIMIT_AS, &r) == nil {
		if r.Max != ^uint64(0) && r.Max < bytes {
			bytes = r.Max
		}
		r.Cur = bytes
		syscall.Setrlimit(syscall.RLIMIT_AS, &r)
	}
}

func runC15(c *vx.Ctx) {
	c15SetupLogging()
	if os.Getenv("C15_INTERP_CHILD") != "" {
		c15InterpChild(c)
		return
	}
	// safety net: a decoder that tries to allocate many GB kills this worker (reported as a
	// harness error by the parent) instead of the machine.
	c15SetRlimit(12 << 30)
	c15Watchdog(c)
	c.Rule = "per baseline encoding: every truncation, every byte set to {0x00,0xff,+1}, every <=k protobuf-structure deviation (k=1 full menu, k=2 see bounds) x every applicable production entry point; interpreter: memory opcode x operand menu x gas menu, singly and in pairs; outcome class = entry point x (ok | error class | validator verdict)"
	c.Assume("the node behind the validator / handler / RPC entry points is a real zone-[0,0] core.Slice (memory DB, 2 blocks, seal = mix hash) built in-process; validator branches that need a post-KawPow local head are not reached")
	c.Assume("allocation bound: TotalAlloc delta <= 4 MiB + 1 KiB * len(input) per call")
	c.Assume("a panic swallowed by a production recover() wrapper still violates 'returns a value or an error' and is reported with a recovered-panic: key")
	x := &c15Ctx{c: c, reported: map[string]bool{}}
	env, err := c15NewEnv()
	if err != nil {
		c.HarnessError("cannot build harness node: " + err.Error())
		return
	}
	// budget split: decoders first (bytes, struct), then disk, then interpreter
	total := 150 * time.Second
	if c.Thorough() {
		total = 12 * time.Minute
	}
	start := time.Now()
	frac := func(f float64) time.Time { return start.Add(time.Duration(float64(total) * f)) }
	if c.Wants("interp") && !c15DryRun {
		x.risky = c15StartRisky(c, frac(1.0))
	}
	timed := func(name string, f func()) {
		if !c.Wants(name) {
			return
		}
		t := time.Now()
		c15MaxAlloc = 0
		f()
		if c.Shard == 0 {
			c.Part(name).Note("worker 0 spent %.1fs in this part", time.Since(t).Seconds())
			if c15MaxAlloc > 0 {
				c.Part(name).Note("largest per-call allocation estimate of worker 0 (runtime/metrics, includes deferred accounting of earlier small allocations; every estimate above the bound is re-measured precisely): ~%d KiB for a %d-byte input (%s); bound %d KiB + 1 KiB/byte", c15MaxAlloc>>10, c15MaxAllocLen, c15MaxAllocEntry, c15AllocC0>>10)
			}
		}
	}
	// every part owns a slice of the budget (a part that finishes early donates its remainder)
	timed("bytes", func() { c15PartBytes(x, env, frac(0.33)) })
	timed("struct", func() { c15PartStruct(x, env, frac(0.60)) })
	timed("text", func() { c15PartText(x, env, frac(0.66)) })
	timed("rawdb", func() { c15PartRawdb(x, env, frac(0.74)) })
	timed("interp", func() { c15PartInterp(x, frac(1.0)) })
	if c15DryRun {
		tot := 0
		for _, k := range c15SortedKeysInt(c15DryCounts) {
			fmt.Fprintf(os.Stderr, "%8d %s\n", c15DryCounts[k], k)
			tot += c15DryCounts[k]
		}
		fmt.Fprintf(os.Stderr, "%8d TOTAL\n", tot)
	}
}

// c15Watchdog: a worker that is still alive long after its budget dumps all goroutine stacks to
// stderr (shown by the parent as a harness error) and exits, instead of hanging the whole run.
func c15Watchdog(c *vx.Ctx) {
	limit := 4 * time.Minute
	if c.Thorough() {
		limit = 17 * time.Minute
	}
	go func() {
		time.Sleep(limit)
		buf := make([]byte, 1<<20)
		n := runtime.Stack(buf, true)
		os.Stderr.Write(buf[:n])
		fmt.Fprintf(os.Stderr, "\nC15 watchdog: worker %d still running after %v\n", c.Shard, limit)
		if len(buf[:n]) > 2500 {
			// the parent only shows the tail: repeat the head of the main goroutine
			os.Stderr.Write(buf[:2500])
		}
		os.Exit(3)
	}()
}

func replayC15(c *vx.Ctx, v vx.Violation) string {
	c15SetupLogging()
	c15SetRlimit(12 << 30)
	raw, _ := jsonMarshal(v.Replay)
	var cs c15Case
	if err := jsonUnmarshal(raw, &cs); err != nil {
		return "bad replay: " + err.Error()
	}
	switch cs.Kind {
	case "interp":
		return c15ReplayInterp(cs, v.Key)
	}
	env, err := c15NewEnv()
	if err != nil {
		return "harness: " + err.Error()
	}
	in, err := hex.DecodeString(cs.InputHex)
	if err != nil {
		return "bad replay hex: " + err.Error()
	}
	if cs.Kind == "rawdb" {
		o := c15RawdbRun(env, cs, in)
		o.key = c15StripTag(o.key)
		if o.key == v.Key {
			return o.desc
		}
		return ""
	}
	e := env.entry(cs.Entry)
	if e == nil {
		return "unknown entry point " + cs.Entry
	}
	o := c15Run(e, in)
	if o.key == v.Key {
		return o.desc
	}
	if o.key != "" {
		return "different failure now: " + o.key + "\n" + o.desc
	}
	return ""
}
