package main

// C19 part "map-order": the pool keeps its accounts in Go maps and walks them when it promotes,
// demotes, truncates and evicts; which account is met first is decided by the runtime's random start
// position. In the vqm binary (runtime overlay, see maporder.go) the explicit-state search of the
// "small" universe is repeated, a few levels deep, under each fixed map-iteration draw: the same
// invariants must hold at every quiescent state whatever the walk order.

import (
	"fmt"
	"os"
	"os/exec"
	"strings"
	"time"

	"github.com/dominant-strategies/go-quai/core"
	"github.com/dominant-strategies/go-quai/verifshim/vx"
)

func init() {
	register(vx.CheckSpec{ID: "c19map", Shards: 8, QuickBudget: 100 * time.Second, ThoroughBudg: 12 * time.Minute, Run: runC19Map, ReplayFn: replayC19})
}

func runC19Map(c *vx.Ctx) {
	if !mapIterAvail {
		c.Part("draw-0").Incomplete("this binary was built without the runtime overlay")
		return
	}
	if got, want := core.VerifC19PoolFieldCount(); got != want {
		c.HarnessError(fmt.Sprintf("core.TxPool has %d fields, the deep copy knows %d", got, want))
		return
	}
	depth := 4
	per := 7 * time.Second
	if c.Thorough() {
		depth, per = 5, 50*time.Second
	}
	t0 := time.Now()
	for i, v := range mapOrderDraws {
		setMapIter(true, v)
		w, err := core.VerifC19NewWorld(c19PoolConfig())
		if err != nil {
			setMapIter(false, 0)
			c.HarnessError("world: " + err.Error())
			return
		}
		c19Sections(c, w, fmt.Sprintf("draw-%d", i), "small", depth, t0.Add(time.Duration(i+1)*per))
		setMapIter(false, 0)
	}
}

// c19MapOrder (parent side, plain vq binary, worker 0): fold the child's per-draw parts into one.
func c19MapOrder(c *vx.Ctx) {
	if !c.Wants("map-order") || c.Shard != 0 {
		return
	}
	p := c.Part("map-order")
	bin := os.Getenv("VQ_BIN_vqm")
	if bin == "" {
		p.Incomplete("runtime-overlay build (vqm) not available: part skipped")
		return
	}
	parts, viols, tail, err := runChildCheck(bin, "c19map", c.Tier, "")
	if err != nil {
		c.HarnessError(fmt.Sprintf("map-order sub-process: %v\n%s", err, tail))
		return
	}
	draws := 0
	for name, cp := range parts {
		if !strings.HasPrefix(name, "draw-") {
			continue
		}
		draws++
		p.States += cp.States
		p.Transitions += cp.Transitions
		p.Traces += cp.Traces
		p.Evals += cp.Evals
		if cp.MaxDepth > p.MaxDepth {
			p.MaxDepth = cp.MaxDepth
		}
		for k, n := range cp.Outcomes {
			for j := int64(0); j < n; j++ {
				p.Outcome(k)
			}
		}
		if !cp.Exhaustive {
			p.Incomplete(name + ": " + strings.Join(cp.Notes, "; "))
		}
		if d, ok := cp.Bounds["depth"]; ok {
			p.Bound("depth", d)
		}
	}
	if draws == 0 {
		c.HarnessError("map-order sub-process reported no draw")
		return
	}
	p.Bound("draws", draws)
	p.Bound("draw_values", mapOrderDraws)
	p.Bound("universe", "small: 2 accounts x nonces {0,1} x prices {100,110}")
	for _, v := range viols {
		c.Violate("map-order", "map-order:"+v.Key, "under a fixed map-iteration draw ("+v.Part+"): "+v.Desc, map[string]any{"draw_part": v.Part, "key": v.Key, "c19": v.Replay})
	}
}

// c19MapReplay re-executes a map-order artefact in the vqm binary under its draw.
func c19MapReplay(v vx.Violation) string {
	bin := os.Getenv("VQ_BIN_vqm")
	if bin == "" {
		return "harness: runtime-overlay build (vqm) not available"
	}
	raw, _ := jsonMarshal(v.Replay)
	var w struct {
		DrawPart string `json:"draw_part"`
		Key      string `json:"key"`
		C19      any    `json:"c19"`
	}
	if err := jsonUnmarshal(raw, &w); err != nil {
		return "bad replay: " + err.Error()
	}
	f, err := os.CreateTemp("", "vq-c19map-replay-*.json")
	if err != nil {
		return "harness: " + err.Error()
	}
	defer os.Remove(f.Name())
	inner, _ := jsonMarshal(vx.Violation{Key: w.Key, Part: w.DrawPart, Replay: w.C19})
	f.Write(inner)
	f.Close()
	out, _ := exec.Command(bin, "c19map", "--replay", f.Name()).CombinedOutput()
	s := string(out)
	if i := strings.Index(s, "VIOLATION property=c19map"); i >= 0 {
		return s[i:]
	}
	if strings.Contains(s, "replay: no violation") {
		return ""
	}
	return "harness: " + s
}
