package main

// C06 — deterministic execution; header commitments equal stored state.
//
// Part "histories": every history of the family (common prefix + every word of block contents up
// to a length) is produced on a memorydb node. For every block of every history, BEFORE it is
// appended, the real StateProcessor.Process is executed on it three times on the warm node and
// once on a cold replica (a freshly started node on a copy of the three databases): all outputs
// must coincide. AFTER it is accepted the commitment oracle runs: MuHash recomputed from a full
// scan of the UTXO and lockup prefixes == header UTXO root == stored multiset, record count ==
// stored set size, and the state reopens at the header's EVM / ETX-set roots. The complete block
// sequence is then replayed on nodes whose zone database is leveldb and pebble: same verdicts,
// same canonical projection, same commitments.
//
// Part "trim-schedules" (see c06_sched.go) explores the goroutine interleavings of Finalize's
// concurrent trimming under the controlled scheduler.

import (
	"errors"
	"fmt"
	"os"
	"strings"
	"sync"
	"time"

	"github.com/dominant-strategies/go-quai/common"
	"github.com/dominant-strategies/go-quai/core"
	"github.com/dominant-strategies/go-quai/core/rawdb"
	"github.com/dominant-strategies/go-quai/core/types"
	"github.com/dominant-strategies/go-quai/ethdb"
	"github.com/dominant-strategies/go-quai/ethdb/leveldb"
	"github.com/dominant-strategies/go-quai/ethdb/pebble"
	"github.com/dominant-strategies/go-quai/verifshim/vx"
)

func init() {
	register(vx.CheckSpec{ID: "C06", Shards: 16, QuickBudget: 240 * time.Second, ThoroughBudg: 28 * time.Minute, Run: runC06, ReplayFn: replayC06})
}

type c06Case struct {
	Word []int `json:"word"` // indices into c10Ops, after the C10 prefix
}

// c06Cold starts a new node on copies of the three databases of n.
func c06Cold(s *scen) (*core.VNode, error) {
	var cfg core.VNodeConfig = s.n.Cfg
	for ctx := 0; ctx < 3; ctx++ {
		if s.n.DB[ctx] == nil {
			continue
		}
		cfg.ReuseDB[ctx] = core.VRestore(core.VSnapshot(s.n.DB[ctx]), s.n)
	}
	return core.VNewNode(cfg)
}

func c06OpenEngine(kind, dir string) (ethdb.Database, func(), error) {
	lg := core.VNewLogger()
	switch kind {
	case "leveldb":
		db, err := leveldb.New(dir, 16, 16, "", false, lg, common.Location{0, 0})
		if err != nil {
			return nil, nil, err
		}
		return rawdb.NewDatabase(db), func() { db.Close() }, nil
	case "pebble":
		db, err := pebble.New(dir, 16, 16, "", false, lg, common.Location{0, 0})
		if err != nil {
			return nil, nil, err
		}
		return rawdb.NewDatabase(db), func() { db.Close() }, nil
	}
	return nil, nil, fmt.Errorf("unknown engine %s", kind)
}

// c06RunHistory returns violations as (key, desc) pairs.
func c06RunHistory(c *vx.Ctx, p *vx.Part, prefix []*types.WorkObject, word []int) (viol [][2]string, harness string) {
	s, err := c10Replicate(prefix)
	if err != nil {
		return nil, err.Error()
	}
	defer s.close()
	var blocks []*types.WorkObject
	commitBroken := false
	for i, op := range word {
		ok, _ := c10ApplyOp(s, op)
		if !ok {
			p.Outcome("word-n/a")
			return nil, ""
		}
		blk, err := s.n.Build(s.opts(core.VBuildOpts{Order: 2, Fill: true}))
		var refused core.VForeignRefused
		if errors.As(err, &refused) {
			p.Outcome("word-n/a:foreign-body-refused-by-Process")
			return nil, ""
		}
		if err != nil {
			return nil, "build: " + err.Error()
		}
		// (a) determinism: warm x3, cold x1
		var fps []string
		for r := 0; r < 3; r++ {
			fp, err := s.n.VProcessFingerprint(blk)
			if err != nil {
				return nil, fmt.Sprintf("Process on own block failed: %v", err)
			}
			fps = append(fps, fp)
			p.Traces++
		}
		cold, err := c06Cold(s)
		if err != nil {
			return nil, "cold replica: " + err.Error()
		}
		cfp, cerr := cold.VProcessFingerprint(blk)
		cold.Close()
		p.Traces++
		if cerr != nil {
			viol = append(viol, [2]string{"determinism:cold-replica-rejects", fmt.Sprintf("block %d of %v: a freshly started node on the same database rejects what the warm node accepts: %v", i, c10Names(word), cerr)})
		} else {
			fps = append(fps, cfp)
		}
		for r := 1; r < len(fps); r++ {
			if fps[r] != fps[0] {
				what := "warm-repeat"
				if r == len(fps)-1 && cerr == nil {
					what = "cold-vs-warm"
				}
				viol = append(viol, [2]string{"determinism:" + what + ":" + c06FirstDiffField(fps[0], fps[r]), fmt.Sprintf("block %d of %v: Process outputs differ between runs on the same parent state:\n run0: %s\n run%d: %s", i, c10Names(word), fps[0], r, fps[r])})
				break
			}
		}
		p.Outcome("process:" + c06Shape(fps[0]))
		// append and (c) commitments
		if r := s.n.Append(blk); r.Err() != nil {
			return nil, fmt.Sprintf("own block rejected: %v", r.Err())
		}
		p.Transitions++
		if commitBroken {
			// descendants of a block whose multiset is already off inherit the discrepancy: the first
			// break is the finding, evaluating the oracle again would only restate it
			p.Outcome("commitment:descendant-of-broken")
			blocks = append(blocks, blk)
			continue
		}
		if err := s.n.VCheckCommitments(blk); err != nil {
			commitBroken = true
			field := strings.SplitN(err.Error(), ":", 2)[0]
			key := "commitment:" + field
			if st := s.n.VSpentAndTrimmed(blk); len(st) > 0 {
				key += ":output-spent-and-trimmed-in-same-block"
			}
			viol = append(viol, [2]string{key, fmt.Sprintf("block %d of %v (height %d): %v; outpoints recorded both as spent and as trimmed by this block: %v", i, c10Names(word), blk.NumberU64(2), err, s.n.VSpentAndTrimmed(blk))})
			p.Outcome("commitment:BROKEN:" + field)
		} else {
			p.Outcome("commitment:ok")
		}
		blocks = append(blocks, blk)
	}
	// (a') backends: replay the whole sequence on leveldb and pebble zone databases
	all := append(append([]*types.WorkObject{}, prefix...), blocks...)
	ref := s.n.VCanon()
	for _, eng := range []string{"leveldb", "pebble"} {
		dir, err := os.MkdirTemp("/dev/shm", "vq-c06-")
		if err != nil {
			return viol, "tempdir: " + err.Error()
		}
		db, closeDB, err := c06OpenEngine(eng, dir)
		if err != nil {
			os.RemoveAll(dir)
			return viol, "open " + eng + ": " + err.Error()
		}
		func() {
			defer os.RemoveAll(dir)
			defer closeDB()
			s2, err := newScen(3, true, func(cfg *core.VNodeConfig) {
				cfg.NewDB = func(ctx int) ethdb.Database {
					if ctx == 2 {
						return db
					}
					return rawdb.NewMemoryDatabase(core.VNewLogger())
				}
			})
			if err != nil {
				harness = "node on " + eng + ": " + err.Error()
				return
			}
			defer s2.close()
			for i, b := range all {
				p.Traces++
				if r := s2.n.Append(b); r.Err() != nil {
					viol = append(viol, [2]string{"backend:" + eng + ":rejects", fmt.Sprintf("block %d (height %d) accepted on memorydb is rejected on %s: %v", i, b.NumberU64(2), eng, r.Err())})
					return
				}
			}
			if d := c10CanonDiff(s2.n.VCanon(), ref); d != "" {
				viol = append(viol, [2]string{"backend:" + eng + ":" + strings.SplitN(d, ":", 2)[0], fmt.Sprintf("history %v: node on %s differs from node on memorydb:\n%s", c10Names(word), eng, d)})
			}
			p.Outcome("backend:" + eng + ":equal")
		}()
		if harness != "" {
			return viol, harness
		}
	}
	return viol, ""
}

func c06FirstDiffField(a, b string) string {
	fa, fb := strings.Fields(a), strings.Fields(b)
	for i := range fa {
		if i >= len(fb) || fa[i] != fb[i] {
			return strings.SplitN(fa[i], "=", 2)[0]
		}
	}
	return "len"
}

// c06Shape: outcome class of a processed block (which kinds of activity it contained).
func c06Shape(fp string) string {
	for _, f := range strings.Fields(fp) {
		if strings.HasPrefix(f, "receipts=") {
			n := strings.Count(f, ";")
			return fmt.Sprintf("%d-receipts", n)
		}
	}
	return "?"
}

func runC06(c *vx.Ctx) {
	core.VScaleParams(core.VR1)
	c.Rule = "all words of block contents (alphabet of C10) up to length L after a 14-block prefix with conversions, inbound ETXs, Qi outputs and a trimmable output; per block: Process x3 warm + x1 cold replica compared; commitment oracle after acceptance; whole history replayed on leveldb and pebble zone databases; trim-schedules: all interleavings of the trimming goroutines (spawns announced); map-order: the same block sequences and C07's mempool families followed under 12 fixed map-iteration draws and by a follower with a state snapshot tree; trim-race: free-running race-detector pass"
	c.Assume("scaled protocol constants: " + fmt.Sprint(core.VScaled))
	c.Assume("goroutine schedules are explored for the trimming goroutines (part trim-schedules), map-iteration start positions by part map-order; the repeated runs of part histories sample both besides")
	maxLen := 2
	if c.Thorough() {
		maxLen = 4
	}
	// the sub-process parts first (worker 0 only), with a checkpoint: code under test that is schedule
	// dependent can bring a worker process down for good ("fatal error: concurrent map writes") while
	// it walks the histories, and what the scheduler / race / map-order parts found must survive that
	// (they are separate processes: run side by side)
	var sub sync.WaitGroup
	for _, f := range []func(*vx.Ctx){c06Sched, c06Race, c06MapOrder} {
		f := f
		sub.Add(1)
		go func() {
			defer sub.Done()
			if perr := vx.Guard(func() { f(c) }); perr != "" {
				c.HarnessError("sub-process part panicked: " + perr)
			}
		}()
	}
	sub.Wait()
	c.Checkpoint()
	if c.Wants("histories") {
		p := c.Part("histories")
		p.Bound("word_length", maxLen)
		p.Bound("ops", c10Ops)
		p.Bound("backends", []string{"memorydb", "leveldb", "pebble"})
		ps, err := c10BuildPrefix()
		if err != nil {
			c.HarnessError("prefix: " + err.Error())
			return
		}
		prefix := ps.blocks
		// the prefix itself is a history too
		for _, b := range ps.blocks {
			_ = b
		}
		ps.close()
		words := append([][]int{{}}, c10Branches(maxLen)...)
		for i, w := range words {
			if !c.Mine(int64(i)) {
				continue
			}
			if c.Expired() {
				p.Incomplete("deadline")
				break
			}
			viol, harness := c06RunHistory(c, p, prefix, w)
			if harness != "" {
				c.HarnessError(fmt.Sprintf("word %v: %s", c10Names(w), harness))
				return
			}
			for _, v := range viol {
				v := v
				w := w
				if c.Confirm(v[1], func() string {
					vs, _ := c06RunHistory(c, c.Part("confirm-scratch"), prefix, w)
					for _, x := range vs {
						if x[0] == v[0] {
							return x[0]
						}
					}
					return ""
				}) {
					c.Violate("histories", v[0], v[1], c06Case{Word: w})
				}
			}
			if len(viol) == 0 {
				p.Sample(c10Names(w))
			}
		}
		if c.Shard == 0 {
			p.States = int64(len(words))
		}
	}
}

func replayC06(c *vx.Ctx, v vx.Violation) string {
	if v.Part == "trim-race" {
		return replayC06Race(c)
	}
	if v.Part == "map-order" {
		return replayViaVqm(v)
	}
	core.VScaleParams(core.VR1)
	raw, _ := jsonMarshal(v.Replay)
	var cs c06Case
	if err := jsonUnmarshal(raw, &cs); err != nil {
		return "bad replay: " + err.Error()
	}
	ps, err := c10BuildPrefix()
	if err != nil {
		return "harness: " + err.Error()
	}
	prefix := ps.blocks
	ps.close()
	viol, h := c06RunHistory(c, c.Part("replay"), prefix, cs.Word)
	if h != "" {
		return "harness: " + h
	}
	for _, x := range viol {
		if x[0] == v.Key {
			return x[1]
		}
	}
	return ""
}
