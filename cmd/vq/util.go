package main

import "encoding/json"

func jsonMarshal(v any) ([]byte, error)   { return json.Marshal(v) }
func jsonUnmarshal(b []byte, v any) error { return json.Unmarshal(b, v) }
