package main

// C11 — a crash at any point leaves a database the node can restart and continue from.
//
// The node under test runs on crashdb-wrapped databases (prime, region, zone share one global write
// log). After a common prefix it follows a history of foreign blocks: a zone block with Qi, Quai,
// contract-creation and conversion activity, a region-order block, a prime-order block, another
// zone block, and finally a depth-2 reorganisation onto a side branch. EVERY prefix of the write
// log (single puts/deletes and atomic batch commits, including trie-node and code writes) is
// materialised as a crash image. On each image a new node is started; oracles:
//   restart:   NewSlice on all three databases returns without error or panic;
//   head:      the reported zone head satisfies the C06(c) commitment oracle;
//   continue:  the remaining history (starting with the interrupted block) can be appended;
//   converge:  afterwards the canonical projection equals that of the node that never crashed.

import (
	"errors"
	"fmt"
	"os"
	"strings"
	"time"

	"github.com/dominant-strategies/go-quai/core"
	"github.com/dominant-strategies/go-quai/core/rawdb"
	"github.com/dominant-strategies/go-quai/core/types"
	"github.com/dominant-strategies/go-quai/ethdb"
	"github.com/dominant-strategies/go-quai/verifshim/crashdb"
	"github.com/dominant-strategies/go-quai/verifshim/vx"
)

func init() {
	register(vx.CheckSpec{ID: "C11", Shards: 16, QuickBudget: 110 * time.Second, ThoroughBudg: 25 * time.Minute, Run: runC11, ReplayFn: replayC11})
}

type c11Step struct {
	Kind string // "append" (insert + head) | "insert" | "sethead"
	Blk  *types.WorkObject
	Name string
}

type c11Plan struct {
	prefix []*types.WorkObject
	steps  []c11Step
}

// c11BuildPlan produces the blocks of the history on builder nodes.
func c11BuildPlan(variant int) (*c11Plan, error) {
	ps, err := c10BuildPrefix()
	if err != nil {
		return nil, err
	}
	pl := &c11Plan{prefix: append([]*types.WorkObject{}, ps.blocks...)}
	s := ps
	defer s.close()
	mine := func(name string, order int, ops ...int) (*types.WorkObject, error) {
		for _, op := range ops {
			if ok, _ := c10ApplyOp(s, op); !ok && variant < 2 {
				return nil, fmt.Errorf("%s: op %s not applicable", name, c10Ops[op])
			} // further variants: an operation that is not applicable in this state is left out
		}
		blk, err := s.mine(core.VBuildOpts{Order: order, Fill: true})
		if err != nil {
			return nil, fmt.Errorf("%s: %w", name, err)
		}
		return blk, nil
	}
	// block 1: Qi spend + Quai transfer (+ a contract creation and a conversion from the menu)
	menu := scenMenu()
	// variants 0..17: C (k1 transfer) and D (k1 create, nonce n+1); 18..35: K and L (contract with
	// storage deployed at an address paid earlier in the block); 36..53: E and H (two conversions)
	menuSets := [][]int{{2, 3}, {8, 9}, {4, 7}}
	for _, i := range menuSets[(variant/18)%len(menuSets)] {
		if tx := menu[i].Make(s); tx != nil {
			s.n.AddTxs(tx)
		}
	}
	b1, err := mine("b1", 2, 1, 5) // S6a + T
	if err != nil {
		return nil, err
	}
	pl.steps = append(pl.steps, c11Step{"append", b1, "b1:zone(qi-spend,transfers,create)"})
	if variant >= 1 {
		b2, err := mine("b2", 1, 3) // region-order block with S3
		if err != nil {
			return nil, err
		}
		pl.steps = append(pl.steps, c11Step{"append", b2, "b2:region(qi-spend)"})
		b3, err := mine("b3", 0)
		if err != nil {
			return nil, err
		}
		pl.steps = append(pl.steps, c11Step{"append", b3, "b3:prime"})
	}
	forkHeads := s.n.Heads
	// main branch A: two zone blocks
	aOps := c11AOps[(variant/2)%len(c11AOps)]
	a1, err := mine("a1", 2, aOps[0]...)
	if err != nil && (variant/2)%len(c11AOps) == 0 {
		a1, err = mine("a1", 2, 5)
	}
	if err != nil {
		return nil, err
	}
	a2, err := mine("a2", 2, aOps[1]...)
	if err != nil {
		return nil, err
	}
	pl.steps = append(pl.steps, c11Step{"append", a1, "a1:zone"}, c11Step{"append", a2, "a2:zone"})
	// side branch B from the fork point, built on a replica so that the builder's own head stays
	sb, err := c10Replicate(append(append([]*types.WorkObject{}, pl.prefix...), c11Blocks(pl.steps[:len(pl.steps)-2])...))
	if err != nil {
		return nil, err
	}
	defer sb.close()
	_ = forkHeads
	var bside []*types.WorkObject
	for i, ops := range c11BOps[(variant/2/len(c11AOps))%len(c11BOps)] {
		for _, op := range ops {
			c10ApplyOp(sb, op)
		}
		blk, err := sb.mine(core.VBuildOpts{Order: 2, Fill: true, Salt: int64(40 + i)})
		if err != nil {
			return nil, fmt.Errorf("side %d: %w", i, err)
		}
		bside = append(bside, blk)
		pl.steps = append(pl.steps, c11Step{"insert", blk, fmt.Sprintf("side%d:insert", i)})
	}
	pl.steps = append(pl.steps, c11Step{"sethead", bside[len(bside)-1], "reorg:sethead(side tip)"})
	return pl, nil
}

// history variants: variant = base + 2*(a + 3*b); base 1 adds a region-order and a prime-order block
// before the fork point, a selects the contents of the two main-branch blocks, b the side branch
// (its length is the reorganisation's roll-forward depth). Variants 0 and 1 are the original plans.
var c11AOps = [][2][]int{
	{{4}, {5}},    // G (spend a branch-created output) ; T
	{{3}, {4, 5}}, // S3 (two outputs) ; G + T
	{{}, {1}},     // empty ; S6a
}
var c11BOps = [][][]int{
	{{2}, {5}, {}}, // S6b, T, empty: longer side branch
	{{3, 5}, {4}},  // S3 + T, G: same length
	{{5}},          // T: shorter side branch (forced head switch to a lighter chain tip)
}

const c11Variants = 54 // 2 prefixes x 3 main-branch contents x 3 side branches x 3 mempool sets of the first block

func c11Blocks(steps []c11Step) []*types.WorkObject {
	var out []*types.WorkObject
	for _, s := range steps {
		out = append(out, s.Blk)
	}
	return out
}

// c11Do executes one step on a node, tolerating "already known" for blocks that the crashed run had
// completely inserted.
func c11Do(n *core.VNode, st c11Step) error {
	order := -1
	if st.Kind == "append" || st.Kind == "insert" {
		var o int
		var err error
		// a dom that misses the pending ETXs of a sub block answers "sub not synced to dom" and, after
		// its retry threshold, fetches them from the sub: the production caller simply retries
		for try := 0; try < 16; try++ {
			o, err = n.Insert(st.Blk)
			if err == nil || !errors.Is(err, core.ErrSubNotSyncedToDom) {
				break
			}
		}
		if err != nil && !errors.Is(err, core.ErrKnownBlock) {
			return fmt.Errorf("insert: %w", err)
		}
		order = o
	}
	if st.Kind == "append" || st.Kind == "sethead" {
		if order < 0 {
			_, o, err := n.Zone().CalcOrder(st.Blk)
			if err != nil {
				return err
			}
			order = o
			if st.Kind == "sethead" {
				order = 2
			}
		}
		if err := n.SetHead(st.Blk, order); err != nil {
			return fmt.Errorf("set head: %w", err)
		}
		// SetCurrentHeader logs and swallows a failing block while rolling forward
		if h := n.Zone().HeaderChain().CurrentHeader().Hash(); h != st.Blk.Hash() {
			return fmt.Errorf("set head returned nil but the zone head is %x, not %x", h[:6], st.Blk.Hash().Bytes()[:6])
		}
	}
	return nil
}

type c11Run struct {
	plan  *c11Plan
	rec   *crashdb.Recorder
	base  [3]core.VSnap
	final map[string]string
	cfg   core.VNodeConfig
	tagAt []int // log index -> step index in progress
	// heads of the run that never crashed whose commitments already disagree with the stored ledger
	// (head hash -> cause): such a head is not a crash effect
	uncrashedBad map[string]string
}

// c11Record runs the history once on crashdb-wrapped databases.
func c11Record(pl *c11Plan) (*c11Run, error) {
	rec := &crashdb.Recorder{}
	var inner [3]ethdb.Database
	s, err := newScen(3, true, func(cfg *core.VNodeConfig) {
		cfg.NewDB = func(ctx int) ethdb.Database {
			inner[ctx] = rawdb.NewMemoryDatabase(core.VNewLogger())
			return crashdb.Wrap(inner[ctx], ctx, rec)
		}
	})
	if err != nil {
		return nil, err
	}
	defer s.close()
	for i, b := range pl.prefix {
		if r := s.n.Append(b); r.Err() != nil {
			return nil, fmt.Errorf("prefix block %d: %v", i, r.Err())
		}
	}
	run := &c11Run{plan: pl, rec: rec, cfg: s.n.Cfg}
	run.cfg.NewDB = nil
	for ctx := 0; ctx < 3; ctx++ {
		run.base[ctx] = core.VSnapshot(inner[ctx])
	}
	run.uncrashedBad = map[string]string{}
	rec.Start()
	explained := false
	for i, st := range pl.steps {
		rec.SetTag(fmt.Sprint(i))
		if err := c11Do(s.n, st); err != nil {
			return nil, fmt.Errorf("uncrashed run, step %d (%s): %v", i, st.Name, err)
		}
		rec.Stop()
		head := s.n.Zone().HeaderChain().CurrentHeader()
		if err := s.n.VCheckCommitments(head); err != nil {
			// the only accepted explanation is the C06 finding: a block of this history spends an
			// output at the very height at which it is trimmed
			for _, b := range c11Blocks(pl.steps[:i+1]) {
				if len(s.n.VSpentAndTrimmed(b)) > 0 {
					explained = true
				}
			}
			cause := "unexplained"
			if explained {
				cause = "history-spends-output-at-its-trim-height"
			}
			run.uncrashedBad[string(head.Hash().Bytes())] = strings.SplitN(err.Error(), ":", 2)[0] + ":" + cause
		}
		rec.Start()
	}
	rec.Stop()
	run.final = s.n.VCanon()
	return run, nil
}

// c11CheckImage restarts on crash image k; returns (key, desc) or "".
func c11CheckImage(run *c11Run, k int) (string, string, string) {
	log := run.rec.Log
	step := len(run.plan.steps) // crash after the last write: nothing interrupted
	if k < len(log) {
		fmt.Sscan(log[k].Tag, &step)
	}
	where := fmt.Sprintf("crash before write %d/%d", k, len(log))
	if k < len(log) {
		e := log[k]
		kind := "put"
		if e.Batch {
			kind = fmt.Sprintf("batch(%d ops)", len(e.Ops))
		} else if e.Ops[0].Del {
			kind = "delete"
		}
		where += fmt.Sprintf(" [next: db%d %s %s] during step %d (%s)", e.DB, kind, core.VKeyName(string(e.Ops[0].K)), step, run.plan.steps[step].Name)
	}
	stepName := "after-last-step"
	nextClass := "end"
	if k < len(log) {
		stepName = strings.SplitN(run.plan.steps[step].Name, ":", 2)[0]
		e := log[k]
		pre := core.VKeyName(string(e.Ops[0].K))
		nextClass = fmt.Sprintf("db%d:%s", e.DB, strings.SplitN(pre, ":", 2)[0])
		if e.Batch {
			nextClass += "(batch)"
		}
	}
	_ = stepName
	cfg := run.cfg
	var n *core.VNode
	var err error
	if perr := vx.Guard(func() {
		for ctx := 0; ctx < 3; ctx++ {
			db := rawdb.NewMemoryDatabase(core.VNewLogger())
			for kk, v := range crashdb.Apply(run.base[ctx], log, k, ctx) {
				db.Put([]byte(kk), []byte(v))
			}
			cfg.ReuseDB[ctx] = db
		}
		n, err = core.VNewNode(cfg)
	}); perr != "" {
		return "restart:panic:" + vx.PanicSite(perr), where + ": restart panicked: " + perr, nextClass
	}
	if err != nil {
		return "restart:error", where + ": restart failed: " + err.Error(), nextClass
	}
	defer n.Close()
	head := n.Zone().HeaderChain().CurrentHeader()
	inheritedKey, inheritedDesc := "", ""
	if err := n.VCheckCommitments(head); err != nil {
		class := strings.SplitN(err.Error(), ":", 2)[0]
		bad, ok := run.uncrashedBad[string(head.Hash().Bytes())]
		if !ok || !strings.HasPrefix(bad, class+":") {
			return "head-inconsistent:" + class + ":before-" + nextClass, fmt.Sprintf("%s: after restart the reported zone head (height %d) does not describe the stored state: %v", where, head.NumberU64(2), err), nextClass
		}
		// the node that never crashed reports the same head with the same disagreement: not a crash
		// effect. Reported once under its own key; the remaining oracles still run on this image.
		inheritedKey = "head-inconsistent-without-crash:" + bad
		inheritedDesc = fmt.Sprintf("%s: the reported zone head (height %d) does not describe the stored state, and the node that never crashed has the same head with the same disagreement: %v", where, head.NumberU64(2), err)
	}
	// "a head whose state is fully present": every node of the account trie, of every storage trie and
	// every code blob of the head's state must be readable from what survived (the restarted node has
	// no dirty trie cache to hide a node that never reached the disk)
	var werr error
	var nodes int
	if perr := vx.Guard(func() { nodes, werr = n.VWalkState(head) }); perr != "" {
		return "head-state-walk:panic:" + vx.PanicSite(perr), where + ": walking the head's state panicked: " + perr, nextClass
	}
	if werr != nil {
		return "head-state-incomplete:before-" + nextClass, fmt.Sprintf("%s: after restart the state of the reported zone head (height %d) is not fully present: after %d nodes: %v", where, head.NumberU64(2), nodes, werr), nextClass
	}
	for i := step; i < len(run.plan.steps); i++ {
		var derr error
		if perr := vx.Guard(func() { derr = c11Do(n, run.plan.steps[i]) }); perr != "" {
			return "continue:panic:" + vx.PanicSite(perr), fmt.Sprintf("%s: panic while continuing with step %d: %s", where, i, perr), nextClass
		}
		if derr != nil {
			kind := "interrupted-step"
			if i > step {
				kind = "later-step"
			}
			return "continue:" + kind + ":before-" + nextClass, fmt.Sprintf("%s: after restart step %d (%s) cannot be completed: %v", where, i, run.plan.steps[i].Name, derr), nextClass
		}
	}
	if d := c10CanonDiff(n.VCanon(), run.final); d != "" {
		return "converge:" + strings.SplitN(d, ":", 2)[0] + ":before-" + nextClass, fmt.Sprintf("%s: after restart and completing the history the node differs from the one that never crashed:\n%s", where, c11Short(d)), nextClass
	}
	return inheritedKey, inheritedDesc, nextClass
}

func runC11(c *vx.Ctx) {
	core.VScaleParams(core.VR1)
	c.Rule = "every prefix of the global write log (puts, deletes, atomic batch commits on the prime, region and zone databases) recorded while a node follows a history of foreign blocks incl. region/prime-order blocks and a depth-2 reorganisation; outcome class = next interrupted write kind x verdict; after every restart the whole state of the reported head is walked (account trie, storage tries, code)"
	c.Assume("process crash: write order preserved, committed batches atomic (engine internals, torn writes inside a batch and power-loss reordering are not explored)")
	c.Assume("scaled protocol constants: " + fmt.Sprint(core.VScaled))
	p := c.Part("crash-prefixes")
	variants := []int{1}
	if c.Thorough() {
		variants = nil
		for v := 0; v < c11Variants; v++ {
			variants = append(variants, v)
		}
	}
	for _, v := range variants {
		pl, err := c11BuildPlan(v)
		if err != nil {
			c.HarnessError("plan: " + err.Error())
			return
		}
		run, err := c11Record(pl)
		if err != nil {
			c.HarnessError("record: " + err.Error())
			return
		}
		p.Bound(fmt.Sprintf("variant%d_log_entries", v), len(run.rec.Log))
		p.Bound(fmt.Sprintf("variant%d_steps", v), len(pl.steps))
		for k := 0; k <= len(run.rec.Log); k++ {
			if !c.Mine(int64(k)) {
				continue
			}
			if c.Expired() {
				p.Incomplete("deadline")
				return
			}
			p.Transitions++
			p.Traces++
			key, desc, cls := c11CheckImage(run, k)
			if key == "" {
				p.Outcome("before-" + cls + "=>recovered")
				if k%37 == 0 {
					p.Sample(map[string]any{"variant": v, "crash_before_write": k, "next": cls})
				}
				continue
			}
			p.Outcome("before-" + cls + "=>" + strings.SplitN(key, ":", 2)[0])
			kk := k
			if c.Confirm(desc, func() string { k2, _, _ := c11CheckImage(run, kk); return k2 }) {
				c.Violate("crash-prefixes", key, desc, map[string]int{"variant": v, "crash_before_write": k})
			}
		}
		if c.Shard == 0 {
			p.States += int64(len(run.rec.Log) + 1)
		}
	}
}

func replayC11(c *vx.Ctx, v vx.Violation) string {
	core.VScaleParams(core.VR1)
	raw, _ := jsonMarshal(v.Replay)
	var cs map[string]int
	if err := jsonUnmarshal(raw, &cs); err != nil {
		return "bad replay: " + err.Error()
	}
	pl, err := c11BuildPlan(cs["variant"])
	if err != nil {
		return "harness: " + err.Error()
	}
	run, err := c11Record(pl)
	if err != nil {
		return "harness: " + err.Error()
	}
	_, d, _ := c11CheckImage(run, cs["crash_before_write"])
	return d
}

func c11Short(d string) string {
	lines := strings.Split(d, "\n")
	for i := range lines {
		if len(lines[i]) > 260 {
			lines[i] = lines[i][:260] + "…"
		}
	}
	if len(lines) > 4 {
		lines = append(lines[:4], fmt.Sprintf("… (%d more fields differ)", len(lines)-4))
	}
	return strings.Join(lines, "\n")
}

func init() { register(vx.CheckSpec{ID: "c11dbg", Shards: 1, Run: runC11dbg}) }

func runC11dbg(c *vx.Ctx) {
	core.VScaleParams(core.VR1)
	p := c.Part("dbg")
	p.States = 1
	variant := 1
	fmt.Sscan(os.Getenv("C11_V"), &variant)
	pl, err := c11BuildPlan(variant)
	if err != nil {
		c.HarnessError(err.Error())
		return
	}
	run, err := c11Record(pl)
	if err != nil {
		c.HarnessError(err.Error())
		return
	}
	for i, e := range run.rec.Log {
		kind := "put"
		if e.Batch {
			kind = fmt.Sprintf("batch(%d)", len(e.Ops))
		} else if e.Ops[0].Del {
			kind = "del"
		}
		ks := ""
		for j, o := range e.Ops {
			if j < 6 {
				n := core.VKeyName(string(o.K))
				if len(n) > 24 {
					n = n[:24]
				}
				ks += n + " "
			}
		}
		fmt.Printf("LOG %3d step=%s db%d %-9s %s\n", i, e.Tag, e.DB, kind, ks)
	}
	var k int
	fmt.Sscan(os.Getenv("C11_K"), &k)
	os.Setenv("VQ_LOG", "1")
	key, desc, _ := c11CheckImage(run, k)
	fmt.Println("RESULT", key, desc)
}
