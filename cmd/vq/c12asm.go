package main

// C12: a tiny EVM assembler, the account book of the frame-level world, the fragment menu and the
// fixed helper contracts (wrappers per call kind, helpers that store / self-destruct / revert).

import (
	"encoding/binary"
	"fmt"
	"math/big"

	"github.com/dominant-strategies/go-quai/common"
)

type c12Asm struct {
	b   []byte
	fix map[int]string
	lab map[string]int
}

func newC12Asm() *c12Asm { return &c12Asm{fix: map[int]string{}, lab: map[string]int{}} }

func (a *c12Asm) op(bs ...byte) *c12Asm { a.b = append(a.b, bs...); return a }

// push emits the shortest PUSHn for v (PUSH1 0 for zero).
func (a *c12Asm) push(v uint64) *c12Asm {
	var buf [8]byte
	binary.BigEndian.PutUint64(buf[:], v)
	i := 0
	for i < 7 && buf[i] == 0 {
		i++
	}
	a.b = append(a.b, byte(0x60+7-i))
	a.b = append(a.b, buf[i:]...)
	return a
}

func (a *c12Asm) pushN(b []byte) *c12Asm {
	if len(b) == 0 || len(b) > 32 {
		panic("c12asm: bad push size")
	}
	a.b = append(a.b, byte(0x5f+len(b)))
	a.b = append(a.b, b...)
	return a
}

func (a *c12Asm) pushAddr(ad common.Address) *c12Asm { return a.pushN(ad.Bytes()) }

func (a *c12Asm) label(n string) *c12Asm {
	a.lab[n] = len(a.b)
	return a.op(0x5b)
}

func (a *c12Asm) ref(n string) *c12Asm { // PUSH2 <label>
	a.b = append(a.b, 0x61)
	a.fix[len(a.b)] = n
	a.b = append(a.b, 0, 0)
	return a
}
func (a *c12Asm) jumpi(n string) *c12Asm { return a.ref(n).op(0x57) }
func (a *c12Asm) jump(n string) *c12Asm  { return a.ref(n).op(0x56) }

// mstoreBytes writes data to memory starting at off (32-byte words, right padded).
func (a *c12Asm) mstoreBytes(off int, data []byte) *c12Asm {
	for i := 0; i < len(data); i += 32 {
		var w [32]byte
		copy(w[:], data[i:])
		a.pushN(w[:]).push(uint64(off + i)).op(0x52)
	}
	return a
}

func (a *c12Asm) bytes() []byte {
	out := append([]byte{}, a.b...)
	for pos, n := range a.fix {
		t, ok := a.lab[n]
		if !ok {
			panic("c12asm: undefined label " + n)
		}
		out[pos], out[pos+1] = byte(t>>8), byte(t)
	}
	return out
}

func (a *c12Asm) append(code []byte) *c12Asm {
	if len(a.fix) != 0 || len(a.lab) != 0 {
		// appended code must be position independent (fragments are)
	}
	a.b = append(a.b, code...)
	return a
}

// opcodes used
const (
	c12STOP, c12SUB, c12EQ, c12ISZERO, c12SHR               = 0x00, 0x03, 0x14, 0x15, 0x1c
	c12CALLDATALOAD, c12CALLDATASIZE, c12CALLDATACOPY       = 0x35, 0x36, 0x37
	c12POP, c12MSTORE, c12MSTORE8, c12SSTORE, c12GAS        = 0x50, 0x52, 0x53, 0x55, 0x5a
	c12TSTORE, c12DUP1, c12DUP2, c12LOG0                    = 0x5d, 0x80, 0x81, 0xa0
	c12CREATE, c12CALL, c12CALLCODE, c12RETURN, c12DELEGATE = 0xf0, 0xf1, 0xf2, 0xf3, 0xf4
	c12CREATE2, c12ETX, c12STATIC, c12REVERT, c12INVALID    = 0xf5, 0xf6, 0xfa, 0xfd, 0xfe
	c12SELFDESTRUCT, c12CONVERT                             = 0xff, 0xf8
)

// ---- account book ----
type c12Book struct {
	S, E, N, T, J, K, V               common.Address
	Wcall, Wcallcode, Wdelegate       common.Address
	Wstatic, Wcreate, Wcreate2, Multi common.Address
	M, Q, X, LK                       common.Address
}

func c12A(hex string) common.Address { return common.HexToAddress(hex, c12Loc) }

func c12NewBook(lk common.Address) *c12Book {
	return &c12Book{
		S: c12A("0x00020000000000000000000000000000000000a1"), E: c12A("0x00020000000000000000000000000000000000e1"),
		N: c12A("0x00020000000000000000000000000000000000f1"), T: c12A("0x00020000000000000000000000000000000000c1"),
		J: c12A("0x00020000000000000000000000000000000000c2"), K: c12A("0x00020000000000000000000000000000000000c3"),
		V:     c12A("0x00020000000000000000000000000000000000c4"),
		Wcall: c12A("0x00020000000000000000000000000000000000d1"), Wcallcode: c12A("0x00020000000000000000000000000000000000d2"),
		Wdelegate: c12A("0x00020000000000000000000000000000000000d3"), Wstatic: c12A("0x00020000000000000000000000000000000000d4"),
		Wcreate: c12A("0x00020000000000000000000000000000000000d5"), Wcreate2: c12A("0x00020000000000000000000000000000000000d6"),
		Multi: c12A("0x00020000000000000000000000000000000000d7"),
		M:     c12A("0x00020000000000000000000000000000000000b1"), // miner whose rewards are locked
		Q:     c12A("0x00800000000000000000000000000000000000b2"), // Qi-ledger address of this zone
		X:     c12A("0x01020000000000000000000000000000000000b3"), // Quai address of zone 0-1 (ETX destination)
		LK:    lk,
	}
}

func c12IAof(a common.Address) common.InternalAddress {
	ia, err := a.InternalAndQuaiAddress()
	if err != nil {
		panic(fmt.Sprintf("c12: %x is not an internal quai address: %v", a.Bytes(), err))
	}
	return ia
}

// ---- fragments: position-independent code that leaves the stack as it found it ----
var c12FragNames = []string{
	"sstore-mod", "sstore-new", "sstore-del", "tstore", "log", "pay-eoa", "pay-new", "call-store", "call-suicide",
	"call-reverter", "create", "etx", "claim", "unwrap", "deposit", "call-etx", "convert", "delegate-suicide",
}

// c12FragClass names the input class of a fragment in violation keys (both self-destruct fragments
// exercise StateDB.Suicide: one destroys a callee, the other the executing account itself).
func c12FragClass(f string) string {
	switch f {
	case "call-suicide", "delegate-suicide":
		return "selfdestruct"
	}
	return f
}

var c12ChildInit = []byte{0x60, 0x00, 0x60, 0x00, 0x53, 0x60, 0x01, 0x60, 0x00, 0xf3} // deploys runtime code 0x00

// callTo emits CALL(gas=all, to, value, in[0:inSize]) ; POP
func (a *c12Asm) callTo(to common.Address, value uint64, inSize int) *c12Asm {
	return a.push(0).push(0).push(uint64(inSize)).push(0).push(value).pushAddr(to).op(c12GAS, c12CALL, c12POP)
}

func c12ClaimInput(bk *c12Book) []byte {
	in := append([]byte{}, bk.M.Bytes()...)
	in = append(in, bk.E.Bytes()...)
	in = append(in, 1)          // lockup byte
	in = append(in, 0, 0, 0, 1) // epoch 1
	var g [8]byte
	binary.BigEndian.PutUint64(g[:], 21000)
	return append(in, g[:]...)
}

func c12UnwrapInput(bk *c12Book) []byte {
	in := append([]byte{}, bk.Q.Bytes()...)
	in = append(in, common.BigToHash(big.NewInt(40)).Bytes()...)
	var g [8]byte
	binary.BigEndian.PutUint64(g[:], 21000)
	return append(in, g[:]...)
}

func c12Frag(name string, bk *c12Book) []byte {
	a := newC12Asm()
	switch name {
	case "sstore-mod":
		a.push(2).push(1).op(c12SSTORE)
	case "sstore-new":
		a.push(1).push(2).op(c12SSTORE)
	case "sstore-del":
		a.push(0).push(1).op(c12SSTORE)
	case "tstore":
		a.push(1).push(1).op(c12TSTORE)
	case "log":
		a.push(0).push(0).op(c12LOG0)
	case "pay-eoa":
		a.callTo(bk.E, 1, 0)
	case "pay-new":
		a.callTo(bk.N, 1, 0)
	case "call-store":
		a.callTo(bk.J, 0, 0)
	case "call-suicide":
		a.callTo(bk.K, 0, 0)
	case "call-reverter":
		a.callTo(bk.V, 0, 0)
	case "create":
		a.mstoreBytes(0, c12ChildInit).push(uint64(len(c12ChildInit))).push(0).push(0).op(c12CREATE, c12POP)
	case "etx":
		// alSize alOff inSize inOff feeCap tipCap gasLimit value addr gas ETX
		a.push(0).push(0).push(0).push(0).push(1).push(0).push(21000).push(1).pushAddr(bk.X).push(0).op(c12ETX, c12POP)
	case "claim":
		in := c12ClaimInput(bk)
		a.mstoreBytes(0, in).callTo(bk.LK, 0, len(in))
	case "unwrap":
		in := c12UnwrapInput(bk)
		a.mstoreBytes(0, in).callTo(bk.LK, 0, len(in))
	case "deposit":
		in := bk.E.Bytes()
		a.mstoreBytes(0, in).callTo(bk.LK, 0, len(in))
	case "call-etx": // value transfer to another zone through CALL: EVM.CreateETX
		a.callTo(bk.X, 1, 0)
	case "convert": // etxGasLimit value addr gas CONVERT
		a.push(21000).push(10_000_000_000_000_000_000).pushAddr(bk.Q).push(0).op(c12CONVERT, c12POP)
	case "delegate-suicide": // SELFDESTRUCT of the executing account itself (K's code in our context)
		a.push(0).push(0).push(0).push(0).pushAddr(bk.K).op(c12GAS, c12DELEGATE, c12POP)
	default:
		panic("c12: unknown fragment " + name)
	}
	return a.bytes()
}

// terminators
func c12Term(name string) []byte {
	switch name {
	case "stop":
		return []byte{c12STOP}
	case "revert":
		return []byte{0x60, 0, 0x60, 0, c12REVERT}
	case "invalid":
		return []byte{c12INVALID}
	case "return1": // creation: deploy 1 byte of runtime code (0x00)
		return []byte{0x60, 0x00, 0x60, 0x00, c12MSTORE8, 0x60, 0x01, 0x60, 0x00, c12RETURN}
	case "return100": // creation: deploy 100 bytes (20000 gas of code deposit)
		return []byte{0x60, 100, 0x60, 0x00, c12RETURN}
	case "ret-ef": // creation: runtime code starting with 0xEF
		return []byte{0x60, 0xef, 0x60, 0x00, c12MSTORE8, 0x60, 0x01, 0x60, 0x00, c12RETURN}
	case "ret-big": // creation: 32769 bytes > NewMaxCodeSize
		return []byte{0x61, 0x80, 0x01, 0x60, 0x00, c12RETURN}
	}
	panic("c12: unknown terminator " + name)
}

func c12Program(frags []string, term string, bk *c12Book) []byte {
	var code []byte
	for _, f := range frags {
		code = append(code, c12Frag(f, bk)...)
	}
	return append(code, c12Term(term)...)
}

// dispatcher: first calldata byte selects body 0 / 1 / 2
func c12Dispatch(bodies [3][]byte) []byte {
	// bodies are position independent, so they can be spliced after label resolution
	a := newC12Asm()
	a.push(0).op(c12CALLDATALOAD).push(248).op(c12SHR)
	a.op(c12DUP1).push(1).op(c12EQ).jumpi("L1")
	a.op(c12DUP1).push(2).op(c12EQ).jumpi("L2")
	a.op(c12POP).append(bodies[0])
	a.label("L1").op(c12POP).append(bodies[1])
	a.label("L2").op(c12POP).append(bodies[2])
	return a.bytes()
}

// ---- fixed contracts ----
func c12WrapperCode(opc byte, target common.Address) []byte {
	a := newC12Asm()
	a.push(0).push(0).push(0).push(0)
	if opc == c12CALL || opc == c12CALLCODE {
		a.push(0)
	}
	a.pushAddr(target).push(0).op(c12CALLDATALOAD).op(opc)
	a.push(0).op(c12MSTORE)
	a.push(32).op(c12CALLDATALOAD).jumpi("rev")
	a.push(32).push(0).op(c12RETURN)
	a.label("rev").push(0).push(0).op(c12REVERT)
	return a.bytes()
}

func c12WcreateCode() []byte {
	a := newC12Asm()
	a.op(c12CALLDATASIZE).push(0).push(0).op(c12CALLDATACOPY)
	a.op(c12CALLDATASIZE).push(0).push(3).op(c12CREATE)
	a.push(0).op(c12MSTORE).push(32).push(0).op(c12RETURN)
	return a.bytes()
}

func c12Wcreate2Code() []byte {
	a := newC12Asm()
	a.push(64).op(c12CALLDATASIZE, c12SUB)                 // size
	a.op(c12DUP1).push(64).push(0).op(c12CALLDATACOPY)     // mem[0:size] = init
	a.push(0).op(c12CALLDATALOAD, c12DUP2).push(0).push(0) // size salt size 0 0
	a.op(c12CREATE2).push(0x1000).op(c12MSTORE)            // size
	a.push(32).op(c12CALLDATALOAD).push(2).op(c12EQ, c12ISZERO).jumpi("end")
	a.push(0).op(c12CALLDATALOAD, c12DUP2).push(0).push(0).op(c12CREATE2, c12POP)
	a.label("end").op(c12POP).push(32).push(0x1000).op(c12RETURN)
	return a.bytes()
}

func c12MultiCode(target common.Address) []byte {
	a := newC12Asm()
	call := func(sel uint64, gasFromCalldata bool) {
		a.push(sel).push(0).op(c12MSTORE8)
		a.push(0).push(0).push(1).push(0).push(0).pushAddr(target)
		if gasFromCalldata {
			a.push(0).op(c12CALLDATALOAD)
			a.op(c12CALL).push(0x40).op(c12MSTORE) // remember the middle call's success flag
		} else {
			a.op(c12GAS)
			a.op(c12CALL, c12POP)
		}
	}
	call(0, false)
	a.push(32).op(c12CALLDATALOAD, c12ISZERO).jumpi("skip")
	call(1, true)
	a.label("skip")
	call(2, false)
	a.push(32).push(0x40).op(c12RETURN)
	return a.bytes()
}

func c12HelperCodes(bk *c12Book) map[common.Address][]byte {
	j := newC12Asm().push(7).push(1).op(c12SSTORE).push(0).push(0).op(c12LOG0, c12STOP).bytes()
	k := newC12Asm().pushAddr(bk.E).op(c12SELFDESTRUCT).bytes()
	v := newC12Asm().push(9).push(2).op(c12SSTORE).push(0).push(0).op(c12REVERT).bytes()
	return map[common.Address][]byte{
		bk.J: j, bk.K: k, bk.V: v,
		bk.Wcall:     c12WrapperCode(c12CALL, bk.T),
		bk.Wcallcode: c12WrapperCode(c12CALLCODE, bk.T),
		bk.Wdelegate: c12WrapperCode(c12DELEGATE, bk.T),
		bk.Wstatic:   c12WrapperCode(c12STATIC, bk.T),
		bk.Wcreate:   c12WcreateCode(),
		bk.Wcreate2:  c12Wcreate2Code(),
		bk.Multi:     c12MultiCode(bk.T),
	}
}

// depth program: one effect, then call self with all gas; a failed inner call makes this frame revert
func c12DepthCode(self common.Address) []byte {
	a := newC12Asm()
	a.push(1).push(2).op(c12SSTORE).push(0).push(0).op(c12LOG0)
	a.push(0).push(0).push(0).push(0).push(0).pushAddr(self).op(c12GAS, c12CALL)
	a.jumpi("ok")
	a.push(0).push(0).op(c12REVERT)
	a.label("ok").op(c12STOP)
	return a.bytes()
}
