package main

// C09 part "forks": the header rules derive difficulty from the times of the parent and the
// GRANDPARENT, so they must be evaluated along the header's own ancestry also when that ancestry is
// not the node's canonical chain. Branches are all words over block-time increments up to a length,
// grown from a common prefix, each built on a node of its own (for which it is the only chain). For
// every ordered pair (A,B) of branches that diverge at their first block a node that follows A is
// offered the blocks of B: every one of them must pass (Slice.Append runs the full header
// verification on the side branch); the node then switches to B's tip, assembles the next block
// itself, and the node that only ever saw B must accept that block.
// The difficulty adjustment is made responsive for the whole of C09 (period and damping factor are
// package variables; with the mainnet values the difficulty of a 1000-difficulty test chain never
// moves and "equals the value derived from the parent" would be checked on a constant).

import (
	"fmt"
	"math/big"
	"strings"

	"github.com/dominant-strategies/go-quai/core"
	"github.com/dominant-strategies/go-quai/core/types"
	"github.com/dominant-strategies/go-quai/params"
	"github.com/dominant-strategies/go-quai/verifshim/vx"
)

func c09ScaleDifficulty() {
	params.DifficultyAdjustmentPeriod = big.NewInt(2)
	params.DifficultyAdjustmentFactor = 2
	core.VScaled["DifficultyAdjustmentPeriod"] = 2
	core.VScaled["DifficultyAdjustmentFactor"] = 2
}

var c09ForkDeltas = []uint64{1, 4, 30}

const c09ForkPrefix = "zzz"

type c09Branch struct {
	deltas []int // indices into c09ForkDeltas
	blocks []*types.WorkObject
	diffs  []string
}

func c09DeltaNames(d []int) string {
	var s []string
	for _, i := range d {
		s = append(s, fmt.Sprintf("+%d", c09ForkDeltas[i]))
	}
	return "[" + strings.Join(s, " ") + "]"
}

func c09BuildTimed(s *scen, delta uint64, salt int64) (*types.WorkObject, error) {
	parent := s.n.Heads[2]
	return s.n.Build(core.VBuildOpts{Order: 2, Fill: true, Salt: salt, PreSeal: func(wo *types.WorkObject) {
		wo.WorkObjectHeader().SetTime(parent.Time() + delta)
	}})
}

// c09BuildBranch: (branch, violation key, desc, harness error)
func c09BuildBranch(prefix []*types.WorkObject, deltas []int) (*c09Branch, string, string, string) {
	s, err := c10Replicate(prefix)
	if err != nil {
		return nil, "", "", err.Error()
	}
	defer s.close()
	br := &c09Branch{deltas: deltas}
	for i, d := range deltas {
		blk, err := c09BuildTimed(s, c09ForkDeltas[d], int64(100+i))
		if err != nil {
			return nil, "", "", "build: " + err.Error()
		}
		if r := s.n.Append(blk); r.Err() != nil {
			return nil, "forks:own-header-rejected:" + c07ErrClass(r.Err()), fmt.Sprintf("branch %s after prefix %q: the node rejects block %d it assembled itself (time = parent + %d): %v", c09DeltaNames(deltas), c09ForkPrefix, i, c09ForkDeltas[d], r.Err()), ""
		}
		br.blocks = append(br.blocks, blk)
		br.diffs = append(br.diffs, blk.Difficulty().String())
	}
	return br, "", "", ""
}

func c09RunForkPair(prefix []*types.WorkObject, a, b *c09Branch) (key, desc, harness string) {
	s, err := c10Replicate(append(append([]*types.WorkObject{}, prefix...), a.blocks...))
	if err != nil {
		return "", "", err.Error()
	}
	defer s.close()
	for i, blk := range b.blocks {
		if _, err := s.n.Insert(blk); err != nil {
			return "forks:valid-side-branch-block-refused:" + c07ErrClass(err), fmt.Sprintf("node on branch %s (difficulties %v) is offered branch %s (difficulties %v), valid on the node that built it: block %d of it is refused: %v", c09DeltaNames(a.deltas), a.diffs, c09DeltaNames(b.deltas), b.diffs, i, err), ""
		}
	}
	tip := b.blocks[len(b.blocks)-1]
	if err := s.n.SetHead(tip, 2); err != nil {
		return "forks:switch-refused:" + c07ErrClass(err), fmt.Sprintf("node on branch %s cannot switch to the tip of branch %s: %v", c09DeltaNames(a.deltas), c09DeltaNames(b.deltas), err), ""
	}
	next, err := c09BuildTimed(s, 1, 900)
	if err != nil {
		return "", "", "build on former side branch: " + err.Error()
	}
	ref, err := c10Replicate(append(append([]*types.WorkObject{}, prefix...), b.blocks...))
	if err != nil {
		return "", "", err.Error()
	}
	defer ref.close()
	if r := ref.n.Append(next); r.Err() != nil {
		return "forks:own-header-on-former-side-branch-refused:" + c07ErrClass(r.Err()), fmt.Sprintf("node that followed branch %s and switched to branch %s assembles the next block (difficulty %v); the node that only saw branch %s refuses it: %v", c09DeltaNames(a.deltas), c09DeltaNames(b.deltas), next.Difficulty(), c09DeltaNames(b.deltas), r.Err()), ""
	}
	return "", "", ""
}

func c09ForkWords(maxLen int) [][]int {
	var out [][]int
	var rec func(cur []int)
	rec = func(cur []int) {
		if len(cur) > 0 {
			out = append(out, append([]int{}, cur...))
		}
		if len(cur) == maxLen {
			return
		}
		for i := range c09ForkDeltas {
			rec(append(cur, i))
		}
	}
	rec(nil)
	return out
}

type c09ForkCase struct {
	A []int `json:"branch_a_time_increments"`
	B []int `json:"branch_b_time_increments"`
}

func c09ForkPrefixBlocks() ([]*types.WorkObject, error) {
	s, err := newScen(3, false, nil)
	if err != nil {
		return nil, err
	}
	defer s.close()
	if err := s.runWord(c09ForkPrefix); err != nil {
		return nil, err
	}
	return s.blocks, nil
}

func c09ForkCaseRun(prefix []*types.WorkObject, cs c09ForkCase) (key, desc, harness string, distinct bool) {
	a, k, d, h := c09BuildBranch(prefix, cs.A)
	if k != "" || h != "" {
		return k, d, h, false
	}
	b, k, d, h := c09BuildBranch(prefix, cs.B)
	if k != "" || h != "" {
		return k, d, h, false
	}
	distinct = strings.Join(a.diffs, ",") != strings.Join(b.diffs, ",")
	key, desc, harness = c09RunForkPair(prefix, a, b)
	return
}

func c09Forks(c *vx.Ctx) {
	p := c.Part("forks")
	maxLen := 3
	if c.Thorough() {
		maxLen = 4
	}
	p.Bound("branch_length", maxLen)
	p.Bound("time_increments", c09ForkDeltas)
	p.Bound("prefix", c09ForkPrefix)
	prefix, err := c09ForkPrefixBlocks()
	if err != nil {
		c.HarnessError("forks prefix: " + err.Error())
		return
	}
	words := c09ForkWords(maxLen)
	var idx int64
	reported := map[string]bool{}
	for _, wa := range words {
		for _, wb := range words {
			if wa[0] == wb[0] {
				continue // the branches must diverge at their first block
			}
			idx++
			if !c.Mine(idx) {
				continue
			}
			if c.Expired() {
				p.Incomplete("deadline")
				return
			}
			cs := c09ForkCase{A: wa, B: wb}
			key, desc, harness, distinct := c09ForkCaseRun(prefix, cs)
			if harness != "" {
				c.HarnessError(fmt.Sprintf("forks %s/%s: %s", c09DeltaNames(wa), c09DeltaNames(wb), harness))
				return
			}
			p.Transitions += int64(len(wa) + len(wb) + 1)
			p.Traces++
			if key == "" {
				p.Outcome(fmt.Sprintf("accepted/len%d-vs-len%d/difficulty-sequences-differ=%v", len(wa), len(wb), distinct))
				continue
			}
			p.Outcome("VIOLATED:" + key)
			if reported[key] {
				continue
			}
			reported[key] = true
			if c.Confirm(desc, func() string { k, _, _, _ := c09ForkCaseRun(prefix, cs); return k }) {
				c.Violate("forks", key, desc, map[string]any{"forks": cs})
			}
		}
	}
	if c.Shard == 0 {
		p.States = idx
		p.MaxDepth = int64(maxLen)
	}
}
