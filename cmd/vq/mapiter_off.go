//go:build !verifmap

package main

const mapIterAvail = false

func setMapIter(on bool, v uint64) {}
