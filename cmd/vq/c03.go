package main

// C03 — only the key holder can authorise a transaction; no replay across chains.
//
// Bounded exhaustive exploration of the REAL signature paths:
//
//   quai-mutate     3 keys x 5 Quai templates x 3 signing chain ids x 3 locations are signed with the
//                   real types.SignTx, serialised to the protobuf wire form and then EVERY mutation
//                   from a per-field menu (performed on the protobuf message, as an attacker would)
//                   and EVERY single-bit flip of the wire bytes is decoded again and handed to
//                   types.Sender under every (chain id x location) verifier.
//   quai-sigvalues  the full product V x R x S of boundary menus through three ingest paths
//                   (protobuf decode, RLP decode, in-memory construction).
//   quai-cache      every sequence (depth 2 / 3) of Sender(signer_i) / Hash() calls on ONE object.
//   qi-auth         ProcessQiTx(checkSig=true) and the pool path ValidateQiTxInputs +
//                   ValidateQiTxOutputsAndSignature on a memory DB: every assignment of keys to
//                   (utxo owners, pubkey fields, ordered signing list) for 1- and 2-input spends x
//                   every ordered pair (presented tx, tx that was signed) of single-field variants.
//   qi-wire         menu mutations + every single-bit flip of the wire form of accepted Qi spends
//                   (pubkey encodings compressed / uncompressed / hybrid, Schnorr value menu).
//   hash-cache      two-step histories pool-accepts(A) ; block-processes(B) with the signature check
//                   skipped iff B.Hash() is in the pool's sender cache (the glue of
//                   state_processor.go Process is modelled in 3 lines, the verdicts are the real code).
//
// The oracle is the property statement: a verifier may attribute the ORIGINAL sender / accept the
// spend only if the decoded content (read back through the public getters, not through the signing
// encoder) and the signature are exactly what was signed, for the verifier's chain id, by the owners.

import (
	"crypto/ecdsa"
	"encoding/hex"
	"fmt"
	"io"
	"math/big"
	"sort"
	"strings"
	"time"

	"github.com/btcsuite/btcd/btcec/v2"
	"github.com/dominant-strategies/go-quai/common"
	"github.com/dominant-strategies/go-quai/crypto"
	"github.com/dominant-strategies/go-quai/verifshim/vx"
	"github.com/sirupsen/logrus"
)

func init() {
	register(vx.CheckSpec{ID: "C03", Shards: 16, QuickBudget: 85 * time.Second, ThoroughBudg: 14 * time.Minute, Run: runC03, ReplayFn: replayC03})
}

// ---- shared menus ----

// 0 is the "chain id not specified" value of the go-ethereum lineage: a transaction made for it must not be a wildcard
var c03ChainIDs = []int64{1, 9000, 1337, 0}
var c03Locs = []common.Location{{0, 0}, {0, 1}, {1, 0}}

var (
	c03N, _     = new(big.Int).SetString("fffffffffffffffffffffffffffffffebaaedce6af48a03bbfd25e8cd0364141", 16)
	c03P, _     = new(big.Int).SetString("fffffffffffffffffffffffffffffffffffffffffffffffffffffffefffffc2f", 16)
	c03HalfN    = new(big.Int).Rsh(c03N, 1)
	c03Two256m1 = new(big.Int).Sub(new(big.Int).Lsh(big.NewInt(1), 256), big.NewInt(1))
)

type c03Key struct {
	Idx  int
	EC   *ecdsa.PrivateKey
	BT   *btcec.PrivateKey
	Pub  []byte // 65-byte uncompressed
	PubC []byte // 33-byte compressed
	BTP  *btcec.PublicKey
	Addr [20]byte // keccak(pub[1:])[12:]
}

var c03KeysCache []*c03Key

// c03Keys derives three deterministic keys whose address lies in zone 0-0 and in the Qi ledger
// (second byte > 127) so that the same keys can own UTXOs in part 2.
func c03Keys() []*c03Key {
	if c03KeysCache != nil {
		return c03KeysCache
	}
	for i := 0; len(c03KeysCache) < 3; i++ {
		d := crypto.Keccak256([]byte(fmt.Sprintf("verif-c03-key-%d", i)))
		k, err := crypto.ToECDSA(d)
		if err != nil {
			continue
		}
		pub := crypto.FromECDSAPub(&k.PublicKey)
		var a [20]byte
		copy(a[:], crypto.Keccak256(pub[1:])[12:])
		if a[0] != 0x00 || a[1] <= 127 {
			continue
		}
		bt, _ := btcec.PrivKeyFromBytes(d)
		btp := bt.PubKey()
		c03KeysCache = append(c03KeysCache, &c03Key{Idx: len(c03KeysCache), EC: k, BT: bt, Pub: pub, PubC: btp.SerializeCompressed(), BTP: btp, Addr: a})
	}
	return c03KeysCache
}

func c03Logger() *logrus.Logger {
	l := logrus.New()
	l.SetOutput(io.Discard)
	l.ExitFunc = func(int) { panic("logger.Fatal called") }
	return l
}

func c03Hex(b []byte) string { return hex.EncodeToString(b) }

func c03UnHex(s string) []byte {
	b, _ := hex.DecodeString(s)
	return b
}

func c03LocName(l common.Location) string { return fmt.Sprintf("%d-%d", l[0], l[1]) }

// c03ErrClass maps an error to a short stable class (hashes and numbers removed).
func c03ErrClass(err error) string {
	if err == nil {
		return "ok"
	}
	s := err.Error()
	for _, kv := range [][2]string{
		{"invalid chain id", "chain-id"},
		{"invalid chain ID", "chain-id"},
		{"wrong chain ID", "chain-id"},
		{"invalid transaction v, r, s", "invalid-vrs"},
		{"invalid signature for", "bad-signature"},
		{"recovery failed", "recover-failed"},
		{"invalid signature recovery id", "recover-id"},
		{"missing required field", "missing-field"},
		{"missing outpoint", "missing-field"},
		{"missing tx", "missing-field"},
		{"is nil", "missing-field"},
		{"invalid transaction type", "tx-type"},
		{"not supported", "tx-type"},
		{"not a QiTx", "tx-type"},
		{"qi transaction type", "tx-type"},
		{"qi type", "tx-type"},
		{"proto:", "proto-syntax"},
		{"cannot parse", "proto-syntax"},
		{"non-existent UTXO", "no-such-utxo"},
		{"with invalid pubkey", "pubkey-not-owner"},
		{"owned by Quai address", "pubkey-quai-scope"},
		{"invalid public key", "pubkey-parse"},
		{"pubkey", "pubkey-parse"},
		{"public key", "pubkey-parse"},
		{"malformed signature", "sig-parse"},
		{"invalid signature:", "sig-parse"},
		{"Duplicate address", "dup-address"},
		{"higher than max allowed", "denomination"},
		{"max uint8", "denomination"},
		{"combine smaller denominations", "denomination"},
		{"less than the amount", "overspend"},
		{"insufficient fee", "fee"},
		{"non-zero lock", "lock"},
		{"not in the Qi ledger scope", "out-scope"},
		{"not in quai ledger scope", "data-scope"},
		{"not in Qi ledger scope", "data-scope"},
		{"not equal to either address length", "data-length"},
		{"at least one input", "no-inputs"},
		{"not eligible", "etx-ineligible"},
		{"rlp:", "rlp-syntax"},
		{"panic", "panic"},
	} {
		if strings.Contains(s, kv[0]) {
			return kv[1]
		}
	}
	if len(s) > 40 {
		s = s[:40]
	}
	return "other:" + s
}

func c03SortedJoin(xs []string) string {
	ys := append([]string{}, xs...)
	sort.Strings(ys)
	return strings.Join(ys, "+")
}

// c03Viol is one oracle failure found by a part before confirmation.
type c03Viol struct {
	Key    string
	Desc   string
	Replay c03Replay
}

// c03Replay is the JSON artefact: enough to re-execute one failing case from scratch.
type c03Replay struct {
	Kind string `json:"kind"` // quai-sender | quai-cache | qi | hash-cache
	// quai
	Wire      string   `json:"wire,omitempty"`      // presented transaction, protobuf wire bytes (hex)
	RLP       string   `json:"rlp,omitempty"`       // or: canonical typed-RLP bytes (hex)
	VRS       []string `json:"vrs,omitempty"`       // or: in-memory construction from BaseWire with these V,R,S (hex)
	BaseWire  string   `json:"base_wire,omitempty"` // the transaction that was really signed (wire, hex)
	Signer    int      `json:"key"`                 // index of the signing key
	SignChain int64    `json:"sign_chain,omitempty"`
	VerChain  int64    `json:"verify_chain,omitempty"`
	VerLoc    []byte   `json:"verify_loc,omitempty"`
	Ops       []string `json:"ops,omitempty"` // cache part: operation sequence
	Expect    string   `json:"expect,omitempty"`
	// qi
	Owners    []int  `json:"owners,omitempty"`
	NodeChain int64  `json:"node_chain,omitempty"`
	Path      string `json:"path,omitempty"`      // process | pool
	PoolWire  string `json:"pool_wire,omitempty"` // hash-cache: tx first accepted by the pool
	Note      string `json:"note,omitempty"`
}

func runC03(c *vx.Ctx) {
	c.Rule = "deviation-bounded enumeration: every signed baseline (keys x templates x chain ids x locations) x every single-field menu mutation and single-bit flip of its wire form x every verifier (chain id x location); full V x R x S boundary product over 3 ingest paths; all signer-call sequences on one object; all (owners, pubkeys, signing list) key assignments x all ordered (presented, signed) variant pairs through ProcessQiTx(checkSig) and the pool validators; outcome class = verdict/error class x changed-field set"
	c.Assume("hardness of ECDSA/Schnorr/Keccak is assumed: only the enumerated mutation menus are covered, a forged signature outside them is out of scope")
	c.Assume("'changed' is judged on the decoded content read back through the public getters (type, chain id, nonce, gas, price, to, value, data, access list, V/R/S as integers); re-encodings of the same content (leading zeros, unknown protobuf fields, unsigned work fields) are not changes")
	c.Assume("Qi verdicts come from the real core.ProcessQiTx / ValidateQiTxInputs / ValidateQiTxOutputsAndSignature with a mock ChainContext (fixed prime-terminus header) and a memory UTXO DB; only the 3-line 'skip signature check iff tx.Hash() is in the pool sender cache' glue of StateProcessor.Process is modelled")
	keys := c03Keys()
	if c.Wants("quai-mutate") {
		c03RunQuaiMutate(c, keys)
	}
	if c.Wants("quai-sigvalues") {
		c03RunQuaiSigValues(c, keys)
	}
	if c.Wants("quai-cache") {
		c03RunQuaiCache(c, keys)
	}
	if c.Wants("qi-auth") {
		c03RunQiAuth(c, keys)
	}
	if c.Wants("qi-wire") {
		c03RunQiWire(c, keys)
	}
	if c.Wants("hash-cache") {
		c03RunHashCache(c, keys)
	}
}

// c03Report confirms (5 identical re-runs through the replay function) and records a violation.
func c03Report(c *vx.Ctx, part string, v c03Viol, seen map[string]bool) {
	if seen[v.Key] {
		return
	}
	seen[v.Key] = true
	rp := v.Replay
	if c.Confirm(v.Desc, func() string { k, _ := c03Replay1(rp); return k }) {
		c.Violate(part, v.Key, v.Desc, rp)
	}
}

func replayC03(c *vx.Ctx, v vx.Violation) string {
	raw, _ := jsonMarshal(v.Replay)
	var rp c03Replay
	if err := jsonUnmarshal(raw, &rp); err != nil {
		return "bad replay: " + err.Error()
	}
	k, desc := c03Replay1(rp)
	if k == "" {
		return ""
	}
	return "key=" + k + "\n  " + desc
}

// c03Replay1 re-executes one artefact against the real code and returns (key, description) of the
// violation it shows, or ("","").
func c03Replay1(rp c03Replay) (string, string) {
	switch rp.Kind {
	case "quai-sender":
		return c03ReplayQuaiSender(rp)
	case "quai-cache":
		return c03ReplayQuaiCache(rp)
	case "qi":
		return c03ReplayQi(rp)
	case "hash-cache":
		return c03ReplayHashCache(rp)
	}
	return "", ""
}
