package main

// C09 — accepted headers extend their parent by the protocol's rules.
//
// The tree of all block-order words over {zone, region, prime} up to a depth is walked on a real
// three-level node. At every node of the tree (a freshly built child on its real parent), for every
// chain the child belongs to (zone always; region/prime for coincident blocks):
//   accept:    HeaderChain.VerifyHeader accepts the child as built by the node's own worker;
//   deviate:   every single-field deviation of the child (re-hashed and re-sealed as an attacker
//              would) is rejected by VerifyHeader of the chain that owns the field;
//   entropy:   TotalLogEntropy(child) > TotalLogEntropy(parent);
//   order:     CalcOrder(child) is identical on repeated calls, on a cold replica started from a
//              copy of the databases, and for the wire round-tripped object.
// Every word is walked twice: plain, and with a work share on every head (so that every zone block,
// parent and child alike, carries an uncle whose entropy counts); there TotalLogEntropy of parent and
// child must also be identical on repeated calls (before and after VerifyHeader used it) and on the
// cold replica.

import (
	"fmt"
	"math/big"
	"strings"
	"time"

	"github.com/dominant-strategies/go-quai/common"
	"github.com/dominant-strategies/go-quai/core"
	"github.com/dominant-strategies/go-quai/core/types"
	"github.com/dominant-strategies/go-quai/verifshim/vx"
)

func init() {
	register(vx.CheckSpec{ID: "C09", Shards: 16, QuickBudget: 110 * time.Second, ThoroughBudg: 25 * time.Minute, Run: runC09, ReplayFn: replayC09})
}

type c09Dev struct {
	Name   string
	PerCtx bool // field indexed by context: applied at the validating chain's own index
	Apply  func(wo *types.WorkObject, ctx int, parent *types.WorkObject) bool
}

func c09Bump(v *big.Int) *big.Int { return new(big.Int).Add(v, big.NewInt(1)) }

func c09Deviations() []c09Dev {
	h := func(name string, perCtx bool, f func(h *types.Header, ctx int, parent *types.WorkObject) bool) c09Dev {
		return c09Dev{name, perCtx, func(wo *types.WorkObject, ctx int, parent *types.WorkObject) bool {
			if !f(wo.Header(), ctx, parent) {
				return false
			}
			wo.WorkObjectHeader().SetHeaderHash(wo.Header().Hash())
			return true
		}}
	}
	w := func(name string, f func(wh *types.WorkObjectHeader, ctx int, parent *types.WorkObject) bool) c09Dev {
		return c09Dev{name, false, func(wo *types.WorkObject, ctx int, parent *types.WorkObject) bool {
			return f(wo.WorkObjectHeader(), ctx, parent)
		}}
	}
	return []c09Dev{
		h("number+1", true, func(h *types.Header, c int, p *types.WorkObject) bool {
			if c == 2 {
				return false // the zone number lives in the work-object header
			}
			h.SetNumber(c09Bump(h.Number(c)), c)
			return true
		}),
		w("wo-number+1", func(wh *types.WorkObjectHeader, c int, p *types.WorkObject) bool {
			wh.SetNumber(c09Bump(wh.Number()))
			return true
		}),
		w("time<parent", func(wh *types.WorkObjectHeader, c int, p *types.WorkObject) bool {
			if p.Time() == 0 {
				return false
			}
			wh.SetTime(p.Time() - 1)
			return true
		}),
		w("time-far-future", func(wh *types.WorkObjectHeader, c int, p *types.WorkObject) bool {
			wh.SetTime(uint64(time.Now().Unix()) + 100000)
			return true
		}),
		w("difficulty+1", func(wh *types.WorkObjectHeader, c int, p *types.WorkObject) bool {
			wh.SetDifficulty(c09Bump(wh.Difficulty()))
			return true
		}),
		w("difficulty-1", func(wh *types.WorkObjectHeader, c int, p *types.WorkObject) bool {
			wh.SetDifficulty(new(big.Int).Sub(wh.Difficulty(), big.NewInt(1)))
			return true
		}),
		w("primeTerminusNumber+1", func(wh *types.WorkObjectHeader, c int, p *types.WorkObject) bool {
			wh.SetPrimeTerminusNumber(c09Bump(wh.PrimeTerminusNumber()))
			return true
		}),
		w("lock=1", func(wh *types.WorkObjectHeader, c int, p *types.WorkObject) bool { wh.SetLock(1); return true }),
		w("data-empty", func(wh *types.WorkObjectHeader, c int, p *types.WorkObject) bool { wh.SetData(nil); return true }),
		w("data-lock-byte=9", func(wh *types.WorkObjectHeader, c int, p *types.WorkObject) bool { wh.SetData([]byte{9}); return true }),
		w("coinbase-other-zone", func(wh *types.WorkObjectHeader, c int, p *types.WorkObject) bool {
			wh.SetPrimaryCoinbase(common.HexToAddress("0x1100000000000000000000000000000000000001", common.Location{1, 1}))
			return true
		}),
		w("location-other-zone", func(wh *types.WorkObjectHeader, c int, p *types.WorkObject) bool {
			wh.SetLocation(common.Location{0, 1})
			return true
		}),
		w("sha-diff-present-pre-fork", func(wh *types.WorkObjectHeader, c int, p *types.WorkObject) bool {
			wh.SetShaDiffAndCount(types.NewPowShareDiffAndCount(big.NewInt(1), big.NewInt(1), big.NewInt(0)))
			return true
		}),
		w("kawpow-difficulty-present-pre-fork", func(wh *types.WorkObjectHeader, c int, p *types.WorkObject) bool {
			wh.SetKawpowDifficulty(big.NewInt(7))
			return true
		}),
		h("parentEntropy+1", true, func(h *types.Header, c int, p *types.WorkObject) bool {
			h.SetParentEntropy(c09Bump(h.ParentEntropy(c)), c)
			return true
		}),
		h("parentDeltaEntropy+1", true, func(h *types.Header, c int, p *types.WorkObject) bool {
			if c == 0 {
				return false
			}
			h.SetParentDeltaEntropy(c09Bump(h.ParentDeltaEntropy(c)), c)
			return true
		}),
		h("parentUncledDeltaEntropy+1", true, func(h *types.Header, c int, p *types.WorkObject) bool {
			if c == 0 {
				return false
			}
			h.SetParentUncledDeltaEntropy(c09Bump(h.ParentUncledDeltaEntropy(c)), c)
			return true
		}),
		h("efficiencyScore+1", false, func(h *types.Header, c int, p *types.WorkObject) bool {
			h.SetEfficiencyScore(h.EfficiencyScore() + 1)
			return c == 0
		}),
		h("thresholdCount+1", false, func(h *types.Header, c int, p *types.WorkObject) bool {
			h.SetThresholdCount(h.ThresholdCount() + 1)
			return c == 0
		}),
		h("expansionNumber+1", false, func(h *types.Header, c int, p *types.WorkObject) bool {
			h.SetExpansionNumber(h.ExpansionNumber() + 1)
			return true
		}),
		h("etxEligibleSlices-flip", false, func(h *types.Header, c int, p *types.WorkObject) bool {
			h.SetEtxEligibleSlices(flipHash(h.EtxEligibleSlices()))
			return c == 0
		}),
		h("primeStateRoot-nonempty", false, func(h *types.Header, c int, p *types.WorkObject) bool {
			h.SetPrimeStateRoot(flipHash(h.PrimeStateRoot()))
			return c == 0
		}),
		h("regionStateRoot-nonempty", false, func(h *types.Header, c int, p *types.WorkObject) bool {
			h.SetRegionStateRoot(flipHash(h.RegionStateRoot()))
			return c == 1
		}),
		h("minerDifficulty+1", false, func(h *types.Header, c int, p *types.WorkObject) bool {
			h.SetMinerDifficulty(c09Bump(h.MinerDifficulty()))
			return c == 0
		}),
		h("gasLimit+1", false, func(h *types.Header, c int, p *types.WorkObject) bool { h.SetGasLimit(h.GasLimit() + 1); return true }),
		h("gasUsed>gasLimit", false, func(h *types.Header, c int, p *types.WorkObject) bool { h.SetGasUsed(h.GasLimit() + 1); return true }),
		h("stateLimit+1", false, func(h *types.Header, c int, p *types.WorkObject) bool {
			h.SetStateLimit(h.StateLimit() + 1)
			return true
		}),
		h("stateUsed>stateLimit", false, func(h *types.Header, c int, p *types.WorkObject) bool {
			h.SetStateUsed(h.StateLimit() + 1)
			return true
		}),
		h("baseFee+1", false, func(h *types.Header, c int, p *types.WorkObject) bool {
			h.SetBaseFee(c09Bump(h.BaseFee()))
			return true
		}),
		h("primeTerminusHash-flip", false, func(h *types.Header, c int, p *types.WorkObject) bool {
			h.SetPrimeTerminusHash(flipHash(h.PrimeTerminusHash()))
			return true
		}),
		h("extra-too-long", false, func(h *types.Header, c int, p *types.WorkObject) bool { h.SetExtra(make([]byte, 4096)); return true }),
	}
}

// c09Node checks one tree node: child built on the node's current heads. Returns violations.
//
// Ownership of fields: a full node validates a block of order o in every chain o..2 (the dominant
// chain appends it and descends into its subordinates). A deviation therefore counts as accepted
// only if EVERY chain the block belongs to accepts it. Deviations receive the context argument
// `owner`: per-context fields are deviated at each index o..2 in turn; fields that only a dominant
// chain derives (efficiency score, threshold count, miner difficulty, eligible slices, prime/region
// state roots) are only deviated on blocks of that order (elsewhere they are copies, re-derived at
// the next coincident block).
func c09Node(s *scen, word string, p *vx.Part, cold, shares bool) (viol [][2]string, child *types.WorkObject, harness string) {
	order := map[byte]int{'z': 2, 'r': 1, 'p': 0}[word[len(word)-1]]
	parents := s.n.Heads
	if shares {
		if _, err := s.n.VMakeWorkShare(s.k[2].Addr, 0, int64(len(word))); err != nil {
			return nil, nil, "work share: " + err.Error()
		}
	}
	blk, err := s.n.Build(core.VBuildOpts{Order: order, Fill: true})
	if err != nil {
		return nil, nil, "build: " + err.Error()
	}
	tag := ""
	if shares {
		// the worker includes the pending shares from the third block of a word on: there the child
		// carries uncles, and from the fourth block on the parent does too
		tag = fmt.Sprintf("+shares(uncles:parent=%d,child=%d)", len(parents[2].Uncles()), len(blk.Uncles()))
		if (len(word) >= 3 && len(blk.Uncles()) == 0) || (len(word) >= 4 && len(parents[2].Uncles()) == 0) {
			return nil, nil, "share variant: parent or child carries no uncle: " + tag
		}
	}
	// entropy values seen first (before any other query on this node), compared with later ones
	type ent struct{ parent, child *big.Int }
	first := map[int]ent{}
	if shares {
		for ctx := order; ctx <= 2; ctx++ {
			hc := s.n.Sl[ctx].HeaderChain()
			v, _ := core.VRoundTrip(blk, core.VZoneLoc)
			first[ctx] = ent{new(big.Int).Set(hc.TotalLogEntropy(parents[ctx])), new(big.Int).Set(hc.TotalLogEntropy(v))}
		}
	}
	for ctx := order; ctx <= 2; ctx++ {
		hc := s.n.Sl[ctx].HeaderChain()
		view, _ := core.VRoundTrip(blk, core.VZoneLoc)
		if err := hc.VerifyHeader(view); err != nil {
			viol = append(viol, [2]string{fmt.Sprintf("own-header-rejected:ctx%d", ctx), fmt.Sprintf("word %q: chain %d rejects the header its own worker produced: %v", word, ctx, err)})
			return viol, blk, ""
		}
		p.Traces++
		p.Outcome(fmt.Sprintf("order%d:ctx%d:own%s=>accept", order, ctx, tag))
		// entropy strictly increases along the chain
		pe, ce := hc.TotalLogEntropy(parents[ctx]), hc.TotalLogEntropy(view)
		if ce.Cmp(pe) <= 0 {
			viol = append(viol, [2]string{fmt.Sprintf("entropy-not-increasing:ctx%d", ctx), fmt.Sprintf("word %q: chain %d: TotalLogEntropy(child)=%v <= TotalLogEntropy(parent)=%v", word, ctx, ce, pe)})
		}
	}
	for _, d := range c09Deviations() {
		owners := []int{order}
		if d.PerCtx {
			owners = nil
			for c := order; c <= 2; c++ {
				owners = append(owners, c)
			}
		}
		for _, owner := range owners {
			m, _ := core.VRoundTrip(blk, core.VZoneLoc)
			if !d.Apply(m, owner, parents[owner]) {
				continue
			}
			// what an attacker can put on the wire: the deviation must survive the encoding
			m, err = core.VRoundTrip(m, core.VZoneLoc)
			if err != nil {
				p.Outcome(fmt.Sprintf("order%d:%s=>not-encodable", order, d.Name))
				continue
			}
			if m.Hash() == blk.Hash() && m.SealHash() == blk.SealHash() {
				p.Outcome(fmt.Sprintf("order%d:%s=>not-representable-on-the-wire", order, d.Name))
				continue
			}
			p.Transitions++
			rejectedBy := -1
			var reason error
			for ctx := order; ctx <= 2; ctx++ {
				cp, _ := core.VRoundTrip(m, core.VZoneLoc)
				if verr := s.n.Sl[ctx].HeaderChain().VerifyHeader(cp); verr != nil {
					rejectedBy, reason = ctx, verr
					break
				}
			}
			name := d.Name
			if d.PerCtx {
				name = fmt.Sprintf("%s[%d]", d.Name, owner)
			}
			if rejectedBy < 0 {
				viol = append(viol, [2]string{fmt.Sprintf("deviation-accepted:%s:order%d", name, order), fmt.Sprintf("word %q: a child of order %d whose %s deviates from the value derived from its parent is accepted by every chain it belongs to", word, order, name)})
				p.Outcome(fmt.Sprintf("order%d:%s=>ACCEPTED", order, name))
			} else {
				p.Outcome(fmt.Sprintf("order%d:%s=>ctx%d:%s", order, name, rejectedBy, c07ErrClass(reason)))
				// the way a block really arrives: it is first stored as a CANDIDATE (Core.WriteBlock writes
				// it and looks it up through GetHeaderOrCandidateByHash, which fills the header cache) and
				// verified afterwards; the chain that refused it directly must refuse it then too
				hc := s.n.Sl[rejectedBy].HeaderChain()
				st, _ := core.VRoundTrip(m, core.VZoneLoc)
				s.n.Sl[rejectedBy].WriteBlock(st)
				hc.GetHeaderOrCandidateByHash(st.Hash())
				again, _ := core.VRoundTrip(m, core.VZoneLoc)
				if verr := hc.VerifyHeader(again); verr == nil {
					viol = append(viol, [2]string{fmt.Sprintf("deviation-accepted-once-stored-as-candidate:%s:order%d", name, order), fmt.Sprintf("word %q: a child of order %d whose %s deviates is refused by chain %d when verified directly (%v) but accepted after it was stored and looked up as a candidate block", word, order, name, rejectedBy, reason)})
					p.Outcome(fmt.Sprintf("order%d:%s=>ACCEPTED-AS-CANDIDATE", order, name))
				}
			}
		}
	}
	// entropy stability (share-carrying blocks): after all the queries above the values are unchanged
	if shares {
		for ctx := order; ctx <= 2; ctx++ {
			hc := s.n.Sl[ctx].HeaderChain()
			v, _ := core.VRoundTrip(blk, core.VZoneLoc)
			for rep := 0; rep < 2; rep++ {
				pe, ce := hc.TotalLogEntropy(parents[ctx]), hc.TotalLogEntropy(v)
				if pe.Cmp(first[ctx].parent) != 0 || ce.Cmp(first[ctx].child) != 0 {
					viol = append(viol, [2]string{fmt.Sprintf("entropy-unstable:repeat:ctx%d", ctx), fmt.Sprintf("word %q with a work share in every block: chain %d: TotalLogEntropy of the same blocks changed between queries: parent %v -> %v, child %v -> %v", word, ctx, first[ctx].parent, pe, first[ctx].child, ce)})
					break
				}
			}
		}
	}
	// order stability: repeated, round-tripped, cold replica
	_, o1, e1 := s.n.Zone().CalcOrder(blk)
	rt, _ := core.VRoundTrip(blk, core.VZoneLoc)
	_, o2, e2 := s.n.Zone().CalcOrder(rt)
	if e1 != nil || e2 != nil || o1 != o2 || o1 != order {
		viol = append(viol, [2]string{"order-unstable:repeat", fmt.Sprintf("word %q: CalcOrder gives %d (%v) then %d (%v); sealed for order %d", word, o1, e1, o2, e2, order)})
	}
	if cold {
		cn, err := c06Cold(s)
		if err != nil {
			return viol, nil, "cold replica: " + err.Error()
		}
		for ctx := order; ctx <= 2; ctx++ {
			_, oc, ec := cn.Sl[ctx].CalcOrder(rt)
			if ec != nil || oc != order {
				viol = append(viol, [2]string{fmt.Sprintf("order-unstable:cold:ctx%d", ctx), fmt.Sprintf("word %q: a freshly started chain %d computes order %d (%v), the warm node %d", word, ctx, oc, ec, order)})
			}
			if shares {
				chc := cn.Sl[ctx].HeaderChain()
				if pe, ce := chc.TotalLogEntropy(parents[ctx]), chc.TotalLogEntropy(rt); pe.Cmp(first[ctx].parent) != 0 || ce.Cmp(first[ctx].child) != 0 {
					viol = append(viol, [2]string{fmt.Sprintf("entropy-unstable:cold:ctx%d", ctx), fmt.Sprintf("word %q with a work share in every block: a freshly started chain %d computes TotalLogEntropy parent=%v child=%v, the warm node %v / %v", word, ctx, pe, ce, first[ctx].parent, first[ctx].child)})
				}
			}
		}
		cn.Close()
		p.Traces++
	}
	return viol, blk, ""
}

func c09Words(maxLen int) []string {
	var out []string
	var rec func(cur string)
	rec = func(cur string) {
		if len(cur) > 0 {
			out = append(out, cur)
		}
		if len(cur) == maxLen {
			return
		}
		for _, ch := range "zrp" {
			rec(cur + string(ch))
		}
	}
	rec("")
	return out
}

func c09RunWord(c *vx.Ctx, p *vx.Part, word string, shares bool) ([][2]string, string) {
	s, err := newScen(3, false, nil)
	if err != nil {
		return nil, err.Error()
	}
	defer s.close()
	for i := 0; i+1 < len(word); i++ {
		if shares {
			if _, err := s.n.VMakeWorkShare(s.k[2].Addr, 0, int64(i)); err != nil {
				return nil, "prefix work share: " + err.Error()
			}
		}
		if err := s.runWord(word[i : i+1]); err != nil {
			return nil, "prefix " + err.Error()
		}
	}
	viol, blk, h := c09Node(s, word, p, len(word)%2 == 0, shares)
	if h != "" {
		return viol, h
	}
	_ = blk
	return viol, ""
}

func runC09(c *vx.Ctx) {
	core.VScaleParams(core.VR1)
	c09ScaleDifficulty()
	if c.Wants("forks") {
		c09Forks(c)
	}
	if !c.Wants("header-rules") {
		return
	}
	c.Rule = "tree of all block-order words over {z,r,p} up to depth D on a real prime/region/zone node; at every node every single-field deviation (31 fields of Header / WorkObjectHeader) of the freshly built child is re-hashed, re-sealed and offered to VerifyHeader of each chain the block belongs to; outcome class = chain x field x rejection reason; every refused deviation again after it was stored and looked up as a candidate block; forks: all ordered pairs of branches over block-time increments that diverge at their first block (side-branch verification, switch, next own block)"
	c.Assume("scaled protocol constants: " + fmt.Sprint(core.VScaled))
	c.Assume("injected PoW engine: deviations are re-sealed with a valid pow hash, so rejections come from the header rules, not from the seal")
	c.Assume("fork regime R1 before the KawPow fork: share-difficulty fields must be absent; their post-fork derivation rules are not driven")
	depth := 4
	if c.Thorough() {
		depth = 6
	}
	p := c.Part("header-rules")
	p.Bound("depth", depth)
	words := c09Words(depth)
	if c.Shard == 0 {
		p.States = 2 * int64(len(words))
	}
	p.Bound("variants", "plain; a work share on every head (every block carries an uncle)")
	for i := 0; i < 2*len(words); i++ {
		w, shares := words[i/2], i%2 == 1
		if !c.Mine(int64(i)) {
			continue
		}
		if c.Expired() {
			p.Incomplete("deadline")
			return
		}
		viol, harness := c09RunWord(c, p, w, shares)
		if harness != "" {
			c.HarnessError(fmt.Sprintf("word %q (shares=%v): %s", w, shares, harness))
			return
		}
		for _, v := range viol {
			v, w, shares := v, w, shares
			if c.Confirm(v[1], func() string {
				vs, _ := c09RunWord(c, c.Part("confirm-scratch"), w, shares)
				for _, x := range vs {
					if x[0] == v[0] {
						return x[0]
					}
				}
				return ""
			}) {
				c.Violate("header-rules", v[0], v[1], map[string]string{"word": w, "shares": fmt.Sprint(shares)})
			}
		}
		if len(viol) == 0 && i%11 == 0 {
			p.Sample(w)
		}
		if int64(len(w)) > p.MaxDepth {
			p.MaxDepth = int64(len(w))
		}
	}
}

func replayC09(c *vx.Ctx, v vx.Violation) string {
	core.VScaleParams(core.VR1)
	c09ScaleDifficulty()
	raw, _ := jsonMarshal(v.Replay)
	if v.Part == "forks" {
		var f struct {
			Forks c09ForkCase `json:"forks"`
		}
		if err := jsonUnmarshal(raw, &f); err != nil {
			return "bad replay: " + err.Error()
		}
		prefix, err := c09ForkPrefixBlocks()
		if err != nil {
			return "harness: " + err.Error()
		}
		_, d, h, _ := c09ForkCaseRun(prefix, f.Forks)
		if h != "" {
			return "harness: " + h
		}
		return d
	}
	var cs map[string]string
	if err := jsonUnmarshal(raw, &cs); err != nil {
		return "bad replay: " + err.Error()
	}
	vs, h := c09RunWord(c, c.Part("replay"), cs["word"], cs["shares"] == "true")
	if h != "" {
		return "harness: " + h
	}
	for _, x := range vs {
		if x[0] == v.Key {
			return x[1]
		}
	}
	return ""
}

var _ = strings.Join
