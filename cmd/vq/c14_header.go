package main

// C14 subjects: Header (body header) and WorkObjectHeader (pre- and post-KawPow regimes, AuxPow).

import (
	"bytes"
	"encoding/binary"
	"encoding/json"
	"fmt"
	"math/big"

	"github.com/dominant-strategies/go-quai/common"
	"github.com/dominant-strategies/go-quai/core/rawdb"
	"github.com/dominant-strategies/go-quai/core/types"
	"github.com/dominant-strategies/go-quai/ethdb"
	"github.com/dominant-strategies/go-quai/params"
	"google.golang.org/protobuf/proto"
)

// ---- Header -----------------------------------------------------------------------------------

func c14HdrBig(typ int64, extra ...c14Val) []c14Val {
	m := []c14Val{{L: "typ", V: big.NewInt(typ)}, {L: "0", V: big.NewInt(0)}, {L: "2^256-1", V: c14Max(256)}}
	if c14Deep {
		m = append(m, c14Val{L: "2^64-1", V: c14Max(64)}, c14Val{L: "255", V: big.NewInt(255)}, c14Val{L: "2^64", V: c14Pow2(64)})
	}
	return append(m, extra...)
}

var (
	c14NilBig  = c14Val{L: "nil", V: (*big.Int)(nil), Ill: true} // no constructor/decoder yields a nil header quantity
	c14WideBig = c14Val{L: "2^256(33B)", V: c14Pow2(256), Ill: true}
)

func c14HdrHash(seed string) []c14Val {
	if c14Deep {
		return c14HashMenu(seed)
	}
	m := c14HashMenu(seed)
	return []c14Val{m[0], m[2]} // typical, 0x00..01 (leading zero bytes)
}

type c14HdrField struct {
	name string
	kind string // hash, big, u64, u16, u8, bytes
	idx  int    // for array fields
}

var c14HeaderLayout = []c14HdrField{
	{"parentHash", "hash", 0}, {"parentHash", "hash", 1},
	{"uncleHash", "hash", -1}, {"evmRoot", "hash", -1}, {"utxoRoot", "hash", -1}, {"txHash", "hash", -1},
	{"outboundEtxHash", "hash", -1}, {"etxSetRoot", "hash", -1}, {"etxRollupHash", "hash", -1},
	{"quaiStateSize", "big", -1},
	{"manifestHash", "hash", 0}, {"manifestHash", "hash", 1}, {"manifestHash", "hash", 2},
	{"receiptHash", "hash", -1},
	{"parentEntropy", "big", 0}, {"parentEntropy", "big", 1}, {"parentEntropy", "big", 2},
	{"parentDeltaEntropy", "big", 0}, {"parentDeltaEntropy", "big", 1}, {"parentDeltaEntropy", "big", 2},
	{"parentUncledDeltaEntropy", "big", 0}, {"parentUncledDeltaEntropy", "big", 1}, {"parentUncledDeltaEntropy", "big", 2},
	{"efficiencyScore", "u16", -1}, {"thresholdCount", "u16", -1}, {"expansionNumber", "u8", -1},
	{"etxEligibleSlices", "hash", -1}, {"primeTerminusHash", "hash", -1}, {"interlinkRootHash", "hash", -1},
	{"uncledEntropy", "big", -1},
	{"number", "big", 0}, {"number", "big", 1},
	{"gasLimit", "u64", -1}, {"gasUsed", "u64", -1},
	{"baseFee", "big", -1}, {"extra", "bytes", -1},
	{"stateLimit", "u64", -1}, {"stateUsed", "u64", -1},
	{"exchangeRate", "big", -1}, {"avgTxFees", "big", -1}, {"totalFees", "big", -1}, {"kQuaiDiscount", "big", -1},
	{"conversionFlowAmount", "big", -1}, {"minerDifficulty", "big", -1},
	{"primeStateRoot", "hash", -1}, {"regionStateRoot", "hash", -1},
}

func (f c14HdrField) fname() string {
	if f.idx >= 0 {
		return fmt.Sprintf("%s[%d]", f.name, f.idx)
	}
	return f.name
}

func c14HeaderFields() []c14Field {
	fs := []c14Field{{N: "loc", M: c14LocMenu()[:1]}} // a body header carries no address: its decoding does not depend on the location
	for i, f := range c14HeaderLayout {
		n := f.fname()
		var m []c14Val
		switch f.kind {
		case "hash":
			m = c14HdrHash("hdr" + n)
		case "big":
			m = c14HdrBig(int64(1000 + 17*i))
			switch n {
			case "baseFee", "parentEntropy[1]", "number[0]", "exchangeRate":
				m = append(m, c14NilBig)
			}
			switch n {
			case "baseFee", "parentDeltaEntropy[2]":
				m = append(m, c14WideBig)
			}
		case "u64":
			m = c14U64Menu(uint64(50000 + i))
		case "u16":
			m = []c14Val{{L: "typ", V: uint64(300 + i)}, {L: "0", V: uint64(0)}, {L: "255", V: uint64(255)}, {L: "256", V: uint64(256)}, {L: "65535", V: uint64(65535)}}
		case "u8":
			m = []c14Val{{L: "typ", V: uint64(3)}, {L: "0", V: uint64(0)}, {L: "255", V: uint64(255)}}
		case "bytes":
			m = c14BytesMenu([]byte("extra-data"))
		}
		fs = append(fs, c14Field{N: n, M: m})
	}
	return fs
}

// c14BuildHeader builds a Header through EmptyHeader() and the public setters. get(name) returns
// the chosen value of a field.
func c14BuildHeader(v *c14Vals, pre string) *types.Header {
	h := types.EmptyHeader()
	for _, f := range c14HeaderLayout {
		n := pre + f.fname()
		switch f.name {
		case "parentHash":
			h.SetParentHash(v.hash(n), f.idx)
		case "uncleHash":
			h.SetUncleHash(v.hash(n))
		case "evmRoot":
			h.SetEVMRoot(v.hash(n))
		case "utxoRoot":
			h.SetUTXORoot(v.hash(n))
		case "txHash":
			h.SetTxHash(v.hash(n))
		case "outboundEtxHash":
			h.SetOutboundEtxHash(v.hash(n))
		case "etxSetRoot":
			h.SetEtxSetRoot(v.hash(n))
		case "etxRollupHash":
			h.SetEtxRollupHash(v.hash(n))
		case "quaiStateSize":
			h.SetQuaiStateSize(v.big(n))
		case "manifestHash":
			h.SetManifestHash(v.hash(n), f.idx)
		case "receiptHash":
			h.SetReceiptHash(v.hash(n))
		case "parentEntropy":
			h.SetParentEntropy(v.big(n), f.idx)
		case "parentDeltaEntropy":
			h.SetParentDeltaEntropy(v.big(n), f.idx)
		case "parentUncledDeltaEntropy":
			h.SetParentUncledDeltaEntropy(v.big(n), f.idx)
		case "efficiencyScore":
			h.SetEfficiencyScore(uint16(v.u64(n)))
		case "thresholdCount":
			h.SetThresholdCount(uint16(v.u64(n)))
		case "expansionNumber":
			h.SetExpansionNumber(uint8(v.u64(n)))
		case "etxEligibleSlices":
			h.SetEtxEligibleSlices(v.hash(n))
		case "primeTerminusHash":
			h.SetPrimeTerminusHash(v.hash(n))
		case "interlinkRootHash":
			h.SetInterlinkRootHash(v.hash(n))
		case "uncledEntropy":
			h.SetUncledEntropy(v.big(n))
		case "number":
			h.SetNumber(v.big(n), f.idx)
		case "gasLimit":
			h.SetGasLimit(v.u64(n))
		case "gasUsed":
			h.SetGasUsed(v.u64(n))
		case "baseFee":
			h.SetBaseFee(v.big(n))
		case "extra":
			h.SetExtra(v.bytes(n))
		case "stateLimit":
			h.SetStateLimit(v.u64(n))
		case "stateUsed":
			h.SetStateUsed(v.u64(n))
		case "exchangeRate":
			h.SetExchangeRate(v.big(n))
		case "avgTxFees":
			h.SetAvgTxFees(v.big(n))
		case "totalFees":
			h.SetTotalFees(v.big(n))
		case "kQuaiDiscount":
			h.SetKQuaiDiscount(v.big(n))
		case "conversionFlowAmount":
			h.SetConversionFlowAmount(v.big(n))
		case "minerDifficulty":
			h.SetMinerDifficulty(v.big(n))
		case "primeStateRoot":
			h.SetPrimeStateRoot(v.hash(n))
		case "regionStateRoot":
			h.SetRegionStateRoot(v.hash(n))
		default:
			panic("c14: header layout names unknown field " + f.name)
		}
	}
	return h
}

func c14RefHeaderInto(r *c14Ref, pre string, h *types.Header) {
	if h == nil {
		r.s(pre+"header", "nil")
		return
	}
	ph := h.ParentHashArray()
	r.u(pre+"parentHash.len", uint64(len(ph)))
	for i, x := range ph {
		r.h(fmt.Sprintf("%sparentHash[%d]", pre, i), x)
	}
	r.h(pre+"uncleHash", h.UncleHash())
	r.h(pre+"evmRoot", h.EVMRoot())
	r.h(pre+"utxoRoot", h.UTXORoot())
	r.h(pre+"txHash", h.TxHash())
	r.h(pre+"outboundEtxHash", h.OutboundEtxHash())
	r.h(pre+"etxSetRoot", h.EtxSetRoot())
	r.h(pre+"etxRollupHash", h.EtxRollupHash())
	r.big(pre+"quaiStateSize", h.QuaiStateSize())
	mh := h.ManifestHashArray()
	r.u(pre+"manifestHash.len", uint64(len(mh)))
	for i, x := range mh {
		r.h(fmt.Sprintf("%smanifestHash[%d]", pre, i), x)
	}
	r.h(pre+"receiptHash", h.ReceiptHash())
	for i := 0; i < common.HierarchyDepth; i++ {
		r.big(fmt.Sprintf("%sparentEntropy[%d]", pre, i), h.ParentEntropy(i))
		r.big(fmt.Sprintf("%sparentDeltaEntropy[%d]", pre, i), h.ParentDeltaEntropy(i))
		r.big(fmt.Sprintf("%sparentUncledDeltaEntropy[%d]", pre, i), h.ParentUncledDeltaEntropy(i))
	}
	r.u(pre+"efficiencyScore", uint64(h.EfficiencyScore()))
	r.u(pre+"thresholdCount", uint64(h.ThresholdCount()))
	r.u(pre+"expansionNumber", uint64(h.ExpansionNumber()))
	r.h(pre+"etxEligibleSlices", h.EtxEligibleSlices())
	r.h(pre+"primeTerminusHash", h.PrimeTerminusHash())
	r.h(pre+"interlinkRootHash", h.InterlinkRootHash())
	r.big(pre+"uncledEntropy", h.UncledEntropy())
	na := h.NumberArray()
	r.u(pre+"number.len", uint64(len(na)))
	for i, x := range na {
		r.big(fmt.Sprintf("%snumber[%d]", pre, i), x)
	}
	r.u(pre+"gasLimit", h.GasLimit())
	r.u(pre+"gasUsed", h.GasUsed())
	r.big(pre+"baseFee", h.BaseFee())
	r.byt(pre+"extra", h.Extra())
	r.u(pre+"stateLimit", h.StateLimit())
	r.u(pre+"stateUsed", h.StateUsed())
	r.big(pre+"exchangeRate", h.ExchangeRate())
	r.big(pre+"avgTxFees", h.AvgTxFees())
	r.big(pre+"totalFees", h.TotalFees())
	r.big(pre+"kQuaiDiscount", h.KQuaiDiscount())
	r.big(pre+"conversionFlowAmount", h.ConversionFlowAmount())
	r.big(pre+"minerDifficulty", h.MinerDifficulty())
	r.h(pre+"primeStateRoot", h.PrimeStateRoot())
	r.h(pre+"regionStateRoot", h.RegionStateRoot())
}

func c14HeaderProtoEnc(h *types.Header) ([]byte, error) {
	p, err := h.ProtoEncode()
	if err != nil {
		return nil, err
	}
	return proto.Marshal(p)
}

func c14HeaderProtoDec(b []byte, loc common.Location) (*types.Header, error) {
	p := new(types.ProtoHeader)
	if err := proto.Unmarshal(b, p); err != nil {
		return nil, err
	}
	h := new(types.Header)
	if err := h.ProtoDecode(p, loc); err != nil {
		return nil, err
	}
	return h, nil
}

func init() {
	c14Register(&c14Subject{
		Name:   "header",
		Domain: "header",
		// 46 fields: the thorough tier widens the menus (6 big-integer widths, 4 hash shapes) and keeps two
		// deviations; three deviations over them would be 5.5e5 variants for one flat record type
		ThoroughK: 2,
		Fields:    c14HeaderFields,
		Build:     func(e *c14Env, v *c14Vals) (any, bool) { return c14BuildHeader(v, ""), false },
		Ref: func(e *c14Env, o any) string {
			r := c14NewRef()
			c14RefHeaderInto(r, "", o.(*types.Header))
			return r.String()
		},
		Hash: func(e *c14Env, o any) string { h := o.(*types.Header).Hash(); return fmt.Sprintf("%x", h[:]) },
		Paths: []c14Path{
			{Name: "proto",
				Enc: func(e *c14Env, o any) ([]byte, error) { return c14HeaderProtoEnc(o.(*types.Header)) },
				Dec: func(e *c14Env, b []byte) (any, error) { return c14HeaderProtoDec(b, e.Loc) }},
			{Name: "json-rpc",
				Enc: func(e *c14Env, o any) ([]byte, error) { return json.Marshal(o.(*types.Header).RPCMarshalHeader()) },
				Dec: func(e *c14Env, b []byte) (any, error) {
					h := new(types.Header)
					if err := h.UnmarshalJSON(b); err != nil {
						return nil, err
					}
					return h, nil
				}},
			{Name: "json-marshal",
				Enc: func(e *c14Env, o any) ([]byte, error) { return o.(*types.Header).MarshalJSON() },
				Dec: func(e *c14Env, b []byte) (any, error) {
					h := new(types.Header)
					if err := h.UnmarshalJSON(b); err != nil {
						return nil, err
					}
					return h, nil
				}},
		},
	})
}

// ---- AuxPow -----------------------------------------------------------------------------------

func c14RefAuxPowInto(r *c14Ref, pre string, ap *types.AuxPow) {
	if ap == nil {
		r.s(pre+"auxPow", "nil")
		return
	}
	r.u(pre+"auxPow.powID", uint64(ap.PowID()))
	if ap.Header() == nil {
		r.s(pre+"auxPow.header", "nil")
	} else {
		r.byt(pre+"auxPow.header", ap.Header().Bytes())
	}
	r.byt(pre+"auxPow.signature", ap.Signature())
	r.byt(pre+"auxPow.auxPow2", ap.AuxPow2())
	mb := ap.MerkleBranch()
	r.u(pre+"auxPow.merkleBranch.len", uint64(len(mb)))
	for i, x := range mb {
		r.byt(fmt.Sprintf("%sauxPow.merkleBranch[%d]", pre, i), x)
	}
	r.byt(pre+"auxPow.transaction", ap.Transaction())
}

func c14DonorHeader(id types.PowID, variant string) *types.AuxPowHeader {
	var prev, merkle [32]byte
	version, tm, bits, nonce, height := int32(0x20000000), uint32(1700000000), uint32(0x1b00ffff), uint32(0xdeadbeef), uint32(2500000)
	switch variant {
	case "typ":
		prev = c14HashOf("donor-prev")
		merkle = c14HashOf("donor-merkle")
	case "zeros":
		version, tm, bits, nonce, height = 0, 0, 0, 0, 0
	case "max":
		for i := range prev {
			prev[i], merkle[i] = 0xff, 0xff
		}
		version, tm, bits, nonce, height = -1, ^uint32(0), ^uint32(0), ^uint32(0), ^uint32(0)
	}
	h := types.NewBlockHeader(id, version, prev, merkle, tm, bits, nonce, height)
	if h != nil && id == types.Kawpow && variant != "zeros" {
		h.SetNonce64(0x1122334455667788)
		h.SetMixHash(c14HashOf("donor-mix"))
	}
	if h != nil && id != types.Kawpow {
		// NewBitcoinBlockHeader / NewBitcoinCashBlockHeader / NewLitecoinBlockHeader ignore their time
		// argument and stamp time.Now(): rebuild the 80-byte header with the intended timestamp through
		// the real deserialiser so that the harness does not depend on the wall clock.
		raw := h.Bytes()
		if len(raw) != 80 {
			panic(fmt.Sprintf("harness: donor header of pow %d has %d bytes, want 80", id, len(raw)))
		}
		binary.LittleEndian.PutUint32(raw[68:72], tm)
		var inner types.AuxHeaderData
		switch id {
		case types.SHA_BTC:
			inner = &types.BitcoinHeaderWrapper{}
		case types.SHA_BCH:
			inner = &types.BitcoinCashHeaderWrapper{}
		case types.Scrypt:
			inner = &types.LitecoinHeaderWrapper{}
		}
		if err := inner.Deserialize(bytes.NewReader(raw)); err != nil {
			panic("harness: donor header: " + err.Error())
		}
		h = types.NewAuxPowHeader(inner)
	}
	return h
}

// ---- WorkObjectHeader -------------------------------------------------------------------------

type c14ShareDC struct{ d, c, u *big.Int }

func c14ShareMenu() []c14Val {
	return []c14Val{
		{L: "typ", V: c14ShareDC{big.NewInt(1 << 30), big.NewInt(77), big.NewInt(5)}},
		{L: "zeros", V: c14ShareDC{big.NewInt(0), big.NewInt(0), big.NewInt(0)}},
		{L: "max", V: c14ShareDC{c14Max(256), c14Max(64), c14Max(64)}},
		{L: "count=0", V: c14ShareDC{big.NewInt(12345), big.NewInt(0), big.NewInt(9)}},
		{L: "uncled-nil", V: c14ShareDC{big.NewInt(12345), big.NewInt(3), nil}, Ill: true},
		{L: "all-nil", V: c14ShareDC{nil, nil, nil}, Ill: true},
	}
}

func c14WoHeaderFields(post bool) func() []c14Field {
	return func() []c14Field {
		fork := params.KawPowForkBlock
		var ptn []c14Val
		if !post {
			ptn = []c14Val{{L: "1000", V: big.NewInt(1000)}, {L: "0", V: big.NewInt(0)}, {L: "fork-1", V: new(big.Int).SetUint64(fork - 1)}}
		} else {
			ptn = []c14Val{{L: "fork", V: new(big.Int).SetUint64(fork)}, {L: "fork+1", V: new(big.Int).SetUint64(fork + 1)},
				{L: "fork+transition", V: new(big.Int).SetUint64(fork + params.KawPowTransitionPeriod)}, {L: "2^64-1", V: c14Max(64)}}
		}
		fs := []c14Field{
			{N: "loc", M: c14LocMenu()},
			{N: "headerHash", M: c14HashMenu("woh-header")},
			{N: "parentHash", M: c14HashMenu("woh-parent")},
			{N: "number", M: append(c14HdrBig(4242), c14NilBig)},
			{N: "difficulty", M: append(c14HdrBig(1_000_000), c14NilBig, c14WideBig)},
			{N: "primeTerminusNumber", M: ptn},
			{N: "txHash", M: c14HashMenu("woh-tx")},
			{N: "primaryCoinbase", M: c14AddrMenu(c14AInQuai, false, false, true, true)},
			{N: "location", M: []c14Val{{L: "node-zone", V: "node"}, {L: "other-zone", V: "other"}, {L: "region", V: "region"}, {L: "prime-empty", V: "prime"}, {L: "nil", V: "nil"}}},
			{N: "mixHash", M: c14HashMenu("woh-mix")},
			{N: "time", M: c14U64Menu(1_700_000_123)},
			{N: "nonce", M: c14U64Menu(0xa1a2a3a4a5a6a7a8)},
			{N: "data", M: c14BytesMenu([]byte{0xca, 0xfe})},
			{N: "lock", M: []c14Val{{L: "0", V: uint64(0)}, {L: "1", V: uint64(1)}, {L: "3", V: uint64(3)}, {L: "255", V: uint64(255)}}},
		}
		if !post {
			// pre-fork the KawPow fields are not part of the header: constructors leave empty share structs
			fs = append(fs, c14Field{N: "kawpowFields", M: []c14Val{{L: "empty-structs(constructor)", V: "empty"}, {L: "zero-valued(EmptyWorkObject)", V: "zero"}}})
			return fs
		}
		fs = append(fs,
			c14Field{N: "auxPow", M: []c14Val{{L: "kawpow", V: "kawpow"}, {L: "nil(transition)", V: "nil"}, {L: "sha_btc", V: "sha_btc"}, {L: "sha_bch", V: "sha_bch"}, {L: "scrypt", V: "scrypt"},
				{L: "powID=progpow", V: "progpow", Ill: true}, {L: "powID=99", V: "99", Ill: true}}},
			c14Field{N: "auxPow.header", M: []c14Val{{L: "typ", V: "typ"}, {L: "zeros", V: "zeros"}, {L: "max", V: "max"}}},
			c14Field{N: "auxPow.signature", M: c14BytesMenu(c14HashOf("apsig").Bytes())},
			c14Field{N: "auxPow.auxPow2", M: []c14Val{{L: "empty", V: []byte{}}, {L: "nil", V: []byte(nil)}, {L: "32B", V: c14HashOf("ap2").Bytes()}, {L: "0x00", V: []byte{0}}}},
			c14Field{N: "auxPow.merkleBranch", M: []c14Val{{L: "2x32B", V: "2"}, {L: "nil", V: "nil"}, {L: "empty", V: "empty"}, {L: "1x32B", V: "1"}, {L: "empty-element", V: "emptyel"}}},
			c14Field{N: "auxPow.transaction", M: []c14Val{{L: "typ", V: []byte("coinbase-transaction-bytes")}, {L: "empty", V: []byte{}}, {L: "300B", V: c14BytesMenu(nil)[3].V}, {L: "nil", V: []byte(nil), Ill: true}}},
			c14Field{N: "scryptDiffAndCount", M: c14ShareMenu()},
			c14Field{N: "shaDiffAndCount", M: c14ShareMenu()},
			c14Field{N: "shaShareTarget", M: append(c14HdrBig(99991), c14NilBig)},
			c14Field{N: "scryptShareTarget", M: append(c14HdrBig(99992), c14NilBig)},
			c14Field{N: "kawpowDifficulty", M: append(c14HdrBig(99993), c14NilBig)},
		)
		return fs
	}
}

func c14ResolveWoLocation(sym string, loc common.Location) common.Location {
	switch sym {
	case "node":
		return append(common.Location{}, loc...)
	case "other":
		return c14OtherLoc(loc)
	case "region":
		return common.Location{loc[0]}
	case "prime":
		return common.Location{}
	}
	return nil
}

func c14BuildWoHeader(e *c14Env, v *c14Vals, pre string, post bool) (*types.WorkObjectHeader, bool) {
	ill := false
	cb, _ := c14ResolveAddr(v.raw(pre+"primaryCoinbase").(c14AddrSym), e.Loc, 0x61)
	var ap *types.AuxPow
	scrypt := types.NewPowShareDiffAndCount(nil, nil, nil)
	sha := types.NewPowShareDiffAndCount(nil, nil, nil)
	var shaT, scryptT, kd *big.Int
	if post {
		if sym := v.str(pre + "auxPow"); sym != "nil" {
			id := map[string]types.PowID{"kawpow": types.Kawpow, "sha_btc": types.SHA_BTC, "sha_bch": types.SHA_BCH, "scrypt": types.Scrypt, "progpow": types.Progpow, "99": types.PowID(99)}[sym]
			hid := id
			if sym == "progpow" || sym == "99" {
				hid = types.Kawpow
			}
			var mb [][]byte
			switch v.str(pre + "auxPow.merkleBranch") {
			case "2":
				mb = [][]byte{c14HashOf("mb1").Bytes(), c14HashOf("mb2").Bytes()}
			case "1":
				mb = [][]byte{c14HashOf("mb1").Bytes()}
			case "empty":
				mb = [][]byte{}
			case "emptyel":
				mb = [][]byte{c14HashOf("mb1").Bytes(), {}}
			}
			ap = types.NewAuxPow(id, c14DonorHeader(hid, v.str(pre+"auxPow.header")), v.bytes(pre+"auxPow.auxPow2"), v.bytes(pre+"auxPow.signature"), mb, v.bytes(pre+"auxPow.transaction"))
		}
		s1 := v.raw(pre + "scryptDiffAndCount").(c14ShareDC)
		s2 := v.raw(pre + "shaDiffAndCount").(c14ShareDC)
		cp := func(b *big.Int) *big.Int {
			if b == nil {
				return nil
			}
			return new(big.Int).Set(b)
		}
		scrypt = types.NewPowShareDiffAndCount(cp(s1.d), cp(s1.c), cp(s1.u))
		sha = types.NewPowShareDiffAndCount(cp(s2.d), cp(s2.c), cp(s2.u))
		shaT, scryptT, kd = v.big(pre+"shaShareTarget"), v.big(pre+"scryptShareTarget"), v.big(pre+"kawpowDifficulty")
		// a header past the ProgPoW transition window without an AuxPow is not well-formed
		ptn := v.big(pre + "primeTerminusNumber")
		if ap == nil && ptn.Uint64() >= params.KawPowForkBlock+params.KawPowTransitionPeriod {
			ill = true
		}
	} else if v.str(pre+"kawpowFields") == "zero" {
		scrypt = types.NewPowShareDiffAndCount(big.NewInt(0), big.NewInt(0), big.NewInt(0))
		sha = types.NewPowShareDiffAndCount(big.NewInt(0), big.NewInt(0), big.NewInt(0))
		shaT, scryptT, kd = big.NewInt(0), big.NewInt(0), big.NewInt(0)
	}
	wh := types.NewWorkObjectHeader(
		v.hash(pre+"headerHash"), v.hash(pre+"parentHash"), v.big(pre+"number"), v.big(pre+"difficulty"), v.big(pre+"primeTerminusNumber"),
		v.hash(pre+"txHash"), types.EncodeNonce(v.u64(pre+"nonce")), uint8(v.u64(pre+"lock")), v.u64(pre+"time"),
		c14ResolveWoLocation(v.str(pre+"location"), e.Loc), cb, v.bytes(pre+"data"), ap, scrypt, sha, shaT, scryptT, kd)
	wh.SetMixHash(v.hash(pre + "mixHash"))
	return wh, ill
}

func c14PostFork(wh *types.WorkObjectHeader) bool {
	return wh.PrimeTerminusNumber() != nil && wh.PrimeTerminusNumber().Uint64() >= params.KawPowForkBlock
}

func c14RefShare(r *c14Ref, n string, p *types.PowShareDiffAndCount) {
	if p == nil {
		r.s(n, "0/0/0")
		return
	}
	f := func(b *big.Int) string {
		if b == nil {
			return "0"
		}
		return b.String()
	}
	r.s(n, f(p.Difficulty())+"/"+f(p.Count())+"/"+f(p.Uncled()))
}

func c14RefWoHeaderInto(r *c14Ref, pre string, wh *types.WorkObjectHeader) {
	if wh == nil {
		r.s(pre+"woHeader", "nil")
		return
	}
	r.h(pre+"headerHash", wh.HeaderHash())
	r.h(pre+"parentHash", wh.ParentHash())
	r.big(pre+"number", wh.Number())
	r.big(pre+"difficulty", wh.Difficulty())
	r.big(pre+"primeTerminusNumber", wh.PrimeTerminusNumber())
	r.h(pre+"txHash", wh.TxHash())
	r.addr(pre+"primaryCoinbase", wh.PrimaryCoinbase())
	r.byt(pre+"location", wh.Location())
	r.h(pre+"mixHash", wh.MixHash())
	r.u(pre+"time", wh.Time())
	r.u(pre+"nonce", wh.NonceU64())
	r.byt(pre+"data", wh.Data())
	r.u(pre+"lock", uint64(wh.Lock()))
	if c14PostFork(wh) {
		// the KawPow fields are part of the header only from the fork on
		c14RefAuxPowInto(r, pre, wh.AuxPow())
		c14RefShare(r, pre+"scryptDiffAndCount", wh.ScryptDiffAndCount())
		c14RefShare(r, pre+"shaDiffAndCount", wh.ShaDiffAndCount())
		r.big(pre+"shaShareTarget", wh.ShaShareTarget())
		r.big(pre+"scryptShareTarget", wh.ScryptShareTarget())
		r.big(pre+"kawpowDifficulty", wh.KawpowDifficulty())
	}
}

func c14HashWoHeader(wh *types.WorkObjectHeader) string {
	h, s := wh.Hash(), wh.SealHash()
	return fmt.Sprintf("%x/seal:%x", h[:], s[:])
}

func c14WoHeaderProtoEnc(wh *types.WorkObjectHeader) ([]byte, error) {
	p, err := wh.ProtoEncode()
	if err != nil {
		return nil, err
	}
	return proto.Marshal(p)
}

func c14WoHeaderProtoDec(b []byte, loc common.Location) (*types.WorkObjectHeader, error) {
	p := new(types.ProtoWorkObjectHeader)
	if err := proto.Unmarshal(b, p); err != nil {
		return nil, err
	}
	wh := new(types.WorkObjectHeader)
	if err := wh.ProtoDecode(p, loc); err != nil {
		return nil, err
	}
	return wh, nil
}

func c14WoHeaderJSONDec(b []byte) (any, error) {
	wh := new(types.WorkObjectHeader)
	if err := wh.UnmarshalJSON(b); err != nil {
		return nil, err
	}
	return wh, nil
}

func c14WoHeaderPaths(post bool) []c14Path {
	ps := []c14Path{
		{Name: "proto",
			Enc: func(e *c14Env, o any) ([]byte, error) { return c14WoHeaderProtoEnc(o.(*types.WorkObjectHeader)) },
			Dec: func(e *c14Env, b []byte) (any, error) { return c14WoHeaderProtoDec(b, e.Loc) }},
		{Name: "json-rpc-v2",
			Enc: func(e *c14Env, o any) ([]byte, error) {
				return json.Marshal(o.(*types.WorkObjectHeader).RPCMarshalWorkObjectHeader("v2"))
			},
			Dec: func(e *c14Env, b []byte) (any, error) { return c14WoHeaderJSONDec(b) }},
		{Name: "json-marshal",
			Enc: func(e *c14Env, o any) ([]byte, error) { return o.(*types.WorkObjectHeader).MarshalJSON() },
			Dec: func(e *c14Env, b []byte) (any, error) { return c14WoHeaderJSONDec(b) }},
		{Name: "rawdb-header",
			Enc: func(e *c14Env, o any) ([]byte, error) {
				wh := o.(*types.WorkObjectHeader)
				return c14DBEnc(e.Loc, func(db ethdb.Database) error {
					wo := types.NewWorkObject(wh, nil, nil)
					rawdb.WriteWorkObjectHeader(db, c14HashOf("k"), wo, types.BlockObject, common.ZONE_CTX)
					return nil
				})
			},
			Dec: func(e *c14Env, b []byte) (any, error) {
				return c14DBDec(e.Loc, b, func(db ethdb.Database) (any, error) {
					// the key embeds the block number: recover it from the stored header itself
					it := db.NewIterator(nil, nil)
					defer it.Release()
					for it.Next() {
						p := new(types.ProtoWorkObjectHeader)
						if err := proto.Unmarshal(it.Value(), p); err != nil {
							continue
						}
						num := new(big.Int).SetBytes(p.GetNumber()).Uint64()
						wh := rawdb.ReadWorkObjectHeader(db, num, c14HashOf("k"), types.BlockObject)
						if wh == nil {
							return nil, errC14Nil
						}
						return wh, nil
					}
					return nil, errC14Nil
				})
			}},
	}
	if !post {
		ps = append(ps, c14Path{Name: "json-rpc-v1",
			Enc: func(e *c14Env, o any) ([]byte, error) {
				return json.Marshal(o.(*types.WorkObjectHeader).RPCMarshalWorkObjectHeader("v1"))
			},
			Dec: func(e *c14Env, b []byte) (any, error) { return c14WoHeaderJSONDec(b) }})
	}
	return ps
}

func init() {
	for _, post := range []bool{false, true} {
		post := post
		name := "woheader-prefork"
		if post {
			name = "woheader-kawpow"
		}
		c14Register(&c14Subject{
			Name:   name,
			Domain: "woheader",
			Fields: c14WoHeaderFields(post),
			Build: func(e *c14Env, v *c14Vals) (any, bool) {
				wh, ill := c14BuildWoHeader(e, v, "", post)
				return wh, ill
			},
			Ref: func(e *c14Env, o any) string {
				r := c14NewRef()
				c14RefWoHeaderInto(r, "", o.(*types.WorkObjectHeader))
				return r.String()
			},
			Hash:  func(e *c14Env, o any) string { return c14HashWoHeader(o.(*types.WorkObjectHeader)) },
			Paths: c14WoHeaderPaths(post),
		})
	}
}
