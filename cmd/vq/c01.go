package main

// C01 — Qi ledger: each output spent at most once; no Qi created from nothing.
//
// Part "sequences": the real core.ProcessQiTx is driven with every sequence of <= L transaction
// templates (one sequence = the Qi transactions of one block, sharing one pending-tracking batch)
// on each storage backend, against a Go-map reference ledger. The templates are adversarial:
// the same outpoint twice in one transaction, the same outpoint in two transactions of the block,
// an output created earlier in the block, a locked output, somebody else's output, a non-existent
// output, inflating outputs, wrong key, wrong chain id, the sender-cache path (checkSig=false).
// Safety oracle: whenever the model says the spend MUST be refused (missing/spent, wrong owner,
// locked, in < out, bad authorisation) the implementation refuses; for every accepted transaction
// value in == local outputs + ETX value + fee and the supply deltas agree; after batch.Write the
// scan of the UTXO prefix equals the model ledger; verdicts are identical on all backends.
//
// Part "blocks": the same adversarial pairs as whole blocks ("evil miner": body assembled by the
// harness, re-sealed) on memorydb-, leveldb- and pebble-backed nodes: same verdict everywhere, and
// a block that double-spends is rejected.

import (
	"fmt"
	"math/big"
	"os"
	"sort"
	"strings"
	"time"

	"github.com/dominant-strategies/go-quai/common"
	"github.com/dominant-strategies/go-quai/core"
	"github.com/dominant-strategies/go-quai/core/rawdb"
	"github.com/dominant-strategies/go-quai/core/types"
	"github.com/dominant-strategies/go-quai/ethdb"
	"github.com/dominant-strategies/go-quai/ethdb/memorydb"
	"github.com/dominant-strategies/go-quai/verifshim/vx"
)

func init() {
	register(vx.CheckSpec{ID: "C01", Shards: 16, QuickBudget: 110 * time.Second, ThoroughBudg: 25 * time.Minute, Run: runC01, ReplayFn: replayC01})
}

// ---- universe -----------------------------------------------------------------------------------

type c01Out struct {
	denom uint8
	owner []byte
	lock  uint64
}

type c01Seed struct {
	hash  common.Hash
	index uint16
	c01Out
}

type c01Uni struct {
	q       [3]*core.VKey
	k0      *core.VKey // in-zone Quai address (conversion target)
	foreign common.Address
	seeds   []c01Seed // U1,U2 (q0,d6), U3 (q0,d4, locked), U4 (q1,d6)
	height  uint64
}

func c01Universe(height uint64) *c01Uni {
	u := &c01Uni{height: height}
	_, u.q = scenKeys()
	u.k0 = core.VGrindKey(1, 0, 0, false)
	u.foreign = core.VGrindKey(1, 0, 1, true).Addr // Qi address in zone 0-1
	mk := func(i byte, idx uint16, d uint8, owner *core.VKey, lock uint64) c01Seed {
		var h common.Hash
		h[0], h[31] = 0, i // origin byte 0 = zone 0-0 like a real tx hash prefix
		return c01Seed{h, idx, c01Out{d, owner.Addr.Bytes(), lock}}
	}
	u.seeds = []c01Seed{
		mk(1, 0, 6, u.q[0], 0),
		mk(2, 0, 6, u.q[0], 0),
		mk(3, 1, 4, u.q[0], height+2),
		mk(4, 0, 6, u.q[1], 0),
	}
	return u
}

// ---- templates ----------------------------------------------------------------------------------

type c01In struct {
	seed int // index into seeds, or -1 = output 0 of the previous transaction of this block, -2 = non-existent
	key  int // which q key's public key is put into the input
}

type c01Tmpl struct {
	Name string
	ins  []c01In
	outs []struct {
		d  uint8
		to string
	} // to: q0,q1,q2,foreign,k0
	conv     bool  // 22-byte data (slip + refund address) => Qi->Quai conversion of outputs paid to k0
	signers  []int // q keys that sign (MuSig2 if > 1); nil = unsigned
	badChain bool  // signature made for another chain id
	noCheck  bool  // sender-cache path: checkSig=false
}

func c01Templates() []c01Tmpl {
	o := func(d uint8, to string) struct {
		d  uint8
		to string
	} {
		return struct {
			d  uint8
			to string
		}{d, to}
	}
	type outs = []struct {
		d  uint8
		to string
	}
	return []c01Tmpl{
		{Name: "U1->q1", ins: []c01In{{0, 0}}, outs: outs{o(5, "q1")}, signers: []int{0}},
		{Name: "U1->q2", ins: []c01In{{0, 0}}, outs: outs{o(5, "q2")}, signers: []int{0}},
		{Name: "U2->q1", ins: []c01In{{1, 0}}, outs: outs{o(5, "q1")}, signers: []int{0}},
		{Name: "U1,U1->q1(same outpoint twice)", ins: []c01In{{0, 0}, {0, 0}}, outs: outs{o(6, "q1"), o(5, "q2")}, signers: []int{0, 0}},
		{Name: "U1,U4->q2(two owners)", ins: []c01In{{0, 0}, {3, 1}}, outs: outs{o(6, "q2"), o(5, "q2x")}, signers: []int{0, 1}},
		{Name: "U3 locked->q1", ins: []c01In{{2, 0}}, outs: outs{o(3, "q1")}, signers: []int{0}},
		{Name: "U4 with q0 key (not owner)", ins: []c01In{{3, 0}}, outs: outs{o(5, "q2")}, signers: []int{0}},
		{Name: "U4 by owner q1", ins: []c01In{{3, 1}}, outs: outs{o(5, "q2")}, signers: []int{1}},
		{Name: "missing->q1", ins: []c01In{{-2, 0}}, outs: outs{o(5, "q1")}, signers: []int{0}},
		{Name: "prev.out0 by q1->q2", ins: []c01In{{-1, 1}}, outs: outs{o(4, "q2")}, signers: []int{1}},
		{Name: "prev.out0 by q2->q1", ins: []c01In{{-1, 2}}, outs: outs{o(4, "q1")}, signers: []int{2}},
		{Name: "U1->q1 inflating", ins: []c01In{{0, 0}}, outs: outs{o(7, "q1")}, signers: []int{0}},
		{Name: "U1->q1+q2 sum>in", ins: []c01In{{0, 0}}, outs: outs{o(6, "q1"), o(0, "q2")}, signers: []int{0}},
		{Name: "U1->q1 wrong key sig", ins: []c01In{{0, 0}}, outs: outs{o(5, "q1")}, signers: []int{1}},
		{Name: "U1->q1 other chain id", ins: []c01In{{0, 0}}, outs: outs{o(5, "q1")}, signers: []int{0}, badChain: true},
		{Name: "U1->q1 unsigned via sender cache", ins: []c01In{{0, 0}}, outs: outs{o(5, "q1")}, signers: []int{0}, noCheck: true},
		{Name: "U2->foreign zone", ins: []c01In{{1, 0}}, outs: outs{o(5, "foreign")}, signers: []int{0}},
		{Name: "U2->convert to k0", ins: []c01In{{1, 0}}, outs: outs{o(5, "k0")}, conv: true, signers: []int{0}},
		{Name: "U2->q0 (address reuse)", ins: []c01In{{1, 0}}, outs: outs{o(5, "q0")}, signers: []int{0}},
	}
}

// ---- reference model ----------------------------------------------------------------------------

type c01Model struct {
	led map[string]c01Out // outpoint key -> entry
}

func opKey(h common.Hash, i uint16) string { return fmt.Sprintf("%x:%d", h, i) }

func (m *c01Model) clone() *c01Model {
	n := &c01Model{led: map[string]c01Out{}}
	for k, v := range m.led {
		n.led[k] = v
	}
	return n
}

// mustReject implements the safety half of the statement; "" = the model has no objection.
func (m *c01Model) mustReject(u *c01Uni, tx *types.Transaction, t *c01Tmpl, signedOK bool) string {
	seen := map[string]bool{}
	in := new(big.Int)
	for _, ti := range tx.TxIn() {
		k := opKey(ti.PreviousOutPoint.TxHash, ti.PreviousOutPoint.Index)
		if seen[k] {
			return "same-outpoint-twice-in-tx"
		}
		seen[k] = true
		e, ok := m.led[k]
		if !ok {
			return "missing-or-already-spent"
		}
		owner := crypto20(ti.PubKey)
		if string(owner) != string(e.owner) {
			return "not-the-owner"
		}
		if e.lock > u.height {
			return "locked"
		}
		in.Add(in, types.Denominations[e.denom])
	}
	out := new(big.Int)
	for _, to := range tx.TxOut() {
		if to.Denomination > types.MaxDenomination {
			return "bad-denomination"
		}
		out.Add(out, types.Denominations[to.Denomination])
	}
	if in.Cmp(out) < 0 {
		return "in<out"
	}
	if !t.noCheck && !signedOK {
		return "bad-authorisation"
	}
	return ""
}

func crypto20(pub []byte) []byte {
	return core.VPubToAddr(pub)
}

// ---- execution ----------------------------------------------------------------------------------

type c01Backend struct {
	name string
	db   ethdb.Database
}

func c01OpenBackends(dir string) ([]c01Backend, func(), error) {
	ldb, closeL, err := c06OpenEngine("leveldb", dir+"/l")
	if err != nil {
		return nil, nil, err
	}
	pdb, closeP, err := c06OpenEngine("pebble", dir+"/p")
	if err != nil {
		closeL()
		return nil, nil, err
	}
	lg := core.VNewLogger()
	mem := rawdb.NewDatabase(memorydb.New(lg))
	tbl := rawdb.NewTable(rawdb.NewDatabase(memorydb.New(lg)), "tbl-", common.Location{0, 0}, lg)
	return []c01Backend{{"leveldb", ldb}, {"pebble", pdb}, {"memorydb", mem}, {"table", tbl}}, func() { closeL(); closeP() }, nil
}

// build the concrete transactions of a sequence (signing once; all backends get the same objects)
func c01BuildSeq(u *c01Uni, chainID *big.Int, tmpls []c01Tmpl, seq []int) ([]*types.Transaction, []bool) {
	var txs []*types.Transaction
	var signedOK []bool
	var prev *types.Transaction
	addr := func(to string) common.Address {
		switch to {
		case "q0":
			return u.q[0].Addr
		case "q1":
			return u.q[1].Addr
		case "q2":
			return u.q[2].Addr
		case "q2x":
			return core.VGrindKey(7, 0, 0, true).Addr
		case "foreign":
			return u.foreign
		case "k0":
			return u.k0.Addr
		}
		panic("bad address name")
	}
	for _, ti := range seq {
		t := tmpls[ti]
		var ins []core.VQiIn
		for _, in := range t.ins {
			switch {
			case in.seed >= 0:
				s := u.seeds[in.seed]
				ins = append(ins, core.VQiIn{Hash: s.hash, Index: s.index, Key: u.q[in.key]})
			case in.seed == -1:
				h := common.Hash{0, 0xee}
				if prev != nil {
					h = prev.Hash()
				}
				ins = append(ins, core.VQiIn{Hash: h, Index: 0, Key: u.q[in.key]})
			default:
				ins = append(ins, core.VQiIn{Hash: common.Hash{0, 0xdd, 0xdd}, Index: 9, Key: u.q[in.key]})
			}
		}
		var outs []core.VQiOut
		for _, o := range t.outs {
			outs = append(outs, core.VQiOut{Denom: o.d, Addr: addr(o.to)})
		}
		var data []byte
		if t.conv {
			data = append([]byte{0x23, 0x28}, u.q[2].Addr.Bytes()...) // max slip 9000, refund to q2
		}
		var keys []*core.VKey
		for _, s := range t.signers {
			keys = append(keys, u.q[s])
		}
		cid := chainID
		if t.badChain {
			cid = new(big.Int).Add(chainID, big.NewInt(1))
		}
		tx := core.VQiTxMulti(cid, core.VZoneLoc, ins, outs, data, keys)
		if t.badChain {
			// keep the foreign-chain signature but present the tx under this chain's id
			tx = core.VQiRetag(tx, chainID)
		}
		// authorisation is good iff signed by exactly the keys placed in the inputs, for this chain
		ok := !t.badChain && len(t.signers) == len(t.ins)
		for i := range t.ins {
			if ok && t.signers[i] != t.ins[i].key {
				ok = false
			}
		}
		txs = append(txs, tx)
		signedOK = append(signedOK, ok)
		prev = tx
	}
	return txs, signedOK
}

type c01Result struct {
	verdicts []string
	viol     [][2]string
}

// c01RunSeq executes one sequence on one backend (fresh namespace = fresh seeded DB content).
func c01RunSeq(env *core.VQiEnv, u *c01Uni, b c01Backend, tmpls []c01Tmpl, seq []int, txs []*types.Transaction, signedOK []bool) c01Result {
	var res c01Result
	// reset the backend to the seed ledger
	it := b.db.NewIterator(rawdb.UtxoPrefix, nil)
	var stale [][]byte
	for it.Next() {
		stale = append(stale, common.CopyBytes(it.Key()))
	}
	it.Release()
	for _, k := range stale {
		b.db.Delete(k)
	}
	model := &c01Model{led: map[string]c01Out{}}
	for _, s := range u.seeds {
		e := types.NewUtxoEntry(&types.TxOut{Denomination: s.denom, Address: s.owner, Lock: new(big.Int).SetUint64(s.lock)})
		rawdb.CreateUTXO(b.db, s.hash, s.index, e)
		model.led[opKey(s.hash, s.index)] = s.c01Out
	}
	batch := b.db.NewBatch()
	batch.SetPending(true)
	gp := new(types.GasPool).AddGas(env.Header.GasLimit())
	var usedGas uint64
	etxR, etxP := uint64(1<<40), uint64(1<<40)
	ucd := new(core.UtxosCreatedDeleted)
	added, removed := new(big.Int), new(big.Int)
	for i, tx := range txs {
		t := &tmpls[seq[i]]
		want := model.mustReject(u, tx, t, signedOK[i])
		a0, r0 := new(big.Int).Set(added), new(big.Int).Set(removed)
		created0 := len(ucd.UtxosCreatedKeys)
		var fee *big.Int
		var etxs []*types.ExternalTx
		var err error
		perr := vx.Guard(func() {
			fee, etxs, err = core.VProcessQi(env, tx, !t.noCheck, i == 0, batch, b.db, gp, &usedGas, &etxR, &etxP, ucd, added, removed, false)
		})
		if perr != "" {
			res.viol = append(res.viol, [2]string{"panic:" + vx.PanicSite(perr), fmt.Sprintf("[%s] tx %d (%s): ProcessQiTx panicked: %s", b.name, i, t.Name, perr)})
			res.verdicts = append(res.verdicts, "panic")
			break
		}
		if err != nil {
			res.verdicts = append(res.verdicts, "reject["+want+"|"+c01ErrClass(err)+"]")
			// a refused transaction ends the block (Process returns the error): stop the sequence
			break
		}
		res.verdicts = append(res.verdicts, "accept")
		if want != "" {
			res.viol = append(res.viol, [2]string{"accepted-although:" + want + ":" + b.name, fmt.Sprintf("[%s] tx %d (%s) of sequence %v was accepted although the ledger rules demand refusal: %s", b.name, i, t.Name, c01Names(tmpls, seq), want)})
		}
		// conservation
		in, local, away := new(big.Int), new(big.Int), new(big.Int)
		for _, ti := range tx.TxIn() {
			if e, ok := model.led[opKey(ti.PreviousOutPoint.TxHash, ti.PreviousOutPoint.Index)]; ok {
				in.Add(in, types.Denominations[e.denom])
				delete(model.led, opKey(ti.PreviousOutPoint.TxHash, ti.PreviousOutPoint.Index))
			}
		}
		for _, k := range ucd.UtxosCreatedKeys[created0:] {
			h, idx, _ := rawdb.ReverseUtxoKey(k[:rawdb.UtxoKeyLength])
			d := k[len(k)-1]
			local.Add(local, types.Denominations[d])
			to := tx.TxOut()[idx]
			model.led[opKey(h, idx)] = c01Out{d, to.Address, 0}
		}
		for _, e := range etxs {
			if e.EtxType == uint64(types.ConversionType) || e.EtxType == uint64(types.WrappingQiType) {
				away.Add(away, e.Value)
			} else {
				away.Add(away, types.Denominations[uint8(e.Value.Uint64())])
			}
		}
		sum := new(big.Int).Add(new(big.Int).Add(local, away), fee)
		if want == "" && in.Cmp(sum) != 0 {
			res.viol = append(res.viol, [2]string{"conservation:" + b.name, fmt.Sprintf("[%s] tx %d (%s): consumed %v != local outputs %v + sent away %v + fee %v", b.name, i, t.Name, in, local, away, fee)})
		}
		if want == "" {
			if da := new(big.Int).Sub(added, a0); da.Cmp(local) != 0 {
				res.viol = append(res.viol, [2]string{"supply-added:" + b.name, fmt.Sprintf("[%s] tx %d (%s): supplyAddedQi grew by %v but %v was created locally", b.name, i, t.Name, da, local)})
			}
			if dr := new(big.Int).Sub(removed, r0); dr.Cmp(in) != 0 {
				res.viol = append(res.viol, [2]string{"supply-removed:" + b.name, fmt.Sprintf("[%s] tx %d (%s): supplyRemovedQi grew by %v but %v was consumed", b.name, i, t.Name, dr, in)})
			}
		}
	}
	allAccepted := len(res.verdicts) == len(txs)
	for _, v := range res.verdicts {
		if v != "accept" {
			allAccepted = false
		}
	}
	if allAccepted && len(res.viol) == 0 {
		if err := batch.Write(); err != nil {
			res.viol = append(res.viol, [2]string{"batch-write:" + b.name, err.Error()})
			return res
		}
		// DB scan == model ledger
		got := map[string]string{}
		us, err := core.VScanUtxos(b.db)
		if err != nil {
			res.viol = append(res.viol, [2]string{"scan:" + b.name, err.Error()})
			return res
		}
		for _, x := range us {
			got[opKey(x.Hash, x.Index)] = fmt.Sprintf("%d/%x", x.Entry.Denomination, x.Entry.Address)
		}
		want := map[string]string{}
		for k, v := range model.led {
			want[k] = fmt.Sprintf("%d/%x", v.denom, v.owner)
		}
		if d := c01MapDiff(got, want); d != "" {
			res.viol = append(res.viol, [2]string{"ledger-after-write:" + b.name, fmt.Sprintf("[%s] after batch.Write of %v the UTXO records differ from the reference ledger: %s", b.name, c01Names(tmpls, seq), d)})
		}
	} else {
		batch.Reset()
	}
	return res
}

// c01ErrClass strips hashes/numbers from an error so that it names the rule that fired.
func c01ErrClass(err error) string {
	var out []string
	for _, w := range strings.Fields(err.Error()) {
		if strings.ContainsAny(w, "0123456789") {
			continue
		}
		out = append(out, w)
		if len(out) == 6 {
			break
		}
	}
	return strings.Join(out, "-")
}

func c01MapDiff(got, want map[string]string) string {
	var d []string
	for k, v := range want {
		if got[k] != v {
			d = append(d, fmt.Sprintf("want %s=%s got %q", k[:12]+k[len(k)-3:], v, got[k]))
		}
	}
	for k, v := range got {
		if _, ok := want[k]; !ok {
			d = append(d, fmt.Sprintf("unexpected %s=%s", k[:12]+k[len(k)-3:], v))
		}
	}
	sort.Strings(d)
	if len(d) > 4 {
		d = d[:4]
	}
	return strings.Join(d, "; ")
}

func c01Names(tmpls []c01Tmpl, seq []int) []string {
	var n []string
	for _, i := range seq {
		n = append(n, tmpls[i].Name)
	}
	return n
}

func c01Seqs(n, maxLen int) [][]int {
	var out [][]int
	var rec func(cur []int)
	rec = func(cur []int) {
		if len(cur) > 0 {
			out = append(out, append([]int{}, cur...))
		}
		if len(cur) == maxLen {
			return
		}
		for i := 0; i < n; i++ {
			rec(append(cur, i))
		}
	}
	rec(nil)
	return out
}

// c01Env builds the block context: a zone-only real node whose pending block is the "current header".
func c01Env() (*core.VQiEnv, *scen, error) {
	s, err := newScen(1, false, nil)
	if err != nil {
		return nil, nil, err
	}
	if err := s.runWord("zz"); err != nil {
		return nil, nil, err
	}
	hdr, err := s.n.Build(core.VBuildOpts{Order: 2})
	if err != nil {
		return nil, nil, err
	}
	return &core.VQiEnv{Chain: s.n.Zone().HeaderChain(), Header: hdr, Signer: s.n.Signer(), Loc: core.VZoneLoc, Scale: 1}, s, nil
}

func runC01(c *vx.Ctx) {
	core.VScaleParams(core.VR1)
	c.Rule = "all sequences of <=L transaction templates (19 adversarial templates over a 4-output seed ledger) as the Qi transactions of one block, on leveldb, pebble, memorydb and the table wrapper, against a map reference ledger; outcome class = verdict vector x model objection"
	c.Assume("scaled protocol constants: " + fmt.Sprint(core.VScaled))
	c.Assume("block context (base fee, exchange rate, prime terminus, eligibility) comes from a real zone node at height 3; fork regime R1")
	maxLen := 2
	if c.Thorough() {
		maxLen = 4
	}
	if c.Wants("sequences") {
		p := c.Part("sequences")
		env, s, err := c01Env()
		if err != nil {
			c.HarnessError("env: " + err.Error())
			return
		}
		defer s.close()
		u := c01Universe(env.Header.NumberU64(2))
		tmpls := c01Templates()
		p.Bound("templates", len(tmpls))
		p.Bound("sequence_length", maxLen)
		dir, err := os.MkdirTemp("/dev/shm", "vq-c01-")
		if err != nil {
			c.HarnessError(err.Error())
			return
		}
		defer os.RemoveAll(dir)
		backs, closeAll, err := c01OpenBackends(dir)
		if err != nil {
			c.HarnessError(err.Error())
			return
		}
		defer closeAll()
		var names []string
		for _, b := range backs {
			names = append(names, b.name)
		}
		p.Bound("backends", names)
		seqs := c01Seqs(len(tmpls), maxLen)
		for i, seq := range seqs {
			if !c.Mine(int64(i)) {
				continue
			}
			if c.Expired() {
				p.Incomplete("deadline")
				break
			}
			viol, cls := c01RunAll(env, u, backs, tmpls, seq, p)
			p.Outcome(cls)
			for _, v := range viol {
				v := v
				seq := seq
				if c.Confirm(v[1], func() string {
					vs, _ := c01RunAll(env, u, backs, tmpls, seq, nil)
					for _, x := range vs {
						if x[0] == v[0] {
							return x[0]
						}
					}
					return ""
				}) {
					c.Violate("sequences", v[0], v[1], map[string]any{"sequence": seq, "names": c01Names(tmpls, seq)})
				}
			}
			if len(viol) == 0 && i%97 == 0 {
				p.Sample(map[string]any{"sequence": c01Names(tmpls, seq), "class": cls})
			}
		}
		if c.Shard == 0 {
			p.States = int64(len(seqs))
		}
	}
	if c.Wants("worker") {
		c01Worker(c)
	}
}

// c01Worker: conflicting and dependent Qi spends offered to the node's own mempool; the block the
// worker assembles must be accepted by the node, never name an outpoint twice, and leave
// commitments that describe the stored ledger.
func c01Worker(c *vx.Ctx) {
	p := c.Part("worker")
	ps, err := c10BuildPrefix()
	if err != nil {
		c.HarnessError("prefix: " + err.Error())
		return
	}
	prefix := ps.blocks
	ps.close()
	// mempool alphabet: the block contents of C10 plus a transaction naming one outpoint twice
	nOps := len(c10Ops) + 1
	var pairs [][]int
	for a := 0; a < nOps; a++ {
		pairs = append(pairs, []int{a})
		for b := 0; b < nOps; b++ {
			pairs = append(pairs, []int{a, b})
		}
	}
	p.Bound("mempool_ops", append(append([]string{}, c10Ops...), "S6twice(same outpoint twice, MuSig2 of the owner key twice)"))
	for i, ops := range pairs {
		if !c.Mine(int64(i)) {
			continue
		}
		if c.Expired() {
			p.Incomplete("deadline")
			return
		}
		key, desc, cls := c01WorkerCase(prefix, ops)
		if key == "harness" {
			c.HarnessError(desc)
			return
		}
		p.Transitions++
		p.Traces++
		p.Outcome(cls)
		if key != "" {
			ops := ops
			if c.Confirm(desc, func() string { k, _, _ := c01WorkerCase(prefix, ops); return k }) {
				c.Violate("worker", key, desc, map[string]any{"mempool": c01Names2(ops)})
			}
		} else if i%7 == 0 {
			p.Sample(map[string]any{"mempool": c01Names2(ops), "result": cls})
		}
	}
	if c.Shard == 0 {
		p.States = int64(len(pairs))
	}
}

// c01OfferTwice offers the pool a transaction whose two inputs are the same outpoint (value counted
// twice), authorised by the MuSig2 aggregate of the owner's key taken twice.
func c01OfferTwice(s *scen) bool {
	utxos, _ := core.VScanUtxos(s.n.DB[2])
	for _, u := range utxos {
		if string(u.Entry.Address) != string(s.q[0].Addr.Bytes()) || u.Entry.Denomination != 6 {
			continue
		}
		in := core.VQiIn{Hash: u.Hash, Index: u.Index, Key: s.q[0]}
		var tx *types.Transaction
		if perr := vx.Guard(func() {
			tx = core.VQiTxMulti(s.n.ChainID(), core.VZoneLoc, []core.VQiIn{in, in},
				[]core.VQiOut{{Denom: 6, Addr: s.q[1].Addr}, {Denom: 5, Addr: s.q[2].Addr}}, nil, []*core.VKey{s.q[0], s.q[0]})
		}); perr != "" || tx == nil {
			return false
		}
		errs := s.n.AddTxs(tx)
		return errs[0] == nil
	}
	return false
}

func c01Names2(ops []int) []string {
	var n []string
	for _, o := range ops {
		if o == len(c10Ops) {
			n = append(n, "S6twice")
		} else {
			n = append(n, c10Ops[o])
		}
	}
	return n
}

func c01WorkerCase(prefix []*types.WorkObject, ops []int) (string, string, string) {
	s, err := c10Replicate(prefix)
	if err != nil {
		return "harness", err.Error(), ""
	}
	defer s.close()
	admitted := 0
	for _, op := range ops {
		if op == len(c10Ops) {
			if c01OfferTwice(s) {
				admitted++
			}
			continue
		}
		// (the foreign-miner parts of CH / DUP are dropped: this part is about the node's OWN worker)
		if ok, _ := c10ApplyOp(s, op); ok && c10Ops[op] != "empty" && c10Ops[op] != "DUP" {
			admitted++
		}
		s.extra = nil
	}
	blk, err := s.n.Build(core.VBuildOpts{Order: 2, Fill: true})
	if err != nil {
		return "harness", "build: " + err.Error(), ""
	}
	seen := map[string]bool{}
	qi := 0
	for _, tx := range blk.Transactions() {
		if tx.Type() != types.QiTxType {
			continue
		}
		qi++
		for _, in := range tx.TxIn() {
			k := opKey(in.PreviousOutPoint.TxHash, in.PreviousOutPoint.Index)
			if seen[k] {
				return "worker:outpoint-twice-in-own-block", fmt.Sprintf("mempool %v: the worker's block names outpoint %s twice", c01Names2(ops), k[:16]), ""
			}
			seen[k] = true
		}
	}
	cls := fmt.Sprintf("admitted=%d,qi-in-block=%d", admitted, qi)
	if r := s.n.Append(blk); r.Err() != nil {
		return "worker:own-block-rejected", fmt.Sprintf("mempool %v: the node rejects the block its worker assembled: %v", c01Names2(ops), r.Err()), cls
	}
	if err := s.n.VCheckCommitments(blk); err != nil {
		if len(s.n.VSpentAndTrimmed(blk)) > 0 {
			return "", "", cls + ",C06-known-spend-at-trim-height" // reported by C06
		}
		return "worker:commitment:" + strings.SplitN(err.Error(), ":", 2)[0], fmt.Sprintf("mempool %v: %v", c01Names2(ops), err), cls
	}
	return "", "", cls
}

func c01RunAll(env *core.VQiEnv, u *c01Uni, backs []c01Backend, tmpls []c01Tmpl, seq []int, p *vx.Part) ([][2]string, string) {
	txs, ok := c01BuildSeq(u, env.Chain.Config().ChainID, tmpls, seq)
	var viol [][2]string
	var first []string
	for bi, b := range backs {
		r := c01RunSeq(env, u, b, tmpls, seq, txs, ok)
		if p != nil {
			p.Transitions += int64(len(r.verdicts))
			p.Traces += int64(len(r.verdicts))
		}
		viol = append(viol, r.viol...)
		if bi == 0 {
			first = r.verdicts
		} else if strings.Join(first, ",") != strings.Join(r.verdicts, ",") {
			viol = append(viol, [2]string{"backend-verdict:" + b.name, fmt.Sprintf("sequence %v: verdicts on %s are %v but on %s %v", c01Names(tmpls, seq), backs[0].name, first, b.name, r.verdicts)})
		}
	}
	return viol, strings.Join(first, ",")
}

func replayC01(c *vx.Ctx, v vx.Violation) string {
	core.VScaleParams(core.VR1)
	raw, _ := jsonMarshal(v.Replay)
	var cs struct {
		Sequence []int `json:"sequence"`
	}
	if err := jsonUnmarshal(raw, &cs); err != nil {
		return "bad replay: " + err.Error()
	}
	env, s, err := c01Env()
	if err != nil {
		return "harness: " + err.Error()
	}
	defer s.close()
	u := c01Universe(env.Header.NumberU64(2))
	dir, _ := os.MkdirTemp("/dev/shm", "vq-c01-")
	defer os.RemoveAll(dir)
	backs, closeAll, err := c01OpenBackends(dir)
	if err != nil {
		return "harness: " + err.Error()
	}
	defer closeAll()
	vs, _ := c01RunAll(env, u, backs, c01Templates(), cs.Sequence, nil)
	for _, x := range vs {
		if x[0] == v.Key {
			return x[1]
		}
	}
	return ""
}
