package main

// C12 parts "frames" and "tx": failed / reverted frames of the real EVM.
//
// World: a committed base state on a memory database (sender, EOAs, the target contract T whose
// code is the program under test, helper contracts, one wrapper contract per call kind, the lockup
// contract account with wrapped-Qi balances, coinbase-lockup records on disk) + a fresh StateDB,
// a block batch with pending tracking (as the block processor uses) and a vm.EVM.
//
// Every case is executed twice on independent worlds:
//   framed    : [S1] ; failing frame ; [S2]
//   reference : [S1] ;               ; [S2]      (+ creator nonce bump for CREATE kinds)
// and the complete dumps (accounts, storage, size counters, suicide marks, logs, refund, access
// list, transient storage, ETX cache, deleted-lockup lists, lockup ledger as visible through the
// batch, IntermediateRoot, Quai state size) must be equal.

import (
	"encoding/hex"
	"fmt"
	"io"
	"math/big"
	"os"
	"sort"
	"strings"
	"sync"
	"time"

	"github.com/dominant-strategies/go-quai/common"
	"github.com/dominant-strategies/go-quai/core"
	"github.com/dominant-strategies/go-quai/core/rawdb"
	"github.com/dominant-strategies/go-quai/core/state"
	"github.com/dominant-strategies/go-quai/core/types"
	"github.com/dominant-strategies/go-quai/core/vm"
	"github.com/dominant-strategies/go-quai/crypto"
	"github.com/dominant-strategies/go-quai/ethdb"
	"github.com/dominant-strategies/go-quai/log"
	"github.com/dominant-strategies/go-quai/params"
	"github.com/dominant-strategies/go-quai/verifshim/vx"
	"github.com/holiman/uint256"
	"github.com/sirupsen/logrus"
)

const (
	c12fBlock   = 3_500_000 // >= every fork height the EVM looks at (incl. MaxCodeSizeForkHeight: PUSH0/TLOAD/TSTORE/MCOPY active)
	c12fBigGas  = uint64(10_000_000_000)
	c12fDeepGas = uint64(10_000_000_000_000_000)
)

var (
	c12fOnce sync.Once
	c12fBk   *c12Book
	c12fCfg  *params.ChainConfig
	c12fLg   *logrus.Logger
	c12fHelp map[common.Address][]byte
)

func c12fInit() {
	c12fOnce.Do(func() {
		log.Global.SetOutput(io.Discard) // the precompile logs through log.Global (file under cwd otherwise)
		log.Global.ExitFunc = func(int) { panic("log.Global.Fatal called") }
		c12fLg = c12Logger()
		vm.InitializePrecompiles(c12Loc)
		c12fBk = c12NewBook(vm.LockupContractAddresses[[2]byte{0, 0}])
		cfg := *params.TestChainConfig
		cfg.Location = common.Location{0, 0}
		c12fCfg = &cfg
		c12fHelp = c12HelperCodes(c12fBk)
	})
}

// contexts in which fragments can execute (owners of lockups / wrapped Qi)
func c12fOwners() []common.Address {
	return []common.Address{c12fBk.T, c12fBk.Wcallcode, c12fBk.Wdelegate}
}

func c12fOwnerKey(owner common.Address) common.Hash {
	ia := c12IAof(owner)
	return common.BytesToHash(ia[:])
}
func c12fWrappedKey(owner, quaiOwner common.Address) common.Hash {
	var k common.Hash
	o, q := c12IAof(owner), c12IAof(quaiOwner)
	copy(k[:16], o[:16])
	copy(k[16:], q[:16])
	return k
}

type c12fBase struct {
	disk       ethdb.Database
	sdb, etxdb state.Database
	root       common.Hash
	size       *big.Int
	id         string
}

// One disk database / trie database per process: trie nodes and code are content addressed, the
// lockup records are identical for every base and the block batch is never written, so bases
// (= state roots) can share it. common0 is the root of everything except T's code.
var (
	c12fDisk            ethdb.Database
	c12fSdb, c12fEtxdb  state.Database
	c12fCommonRoot      common.Hash
	c12fCommonSize      *big.Int
	c12fCommonBuildOnce sync.Once
)

func c12fBuildCommon() {
	bk := c12fBk
	c12fDisk = rawdb.NewMemoryDatabase(c12fLg)
	c12fSdb, c12fEtxdb = state.NewDatabase(c12fDisk), state.NewDatabase(rawdb.NewMemoryDatabase(c12fLg))
	s, err := state.New(common.Hash{}, common.Hash{}, new(big.Int), c12fSdb, c12fEtxdb, nil, c12Loc, c12fLg)
	if err != nil {
		panic("c12: " + err.Error())
	}
	one := common.BigToHash(big.NewInt(1))
	s.AddBalance(c12IAof(bk.S), new(big.Int).Exp(big.NewInt(10), big.NewInt(30), nil))
	s.AddBalance(c12IAof(bk.E), big.NewInt(10))
	rich := new(big.Int).Exp(big.NewInt(10), big.NewInt(21), nil) // > MinQuaiConversionAmount (1e19)
	contract := func(a common.Address, code []byte, bal int64, withStorage bool) {
		ia := c12IAof(a)
		s.SetCode(ia, code)
		s.SetNonce(ia, 1)
		if bal == 1_000_000_000 {
			s.AddBalance(ia, rich)
		} else if bal > 0 {
			s.AddBalance(ia, big.NewInt(bal))
		}
		if withStorage {
			s.SetState(ia, c12aKeys[0], one)
		}
	}
	contract(bk.T, []byte{c12STOP}, 1_000_000_000, true)
	contract(bk.J, c12fHelp[bk.J], 0, false)
	contract(bk.K, c12fHelp[bk.K], 5, true)
	contract(bk.V, c12fHelp[bk.V], 0, false)
	for _, w := range []common.Address{bk.Wcall, bk.Wcallcode, bk.Wdelegate, bk.Wstatic, bk.Wcreate, bk.Wcreate2} {
		contract(w, c12fHelp[w], 1_000_000_000, true)
	}
	contract(bk.Multi, c12fHelp[bk.Multi], 0, false)
	lk := c12IAof(bk.LK)
	s.SetNonce(lk, 1)
	for _, o := range c12fOwners() {
		s.SetState(lk, c12fOwnerKey(o), common.BigToHash(big.NewInt(100)))
		s.SetState(lk, c12fWrappedKey(o, bk.E), common.BigToHash(big.NewInt(50)))
	}
	root, err := s.Commit(true)
	if err != nil || s.Error() != nil {
		panic(fmt.Sprintf("c12: cannot commit common base: %v %v", err, s.Error()))
	}
	c12fCommonRoot, c12fCommonSize = root, new(big.Int).Set(s.GetQuaiTrieSize())
	for _, o := range c12fOwners() {
		if _, err := rawdb.WriteCoinbaseLockup(c12fDisk, o, bk.M, 1, 1, big.NewInt(500), 5, 1, common.Zero); err != nil {
			panic("c12: " + err.Error())
		}
	}
}

func c12fNewBase(codeT []byte) (*c12fBase, error) {
	c12fInit()
	c12fCommonBuildOnce.Do(c12fBuildCommon)
	b := &c12fBase{disk: c12fDisk, sdb: c12fSdb, etxdb: c12fEtxdb, id: string(codeT)}
	s, err := state.New(c12fCommonRoot, common.Hash{}, new(big.Int).Set(c12fCommonSize), b.sdb, b.etxdb, nil, c12Loc, c12fLg)
	if err != nil {
		return nil, err
	}
	s.SetCode(c12IAof(c12fBk.T), codeT)
	root, err := s.Commit(true)
	if err != nil {
		return nil, err
	}
	if s.Error() != nil {
		return nil, s.Error()
	}
	b.root, b.size = root, new(big.Int).Set(s.GetQuaiTrieSize())
	if s.GetSize(c12IAof(c12fBk.K)).Sign() == 0 || s.GetSize(c12IAof(c12fBk.T)).Sign() == 0 {
		return nil, fmt.Errorf("base state: storage-size counters of T/K are zero")
	}
	return b, nil
}

var (
	c12fBaseMu    sync.Mutex
	c12fBaseCache = map[string]*c12fBase{}
	c12fRefCache  = map[string][]string{}
)

func c12fBaseFor(codeT []byte) *c12fBase {
	k := string(codeT)
	c12fBaseMu.Lock()
	defer c12fBaseMu.Unlock()
	if b, ok := c12fBaseCache[k]; ok {
		return b
	}
	if len(c12fBaseCache) > 4096 {
		c12fBaseCache = map[string]*c12fBase{}
	}
	b, err := c12fNewBase(codeT)
	if err != nil {
		panic("c12: cannot build base state: " + err.Error())
	}
	c12fBaseCache[k] = b
	return b
}

type c12fWorld struct {
	b     *c12fBase
	s     *state.StateDB
	evm   *vm.EVM
	batch ethdb.Batch
	watch []common.Address // extra accounts to dump (addresses a CREATE would use)
}

var c12fTxHash = common.BigToHash(big.NewInt(0xc12))

func c12fBlockCtx(size *big.Int) vm.BlockContext {
	return vm.BlockContext{
		CanTransfer: core.CanTransfer, Transfer: core.Transfer,
		GetHash:             func(uint64) common.Hash { return common.Hash{} },
		CheckIfEtxEligible:  func(common.Hash, common.Location) bool { return true },
		PrimaryCoinbase:     c12fBk.M,
		GasLimit:            1_000_000_000,
		BlockNumber:         big.NewInt(c12fBlock),
		Time:                big.NewInt(1),
		Difficulty:          big.NewInt(1),
		BaseFee:             big.NewInt(1),
		QuaiStateSize:       new(big.Int).Set(size),
		PrimeTerminusNumber: c12fBlock,
	}
}

func (b *c12fBase) accessList(extra []common.Address) types.AccessList {
	bk := c12fBk
	var al types.AccessList
	for _, a := range append([]common.Address{bk.E, bk.N, bk.X, bk.T, bk.J, bk.K, bk.V, bk.Wcall, bk.Wcallcode, bk.Wdelegate, bk.Wstatic, bk.Wcreate, bk.Wcreate2, bk.Multi, bk.LK}, extra...) {
		al = append(al, types.AccessTuple{Address: a})
	}
	return al
}

func (b *c12fBase) world(extra []common.Address, tracer vm.Tracer, prepare bool) *c12fWorld {
	s, err := state.New(b.root, common.Hash{}, new(big.Int).Set(b.size), b.sdb, b.etxdb, nil, c12Loc, c12fLg)
	if err != nil {
		panic("c12: cannot reopen frame base: " + err.Error())
	}
	batch := b.disk.NewBatch()
	batch.SetPending(true)
	al := b.accessList(extra)
	cfg := vm.Config{}
	if tracer != nil {
		cfg = vm.Config{Debug: true, Tracer: tracer}
	}
	w := &c12fWorld{b: b, s: s, batch: batch, watch: extra}
	w.evm = vm.NewEVM(c12fBlockCtx(b.size), vm.TxContext{Origin: c12fBk.S, GasPrice: big.NewInt(1), Hash: c12fTxHash, AccessList: al}, s, c12fCfg, cfg, batch)
	if prepare { // what TransitionDb does before the first frame of a transaction
		s.Prepare(c12fTxHash, 0)
		t := c12fBk.T
		s.PrepareAccessList(c12fBk.S, &t, vm.ActivePrecompiles(c12fCfg.Rules(big.NewInt(c12fBlock)), c12Loc), al, false)
	}
	return w
}

// ---- dump ----
func (w *c12fWorld) dump() []string {
	s, bk := w.s, c12fBk
	var out []string
	add := func(k, f string, a ...any) { out = append(out, k+"="+fmt.Sprintf(f, a...)) }
	type acct struct {
		n string
		a common.Address
	}
	accts := []acct{{"S", bk.S}, {"E", bk.E}, {"N", bk.N}, {"T", bk.T}, {"J", bk.J}, {"K", bk.K}, {"V", bk.V}, {"Wcall", bk.Wcall},
		{"Wcallcode", bk.Wcallcode}, {"Wdelegate", bk.Wdelegate}, {"Wstatic", bk.Wstatic}, {"Wcreate", bk.Wcreate}, {"Wcreate2", bk.Wcreate2},
		{"Multi", bk.Multi}, {"LK", bk.LK}}
	for i, a := range w.watch {
		accts = append(accts, acct{fmt.Sprintf("new%d", i), a})
	}
	var lkKeys []common.Hash
	for _, o := range c12fOwners() {
		lkKeys = append(lkKeys, c12fOwnerKey(o), c12fWrappedKey(o, bk.E))
	}
	getters := func(tag string) {
		for _, ac := range accts {
			a, n := c12IAof(ac.a), ac.n
			add(tag+"exist("+n+")", "%v/empty=%v", s.Exist(a), s.Empty(a))
			add(tag+"balance("+n+")", "%v", s.GetBalance(a))
			add(tag+"nonce("+n+")", "%d", s.GetNonce(a))
			add(tag+"code("+n+")", "%x/%d", s.GetCodeHash(a).Bytes()[:4], s.GetCodeSize(a))
			add(tag+"size("+n+")", "%v", s.GetSize(a))
			add(tag+"suicided("+n+")", "%v", s.HasSuicided(a))
			keys := c12aKeys
			if n == "LK" {
				keys = lkKeys
			}
			for ki, k := range keys {
				add(fmt.Sprintf("%sstorage(%s,k%d)", tag, n, ki+1), "%x/committed=%x", s.GetState(a, k).Bytes()[24:], s.GetCommittedState(a, k).Bytes()[24:])
			}
			root, sui, del, ok := state.VerifC12Object(s, a)
			add(tag+"object("+n+")", "%v/%x/s=%v/d=%v", ok, root[:4], sui, del)
		}
		add(tag+"refund", "%d", s.GetRefund())
		add(tag+"logs", "%s/next=%d", state.VerifC12Logs(s), state.VerifC12LogSize(s))
		add(tag+"accesslist", "%x", crypto.Keccak256([]byte(state.VerifC12AccessList(s)))[:6])
		add(tag+"transient", "%s", state.VerifC12Transient(s))
	}
	getters("live.")
	// EVM side lists
	var etxs []string
	for i, e := range w.evm.ETXCache {
		etxs = append(etxs, fmt.Sprintf("%d:{type=%d to=%x val=%v from=%x gas=%d idx=%d}", i, e.EtxType(), e.To().Bytes(), e.Value(), e.ETXSender().Bytes(), e.Gas(), e.ETXIndex()))
	}
	add("etxcache", "%s", strings.Join(etxs, ""))
	var dh []string
	for _, h := range w.evm.CoinbaseDeletedHashes {
		dh = append(dh, fmt.Sprintf("%x", h[:4]))
	}
	add("lockup-deleted-hashes", "%v", dh)
	var dm []string
	for k, v := range w.evm.CoinbasesDeleted {
		dm = append(dm, fmt.Sprintf("%x=%x", k[:], v))
	}
	sort.Strings(dm)
	add("lockup-deleted-map", "%v", dm)
	// the coinbase-lockup ledger as the rest of the block sees it: through the block batch
	for i, o := range c12fOwners() {
		bal, unlock, elems, _ := rawdb.ReadCoinbaseLockup(s.UnderlyingDatabase(), w.batch, o, bk.M, 1, 1)
		add(fmt.Sprintf("lockup-ledger(owner%d)", i), "balance=%v unlock=%d elements=%d", bal, unlock, elems)
	}
	var rootStr string
	if perr := vx.Guard(func() { rootStr = fmt.Sprintf("%x", s.IntermediateRoot(true)) }); perr != "" {
		rootStr = "PANIC@" + vx.PanicSite(perr) + " " + strings.SplitN(perr, "\n", 2)[0]
	}
	add("root", "%s", rootStr)
	add("quaisize", "%v", s.GetQuaiTrieSize())
	// (no second getter pass here: the root covers the committed content, the live pass the caches)
	return out
}

// ---- tracer used to find the out-of-gas cut points ----
type c12Step struct {
	depth     int
	gas, cost uint64
}
type c12Tracer struct{ steps []c12Step }

func (t *c12Tracer) CaptureStart(*vm.EVM, common.Address, common.Address, bool, []byte, uint64, *big.Int) {
}
func (t *c12Tracer) CaptureState(env *vm.EVM, pc uint64, op vm.OpCode, gas, cost uint64, scope *vm.ScopeContext, rData []byte, depth int, err error, loc common.Location) {
	t.steps = append(t.steps, c12Step{depth, gas, cost})
}
func (t *c12Tracer) CaptureFault(*vm.EVM, uint64, vm.OpCode, uint64, uint64, *vm.ScopeContext, int, error) {
}
func (t *c12Tracer) CaptureEnd([]byte, uint64, time.Duration, error) {}

// ---- cases ----
type c12fCase struct {
	Kind  string   `json:"kind"` // "frame" | "tx"
	Call  string   `json:"call"` // call wcall wcallcode wdelegate wstatic parentrevert create wcreate wcreate2 wcreate2-collide depth multi | tx kinds
	Frags []string `json:"frags"`
	Term  string   `json:"term"`
	Gas   uint64   `json:"gas,omitempty"` // gas given to the failing frame (0 = plenty)
	S1    string   `json:"s1,omitempty"`
	S2    string   `json:"s2,omitempty"`
}

func (cs c12fCase) String() string {
	g := "plenty"
	if cs.Gas != 0 {
		g = fmt.Sprint(cs.Gas)
	}
	s := fmt.Sprintf("%s{%s;%s gas=%s}", cs.Call, strings.Join(cs.Frags, ";"), cs.Term, g)
	if cs.S1 != "" || cs.S2 != "" {
		s = fmt.Sprintf("S1=%s ; %s ; S2=%s", cs.S1, s, cs.S2)
	}
	return s
}

func c12IsCreate(call string) bool { return strings.Contains(call, "create") }

func c12Word(v uint64) []byte { return common.BigToHash(new(big.Int).SetUint64(v)).Bytes() }

// createAddr mirrors EVM.Create's address derivation (incl. grinding) so that the address can be put
// into the access list beforehand, as a transaction author has to.
var (
	c12fAddrMu    sync.Mutex
	c12fAddrCache = map[string]common.Address{}
	c12fSaltCache = map[string]uint64{}
)

func c12fCreateAddr(creator common.Address, nonce uint64, init []byte) common.Address {
	ck := fmt.Sprintf("%x/%d/%x", creator.Bytes(), nonce, crypto.Keccak256(init))
	c12fAddrMu.Lock()
	if a, ok := c12fAddrCache[ck]; ok {
		c12fAddrMu.Unlock()
		return a
	}
	c12fAddrMu.Unlock()
	a := c12fCreateAddrSlow(creator, nonce, init)
	c12fAddrMu.Lock()
	if len(c12fAddrCache) > 100000 {
		c12fAddrCache = map[string]common.Address{}
	}
	c12fAddrCache[ck] = a
	c12fAddrMu.Unlock()
	return a
}

func c12fCreateAddrSlow(creator common.Address, nonce uint64, init []byte) common.Address {
	a := crypto.CreateAddress(creator, nonce, init, c12Loc)
	if _, err := a.InternalAndQuaiAddress(); err == nil {
		return a
	}
	words := int64((len(init) + 31) / 32)
	g, _, err := vm.GrindContract(creator, nonce, c12fDeepGas, int64(params.Sha3Gas)+words*int64(params.Sha3WordGas), crypto.Keccak256Hash(init), big.NewInt(c12fBlock), c12Loc)
	if err != nil {
		panic("c12: cannot grind create address: " + err.Error())
	}
	return g
}

func c12fCreate2Salt(creator common.Address, init []byte) (uint64, common.Address) {
	h := crypto.Keccak256Hash(init)
	ck := fmt.Sprintf("%x/%x", creator.Bytes(), h[:])
	c12fAddrMu.Lock()
	s0, ok := c12fSaltCache[ck]
	c12fAddrMu.Unlock()
	if ok {
		return s0, crypto.CreateAddress2(creator, uint256.NewInt(s0).Bytes32(), h.Bytes(), c12Loc)
	}
	for salt := uint64(0); salt < 1_000_000; salt++ {
		a := crypto.CreateAddress2(creator, uint256.NewInt(salt).Bytes32(), h.Bytes(), c12Loc)
		if _, err := a.InternalAndQuaiAddress(); err == nil {
			c12fAddrMu.Lock()
			if len(c12fSaltCache) > 100000 {
				c12fSaltCache = map[string]uint64{}
			}
			c12fSaltCache[ck] = salt
			c12fAddrMu.Unlock()
			return salt, a
		}
	}
	panic("c12: no in-scope CREATE2 salt found")
}

// plan of one case: code of T, addresses to watch, how to drive the frames
type c12fPlan struct {
	cs      c12fCase
	codeT   []byte
	init    []byte // creation kinds
	watch   []common.Address
	salt    uint64
	creator common.Address
}

func c12fMakePlan(cs c12fCase) *c12fPlan {
	c12fInit()
	bk := c12fBk
	p := &c12fPlan{cs: cs}
	prog := c12Program(cs.Frags, cs.Term, bk)
	switch {
	case cs.Call == "depth":
		p.codeT = c12DepthCode(bk.T)
	case c12IsCreate(cs.Call):
		p.codeT = []byte{c12STOP}
		p.init = prog
	case cs.S1 != "" || cs.S2 != "" || cs.Call == "multi":
		body := func(f string) []byte {
			if f == "" {
				return []byte{c12STOP}
			}
			return c12Program([]string{f}, "stop", bk)
		}
		p.codeT = c12Dispatch([3][]byte{body(cs.S1), prog, body(cs.S2)})
	default:
		p.codeT = prog
	}
	// addresses that CREATE inside the frames would use: the "create" fragment run by any context
	for _, ctx := range []common.Address{bk.T, bk.Wcallcode, bk.Wdelegate} {
		for n := uint64(1); n <= 3; n++ {
			p.watch = append(p.watch, c12fCreateAddr(ctx, n, c12ChildInit))
		}
	}
	switch cs.Call {
	case "create":
		p.creator = bk.S
		p.watch = append(p.watch, c12fCreateAddr(bk.S, 0, p.init))
	case "wcreate":
		p.creator = bk.Wcreate
		p.watch = append(p.watch, c12fCreateAddr(bk.Wcreate, 1, p.init))
	case "wcreate2", "wcreate2-collide":
		p.creator = bk.Wcreate2
		var a common.Address
		p.salt, a = c12fCreate2Salt(bk.Wcreate2, p.init)
		p.watch = append(p.watch, a)
	}
	// (a "create" fragment inside an init frame targets an address that is not in the access list and
	// fails with ErrInvalidAccessList — a failing sub-create, which is a legitimate scenario too)
	return p
}

type c12fResult struct {
	failed bool
	class  string // error class of the failing frame
	used   uint64
}

func c12ErrClass(err error) string {
	if err == nil {
		return "ok"
	}
	s := err.Error()
	if i := strings.Index(s, ":"); i > 0 {
		s = s[:i]
	}
	if len(s) > 48 {
		s = s[:48]
	}
	return strings.ReplaceAll(s, " ", "-")
}

// sibling runs one successful top-level frame: T's body sel (0 or 2) through the dispatcher.
func (w *c12fWorld) sibling(sel byte) error {
	_, _, _, err := w.evm.Call(vm.AccountRef(c12fBk.S), c12fBk.T, []byte{sel}, c12fBigGas, new(big.Int))
	return err
}

// failing drives the frame under test. It returns whether the frame (the inner one for wrapper
// kinds) failed.
func (w *c12fWorld) failing(p *c12fPlan) c12fResult {
	bk, cs := c12fBk, p.cs
	S := vm.AccountRef(bk.S)
	gas := cs.Gas
	if gas == 0 {
		gas = c12fBigGas
	}
	zero := new(big.Int)
	viaWrapper := func(wr common.Address, parentRevert uint64) c12fResult {
		in := append(c12Word(gas), c12Word(parentRevert)...)
		ret, _, _, err := w.evm.Call(S, wr, in, c12fDeepGas, zero)
		if parentRevert == 1 {
			return c12fResult{failed: err != nil, class: "parent-" + c12ErrClass(err)}
		}
		if err != nil {
			return c12fResult{failed: false, class: "wrapper-failed-" + c12ErrClass(err)}
		}
		inner := len(ret) == 32 && ret[31] == 0
		cl := cs.Term
		if cs.Gas != 0 {
			cl = "gas-limited"
		}
		return c12fResult{failed: inner, class: "inner-" + cl}
	}
	switch cs.Call {
	case "call", "depth":
		in := []byte{}
		if cs.S1 != "" || cs.S2 != "" {
			in = []byte{1}
		}
		if cs.Call == "depth" {
			gas = c12fDeepGas
		}
		_, left, _, err := w.evm.Call(S, bk.T, in, gas, zero)
		return c12fResult{failed: err != nil, class: c12ErrClass(err), used: gas - left}
	case "wcall":
		return viaWrapper(bk.Wcall, 0)
	case "wcallcode":
		return viaWrapper(bk.Wcallcode, 0)
	case "wdelegate":
		return viaWrapper(bk.Wdelegate, 0)
	case "wstatic":
		return viaWrapper(bk.Wstatic, 0)
	case "parentrevert":
		return viaWrapper(bk.Wcall, 1)
	case "multi":
		in := append(c12Word(gas), c12Word(1)...)
		ret, _, _, err := w.evm.Call(S, bk.Multi, in, c12fDeepGas, zero)
		if err != nil {
			return c12fResult{failed: false, class: "multi-failed-" + c12ErrClass(err)}
		}
		cl := cs.Term
		if cs.Gas != 0 {
			cl = "gas-limited"
		}
		return c12fResult{failed: len(ret) == 32 && ret[31] == 0, class: "inner-" + cl}
	case "create":
		_, _, left, _, err := w.evm.Create(S, p.init, gas, big.NewInt(3))
		return c12fResult{failed: err != nil, class: c12ErrClass(err), used: gas - left}
	case "wcreate":
		ret, _, _, err := w.evm.Call(S, bk.Wcreate, p.init, c12fDeepGas, zero)
		if err != nil {
			return c12fResult{failed: false, class: "wrapper-failed-" + c12ErrClass(err)}
		}
		return c12fResult{failed: len(ret) == 32 && common.BytesToHash(ret) == (common.Hash{}), class: "inner-" + cs.Term}
	case "wcreate2", "wcreate2-collide":
		n := uint64(1)
		if cs.Call == "wcreate2-collide" {
			n = 2
		}
		in := append(append(c12Word(p.salt), c12Word(n)...), p.init...)
		ret, _, _, err := w.evm.Call(S, bk.Wcreate2, in, c12fDeepGas, zero)
		if err != nil {
			return c12fResult{failed: false, class: "wrapper-failed-" + c12ErrClass(err)}
		}
		first := len(ret) == 32 && common.BytesToHash(ret) == (common.Hash{})
		if n == 2 {
			return c12fResult{failed: !first, class: "inner-collision"} // the second CREATE2 collides iff the first succeeded
		}
		return c12fResult{failed: first, class: "inner-" + cs.Term}
	}
	panic("c12: unknown call kind " + cs.Call)
}

// reference performs what remains when the failing frame is taken away.
func (w *c12fWorld) reference(p *c12fPlan) {
	bk, cs := c12fBk, p.cs
	S := vm.AccountRef(bk.S)
	switch cs.Call {
	case "multi":
		in := append(c12Word(c12fBigGas), c12Word(0)...)
		if _, _, _, err := w.evm.Call(S, bk.Multi, in, c12fDeepGas, new(big.Int)); err != nil {
			panic("c12: reference multi call failed: " + err.Error())
		}
	case "wcreate2-collide": // the first (successful) CREATE2 stays; the second only bumps the creator nonce
		in := append(append(c12Word(p.salt), c12Word(1)...), p.init...)
		if _, _, _, err := w.evm.Call(S, bk.Wcreate2, in, c12fDeepGas, new(big.Int)); err != nil {
			panic("c12: reference create2 failed: " + err.Error())
		}
		ia := c12IAof(bk.Wcreate2)
		w.s.SetNonce(ia, w.s.GetNonce(ia)+1)
	case "create", "wcreate", "wcreate2":
		ia := c12IAof(p.creator)
		w.s.SetNonce(ia, w.s.GetNonce(ia)+1)
	}
}

type c12fOutcome struct {
	res         c12fResult
	field, desc string
	skipped     string // non-empty: the case is not applicable (frame did not fail, sibling failed...)
}

func c12fRun(cs c12fCase) (o c12fOutcome) {
	if cs.Kind == "tx" {
		return c12tRun(cs)
	}
	p := c12fMakePlan(cs)
	b := c12fBaseFor(p.codeT)
	fr := b.world(p.watch, nil, true)
	rf := b.world(p.watch, nil, true)
	if cs.S1 != "" && cs.Call != "multi" {
		if err := fr.sibling(0); err != nil {
			return c12fOutcome{skipped: "s1-failed"}
		}
		rf.sibling(0)
	}
	o.res = fr.failing(p)
	if !o.res.failed {
		o.skipped = "not-failed:" + o.res.class
		return
	}
	rf.reference(p)
	if cs.S2 != "" && cs.Call != "multi" {
		e1, e2 := fr.sibling(2), rf.sibling(2)
		if (e1 == nil) != (e2 == nil) {
			o.field, o.desc = "sibling-result", fmt.Sprintf("sibling frame S2 ends with %v after the failed frame but %v without it", e1, e2)
			return
		}
	}
	// the reference dump only depends on (T code, S1, S2, reference kind): memoise the cheap kinds
	var want []string
	if cs.Call != "multi" && cs.Call != "wcreate2-collide" {
		rk := b.id + "|" + cs.S1 + "|" + cs.S2 + "|" + string(p.creator.Bytes()) + "|" + fmt.Sprint(p.watch)
		c12fBaseMu.Lock()
		want = c12fRefCache[rk]
		c12fBaseMu.Unlock()
		if want == nil {
			want = rf.dump()
			c12fBaseMu.Lock()
			if len(c12fRefCache) > 2048 {
				c12fRefCache = map[string][]string{}
			}
			c12fRefCache[rk] = want
			c12fBaseMu.Unlock()
		}
	} else {
		want = rf.dump()
	}
	o.field, o.desc = c12Diff(want, fr.dump())
	return
}

func c12fRunGuarded(cs c12fCase) (o c12fOutcome) {
	if perr := vx.Guard(func() { o = c12fRun(cs) }); perr != "" {
		return c12fOutcome{field: "panic@" + vx.PanicSite(perr), desc: perr, res: c12fResult{failed: true, class: "panic"}}
	}
	return
}

// cuts returns the gas values that make the frame run out of gas before / inside every
// instruction of the frame under test, plus "one gas short of success".
func c12fCuts(cs c12fCase) []uint64 {
	p := c12fMakePlan(cs)
	b := c12fBaseFor(p.codeT)
	tr := &c12Tracer{}
	w := b.world(p.watch, tr, true)
	if cs.S1 != "" && cs.Call != "multi" {
		w.sibling(0)
		tr.steps = nil
	}
	res := w.failing(p)
	// the frame under test: depth 1 for direct kinds; for wrapper kinds the first depth-2 frame, for
	// "multi" the second one
	target, want := 1, 0
	if strings.HasPrefix(cs.Call, "w") {
		target = 2
	}
	if cs.Call == "multi" {
		target, want = 2, 1
	}
	var frame []c12Step
	seg := -1
	for i, st := range tr.steps {
		if st.depth >= target && (i == 0 || tr.steps[i-1].depth < target) {
			seg++
		}
		if st.depth == target && seg == want {
			frame = append(frame, st)
		}
	}
	var cuts []uint64
	seen := map[uint64]bool{}
	addCut := func(g uint64) {
		if g > 0 && g < c12fBigGas && !seen[g] {
			seen[g] = true
			cuts = append(cuts, g)
		}
	}
	if len(frame) == 0 {
		return nil
	}
	first := frame[0].gas
	if target == 1 { // direct kinds: the gas parameter includes what create() deducts before Run
		first = c12fBigGas
	}
	for _, st := range frame {
		if st.gas > first {
			continue
		}
		addCut(first - st.gas)
		if st.cost > 0 && st.cost < c12fBigGas {
			addCut(first - st.gas + st.cost - 1)
		}
	}
	last := frame[len(frame)-1]
	if target == 1 && res.used > 0 {
		addCut(res.used - 1)
	} else if last.gas >= last.cost && first > last.gas-last.cost {
		addCut(first - (last.gas - last.cost) - 1)
	}
	sort.Slice(cuts, func(i, j int) bool { return cuts[i] < cuts[j] })
	return cuts
}

// ---- reporting ----
// key = part : first differing field : minimal fragment set [: call kind unless plain CALL]
//
//	[: failure class unless REVERT] [: then-<sibling>]
func c12fKey(cs c12fCase, field, class string) string {
	fc := make([]string, len(cs.Frags))
	for i, f := range cs.Frags {
		fc[i] = c12FragClass(f)
	}
	k := "frame:" + field + ":" + strings.Join(fc, "+")
	if cs.Kind == "tx" {
		k = "tx:" + field + ":" + strings.Join(fc, "+")
	}
	if cs.Call != "call" && cs.Call != "tx-call" {
		k += ":" + cs.Call
	}
	switch {
	case cs.Gas != 0:
		cl := strings.TrimPrefix(class, "inner-")
		if cl == "gas-limited" || cl == "" || strings.HasPrefix(cl, "status=") {
			cl = "out-of-gas"
		}
		k += ":" + cl
	case cs.Term != "revert":
		k += ":" + cs.Term
	}
	if cs.S2 != "" {
		k += ":then-" + cs.S2
	}
	return k
}

// tryCase reports whether cs (for gas-limited cases: cs with SOME out-of-gas cut of its program)
// still fails on the same field; it returns the concrete failing case.
func c12fStillFails(cs c12fCase, field string) (c12fCase, bool) {
	fails := func(c c12fCase) bool {
		o := c12fRunGuarded(c)
		return o.skipped == "" && o.field == field
	}
	if fails(cs) {
		return cs, true
	}
	if cs.Gas == 0 || cs.Kind == "tx" {
		return cs, false
	}
	base := cs
	base.Gas = 0
	if perr := vx.Guard(func() {
		for _, g := range c12fCuts(base) {
			c := cs
			c.Gas = g
			if fails(c) {
				cs = c
				return
			}
		}
		cs.Gas = 0
	}); perr != "" || cs.Gas == 0 {
		return cs, false
	}
	return cs, true
}

func c12fShrink(cs c12fCase, field string) c12fCase {
	// canonical form first: no siblings, plain CALL, REVERT, plenty of gas — each only if the same
	// field still fails
	for _, f := range []func(c *c12fCase){
		func(c *c12fCase) {
			if c.Kind == "frame" {
				c.S1, c.S2, c.Call, c.Term, c.Gas = "", "", "call", "revert", 0
			} else {
				c.Call, c.Term, c.Gas = "tx-call", "revert", 0
			}
		},
		func(c *c12fCase) { c.S1 = "" },
		func(c *c12fCase) { c.S2 = "" },
		func(c *c12fCase) {
			if c.Kind == "frame" && !c12IsCreate(c.Call) && c.Call != "depth" && c.Call != "multi" {
				c.Call = "call"
			}
			if c.Kind == "frame" && (c.Call == "wcreate" || c.Call == "wcreate2") {
				c.Call = "create"
			}
		},
		func(c *c12fCase) {
			if !c12IsCreate(c.Call) || c.Kind == "tx" {
				c.Term, c.Gas = "revert", 0
			}
		},
	} {
		c := cs
		c.Frags = append([]string{}, cs.Frags...)
		f(&c)
		if c2, ok := c12fStillFails(c, field); ok {
			cs = c2
		}
	}
	for changed := true; changed; {
		changed = false
		for i := range cs.Frags {
			c := cs
			c.Frags = append(append([]string{}, cs.Frags[:i]...), cs.Frags[i+1:]...)
			if c2, ok := c12fStillFails(c, field); ok {
				cs, changed = c2, true
				break
			}
		}
	}
	return cs
}

var c12fCanonMemo = map[string]string{}

func c12fCanonCase(kind, f string) c12fCase {
	c := c12fCase{Kind: kind, Call: "call", Frags: []string{f}, Term: "revert"}
	if kind == "tx" {
		c.Call = "tx-call"
	}
	return c
}

// canonField: the field on which the plain form call{f;revert} leaves a trace ("" if none; memoised)
func c12fCanonField(kind, f string) string {
	k := kind + "|" + f
	if v, ok := c12fCanonMemo[k]; ok {
		return v
	}
	o := c12fRunGuarded(c12fCanonCase(kind, f))
	v := ""
	if o.skipped == "" {
		v = o.field
	}
	c12fCanonMemo[k] = v
	return v
}

func c12fReport(c *vx.Ctx, part string, cs c12fCase, o c12fOutcome, seen map[string]bool) {
	pre := c12fKey(cs, o.field, o.res.class)
	if seen["raw:"+pre] {
		return
	}
	seen["raw:"+pre] = true
	// a fragment that leaves a trace all by itself in a plain reverted CALL explains the failure; that
	// class is reported once, in its plain form
	for _, f := range cs.Frags {
		if cf := c12fCanonField(cs.Kind, f); cf != "" {
			cs = c12fCanonCase(cs.Kind, f)
			o = c12fRunGuarded(cs)
			if seen[c12fKey(cs, o.field, o.res.class)] {
				return
			}
			break
		}
	}
	small := c12fShrink(cs, o.field)
	o2 := c12fRunGuarded(small)
	key := c12fKey(small, o.field, o2.res.class)
	if seen[key] {
		return
	}
	seen[key] = true
	full := fmt.Sprintf("EVM: %s (failing frame ended with %s) leaves a trace\n %s: %s", small, o2.res.class, o2.field, o2.desc)
	if c.Confirm(full, func() string { x := c12fRunGuarded(small); return x.field }) {
		c.Violate(part, key, full, small)
	}
}

// ---- enumeration ----
func c12FragSeqs(n int, f func([]string)) {
	var rec func(cur []string, left int)
	rec = func(cur []string, left int) {
		if left == 0 {
			f(append([]string{}, cur...))
			return
		}
		for _, x := range c12FragNames {
			rec(append(cur, x), left-1)
		}
	}
	for l := 0; l <= n; l++ {
		rec(nil, l)
	}
}

func runC12Frames(c *vx.Ctx) {
	c12fInit()
	seen := map[string]bool{}
	if c.Wants("frames") {
		tStart := time.Now()
		defer func() { c12DevTime("frames+frame-siblings", tStart, c) }()
		expiredF := c12Slice(c, 0.33)
		p := c.Part("frames")
		depth := 2
		if c.Thorough() {
			depth = 3
		}
		callKinds := []string{"call", "wcall", "wcallcode", "wdelegate", "wstatic", "parentrevert"}
		createKinds := []string{"create", "wcreate", "wcreate2", "wcreate2-collide"}
		p.Bound("fragments", c12FragNames)
		p.Bound("fragments_per_frame", depth)
		p.Bound("call_kinds", append(append([]string{}, callKinds...), createKinds...))
		p.Bound("failures", "REVERT, INVALID, out-of-gas before and inside every instruction of the frame and one gas short of success, write protection (STATICCALL), parent reverts after child success, creation: REVERT/INVALID/0xEF code/oversized code/code-deposit out of gas/address collision, call depth 1025")
		p.Bound("block", c12fBlock)
		var idx int64
		exec := func(cs c12fCase) {
			o := c12fRunGuarded(cs)
			if o.skipped != "" {
				p.Outcome("skipped:" + strings.SplitN(o.skipped, ":", 2)[0])
				return
			}
			p.Transitions++
			p.Traces++
			p.Outcome(cs.Call + "/" + o.res.class)
			if o.field != "" {
				c12fReport(c, "frames", cs, o, seen)
			} else if len(cs.Frags) == depth {
				p.Sample(cs.String())
			}
		}
		stop := false
		c12FragSeqs(depth, func(fr []string) {
			idx++
			if stop || !c.Mine(idx) {
				return
			}
			if expiredF() {
				p.Incomplete("time share used up")
				stop = true
				return
			}
			for _, k := range callKinds {
				if k == "parentrevert" {
					exec(c12fCase{Kind: "frame", Call: k, Frags: fr, Term: "stop"})
					continue
				}
				for _, t := range []string{"revert", "invalid"} {
					exec(c12fCase{Kind: "frame", Call: k, Frags: fr, Term: t})
				}
				if k == "wstatic" {
					exec(c12fCase{Kind: "frame", Call: k, Frags: fr, Term: "stop"}) // fails at the first write
					continue
				}
				base := c12fCase{Kind: "frame", Call: k, Frags: fr, Term: "stop"}
				for _, g := range c12fCuts(base) {
					cs := base
					cs.Gas = g
					exec(cs)
				}
			}
			for _, k := range createKinds {
				if k == "wcreate2-collide" {
					exec(c12fCase{Kind: "frame", Call: k, Frags: fr, Term: "return1"})
					continue
				}
				for _, t := range []string{"revert", "invalid", "ret-ef", "ret-big"} {
					exec(c12fCase{Kind: "frame", Call: k, Frags: fr, Term: t})
				}
				if k == "create" {
					terms := []string{"return100"}
					if c.Thorough() {
						terms = []string{"return1", "return100"}
					}
					for _, t := range terms {
						base := c12fCase{Kind: "frame", Call: k, Frags: fr, Term: t}
						for _, g := range c12fCuts(base) {
							cs := base
							cs.Gas = g
							exec(cs)
						}
					}
				}
			}
		})
		if c.Shard == 0 {
			exec(c12fCase{Kind: "frame", Call: "depth", Term: "stop"})
		}
		p.MaxDepth = int64(depth)

		// siblings at the EVM level: S1 ; failing ; S2 as three top-level frames and as three child
		// frames of one parent (multi)
		c12DevTime("frames", tStart, c)
		expiredFS := c12Slice(c, 0.13)
		ps := c.Part("frame-siblings")
		ps.Bound("shape", "S1 (1 fragment, succeeds) ; failing frame (1 fragment + REVERT/INVALID/out-of-gas one short) ; S2 (1 fragment) == S1 ; S2")
		idx = 0
		s1Menu := []string{"", "sstore-mod", "create", "claim"}
		if c.Thorough() {
			s1Menu = append([]string{""}, c12FragNames...)
		}
		ps.Bound("s1_menu", s1Menu)
		for _, s1 := range s1Menu {
			for _, f := range c12FragNames {
				idx++
				if !c.Mine(idx) {
					continue
				}
				if expiredFS() {
					ps.Incomplete("time share used up")
					break
				}
				for _, s2 := range c12FragNames {
					for _, k := range []string{"call", "multi"} {
						var cases []c12fCase
						for _, t := range []string{"revert", "invalid"} {
							cases = append(cases, c12fCase{Kind: "frame", Call: k, Frags: []string{f}, Term: t, S1: s1, S2: s2})
						}
						base := c12fCase{Kind: "frame", Call: k, Frags: []string{f}, Term: "stop", S1: s1, S2: s2}
						cuts := c12fCuts(base)
						for i := len(cuts) - 1; i >= 0 && i >= len(cuts)-4; i-- { // the largest gas that still fails
							base.Gas = cuts[i]
							if o := c12fRunGuarded(base); o.skipped == "" {
								cases = append(cases, base)
								break
							}
						}
						for _, cs := range cases {
							o := c12fRunGuarded(cs)
							if o.skipped != "" {
								ps.Outcome("skipped:" + strings.SplitN(o.skipped, ":", 2)[0])
								continue
							}
							ps.Transitions++
							ps.Traces++
							ps.Outcome(k + "/" + o.res.class + "/then-" + s2)
							if o.field != "" {
								c12fReport(c, "frame-siblings", cs, o, seen)
							} else {
								ps.Sample(cs.String())
							}
						}
					}
				}
			}
		}
	}
	if c.Wants("tx") {
		runC12Tx(c, seen)
	}
}

func c12DevTime(tag string, t0 time.Time, c *vx.Ctx) {
	if os.Getenv("C12_TIMING") != "" && c.Shard == 0 {
		fmt.Fprintf(os.Stderr, "c12 shard 0: %s %v\n", tag, time.Since(t0).Round(time.Millisecond))
	}
}

func replayC12Frames(c *vx.Ctx, kind string, raw []byte) string {
	var cs c12fCase
	if err := jsonUnmarshal(raw, &cs); err != nil {
		return "bad replay: " + err.Error()
	}
	c12fInit()
	o := c12fRunGuarded(cs)
	if os.Getenv("C12_VERBOSE") != "" {
		fmt.Fprintf(os.Stderr, "c12 replay: %s -> failed=%v class=%s skipped=%q field=%q\n", cs, o.res.failed, o.res.class, o.skipped, o.field)
	}
	if o.skipped != "" {
		return "harness: replayed case not applicable: " + o.skipped
	}
	if o.field == "" {
		return ""
	}
	return fmt.Sprintf("EVM: %s (failing frame ended with %s): %s: %s", cs, o.res.class, o.field, o.desc)
}

var _ = hex.EncodeToString
