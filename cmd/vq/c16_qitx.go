package main

import (
	"bytes"
	"encoding/binary"
	"fmt"
	"math/big"

	"github.com/btcsuite/btcd/btcec/v2"
	"github.com/btcsuite/btcd/btcec/v2/schnorr"
	"github.com/dominant-strategies/go-quai/common"
	"github.com/dominant-strategies/go-quai/consensus"
	"github.com/dominant-strategies/go-quai/core"
	"github.com/dominant-strategies/go-quai/core/rawdb"
	"github.com/dominant-strategies/go-quai/core/types"
	"github.com/dominant-strategies/go-quai/crypto"
	"github.com/dominant-strategies/go-quai/ethdb"
	"github.com/dominant-strategies/go-quai/params"
	"github.com/dominant-strategies/go-quai/verifshim/vx"
	"google.golang.org/protobuf/proto"
)

// ---- qitx: ProcessQiTx, the place where a Qi transaction's outputs become UTXOs ----

type c16QiOut struct {
	Class string `json:"class"` // address class of the 20 bytes
	Form  string `json:"form"`  // how the bytes are put on the wire: exact | drop-first | pad1:prefix | pad1:other | pad12:zero | empty
	Denom uint8  `json:"denomination"`
}

type c16QiCase struct {
	Loc      []int      `json:"node_location"`
	Regime   string     `json:"regime"` // wrap-fork-active | wrap-fork-inactive (params.QiWrappingChangeBlock)
	Eligible bool       `json:"etx_eligible"`
	Index    bool       `json:"index_address_utxos,omitempty"`
	Spend    bool       `json:"then_spend_output0_with_owner2_key,omitempty"`
	Data     string     `json:"data"`
	Outs     []c16QiOut `json:"outputs"`
}

// fake chain: only what ProcessQiTx asks for
type c16Chain struct {
	pt       *types.WorkObject
	eligible bool
}

func (c *c16Chain) Engine(*types.WorkObjectHeader) consensus.Engine          { return nil }
func (c *c16Chain) GetHeaderOrCandidateByHash(common.Hash) *types.WorkObject { return c.pt }
func (c *c16Chain) NodeCtx() int                                             { return common.ZONE_CTX }
func (c *c16Chain) IsGenesisHash(common.Hash) bool                           { return false }
func (c *c16Chain) GetHeaderByHash(common.Hash) *types.WorkObject            { return c.pt }
func (c *c16Chain) GetBlockByHash(common.Hash) *types.WorkObject             { return c.pt }
func (c *c16Chain) CheckIfEtxIsEligible(common.Hash, common.Location) bool   { return c.eligible }
func (c *c16Chain) CheckInCalcOrderCache(common.Hash) (*big.Int, int, bool)  { return nil, 0, false }
func (c *c16Chain) AddToCalcOrderCache(common.Hash, int, *big.Int)           {}
func (c *c16Chain) CalcBaseFee(*types.WorkObject) *big.Int                   { return big.NewInt(1) }
func (c *c16Chain) CalcOrder(*types.WorkObject) (*big.Int, int, error) {
	return big.NewInt(0), common.ZONE_CTX, nil
}

type c16QiWorld struct {
	loc    common.Location
	priv   *btcec.PrivateKey
	pub    []byte
	owner  []byte // in-zone Qi address of priv
	priv2  *btcec.PrivateKey
	pub2   []byte
	owner2 []byte // a second in-zone Qi key holder (receives outputs that are spent again)
	cls    map[string][]byte
	signer types.Signer
}

var c16QiWorlds = map[string]*c16QiWorld{}

func c16QiWorldFor(loc common.Location) *c16QiWorld {
	if w, ok := c16QiWorlds[string(loc)]; ok {
		return w
	}
	w := &c16QiWorld{loc: loc, cls: map[string][]byte{}}
	for i := uint64(1); ; i++ {
		var d [32]byte
		d[0] = 0x16
		binary.BigEndian.PutUint64(d[24:], i)
		k := crypto.ToECDSAUnsafe(d[:])
		pub := crypto.FromECDSAPub(&k.PublicKey)
		a := crypto.Keccak256(pub[1:])[12:]
		if c16RefInZoneQi(a, loc) {
			if w.priv == nil {
				w.priv, _ = btcec.PrivKeyFromBytes(d[:])
				w.pub, w.owner = pub, a
				continue
			}
			w.priv2, _ = btcec.PrivKeyFromBytes(d[:])
			w.pub2, w.owner2 = pub, a
			break
		}
	}
	pre := loc[0]<<4 | loc[1]
	oth := pre ^ 0x21
	mk := func(b0, b1, fill byte) []byte {
		a := make([]byte, 20)
		a[0], a[1] = b0, b1
		for i := 2; i < 20; i++ {
			a[i] = fill
		}
		return a
	}
	w.cls["inQi"] = mk(pre, 0x80, 0x31)
	w.cls["inQi2"] = mk(pre, 0xff, 0x32)
	w.cls["inQuai"] = mk(pre, 0x7f, 0x33)
	w.cls["inQuai2"] = mk(pre, 0x00, 0x34)
	w.cls["forQi"] = mk(oth, 0x80, 0x35)
	w.cls["forQuai"] = mk(oth, 0x00, 0x36)
	w.cls["zero"] = make([]byte, 20)
	w.cls["owner"] = w.owner
	w.cls["owner2"] = w.owner2
	w.signer = types.NewSigner(big.NewInt(1), loc)
	c16QiWorlds[string(loc)] = w
	return w
}

var c16QiClasses = []string{"inQi", "inQi2", "inQuai", "inQuai2", "forQi", "forQuai", "zero", "owner"}
var c16QiForms = []string{"exact", "drop-first", "pad1:prefix", "pad1:other", "pad12:zero", "empty"}
var c16QiData = []string{"none", "wrap:inQuai", "wrap:inQi", "wrap:forQuai", "conv:inQi", "conv:inQuai", "conv:forQi", "len21"}

func (w *c16QiWorld) wire(o c16QiOut) []byte {
	a := w.cls[o.Class]
	pre := w.loc[0]<<4 | w.loc[1]
	switch o.Form {
	case "drop-first":
		return append([]byte{}, a[1:]...)
	case "pad1:prefix":
		return append([]byte{pre}, a...)
	case "pad1:other":
		return append([]byte{pre ^ 0x21}, a...)
	case "pad12:zero":
		return append(make([]byte, 12), a...)
	case "empty":
		return []byte{}
	}
	return append([]byte{}, a...)
}

func (w *c16QiWorld) data(kind string) []byte {
	switch kind {
	case "wrap:inQuai":
		return w.cls["inQuai2"]
	case "wrap:inQi":
		return w.cls["inQi2"]
	case "wrap:forQuai":
		return w.cls["forQuai"]
	case "conv:inQi":
		return append([]byte{0x00, 0x64}, w.cls["inQi2"]...)
	case "conv:inQuai":
		return append([]byte{0x00, 0x64}, w.cls["inQuai2"]...)
	case "conv:forQi":
		return append([]byte{0x00, 0x64}, w.cls["forQi"]...)
	case "len21":
		return make([]byte, 21)
	}
	return []byte{}
}

const c16QiPTN = uint64(1000) // prime terminus number of the block being processed

var c16SeedHash = common.BytesToHash([]byte("c16-seed-transaction"))

type c16QiResult struct {
	class   string // outcome class
	created []*types.UtxoEntry
	etxs    int
	divs    []c16Div
}

func c16QiExec(cs c16QiCase, p *vx.Part) []c16Div { return c16QiRun(cs, p).divs }

func c16QiRun(cs c16QiCase, p *vx.Part) (res c16QiResult) {
	loc := make(common.Location, len(cs.Loc))
	for i, v := range cs.Loc {
		loc[i] = byte(v)
	}
	w := c16QiWorldFor(loc)
	// fork regime: the height is a package variable; the code under test is unchanged
	saved := params.QiWrappingChangeBlock
	defer func() { params.QiWrappingChangeBlock = saved }()
	// the processed block has prime terminus number 1000: "active" = the fork's first block, "inactive" = its last block before
	if cs.Regime == "wrap-fork-active" {
		params.QiWrappingChangeBlock = c16QiPTN
	} else {
		params.QiWrappingChangeBlock = c16QiPTN + 1
	}
	lg := c16Logger()
	db := rawdb.NewMemoryDatabase(lg)
	const seedDenom = 12
	if err := rawdb.CreateUTXO(db, c16SeedHash, 0, types.NewUtxoEntry(types.NewTxOut(seedDenom, w.owner, big.NewInt(0)))); err != nil {
		panic(err)
	}
	var outs types.TxOuts
	for _, o := range cs.Outs {
		outs = append(outs, *types.NewTxOut(o.Denom, w.wire(o), big.NewInt(0)))
	}
	tx, etxs, class := c16QiProcess(w, db, cs, types.OutPoint{TxHash: c16SeedHash, Index: 0}, w.priv, w.pub, outs, w.data(cs.Data))
	if class != "" {
		res.class = class
		return res
	}
	res.etxs = len(etxs)
	// everything that is now in the UTXO set and was not there before
	it := db.NewIterator(rawdb.UtxoPrefix, nil)
	defer it.Release()
	for it.Next() {
		if len(it.Key()) != rawdb.UtxoKeyLength {
			continue
		}
		h, idx, err := rawdb.ReverseUtxoKey(it.Key())
		if err != nil {
			panic(err)
		}
		if h == c16SeedHash {
			res.divs = append(res.divs, c16Div{"ProcessQiTx:spent-input-still-present", "the spent input is still in the UTXO set after a successful transaction"})
			continue
		}
		if h != tx.Hash() {
			panic("unexpected utxo key in a fresh database")
		}
		po := new(types.ProtoTxOut)
		if err := proto.Unmarshal(it.Value(), po); err != nil {
			panic(err)
		}
		e := new(types.UtxoEntry)
		if err := e.ProtoDecode(po); err != nil {
			panic(err)
		}
		res.created = append(res.created, e)
		if !c16RefInZoneQi(e.Address, loc) {
			dk := cs.Data
			if i := bytes.IndexByte([]byte(dk), ':'); i > 0 {
				dk = dk[:i]
			}
			var key string
			if len(e.Address) != common.AddressLength {
				// one input class: an output whose wire address is not 20 bytes
				key = "ProcessQiTx:utxo-owner-not-20-bytes"
			} else {
				key = "ProcessQiTx:utxo-for-" + c16AddrClass(e.Address, loc) + ":data-" + dk
				if dk == "wrap" {
					key += ":" + cs.Regime
				}
			}
			res.divs = append(res.divs, c16Div{key, fmt.Sprintf("ProcessQiTx at node %s (%s, data %s) accepted a transaction whose output %d has wire address %x and stored a UTXO owned by %x (%s); outputs %+v", c16LocName(loc), cs.Regime, cs.Data, idx, w.wire(cs.Outs[idx]), e.Address, c16AddrClass(e.Address, loc), cs.Outs)})
		}
	}
	res.class = fmt.Sprintf("accept:utxos=%d:etxs=%d", len(res.created), res.etxs)
	if cs.Spend && len(res.created) > 0 {
		// aftermath: the holder of the owner2 key spends output 0 again (what any wallet would do)
		out := types.TxOuts{*types.NewTxOut(0, w.cls["inQi"], big.NewInt(0))}
		_, _, class := c16QiProcess(w, db, cs, types.OutPoint{TxHash: tx.Hash(), Index: 0}, w.priv2, w.pub2, out, []byte{})
		if class == "" {
			class = "accept"
		}
		res.class = fmt.Sprintf("created-owner-len%d-then-spend:%s", len(res.created[0].Address), class)
	}
	return res
}

// c16QiProcess builds a one-input transaction, signs it with the given key, passes it through its
// wire form and hands it to the real ProcessQiTx on db (the batch is written on success).
// class is "" on success, otherwise the outcome class (wire-decode-refused, reject:..., panic@...).
func c16QiProcess(w *c16QiWorld, db ethdb.Database, cs c16QiCase, spend types.OutPoint, priv *btcec.PrivateKey, pub []byte, outs types.TxOuts, data []byte) (tx *types.Transaction, etxs []*types.ExternalTx, class string) {
	loc := w.loc
	inner := &types.QiTx{
		ChainID: big.NewInt(1),
		TxIn:    types.TxIns{{PreviousOutPoint: spend, PubKey: pub}},
		TxOut:   outs,
		Data:    data,
	}
	digest := w.signer.Hash(types.NewTx(inner))
	sig, err := schnorr.Sign(priv, digest[:])
	if err != nil {
		panic(err)
	}
	inner.Signature = sig
	ptx, err := types.NewTx(inner).ProtoEncode()
	if err != nil {
		panic(err)
	}
	raw, err := proto.Marshal(ptx)
	if err != nil {
		panic(err)
	}
	back := new(types.ProtoTransaction)
	if err := proto.Unmarshal(raw, back); err != nil {
		panic(err)
	}
	tx = new(types.Transaction)
	if err := tx.ProtoDecode(back, loc); err != nil {
		return nil, nil, "wire-decode-refused"
	}
	// headers
	hdr := types.EmptyWorkObject(common.ZONE_CTX)
	hdr.WorkObjectHeader().SetLocation(loc)
	hdr.WorkObjectHeader().SetNumber(big.NewInt(100))
	hdr.WorkObjectHeader().SetDifficulty(big.NewInt(1_000_000_000))
	hdr.WorkObjectHeader().SetPrimeTerminusNumber(new(big.Int).SetUint64(c16QiPTN))
	hdr.Body().Header().SetGasLimit(30_000_000)
	hdr.Body().Header().SetBaseFee(big.NewInt(1))
	hdr.Body().Header().SetPrimeTerminusHash(common.BytesToHash([]byte("c16-prime-terminus")))
	pt := types.EmptyWorkObject(common.PRIME_CTX)
	pt.Body().Header().SetExchangeRate(new(big.Int).Exp(big.NewInt(10), big.NewInt(18), nil))
	chain := &c16Chain{pt: pt, eligible: cs.Eligible}

	batch := db.NewBatch()
	batch.SetPending(true)
	gp := new(types.GasPool).AddGas(30_000_000)
	var usedGas uint64
	etxR, etxP := uint64(10_000_000), uint64(10_000_000)
	ucd := &core.UtxosCreatedDeleted{AddressOutpointsToAddMap: map[[20]byte][]*types.OutpointAndDenomination{}, AddressOutpointsToRemoveMap: map[[20]byte][]*types.OutPoint{}}
	var perr error
	pan := vx.Guard(func() {
		_, etxs, _, perr, _ = core.ProcessQiTx(tx, chain, true, false, hdr, batch, db, gp, &usedGas, w.signer, loc, *big.NewInt(1), 1.0, &etxR, &etxP, ucd, new(big.Int), new(big.Int), cs.Index)
	})
	if pan != "" {
		return tx, nil, "panic@" + vx.PanicSite(pan)
	}
	if perr != nil {
		return tx, nil, "reject:" + c16QiErrClass(perr)
	}
	if err := batch.Write(); err != nil {
		panic(err)
	}
	return tx, etxs, ""
}

func c16QiErrClass(err error) string {
	s := c16ErrNorm.ReplaceAllString(err.Error(), "#")
	for _, cut := range []string{" 0x", ": 0x"} {
		if i := bytes.Index([]byte(s), []byte(cut)); i > 0 {
			s = s[:i]
		}
	}
	if len(s) > 64 {
		s = s[:64]
	}
	return s
}

func c16QiTx(c *vx.Ctx) {
	p := c.Part("qitx")
	locs := []common.Location{{0, 0}, {1, 2}}
	if c.Thorough() {
		locs = append(locs, common.Location{2, 1}, common.Location{15, 15})
	}
	var ln []string
	for _, l := range locs {
		ln = append(ln, c16LocName(l))
	}
	p.Bound("node_locations", ln)
	p.Bound("output_address_classes", c16QiClasses)
	p.Bound("output_address_wire_forms", c16QiForms)
	p.Bound("data_kinds", c16QiData)
	p.Bound("regimes", []string{"wrap-fork-active (params.QiWrappingChangeBlock = prime terminus number of the block: first fork block)", "wrap-fork-inactive (= that number + 1: last block before the fork)"})
	p.Bound("outputs_per_tx", "1 (all classes x all wire forms) and 2 (all ordered class pairs, exact form)")
	p.Note("signature checking is ON: every transaction is Schnorr-signed by the input owner and travels through ProtoEncode/Marshal/Unmarshal/ProtoDecode before ProcessQiTx sees it")
	p.Note("UTXO-creation sites inside StateProcessor.Process (coinbase, conversion and unwrap ETXs, lines 450-930) need a whole node and are NOT driven here")
	reported := map[string]bool{}
	var item int64
	run := func(cs c16QiCase) {
		item++
		if !c.Mine(item) {
			return
		}
		r := c16QiRun(cs, p)
		p.Evals++
		p.Traces++
		p.Outcome(r.class)
		for _, dv := range r.divs {
			if reported[dv.Key] {
				continue
			}
			reported[dv.Key] = true
			dv := dv
			if c.Confirm(dv.Desc, func() string {
				for _, x := range c16QiExec(cs, nil) {
					if x.Key == dv.Key {
						return x.Key
					}
				}
				return ""
			}) {
				cs := cs
				c.Violate("qitx", dv.Key, dv.Desc, c16Replay{Part: "qitx", Qi: &cs})
			}
		}
		if len(r.divs) == 0 && len(r.created) > 0 && item%7 == 0 {
			p.Sample(map[string]any{"case": cs, "result": r.class, "created_owner": c16Hex(r.created[0].Address)})
		}
	}
	for _, loc := range locs {
		li := c16LocInts(loc)
		for _, regime := range []string{"wrap-fork-active", "wrap-fork-inactive"} {
			for _, elig := range []bool{true, false} {
				for _, data := range c16QiData {
					if c.Expired() {
						p.Incomplete("deadline")
						return
					}
					for _, cl := range c16QiClasses {
						for _, form := range c16QiForms {
							run(c16QiCase{Loc: li, Regime: regime, Eligible: elig, Data: data, Outs: []c16QiOut{{cl, form, 3}}})
						}
					}
					if !elig {
						continue
					}
					for _, c1 := range c16QiClasses {
						for _, c2 := range c16QiClasses {
							run(c16QiCase{Loc: li, Regime: regime, Eligible: elig, Data: data, Outs: []c16QiOut{{c1, "exact", 3}, {c2, "exact", 2}}})
						}
					}
				}
			}
		}
	}
	// aftermath probe (informational, no C16 oracle): a stored owner that is not 20 bytes long is later
	// spent by its key holder. Only meaningful where the padded/cropped form is an in-zone Qi address.
	for _, loc := range locs {
		for _, form := range c16QiForms {
			for _, index := range []bool{false, true} {
				cs := c16QiCase{Loc: c16LocInts(loc), Regime: "wrap-fork-active", Eligible: true, Index: index, Spend: true, Data: "none", Outs: []c16QiOut{{"owner2", form, 3}}}
				item++
				if !c.Mine(item) {
					continue
				}
				r := c16QiRun(cs, p)
				p.Evals++
				p.Outcome("aftermath:" + r.class)
				if len(r.class) > 5 && (bytes.Contains([]byte(r.class), []byte("panic"))) {
					p.Note("aftermath (outside C16, belongs to the no-crash property): at %s, output form %q, index_address_utxos=%v: %s", c16LocName(loc), form, index, r.class)
				}
			}
		}
	}
	if c.Shard == 0 {
		p.States = int64(len(locs)) * 2 * int64(len(c16QiData))
	}
}
