package main

import (
	"os"
	"runtime/pprof"
)

// c02Prof starts a CPU profile when C02_PROF names a file (development aid only).
func c02Prof() func() {
	f := os.Getenv("C02_PROF")
	if f == "" {
		return func() {}
	}
	fh, err := os.Create(f)
	if err != nil {
		return func() {}
	}
	pprof.StartCPUProfile(fh)
	return func() { pprof.StopCPUProfile(); fh.Close() }
}
