package main

import (
	"crypto/sha256"
	"fmt"
	"math/big"
	"strings"

	"github.com/dominant-strategies/go-quai/core"
	"github.com/dominant-strategies/go-quai/core/types"
	"github.com/dominant-strategies/go-quai/verifshim/vx"
)

// ---- routing monitor ----------------------------------------------------------------------------

type c04Id struct {
	origin [32]byte
	index  uint16
}

func c04IdOf(t *types.Transaction) c04Id {
	return c04Id{t.OriginatingTxHash(), t.ETXIndex()}
}

func (i c04Id) String() string { return fmt.Sprintf("%x:%d", i.origin[:5], i.index) }

type c04Emit struct {
	height uint64
	pos    int
	tx     *types.Transaction
}

// c04Monitor checks the invariants over the canonical zone chain given as a block list.
// final=true additionally demands that everything emitted up to `mustDeliverBefore` was executed.
func c04Monitor(s *scen, final bool, mustDeliverBefore uint64) (string, string) {
	emitted := map[c04Id]c04Emit{}
	var emitOrder []c04Id
	executed := map[c04Id]uint64{}
	var execSeq []c04Id
	for _, b := range s.blocks {
		h := b.NumberU64(2)
		for pos, e := range b.OutboundEtxs() {
			id := c04IdOf(e)
			if prev, dup := emitted[id]; dup {
				return "emit:id-reused", fmt.Sprintf("ETX id %v emitted by block %d and again by block %d", id, prev.height, h)
			}
			emitted[id] = c04Emit{h, pos, e}
			emitOrder = append(emitOrder, id)
		}
		for _, t := range b.Transactions() {
			if t.Type() != types.ExternalTxType {
				continue
			}
			id := c04IdOf(t)
			em, ok := emitted[id]
			if !ok {
				return "exec:never-emitted", fmt.Sprintf("block %d executes ETX %v that no canonical zone block emitted", h, id)
			}
			if prev, dup := executed[id]; dup {
				return "exec:twice", fmt.Sprintf("ETX %v executed in block %d and again in block %d", id, prev, h)
			}
			if em.height >= h {
				return "exec:before-coincidence", fmt.Sprintf("ETX %v emitted at height %d is executed at height %d", id, em.height, h)
			}
			// payload unchanged in transit, except the value of conversions (repriced by prime) and
			// the type of conversions that prime turns into reverts
			o := em.tx
			conv := o.EtxType() == types.ConversionType
			if o.To().Hex() != t.To().Hex() || o.Gas() != t.Gas() || string(o.Data()) != string(t.Data()) || o.ETXSender().Hex() != t.ETXSender().Hex() {
				return "exec:altered", fmt.Sprintf("ETX %v changed in transit: emitted to=%s gas=%d data=%x, executed to=%s gas=%d data=%x", id, o.To().Hex(), o.Gas(), o.Data(), t.To().Hex(), t.Gas(), t.Data())
			}
			if !conv && (o.Value().Cmp(t.Value()) != 0 || o.EtxType() != t.EtxType()) {
				return "exec:altered-value", fmt.Sprintf("non-conversion ETX %v changed value/type in transit: %v/%d -> %v/%d", id, o.Value(), o.EtxType(), t.Value(), t.EtxType())
			}
			if conv && t.EtxType() != types.ConversionType && t.EtxType() != types.ConversionRevertType {
				return "exec:altered-type", fmt.Sprintf("conversion ETX %v arrives with type %d", id, t.EtxType())
			}
			executed[id] = h
			execSeq = append(execSeq, id)
		}
	}
	// order: the sequence executed is the concatenation, over the canonical dom-coincident blocks in
	// chain order, of the inbound lists the dominant chain handed down (a prefix of it)
	var expected []c04Id
	avail := map[c04Id]int{}
	for _, b := range s.blocks {
		for _, t := range s.n.VInboundEtxs(b) {
			id := c04IdOf(t)
			if _, dup := avail[id]; dup {
				return "deliver:twice", fmt.Sprintf("ETX %v is handed down by the dominant chain twice (second time with block %d)", id, b.NumberU64(2))
			}
			if _, ok := emitted[id]; !ok {
				return "deliver:never-emitted", fmt.Sprintf("dominant chain hands down ETX %v that no canonical zone block emitted", id)
			}
			avail[id] = len(expected)
			expected = append(expected, id)
		}
	}
	if len(execSeq) > len(expected) {
		return "exec:more-than-delivered", fmt.Sprintf("%d ETXs executed but only %d handed down", len(execSeq), len(expected))
	}
	for i, id := range execSeq {
		if expected[i] != id {
			return "exec:out-of-order", fmt.Sprintf("execution position %d is ETX %v but the dominant-chain order has %v there", i, id, expected[i])
		}
	}
	if final {
		for _, id := range emitOrder {
			em := emitted[id]
			if em.height >= mustDeliverBefore {
				continue
			}
			if _, ok := avail[id]; !ok {
				return "deliver:lost", fmt.Sprintf("ETX %v emitted at height %d was never handed down although %d further prime blocks followed", id, em.height, 3)
			}
			if _, ok := executed[id]; !ok {
				return "exec:lost", fmt.Sprintf("ETX %v emitted at height %d was handed down but never executed (chain height %d)", id, em.height, s.blocks[len(s.blocks)-1].NumberU64(2))
			}
		}
	}
	return "", ""
}

const c04Warmup = "zp"
const c04Drain = "pzpzpzz"

func c04Words(maxLen int) []string {
	var out []string
	var rec func(cur string)
	rec = func(cur string) {
		if len(cur) > 0 && cur[len(cur)-1] != 'c' {
			out = append(out, cur)
		}
		if len(cur) == maxLen {
			return
		}
		for _, ch := range "zrpc" {
			if ch == 'c' && len(cur) > 0 && cur[len(cur)-1] == 'c' {
				continue // one conversion per block is enough here (C20 explores conversion sets)
			}
			rec(cur + string(ch))
		}
	}
	rec("")
	return out
}

// c04OfferForged plays a hostile peer: for the block just appended it offers the dominant chains
// (region and prime) pending-ETX bundles and roll-ups that carry the block's real header but a
// different ETX list. Each must be refused, and - checked by the monitor on everything that follows -
// must not influence what is later handed down ("altered in transit").
func c04OfferForged(s *scen, blk *types.WorkObject) (string, string) {
	real := blk.OutboundEtxs()
	var forged types.Transactions
	if len(real) > 0 {
		in := real[0]
		to := *in.To()
		forged = append(forged, types.NewTx(&types.ExternalTx{To: &to, Gas: in.Gas(), Value: new(big.Int).Mul(in.Value(), big.NewInt(1000)), EtxType: in.EtxType(), OriginatingTxHash: in.OriginatingTxHash(), ETXIndex: in.ETXIndex(), Sender: in.ETXSender(), Data: in.Data()}))
		forged = append(forged, real[1:]...)
		forged = append(forged, real[0]) // and a duplicate of the genuine first one
	} else {
		to := s.k[1].Addr
		forged = append(forged, types.NewTx(&types.ExternalTx{To: &to, Gas: 21000, Value: big.NewInt(1e18), EtxType: types.DefaultType, OriginatingTxHash: blk.Hash(), ETXIndex: 0, Sender: s.k[0].Addr}))
	}
	for ctx := 0; ctx <= 1; ctx++ {
		if s.n.Sl[ctx] == nil {
			continue
		}
		err := s.n.Sl[ctx].AddPendingEtxs(types.PendingEtxs{Header: blk.ConvertToPEtxView(), OutboundEtxs: forged})
		if err == nil {
			return "forged-pending-etxs-accepted", fmt.Sprintf("context %d accepted a pending-ETX bundle for block %d whose list (%d ETXs, first value x1000) does not hash to the header's ETX hash", ctx, blk.NumberU64(2), len(forged))
		}
		err = s.n.Sl[ctx].AddPendingEtxsRollup(types.PendingEtxsRollup{Header: blk.ConvertToPEtxView(), EtxsRollup: forged})
		if err == nil {
			return "forged-rollup-accepted", fmt.Sprintf("context %d accepted a pending-ETX roll-up for block %d whose list does not hash to the header's roll-up hash", ctx, blk.NumberU64(2))
		}
	}
	return "", ""
}

// c04RunWord walks one word; hostile=true additionally offers forged pending-ETX bundles after
// every block (c04OfferForged).
func c04RunWord(word string, p *vx.Part, hostile bool) (string, string, string) {
	return c04RunWordMode(word, p, hostile, false)
}

// c04RunWordMode: siblings=true mines EVERY block of the walk as two siblings (the node follows b1,
// then reorganises to b2; scen.forkAll): reorganisations at the level of every block's order.
func c04RunWordMode(word string, p *vx.Part, hostile, siblings bool) (string, string, string) {
	s, err := newScen(3, false, nil)
	if err != nil {
		return "harness", err.Error(), ""
	}
	defer s.close()
	s.forkAll = siblings
	full := c04Warmup + word
	var hk, hd string
	if hostile {
		// the hostile peer's bundle arrives before the genuine one
		s.n.PreDeliver = func(blk *types.WorkObject) {
			if k, d := c04OfferForged(s, blk); k != "" && hk == "" {
				hk, hd = k, fmt.Sprintf("block %d: %s", blk.NumberU64(2), d)
			}
		}
	}
	for i := 0; i < len(full); i++ {
		if err := s.runWord(full[i : i+1]); err != nil {
			if siblings {
				return "reorganised-chain-stuck", fmt.Sprintf("word %q step %d, every block mined as two siblings (b1 followed, then b2): %v", word, i, err), ""
			}
			if hostile {
				// the same word walks through without the hostile peer (checked first): the refusal is
				// an effect of the forged bundles
				return "forged-bundle-blocks-chain", fmt.Sprintf("word %q step %d, hostile peer offering forged pending-ETX bundles: %v", word, i, err), ""
			}
			return "harness", fmt.Sprintf("word %q step %d: %v", word, i, err), ""
		}
		if full[i] == 'c' {
			continue
		}
		if p != nil {
			p.Transitions++
		}
		if hk != "" {
			return hk, fmt.Sprintf("word %q step %d: %s", word, i, hd), ""
		}
		if k, d := c04Monitor(s, false, 0); k != "" {
			return k, fmt.Sprintf("word %q after step %d: %s", word, i, d), ""
		}
	}
	emitLimit := s.blocks[len(s.blocks)-1].NumberU64(2) + 1
	if err := s.runWord(c04Drain); err != nil {
		if siblings {
			return "reorganised-chain-stuck", fmt.Sprintf("word %q drain, every block mined as two siblings: %v", word, err), ""
		}
		if hostile {
			return "forged-bundle-blocks-chain", fmt.Sprintf("word %q drain, hostile peer offered forged pending-ETX bundles before: %v", word, err), ""
		}
		return "harness", fmt.Sprintf("word %q drain: %v", word, err), ""
	}
	if k, d := c04Monitor(s, true, emitLimit); k != "" {
		return k, fmt.Sprintf("word %q after drain: %s", word, d), ""
	}
	emitted, executed := 0, 0
	// what was executed, in order: type, value and destination of every inbound ETX (the seal of a
	// block is not part of it, so the walk with sibling blocks must reproduce it exactly)
	h := sha256.New()
	for _, b := range s.blocks {
		emitted += len(b.OutboundEtxs())
		for _, t := range b.Transactions() {
			if t.Type() == types.ExternalTxType {
				executed++
				fmt.Fprintf(h, "%d/%v/%x;", t.EtxType(), t.Value(), t.To().Bytes())
			}
		}
	}
	return "", "", fmt.Sprintf("emitted=%d,executed=%d,executed-list=%x", emitted, executed, h.Sum(nil)[:4])
}

func c04Routing(c *vx.Ctx) {
	p := c.Part("routing")
	maxLen := 4
	if c.Thorough() {
		maxLen = 6
	}
	p.Bound("word_length", maxLen)
	p.Bound("alphabet", "z,r,p = block of that order; c = inject a Quai->Qi conversion")
	p.Bound("warmup", c04Warmup)
	p.Bound("drain", c04Drain)
	words := c04Words(maxLen)
	if c.Shard == 0 {
		p.States = int64(len(words))
	}
	for i, w := range words {
		if !c.Mine(int64(i)) {
			continue
		}
		if c.Expired() {
			p.Incomplete("deadline")
			return
		}
		key, desc, cls := c04RunWord(w, p, false)
		if key == "harness" {
			c.HarnessError(desc)
			return
		}
		p.Traces++
		if key != "" {
			p.Outcome("VIOLATED:" + key)
			w := w
			if c.Confirm(desc, func() string { k, _, _ := c04RunWord(w, nil, false); return k }) {
				c.Violate("routing", "routing:"+key, desc, map[string]string{"word": w})
			}
			continue
		}
		p.Outcome(cls)
		if i%23 == 0 {
			p.Sample(map[string]string{"word": w, "result": cls})
		}
		// the same word with a hostile peer offering forged bundles after every block
		hkey, hdesc, hcls := c04RunWord(w, p, true)
		if hkey == "harness" {
			c.HarnessError(hdesc)
			return
		}
		p.Traces++
		if hkey == "" && hcls != cls {
			hkey, hdesc = "forged-bundle-changes-routing", fmt.Sprintf("word %q: with forged bundles offered the walk ends with %s, without them with %s", w, hcls, cls)
		}
		if hkey != "" {
			p.Outcome("VIOLATED:hostile:" + hkey)
			w := w
			if c.Confirm(hdesc, func() string {
				k, _, c2 := c04RunWord(w, nil, true)
				if k == "" && c2 != cls {
					k = "forged-bundle-changes-routing"
				}
				return k
			}) {
				c.Violate("routing", "routing:hostile:"+hkey, hdesc, map[string]string{"word": w, "hostile": "1"})
			}
			continue
		}
		p.Outcome("hostile:" + hcls)
		// the same word with every block mined as two siblings (reorganisation at every level)
		skey, sdesc, scls := c04RunWordMode(w, p, false, true)
		if skey == "harness" {
			c.HarnessError(sdesc)
			return
		}
		p.Traces++
		if skey == "" && scls != cls {
			skey, sdesc = "reorganisations-change-routing", fmt.Sprintf("word %q: with every block reorganised to its sibling the walk ends with %s, without with %s", w, scls, cls)
		}
		if skey != "" {
			p.Outcome("VIOLATED:siblings:" + skey)
			w := w
			if c.Confirm(sdesc, func() string {
				k, _, c2 := c04RunWordMode(w, nil, false, true)
				if k == "" && c2 != cls {
					k = "reorganisations-change-routing"
				}
				return k
			}) {
				c.Violate("routing", "routing:siblings:"+skey, sdesc, map[string]string{"word": w, "siblings": "1"})
			}
			continue
		}
		p.Outcome("siblings:" + scls)
	}
}

// ---- inclusion rules ------------------------------------------------------------------------------

// c04Inclusion: on own blocks that carry >= 2 inbound ETXs, every single edit of the inbound list
// must be rejected (the queue is committed by the ETX-set root and must be consumed in order).
func c04Inclusion(c *vx.Ctx) {
	p := c.Part("inclusion")
	prefixes := []string{"zpczpzp", "zpzpczpczp", "zpczrzpzrp"}
	if c.Thorough() {
		prefixes = append(prefixes, "zpczpczpzp", "zprczpzrzp", "zpzpzpzp")
	}
	p.Bound("prefixes", prefixes)
	muts := c04InclMutations()
	p.Bound("mutations", len(muts))
	var idx int64
	for _, pre := range prefixes {
		idx++
		if !c.Mine(idx) {
			continue
		}
		key, desc := c04InclCase(c, p, pre, muts, "")
		if key == "harness" {
			c.HarnessError(desc)
			return
		}
	}
	if c.Shard == 0 {
		p.States = int64(len(prefixes))
	}
}

type c04Mut struct {
	Name  string
	Apply func(s *scen, wo *types.WorkObject) bool
}

func c04Inbound(wo *types.WorkObject) (idx []int) {
	for i, t := range wo.Body().Transactions() {
		if t.Type() == types.ExternalTxType {
			idx = append(idx, i)
		}
	}
	return
}

func c04InclMutations() []c04Mut {
	fix := func(wo *types.WorkObject) { wo.Header().SetTxHash(c07DeriveTx(wo.Body().Transactions())) }
	cp := func(wo *types.WorkObject) types.Transactions {
		return append(types.Transactions{}, wo.Body().Transactions()...)
	}
	return []c04Mut{
		{"swap-first-two-inbound", func(s *scen, wo *types.WorkObject) bool {
			ix := c04Inbound(wo)
			if len(ix) < 2 || wo.Body().Transactions()[ix[0]].Hash() == wo.Body().Transactions()[ix[1]].Hash() {
				return false
			}
			t := cp(wo)
			t[ix[0]], t[ix[1]] = t[ix[1]], t[ix[0]]
			wo.Body().SetTransactions(t)
			fix(wo)
			return true
		}},
		{"duplicate-first-inbound", func(s *scen, wo *types.WorkObject) bool {
			ix := c04Inbound(wo)
			if len(ix) < 1 {
				return false
			}
			t := cp(wo)
			t = append(t[:ix[0]+1], append(types.Transactions{t[ix[0]]}, t[ix[0]+1:]...)...)
			wo.Body().SetTransactions(t)
			fix(wo)
			return true
		}},
		{"drop-first-inbound-keep-rest", func(s *scen, wo *types.WorkObject) bool {
			ix := c04Inbound(wo)
			if len(ix) < 2 {
				return false
			}
			t := cp(wo)
			t = append(t[:ix[0]], t[ix[0]+1:]...)
			wo.Body().SetTransactions(t)
			fix(wo)
			return true
		}},
		{"replace-first-inbound-by-unknown", func(s *scen, wo *types.WorkObject) bool {
			ix := c04Inbound(wo)
			if len(ix) < 1 {
				return false
			}
			t := cp(wo)
			in := t[ix[0]]
			to := *in.To()
			t[ix[0]] = types.NewTx(&types.ExternalTx{To: &to, Gas: in.Gas(), Value: in.Value(), EtxType: in.EtxType(), OriginatingTxHash: flipHash(in.OriginatingTxHash()), ETXIndex: in.ETXIndex(), Sender: in.ETXSender(), Data: in.Data()})
			wo.Body().SetTransactions(t)
			fix(wo)
			return true
		}},
		{"alter-first-inbound-value", func(s *scen, wo *types.WorkObject) bool {
			ix := c04Inbound(wo)
			if len(ix) < 1 {
				return false
			}
			t := cp(wo)
			in := t[ix[0]]
			to := *in.To()
			t[ix[0]] = types.NewTx(&types.ExternalTx{To: &to, Gas: in.Gas(), Value: new(big.Int).Add(in.Value(), big.NewInt(1)), EtxType: in.EtxType(), OriginatingTxHash: in.OriginatingTxHash(), ETXIndex: in.ETXIndex(), Sender: in.ETXSender(), Data: in.Data()})
			wo.Body().SetTransactions(t)
			fix(wo)
			return true
		}},
		{"omit-all-inbound", func(s *scen, wo *types.WorkObject) bool {
			ix := c04Inbound(wo)
			if len(ix) < 1 {
				return false
			}
			var t types.Transactions
			for _, x := range wo.Body().Transactions() {
				if x.Type() != types.ExternalTxType {
					t = append(t, x)
				}
			}
			wo.Body().SetTransactions(t)
			fix(wo)
			return true
		}},
	}
}

// c04InclCase runs prefix, then for the next zone block (which carries the inbound ETXs) tries each
// mutation. only != "" restricts to one mutation (replay).
func c04InclCase(c *vx.Ctx, p *vx.Part, pre string, muts []c04Mut, only string) (string, string) {
	s, err := newScen(3, false, nil)
	if err != nil {
		return "harness", err.Error()
	}
	defer s.close()
	if err := s.runWord(pre); err != nil {
		return "harness", fmt.Sprintf("prefix %q: %v", pre, err)
	}
	probe, err := s.n.Build(core.VBuildOpts{Order: 2, Fill: true})
	if err != nil {
		return "harness", "build: " + err.Error()
	}
	nin := len(c04Inbound(probe))
	if p != nil {
		p.Outcome(fmt.Sprintf("prefix-%s:inbound=%d", pre, nin))
	}
	first := ""
	firstDesc := ""
	for i := range muts {
		m := muts[i]
		if only != "" && m.Name != only {
			continue
		}
		applicable := true
		blk, err := s.n.Build(core.VBuildOpts{Order: 2, Fill: true, PreSeal: func(wo *types.WorkObject) { applicable = m.Apply(s, wo) }})
		if err != nil {
			return "harness", "build: " + err.Error()
		}
		if !applicable {
			continue
		}
		var res core.VAppendResult
		perr := vx.Guard(func() { res = s.n.Append(blk) })
		if p != nil {
			p.Transitions++
			p.Traces++
		}
		key, desc := "", ""
		if perr != "" {
			key, desc = "inclusion:"+m.Name+":panic:"+vx.PanicSite(perr), perr
		} else if res.Err() == nil {
			key, desc = "inclusion:"+m.Name+":accepted", fmt.Sprintf("prefix %q: a block whose inbound ETX list was edited (%s, %d inbound in the honest block) is accepted", pre, m.Name, nin)
		}
		if key == "" {
			if p != nil {
				p.Outcome(m.Name + "=>" + c07ErrClass(res.Err()))
			}
			continue
		}
		if p != nil {
			p.Outcome(m.Name + "=>ACCEPTED")
		}
		if first == "" {
			first, firstDesc = key, desc
		}
		if c != nil && only == "" {
			pre, name := pre, m.Name
			if c.Confirm(desc, func() string { k, _ := c04InclCase(nil, nil, pre, muts, name); return k }) {
				c.Violate("inclusion", key, desc, map[string]string{"prefix": pre, "mutation": m.Name})
			}
		}
		break // node state moved on
	}
	return first, firstDesc
}

func c04ReplayRoute(c *vx.Ctx, v vx.Violation, raw []byte) string {
	var cs map[string]string
	if err := jsonUnmarshal(raw, &cs); err != nil {
		return "bad replay: " + err.Error()
	}
	if v.Part == "routing" {
		if cs["siblings"] != "" {
			_, d, cls := c04RunWordMode(cs["word"], nil, false, true)
			if d == "" {
				if _, _, plain := c04RunWord(cs["word"], nil, false); plain != cls {
					d = fmt.Sprintf("word %q: with every block reorganised to its sibling the walk ends with %s, without with %s", cs["word"], cls, plain)
				}
			}
			return d
		}
		_, d, cls := c04RunWord(cs["word"], nil, cs["hostile"] != "")
		if d == "" && cs["hostile"] != "" {
			if _, _, plain := c04RunWord(cs["word"], nil, false); plain != cls {
				d = fmt.Sprintf("word %q: with forged bundles offered the walk ends with %s, without them with %s", cs["word"], cls, plain)
			}
		}
		return d
	}
	_, d := c04InclCase(nil, nil, cs["prefix"], c04InclMutations(), cs["mutation"])
	return d
}

var _ = strings.Join

// ---- routing across prime-level forks --------------------------------------------------------------

// c04Forks: after every word (warm-up + word with conversions in flight) two SIBLING prime blocks P1
// and P2 are built on the same parents. Node A sees P1 and then P2 (a reorganisation at all three
// levels), node B only P2. What the dominant chain hands down with P2 (the inbound ETX list the
// zone stores for it: ids, types, repriced values) must be identical on A and B, their canonical
// projections must agree, and the blocks A then mines on P2 must be accepted by B.
func c04Forks(c *vx.Ctx) {
	p := c.Part("routing-forks")
	maxLen := 3
	if c.Thorough() {
		maxLen = 5
	}
	words := c04Words(maxLen)
	p.Bound("word_length", maxLen)
	if c.Shard == 0 {
		p.States = int64(len(words))
	}
	for i, w := range words {
		if !c.Mine(int64(i)) {
			continue
		}
		if c.Expired() {
			p.Incomplete("deadline")
			return
		}
		var key, desc, cls string
		if perr := vx.Guard(func() { key, desc, cls = c04RunFork(w) }); perr != "" {
			key, desc = "panic:"+vx.PanicSite(perr), perr
		}
		if key == "harness" {
			c.HarnessError(fmt.Sprintf("fork word %q: %s", w, desc))
			return
		}
		p.Transitions += 3
		p.Traces++
		if key != "" {
			p.Outcome("VIOLATED:" + key)
			w := w
			if c.Confirm(desc, func() string {
				var k string
				vx.Guard(func() { k, _, _ = c04RunFork(w) })
				return k
			}) {
				c.Violate("routing-forks", "forks:"+key, desc, map[string]string{"word": w})
			}
			continue
		}
		p.Outcome(cls)
		if i%13 == 0 {
			p.Sample(map[string]string{"word": w, "result": cls})
		}
	}
}

func c04EtxListKey(l types.Transactions) string {
	var sb strings.Builder
	for _, t := range l {
		fmt.Fprintf(&sb, "%v/type%d/val%v/to%x;", c04IdOf(t), t.EtxType(), t.Value(), t.To().Bytes()[:3])
	}
	return sb.String()
}

func c04RunFork(word string) (string, string, string) {
	// builder: produces the common history and the two siblings
	x, err := newScen(3, false, nil)
	if err != nil {
		return "harness", err.Error(), ""
	}
	defer x.close()
	if err := x.runWord(c04Warmup + word + "z"); err != nil {
		return "harness", err.Error(), ""
	}
	common := append([]*types.WorkObject{}, x.blocks...)
	p1, err := x.n.Build(core.VBuildOpts{Order: 0, Fill: true, Salt: 11})
	if err != nil {
		return "harness", "P1: " + err.Error(), ""
	}
	p2, err := x.n.Build(core.VBuildOpts{Order: 0, Fill: true, Salt: 23})
	if err != nil {
		return "harness", "P2: " + err.Error(), ""
	}
	if p1.Hash() == p2.Hash() {
		return "harness", "siblings are identical", ""
	}
	mk := func(blocks ...*types.WorkObject) (*scen, error) {
		s, err := newScen(3, false, nil)
		if err != nil {
			return nil, err
		}
		for i, b := range append(append([]*types.WorkObject{}, common...), blocks...) {
			if r := s.n.Append(b); r.Err() != nil {
				s.close()
				return nil, fmt.Errorf("block %d (height %d): %v", i, b.NumberU64(2), r.Err())
			}
		}
		return s, nil
	}
	a, err := mk(p1, p2)
	if err != nil {
		return "switch-to-sibling-prime-refused", fmt.Sprintf("word %q: node that saw P1 cannot switch to its sibling P2: %v", word, err), ""
	}
	defer a.close()
	b, err := mk(p2)
	if err != nil {
		return "harness", "node B: " + err.Error(), ""
	}
	defer b.close()
	la, lb := c04EtxListKey(a.n.VInboundEtxs(p2)), c04EtxListKey(b.n.VInboundEtxs(p2))
	if la != lb {
		return "handed-down-list-depends-on-siblings-seen", fmt.Sprintf("word %q: inbound ETXs stored for prime block P2 differ: node that also saw sibling P1 has [%s], node that only saw P2 has [%s]", word, la, lb), ""
	}
	if d := c10CanonDiff(a.n.VCanon(), b.n.VCanon()); d != "" {
		return "canon:" + strings.SplitN(d, ":", 2)[0], fmt.Sprintf("word %q: after switching P1->P2 the node differs from the one that only saw P2:\n%s", word, c11Short(d)), ""
	}
	// A mines on, B must accept
	for i, ch := range "zpz" {
		o := core.VBuildOpts{Order: map[rune]int{'z': 2, 'p': 0}[ch], Fill: true}
		blk, err := a.n.Mine(o)
		if err != nil {
			return "own-block-rejected-after-fork", fmt.Sprintf("word %q: node A rejects its own block %d after the fork: %v", word, i, err), ""
		}
		if r := b.n.Append(blk); r.Err() != nil {
			return "follow-up-block-refused-by-peer", fmt.Sprintf("word %q: block %d mined by the node that saw both siblings is refused by the node that only saw P2: %v", word, i, r.Err()), ""
		}
	}
	return "", "", fmt.Sprintf("inbound-with-P2=%d", len(a.n.VInboundEtxs(p2)))
}
