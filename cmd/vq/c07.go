package main

// C07 — own blocks validate; any deviation from re-execution is rejected without trace.
//
// For every mempool content (all arrival sequences of <= L distinct transactions from the menu)
// on top of every chain prefix of the family, the REAL worker assembles a block; the harness seals
// it and feeds it through the wire form into Slice.Append + SetCurrentHeader (liveness half).
// Before that, every applicable single-component mutation of that block (declared results, body
// with stale roots, body with consistently recomputed roots) is built the same way, re-sealed and
// offered to the node: it must be rejected, the head must not move and a full key/value diff of
// the zone database must be empty outside records keyed by the rejected block's own hash.

import (
	"bytes"
	"errors"
	"fmt"
	"math/big"
	"strings"
	"time"

	"github.com/dominant-strategies/go-quai/common"
	"github.com/dominant-strategies/go-quai/core"
	"github.com/dominant-strategies/go-quai/core/types"
	"github.com/dominant-strategies/go-quai/trie"
	"github.com/dominant-strategies/go-quai/verifshim/vx"
)

func init() {
	register(vx.CheckSpec{ID: "C07", Shards: 16, QuickBudget: 100 * time.Second, ThoroughBudg: 25 * time.Minute, Run: runC07, ReplayFn: replayC07})
}

type c07Case struct {
	Prefix  string `json:"prefix"`
	Mempool []int  `json:"mempool"` // indices into scenMenu, in arrival order
	Mut     string `json:"mutation,omitempty"`
}

type c07Mut struct {
	Name string
	// Apply mutates the assembled block in place; returns false when not applicable.
	Apply func(s *scen, wo *types.WorkObject) bool
}

func flipHash(h common.Hash) common.Hash { h[31] ^= 1; return h }

func c07DeriveTx(txs types.Transactions) common.Hash {
	if len(txs) == 0 {
		return types.EmptyRootHash
	}
	return types.DeriveSha(txs, trie.NewStackTrie(nil))
}

func c07Mutations() []c07Mut {
	var ms []c07Mut
	hdr := func(name string, f func(h *types.Header)) {
		ms = append(ms, c07Mut{"header:" + name, func(s *scen, wo *types.WorkObject) bool { f(wo.Header()); return true }})
	}
	hdr("evmRoot", func(h *types.Header) { h.SetEVMRoot(flipHash(h.EVMRoot())) })
	hdr("utxoRoot", func(h *types.Header) { h.SetUTXORoot(flipHash(h.UTXORoot())) })
	hdr("etxSetRoot", func(h *types.Header) { h.SetEtxSetRoot(flipHash(h.EtxSetRoot())) })
	hdr("receiptHash", func(h *types.Header) { h.SetReceiptHash(flipHash(h.ReceiptHash())) })
	hdr("outboundEtxHash", func(h *types.Header) { h.SetOutboundEtxHash(flipHash(h.OutboundEtxHash())) })
	hdr("txHash", func(h *types.Header) { h.SetTxHash(flipHash(h.TxHash())) })
	hdr("uncleHash", func(h *types.Header) { h.SetUncleHash(flipHash(h.UncleHash())) })
	hdr("gasUsed+1", func(h *types.Header) { h.SetGasUsed(h.GasUsed() + 1) })
	hdr("gasUsed-1", func(h *types.Header) {
		if h.GasUsed() > 0 {
			h.SetGasUsed(h.GasUsed() - 1)
		} else {
			h.SetGasUsed(21000)
		}
	})
	hdr("stateUsed+1", func(h *types.Header) { h.SetStateUsed(h.StateUsed() + 1) })
	hdr("quaiStateSize+1", func(h *types.Header) { h.SetQuaiStateSize(new(big.Int).Add(h.QuaiStateSize(), big.NewInt(1))) })
	hdr("avgTxFees+1", func(h *types.Header) { h.SetAvgTxFees(new(big.Int).Add(h.AvgTxFees(), big.NewInt(1))) })
	hdr("totalFees+1", func(h *types.Header) { h.SetTotalFees(new(big.Int).Add(h.TotalFees(), big.NewInt(1))) })

	body := func(name string, fix bool, f func(s *scen, wo *types.WorkObject) bool) {
		n := "body-stale-roots:" + name
		if fix {
			n = "body-fixed-roots:" + name
		}
		ms = append(ms, c07Mut{n, func(s *scen, wo *types.WorkObject) bool {
			if !f(s, wo) {
				return false
			}
			if fix {
				wo.Header().SetTxHash(c07DeriveTx(wo.Body().Transactions()))
				wo.Header().SetOutboundEtxHash(c07DeriveTx(wo.Body().OutboundEtxs()))
			}
			return true
		}})
	}
	for _, fix := range []bool{false, true} {
		body("drop-last-tx", fix, func(s *scen, wo *types.WorkObject) bool {
			txs := wo.Body().Transactions()
			if len(txs) == 0 {
				return false
			}
			wo.Body().SetTransactions(append(types.Transactions{}, txs[:len(txs)-1]...))
			return true
		})
		body("drop-first-tx", fix, func(s *scen, wo *types.WorkObject) bool {
			txs := wo.Body().Transactions()
			if len(txs) < 2 {
				return false
			}
			wo.Body().SetTransactions(append(types.Transactions{}, txs[1:]...))
			return true
		})
		body("duplicate-last-tx", fix, func(s *scen, wo *types.WorkObject) bool {
			txs := wo.Body().Transactions()
			if len(txs) == 0 {
				return false
			}
			wo.Body().SetTransactions(append(append(types.Transactions{}, txs...), txs[len(txs)-1]))
			return true
		})
		body("add-foreign-tx", fix, func(s *scen, wo *types.WorkObject) bool {
			// a well-formed, correctly signed transfer from the unfunded key k[2] that the worker never saw
			to := s.k[0].Addr
			tx := s.n.QuaiTx(s.k[2], 0, &to, big.NewInt(1), 21000, scenPrice, nil)
			wo.Body().SetTransactions(append(append(types.Transactions{}, wo.Body().Transactions()...), tx))
			return true
		})
		body("alter-tx-value", fix, func(s *scen, wo *types.WorkObject) bool {
			// replace the first plain k0/k1 transfer by a re-signed one with another value
			txs := wo.Body().Transactions()
			for i, tx := range txs {
				if tx.Type() != types.QuaiTxType || tx.To() == nil || len(tx.Data()) != 0 {
					continue
				}
				for _, k := range s.k[:2] {
					from, err := types.Sender(s.n.Signer(), tx)
					if err != nil || !from.Equal(k.Addr) {
						continue
					}
					to := *tx.To()
					ntx := s.n.QuaiTx(k, tx.Nonce(), &to, new(big.Int).Add(tx.Value(), big.NewInt(7)), tx.Gas(), tx.GasPrice(), nil)
					cp := append(types.Transactions{}, txs...)
					cp[i] = ntx
					wo.Body().SetTransactions(cp)
					return true
				}
			}
			return false
		})
		body("swap-first-two-differently-priced", fix, func(s *scen, wo *types.WorkObject) bool {
			txs := wo.Body().Transactions()
			for i := 0; i+1 < len(txs); i++ {
				a, b := txs[i], txs[i+1]
				if a.Type() != types.QuaiTxType || b.Type() != types.QuaiTxType {
					continue
				}
				if a.GasPrice().Cmp(b.GasPrice()) <= 0 {
					continue // after the swap the price-ordering rule must be violated
				}
				cp := append(types.Transactions{}, txs...)
				cp[i], cp[i+1] = b, a
				wo.Body().SetTransactions(cp)
				return true
			}
			return false
		})
		body("drop-first-outbound-etx", fix, func(s *scen, wo *types.WorkObject) bool {
			e := wo.Body().OutboundEtxs()
			if len(e) == 0 {
				return false
			}
			wo.Body().SetOutboundEtxs(append(types.Transactions{}, e[1:]...))
			return true
		})
		body("duplicate-outbound-etx", fix, func(s *scen, wo *types.WorkObject) bool {
			e := wo.Body().OutboundEtxs()
			if len(e) == 0 {
				return false
			}
			wo.Body().SetOutboundEtxs(append(append(types.Transactions{}, e...), e[0]))
			return true
		})
		body("alter-outbound-etx-value", fix, func(s *scen, wo *types.WorkObject) bool {
			e := wo.Body().OutboundEtxs()
			if len(e) == 0 {
				return false
			}
			in := e[0]
			to := *in.To()
			ne := types.NewTx(&types.ExternalTx{To: &to, Gas: in.Gas(), Value: new(big.Int).Add(in.Value(), big.NewInt(1)), EtxType: in.EtxType(),
				OriginatingTxHash: in.OriginatingTxHash(), ETXIndex: in.ETXIndex(), Sender: in.ETXSender(), Data: in.Data(), AccessList: in.AccessList()})
			cp := append(types.Transactions{}, e...)
			cp[0] = ne
			wo.Body().SetOutboundEtxs(cp)
			return true
		})
		body("drop-inbound-etx", fix, func(s *scen, wo *types.WorkObject) bool {
			txs := wo.Body().Transactions()
			for i, tx := range txs {
				if tx.Type() == types.ExternalTxType {
					cp := append(append(types.Transactions{}, txs[:i]...), txs[i+1:]...)
					wo.Body().SetTransactions(cp)
					return true
				}
			}
			return false
		})
	}
	return ms
}

func c07Sequences(maxLen int) [][]int {
	n := len(scenMenu())
	out := [][]int{{}}
	var rec func(cur []int)
	rec = func(cur []int) {
		if len(cur) == maxLen {
			return
		}
		for i := 0; i < n; i++ {
			dup := false
			for _, c := range cur {
				if c == i {
					dup = true
				}
			}
			if dup {
				continue
			}
			nx := append(append([]int{}, cur...), i)
			out = append(out, nx)
			rec(nx)
		}
	}
	rec(nil)
	return out
}

// c07Setup builds the node, runs the prefix and fills the mempool.
func c07Setup(cs c07Case) (*scen, []string, error) {
	s, err := newScen(3, true, nil)
	if err != nil {
		return nil, nil, err
	}
	if err := s.runWord(scenPrefixes[cs.Prefix]); err != nil {
		s.close()
		return nil, nil, err
	}
	menu := scenMenu()
	var admitted []string
	for _, i := range cs.Mempool {
		tx := menu[i].Make(s)
		if tx == nil {
			admitted = append(admitted, "n/a")
			continue
		}
		if errs := s.n.AddTxs(tx); errs[0] != nil {
			admitted = append(admitted, "refused")
		} else {
			admitted = append(admitted, "ok")
		}
	}
	return s, admitted, nil
}

// c07Attempt offers one (possibly mutated) block to the node and reports what happened.
// outcome: "" applied mutation rejected cleanly; otherwise a violation description. key = class.
func c07Attempt(s *scen, mut *c07Mut) (applied bool, verdict string, key string, desc string) {
	applicable := true
	opts := core.VBuildOpts{Order: 2, Fill: true}
	if mut != nil {
		opts.PreSeal = func(wo *types.WorkObject) { applicable = mut.Apply(s, wo) }
	}
	headBefore := s.n.Zone().HeaderChain().CurrentHeader().Hash()
	blk, err := s.n.Build(opts)
	if err != nil {
		return false, "", "harness", "build failed: " + err.Error()
	}
	if !applicable {
		return false, "n/a", "", ""
	}
	pre := core.VSnapshot(s.n.DB[2])
	var res core.VAppendResult
	perr := vx.Guard(func() { res = s.n.Append(blk) })
	if mut == nil {
		if perr != "" {
			return true, "panic", "own-block:panic:" + vx.PanicSite(perr), "node panicked on its own block: " + perr
		}
		if res.Err() != nil {
			return true, "rejected", "own-block-rejected:" + c07ErrClass(res.Err()), fmt.Sprintf("the node rejected the block its own worker assembled: %v", res.Err())
		}
		if err := s.n.VCheckCommitments(blk); err != nil {
			return true, "accepted", "own-block-commitment:" + strings.SplitN(err.Error(), ":", 2)[0], "own block accepted but commitments do not describe the stored state: " + err.Error()
		}
		return true, "accepted", "", ""
	}
	if perr != "" {
		return true, "panic", mut.Name + ":panic:" + vx.PanicSite(perr), "node panicked on a mutated block: " + perr
	}
	if res.Err() == nil {
		return true, "accepted", mut.Name + ":accepted", "mutated block was accepted (" + mut.Name + ")"
	}
	if h := s.n.Zone().HeaderChain().CurrentHeader().Hash(); h != headBefore {
		return true, "rejected", mut.Name + ":head-moved", "head moved although the block was rejected"
	}
	post := core.VSnapshot(s.n.DB[2])
	var leaks []string
	hh := string(blk.Hash().Bytes())
	for _, d := range core.VDiff(pre, post) {
		raw := d[1:]
		_ = raw
		leaks = append(leaks, d)
	}
	// keep only keys that are not keyed by the rejected block's own hash
	var real []string
	for k, v := range post {
		if pv, ok := pre[k]; ok && pv == v {
			continue
		}
		if bytes.Contains([]byte(k), []byte(hh)) {
			continue
		}
		real = append(real, "+~"+core.VKeyName(k))
	}
	for k := range pre {
		if _, ok := post[k]; !ok && !bytes.Contains([]byte(k), []byte(hh)) {
			real = append(real, "-"+core.VKeyName(k))
		}
	}
	if len(real) > 0 {
		cls := real[0]
		if i := strings.Index(cls, ":"); i > 0 {
			cls = cls[:i]
		}
		return true, "rejected", mut.Name + ":trace:" + cls, fmt.Sprintf("rejected block (%v) left a trace in the database outside its own records: %v", res.Err(), real)
	}
	return true, "rejected:" + c07ErrClass(res.Err()), "", ""
}

func c07ErrClass(err error) string {
	s := err.Error()
	for _, cut := range []string{"(", "0x", " have ", " [", ": "} {
		if i := strings.Index(s, cut); i > 8 {
			s = s[:i]
		}
	}
	if len(s) > 60 {
		s = s[:60]
	}
	return strings.TrimSpace(s)
}

func runC07(c *vx.Ctx) {
	core.VScaleParams(core.VR1)
	c.Rule = "all arrival sequences of <=L distinct menu transactions x chain prefixes; for each assembled block every applicable single-component mutation (13 declared-result fields, 11 body edits x {stale roots, recomputed roots}); outcome class = mutation kind x rejection reason; etx-backlog: runs of k zone blocks made prime-coincident at once, k around both inbound-ETX floors; map-order: prefix + mempool + assembly under 12 fixed map-iteration draws"
	c.Assume("scaled protocol constants: " + fmt.Sprint(core.VScaled))
	c.Assume("records keyed by the rejected block's own hash (candidate header/body blob written before validation, termini, pending-ETX blob) are not chain state")
	c.Assume("injected consensus engine: pow hash = MixHash chosen by the harness; seals are re-made after every mutation")
	maxLen := 2
	prefixes := []string{"C14"}
	if c.Thorough() {
		maxLen = 3
		prefixes = []string{"C14", "P5", "P16"}
	}
	if !c.Wants("own-blocks+mutations") {
		c07Backlog(c)
		c07MapOrder(c)
		return
	}
	p := c.Part("own-blocks+mutations")
	p.Bound("mempool_sequence_length", maxLen)
	p.Bound("prefixes", prefixes)
	muts := c07Mutations()
	p.Bound("mutations", len(muts))
	seqs := c07Sequences(maxLen)
	var idx int64
outer:
	for _, pre := range prefixes {
		for _, seq := range seqs {
			idx++
			if !c.Mine(idx) {
				continue
			}
			if c.Expired() {
				p.Incomplete("deadline")
				break outer
			}
			cs := c07Case{Prefix: pre, Mempool: seq}
			c07RunCase(c, p, cs, muts)
		}
	}
	if c.Shard == 0 {
		p.States = int64(len(prefixes) * len(seqs))
	}
	c07Backlog(c)
	c07MapOrder(c)
}

func c07RunCase(c *vx.Ctx, p *vx.Part, cs c07Case, muts []c07Mut) {
	s, admitted, err := c07Setup(cs)
	if err != nil {
		var rej core.VOwnBlockRejected
		if errors.As(err, &rej) {
			// the chain prefix is built by the node's own worker too: a refusal there is the same violation
			key := "own-block-rejected:in-prefix:" + c07ErrClass(rej.Err)
			desc := fmt.Sprintf("while building prefix %s the node rejected a block its own worker assembled: %v", cs.Prefix, err)
			if c.Confirm(desc, func() string {
				_, _, e2 := c07Setup(cs)
				if errors.As(e2, &rej) {
					return key
				}
				return ""
			}) {
				c.Violate("own-blocks+mutations", key, desc, cs)
			}
			return
		}
		c.HarnessError(fmt.Sprintf("setup %v: %v", cs, err))
		return
	}
	defer s.close()
	p.Outcome("mempool:" + strings.Join(admitted, ","))
	for i := range muts {
		m := &muts[i]
		applied, verdict, key, desc := c07Attempt(s, m)
		if key == "harness" {
			c.HarnessError(fmt.Sprintf("%v %s: %s", cs, m.Name, desc))
			return
		}
		if !applied {
			continue
		}
		p.Transitions++
		p.Outcome(strings.SplitN(m.Name, ":", 2)[0] + "=>" + verdict)
		if key != "" {
			c07Report(c, cs, m.Name, key, desc)
			if strings.Contains(key, ":accepted") {
				return // node state moved on; remaining mutations would run on a different parent
			}
		}
	}
	// liveness half: the untouched block must append
	_, verdict, key, desc := c07Attempt(s, nil)
	p.Transitions++
	p.Traces++
	p.Outcome("own=>" + verdict)
	if key == "harness" {
		c.HarnessError(fmt.Sprintf("%v own block: %s", cs, desc))
		return
	}
	if key != "" {
		c07Report(c, cs, "", key, desc)
	} else {
		p.Sample(map[string]any{"prefix": cs.Prefix, "mempool": cs.Mempool, "admitted": admitted, "txs_in_block": len(s.n.Heads[2].Transactions()), "outbound": len(s.n.Heads[2].OutboundEtxs())})
	}
}

func c07Report(c *vx.Ctx, cs c07Case, mut, key, desc string) {
	cs.Mut = mut
	if c.Confirm(desc, func() string { return c07Replay(cs, key) }) {
		c.Violate("own-blocks+mutations", key, desc, cs)
	}
}

// c07Replay re-executes one case on a fresh node; returns the violation key if it reproduces.
func c07Replay(cs c07Case, wantKey string) string {
	s, _, err := c07Setup(cs)
	if err != nil {
		return "setup-error:" + err.Error()
	}
	defer s.close()
	if cs.Mut == "" {
		_, _, key, _ := c07Attempt(s, nil)
		return key
	}
	for _, m := range c07Mutations() {
		if m.Name == cs.Mut {
			mm := m
			_, _, key, _ := c07Attempt(s, &mm)
			return key
		}
	}
	return ""
}

func replayC07(c *vx.Ctx, v vx.Violation) string {
	if v.Part == "map-order" {
		return replayViaVqm(v)
	}
	core.VScaleParams(core.VR1)
	if v.Part == "etx-backlog" {
		raw, _ := jsonMarshal(v.Replay)
		var b struct {
			Backlog c07BacklogCase `json:"backlog"`
		}
		if err := jsonUnmarshal(raw, &b); err != nil {
			return "bad replay: " + err.Error()
		}
		_, d, _, h := c07BacklogRun(b.Backlog)
		if h != "" {
			return "harness: " + h
		}
		return d
	}
	raw, _ := jsonMarshal(v.Replay)
	var cs c07Case
	if err := jsonUnmarshal(raw, &cs); err != nil {
		return "bad replay: " + err.Error()
	}
	if k := c07Replay(cs, v.Key); k != "" {
		return "reproduced: " + k
	}
	return ""
}
