package main

// C04 — cross-chain transactions are delivered and executed exactly once, in order.
//
// Part "queue": explicit-state BFS over the real StateDB destination queue (PushETXs / PopETX /
// ReadETX / CommitEtxs + reopen at the root / Copy) in lock-step with a FIFO list, from index
// cells preset so that growth crosses the 1->2 and 2->3 byte key boundaries.
// Part "routing": every block-order word on a real prime/region/zone node with conversions and
// coinbase ETXs in flight; a monitor records every ETX emitted by a canonical zone block and every
// external transaction executed at the destination (see c04_route.go).
// Part "inclusion": every own block carrying inbound ETXs is mutated (swap, duplicate, drop,
// unknown, altered, omitted) and must be rejected (see c04_route.go).

import (
	"fmt"
	"math/big"
	"strings"
	"time"

	"github.com/dominant-strategies/go-quai/common"
	"github.com/dominant-strategies/go-quai/core"
	"github.com/dominant-strategies/go-quai/core/rawdb"
	"github.com/dominant-strategies/go-quai/core/state"
	"github.com/dominant-strategies/go-quai/core/types"
	"github.com/dominant-strategies/go-quai/verifshim/vx"
)

func init() {
	register(vx.CheckSpec{ID: "C04", Shards: 16, QuickBudget: 110 * time.Second, ThoroughBudg: 25 * time.Minute, Run: runC04, ReplayFn: replayC04})
}

type c04QOp struct {
	Kind string `json:"op"` // push1 push2 push3 pop commit copy
}

var c04QOps = []string{"push1", "push2", "push3", "pop", "commit", "copy"}

type c04Q struct {
	db    state.Database
	st    *state.StateDB
	model []common.Hash
	old   uint64
	newI  uint64
	seq   int
}

func c04NewQ(start uint64) (*c04Q, error) {
	lg := core.VNewLogger()
	mem := rawdb.NewMemoryDatabase(lg)
	db := state.NewDatabaseWithConfig(mem, nil)
	st, err := state.New(types.EmptyRootHash, types.EmptyRootHash, big.NewInt(0), db, db, nil, core.VZoneLoc, lg)
	if err != nil {
		return nil, err
	}
	q := &c04Q{db: db, st: st, old: start, newI: start}
	if start > 0 {
		if err := st.VSetEtxIndices(start, start); err != nil {
			return nil, err
		}
	}
	return q, nil
}

func (q *c04Q) mkEtx() *types.Transaction {
	q.seq++
	to := common.HexToAddress("0x0011111111111111111111111111111111111111", core.VZoneLoc)
	var oh common.Hash
	oh[1], oh[31] = byte(q.seq>>8), byte(q.seq)
	return types.NewTx(&types.ExternalTx{To: &to, Gas: 21000, Value: big.NewInt(int64(q.seq)), EtxType: types.DefaultType, OriginatingTxHash: oh, ETXIndex: uint16(q.seq), Sender: to})
}

// step applies op to the real queue and the model; returns a divergence description or "".
func (q *c04Q) step(op string) string {
	switch op {
	case "push1", "push2", "push3":
		n := int(op[4] - '0')
		var etxs []*types.Transaction
		for i := 0; i < n; i++ {
			e := q.mkEtx()
			etxs = append(etxs, e)
			q.model = append(q.model, e.Hash())
		}
		if err := q.st.PushETXs(etxs); err != nil {
			return "push error: " + err.Error()
		}
		q.newI += uint64(n)
	case "pop":
		e, err := q.st.PopETX()
		if err != nil {
			return "pop error: " + err.Error()
		}
		if len(q.model) == 0 {
			if e != nil {
				return fmt.Sprintf("pop on an empty queue returned %x", e.Hash().Bytes()[:6])
			}
			return ""
		}
		if e == nil {
			return fmt.Sprintf("pop returned nothing although %d items are queued", len(q.model))
		}
		if e.Hash() != q.model[0] {
			return fmt.Sprintf("pop returned %x, FIFO head is %x", e.Hash().Bytes()[:6], q.model[0].Bytes()[:6])
		}
		q.model = q.model[1:]
		q.old++
	case "commit":
		root, err := q.st.CommitEtxs()
		if err != nil {
			return "commit error: " + err.Error()
		}
		if err := q.db.TrieDB().Commit(root, false, nil); err != nil {
			return "triedb commit error: " + err.Error()
		}
		st, err := state.New(types.EmptyRootHash, root, big.NewInt(0), q.db, q.db, nil, core.VZoneLoc, core.VNewLogger())
		if err != nil {
			return "reopen error: " + err.Error()
		}
		q.st = st
	case "copy":
		q.st = q.st.Copy()
	}
	return q.observe()
}

// observe: indices and every queued element readable in order.
func (q *c04Q) observe() string {
	o, err1 := q.st.GetOldestIndex()
	n, err2 := q.st.GetNewestIndex()
	if err1 != nil || err2 != nil {
		return fmt.Sprintf("index read error %v %v", err1, err2)
	}
	if o.Uint64() != q.old || n.Uint64() != q.newI {
		return fmt.Sprintf("indices (%d,%d), model (%d,%d)", o.Uint64(), n.Uint64(), q.old, q.newI)
	}
	for i, h := range q.model {
		e, err := q.st.ReadETX(new(big.Int).SetUint64(q.old + uint64(i)))
		if err != nil || e == nil || e.Hash() != h {
			return fmt.Sprintf("ReadETX(%d) does not return queued item %d (err %v)", q.old+uint64(i), i, err)
		}
	}
	if e, _ := q.st.ReadETX(new(big.Int).SetUint64(q.newI)); e != nil {
		return "ReadETX(newest) returns an item beyond the queue"
	}
	return ""
}

func (q *c04Q) key() string {
	var sb strings.Builder
	fmt.Fprintf(&sb, "%d/%d:", q.old, q.newI)
	for _, h := range q.model {
		fmt.Fprintf(&sb, "%x,", h[28:])
	}
	return sb.String()
}

func c04RunQHist(start uint64, hist []string) (div string, key string, root common.Hash) {
	q, err := c04NewQ(start)
	if err != nil {
		return "harness: " + err.Error(), "", common.Hash{}
	}
	for i, op := range hist {
		var d string
		if perr := vx.Guard(func() { d = q.step(op) }); perr != "" {
			return fmt.Sprintf("step %d (%s): panic %s", i, op, perr), "", common.Hash{}
		}
		if d != "" {
			return fmt.Sprintf("step %d (%s) of %v from index %d: %s", i, op, hist, start, d), "", common.Hash{}
		}
	}
	return "", q.key(), q.st.ETXRoot()
}

func c04Queue(c *vx.Ctx) {
	p := c.Part("queue")
	depth := 5
	if c.Thorough() {
		depth = 7
	}
	starts := []uint64{0, 254, 65534}
	p.Bound("depth", depth)
	p.Bound("start_indices", starts)
	p.Bound("ops", c04QOps)
	roots := map[string]common.Hash{}
	rootHist := map[string]string{}
	var idx int64
	for _, start := range starts {
		frontier := [][]string{{}}
		seen := map[string]bool{}
		for d := 1; d <= depth; d++ {
			var next [][]string
			for _, h := range frontier {
				for _, op := range c04QOps {
					idx++
					hist := append(append([]string{}, h...), op)
					mine := c.Mine(idx)
					if c.Expired() {
						p.Incomplete("deadline")
						return
					}
					div, key, root := c04RunQHist(start, hist)
					if mine {
						p.Transitions++
						p.Traces++
					}
					if div != "" {
						if mine {
							p.Outcome(op + "=>DIVERGED")
							start, hist := start, hist
							cls := "queue:" + strings.SplitN(strings.SplitN(div, ": ", 2)[len(strings.SplitN(div, ": ", 2))-1], " ", 3)[0]
							if c.Confirm(div, func() string {
								d, _, _ := c04RunQHist(start, hist)
								if d != "" {
									return cls
								}
								return ""
							}) {
								c.Violate("queue", cls, div, map[string]any{"start": start, "hist": hist})
							}
						}
						continue
					}
					if mine {
						p.Outcome(fmt.Sprintf("%s/len%d", op, strings.Count(key, ",")))
					}
					// the root commits to the content: equal (indices, content) => equal root.
					// (sequence numbers make items unique per history position, so compare roots of
					// histories whose item multiset is identical: same key)
					if r, ok := roots[key]; ok && r != root && mine {
						c.Violate("queue", "queue:root-depends-on-history", fmt.Sprintf("queue state %s has ETX root %x after %v but %x after %s", key, root[:6], hist, r[:6], rootHist[key]), map[string]any{"start": start, "hist": hist})
					} else if !ok {
						roots[key] = root
						rootHist[key] = fmt.Sprint(hist)
					}
					if !seen[key+"|"+fmt.Sprint(len(hist))] || true {
						next = append(next, hist)
					}
				}
			}
			// prune: keep one history per (model state) to bound the frontier (sound: the model state
			// determines the future behaviour of the FIFO; divergences are checked on every transition)
			uniq := map[string]bool{}
			var pruned [][]string
			for _, h := range next {
				_, k, _ := c04RunQHist(start, h)
				// items are numbered by creation order, so the key also fixes the next sequence number
				if !uniq[k] {
					uniq[k] = true
					pruned = append(pruned, h)
				}
			}
			frontier = pruned
			p.MaxDepth = int64(d)
			if c.Shard == 0 {
				p.States += int64(len(pruned))
			}
		}
	}
}

func runC04(c *vx.Ctx) {
	core.VScaleParams(core.VR1)
	c.Rule = "queue: BFS over push/pop/commit+reopen/copy histories of the real ETX queue vs a FIFO list from 3 preset indices; routing: all block-order words with ETX-emitting activity under an id monitor; inclusion: single mutations of the inbound ETX list of own blocks; every routing word also with a hostile peer's forged bundles arriving first and with every block mined as two siblings (all three walks must execute the same ETX list); two-zones: all words over zone/region/prime blocks of two zones, cross-zone transactions and sibling switches on a two-zone node; map-order: routing words under 12 fixed map-iteration draws"
	c.Assume("scaled protocol constants: " + fmt.Sprint(core.VScaled))
	if c.Wants("queue") {
		c04Queue(c)
	}
	if c.Wants("routing") {
		c04Routing(c)
	}
	if c.Wants("inclusion") {
		c04Inclusion(c)
	}
	if c.Wants("routing-forks") {
		c04Forks(c)
	}
	if c.Wants("two-zones") {
		c04TwoZones(c)
	}
	c04MapOrder(c)
}

func replayC04(c *vx.Ctx, v vx.Violation) string {
	core.VScaleParams(core.VR1)
	raw, _ := jsonMarshal(v.Replay)
	if v.Part == "queue" {
		var cs struct {
			Start uint64   `json:"start"`
			Hist  []string `json:"hist"`
		}
		if err := jsonUnmarshal(raw, &cs); err != nil {
			return "bad replay: " + err.Error()
		}
		d, _, _ := c04RunQHist(cs.Start, cs.Hist)
		return d
	}
	if v.Part == "two-zones" {
		return c04ReplayTwoZones(raw)
	}
	if v.Part == "map-order" {
		return replayViaVqm(v)
	}
	if v.Part == "routing-forks" {
		var cs map[string]string
		if err := jsonUnmarshal(raw, &cs); err != nil {
			return "bad replay: " + err.Error()
		}
		_, d, _ := c04RunFork(cs["word"])
		return d
	}
	return c04ReplayRoute(c, v, raw)
}
