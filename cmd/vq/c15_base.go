package main

// C15 baselines: well-formed objects encoded by the PRODUCTION encoders (what an honest node
// would put on the wire / on disk / into an RPC call). Deviations are applied to these.

import (
	"crypto/ecdsa"
	"encoding/json"
	"fmt"
	"math/big"

	"github.com/btcsuite/btcd/btcec/v2"
	"github.com/btcsuite/btcd/btcec/v2/schnorr"
	"google.golang.org/protobuf/proto"
	"google.golang.org/protobuf/reflect/protoreflect"

	"github.com/dominant-strategies/go-quai/common"
	"github.com/dominant-strategies/go-quai/core/types"
	"github.com/dominant-strategies/go-quai/crypto"
	"github.com/dominant-strategies/go-quai/p2p/pb"
	"github.com/dominant-strategies/go-quai/params"
	"github.com/dominant-strategies/go-quai/trie"
)

var c15Loc = common.Location{0, 0}

type c15Baseline struct {
	Name string
	Kind string // selects the entry points it is fed to
	Data []byte
	Desc protoreflect.MessageDescriptor // nil for non-protobuf baselines
}

func c15Key() *ecdsa.PrivateKey {
	k, err := crypto.HexToECDSA("345debf66bc68724062b236d3b0a6eb30f051e725ebb770f1dc367f2c569f003")
	if err != nil {
		panic(err)
	}
	return k
}

func c15H(b byte) common.Hash {
	var h common.Hash
	for i := range h {
		h[i] = b
	}
	return h
}

// c15QuaiTx returns a correctly signed Quai transaction for chain id 1337 in zone [0,0].
func c15QuaiTx(nonce uint64, withWork bool) *types.Transaction {
	to := common.HexToAddress("0x0000000000000000000000000000000000000002", c15Loc)
	inner := &types.QuaiTx{
		ChainID:  big.NewInt(1337),
		Nonce:    nonce,
		GasPrice: big.NewInt(1000000000),
		Gas:      21000,
		To:       &to,
		Value:    big.NewInt(1),
		Data:     []byte{0x04, 0x05},
		AccessList: types.AccessList{types.AccessTuple{
			Address:     to,
			StorageKeys: []common.Hash{c15H(0x21)},
		}},
	}
	if withWork {
		ph, mh := c15H(0x31), c15H(0x32)
		wn := types.EncodeNonce(7)
		inner.ParentHash, inner.MixHash, inner.WorkNonce = &ph, &mh, &wn
	}
	signer := types.NewSigner(big.NewInt(1337), c15Loc)
	tx, err := types.SignTx(types.NewTx(inner), signer, c15Key())
	if err != nil {
		panic(err)
	}
	return tx
}

func c15QiTx() *types.Transaction {
	priv, pub := btcec.PrivKeyFromBytes(crypto.FromECDSA(c15Key()))
	h := c15H(0x41)
	in := types.TxIn{PreviousOutPoint: *types.NewOutPoint(&h, 1), PubKey: pub.SerializeUncompressed()}
	addr := common.HexToAddress("0x0080000000000000000000000000000000000002", c15Loc)
	out := types.TxOut{Denomination: 1, Address: addr.Bytes(), Lock: big.NewInt(0)}
	ph, mh := c15H(0x33), c15H(0x34)
	wn := types.EncodeNonce(9)
	inner := &types.QiTx{ChainID: big.NewInt(1337), TxIn: types.TxIns{in}, TxOut: types.TxOuts{out}, Data: []byte{0x01}, ParentHash: &ph, MixHash: &mh, WorkNonce: &wn}
	signer := types.NewSigner(big.NewInt(1337), c15Loc)
	txHash := signer.Hash(types.NewTx(inner))
	sig, err := schnorr.Sign(priv, txHash[:])
	if err != nil {
		panic(err)
	}
	inner.Signature = sig
	return types.NewTx(inner)
}

func c15EtxTx() *types.Transaction {
	to := common.HexToAddress("0x0000000000000000000000000000000000000003", c15Loc)
	sender := common.HexToAddress("0x0100000000000000000000000000000000000004", common.Location{0, 1})
	inner := &types.ExternalTx{
		OriginatingTxHash: c15H(0x51), ETXIndex: 1, Gas: 21000, To: &to, Value: big.NewInt(5), Data: []byte{0x09},
		AccessList: types.AccessList{}, Sender: sender, EtxType: types.DefaultType,
	}
	return types.NewTx(inner)
}

func c15Marshal(m proto.Message) []byte {
	b, err := proto.Marshal(m)
	if err != nil {
		panic(err)
	}
	return b
}

func c15AuxPow(id types.PowID) *types.AuxPow {
	var branch [][]byte
	b1 := c15H(0x61)
	branch = append(branch, b1[:])
	coinbaseOut := []byte{0x76, 0xa9, 0x14, 0x89, 0xab, 0xcd, 0xef, 0x88, 0xac}
	cb := types.NewAuxPowCoinbaseTx(id, 100, coinbaseOut, c15H(0x62), 123)
	hdr := types.NewBlockHeader(id, 4, c15H(0x63), c15H(0x64), 34545, 0x1d00ffff, 77, 298899)
	var aux2 []byte
	if id == types.Scrypt {
		d := c15H(0x65)
		aux2 = d[:]
	}
	sig := make([]byte, 64)
	for i := range sig {
		sig[i] = byte(i + 1)
	}
	return types.NewAuxPow(id, hdr, aux2, sig, branch, cb)
}

// c15WorkObject builds a fully populated zone work object. postFork selects a prime terminus
// number at/after the KawPow fork (the extra header fields and AuxPoW are then mandatory/allowed).
func c15WorkObject(postFork bool, pow types.PowID, withAux bool) *types.WorkObject {
	return c15WorkObjectX(postFork, pow, withAux, true)
}

// c15WorkObjectX: consistent=true gives a zone block whose body roots match its header (it passes
// the gossip sanity checks and the PoW filter: mix hash below target); consistent=false keeps the
// manifest / interlink fields populated (every protobuf field present).
func c15WorkObjectX(postFork bool, pow types.PowID, withAux bool, consistent bool) *types.WorkObject {
	wo := types.EmptyWorkObject(common.ZONE_CTX)
	wh := wo.WorkObjectHeader()
	wh.SetParentHash(c15H(0x11))
	wh.SetNumber(big.NewInt(3))
	wh.SetDifficulty(big.NewInt(1000))
	wh.SetPrimeTerminusNumber(big.NewInt(2))
	wh.SetTxHash(c15H(0x12))
	wh.SetLocation(c15Loc)
	wh.SetMixHash(common.BytesToHash([]byte{0x13, 0x13}))
	wh.SetPrimaryCoinbase(common.HexToAddress("0x0000000000000000000000000000000000000001", c15Loc))
	wh.SetTime(1700000000)
	wh.SetNonce(types.EncodeNonce(5))
	wh.SetLock(0)
	wh.SetData([]byte{0, 1, 2, 3})
	if postFork {
		wh.SetPrimeTerminusNumber(new(big.Int).SetUint64(params.KawPowForkBlock + 1))
		wh.SetShaDiffAndCount(types.NewPowShareDiffAndCount(big.NewInt(1000), big.NewInt(2), big.NewInt(1)))
		wh.SetScryptDiffAndCount(types.NewPowShareDiffAndCount(big.NewInt(2000), big.NewInt(3), big.NewInt(1)))
		wh.SetShaShareTarget(big.NewInt(1000))
		wh.SetScryptShareTarget(big.NewInt(1000))
		wh.SetKawpowDifficulty(big.NewInt(10000))
		if withAux {
			wh.SetAuxPow(c15AuxPow(pow))
		}
	}
	h := wo.Header()
	for i := 0; i < common.HierarchyDepth; i++ {
		h.SetParentEntropy(big.NewInt(int64(100+i)), i)
		h.SetParentDeltaEntropy(big.NewInt(int64(10+i)), i)
		h.SetParentUncledDeltaEntropy(big.NewInt(int64(1+i)), i)
		h.SetManifestHash(c15H(byte(0x70+i)), i)
	}
	for i := 0; i < common.HierarchyDepth-1; i++ {
		h.SetParentHash(c15H(byte(0x80+i)), i)
		h.SetNumber(big.NewInt(int64(1+i)), i)
	}
	h.SetGasLimit(12000000)
	h.SetGasUsed(42000)
	h.SetBaseFee(big.NewInt(1000000000))
	h.SetExtra([]byte("c15"))
	txs := []*types.Transaction{c15QuaiTx(0, true), c15QiTx(), c15EtxTx()}
	etxs := []*types.Transaction{c15EtxTx()}
	uncle := types.CopyWorkObjectHeader(wh)
	uncle.SetNonce(types.EncodeNonce(6))
	uncle.SetAuxPow(nil)
	body := wo.Body()
	body.SetTransactions(txs)
	body.SetOutboundEtxs(etxs)
	body.SetUncles([]*types.WorkObjectHeader{uncle})
	if !consistent {
		body.SetManifest(types.BlockManifest{c15H(0x91)})
		body.SetInterlinkHashes(common.Hashes{c15H(0x92), c15H(0x93)})
	}
	h.SetTxHash(types.DeriveSha(types.Transactions(txs), trie.NewStackTrie(nil)))
	h.SetOutboundEtxHash(types.DeriveSha(types.Transactions(etxs), trie.NewStackTrie(nil)))
	h.SetUncleHash(types.CalcUncleHash([]*types.WorkObjectHeader{uncle}))
	wh.SetTxHash(h.TxHash())
	wh.SetHeaderHash(h.Hash())
	wo.SetTx(c15QuaiTx(1, false))
	return wo
}

func c15Must[T any](v T, err error) T {
	if err != nil {
		panic(err)
	}
	return v
}

// c15ProtoTxBytes fills the swap menu used for transaction type confusion.
func c15InitTxPayloads() {
	c15TxPayloads["quai"] = c15Marshal(c15Must(c15QuaiTx(0, true).ProtoEncode()))
	c15TxPayloads["qi"] = c15Marshal(c15Must(c15QiTx().ProtoEncode()))
	c15TxPayloads["etx"] = c15Marshal(c15Must(c15EtxTx().ProtoEncode()))
}

func c15AuxTemplate() *types.AuxTemplate {
	at := types.NewAuxTemplate()
	at.SetPowID(types.Kawpow)
	at.SetPrevHash(c15H(0xa1))
	at.SetAuxPow2([]byte{})
	at.SetVersion(0x20000000)
	at.SetNBits(0x1d00ffff)
	at.SetSignatureTime(1700000000)
	at.SetHeight(298899)
	at.SetCoinbaseOut([]byte{0x76, 0xa9, 0x14, 0x89, 0xab, 0xcd, 0xef, 0x88, 0xac})
	b := c15H(0xa2)
	at.SetMerkleBranch([][]byte{b[:]})
	sig := make([]byte, 64)
	for i := range sig {
		sig[i] = byte(0xb0 + i%16)
	}
	at.SetSigs(sig)
	return at
}

// c15ProtoBaselines returns the protobuf baselines. nodeBlocks are blocks really produced and
// appended by the harness node (their headers pass the node's own sanity checks).
func c15ProtoBaselines(nodeBlocks []*types.WorkObject, thorough bool) []c15Baseline {
	var out []c15Baseline
	add := func(name, kind string, m proto.Message) {
		out = append(out, c15Baseline{Name: name, Kind: kind, Data: c15Marshal(m), Desc: m.ProtoReflect().Descriptor()})
	}
	pre := c15WorkObject(false, 0, false)
	preFull := c15WorkObjectX(false, 0, false, false)
	postKaw := c15WorkObject(true, types.Kawpow, true)

	// ---- gossip views ----
	add("blockview/prefork", "blockview", c15Must(pre.ConvertToBlockView().ProtoEncode()))
	add("blockview/allfields", "blockview", c15Must(preFull.ConvertToBlockView().ProtoEncode()))
	add("blockview/kawpow", "blockview", c15Must(postKaw.ConvertToBlockView().ProtoEncode()))
	add("headerview/prefork", "headerview", c15Must(pre.ConvertToHeaderView().ProtoEncode()))
	add("headerview/kawpow", "headerview", c15Must(postKaw.ConvertToHeaderView().ProtoEncode()))
	add("shareview/prefork", "shareview", c15Must(pre.ConvertToWorkObjectShareView(pre.Transactions()).ProtoEncode()))
	for _, id := range []types.PowID{types.Kawpow, types.SHA_BTC, types.SHA_BCH, types.Scrypt} {
		w := c15WorkObject(true, id, true)
		add("shareview/"+id.String(), "shareview", c15Must(w.ConvertToWorkObjectShareView(w.Transactions()).ProtoEncode()))
	}
	add("auxtemplate", "auxtemplate", c15AuxTemplate().ProtoEncode())
	if len(nodeBlocks) > 0 {
		nb := nodeBlocks[len(nodeBlocks)-1]
		add("blockview/node-head", "blockview", c15Must(nb.ConvertToBlockView().ProtoEncode()))
		add("headerview/node-head", "headerview", c15Must(nb.ConvertToHeaderView().ProtoEncode()))
		sv := types.CopyWorkObject(nb)
		stx := types.Transactions{c15QuaiTx(0, true), c15QiTx()}
		sv.WorkObjectHeader().SetTxHash(types.DeriveSha(stx, trie.NewStackTrie(nil)))
		add("shareview/node-head", "shareview", c15Must(sv.ConvertToWorkObjectShareView(stx).ProtoEncode()))
	}

	// ---- raw work objects (RPC submissions, rawdb) ----
	add("wo/petx", "wo-petx", c15Must(postKaw.ProtoEncode(types.PEtxObject)))
	add("wo/block", "wo-any", c15Must(postKaw.ProtoEncode(types.BlockObject)))
	add("woheader/prefork", "woheader", c15Must(pre.WorkObjectHeader().ProtoEncode()))
	add("woheader/kawpow", "woheader", c15Must(postKaw.WorkObjectHeader().ProtoEncode()))
	if thorough {
		for _, id := range []types.PowID{types.SHA_BTC, types.SHA_BCH, types.Scrypt} {
			w := c15WorkObject(true, id, true)
			add("woheader/"+id.String(), "woheader", c15Must(w.WorkObjectHeader().ProtoEncode()))
		}
	}
	add("header", "header", c15Must(postKaw.Header().ProtoEncode()))
	add("tx/quai", "tx", c15Must(c15QuaiTx(0, true).ProtoEncode()))
	add("tx/qi", "tx", c15Must(c15QiTx().ProtoEncode()))
	add("tx/etx", "tx", c15Must(c15EtxTx().ProtoEncode()))
	for _, id := range []types.PowID{types.Kawpow, types.SHA_BTC, types.SHA_BCH, types.Scrypt} {
		add("auxpow/"+id.String(), "auxpow", c15AuxPow(id).ProtoEncode())
	}

	// ---- request / response frames ----
	hsh := c15H(0xc1)
	if len(nodeBlocks) > 0 {
		hsh = nodeBlocks[0].Hash()
	}
	reqTypes := []struct {
		n string
		t interface{}
	}{{"block", &types.WorkObjectBlockView{}}, {"blocks", []*types.WorkObjectBlockView{}}, {"header", &types.WorkObjectHeaderView{}}, {"hash", common.Hash{}}}
	for _, rt := range reqTypes {
		for _, q := range []struct {
			n string
			d interface{}
		}{{"byhash", hsh}, {"bynumber", big.NewInt(1)}} {
			raw := c15Must(pb.EncodeQuaiRequest(7, c15Loc, q.d, rt.t))
			out = append(out, c15Baseline{Name: "request/" + rt.n + "/" + q.n, Kind: "quaimsg", Data: raw, Desc: (&pb.QuaiMessage{}).ProtoReflect().Descriptor()})
		}
	}
	respBlock := postKaw
	out = append(out, c15Baseline{Name: "response/block", Kind: "quaimsg", Desc: (&pb.QuaiMessage{}).ProtoReflect().Descriptor(),
		Data: c15Must(pb.EncodeQuaiResponse(7, c15Loc, &types.WorkObjectBlockView{}, respBlock.ConvertToBlockView()))})
	out = append(out, c15Baseline{Name: "response/header", Kind: "quaimsg", Desc: (&pb.QuaiMessage{}).ProtoReflect().Descriptor(),
		Data: c15Must(pb.EncodeQuaiResponse(7, c15Loc, &types.WorkObjectHeaderView{}, respBlock.ConvertToHeaderView()))})
	out = append(out, c15Baseline{Name: "response/blocks", Kind: "quaimsg", Desc: (&pb.QuaiMessage{}).ProtoReflect().Descriptor(),
		Data: c15Must(pb.EncodeQuaiResponse(7, c15Loc, []*types.WorkObjectBlockView{}, []*types.WorkObjectBlockView{pre.ConvertToBlockView(), respBlock.ConvertToBlockView()}))})
	out = append(out, c15Baseline{Name: "response/hash", Kind: "quaimsg", Desc: (&pb.QuaiMessage{}).ProtoReflect().Descriptor(),
		Data: c15Must(pb.EncodeQuaiResponse(7, c15Loc, &common.Hash{}, hsh))})
	out = append(out, c15Baseline{Name: "hash", Kind: "hash", Data: c15Marshal(hsh.ProtoEncode()), Desc: (&common.ProtoHash{}).ProtoReflect().Descriptor()})
	return out
}

// ---- donor chain baselines (raw bitcoin-style encodings) ----

type c15DonorBase struct {
	Pow      types.PowID
	Header   []byte // serialized donor header (80 or 120 bytes)
	Coinbase []byte
	Block    []byte // header | varint(1) | coinbase : the body of quai_submit*Block
}

func c15DonorBaselines() []c15DonorBase {
	var out []c15DonorBase
	for _, id := range []types.PowID{types.Kawpow, types.SHA_BTC, types.SHA_BCH, types.Scrypt} {
		ap := c15AuxPow(id)
		hb := ap.Header().Bytes()
		blk := append(append(append([]byte{}, hb...), 0x01), ap.Transaction()...)
		out = append(out, c15DonorBase{Pow: id, Header: hb, Coinbase: ap.Transaction(), Block: blk})
	}
	return out
}

// ---- JSON baselines ----

type c15JSONBase struct {
	Name string
	Data []byte
}

func c15JSONBaselines() []c15JSONBase {
	var out []c15JSONBase
	add := func(n string, v interface{}) {
		b, err := json.Marshal(v)
		if err != nil {
			panic(fmt.Sprintf("%s: %v", n, err))
		}
		out = append(out, c15JSONBase{n, b})
	}
	wo := c15WorkObject(true, types.Kawpow, true)
	add("workobject", wo.RPCMarshalWorkObject("v2"))
	add("woheader", wo.WorkObjectHeader().RPCMarshalWorkObjectHeader("v2"))
	add("header", wo.Header().RPCMarshalHeader())
	add("auxpow", wo.AuxPow().RPCMarshal())
	add("tx/quai", c15QuaiTx(0, true))
	add("tx/qi", c15QiTx())
	add("tx/etx", c15EtxTx())
	add("powshare", wo.WorkObjectHeader().ShaDiffAndCount().RPCMarshal())
	out = append(out, c15JSONBase{"hexbytes", []byte(`"0x0123456789abcdef"`)})
	out = append(out, c15JSONBase{"hexbig", []byte(`"0x1234567890abcdef1234"`)})
	out = append(out, c15JSONBase{"hexuint64", []byte(`"0xffffffffffffffff"`)})
	out = append(out, c15JSONBase{"hash", []byte(`"0x1111111111111111111111111111111111111111111111111111111111111111"`)})
	out = append(out, c15JSONBase{"address", []byte(`"0x0000000000000000000000000000000000000002"`)})
	out = append(out, c15JSONBase{"blocknumber", []byte(`"0x10"`)})
	out = append(out, c15JSONBase{"blocknumber-tag", []byte(`"latest"`)})
	out = append(out, c15JSONBase{"blocknumberorhash", []byte(`{"blockHash":"0x1111111111111111111111111111111111111111111111111111111111111111","requireCanonical":true}`)})
	out = append(out, c15JSONBase{"txargs", []byte(`{"from":"0x0000000000000000000000000000000000000001","to":"0x0000000000000000000000000000000000000002","gas":"0x5208","gasPrice":"0x3b9aca00","value":"0x1","nonce":"0x0","data":"0x0405","accessList":[{"address":"0x0000000000000000000000000000000000000002","storageKeys":["0x2121212121212121212121212121212121212121212121212121212121212121"]}],"chainId":"0x539","txType":"0x0"}`)})
	out = append(out, c15JSONBase{"filter", []byte(`{"fromBlock":"0x1","toBlock":"latest","address":["0x0000000000000000000000000000000000000002"],"topics":[["0x1111111111111111111111111111111111111111111111111111111111111111"],null]}`)})
	return out
}
