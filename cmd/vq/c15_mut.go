package main

// C15 input generators: byte-level deviations and protobuf-structure-level deviations of a
// well-formed baseline encoding. Everything is enumerated deterministically, simplest first.

import (
	"fmt"
	"sort"

	"google.golang.org/protobuf/encoding/protowire"
	"google.golang.org/protobuf/reflect/protoreflect"
)

// ---------------------------------------------------------------------------------------------
// byte level: every truncation length, every position set to {0x00, 0xff, +1}
// ---------------------------------------------------------------------------------------------

type c15ByteMut struct {
	Kind string // "trunc" | "set" | "span"
	Pos  int
	Val  byte
	Span string // hex of the bytes written from Pos on (kind span)
}

func (m c15ByteMut) String() string {
	if m.Kind == "trunc" {
		return fmt.Sprintf("trunc@%d", m.Pos)
	}
	if m.Kind == "span" {
		return fmt.Sprintf("bytes[%d..]=%s", m.Pos, m.Span)
	}
	return fmt.Sprintf("byte[%d]=0x%02x", m.Pos, m.Val)
}

// c15LengthSpans: multi-byte length encodings at their boundary values, written over the input at
// every position: Bitcoin compact-size (fd/fe/ff prefixes) with maximal and top-bit-set values,
// protobuf varints of 2^63 and 2^64-1, a 2^32-1 / 2^31 little-endian word. A single-byte deviation
// can never produce these (a 9-byte length whose top bit is set needs two bytes to change).
var c15LengthSpans = [][]byte{
	{0xfd, 0xff, 0xff},
	{0xfe, 0xff, 0xff, 0xff, 0xff},
	{0xfe, 0x00, 0x00, 0x00, 0x80},
	{0xff, 0xff, 0xff, 0xff, 0xff, 0xff, 0xff, 0xff, 0xff},
	{0xff, 0x00, 0x00, 0x00, 0x00, 0x00, 0x00, 0x00, 0x80},
	{0xff, 0xff, 0xff, 0xff, 0xff, 0xff, 0xff, 0xff, 0x7f},
	{0xff, 0xd8, 0xff, 0xff, 0xff, 0xff, 0xff, 0xff, 0xff},
	{0xff, 0xff, 0xff, 0xff, 0xff, 0xff, 0xff, 0xff, 0xff, 0x01},
	{0x80, 0x80, 0x80, 0x80, 0x80, 0x80, 0x80, 0x80, 0x80, 0x01},
}

// c15SpanLimit: baselines above this size get no span deviations in the quick tier.
const c15SpanLimit = 768

// c15ByteMuts calls f with every byte-level deviation of base (the buffer passed to f is reused).
func c15ByteMuts(base []byte, f func(m c15ByteMut, in []byte) bool) {
	c15ByteMutsOpt(base, true, f)
}

func c15ByteMutsOpt(base []byte, spans bool, f func(m c15ByteMut, in []byte) bool) {
	n := len(base)
	for k := 0; k < n; k++ {
		if !f(c15ByteMut{Kind: "trunc", Pos: k}, base[:k]) {
			return
		}
	}
	buf := make([]byte, n)
	for i := 0; i < n; i++ {
		orig := base[i]
		for _, v := range []byte{0x00, 0xff, orig + 1} {
			if v == orig {
				continue
			}
			// 0x00/0xff/+1 can coincide (orig=0xfe: 0xff twice; orig=0xff: +1 = 0x00 twice)
			if (v == orig+1) && (v == 0x00 || v == 0xff) {
				continue
			}
			copy(buf, base)
			buf[i] = v
			if !f(c15ByteMut{Kind: "set", Pos: i, Val: v}, buf) {
				return
			}
		}
	}
	if !spans {
		return
	}
	for i := 0; i < n; i++ {
		for _, sp := range c15LengthSpans {
			if i+len(sp) > n {
				continue
			}
			copy(buf, base)
			copy(buf[i:], sp)
			if !f(c15ByteMut{Kind: "span", Pos: i, Span: fmt.Sprintf("%x", sp)}, buf) {
				return
			}
		}
	}
}

func c15ByteMutCount(base []byte) int {
	n := 0
	c15ByteMuts(base, func(c15ByteMut, []byte) bool { n++; return true })
	return n
}

// ---------------------------------------------------------------------------------------------
// protobuf structure level
// ---------------------------------------------------------------------------------------------

// c15PNode is one field occurrence of a parsed protobuf message.
type c15PNode struct {
	Num    protowire.Number
	Typ    protowire.Type
	Val    []byte // BytesType: payload; VarintType: the value is in U; fixed: raw bytes
	U      uint64
	Kids   []*c15PNode // sub-message fields (only when IsMsg)
	IsMsg  bool
	MsgNam string // full name of the sub-message type
	Path   string // e.g. wo_body.transactions.transactions[1].gas
	Name   string
}

// c15ParseMsg parses b as message md; unknown fields are kept as opaque leaves.
func c15ParseMsg(b []byte, md protoreflect.MessageDescriptor, prefix string) ([]*c15PNode, error) {
	var out []*c15PNode
	occ := map[protowire.Number]int{}
	for len(b) > 0 {
		num, typ, n := protowire.ConsumeTag(b)
		if n < 0 {
			return nil, protowire.ParseError(n)
		}
		b = b[n:]
		nd := &c15PNode{Num: num, Typ: typ}
		var fd protoreflect.FieldDescriptor
		if md != nil {
			fd = md.Fields().ByNumber(num)
		}
		nd.Name = fmt.Sprintf("#%d", num)
		if fd != nil {
			nd.Name = string(fd.Name())
		}
		idx := occ[num]
		occ[num]++
		nd.Path = prefix + nd.Name
		if fd != nil && fd.Cardinality() == protoreflect.Repeated {
			nd.Path = fmt.Sprintf("%s%s[%d]", prefix, nd.Name, idx)
		}
		switch typ {
		case protowire.VarintType:
			v, n := protowire.ConsumeVarint(b)
			if n < 0 {
				return nil, protowire.ParseError(n)
			}
			nd.U = v
			b = b[n:]
		case protowire.Fixed32Type:
			if len(b) < 4 {
				return nil, fmt.Errorf("short fixed32")
			}
			nd.Val = append([]byte{}, b[:4]...)
			b = b[4:]
		case protowire.Fixed64Type:
			if len(b) < 8 {
				return nil, fmt.Errorf("short fixed64")
			}
			nd.Val = append([]byte{}, b[:8]...)
			b = b[8:]
		case protowire.BytesType:
			v, n := protowire.ConsumeBytes(b)
			if n < 0 {
				return nil, protowire.ParseError(n)
			}
			nd.Val = append([]byte{}, v...)
			b = b[n:]
			if fd != nil && (fd.Kind() == protoreflect.MessageKind) {
				kids, err := c15ParseMsg(v, fd.Message(), nd.Path+".")
				if err != nil {
					return nil, fmt.Errorf("%s: %v", nd.Path, err)
				}
				nd.IsMsg = true
				nd.MsgNam = string(fd.Message().FullName())
				nd.Kids = kids
			}
		default:
			return nil, fmt.Errorf("unsupported wire type %d", typ)
		}
		out = append(out, nd)
	}
	return out, nil
}

// c15PDev is one deviation applied at one node.
type c15PDev struct {
	Path string // node path
	Kind string // absent empty short long big lenover wiretype max dup type=N swap=K
}

func (d c15PDev) String() string { return d.Path + ":" + d.Kind }

// c15Tx holds serialized ProtoTransaction payloads used for type swapping.
var c15TxPayloads = map[string][]byte{} // "quai","qi","etx" -> ProtoTransaction bytes

// c15DevMenu lists the deviations applicable to a node. full=false gives the reduced menu used
// for pair enumeration in the quick tier.
func c15DevMenu(n *c15PNode, full bool) []string {
	var m []string
	m = append(m, "absent")
	switch n.Typ {
	case protowire.VarintType:
		m = append(m, "empty") // value 0
		if full {
			m = append(m, "max", "wiretype")
		}
	case protowire.BytesType:
		if len(n.Val) > 0 {
			m = append(m, "empty")
		}
		if n.IsMsg {
			if full {
				m = append(m, "dup", "short", "lenover", "wiretype")
			}
			if n.MsgNam == "block.ProtoTransaction" {
				for _, t := range []string{"type=0", "type=1", "type=2", "type=3"} {
					m = append(m, t)
				}
				for _, k := range []string{"quai", "qi", "etx"} {
					m = append(m, "swap="+k)
				}
			}
		} else {
			if len(n.Val) > 0 {
				m = append(m, "short")
			}
			m = append(m, "long")
			if full {
				m = append(m, "big", "lenover", "wiretype")
			}
		}
	default:
		if full {
			m = append(m, "wiretype")
		}
	}
	return m
}

// c15Flatten lists all nodes of the tree in document order.
func c15Flatten(ns []*c15PNode, out *[]*c15PNode) {
	for _, n := range ns {
		*out = append(*out, n)
		if n.IsMsg {
			c15Flatten(n.Kids, out)
		}
	}
}

// c15Serialize re-encodes the tree applying devs (keyed by node pointer).
func c15Serialize(ns []*c15PNode, devs map[*c15PNode]string) []byte {
	var b []byte
	for _, n := range ns {
		b = c15AppendNode(b, n, devs)
	}
	return b
}

func c15AppendNode(b []byte, n *c15PNode, devs map[*c15PNode]string) []byte {
	dev := devs[n]
	if dev == "absent" {
		return b
	}
	switch n.Typ {
	case protowire.VarintType:
		v := n.U
		switch dev {
		case "empty":
			v = 0
		case "max":
			v = ^uint64(0)
		case "wiretype":
			b = protowire.AppendTag(b, n.Num, protowire.BytesType)
			return protowire.AppendBytes(b, nil)
		}
		b = protowire.AppendTag(b, n.Num, protowire.VarintType)
		return protowire.AppendVarint(b, v)
	case protowire.Fixed32Type, protowire.Fixed64Type:
		if dev == "wiretype" {
			b = protowire.AppendTag(b, n.Num, protowire.VarintType)
			return protowire.AppendVarint(b, 1)
		}
		b = protowire.AppendTag(b, n.Num, n.Typ)
		return append(b, n.Val...)
	}
	// BytesType
	var payload []byte
	if n.IsMsg {
		payload = c15Serialize(n.Kids, devs)
	} else {
		payload = n.Val
	}
	switch {
	case dev == "empty":
		payload = nil
	case dev == "short":
		if len(payload) > 0 {
			payload = payload[:len(payload)-1]
		}
	case dev == "long":
		payload = append(append([]byte{}, payload...), 0xff)
	case dev == "big":
		p := append([]byte{}, payload...)
		for i := 0; i < 4096; i++ {
			p = append(p, 0xff)
		}
		payload = p
	case dev == "wiretype":
		b = protowire.AppendTag(b, n.Num, protowire.VarintType)
		return protowire.AppendVarint(b, 1)
	case dev == "lenover":
		b = protowire.AppendTag(b, n.Num, protowire.BytesType)
		b = protowire.AppendVarint(b, uint64(len(payload))+1000)
		return append(b, payload...)
	case dev == "dup":
		b = protowire.AppendTag(b, n.Num, protowire.BytesType)
		b = protowire.AppendBytes(b, payload)
	case len(dev) > 5 && dev[:5] == "type=":
		// transaction type confusion: keep every other field, change the type tag only
		t := uint64(dev[5] - '0')
		var kids []*c15PNode
		found := false
		for _, k := range n.Kids {
			if k.Name == "type" && k.Typ == protowire.VarintType {
				kk := *k
				kk.U = t
				kids = append(kids, &kk)
				found = true
			} else {
				kids = append(kids, k)
			}
		}
		if !found {
			kids = append([]*c15PNode{{Num: 1, Typ: protowire.VarintType, U: t, Name: "type"}}, kids...)
		}
		payload = c15Serialize(kids, devs)
	case len(dev) > 5 && dev[:5] == "swap=":
		payload = c15TxPayloads[dev[5:]]
	}
	b = protowire.AppendTag(b, n.Num, protowire.BytesType)
	return protowire.AppendBytes(b, payload)
}

func c15IsAncestor(a, d *c15PNode) bool {
	if !a.IsMsg {
		return false
	}
	for _, k := range a.Kids {
		if k == d || c15IsAncestor(k, d) {
			return true
		}
	}
	return false
}

// c15DevDestroys reports whether dev makes deviations below the node moot.
func c15DevDestroys(dev string) bool {
	switch dev {
	case "absent", "empty", "wiretype":
		return true
	}
	return len(dev) > 5 && dev[:5] == "swap="
}

// c15TxKindNoop: swapping/retyping a transaction to what it already is.
func c15DevIsNoop(n *c15PNode, dev string) bool {
	if len(dev) > 5 && dev[:5] == "type=" {
		for _, k := range n.Kids {
			if k.Name == "type" && k.U == uint64(dev[5]-'0') {
				return true
			}
		}
	}
	return false
}

// c15StructMuts enumerates all inputs with 1..k deviations (k<=2). menu2Full selects whether pairs
// use the full or the reduced deviation menu. f receives the deviation list and the encoding.
func c15StructMuts(tree []*c15PNode, k int, menu2Full bool, f func(devs []c15PDev, in []byte) bool) {
	var nodes []*c15PNode
	c15Flatten(tree, &nodes)
	// k = 1, full menu
	for _, n := range nodes {
		for _, d := range c15DevMenu(n, true) {
			if c15DevIsNoop(n, d) {
				continue
			}
			in := c15Serialize(tree, map[*c15PNode]string{n: d})
			if !f([]c15PDev{{n.Path, d}}, in) {
				return
			}
		}
	}
	if k < 2 {
		return
	}
	type sd struct {
		n *c15PNode
		d string
	}
	var all []sd
	for _, n := range nodes {
		for _, d := range c15DevMenu(n, menu2Full) {
			if c15DevIsNoop(n, d) {
				continue
			}
			all = append(all, sd{n, d})
		}
	}
	for i := 0; i < len(all); i++ {
		for j := i + 1; j < len(all); j++ {
			a, b := all[i], all[j]
			if a.n == b.n {
				continue
			}
			if c15IsAncestor(a.n, b.n) && c15DevDestroys(a.d) {
				continue
			}
			if c15IsAncestor(b.n, a.n) && c15DevDestroys(b.d) {
				continue
			}
			in := c15Serialize(tree, map[*c15PNode]string{a.n: a.d, b.n: b.d})
			if !f([]c15PDev{{a.n.Path, a.d}, {b.n.Path, b.d}}, in) {
				return
			}
		}
	}
}

func c15DevsString(d []c15PDev) string {
	s := ""
	for i, x := range d {
		if i > 0 {
			s += " + "
		}
		s += x.String()
	}
	return s
}

func c15SortedKeys(m map[string]int64) []string {
	ks := make([]string, 0, len(m))
	for k := range m {
		ks = append(ks, k)
	}
	sort.Strings(ks)
	return ks
}
