package main

// C02 — Quai ledger: executing a transaction never creates value.
//
// Program enumeration on the REAL state transition: contract A's code is every sequence of <= 2
// (thorough 3) fragments from a menu (CALL/CALLCODE/DELEGATECALL/STATICCALL to several targets,
// CREATE/CREATE2 with four init codes, SELFDESTRUCT to four beneficiaries, ETX, CONVERT, the lockup
// precompile, SSTORE, REVERT, INVALID, STOP), contract B's code comes from a second menu, and each
// pair is run under every message kind (call with value 0/1, call without access list, creation
// transaction whose init code is the program, inbound ETX) x gas limits x fork regimes through the
// real core.ApplyMessage (inbound ETXs with the real zero-address staging of ApplyTransaction).
// A second part enumerates the "special" messages (plain transfers, cross-chain sends by an EOA,
// the 27-byte self-destruct transaction, the kQuai setter, inbound ETXs, malformed envelopes).
//
// Oracle = the statement, from a full balance dump before/after:
//   sum(after) == sum(before) - gasCharge - sum over emitted ETXs (value + prepaid fee)
//                 + inbound value (successful inbound ETX) + rentRefund * #accounts self-destructed
//   gasUsed*price <= gasCharge <= gasLimit*price         (gasCharge = gas-pool delta * price)
//   every balance >= 0; a failed transaction leaves every balance but the payer's unchanged.

import (
	"fmt"
	"math/big"
	"sort"
	"strings"
	"time"

	"github.com/dominant-strategies/go-quai/common"
	"github.com/dominant-strategies/go-quai/core"
	"github.com/dominant-strategies/go-quai/core/state"
	"github.com/dominant-strategies/go-quai/core/types"
	"github.com/dominant-strategies/go-quai/core/vm"
	"github.com/dominant-strategies/go-quai/crypto"
	"github.com/dominant-strategies/go-quai/ethdb"
	"github.com/dominant-strategies/go-quai/params"
	"github.com/dominant-strategies/go-quai/verifshim/vx"
)

func init() {
	register(vx.CheckSpec{ID: "C02", Shards: 16, QuickBudget: 75 * time.Second, ThoroughBudg: 13 * time.Minute, Run: runC02, ReplayFn: replayC02})
}

// ---- balances of the standard world -----------------------------------------------------------

var (
	c02BalS = new(big.Int).Exp(big.NewInt(10), big.NewInt(24), nil)
	c02BalA = new(big.Int).Mul(big.NewInt(3), new(big.Int).Exp(big.NewInt(10), big.NewInt(19), nil))
	c02BalB = big.NewInt(1_000_000)
)

const (
	c02EtxTip = 1
	c02EtxCap = 2
	c02EtxGas = 21000
)

// ---- fragments -------------------------------------------------------------------------------

type c02Frag struct {
	ID   string
	Kind string // key-level name (arguments dropped)
	Term bool   // ends the frame: only allowed as last fragment
	Gen  func(a *c02Asm, self common.Address)
}

var c02InitCodes = map[string][]byte{}

func c02MakeInitCodes() {
	c02InitCodes["empty"] = nil
	c02InitCodes["code"] = (&c02Asm{}).Push(0).Push(0).Op(vm.MSTORE8).Push(1).Push(0).Op(vm.RETURN).Bytes() // deploys {STOP}
	c02InitCodes["revert"] = (&c02Asm{}).Push(0).Push(0).Op(vm.REVERT).Bytes()
	c02InitCodes["sd"] = (&c02Asm{}).PushAddr(c02S).Op(vm.SELFDESTRUCT).Bytes()
}

var c02InitOrder = []string{"empty", "code", "revert", "sd"}

// c02GoodSalt finds a CREATE2 salt that yields an in-zone Quai address for (creator, init).
var c02SaltCache = map[string]uint64{}

func c02GoodSalt(creator common.Address, init []byte) (uint64, bool) {
	ck := string(creator.Bytes()) + "|" + string(init)
	if s, ok := c02SaltCache[ck]; ok {
		return s, s != 0
	}
	s, ok := c02GoodSaltSearch(creator, init)
	if len(c02SaltCache) > 256 {
		c02SaltCache = map[string]uint64{}
	}
	c02SaltCache[ck] = s
	return s, ok
}

func c02GoodSaltSearch(creator common.Address, init []byte) (uint64, bool) {
	h := crypto.Keccak256(init)
	for s := uint64(1); s < 20000; s++ {
		var salt [32]byte
		for i := 0; i < 8; i++ {
			salt[31-i] = byte(s >> (8 * uint(i)))
		}
		if _, err := crypto.CreateAddress2(creator, salt, h, c02Loc).InternalAndQuaiAddress(); err == nil {
			return s, true
		}
	}
	return 0, false
}

func c02CallFrag(op vm.OpCode, name string, target *common.Address, tname string, value string, gas string) c02Frag {
	id := fmt.Sprintf("%s(%s,%s,%s)", name, tname, value, gas)
	return c02Frag{ID: id, Kind: fmt.Sprintf("%s(%s)", name, tname), Gen: func(a *c02Asm, self common.Address) {
		a.Push(0).Push(0).Push(0).Push(0) // retSize retOffset inSize inOffset
		if op == vm.CALL || op == vm.CALLCODE {
			switch value {
			case "bal+1":
				a.Op(vm.SELFBALANCE).Push(1).Op(vm.ADD)
			case "min":
				a.PushBig(params.MinQuaiConversionAmount)
			default:
				a.PushBig(c05Big(value))
			}
		}
		if target == nil {
			a.Op(vm.ADDRESS) // "self": position independent, also correct inside a creation transaction
		} else {
			a.PushAddr(*target)
		}
		switch gas {
		case "all":
			a.Op(vm.GAS)
		default:
			a.PushBig(c05Big(gas))
		}
		a.Op(op, vm.POP)
	}}
}

func c02Fixed(x common.Address) *common.Address { return &x }

func c02LockupFrag(id string, input []byte) c02Frag {
	return c02Frag{ID: id, Kind: id, Gen: func(a *c02Asm, self common.Address) {
		a.MStoreBytes(0, input)
		a.Push(0).Push(0).Push(uint64(len(input))).Push(0).Push(0).PushAddr(c02LK).Op(vm.GAS, vm.CALL, vm.POP)
	}}
}

func c02EtxFrag(id, kind string, dest common.Address, value *big.Int, blob []byte, pop bool) c02Frag {
	return c02Frag{ID: id, Kind: kind, Gen: func(a *c02Asm, self common.Address) {
		// payload of 2 bytes at memory 64 tags the ETX as "made by the ETX opcode" (see c02Carried)
		a.MStoreBytes(0, blob)
		// accessListSize accessListOffset inSize inOffset gasFeeCap gasTipCap etxGasLimit value addr temp
		a.Push(uint64(len(blob))).Push(0).Push(2).Push(64).Push(c02EtxCap).Push(c02EtxTip).Push(c02EtxGas).PushBig(value).PushAddr(dest).Push(0).Op(vm.ETX)
		if pop {
			a.Op(vm.POP)
		}
	}}
}

var c02Frags []c02Frag
var c02FragByID = map[string]c02Frag{}

func c02MakeFrags() {
	if len(c02Frags) > 0 {
		return
	}
	c02Init()
	c02MakeInitCodes()
	fs := []c02Frag{
		c02CallFrag(vm.CALL, "call", c02Fixed(c02B), "B", "0", "all"),
		c02CallFrag(vm.CALL, "call", c02Fixed(c02B), "B", "1", "all"),
		c02CallFrag(vm.CALL, "call", c02Fixed(c02B), "B", "bal+1", "all"),
		c02CallFrag(vm.CALL, "call", c02Fixed(c02B), "B", "1", "0"),
		c02CallFrag(vm.CALL, "call", c02Fixed(c02S), "S", "1", "0"),
		c02CallFrag(vm.CALL, "call", c02Fixed(c02N), "N", "1", "all"),
		c02CallFrag(vm.CALL, "call", c02Fixed(c02N), "N", "0", "all"),
		c02CallFrag(vm.CALL, "call", c02Fixed(c02X), "X", "1", "all"),
		c02CallFrag(vm.CALL, "call", c02Fixed(c02Q), "Q", "min", "all"),
		c02CallFrag(vm.CALL, "call", c02Fixed(c02P1), "precompile1", "1", "all"),
		c02CallFrag(vm.CALL, "call", nil, "self", "1", "60000"),
		c02CallFrag(vm.CALLCODE, "callcode", c02Fixed(c02B), "B", "1", "all"),
		c02CallFrag(vm.DELEGATECALL, "delegatecall", c02Fixed(c02B), "B", "-", "all"),
		c02CallFrag(vm.STATICCALL, "staticcall", c02Fixed(c02B), "B", "-", "all"),
	}
	// lockup precompile: unwrap 3 qits to Q; claim record epoch 0 of owner A to N
	un := make([]byte, 60)
	copy(un[:20], c02Q.Bytes())
	un[51] = 3
	fs = append(fs, c02LockupFrag("unwrap(3)", un))
	cl := make([]byte, 53)
	copy(cl[:20], c02M.Bytes())
	copy(cl[20:40], c02N.Bytes())
	cl[40] = 1
	fs = append(fs, c02LockupFrag("claim(epoch0)", cl))
	// creations
	for _, spec := range []struct {
		init  string
		value uint64
	}{{"empty", 1}, {"code", 0}, {"revert", 1}, {"sd", 1}} {
		spec := spec
		fs = append(fs, c02Frag{ID: fmt.Sprintf("create(%s,%d)", spec.init, spec.value), Kind: "create(" + spec.init + ")", Gen: func(a *c02Asm, self common.Address) {
			init := c02InitCodes[spec.init]
			a.MStoreBytes(0, init)
			a.Push(uint64(len(init))).Push(0).Push(spec.value).Op(vm.CREATE, vm.POP)
		}})
	}
	for _, good := range []bool{true, false} {
		good := good
		id := "create2(code,1,salt0)"
		if good {
			id = "create2(code,1,goodsalt)"
		}
		fs = append(fs, c02Frag{ID: id, Kind: "create2(code)", Gen: func(a *c02Asm, self common.Address) {
			init := c02InitCodes["code"]
			salt := uint64(0)
			if good {
				salt, _ = c02GoodSalt(self, init)
			}
			a.MStoreBytes(0, init)
			a.Push(salt).Push(uint64(len(init))).Push(0).Push(1).Op(vm.CREATE2, vm.POP)
		}})
	}
	// outbound
	max := new(big.Int).Set(c02Max256)
	wrapValue := new(big.Int).Sub(max, big.NewInt((c02EtxTip+c02EtxCap)*c02EtxGas-6)) // value + fee == 2^256 + 5
	fs = append(fs,
		c02EtxFrag("etx(X,7)", "etx(X)", c02X, big.NewInt(7), nil, true),
		c02EtxFrag("etx(X2,7)", "etx(X2)", c02X2, big.NewInt(7), nil, true),
		c02EtxFrag("etx(X2,7,status-ignored)", "etx(X2,status-ignored)", c02X2, big.NewInt(7), nil, false), // the program does not consume the status word
		c02EtxFrag("etx(X,7,malformed-blob)", "etx(X,malformed-blob)", c02X, big.NewInt(7), []byte{0xff, 0x01, 0x02}, true),
		c02EtxFrag("etx(X,2^256-62994)", "etx(X,value+fee>2^256)", c02X, wrapValue, nil, true),
		c02Frag{ID: "convert(Q,min)", Kind: "convert(Q)", Gen: func(a *c02Asm, self common.Address) {
			a.Push(c02EtxGas).PushBig(params.MinQuaiConversionAmount).PushAddr(c02Q).Push(0).Op(vm.CONVERT, vm.POP)
		}},
		c02Frag{ID: "sstore(0,1)", Kind: "sstore", Gen: func(a *c02Asm, self common.Address) { a.Push(1).Push(0).Op(vm.SSTORE) }},
		c02Frag{ID: "sstore(0,0)", Kind: "sstore", Gen: func(a *c02Asm, self common.Address) { a.Push(0).Push(0).Op(vm.SSTORE) }},
	)
	// terminators
	for _, t := range []struct {
		n string
		a *common.Address
	}{{"S", c02Fixed(c02S)}, {"self", nil}, {"N", c02Fixed(c02N)}, {"B", c02Fixed(c02B)}} {
		t := t
		fs = append(fs, c02Frag{ID: "selfdestruct(" + t.n + ")", Kind: "selfdestruct(" + t.n + ")", Term: true, Gen: func(a *c02Asm, self common.Address) {
			if t.a == nil {
				a.Op(vm.ADDRESS, vm.SELFDESTRUCT)
			} else {
				a.PushAddr(*t.a).Op(vm.SELFDESTRUCT)
			}
		}})
	}
	fs = append(fs,
		c02Frag{ID: "revert", Kind: "revert", Term: true, Gen: func(a *c02Asm, self common.Address) { a.Push(0).Push(0).Op(vm.REVERT) }},
		c02Frag{ID: "invalid", Kind: "invalid", Term: true, Gen: func(a *c02Asm, self common.Address) { a.Raw([]byte{0xfe}) }},
		c02Frag{ID: "stop", Kind: "stop", Term: true, Gen: func(a *c02Asm, self common.Address) { a.Op(vm.STOP) }},
	)
	c02Frags = fs
	for _, f := range fs {
		c02FragByID[f.ID] = f
	}
}

func c02Assemble(ids []string, self common.Address) []byte {
	a := &c02Asm{}
	for _, id := range ids {
		f, ok := c02FragByID[id]
		if !ok {
			panic("unknown fragment " + id)
		}
		f.Gen(a, self)
	}
	a.Op(vm.STOP)
	return a.Bytes()
}

// B-code menu
var c02BMenu = []string{"stop", "revert", "sd(S)", "sd(A)", "callback(A,1)", "etx(X,9)+stop", "etx(X,9)+revert"}

func c02BCode(id string) []byte {
	a := &c02Asm{}
	switch id {
	case "stop":
		a.Op(vm.STOP)
	case "revert":
		a.Push(0).Push(0).Op(vm.REVERT)
	case "sd(S)":
		a.PushAddr(c02S).Op(vm.SELFDESTRUCT)
	case "sd(A)":
		a.PushAddr(c02A).Op(vm.SELFDESTRUCT)
	case "callback(A,1)":
		a.Push(0).Push(0).Push(0).Push(0).Push(1).PushAddr(c02A).Push(40000).Op(vm.CALL, vm.POP, vm.STOP)
	case "etx(X,9)+stop", "etx(X,9)+revert":
		a.Push(0).Push(0).Push(2).Push(64).Push(c02EtxCap).Push(c02EtxTip).Push(c02EtxGas).Push(9).PushAddr(c02X).Push(0).Op(vm.ETX, vm.POP)
		if strings.HasSuffix(id, "revert") {
			a.Push(0).Push(0).Op(vm.REVERT)
		} else {
			a.Op(vm.STOP)
		}
	default:
		panic("unknown B code " + id)
	}
	return a.Bytes()
}

// ---- case ------------------------------------------------------------------------------------

type c02Case struct {
	Part   string   `json:"part"` // programs | special
	Regime string   `json:"regime"`
	Prog   []string `json:"program_A,omitempty"`
	B      string   `json:"code_B,omitempty"`
	Msg    string   `json:"message"`
	Gas    string   `json:"gas"` // intrinsic | mid | high | absolute number
	// special part
	Value string `json:"value,omitempty"`
	Arg   string `json:"arg,omitempty"`
	// part "block": a second transaction applied to the same state after Finalize, as the next
	// transaction of the block would be: pay(A) | pay(B) | pay(N) = S transfers 7 wei to that address
	Then string `json:"then,omitempty"`
}

func (k c02Case) String() string {
	raw, _ := jsonMarshal(k)
	return string(raw)
}

// c02Carried: Quai that leaves the zone's balances with an emitted ETX = value + prepaid fee.
// The fee is not recorded in the ETX; it is attributed from the way the harness's own fragments
// build ETXs (2-byte payload = ETX opcode with tip+cap = 3, empty payload + conversion = CONVERT).
func c02Carried(e *types.Transaction, gasPrice *big.Int) *big.Int {
	v := new(big.Int).Set(e.Value())
	switch e.EtxType() {
	case types.ConversionType:
		if len(e.Data()) == 0 && !e.ETXSender().Equal(c02S) {
			v.Add(v, new(big.Int).Mul(gasPrice, new(big.Int).SetUint64(e.Gas())))
		}
	case types.DefaultType:
		if len(e.Data()) == 2 && !e.ETXSender().Equal(c02S) {
			v.Add(v, new(big.Int).Mul(big.NewInt(c02EtxTip+c02EtxCap), new(big.Int).SetUint64(e.Gas())))
		}
	case types.UnwrapQiType, types.CoinbaseLockupType:
		return new(big.Int) // paid from wrapped-Qi storage / lockup records, not from Quai balances
	}
	return v
}

type c02Result struct {
	Verdict   string // "" ok, else violation kind
	Detail    string
	Outcome   string
	Surplus   *big.Int
	Suicided  int
	NEtxs     int
	TrieCheck string
}

type c02Runner struct {
	envs   []*c02Env
	worlds map[string]*c02World
	order  []string
	trie   int // run the trie-dump cross-check on every trie-th execution (0 = never)
	n      int64
}

func (r *c02Runner) world(key string, build func() (*c02World, error)) (*c02World, error) {
	if w, ok := r.worlds[key]; ok {
		return w, nil
	}
	w, err := build()
	if err != nil {
		return nil, err
	}
	if len(r.order) >= 64 { // bounded memory: forget the oldest committed worlds
		delete(r.worlds, r.order[0])
		r.order = r.order[1:]
	}
	r.worlds[key] = w
	r.order = append(r.order, key)
	return w, nil
}

func c02StdAccounts(codeA, codeB []byte) []c02Account {
	return []c02Account{
		{Addr: c02S, Balance: c02BalS},
		{Addr: c02A, Balance: c02BalA, Nonce: 1, Code: codeA},
		{Addr: c02B, Balance: c02BalB, Nonce: 1, Code: codeB},
		{Addr: c02CB, Balance: big.NewInt(1)},
		{Addr: c02KQ, Balance: c02BalA},
		{Addr: c02LK, Storage: map[common.Hash]common.Hash{c05WrappedKey(c02A): common.BigToHash(big.NewInt(1000)), c05WrappedKey(c02S): common.BigToHash(big.NewInt(1000))}},
	}
}

// c02CreateAddr mirrors EVM.Create's address derivation with the exported helpers.
var c02CreateAddrCache = map[string]common.Address{}

func c02CreateAddr(env *c02Env, creator common.Address, nonce uint64, code []byte) (common.Address, bool) {
	ck := fmt.Sprintf("%s|%x|%d|%x", env.Regime.Name, creator.Bytes(), nonce, code)
	if a, ok := c02CreateAddrCache[ck]; ok {
		return a, true
	}
	a, ok := c02CreateAddrCompute(env, creator, nonce, code)
	if ok {
		if len(c02CreateAddrCache) > 512 {
			c02CreateAddrCache = map[string]common.Address{}
		}
		c02CreateAddrCache[ck] = a
	}
	return a, ok
}

func c02CreateAddrCompute(env *c02Env, creator common.Address, nonce uint64, code []byte) (common.Address, bool) {
	a := crypto.CreateAddress(creator, nonce, code, c02Loc)
	if _, err := a.InternalAndQuaiAddress(); err == nil {
		return a, true
	}
	g, _, err := vm.GrindContract(creator, nonce, 1<<40, 0, crypto.Keccak256Hash(code), env.BlockCtx.BlockNumber, c02Loc)
	if err != nil {
		return common.Address{}, false
	}
	return g, true
}

// c02AccessList lists every address a program run can touch (the access list is mandatory in Quai).
func c02AccessList(env *c02Env, creators []common.Address) types.AccessList {
	seen := map[string]bool{}
	var al types.AccessList
	add := func(a common.Address) {
		k := string(a.Bytes())
		if !seen[k] {
			seen[k] = true
			al = append(al, types.AccessTuple{Address: a})
		}
	}
	for _, a := range []common.Address{c02S, c02A, c02B, c02N, c02P1, c02LK, c02X, c02X2, c02Q, c02XQ, c02CB, c02M} {
		add(a)
	}
	for _, cr := range creators {
		add(cr)
		for nonce := uint64(0); nonce <= 3; nonce++ {
			for _, in := range c02InitOrder {
				if a, ok := c02CreateAddr(env, cr, nonce, c02InitCodes[in]); ok {
					add(a)
				}
			}
		}
		init := c02InitCodes["code"]
		h := crypto.Keccak256(init)
		for _, s := range []uint64{0, func() uint64 { s, _ := c02GoodSalt(cr, init); return s }()} {
			var salt [32]byte
			for i := 0; i < 8; i++ {
				salt[31-i] = byte(s >> (8 * uint(i)))
			}
			add(crypto.CreateAddress2(cr, salt, h, c02Loc))
		}
	}
	return al
}

var c02ALCache = map[string]types.AccessList{}

func c02GasFor(mode string, intrinsic uint64) uint64 {
	switch mode {
	case "intrinsic":
		return intrinsic
	case "mid":
		return intrinsic + 60_000
	case "high":
		return intrinsic + 1_500_000
	}
	return c05Big(mode).Uint64()
}

// c02BuildMessage returns the message, the world key/builder and the fee payer.
func (r *c02Runner) build(env *c02Env, k c02Case) (msg types.Message, w *c02World, isETX bool, err error) {
	price := new(big.Int).Set(c02GasPrice)
	var codeA, codeB []byte
	wkey := ""
	if k.Part == "programs" {
		codeA = c02Assemble(k.Prog, c02A)
		codeB = c02BCode(k.B)
		wkey = "P|" + strings.Join(k.Prog, "+") + "|" + k.B
	} else {
		codeA = (&c02Asm{}).Op(vm.STOP).Bytes()
		codeB = c02BCode("revert")
		wkey = "special"
	}
	w, err = r.world(wkey, func() (*c02World, error) { return c02BuildWorld(c02StdAccounts(codeA, codeB), c05LockupRecords(c02A)) })
	if err != nil {
		return
	}
	alKey := env.Regime.Name + "|std"
	al, ok := c02ALCache[alKey]
	if !ok {
		al = c02AccessList(env, []common.Address{c02A})
		c02ALCache[alKey] = al
	}
	mk := func(from common.Address, to *common.Address, nonce uint64, value *big.Int, data []byte, al types.AccessList, create bool) types.Message {
		intr, _ := core.IntrinsicGas(data, al, create)
		return types.NewMessage(from, to, nonce, value, c02GasFor(k.Gas, intr), price, data, al, false)
	}
	mkETX := func(to common.Address, value *big.Int, data []byte, al types.AccessList, gasOverride uint64) (types.Message, error) {
		create := to.Equal(c02Z)
		intr, _ := core.IntrinsicGas(data, al, create)
		gas := c02GasFor(k.Gas, intr)
		if gasOverride != 0 {
			gas = gasOverride
		}
		tx := types.NewTx(&types.ExternalTx{OriginatingTxHash: c02TxHash, ETXIndex: 0, Gas: gas, To: &to, Value: value, Data: data, AccessList: al, Sender: c02X})
		return tx.AsMessage(types.MakeSigner(env.Cfg, env.BlockCtx.BlockNumber), env.BlockCtx.BaseFee)
	}
	toA := c02A
	switch k.Msg {
	case "call0":
		msg = mk(c02S, &toA, 0, big.NewInt(0), nil, al, false)
	case "call1":
		msg = mk(c02S, &toA, 0, big.NewInt(1), nil, al, false)
	case "call0-no-accesslist":
		msg = mk(c02S, &toA, 0, big.NewInt(0), nil, nil, false)
	case "create1":
		// the program is the init code of a creation transaction; it runs at the new contract's address
		// (fragments reference "self" through the ADDRESS opcode, so the code does not depend on that address;
		// the CREATE2 salt is the one searched for A and is usually out of zone for the new contract)
		init := c02Assemble(k.Prog, c02A)
		newAddr, _ := c02CreateAddr(env, c02S, 0, init)
		ck := env.Regime.Name + "|create|" + string(newAddr.Bytes())
		al2, ok := c02ALCache[ck]
		if !ok {
			al2 = append(types.AccessList{}, al...)
			al2 = append(al2, c02AccessList(env, []common.Address{newAddr})...)
			if len(c02ALCache) > 64 {
				c02ALCache = map[string]types.AccessList{}
			}
			c02ALCache[ck] = al2
		}
		msg = mk(c02S, nil, 0, big.NewInt(1), init, al2, true)
	case "inbound-etx5":
		msg, err = mkETX(c02A, big.NewInt(5), nil, al, 0)
		isETX = true
	// ---- special messages ----
	case "transfer":
		to := c05AddrByName(k.Arg)
		msg = mk(c02S, &to, 0, c02SpecialValue(k.Value), nil, al, false)
	case "transfer-data":
		to := c05AddrByName(k.Arg)
		msg = mk(c02S, &to, 0, c02SpecialValue(k.Value), []byte{1, 2, 3, 4}, al, false)
	case "selfdestruct-tx":
		ben := c05AddrByName(k.Arg)
		data := append([]byte("Suicide"), ben.Bytes()...)
		to := c02S
		msg = mk(c02S, &to, 0, c02SpecialValue(k.Value), data, al, false)
	case "kquai":
		to := c02B
		al3 := append(types.AccessList{{Address: c02KQ}}, al...)
		msg = mk(c02KQ, &to, 0, c02SpecialValue(k.Value), []byte(k.Arg), al3, false)
	case "lockup-unwrap-by-eoa":
		in := make([]byte, 60)
		copy(in[:20], c02Q.Bytes())
		in[51] = 3
		to := c02LK
		msg = mk(c02S, &to, 0, c02SpecialValue(k.Value), in, al, false)
	case "bad-nonce":
		to := c02B
		intr, _ := core.IntrinsicGas(nil, al, false)
		msg = types.NewMessage(c02S, &to, 7, c02SpecialValue(k.Value), c02GasFor(k.Gas, intr), price, nil, al, false)
	case "price-below-basefee":
		to := c02N
		intr, _ := core.IntrinsicGas(nil, al, false)
		msg = types.NewMessage(c02S, &to, 0, c02SpecialValue(k.Value), c02GasFor(k.Gas, intr), big.NewInt(1), nil, al, false)
	case "inbound-etx":
		msg, err = mkETX(c05AddrByName(k.Arg), c02SpecialValue(k.Value), nil, al, 0)
		isETX = true
	case "inbound-etx-create":
		ck := env.Regime.Name + "|zero"
		alz, ok := c02ALCache[ck]
		if !ok {
			alz = append(append(types.AccessList{}, al...), c02AccessList(env, []common.Address{c02Z})...)
			c02ALCache[ck] = alz
		}
		msg, err = mkETX(c02Z, c02SpecialValue(k.Value), c02InitCodes[k.Arg], alz, 0)
		isETX = true
	case "inbound-etx-gas-above-limit":
		msg, err = mkETX(c05AddrByName(k.Arg), c02SpecialValue(k.Value), nil, al, c02BlockGasLimit/params.MinimumEtxGasDivisor+1)
		isETX = true
	default:
		err = fmt.Errorf("unknown message kind %q", k.Msg)
	}
	return
}

func c02SpecialValue(s string) *big.Int {
	switch s {
	case "", "0":
		return new(big.Int)
	case "bal+1":
		return new(big.Int).Add(c02BalS, big.NewInt(1))
	case "bal":
		return new(big.Int).Set(c02BalS)
	case "min":
		return new(big.Int).Set(params.MinQuaiConversionAmount)
	}
	return c05Big(s)
}

type c02SumCollector struct {
	sum *big.Int
	n   int
}

func (c *c02SumCollector) OnRoot(common.Hash) {}
func (c *c02SumCollector) OnAccount(_ common.InternalAddress, a state.DumpAccount) {
	b, _ := new(big.Int).SetString(a.Balance, 10)
	if b != nil {
		c.sum.Add(c.sum, b)
	}
	c.n++
}

// run executes one case on the real code and evaluates the statement.
func (r *c02Runner) run(k c02Case) (*c02Result, error) {
	env := c05EnvByName(r.envs, k.Regime)
	if env == nil {
		return nil, fmt.Errorf("unknown regime %q", k.Regime)
	}
	msg, w, isETX, err := r.build(env, k)
	if err != nil {
		return nil, err
	}
	st, batch, err := w.Open()
	if err != nil {
		return nil, err
	}
	r.n++
	evm := vm.NewEVM(env.BlockCtx, vm.TxContext{}, st, env.Cfg, vm.Config{}, batch)
	evm.Reset(core.NewEVMTxContext(msg), st) // as applyTransaction does
	gp := new(types.GasPool).AddGas(c02BlockGasLimit)
	before := c02DumpBalances(w, st)
	var prevZero *big.Int
	if isETX {
		prevZero = core.VerifPrepareApplyETX(st, msg.Value(), c02Loc)
	}
	var res *core.ExecutionResult
	var aerr error
	perr := vx.Guard(func() { res, aerr = core.ApplyMessage(evm, msg, gp) })
	if isETX {
		st.SetBalance(common.ZeroInternal(c02Loc), prevZero)
	}
	out := &c02Result{Surplus: new(big.Int)}
	if perr != "" {
		out.Verdict, out.Detail, out.Outcome = "panic", perr, "panic"
		return out, nil
	}
	after := c02DumpBalances(w, st)
	gpDelta := c02BlockGasLimit - gp.Gas()
	price := msg.GasPrice()
	charge := new(big.Int).Mul(new(big.Int).SetUint64(gpDelta), price)
	failed := aerr != nil || (res != nil && res.Failed())

	// outcome class
	switch {
	case aerr != nil:
		out.Outcome = "rejected:" + c02ErrClass(aerr)
	case res.Failed():
		out.Outcome = "failed:" + c02ErrClass(res.Err)
	default:
		out.Outcome = "ok"
	}
	carried := new(big.Int)
	if res != nil {
		out.NEtxs = len(res.Etxs)
		for _, e := range res.Etxs {
			carried.Add(carried, c02Carried(e, price))
		}
		out.Outcome += fmt.Sprintf("/etx%d", len(res.Etxs))
	}
	credits := new(big.Int)
	if isETX && res != nil && !failed {
		credits.Add(credits, msg.Value())
	}
	for ia := range after {
		if st.HasSuicided(ia) {
			out.Suicided++
		}
	}
	if out.Suicided > 0 {
		credits.Add(credits, new(big.Int).Mul(env.Refund(), big.NewInt(int64(out.Suicided))))
		out.Outcome += fmt.Sprintf("/sd%d", out.Suicided)
	}
	want := new(big.Int).Set(before.Sum())
	want.Sub(want, charge).Sub(want, carried).Add(want, credits)
	got := after.Sum()
	out.Surplus = new(big.Int).Sub(got, want)

	table := func() string {
		var sb strings.Builder
		keys := after.Keys()
		for _, ia := range keys {
			b := before[ia]
			if b == nil {
				b = new(big.Int)
			}
			if b.Cmp(after[ia]) != 0 {
				fmt.Fprintf(&sb, "   %s: %s -> %s (%+d)\n", c02IntName(ia), b, after[ia], new(big.Int).Sub(after[ia], b))
			}
		}
		return sb.String()
	}
	explain := func(what string) string {
		var etxs []string
		if res != nil {
			for _, e := range res.Etxs {
				etxs = append(etxs, fmt.Sprintf("{to=%s value=%s gas=%d type=%d carried=%s}", c02Name(*e.To()), e.Value(), e.Gas(), e.EtxType(), c02Carried(e, price)))
			}
		}
		used := uint64(0)
		var rerr error
		if res != nil {
			used, rerr = res.UsedGas, res.Err
		}
		return fmt.Sprintf("%s\n case=%s\n result: consensusErr=%v vmErr=%v usedGas=%d gasLimit=%d gasPoolDelta=%d price=%s\n sum(before)=%s sum(after)=%s expected=%s  [charge=%s carried=%s credits=%s (self-destructed accounts=%d, refund=%s)]\n emitted ETXs=%v\n balance changes:\n%s",
			what, k.String(), aerr, rerr, used, msg.Gas(), gpDelta, price, before.Sum(), got, want, charge, carried, credits, out.Suicided, env.Refund(), etxs, table())
	}
	// (a) no negative balance
	for _, ia := range after.Keys() {
		b := after[ia]
		if b.Sign() < 0 {
			out.Verdict, out.Detail = "negative-balance", explain(fmt.Sprintf("balance of %s is negative: %s", c02IntName(ia), b))
			return out, nil
		}
	}
	// (b) payer's gas charge within [gasUsed*price, gasLimit*price]
	hi := new(big.Int).Mul(new(big.Int).SetUint64(msg.Gas()), price)
	lo := new(big.Int)
	if res != nil {
		lo.Mul(new(big.Int).SetUint64(res.UsedGas), price)
	}
	if charge.Cmp(lo) < 0 || charge.Cmp(hi) > 0 {
		out.Verdict, out.Detail = "gas-charge-out-of-bounds", explain(fmt.Sprintf("gas charge %s outside [%s, %s]", charge, lo, hi))
		return out, nil
	}
	// (c) a failed transaction leaves every balance other than the payer's unchanged
	if failed {
		payer := common.InternalAddress{}
		hasPayer := false
		if !isETX {
			payer, hasPayer = c02Int(msg.From()), true
		}
		for _, ia := range after.Keys() {
			a := after[ia]
			if hasPayer && ia == payer {
				continue
			}
			b := before[ia]
			if b == nil {
				b = new(big.Int)
			}
			if a.Cmp(b) != 0 {
				out.Verdict, out.Detail = "failed-tx-changed-balances", explain(fmt.Sprintf("the transaction failed but the balance of %s changed", c02IntName(ia)))
				return out, nil
			}
		}
	}
	// (d) the conservation equation
	if out.Surplus.Sign() > 0 {
		out.Verdict, out.Detail = "created", explain(fmt.Sprintf("%s wei more than the equation allows exist after the transaction", out.Surplus))
		return out, nil
	}
	if out.Surplus.Sign() < 0 {
		out.Verdict, out.Detail = "destroyed", explain(fmt.Sprintf("%s wei are missing after the transaction (equation not met)", new(big.Int).Neg(out.Surplus)))
		return out, nil
	}
	// (f) part "block": the next transaction of the same block on the same state
	if k.Then != "" {
		if v, d := r.follow(env, w, st, batch, k, price); v != "" {
			out.Verdict, out.Detail = v, d
		} else {
			out.Outcome += "/then-" + d
		}
		return out, nil
	}
	// (e) cross-check of the dump itself: the committed account trie (real Finalize + trie iteration) holds the
	// same total, except for what self-destructed accounts still held
	if r.trie > 0 && r.n%int64(r.trie) == 0 {
		stillHeld := new(big.Int)
		for ia, b := range after {
			if st.HasSuicided(ia) {
				stillHeld.Add(stillHeld, b)
			}
		}
		var col *c02SumCollector
		if perr := vx.Guard(func() {
			st.IntermediateRoot(true)
			col = &c02SumCollector{sum: new(big.Int)}
			st.DumpToCollector(col, &state.DumpConfig{SkipCode: true, SkipStorage: true})
		}); perr != "" {
			out.Verdict, out.Detail = "panic", perr
			return out, nil
		}
		wantTrie := new(big.Int).Sub(got, stillHeld)
		if col.sum.Cmp(wantTrie) != 0 {
			out.Verdict, out.Detail = "trie-total-differs", explain(fmt.Sprintf("after Finalize the account trie holds %s in %d accounts; the live dump minus self-destructed accounts gives %s", col.sum, col.n, wantTrie))
			return out, nil
		}
		out.TrieCheck = "ok"
	}
	return out, nil
}

// follow applies a plain transfer as the next transaction of the block (after the real Finalize of
// the first one) and checks its own conservation equation: it may only move value and pay its fee.
func (r *c02Runner) follow(env *c02Env, w *c02World, st *state.StateDB, batch ethdb.Batch, k c02Case, price *big.Int) (verdict, detail string) {
	target, ok := map[string]common.Address{"pay(A)": c02A, "pay(B)": c02B, "pay(N)": c02N}[k.Then]
	if !ok {
		return "harness", "unknown follow-up " + k.Then
	}
	if perr := vx.Guard(func() { st.Finalize(true) }); perr != "" {
		return "panic", "Finalize between the transactions panicked: " + perr
	}
	if st.GetCodeSize(c02Int(target)) != 0 {
		return "", "skipped:target-still-has-code" // the transfer must stay a pure transfer: no code may run
	}
	before := c02DumpBalances(w, st)
	msg := types.NewMessage(c02S, &target, st.GetNonce(c02Int(c02S)), big.NewInt(7), 100000, new(big.Int).Set(price), nil, types.AccessList{{Address: target}}, false)
	evm := vm.NewEVM(env.BlockCtx, vm.TxContext{}, st, env.Cfg, vm.Config{}, batch)
	evm.Reset(core.NewEVMTxContext(msg), st)
	gp := new(types.GasPool).AddGas(c02BlockGasLimit)
	var res *core.ExecutionResult
	var aerr error
	if perr := vx.Guard(func() { res, aerr = core.ApplyMessage(evm, msg, gp) }); perr != "" {
		return "panic", "the following transfer panicked: " + perr
	}
	after := c02DumpBalances(w, st)
	charge := new(big.Int).Mul(new(big.Int).SetUint64(c02BlockGasLimit-gp.Gas()), price)
	want := new(big.Int).Sub(before.Sum(), charge)
	surplus := new(big.Int).Sub(after.Sum(), want)
	class := "ok"
	if aerr != nil {
		class = "rejected:" + c02ErrClass(aerr)
	} else if res.Failed() {
		class = "failed:" + c02ErrClass(res.Err)
	}
	if surplus.Sign() == 0 {
		return "", class
	}
	var sb strings.Builder
	for _, ia := range after.Keys() {
		b := before[ia]
		if b == nil {
			b = new(big.Int)
		}
		if b.Cmp(after[ia]) != 0 {
			fmt.Fprintf(&sb, "   %s: %s -> %s\n", c02IntName(ia), b, after[ia])
		}
	}
	what := "created"
	if surplus.Sign() < 0 {
		what = "destroyed"
	}
	return what + "-by-following-transfer", fmt.Sprintf("after %s (applied, then Finalize), the next transaction of the block - S pays 7 wei to %s - %s %s wei: sum before=%s after=%s fee=%s result=%s\n balance changes of the transfer:\n%s", k.String(), c02Name(target), what, new(big.Int).Abs(surplus), before.Sum(), after.Sum(), charge, class, sb.String())
}

// ---- violation keys: deterministic minimisation of the failing program --------------------------

type c02Core struct {
	Verdict string
	Kinds   []string // fragment kinds of the minimal program (in order)
	B       string   // "" = irrelevant
	Msg     string   // "" = any of the program messages
	PreFork bool     // does not fail in the all-forks regime
	Key     string
	Case    c02Case
}

func c02Kinds(prog []string) []string {
	var ks []string
	for _, id := range prog {
		ks = append(ks, c02FragByID[id].Kind)
	}
	return ks
}

func c02IsSubseq(sub, seq []string) bool {
	i := 0
	for _, s := range seq {
		if i < len(sub) && sub[i] == s {
			i++
		}
	}
	return i == len(sub)
}

func (r *c02Runner) verdictOf(k c02Case) string {
	res, err := r.run(k)
	if err != nil {
		return "harness"
	}
	return res.Verdict
}

func c02Subseqs(prog []string) [][]string {
	var out [][]string
	n := len(prog)
	for size := 1; size < n; size++ {
		var rec func(start int, cur []string)
		rec = func(start int, cur []string) {
			if len(cur) == size {
				out = append(out, append([]string{}, cur...))
				return
			}
			for i := start; i < n; i++ {
				rec(i+1, append(cur, prog[i]))
			}
		}
		rec(0, nil)
	}
	return out
}

// minimise shrinks a violating program case: fewest fragments, simplest B code, simplest message, and
// tells whether the all-forks regime is affected too.
func (r *c02Runner) minimise(k c02Case, verdict string) c02Core {
	save := r.trie
	r.trie = 0
	defer func() { r.trie = save }()
	best := k
	if k.Part == "programs" {
		for _, sub := range c02Subseqs(k.Prog) {
			t := best
			t.Prog = sub
			if r.verdictOf(t) == verdict {
				best = t
				break
			}
		}
	}
	core := c02Core{Verdict: verdict, Kinds: c02Kinds(best.Prog), B: best.B, Msg: best.Msg}
	if k.Part == "programs" {
		if best.B != "stop" {
			t := best
			t.B = "stop"
			if r.verdictOf(t) == verdict {
				best, core.B = t, ""
			}
		} else {
			core.B = ""
		}
		for _, m := range []string{"call0", "call1"} {
			if best.Msg == m {
				core.Msg = ""
				break
			}
			t := best
			t.Msg = m
			if r.verdictOf(t) == verdict {
				best, core.Msg = t, ""
				break
			}
		}
		for _, g := range []string{"high"} {
			if best.Gas != g {
				t := best
				t.Gas = g
				if r.verdictOf(t) == verdict {
					best = t
				}
			}
		}
	}
	last := r.envs[len(r.envs)-1].Regime.Name
	if best.Regime != last {
		t := best
		t.Regime = last
		if r.verdictOf(t) != verdict {
			core.PreFork = true
		} else {
			best = t
		}
	}
	key := verdict + ":"
	canonical := ""
	if fin, err := r.run(best); err == nil && fin.Verdict == verdict {
		refund := r.envs[0].Refund()
		switch {
		case verdict == "created" && core.PreFork && refund.Sign() > 0 && new(big.Int).Mod(fin.Surplus, refund).Sign() == 0:
			// the surplus is a whole number of rent refunds: the refund was paid more than once per account
			canonical = "selfdestruct-rent-refund-paid-repeatedly"
		case verdict == "destroyed" && c02SelfBeneficiary(best):
			canonical = "selfdestruct-to-self-burns-balance"
		}
	}
	if canonical != "" {
		key += canonical
	} else if k.Part == "programs" {
		key += strings.Join(core.Kinds, "+")
		if core.B != "" {
			key += "|B=" + core.B
		}
		if core.Msg != "" {
			key += "|msg=" + core.Msg
		}
	} else {
		key += k.Msg
		if k.Arg != "" && k.Msg != "kquai" {
			key += "(" + k.Arg + ")"
		}
	}
	if core.PreFork {
		key += "[pre-fork regimes only]"
	}
	core.Key = key
	core.Case = best
	return core
}

// c02SelfBeneficiary: the (minimal) program makes an account self-destruct with itself as beneficiary.
func c02SelfBeneficiary(k c02Case) bool {
	for _, id := range k.Prog {
		kind := c02FragByID[id].Kind
		if kind == "selfdestruct(self)" {
			return true
		}
		// B's code "selfdestruct to A" executed in A's own context
		if k.B == "sd(A)" && (kind == "callcode(B)" || kind == "delegatecall(B)") && k.Msg != "create1" {
			return true
		}
	}
	return false
}

func (c c02Core) covers(k c02Case, verdict string, lastRegime string) bool {
	if c.Verdict != verdict || k.Part != "programs" || c.Case.Part != "programs" {
		return false
	}
	if !c02IsSubseq(c.Kinds, c02Kinds(k.Prog)) {
		return false
	}
	if c.B != "" && c.B != k.B {
		return false
	}
	if c.Msg != "" && c.Msg != k.Msg {
		return false
	}
	if c.PreFork && k.Regime == lastRegime {
		return false
	}
	return true
}

// ---- enumeration -----------------------------------------------------------------------------

func c02Programs(maxLen int) [][]string {
	c02MakeFrags()
	var progs [][]string
	var nonTerm, all []string
	for _, f := range c02Frags {
		all = append(all, f.ID)
		if !f.Term {
			nonTerm = append(nonTerm, f.ID)
		}
	}
	frontier := [][]string{{}}
	for l := 1; l <= maxLen; l++ {
		var next [][]string
		for _, p := range frontier {
			for _, id := range all { // last position: any fragment
				progs = append(progs, append(append([]string{}, p...), id))
			}
			for _, id := range nonTerm { // prefixes to extend: non-terminating fragments only
				next = append(next, append(append([]string{}, p...), id))
			}
		}
		frontier = next
	}
	// simplest first; among equally long programs those built only from the value-moving core fragments come
	// first, so that a run cut short by its deadline has covered the most relevant programs
	core := map[string]bool{}
	for _, id := range []string{"call(B,0,all)", "call(B,1,all)", "call(self,1,60000)", "callcode(B,1,all)", "delegatecall(B,-,all)", "create(sd,1)", "create(code,0)",
		"create2(code,1,goodsalt)", "etx(X,7)", "convert(Q,min)", "unwrap(3)", "claim(epoch0)", "sstore(0,1)", "sstore(0,0)", "selfdestruct(S)", "selfdestruct(self)", "revert", "stop"} {
		core[id] = true
	}
	nonCore := func(p []string) int {
		n := 0
		for _, id := range p {
			if !core[id] {
				n++
			}
		}
		return n
	}
	sort.SliceStable(progs, func(i, j int) bool {
		if len(progs[i]) != len(progs[j]) {
			return len(progs[i]) < len(progs[j])
		}
		return nonCore(progs[i]) < nonCore(progs[j])
	})
	return progs
}

func c02UsesB(prog []string) bool {
	for _, id := range prog {
		if strings.Contains(id, "(B") {
			return true
		}
	}
	return false
}

func c02SpecialCases(regimes []string) []c02Case {
	var out []c02Case
	for _, rg := range regimes {
		for _, gas := range []string{"intrinsic", "mid", "high", "20000"} {
			for _, v := range []string{"0", "1", "min", "bal", "bal+1"} {
				for _, to := range []string{"N", "B", "A", "X", "X2", "Q", "XQ", "precompile1", "S", "lockup"} {
					out = append(out, c02Case{Part: "special", Regime: rg, Msg: "transfer", Gas: gas, Value: v, Arg: to})
				}
				for _, to := range []string{"X", "Q", "B"} {
					out = append(out, c02Case{Part: "special", Regime: rg, Msg: "transfer-data", Gas: gas, Value: v, Arg: to})
				}
				for _, ben := range []string{"S", "A", "N", "B", "X", "Q"} {
					out = append(out, c02Case{Part: "special", Regime: rg, Msg: "selfdestruct-tx", Gas: gas, Value: v, Arg: ben})
				}
				for _, d := range []string{"update\x05", "freeze", "unfreeze", "bogus"} {
					out = append(out, c02Case{Part: "special", Regime: rg, Msg: "kquai", Gas: gas, Value: v, Arg: d})
				}
				out = append(out, c02Case{Part: "special", Regime: rg, Msg: "lockup-unwrap-by-eoa", Gas: gas, Value: v})
				out = append(out, c02Case{Part: "special", Regime: rg, Msg: "bad-nonce", Gas: gas, Value: v})
				out = append(out, c02Case{Part: "special", Regime: rg, Msg: "price-below-basefee", Gas: gas, Value: v})
				if v == "bal" || v == "bal+1" {
					continue
				}
				for _, to := range []string{"N", "B", "A", "S", "precompile1", "lockup"} {
					out = append(out, c02Case{Part: "special", Regime: rg, Msg: "inbound-etx", Gas: gas, Value: v, Arg: to})
					out = append(out, c02Case{Part: "special", Regime: rg, Msg: "inbound-etx-gas-above-limit", Gas: gas, Value: v, Arg: to})
				}
				for _, in := range c02InitOrder {
					out = append(out, c02Case{Part: "special", Regime: rg, Msg: "inbound-etx-create", Gas: gas, Value: v, Arg: in})
				}
			}
		}
	}
	return out
}

func c02NewRunner() (*c02Runner, error) {
	c02MakeFrags()
	envs, err := c05MakeEnvs()
	if err != nil {
		return nil, err
	}
	return &c02Runner{envs: envs, worlds: map[string]*c02World{}}, nil
}

func runC02(c *vx.Ctx) {
	defer c02Prof()()
	c.Rule = "contract A = every sequence of <= 2 (thorough 3) fragments from a menu of 37 (terminating fragments only last), contract B from a menu of 7, run under 5 message kinds x 3 gas limits x fork regimes through the real core.ApplyMessage; plus a grid of special messages (transfers to 10 targets, cross-chain sends by an EOA, self-destruct transaction, kQuai setter, inbound ETXs incl. creation and over-limit gas, bad nonce / price); outcome class = regime x message x result (ok / failed:<vm error> / rejected:<consensus error>) x #ETXs x #self-destructs"
	c.Assume("the gas charge of the payer is (gas-pool delta) x gas price; the statement's bounds are checked against ExecutionResult.UsedGas and the gas limit")
	c.Assume("balances are observed right after ApplyMessage (before Finalize), as the property's observation points say; the committed trie total is cross-checked separately (every 16th case in quick, every 2nd in thorough)")
	c.Assume("the prepaid fee of an emitted ETX is not recorded in the ETX; it is attributed from the harness's own fragments (ETX opcode: (tip+cap)*gas with tip+cap=3; CONVERT: gasPrice*gas; CALL-created / lockup ETXs: none)")
	c.Assume("rent refund credit = refund x number of accounts flagged self-destructed after the transaction (once per account)")
	c.Assume("QuaiStateSize = 1000 accounts (gas scaling by state size is not under test); coinbase fees are credited by the block processor, not by ApplyMessage")
	r, err := c02NewRunner()
	if err != nil {
		c.HarnessError("environment: " + err.Error())
		return
	}
	r.trie = 16
	if c.Thorough() {
		r.trie = 2
	}
	regimes := []string{c02Regimes[0].Name, c02Regimes[2].Name}
	depth := 2
	if c.Thorough() {
		regimes = []string{c02Regimes[0].Name, c02Regimes[1].Name, c02Regimes[2].Name}
		depth = 3
	}
	lastRegime := c02Regimes[2].Name
	var cores []c02Core
	reported := map[string]bool{}
	handle := func(p *vx.Part, part string, k c02Case, res *c02Result) {
		p.Transitions++
		p.Traces++
		oc := c05Short(k.Regime) + "/" + k.Msg + "/" + res.Outcome
		if res.Verdict != "" {
			oc += "/VIOLATION:" + res.Verdict
		}
		p.Outcome(oc)
		if res.Verdict == "" {
			return
		}
		for _, co := range cores {
			if co.covers(k, res.Verdict, lastRegime) {
				return
			}
		}
		core := r.minimise(k, res.Verdict)
		cores = append(cores, core)
		if reported[core.Key] {
			return
		}
		reported[core.Key] = true
		mres, err := r.run(core.Case)
		if err != nil || mres.Verdict != res.Verdict {
			c.HarnessError(fmt.Sprintf("minimised case does not reproduce %s: %s", res.Verdict, core.Case))
			return
		}
		if c.Confirm(mres.Detail, func() string {
			x, err := r.run(core.Case)
			if err != nil {
				return "harness"
			}
			return x.Verdict
		}) {
			c.Violate(part, core.Key, mres.Detail, map[string]any{"verdict": res.Verdict, "case": core.Case})
		}
	}

	if c.Wants("special") {
		p := c.Part("special")
		all := []string{c02Regimes[0].Name, c02Regimes[1].Name, c02Regimes[2].Name}
		p.Bound("regimes", all)
		for i, k := range c02SpecialCases(all) {
			if !c.Mine(int64(i)) {
				continue
			}
			if c.Expired() {
				p.Incomplete("deadline")
				break
			}
			res, err := r.run(k)
			if err != nil {
				c.HarnessError("run: " + err.Error() + " " + k.String())
				break
			}
			handle(p, "special", k, res)
			if res.Verdict == "" && (res.NEtxs > 0 || res.Suicided > 0) {
				p.Sample(k)
			}
		}
		p.MaxDepth = 1
	}
	if c.Wants("block") {
		p := c.Part("block")
		progs := c02Programs(depth)
		thens := []string{"pay(A)", "pay(B)", "pay(N)"}
		p.Bound("first_transaction", "every program of <= max_fragments fragments containing a self-destruct or creation fragment x every B code, message call1, gas high, last regime")
		p.Bound("following_transaction", thens)
		p.Bound("max_fragments", depth)
		seen := map[string]bool{}
	blk:
		for pi, prog := range progs {
			relevant := false
			for _, f := range prog {
				if strings.HasPrefix(f, "sd(") || strings.HasPrefix(f, "create") || strings.HasPrefix(f, "selfdestruct") {
					relevant = true
				}
			}
			if !relevant && !c02UsesB(prog) {
				continue
			}
			if !c.Mine(int64(pi)) {
				continue
			}
			bs := c02BMenu
			if !c02UsesB(prog) {
				bs = bs[:1]
			}
			for _, b := range bs {
				for _, th := range thens {
					if c.Expired() {
						p.Incomplete(fmt.Sprintf("deadline at program %d of %d", pi, len(progs)))
						break blk
					}
					k := c02Case{Part: "programs", Regime: lastRegime, Prog: prog, B: b, Msg: "call1", Gas: "high", Then: th}
					res, err := r.run(k)
					if err != nil {
						c.HarnessError("run: " + err.Error() + " " + k.String())
						break blk
					}
					p.Transitions += 2
					p.Traces++
					oc := res.Outcome
					if res.Verdict != "" {
						oc += "/VIOLATION:" + res.Verdict
					}
					p.Outcome(oc)
					if !strings.HasSuffix(res.Verdict, "-by-following-transfer") && res.Verdict != "panic" {
						continue // the first transaction's own verdicts are the programs part's business
					}
					key := "block:" + res.Verdict + ":" + th + ":after:" + strings.Join(c02Kinds(prog), "+")
					if seen[key] {
						continue
					}
					seen[key] = true
					if c.Confirm(res.Detail, func() string {
						x, err := r.run(k)
						if err != nil {
							return "harness"
						}
						return x.Verdict
					}) {
						c.Violate("block", key, res.Detail, map[string]any{"verdict": res.Verdict, "case": k})
					}
				}
			}
			if int64(len(prog)) > p.MaxDepth {
				p.MaxDepth = int64(len(prog))
			}
		}
		if c.Shard == 0 {
			p.States = int64(len(progs))
		}
	}
	if c.Wants("programs") {
		p := c.Part("programs")
		p.Bound("max_fragments", depth)
		p.Bound("fragments", len(c02Frags))
		p.Bound("B_codes", c02BMenu)
		p.Bound("regimes", regimes)
		msgs := []string{"call0", "call1", "call0-no-accesslist", "create1", "inbound-etx5"}
		gases := []string{"intrinsic", "mid", "high"}
		p.Bound("messages", msgs)
		p.Bound("gas", gases)
		progs := c02Programs(depth)
		p.Bound("programs", len(progs))
		deepB := []string{"stop", "sd(S)", "etx(X,9)+revert"}
		deepMsgs := []string{"call1", "inbound-etx5"}
		deepGases := []string{"high"}
		deepRegimes := []string{c02Regimes[0].Name, c02Regimes[2].Name}
		if depth >= 3 {
			p.Bound("three_fragment_programs_menus", map[string]any{"B_codes": deepB, "messages": deepMsgs, "gas": deepGases, "regimes": deepRegimes})
		}
	outer:
		for pi, prog := range progs {
			if !c.Mine(int64(pi)) {
				continue
			}
			bs := c02BMenu
			pmsgs, pgases, pregimes := msgs, gases, regimes
			if len(prog) >= 3 { // thorough only: the third fragment is crossed with reduced menus
				bs, pmsgs, pgases, pregimes = deepB, deepMsgs, deepGases, deepRegimes
			}
			if len(prog) == 2 {
				pgases = gases[1:] // with exactly the intrinsic gas no instruction runs: crossed with 1-fragment programs only
			}
			if !c02UsesB(prog) {
				bs = bs[:1] // B's code cannot be reached
			}
			for _, b := range bs {
				for _, m := range pmsgs {
					for _, g := range pgases {
						for _, rg := range pregimes {
							if c.Expired() {
								p.Incomplete(fmt.Sprintf("deadline at program %d of %d", pi, len(progs)))
								break outer
							}
							k := c02Case{Part: "programs", Regime: rg, Prog: prog, B: b, Msg: m, Gas: g}
							res, err := r.run(k)
							if err != nil {
								c.HarnessError("run: " + err.Error() + " " + k.String())
								break outer
							}
							handle(p, "programs", k, res)
							if res.Verdict == "" && len(prog) == depth && res.NEtxs > 0 {
								p.Sample(k)
							}
						}
					}
				}
			}
			if int64(len(prog)) > p.MaxDepth {
				p.MaxDepth = int64(len(prog))
			}
		}
	}
}

func replayC02(c *vx.Ctx, v vx.Violation) string {
	raw, _ := jsonMarshal(v.Replay)
	var rp struct {
		Verdict string  `json:"verdict"`
		Case    c02Case `json:"case"`
	}
	if err := jsonUnmarshal(raw, &rp); err != nil {
		return "bad replay: " + err.Error()
	}
	r, err := c02NewRunner()
	if err != nil {
		return "harness: " + err.Error()
	}
	res, err := r.run(rp.Case)
	if err != nil {
		return "harness: " + err.Error()
	}
	if res.Verdict != "" {
		return res.Detail
	}
	return ""
}
