package main

// Map-iteration order as an enumerated source of nondeterminism (parts "map-order" of C06 and C07).
//
// Go starts every `range` over a map at a random position. The binary `vqm` (checks.d/C06.sh) is
// the same harness built against a copy of the Go runtime in which that random draw can be fixed
// (gen/runtime_maporder.py): with the draw fixed to v, a map that fits one bucket (<= 8 entries) is
// walked in slot order rotated by v&7, so v = 0..7 enumerates EVERY rotation of every such map;
// larger maps get 12 distinct (start bucket, slot) combinations (they stay sampled, not enumerated).
//
// Child check "maporder" (runs only inside vqm):
//   part "process" (C06): block sequences are produced once with draw 0. For every
//     v a fresh node follows the same blocks with the draw fixed to v for EVERYTHING the process does
//     (genesis, Append, Process, trie commits, pool resets): per block the outputs of the real
//     StateProcessor.Process must equal the reference run's, no block may be refused, and at the end
//     the canonical projection of the databases (ledger, lockups, address index, canonical map, heads,
//     multiset) and the commitment oracle must agree with the reference.
//   part "worker" (C07): the whole scenario (prefix mined by the node's own worker, mempool, block
//     assembly) runs with the draw fixed to v: the node must accept every block it assembles and its
//     commitments must describe its database. (Which of several equally priced transactions comes
//     first MAY depend on map order: the assembled blocks are not compared with each other.)
// The parents (c06MapOrder, c07MapOrder) run the child as a sub-process and fold its parts in.

import (
	"encoding/json"
	"errors"
	"fmt"
	"os"
	"os/exec"
	"path/filepath"
	"strings"
	"time"

	"github.com/dominant-strategies/go-quai/core"
	"github.com/dominant-strategies/go-quai/core/types"
	"github.com/dominant-strategies/go-quai/verifshim/vx"
)

func init() {
	register(vx.CheckSpec{ID: "maporder", Shards: 16, QuickBudget: 80 * time.Second, ThoroughBudg: 15 * time.Minute, Run: runMapOrder, ReplayFn: replayMapOrder})
}

var mapOrderDraws = []uint64{0, 1, 2, 3, 4, 5, 6, 7, 0x5555555555555555, 0xAAAAAAAAAAAAAAAA, 0xFFFFFFFFFFFFFFFF, 0x0123456789ABCDEF}

type mapOrderCase struct {
	Kind    string `json:"kind"` // "word" (C10 block-content word after the C10 prefix) | "pool" (C07 mempool after a named prefix)
	Word    []int  `json:"word,omitempty"`
	Prefix  string `json:"prefix,omitempty"`
	Mempool []int  `json:"mempool,omitempty"`
}

type mapOrderRef struct {
	all          []*types.WorkObject // every block of the history, in order
	first        int                 // index of the first block whose Process outputs are compared
	fps          []string            // Process fingerprints of all[first:]
	canon        map[string]string
	commitBroken bool
}

// mapOrderReference produces the history with draw 0 (every map walked from its first slot): a
// fixed draw rather than the ordinary random one, so that a difference found later is reproducible.
func mapOrderReference(cs mapOrderCase, c10prefix []*types.WorkObject) (*mapOrderRef, string, error) {
	setMapIter(true, 0)
	defer setMapIter(false, 0)
	ref := &mapOrderRef{}
	switch cs.Kind {
	case "word":
		s, err := c10Replicate(c10prefix)
		if err != nil {
			return nil, "", err
		}
		defer s.close()
		ref.all = append(ref.all, c10prefix...)
		ref.first = len(ref.all)
		for _, op := range cs.Word {
			ok, _ := c10ApplyOp(s, op)
			if !ok {
				return nil, "n/a", nil
			}
			blk, err := s.n.Build(s.opts(core.VBuildOpts{Order: 2, Fill: true}))
			var refused core.VForeignRefused
			if errors.As(err, &refused) {
				return nil, "n/a", nil
			}
			if err != nil {
				return nil, "", fmt.Errorf("build: %w", err)
			}
			fp, err := s.n.VProcessFingerprint(blk)
			if err != nil {
				return nil, "", fmt.Errorf("Process on own block: %w", err)
			}
			if r := s.n.Append(blk); r.Err() != nil {
				return nil, "", fmt.Errorf("own block rejected: %w", r.Err())
			}
			if s.n.VCheckCommitments(blk) != nil {
				ref.commitBroken = true // C06's own finding (part histories) - not a map-order effect
			}
			ref.all = append(ref.all, blk)
			ref.fps = append(ref.fps, fp)
		}
		ref.canon = s.n.VCanon()
	case "pool":
		s, _, err := c07Setup(c07Case{Prefix: cs.Prefix, Mempool: cs.Mempool})
		if err != nil {
			return nil, "", err
		}
		defer s.close()
		ref.all = append(ref.all, s.blocks...)
		// the prefix blocks carry conversions, coinbase unlocks and inbound ETXs: compare all of them
		ref.first = 0
		blk, err := s.n.Build(s.opts(core.VBuildOpts{Order: 2, Fill: true}))
		if err != nil {
			return nil, "", fmt.Errorf("build: %w", err)
		}
		if r := s.n.Append(blk); r.Err() != nil {
			return nil, "", fmt.Errorf("own block rejected: %w", r.Err())
		}
		if s.n.VCheckCommitments(blk) != nil {
			ref.commitBroken = true
		}
		ref.all = append(ref.all, blk)
		ref.canon = s.n.VCanon()
		// fingerprints of every block against a follower with the ordinary order
		f, err := newScen(3, true, nil)
		if err != nil {
			return nil, "", err
		}
		defer f.close()
		for i, b := range ref.all {
			fp, err := f.n.VProcessFingerprint(b)
			if err != nil {
				return nil, "", fmt.Errorf("reference follower: Process of block %d: %w", i, err)
			}
			ref.fps = append(ref.fps, fp)
			if r := f.n.Append(b); r.Err() != nil {
				return nil, "", fmt.Errorf("reference follower rejects block %d: %w", i, r.Err())
			}
		}
	}
	shape := fmt.Sprintf("%d-blocks/%d-txs", len(ref.all)-ref.first, func() (n int) {
		for _, b := range ref.all[ref.first:] {
			n += len(b.Transactions())
		}
		return
	}())
	return ref, shape, nil
}

// mapOrderFollow replays ref's blocks on a fresh node with the draw fixed to v; returns (key, desc).
func mapOrderFollow(ref *mapOrderRef, v uint64) (string, string, error) {
	return mapOrderFollowCfg(ref, v, false)
}

// mapOrderFollowCfg: snapshots=true gives the follower's state processor a state snapshot tree (the
// reference node reads everything from the tries): the flat layer is a cache, the outputs of
// Process and the stored state must not depend on it.
func mapOrderFollowCfg(ref *mapOrderRef, v uint64, snapshots bool) (string, string, error) {
	setMapIter(true, v)
	defer setMapIter(false, 0)
	f, err := newScen(3, true, func(cfg *core.VNodeConfig) {
		if snapshots {
			cfg.SnapshotLimit = 16
		}
	})
	if err != nil {
		return "", "", err
	}
	defer f.close()
	for i, b := range ref.all {
		if i >= ref.first {
			fp, perr := f.n.VProcessFingerprint(b)
			if perr != nil {
				return "map-order:process-rejects", fmt.Sprintf("map-iteration draw %#x: Process refuses block %d (height %d) that it accepts under draw 0: %v", v, i, b.NumberU64(2), perr), nil
			}
			if want := ref.fps[i-ref.first]; fp != want {
				return "map-order:process-output:" + c06FirstDiffField(want, fp), fmt.Sprintf("map-iteration draw %#x: outputs of Process for block %d (height %d) differ from the reference run:\n reference: %s\n draw %#x: %s", v, i, b.NumberU64(2), want, v, fp), nil
			}
		}
		if r := f.n.Append(b); r.Err() != nil {
			return "map-order:append-rejects", fmt.Sprintf("map-iteration draw %#x: block %d (height %d) is refused: %v", v, i, b.NumberU64(2), r.Err()), nil
		}
	}
	if d := c10CanonDiff(f.n.VCanon(), ref.canon); d != "" {
		return "map-order:stored-state:" + strings.SplitN(d, ":", 2)[0], fmt.Sprintf("map-iteration draw %#x: databases after the same blocks differ from the reference run:\n%s", v, d), nil
	}
	if !ref.commitBroken {
		if err := f.n.VCheckCommitments(ref.all[len(ref.all)-1]); err != nil {
			return "map-order:commitment:" + strings.SplitN(err.Error(), ":", 2)[0], fmt.Sprintf("map-iteration draw %#x: %v", v, err), nil
		}
	}
	return "", "", nil
}

// mapOrderWorker runs prefix + mempool + assembly entirely under draw v.
func mapOrderWorker(cs mapOrderCase, v uint64) (key, desc, shape string, err error) {
	setMapIter(true, v)
	defer setMapIter(false, 0)
	s, admitted, err := c07Setup(c07Case{Prefix: cs.Prefix, Mempool: cs.Mempool})
	if err != nil {
		var rej core.VOwnBlockRejected
		if errors.As(err, &rej) {
			return "map-order:own-block-rejected:in-prefix:" + c07ErrClass(rej.Err), fmt.Sprintf("map-iteration draw %#x: while building prefix %s the node rejected a block its own worker assembled: %v", v, cs.Prefix, err), "", nil
		}
		return "", "", "", err
	}
	defer s.close()
	blk, err := s.n.Build(s.opts(core.VBuildOpts{Order: 2, Fill: true}))
	if err != nil {
		return "", "", "", fmt.Errorf("build: %w", err)
	}
	if r := s.n.Append(blk); r.Err() != nil {
		return "map-order:own-block-rejected:" + c07ErrClass(r.Err()), fmt.Sprintf("map-iteration draw %#x, prefix %s, mempool %v (%v): the node rejects the block its own worker assembled: %v", v, cs.Prefix, cs.Mempool, admitted, r.Err()), "", nil
	}
	shape = fmt.Sprintf("%d-txs", len(blk.Transactions()))
	if cerr := s.n.VCheckCommitments(blk); cerr != nil {
		// must also be broken under the ordinary order to be somebody else's finding
		setMapIter(false, 0)
		s2, _, e2 := c07Setup(c07Case{Prefix: cs.Prefix, Mempool: cs.Mempool})
		if e2 == nil {
			defer s2.close()
			if b2, e3 := s2.n.Mine(core.VBuildOpts{Order: 2, Fill: true}); e3 == nil && s2.n.VCheckCommitments(b2) == nil {
				return "map-order:own-block-commitment:" + strings.SplitN(cerr.Error(), ":", 2)[0], fmt.Sprintf("map-iteration draw %#x, prefix %s, mempool %v: %v (holds under the ordinary order)", v, cs.Prefix, cs.Mempool, cerr), shape, nil
			}
		}
	}
	return "", "", shape, nil
}

func mapOrderCases(thorough bool) (proc, work []mapOrderCase) {
	wl, pl := 2, 2
	prefixes := []string{"C14"}
	if thorough {
		wl, pl = 3, 3
		prefixes = []string{"C14", "P16"}
	}
	proc = append(proc, mapOrderCase{Kind: "word"})
	for _, w := range c10Branches(wl) {
		proc = append(proc, mapOrderCase{Kind: "word", Word: w})
	}
	for _, pre := range prefixes {
		for _, seq := range c07Sequences(pl) {
			cs := mapOrderCase{Kind: "pool", Prefix: pre, Mempool: seq}
			proc = append(proc, cs)
			work = append(work, cs)
		}
	}
	return
}

func runMapOrder(c *vx.Ctx) {
	core.VScaleParams(core.VR1)
	c.Rule = "every case x every fixed map-iteration draw; outcome class = shape of the compared blocks"
	if !mapIterAvail {
		c.Part("process").Incomplete("this binary was built without the runtime overlay")
		return
	}
	// parts routing / reorg run only when asked for by name (--only), parts process / worker otherwise
	proc, work := mapOrderCases(c.Thorough())
	var c10prefix []*types.WorkObject
	if c.Wants("process") {
		ps, err := c10BuildPrefix()
		if err != nil {
			c.HarnessError("prefix: " + err.Error())
			return
		}
		c10prefix = ps.blocks
		ps.close()
		p := c.Part("process")
		p.Bound("draws", len(mapOrderDraws))
		p.Bound("cases", len(proc))
		for i, cs := range proc {
			if !c.Mine(int64(i)) {
				continue
			}
			if c.Expired() {
				p.Incomplete("deadline")
				break
			}
			ref, shape, err := mapOrderReference(cs, c10prefix)
			if err != nil {
				var rej core.VOwnBlockRejected
				if errors.As(err, &rej) || strings.Contains(err.Error(), "own block rejected") {
					p.Outcome("reference-own-block-rejected(C07's business)")
					continue
				}
				c.HarnessError(fmt.Sprintf("case %+v: %v", cs, err))
				return
			}
			if ref == nil {
				p.Outcome("n/a")
				continue
			}
			p.States++
			bad := false
			for _, v := range mapOrderDraws {
				key, desc, err := mapOrderFollow(ref, v)
				if err != nil {
					c.HarnessError(fmt.Sprintf("case %+v draw %#x: %v", cs, v, err))
					return
				}
				p.Transitions += int64(len(ref.all))
				p.Traces += int64(len(ref.all) - ref.first)
				if key != "" {
					bad = true
					cs, v, key := cs, v, key
					if c.Confirm(desc, func() string {
						r2, _, e2 := mapOrderReference(cs, c10prefix)
						if e2 != nil || r2 == nil {
							return ""
						}
						k2, _, _ := mapOrderFollow(r2, v)
						return k2
					}) {
						c.Violate("process", key, desc, map[string]any{"case": cs, "draw": v, "part": "process"})
					}
					break
				}
			}
			if !bad {
				// the same blocks on a follower whose state processor runs with a state snapshot tree
				key, desc, err := mapOrderFollowCfg(ref, 0, true)
				if err != nil {
					c.HarnessError(fmt.Sprintf("case %+v snapshot follower: %v", cs, err))
					return
				}
				p.Transitions += int64(len(ref.all))
				p.Traces += int64(len(ref.all) - ref.first)
				if key != "" {
					bad = true
					cs := cs
					key = strings.Replace(key, "map-order:", "state-snapshots:", 1)
					desc = "follower with a state snapshot tree (reference: tries only): " + strings.Replace(desc, "map-iteration draw 0x0: ", "", 1)
					if c.Confirm(desc, func() string {
						r2, _, e2 := mapOrderReference(cs, c10prefix)
						if e2 != nil || r2 == nil {
							return ""
						}
						k2, _, _ := mapOrderFollowCfg(r2, 0, true)
						return strings.Replace(k2, "map-order:", "state-snapshots:", 1)
					}) {
						c.Violate("process", key, desc, map[string]any{"case": cs, "draw": 0, "part": "process", "snapshots": true})
					}
				}
			}
			if !bad {
				p.Outcome("equal:" + shape)
				p.Sample(cs)
			}
		}
	}
	if c.Only == "routing" {
		mapOrderRouting(c)
		return
	}
	if c.Only == "reorg" {
		mapOrderReorg(c)
		return
	}
	if c.Wants("worker") {
		p := c.Part("worker")
		p.Bound("draws", len(mapOrderDraws))
		p.Bound("cases", len(work))
		for i, cs := range work {
			if !c.Mine(int64(i)) {
				continue
			}
			if c.Expired() {
				p.Incomplete("deadline")
				break
			}
			p.States++
			for _, v := range mapOrderDraws {
				key, desc, shape, err := mapOrderWorker(cs, v)
				if err != nil {
					c.HarnessError(fmt.Sprintf("case %+v draw %#x: %v", cs, v, err))
					return
				}
				p.Transitions++
				p.Traces++
				if key != "" {
					cs, v := cs, v
					if c.Confirm(desc, func() string { k2, _, _, _ := mapOrderWorker(cs, v); return k2 }) {
						c.Violate("worker", key, desc, map[string]any{"case": cs, "draw": v, "part": "worker"})
					}
					break
				}
				p.Outcome("accepted:" + shape)
			}
		}
	}
}

// ---- part "routing" (C04): every routing word under every draw ------------------------------------

func mapOrderRoutingRun(word string, v uint64) (key, desc, cls string) {
	setMapIter(true, v)
	defer setMapIter(false, 0)
	return c04RunWord(word, nil, false)
}

func mapOrderRouting(c *vx.Ctx) {
	p := c.Part("routing")
	maxLen := 3
	if c.Thorough() {
		maxLen = 4
	}
	words := c04Words(maxLen)
	p.Bound("draws", len(mapOrderDraws))
	p.Bound("word_length", maxLen)
	for i, w := range words {
		if !c.Mine(int64(i)) {
			continue
		}
		if c.Expired() {
			p.Incomplete("deadline")
			return
		}
		p.States++
		refKey, refDesc, refCls := mapOrderRoutingRun(w, 0)
		if refKey == "harness" {
			c.HarnessError(fmt.Sprintf("routing word %q: %s", w, refDesc))
			return
		}
		if refKey != "" {
			p.Outcome("fails-under-draw-0(C04 routing's business)")
			continue
		}
		for _, v := range mapOrderDraws[1:] {
			key, desc, cls := mapOrderRoutingRun(w, v)
			if key == "harness" {
				c.HarnessError(fmt.Sprintf("routing word %q draw %#x: %s", w, v, desc))
				return
			}
			p.Transitions++
			p.Traces++
			if key == "" && cls != refCls {
				key, desc = "result-differs", fmt.Sprintf("word %q ends with %s, under draw 0 with %s", w, cls, refCls)
			}
			if key != "" {
				w, v := w, v
				desc = fmt.Sprintf("map-iteration draw %#x: %s", v, desc)
				if c.Confirm(desc, func() string {
					k, _, c2 := mapOrderRoutingRun(w, v)
					_, _, r2 := mapOrderRoutingRun(w, 0)
					if k == "" && c2 != r2 {
						k = "result-differs"
					}
					return k
				}) {
					c.Violate("routing", "map-order:routing:"+key, desc, map[string]any{"word": w, "draw": v, "part": "routing"})
				}
				break
			}
		}
		p.Outcome("equal:" + refCls[:strings.Index(refCls+",executed-list", ",executed-list")])
	}
}

// ---- part "reorg" (C10): pairs of one-block branches under every draw ---------------------------

func mapOrderReorgRun(prefix []*types.WorkObject, a, b int, v uint64) (key, desc string) {
	// the branches are built under draw 0 (their own reference nodes), the switching node runs under v
	setMapIter(true, 0)
	ba, err := c10BuildBranch(prefix, []int{a}, 1)
	if err != nil || ba == nil {
		setMapIter(false, 0)
		return "n/a", ""
	}
	bb, err := c10BuildBranch(prefix, []int{b}, 2)
	setMapIter(false, 0)
	if err != nil || bb == nil {
		return "n/a", ""
	}
	setMapIter(true, v)
	defer setMapIter(false, 0)
	return c10RunPair(prefix, ba, bb, 3)
}

func mapOrderReorg(c *vx.Ctx) {
	p := c.Part("reorg")
	p.Bound("draws", len(mapOrderDraws))
	p.Bound("branches", "all ordered pairs of distinct one-block branches over the C10 block contents, B/A/B switching")
	ps, err := c10BuildPrefix()
	if err != nil {
		c.HarnessError("prefix: " + err.Error())
		return
	}
	prefix := ps.blocks
	ps.close()
	var idx int64
	for a := range c10Ops {
		for b := range c10Ops {
			if a == b {
				continue
			}
			idx++
			if !c.Mine(idx) {
				continue
			}
			if c.Expired() {
				p.Incomplete("deadline")
				return
			}
			p.States++
			refKey, _ := mapOrderReorgRun(prefix, a, b, 0)
			if refKey == "n/a" {
				p.Outcome("n/a")
				continue
			}
			if refKey != "" {
				p.Outcome("fails-under-draw-0(C10's business)")
				continue
			}
			ok := true
			for _, v := range mapOrderDraws[1:] {
				key, desc := mapOrderReorgRun(prefix, a, b, v)
				p.Transitions += 3
				p.Traces++
				if key == "harness" {
					c.HarnessError(fmt.Sprintf("reorg %s/%s draw %#x: %s", c10Ops[a], c10Ops[b], v, desc))
					return
				}
				if key != "" && key != "n/a" {
					ok = false
					a, b, v := a, b, v
					desc = fmt.Sprintf("map-iteration draw %#x, A=[%s] B=[%s]: %s", v, c10Ops[a], c10Ops[b], desc)
					if c.Confirm(desc, func() string { k, _ := mapOrderReorgRun(prefix, a, b, v); return k }) {
						c.Violate("reorg", "map-order:reorg:"+key, desc, map[string]any{"a": a, "b": b, "draw": v, "part": "reorg"})
					}
					break
				}
			}
			if ok {
				p.Outcome("equal-under-every-draw")
			}
		}
	}
}

func replayMapOrder(c *vx.Ctx, v vx.Violation) string {
	core.VScaleParams(core.VR1)
	if !mapIterAvail {
		return "harness: replay needs the vqm binary"
	}
	raw, _ := jsonMarshal(v.Replay)
	var r struct {
		Case mapOrderCase `json:"case"`
		Draw uint64       `json:"draw"`
		Part string       `json:"part"`
		Word string       `json:"word"`
		A    int          `json:"a"`
		B    int          `json:"b"`
		Snap bool         `json:"snapshots"`
	}
	if err := jsonUnmarshal(raw, &r); err != nil {
		return "bad replay: " + err.Error()
	}
	if r.Part == "routing" {
		k, d, cls := mapOrderRoutingRun(r.Word, r.Draw)
		if k == "" {
			if _, _, ref := mapOrderRoutingRun(r.Word, 0); ref != cls {
				d = fmt.Sprintf("word %q ends with %s, under draw 0 with %s", r.Word, cls, ref)
			}
		}
		return d
	}
	if r.Part == "reorg" {
		ps, err := c10BuildPrefix()
		if err != nil {
			return "harness: " + err.Error()
		}
		prefix := ps.blocks
		ps.close()
		_, d := mapOrderReorgRun(prefix, r.A, r.B, r.Draw)
		return d
	}
	if r.Part == "worker" {
		_, desc, _, err := mapOrderWorker(r.Case, r.Draw)
		if err != nil {
			return "harness: " + err.Error()
		}
		return desc
	}
	var c10prefix []*types.WorkObject
	if r.Case.Kind == "word" {
		ps, err := c10BuildPrefix()
		if err != nil {
			return "harness: " + err.Error()
		}
		c10prefix = ps.blocks
		ps.close()
	}
	ref, _, err := mapOrderReference(r.Case, c10prefix)
	if err != nil || ref == nil {
		return fmt.Sprintf("harness: reference: %v", err)
	}
	_, desc, err := mapOrderFollowCfg(ref, r.Draw, r.Snap)
	if err != nil {
		return "harness: " + err.Error()
	}
	return desc
}

// ---- parent side -------------------------------------------------------------------------------

type childEvidence struct {
	Coverage struct {
		Parts         map[string]*vx.Part `json:"parts"`
		HarnessErrors int                 `json:"harness_errors"`
	} `json:"coverage"`
}

// runChildCheck executes another harness binary on a (child) check id and returns its parts and the
// violations it confirmed. The child's evidence and replays go to a scratch directory.
func runChildCheck(bin, id, tier, only string) (map[string]*vx.Part, []vx.Violation, string, error) {
	dir, err := os.MkdirTemp("", "vq-child-"+id)
	if err != nil {
		return nil, nil, "", err
	}
	defer os.RemoveAll(dir)
	args := []string{id, "--tier", tier}
	if only != "" {
		args = append(args, "--only", only)
	}
	cmd := exec.Command(bin, args...)
	env := []string{}
	for _, e := range os.Environ() {
		if strings.HasPrefix(e, "VX_SHARD=") || strings.HasPrefix(e, "VX_OUT=") || strings.HasPrefix(e, "VERIF_OUT=") || strings.HasPrefix(e, "GOMAXPROCS=") {
			continue
		}
		env = append(env, e)
	}
	cmd.Env = append(env, "VERIF_OUT="+dir)
	raw, runErr := cmd.CombinedOutput()
	tail := string(raw)
	if len(tail) > 3000 {
		tail = tail[len(tail)-3000:]
	}
	evRaw, err := os.ReadFile(filepath.Join(dir, "evidence", id+".json"))
	if err != nil {
		return nil, nil, tail, fmt.Errorf("child %s wrote no evidence (%v)", id, runErr)
	}
	var ev childEvidence
	if err := json.Unmarshal(evRaw, &ev); err != nil {
		return nil, nil, tail, err
	}
	if ev.Coverage.HarnessErrors > 0 {
		return ev.Coverage.Parts, nil, tail, fmt.Errorf("child %s reported %d harness error(s)", id, ev.Coverage.HarnessErrors)
	}
	var viols []vx.Violation
	files, _ := filepath.Glob(filepath.Join(dir, "replays", id, "*.json"))
	for _, f := range files {
		b, err := os.ReadFile(f)
		if err != nil {
			continue
		}
		var v vx.Violation
		if json.Unmarshal(b, &v) == nil {
			viols = append(viols, v)
		}
	}
	return ev.Coverage.Parts, viols, tail, nil
}

// foldMapOrder: shared parent side of C06/C07 part "map-order".
func foldMapOrder(c *vx.Ctx, childPart string) {
	if !c.Wants("map-order") || c.Shard != 0 {
		return
	}
	p := c.Part("map-order")
	bin := os.Getenv("VQ_BIN_vqm")
	if bin == "" {
		p.Incomplete("runtime-overlay build (vqm) not available: part skipped")
		return
	}
	parts, viols, tail, err := runChildCheck(bin, "maporder", c.Tier, childPart)
	if err != nil {
		c.HarnessError(fmt.Sprintf("map-order sub-process: %v\n%s", err, tail))
		return
	}
	cp := parts[childPart]
	if cp == nil {
		c.HarnessError("map-order sub-process reported no part " + childPart)
		return
	}
	p.States, p.Transitions, p.Traces, p.Evals = cp.States, cp.Transitions, cp.Traces, cp.Evals
	for k, n := range cp.Outcomes {
		for i := int64(0); i < n; i++ {
			p.Outcome(k)
		}
	}
	for k, b := range cp.Bounds {
		p.Bound(k, b)
	}
	p.Bound("draw_values", mapOrderDraws)
	for _, n := range cp.Notes {
		p.Note("%s", n)
	}
	if !cp.Exhaustive {
		p.Incomplete("child part incomplete")
	}
	for _, s := range cp.Samples {
		p.Sample(s)
	}
	p.Note("maps with at most 8 entries: all 8 rotations of the iteration start enumerated; larger maps: 12 (start bucket, slot) combinations, bucket placement itself stays hash-seeded (sampled)")
	for _, v := range viols {
		c.Violate("map-order", v.Key, v.Desc, v.Replay)
	}
}

func c06MapOrder(c *vx.Ctx) { foldMapOrder(c, "process") }
func c07MapOrder(c *vx.Ctx) { foldMapOrder(c, "worker") }
func c04MapOrder(c *vx.Ctx) { foldMapOrder(c, "routing") }
func c10MapOrder(c *vx.Ctx) { foldMapOrder(c, "reorg") }

// replayViaVqm re-executes a map-order artefact in the vqm binary.
func replayViaVqm(v vx.Violation) string {
	bin := os.Getenv("VQ_BIN_vqm")
	if bin == "" {
		return "harness: runtime-overlay build (vqm) not available"
	}
	f, err := os.CreateTemp("", "vq-maporder-replay-*.json")
	if err != nil {
		return "harness: " + err.Error()
	}
	defer os.Remove(f.Name())
	raw, _ := json.Marshal(v)
	f.Write(raw)
	f.Close()
	out, _ := exec.Command(bin, "maporder", "--replay", f.Name()).CombinedOutput()
	s := string(out)
	if i := strings.Index(s, "VIOLATION property=maporder"); i >= 0 {
		return s[i:]
	}
	if strings.Contains(s, "replay: no violation") {
		return ""
	}
	return "harness: " + s
}
