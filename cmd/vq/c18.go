package main

// C18 — a trie's root depends only on its contents, and proofs prove exactly them.
//
// Part "histories": plain bounded-exhaustive enumeration (no state merging, so no soundness
// argument is needed) of ALL operation histories up to a depth over a small colliding key universe,
// executed from scratch on the REAL trie.Trie / trie.SecureTrie on top of a real trie.Database over
// a memorydb. A state is the history that reaches it. After the last operation of every history the
// observers are evaluated against a boring model (a map key -> value index):
//   * every key of the universe: TryGet == model
//   * Hash() == root of a trie REBUILT from the model content by sorted insertion (== the same
//     content inserted in reverse order == trie.StackTrie over the sorted content where StackTrie
//     applies, i.e. the key set is prefix free)
//   * every retained copy (op copy / fork) still has the content and root it had when it was taken
// Operations: Update(k,v) Update(k,"") Delete(k) Hash Commit+reload (from the dirty cache)
// Commit+flush-to-disk+reload through a NEW trie.Database, Commit+Reference(new)+Dereference(old)+
// reload (the reference counting of the dirty cache, used as core/state uses it), Copy.
//
// Part "proofs": on the LIVE trie at the end of every history (depth <= proof depth) Prove every key
// of the universe, ingest the proof the way a receiver does (list of blobs, re-keyed by keccak) and
// VerifyProof against the MODEL root: result must be exactly the model value / proven absence;
// the proof of key i verified for key j must fail or give the truth about j.
// Part "proof-corruption": for the final states of all short histories every single-bit flip of
// every proof blob must make verification fail or still yield the truth. Every worker walks all
// short histories (cheap) and flips only the distinct (root, key, proof) triples it owns (hash of
// the triple mod workers), so every distinct proof is corrupted exactly once.
//
// Part "stack-subsets": every subset of a fixed-length key universe x value-size patterns:
// StackTrie(sorted) == Trie(sorted) == Trie(reverse) == Trie(all inserted, complement deleted).
// Part "derivesha": DeriveSha(list, StackTrie) == DeriveSha(list, Trie) == Trie filled directly with
// {rlp(i): item_i} for every list length 0..N x item sizes x 2 content patterns.

import (
	"bytes"
	"crypto/sha256"
	"fmt"
	"hash/fnv"
	"io"
	"runtime/debug"
	"sort"
	"strings"
	"time"

	"github.com/dominant-strategies/go-quai/common"
	"github.com/dominant-strategies/go-quai/core/types"
	"github.com/dominant-strategies/go-quai/crypto"
	"github.com/dominant-strategies/go-quai/ethdb/memorydb"
	"github.com/dominant-strategies/go-quai/rlp"
	"github.com/dominant-strategies/go-quai/trie"
	"github.com/dominant-strategies/go-quai/verifshim/vx"
	"github.com/sirupsen/logrus"
)

func init() {
	register(vx.CheckSpec{ID: "C18", Shards: 12, QuickBudget: 70 * time.Second, ThoroughBudg: 14 * time.Minute, Run: runC18, ReplayFn: replayC18})
}

var c18Log = func() *logrus.Logger {
	l := logrus.New()
	l.SetOutput(io.Discard)
	l.ExitFunc = func(int) { panic("logger.Fatal called") }
	return l
}()

// value menu: two short values of different length (embedded nodes), one 33-byte value (forces a
// hashed, non-embedded leaf)
var c18Vals = [][]byte{[]byte("v1"), []byte("v2x"), bytes.Repeat([]byte{0xA7}, 33)}

// ---------------------------------------------------------------------------------------------
// instances and alphabet

type c18Op struct {
	Kind string `json:"op"` // upd upd0 del hash commit flush cgc copy fork
	K    int    `json:"k,omitempty"`
	V    int    `json:"v,omitempty"`
}

type c18T interface {
	TryGet(key []byte) ([]byte, error)
	TryUpdate(key, value []byte) error
	TryDelete(key []byte) error
	Hash() common.Hash
	Commit(onleaf trie.LeafCallback) (common.Hash, error)
}

type c18Inst struct {
	Name   string
	Secure bool
	Keys   [][]byte // keys handed to Update/Get/Delete
	Paths  [][]byte // trie paths (== Keys for the raw trie, keccak(Keys) for the secure trie)
	Alpha  []c18Op
	order  []int // key indices sorted by path
	prefix bool  // some path is a prefix of another one
	// Start: operations applied before every enumerated history (a non-initial start state); they
	// do not count towards the depth bound
	Start []c18Op
}

func (in *c18Inst) opString(o c18Op) string {
	switch o.Kind {
	case "upd":
		return fmt.Sprintf("Update(%s,%s)", in.keyName(o.K), c18ValName(o.V))
	case "upd0":
		return fmt.Sprintf("Update(%s,\"\")", in.keyName(o.K))
	case "del":
		return fmt.Sprintf("Delete(%s)", in.keyName(o.K))
	}
	return o.Kind
}

func (in *c18Inst) keyName(k int) string {
	if in.Secure {
		return fmt.Sprintf("%q[path %x..]", in.Keys[k], in.Paths[k][:3])
	}
	return fmt.Sprintf("%q", in.Keys[k])
}

func c18ValName(v int) string {
	if v < 0 {
		return "absent"
	}
	if len(c18Vals[v]) > 8 {
		return fmt.Sprintf("<%d bytes>", len(c18Vals[v]))
	}
	return fmt.Sprintf("%q", c18Vals[v])
}

func (in *c18Inst) histString(h []c18Op) string {
	s := make([]string, len(h))
	for i, o := range h {
		s[i] = in.opString(o)
	}
	pre := ""
	if len(in.Start) > 0 {
		ps := make([]string, len(in.Start))
		for i, o := range in.Start {
			ps[i] = in.opString(o)
		}
		pre = "start{" + strings.Join(ps, " ") + "} "
	}
	return pre + "[" + strings.Join(s, " ") + "]"
}

func (in *c18Inst) finish() {
	n := len(in.Keys)
	in.order = make([]int, n)
	for i := range in.order {
		in.order[i] = i
	}
	sort.Slice(in.order, func(a, b int) bool { return bytes.Compare(in.Paths[in.order[a]], in.Paths[in.order[b]]) < 0 })
	for i := 0; i < n; i++ {
		for j := 0; j < n; j++ {
			if i != j && bytes.HasPrefix(in.Paths[j], in.Paths[i]) {
				in.prefix = true
			}
		}
	}
	for k := 0; k < n; k++ {
		for v := range c18Vals {
			in.Alpha = append(in.Alpha, c18Op{Kind: "upd", K: k, V: v})
		}
	}
	for k := 0; k < n; k++ {
		in.Alpha = append(in.Alpha, c18Op{Kind: "upd0", K: k})
	}
	for k := 0; k < n; k++ {
		in.Alpha = append(in.Alpha, c18Op{Kind: "del", K: k})
	}
	for _, kind := range []string{"hash", "commit", "flush", "cgc", "copy"} {
		in.Alpha = append(in.Alpha, c18Op{Kind: kind})
	}
	if in.Secure {
		in.Alpha = append(in.Alpha, c18Op{Kind: "fork"})
	}
}

func c18SharedNibbles(a, b []byte) int {
	n := 0
	for i := range a {
		if a[i]>>4 != b[i]>>4 {
			return n
		}
		n++
		if a[i]&15 != b[i]&15 {
			return n
		}
		n++
	}
	return n
}

func c18RawInst() *c18Inst {
	in := &c18Inst{Name: "raw"}
	for _, k := range []string{"", "a", "ab", "abc", "b"} {
		in.Keys = append(in.Keys, []byte(k))
		in.Paths = append(in.Paths, []byte(k))
	}
	in.finish()
	return in
}

// c18FanInst: three sibling keys under one extension node (root = short[6,1] -> full{1,2,3}), a fourth
// key that splits the extension; every history starts from the trie that already holds the three
// siblings (inserted, not yet hashed), so that hash/commit followed by a delete that leaves the
// branch node in place is within the quick depth.
func c18FanInst() *c18Inst {
	in := &c18Inst{Name: "fan"}
	for _, k := range []string{"a\x10", "a\x20", "a\x30", "b"} {
		in.Keys = append(in.Keys, []byte(k))
		in.Paths = append(in.Paths, []byte(k))
	}
	in.finish()
	in.Start = []c18Op{{Kind: "upd", K: 0, V: 0}, {Kind: "upd", K: 1, V: 2}, {Kind: "upd", K: 2, V: 2}}
	return in
}

// c18SecureInst grinds (deterministically) preimages whose keccak hashes share exactly 3, 2 and 1
// leading nibbles with the hash of the first preimage.
func c18SecureInst() *c18Inst {
	in := &c18Inst{Name: "secure", Secure: true}
	base := []byte("acct-0")
	h0 := crypto.Keccak256(base)
	in.Keys, in.Paths = [][]byte{base}, [][]byte{h0}
	for _, want := range []int{3, 2, 1} {
		for i := 1; ; i++ {
			pre := []byte(fmt.Sprintf("acct-%d", i))
			h := crypto.Keccak256(pre)
			if c18SharedNibbles(h0, h) == want {
				in.Keys, in.Paths = append(in.Keys, pre), append(in.Paths, h)
				break
			}
		}
	}
	in.finish()
	return in
}

func (in *c18Inst) open(root common.Hash, db *trie.Database) (c18T, error) {
	if in.Secure {
		t, err := trie.NewSecure(root, db)
		if err != nil {
			return nil, err
		}
		return t, nil
	}
	t, err := trie.New(root, db)
	if err != nil {
		return nil, err
	}
	return t, nil
}

func c18Copy(t c18T) c18T {
	switch x := t.(type) {
	case *trie.Trie:
		cp := *x // what SecureTrie.Copy does with the trie it wraps
		return &cp
	case *trie.SecureTrie:
		return x.Copy()
	}
	panic("c18Copy")
}

func c18Prove(t c18T, path []byte, w *c18ProofList) error {
	switch x := t.(type) {
	case *trie.Trie:
		return x.Prove(path, 0, w)
	case *trie.SecureTrie:
		return x.Prove(path, 0, w) // SecureTrie.Prove takes the HASHED key, as core/state passes it
	}
	panic("c18Prove")
}

func c18Fingerprint(t c18T) ([]byte, bool) {
	switch x := t.(type) {
	case *trie.Trie:
		return trie.VerifC18Fingerprint(x)
	case *trie.SecureTrie:
		return trie.VerifC18Fingerprint(trie.VerifC18Inner(x))
	}
	return nil, true
}

func c18Shape(t c18T) string {
	switch x := t.(type) {
	case *trie.Trie:
		return trie.VerifC18Shape(x)
	case *trie.SecureTrie:
		return trie.VerifC18Shape(trie.VerifC18Inner(x))
	}
	return "?"
}

// shape class: kind of the root node, its flags, and whether unresolved references are present
func c18ShapeClass(s string) string {
	if s == "" {
		return "?"
	}
	root := s[:1]
	fl := ""
	if strings.HasSuffix(s, "#*") {
		fl = "#*"
	} else if strings.HasSuffix(s, "#") {
		fl = "#"
	} else if strings.HasSuffix(s, "*") {
		fl = "*"
	}
	un := ""
	if root != "h" && strings.Contains(s, "h") {
		un = "+unresolved"
	}
	return root + fl + un
}

// ---------------------------------------------------------------------------------------------
// proof list: what Prove produces for a receiver (core/state.proofList keeps only the blobs)

type c18ProofList struct {
	Keys  [][]byte
	Blobs [][]byte
}

func (l *c18ProofList) Put(k, v []byte) error {
	l.Keys = append(l.Keys, common.CopyBytes(k))
	l.Blobs = append(l.Blobs, common.CopyBytes(v))
	return nil
}
func (l *c18ProofList) Delete([]byte) error    { panic("proof writer: Delete") }
func (l *c18ProofList) Logger() *logrus.Logger { return c18Log }

// ingest: the receiver re-derives the node keys from the blobs
func c18Ingest(blobs [][]byte) *memorydb.Database {
	db := memorydb.New(c18Log)
	for _, b := range blobs {
		db.Put(crypto.Keccak256(b), b)
	}
	return db
}

// ---------------------------------------------------------------------------------------------
// reference: root rebuilt from content

type c18Fail struct{ Key, Desc string }

type c18Ref struct {
	root  common.Hash
	stack string // "n/a" or "ok"
	fails []c18Fail
}

type c18FPKey struct {
	secure, flips bool
	sum           [32]byte
}

type c18Cache struct {
	shard, nshards int
	proved         map[c18FPKey]bool
	refs           map[string]*c18Ref
	proofs         map[string]bool // (content,key,proof) already verified
	flips          map[string]bool
}

func newC18Cache() *c18Cache {
	return &c18Cache{proved: map[c18FPKey]bool{}, refs: map[string]*c18Ref{}, proofs: map[string]bool{}, flips: map[string]bool{}}
}

func c18ModelKey(m []int8) string {
	b := make([]byte, len(m))
	for i, v := range m {
		b[i] = byte(v + 1)
	}
	return string(b)
}

func (in *c18Inst) modelString(m []int8) string {
	var s []string
	for _, k := range in.order {
		if m[k] >= 0 {
			s = append(s, in.keyName(k)+"="+c18ValName(int(m[k])))
		}
	}
	return "{" + strings.Join(s, ", ") + "}"
}

func c18FreshDB() *trie.Database { return trie.NewDatabase(memorydb.New(c18Log)) }

// rebuild computes the root of a fresh trie filled from the content in the given key order.
func (in *c18Inst) rebuild(m []int8, reverse bool) (common.Hash, error) {
	t, err := in.open(common.Hash{}, c18FreshDB())
	if err != nil {
		return common.Hash{}, err
	}
	for i := range in.order {
		k := in.order[i]
		if reverse {
			k = in.order[len(in.order)-1-i]
		}
		if m[k] < 0 {
			continue
		}
		if err := t.TryUpdate(in.Keys[k], c18Vals[m[k]]); err != nil {
			return common.Hash{}, err
		}
	}
	return t.Hash(), nil
}

func (in *c18Inst) prefixFree(m []int8) bool {
	for i := range m {
		for j := range m {
			if i != j && m[i] >= 0 && m[j] >= 0 && bytes.HasPrefix(in.Paths[j], in.Paths[i]) {
				return false
			}
		}
	}
	return true
}

func (in *c18Inst) computeRef(m []int8) *c18Ref {
	r := &c18Ref{stack: "n/a"}
	perr := vx.Guard(func() {
		root, err := in.rebuild(m, false)
		if err != nil {
			r.fails = append(r.fails, c18Fail{in.Name + ":rebuild:error", fmt.Sprintf("rebuilding content %s failed: %v", in.modelString(m), err)})
			return
		}
		r.root = root
		rev, err := in.rebuild(m, true)
		if err != nil || rev != root {
			r.fails = append(r.fails, c18Fail{in.Name + ":rebuild:insertion-order", fmt.Sprintf("content %s: sorted insertion gives root %x, reverse insertion %x (err %v)", in.modelString(m), root, rev, err)})
		}
		if in.prefixFree(m) {
			st := trie.NewStackTrie(nil)
			for _, k := range in.order {
				if m[k] >= 0 {
					st.TryUpdate(in.Paths[k], c18Vals[m[k]])
				}
			}
			r.stack = "ok"
			if sr := st.Hash(); sr != root {
				r.fails = append(r.fails, c18Fail{in.Name + ":stacktrie:root", fmt.Sprintf("content %s: StackTrie over the sorted content gives %x, the trie %x", in.modelString(m), sr, root)})
			}
		}
	})
	if perr != "" {
		r.fails = append(r.fails, c18Fail{in.Name + ":rebuild:panic:" + vx.PanicSite(perr), fmt.Sprintf("content %s: %s", in.modelString(m), perr)})
	}
	return r
}

func (in *c18Inst) ref(m []int8, cache *c18Cache) (*c18Ref, bool) {
	if cache == nil {
		return in.computeRef(m), true
	}
	k := in.Name + c18ModelKey(m)
	if r, ok := cache.refs[k]; ok {
		return r, false
	}
	r := in.computeRef(m)
	cache.refs[k] = r
	return r, true
}

// ---------------------------------------------------------------------------------------------
// executing one history on the real trie

type c18Frozen struct {
	t     c18T
	model []int8
	at    int
}

type c18Run struct {
	in      *c18Inst
	disk    *memorydb.Database
	tdb     *trie.Database
	t       c18T
	model   []int8
	frozen  []c18Frozen
	prevRef common.Hash
	lastCls string
}

func (in *c18Inst) newRun() (*c18Run, error) {
	r := &c18Run{in: in, disk: memorydb.New(c18Log)}
	r.tdb = trie.NewDatabase(r.disk)
	t, err := in.open(common.Hash{}, r.tdb)
	if err != nil {
		return nil, err
	}
	r.t = t
	r.lastCls = "initial"
	r.model = make([]int8, len(in.Keys))
	for i := range r.model {
		r.model[i] = -1
	}
	return r, nil
}

// apply executes one operation; a non-empty result is an observable failure of that operation.
func (r *c18Run) apply(step int, o c18Op) *c18Fail {
	in := r.in
	fail := func(obs string, f string, a ...any) *c18Fail {
		return &c18Fail{in.Name + ":" + obs, fmt.Sprintf(f, a...)}
	}
	switch o.Kind {
	case "upd":
		switch {
		case r.model[o.K] < 0:
			r.lastCls = "insert-new"
		case int(r.model[o.K]) == o.V:
			r.lastCls = "overwrite-same"
		default:
			r.lastCls = "overwrite-diff"
		}
		if err := r.t.TryUpdate(in.Keys[o.K], c18Vals[o.V]); err != nil {
			return fail("op-error:update", "TryUpdate failed: %v", err)
		}
		r.model[o.K] = int8(o.V)
	case "upd0", "del":
		name := map[string]string{"upd0": "update-empty", "del": "delete"}[o.Kind]
		if r.model[o.K] < 0 {
			r.lastCls = name + "-absent"
		} else {
			r.lastCls = name + "-present"
		}
		var err error
		if o.Kind == "upd0" {
			err = r.t.TryUpdate(in.Keys[o.K], nil)
		} else {
			err = r.t.TryDelete(in.Keys[o.K])
		}
		if err != nil {
			return fail("op-error:delete", "%s failed: %v", name, err)
		}
		r.model[o.K] = -1
	case "hash":
		r.lastCls = "hash"
		r.t.Hash()
	case "commit", "flush", "cgc":
		r.lastCls = o.Kind
		root, err := r.t.Commit(nil)
		if err != nil {
			return fail("op-error:commit", "Commit failed: %v", err)
		}
		switch o.Kind {
		case "flush":
			if err := r.tdb.Commit(root, false, nil); err != nil {
				return fail("op-error:flush", "Database.Commit(%x) failed: %v", root, err)
			}
			r.tdb = trie.NewDatabase(r.disk) // nothing but the disk survives
			r.prevRef = common.Hash{}
		case "cgc":
			// the dirty cache used the way core/state uses it: reference the new root, release the
			// previous one. Copies taken earlier may legitimately lose their nodes: drop them.
			r.frozen = nil
			// (exactly the loop of StateProcessor.StateAtBlock: also when the root did not change, in
			// which case the root is referenced twice and released once)
			r.tdb.Reference(root, common.Hash{})
			if r.prevRef != (common.Hash{}) {
				r.tdb.Dereference(r.prevRef)
			}
			r.prevRef = root
		}
		nt, err := in.open(root, r.tdb)
		if err != nil {
			return fail("reload", "reloading the trie at the committed root %x failed: %v", root, err)
		}
		r.t = nt
	case "copy":
		r.lastCls = "copy"
		r.frozen = append(r.frozen, c18Frozen{t: r.t, model: append([]int8{}, r.model...), at: step})
		r.t = c18Copy(r.t)
	case "fork":
		r.lastCls = "fork"
		r.frozen = append(r.frozen, c18Frozen{t: c18Copy(r.t), model: append([]int8{}, r.model...), at: step})
	}
	return nil
}

type c18Level struct {
	proofs   bool
	flips    bool // flip every bit of every proof right after verifying it (re-runs / replays)
	flipOnly bool // the corruption pass: only produce the proofs and flip the ones this shard owns
	info     bool // also evaluate the unauthenticated-store model (informational only)
}

type c18Stats struct {
	p, pp, pc *vx.Part // histories, proofs, proof-corruption (nil in re-runs)
}

// run executes hist from scratch and evaluates all observers after the LAST operation.
func (in *c18Inst) run(hist []c18Op, lvl c18Level, cache *c18Cache, st *c18Stats) (fails []c18Fail) {
	perr := vx.Guard(func() {
		r, err := in.newRun()
		if err != nil {
			fails = append(fails, c18Fail{in.Name + ":open-empty", err.Error()})
			return
		}
		for i, o := range in.Start {
			if f := r.apply(-1-i, o); f != nil {
				f.Desc = fmt.Sprintf("start state of %s: step %d (%s): %s", in.Name, i, in.opString(o), f.Desc)
				fails = append(fails, *f)
				return
			}
		}
		for i, o := range hist {
			if f := r.apply(i, o); f != nil {
				f.Desc = fmt.Sprintf("history %s: step %d (%s): %s", in.histString(hist), i, in.opString(o), f.Desc)
				fails = append(fails, *f)
				return
			}
		}
		fails = r.observe(hist, lvl, cache, st)
	})
	if perr != "" {
		fails = append(fails, c18Fail{in.Name + ":panic:" + vx.PanicSite(perr), fmt.Sprintf("history %s panicked: %s", in.histString(hist), perr)})
	}
	return fails
}

func (r *c18Run) observe(hist []c18Op, lvl c18Level, cache *c18Cache, st *c18Stats) (fails []c18Fail) {
	in := r.in
	hs := in.histString(hist)
	ref, fresh := in.ref(r.model, cache)
	if fresh {
		fails = append(fails, ref.fails...)
		if st != nil {
			st.p.Outcome("reference-built/" + in.Name + "/stacktrie=" + ref.stack)
		}
	}
	if lvl.flipOnly {
		// corruption pass (every shard walks all short histories; each distinct proof is flipped by
		// exactly one shard). Same representation => same proofs: skip.
		if fp, unresolved := c18Fingerprint(r.t); !unresolved {
			key := c18FPKey{in.Secure, true, sha256.Sum256(fp)}
			if cache.proved[key] {
				return nil
			}
			cache.proved[key] = true
		}
		var pf []c18Fail
		if perr := vx.Guard(func() { pf = r.flipPass(hs, ref.root, lvl, cache, st) }); perr != "" {
			pf = append(pf, c18Fail{in.Name + ":proof:flip:panic:" + vx.PanicSite(perr), fmt.Sprintf("after %s: Prove/VerifyProof panicked: %s", hs, perr)})
		}
		return pf
	}
	if st != nil {
		st.p.Outcome(in.Name + "/" + r.lastCls + "/root=" + c18ShapeClass(c18Shape(r.t)))
	}
	// proofs first: they must work on whatever representation the history left behind
	if lvl.proofs {
		// Prove reads only the in-memory representation unless it meets an unresolved reference:
		// an identical fully resolved representation (same nodes, keys, values, cached hashes,
		// flags) was already proven for every key — re-proving it cannot give a different result.
		skip := false
		if cache != nil {
			fp, unresolved := c18Fingerprint(r.t)
			if !unresolved {
				sum := sha256.Sum256(fp)
				key := c18FPKey{in.Secure, false, sum}
				if cache.proved[key] {
					skip = true
					if st != nil {
						st.pp.Outcome(in.Name + "/identical-in-memory-trie-already-proven")
					}
				} else {
					cache.proved[key] = true
				}
			}
		}
		if !skip {
			var pf []c18Fail
			if perr := vx.Guard(func() { pf = r.proofs(hs, ref.root, lvl, cache, st) }); perr != "" {
				pf = append(pf, c18Fail{in.Name + ":proof:panic:" + vx.PanicSite(perr), fmt.Sprintf("after %s: Prove/VerifyProof panicked: %s", hs, perr)})
			}
			fails = append(fails, pf...)
		}
	}
	for k := range in.Keys {
		got, err := r.t.TryGet(in.Keys[k])
		if err != nil {
			fails = append(fails, c18Fail{in.Name + ":get", fmt.Sprintf("after %s: Get(%s) failed: %v (model: %s)", hs, in.keyName(k), err, c18ValName(int(r.model[k])))})
			continue
		}
		if !c18SameVal(got, r.model[k]) {
			fails = append(fails, c18Fail{in.Name + ":get", fmt.Sprintf("after %s: Get(%s) = %x, model says %s", hs, in.keyName(k), got, c18ValName(int(r.model[k])))})
		}
	}
	if got := r.t.Hash(); got != ref.root {
		fails = append(fails, c18Fail{in.Name + ":root", fmt.Sprintf("after %s: Hash() = %x but a trie rebuilt from the same content %s has root %x", hs, got, in.modelString(r.model), ref.root)})
	}
	if st != nil {
		st.p.Traces++
	}
	for _, f := range r.frozen {
		fref, fr := in.ref(f.model, cache)
		if fr {
			fails = append(fails, fref.fails...)
		}
		for k := range in.Keys {
			got, err := f.t.TryGet(in.Keys[k])
			if err != nil || !c18SameVal(got, f.model[k]) {
				fails = append(fails, c18Fail{in.Name + ":copy:get", fmt.Sprintf("after %s: the trie retained at step %d answers Get(%s) = %x (err %v); it held %s", hs, f.at, in.keyName(k), got, err, c18ValName(int(f.model[k])))})
			}
		}
		if got := f.t.Hash(); got != fref.root {
			fails = append(fails, c18Fail{in.Name + ":copy:root", fmt.Sprintf("after %s: the trie retained at step %d now hashes to %x; its content %s has root %x", hs, f.at, got, in.modelString(f.model), fref.root)})
		}
		if st != nil {
			st.p.Traces++
		}
	}
	return fails
}

func c18Empty(m []int8) bool {
	for _, v := range m {
		if v >= 0 {
			return false
		}
	}
	return true
}

func c18SameVal(got []byte, m int8) bool {
	if m < 0 {
		return len(got) == 0
	}
	return bytes.Equal(got, c18Vals[m])
}

func c18ErrClass(err error) string {
	s := err.Error()
	switch {
	case strings.Contains(s, "missing"):
		return "missing-node"
	case strings.Contains(s, "bad proof node"):
		return "undecodable-node"
	}
	return "other-error"
}

// proofs: Prove every key on the live trie, verify against the model root.
func (r *c18Run) proofs(hs string, root common.Hash, lvl c18Level, cache *c18Cache, st *c18Stats) (fails []c18Fail) {
	in := r.in
	n := len(in.Keys)
	lists := make([]*c18ProofList, n)
	for k := 0; k < n; k++ {
		pl := &c18ProofList{}
		if err := c18Prove(r.t, in.Paths[k], pl); err != nil {
			fails = append(fails, c18Fail{in.Name + ":proof:prove-error", fmt.Sprintf("after %s: Prove(%s) failed: %v", hs, in.keyName(k), err)})
			continue
		}
		lists[k] = pl
	}
	mk := c18ModelKey(r.model)
	for k := 0; k < n; k++ {
		pl := lists[k]
		if pl == nil {
			continue
		}
		if st != nil {
			st.pp.Evals++
		}
		sig := ""
		if cache != nil {
			sig = in.Name + mk + string(rune(k)) + "|" + string(bytes.Join(pl.Blobs, []byte{0xff, 0x00})) + "|" + string(bytes.Join(pl.Keys, nil))
			if cache.proofs[sig] {
				if st != nil {
					st.pp.Outcome(in.Name + "/identical-proof-already-verified")
				}
				continue
			}
			cache.proofs[sig] = true
		}
		class := "present"
		if r.model[k] < 0 {
			class = "absent"
		}
		// (a) the node set exactly as Prove wrote it (keys chosen by Prove)
		wdb := memorydb.New(c18Log)
		for i := range pl.Blobs {
			wdb.Put(pl.Keys[i], pl.Blobs[i])
		}
		// (b) the blobs re-keyed by the receiver
		rdb := c18Ingest(pl.Blobs)
		for vi, db := range []*memorydb.Database{wdb, rdb} {
			val, err := trie.VerifyProof(root, in.Paths[k], db)
			if st != nil {
				st.pp.Traces++
			}
			if err != nil || !c18SameVal(val, r.model[k]) {
				how := []string{"as written by Prove", "as a list of blobs re-keyed by keccak"}[vi]
				key := in.Name + ":proof:" + class
				if len(pl.Blobs) == 0 && c18Empty(r.model) {
					// input class of its own: Prove on an EMPTY trie emits no node at all, and
					// VerifyProof(emptyRoot, key, {}) answers "proof node 0 missing" instead of
					// proving absence (same code path for Trie and SecureTrie)
					key = "trie:proof:absent:empty-trie"
				}
				fails = append(fails, c18Fail{key, fmt.Sprintf("after %s: the proof for %s (%d nodes, %s) verified against the content root %x gives value %x, err %v; the trie holds %s", hs, in.keyName(k), len(pl.Blobs), how, root, val, err, c18ValName(int(r.model[k])))})
				break
			}
		}
		if st != nil {
			st.pp.Outcome(fmt.Sprintf("%s/%s/nodes=%d", in.Name, class, len(pl.Blobs)))
			if len(pl.Blobs) > 1 {
				st.pp.Sample(fmt.Sprintf("%s after %s: proof of %s = %d nodes -> %s", in.Name, hs, in.keyName(k), len(pl.Blobs), c18ValName(int(r.model[k]))))
			}
		}
		// the proof of key k, used for another key j, must fail or tell the truth about j
		for j := 0; j < n; j++ {
			if j == k {
				continue
			}
			val, err := trie.VerifyProof(root, in.Paths[j], rdb)
			if st != nil {
				st.pp.Traces++
			}
			switch {
			case err != nil:
				if st != nil {
					st.pp.Outcome(in.Name + "/other-key/rejected:" + c18ErrClass(err))
				}
			case c18SameVal(val, r.model[j]):
				if st != nil {
					if r.model[j] < 0 {
						st.pp.Outcome(in.Name + "/other-key/true-absence")
					} else {
						st.pp.Outcome(in.Name + "/other-key/true-value")
					}
				}
			default:
				fails = append(fails, c18Fail{in.Name + ":proof:other-key", fmt.Sprintf("after %s: the proof produced for %s verifies for %s with value %x, but the trie holds %s", hs, in.keyName(k), in.keyName(j), val, c18ValName(int(r.model[j])))})
			}
		}
		if lvl.flips {
			fails = append(fails, r.flips(hs, root, k, pl, lvl, cache, st)...)
		}
	}
	return fails
}

// flipPass: produce the proof of every key; flip those whose (root,key,proof) this shard owns.
func (r *c18Run) flipPass(hs string, root common.Hash, lvl c18Level, cache *c18Cache, st *c18Stats) (fails []c18Fail) {
	in := r.in
	for k := range in.Keys {
		pl := &c18ProofList{}
		if err := c18Prove(r.t, in.Paths[k], pl); err != nil {
			continue // reported by the proofs part
		}
		sig := in.Name + string(rune(k)) + string(root[:]) + string(bytes.Join(pl.Blobs, []byte{0xff, 0x00}))
		if cache.flips[sig] {
			continue
		}
		cache.flips[sig] = true
		h := fnv.New32a()
		h.Write([]byte(sig))
		if cache.nshards > 1 && int(h.Sum32()%uint32(cache.nshards)) != cache.shard {
			continue
		}
		if st != nil {
			st.pc.States++
		}
		fails = append(fails, r.flips(hs, root, k, pl, lvl, nil, st)...)
	}
	return fails
}

// flips: every single-bit corruption of every proof blob.
func (r *c18Run) flips(hs string, root common.Hash, k int, pl *c18ProofList, lvl c18Level, cache *c18Cache, st *c18Stats) (fails []c18Fail) {
	in := r.in
	if cache != nil {
		sig := in.Name + string(rune(k)) + string(root[:]) + string(bytes.Join(pl.Blobs, []byte{0xff, 0x00}))
		if cache.flips[sig] {
			return nil
		}
		cache.flips[sig] = true
	}
	// receiver store (content addressed) and, for information, a store whose keys are NOT re-derived
	hashes := make([][]byte, len(pl.Blobs))
	rdb, udb := memorydb.New(c18Log), memorydb.New(c18Log)
	for i, b := range pl.Blobs {
		hashes[i] = crypto.Keccak256(b)
		rdb.Put(hashes[i], b)
		udb.Put(hashes[i], b)
	}
	dup := func(ni int) bool { // the same blob may occur once only (it is a set), keep it simple
		for j := range pl.Blobs {
			if j != ni && bytes.Equal(hashes[j], hashes[ni]) {
				return true
			}
		}
		return false
	}
	reported := false
	for ni := range pl.Blobs {
		for bit := 0; bit < 8*len(pl.Blobs[ni]); bit++ {
			mut := common.CopyBytes(pl.Blobs[ni])
			mut[bit/8] ^= 1 << uint(bit%8)
			mh := crypto.Keccak256(mut)
			if !dup(ni) {
				rdb.Delete(hashes[ni])
			}
			rdb.Put(mh, mut)
			var val []byte
			var err error
			perr := vx.Guard(func() { val, err = trie.VerifyProof(root, in.Paths[k], rdb) })
			rdb.Delete(mh)
			rdb.Put(hashes[ni], pl.Blobs[ni])
			if st != nil {
				st.pc.Evals++
				st.pc.Traces++
			}
			switch {
			case perr != "":
				if !reported {
					reported = true
					fails = append(fails, c18Fail{in.Name + ":proof:flip:panic:" + vx.PanicSite(perr), fmt.Sprintf("after %s: proof of %s with bit %d of node %d flipped makes VerifyProof panic: %s", hs, in.keyName(k), bit, ni, perr)})
				}
			case err != nil:
				if st != nil {
					st.pc.Outcome(fmt.Sprintf("%s/node%d-of-%d/rejected:%s", in.Name, ni, len(pl.Blobs), c18ErrClass(err)))
				}
			case c18SameVal(val, r.model[k]):
				if st != nil {
					st.pc.Outcome(in.Name + "/still-true-value")
				}
			default:
				if !reported {
					reported = true
					fails = append(fails, c18Fail{in.Name + ":proof:flip", fmt.Sprintf("after %s: proof of %s with bit %d of node %d flipped still verifies against root %x, with value %x (err %v); the trie holds %s", hs, in.keyName(k), bit, ni, root, val, err, c18ValName(int(r.model[k])))})
				}
			}
			if lvl.info && st != nil {
				// informational: a store that is NOT content addressed (corrupted blob under the
				// original key). VerifyProof does not re-hash what the store returns; this is the
				// documented contract (the db is "keyed by hash"), so it is counted, not judged.
				udb.Put(hashes[ni], mut)
				var v2 []byte
				var e2 error
				p2 := vx.Guard(func() { v2, e2 = trie.VerifyProof(root, in.Paths[k], udb) })
				udb.Put(hashes[ni], pl.Blobs[ni])
				if p2 != "" {
					st.pc.Outcome("info:unauthenticated-store/panic")
				} else if e2 != nil {
					st.pc.Outcome("info:unauthenticated-store/rejected")
				} else if c18SameVal(v2, r.model[k]) {
					st.pc.Outcome("info:unauthenticated-store/true-value")
				} else {
					st.pc.Outcome("info:unauthenticated-store/DIFFERENT-value-(needs-content-addressed-db)")
				}
			}
		}
	}
	if st != nil && len(pl.Blobs) > 1 {
		st.pc.Sample(fmt.Sprintf("%s after %s: all single-bit flips of the %d-node proof of %s", in.Name, hs, len(pl.Blobs), in.keyName(k)))
	}
	return fails
}

// ---------------------------------------------------------------------------------------------
// enumeration

type c18Replay struct {
	Part string   `json:"part"`
	Inst string   `json:"inst,omitempty"`
	Hist []c18Op  `json:"hist,omitempty"`
	Keys []string `json:"keys_hex,omitempty"`
	// stack-subsets / derivesha
	Subset  int `json:"subset,omitempty"`
	Pattern int `json:"pattern,omitempty"`
	N       int `json:"n,omitempty"`
	Size    int `json:"size,omitempty"`
	NKeys   int `json:"nkeys,omitempty"`
}

func c18Coarse(key string) string { // "<inst>:<observer...>" without the ":after-<op>" suffix
	if i := strings.Index(key, ":after-"); i >= 0 {
		return key[:i]
	}
	return key
}

func c18Has(fails []c18Fail, coarse string) *c18Fail {
	for i := range fails {
		if fails[i].Key == coarse {
			return &fails[i]
		}
	}
	return nil
}

// minimise: greedy removal of operations while the same observer still fails.
func (in *c18Inst) minimise(hist []c18Op, coarse string, lvl c18Level) []c18Op {
	cur := append([]c18Op{}, hist...)
	for changed := true; changed; {
		changed = false
		for i := 0; i < len(cur); i++ {
			cand := append(append([]c18Op{}, cur[:i]...), cur[i+1:]...)
			if c18Has(in.run(cand, lvl, nil, nil), coarse) != nil {
				cur, changed = cand, true
				break
			}
		}
	}
	return cur
}

func (in *c18Inst) report(c *vx.Ctx, part string, hist []c18Op, fails []c18Fail, reported map[string]bool) {
	for _, f := range fails {
		if reported[f.Key] {
			continue
		}
		reported[f.Key] = true
		// re-runs only evaluate the (expensive) proof observers when the failure is about proofs
		lvl := c18Level{proofs: strings.Contains(f.Key, ":proof:"), flips: strings.Contains(f.Key, ":proof:flip")}
		min := in.minimise(hist, f.Key, lvl)
		mf := c18Has(in.run(min, lvl, nil, nil), f.Key)
		if mf == nil {
			c.HarnessError("minimised history lost the failure " + f.Key)
			continue
		}
		key := f.Key
		if len(min) > 0 {
			key += ":after-" + min[len(min)-1].Kind
		}
		desc := mf.Desc
		if c.Confirm(desc, func() string {
			if x := c18Has(in.run(min, lvl, nil, nil), f.Key); x != nil {
				return x.Key
			}
			return ""
		}) {
			var hx []string
			for _, k := range in.Keys {
				hx = append(hx, fmt.Sprintf("%x", k))
			}
			p := part
			if strings.Contains(f.Key, ":proof:flip") {
				p = "proof-corruption"
			} else if strings.Contains(f.Key, ":proof:") {
				p = "proofs"
			}
			c.Violate(p, key, desc, c18Replay{Part: "histories", Inst: in.Name, Hist: min, Keys: hx})
		}
	}
}

func c18Pow(a, b int) int64 {
	r := int64(1)
	for i := 0; i < b; i++ {
		r *= int64(a)
	}
	return r
}

func (in *c18Inst) explore(c *vx.Ctx, depth, proofDepth int, flipPass bool, st *c18Stats, cache *c18Cache, reported map[string]bool) {
	A := len(in.Alpha)
	part := st.p
	if flipPass {
		part = st.pc
	}
	hist := make([]c18Op, 0, depth)
	idx := make([]int, depth)
	var count int64
	for d := 0; d <= depth; d++ {
		// all histories of length exactly d, in lexicographic order of alphabet indices
		for i := range idx {
			idx[i] = 0
		}
		for {
			mine := false
			switch {
			case flipPass:
				mine = true
			case d == 0:
				mine = c.Shard == 0
			case d == 1:
				mine = c.Mine(int64(idx[0]))
			default:
				mine = c.Mine(int64(A + idx[0]*A + idx[1]))
			}
			if mine {
				count++
				if count&1023 == 0 && c.Expired() {
					part.Incomplete(fmt.Sprintf("%s: deadline at length %d", in.Name, d))
					return
				}
				hist = hist[:0]
				for i := 0; i < d; i++ {
					hist = append(hist, in.Alpha[idx[i]])
				}
				lvl := c18Level{proofs: d <= proofDepth}
				if flipPass {
					lvl = c18Level{flipOnly: true, info: true}
				}
				fails := in.run(hist, lvl, cache, st)
				if !flipPass {
					st.p.Transitions++
					st.p.States++
				} else if c.Shard == 0 {
					st.pc.Transitions++ // histories walked (by every shard alike; counted once)
				}
				if int64(d) > part.MaxDepth {
					part.MaxDepth = int64(d)
				}
				if len(fails) > 0 {
					in.report(c, "histories", hist, fails, reported)
				} else if d == depth && !flipPass {
					st.p.Sample(in.Name + " " + in.histString(hist))
				}
			}
			// next index vector of length d; sub-trees of other shards are skipped as a whole
			i := d - 1
			if !mine && d >= 2 {
				i = 1
				for j := 2; j < d; j++ {
					idx[j] = 0
				}
			}
			for ; i >= 0; i-- {
				idx[i]++
				if idx[i] < A {
					break
				}
				idx[i] = 0
			}
			if i < 0 {
				break
			}
		}
	}
}

// distinct contents reachable within depth (model only; for the evidence)
func (in *c18Inst) contents(depth int) int {
	seen := map[string]bool{}
	m := make([]int8, len(in.Keys))
	var rec func(k, used int)
	rec = func(k, used int) {
		if k == len(m) {
			seen[c18ModelKey(m)] = true
			return
		}
		m[k] = -1
		rec(k+1, used)
		if used < depth {
			for v := range c18Vals {
				m[k] = int8(v)
				rec(k+1, used+1)
			}
			m[k] = -1
		}
	}
	rec(0, 0)
	return len(seen)
}

func runC18(c *vx.Ctx) {
	c.Rule = "every operation history (Update/Update-empty/Delete x keys x values, Hash, Commit+reload, Commit+flush+reload via a new trie.Database, Commit+Reference/Dereference+reload, Copy) up to the depth bound is executed from scratch on the real Trie and SecureTrie and judged after its last operation against a map model; state = history (no merging); outcome class = kind of the last operation x in-memory representation of the root (nil/short/full/hash reference, hashed, dirty, unresolved children); proofs: every key x every history end; corruption: every bit of every proof blob; stack-subsets: every subset of the key universe x value pattern; derivesha: every length x item size x pattern"
	c.Assume("a proof is the list of node blobs (core/state.proofList keeps only the blobs); the verifier stores each blob under its own keccak hash. trie.VerifyProof itself does not re-hash what its db returns (db contract: keyed by hash) — corruption under a stale key is counted as information, not judged")
	c.Assume("copies retained across a Commit+Reference/Dereference cycle are dropped: garbage collection of a released root may legitimately remove nodes an older copy still points to")
	c.Assume("StackTrie is compared only on prefix-free key sets (it has no value slot in branch nodes and panics by design on a key that extends an existing key)")

	depth, proofDepth, flipDepth := 4, 4, 3
	subsetKeys, maxLen := 10, 130
	if c.Thorough() {
		depth, proofDepth, flipDepth = 5, 5, 4
		subsetKeys, maxLen = 13, 300
	}
	cache := newC18Cache()
	cache.shard, cache.nshards = c.Shard, c.NShards
	reported := map[string]bool{}
	debug.SetGCPercent(400) // millions of tiny short-lived tries: the live heap stays at a few MB

	if c.Wants("histories") || c.Wants("proofs") || c.Wants("proof-corruption") {
		st := &c18Stats{p: c.Part("histories"), pp: c.Part("proofs"), pc: c.Part("proof-corruption")}
		st.p.Bound("depth", depth)
		st.pp.Bound("depth", proofDepth)
		st.pc.Bound("depth", flipDepth)
		var vals []string
		for _, v := range c18Vals {
			vals = append(vals, fmt.Sprintf("%d bytes", len(v)))
		}
		st.p.Bound("values", vals)
		for _, in := range []*c18Inst{c18RawInst(), c18SecureInst(), c18FanInst()} {
			var ks []string
			for k := range in.Keys {
				if in.Secure {
					ks = append(ks, fmt.Sprintf("%s->%x..(shares %d nibbles with key 0)", in.Keys[k], in.Paths[k][:4], c18SharedNibbles(in.Paths[0], in.Paths[k])))
				} else {
					ks = append(ks, fmt.Sprintf("%q", in.Keys[k]))
				}
			}
			st.p.Bound(in.Name+".keys", ks)
			st.p.Bound(in.Name+".alphabet", len(in.Alpha))
			if c.Shard == 0 {
				st.p.Bound(in.Name+".distinct_contents_reachable", in.contents(depth))
				var tot int64
				for d := 0; d <= depth; d++ {
					tot += c18Pow(len(in.Alpha), d)
				}
				st.p.Bound(in.Name+".histories_total", tot)
			}
			in.explore(c, depth, proofDepth, false, st, cache, reported)
			in.explore(c, flipDepth, 0, true, st, cache, reported)
		}
	}
	if c.Wants("stack-subsets") {
		c18Subsets(c, subsetKeys, reported)
	}
	if c.Wants("derivesha") {
		c18Derive(c, maxLen, reported)
	}
}

// ---------------------------------------------------------------------------------------------
// stack-subsets

var c18SubsetUniverse = []string{"0000", "1111", "1112", "111f", "1121", "1122", "1211", "12ff", "2111", "f000", "1110", "2112", "ffff"}

// value patterns by position in the sorted subset
var c18SubsetPatterns = []struct {
	name  string
	sizes []int
}{
	{"all-1-byte", []int{1}}, {"all-33-bytes", []int{33}}, {"all-32-bytes", []int{32}}, {"mixed-1/33/32/20", []int{1, 33, 32, 20}},
	{"node-size-near-32:26..30", []int{26, 27, 28, 29, 30}}, {"node-size-near-32:30..26", []int{30, 29, 28, 27, 26}},
}

func c18SubsetCase(nkeys, subset, pattern int) (keys, vals [][]byte) {
	var ks []string
	for i := 0; i < nkeys; i++ {
		if subset&(1<<uint(i)) != 0 {
			ks = append(ks, c18SubsetUniverse[i])
		}
	}
	sort.Strings(ks)
	for i, k := range ks {
		keys = append(keys, common.Hex2Bytes(k))
		sz := c18SubsetPatterns[pattern].sizes[i%len(c18SubsetPatterns[pattern].sizes)]
		v := bytes.Repeat([]byte{byte(0x30 + i)}, sz)
		vals = append(vals, v)
	}
	return
}

func c18SubsetRun(nkeys, subset, pattern int) (fail *c18Fail, class string) {
	keys, vals := c18SubsetCase(nkeys, subset, pattern)
	desc := func() string {
		var s []string
		for i := range keys {
			s = append(s, fmt.Sprintf("%x=<%d bytes>", keys[i], len(vals[i])))
		}
		return "{" + strings.Join(s, " ") + "}"
	}
	perr := vx.Guard(func() {
		fwd, _ := trie.New(common.Hash{}, c18FreshDB())
		for i := range keys {
			fwd.TryUpdate(keys[i], vals[i])
		}
		root := fwd.Hash()
		rev, _ := trie.New(common.Hash{}, c18FreshDB())
		for i := len(keys) - 1; i >= 0; i-- {
			rev.TryUpdate(keys[i], vals[i])
		}
		if r := rev.Hash(); r != root {
			fail = &c18Fail{"subsets:insertion-order", fmt.Sprintf("content %s: sorted insertion %x, reverse insertion %x", desc(), root, r)}
			return
		}
		// everything inserted, hashed, then the complement deleted
		all, _ := trie.New(common.Hash{}, c18FreshDB())
		for i := 0; i < nkeys; i++ {
			all.TryUpdate(common.Hex2Bytes(c18SubsetUniverse[i]), bytes.Repeat([]byte{0x7e}, 1+(i*11)%40))
		}
		all.Hash()
		for i := range keys {
			all.TryUpdate(keys[i], vals[i])
		}
		for i := 0; i < nkeys; i++ {
			if subset&(1<<uint(i)) == 0 {
				all.TryDelete(common.Hex2Bytes(c18SubsetUniverse[i]))
			}
		}
		if r := all.Hash(); r != root {
			fail = &c18Fail{"subsets:delete-complement", fmt.Sprintf("content %s: built by sorted insertion %x; built by filling the whole universe and deleting the complement %x", desc(), root, r)}
			return
		}
		st := trie.NewStackTrie(nil)
		for i := range keys {
			st.TryUpdate(keys[i], vals[i])
		}
		if r := st.Hash(); r != root {
			fail = &c18Fail{"subsets:stacktrie", fmt.Sprintf("content %s: StackTrie %x, Trie %x", desc(), r, root)}
			return
		}
		class = fmt.Sprintf("n=%d/%s/shape=%s", len(keys), c18SubsetPatterns[pattern].name, c18ShapeClass(trie.VerifC18Shape(fwd)))
	})
	if perr != "" {
		fail = &c18Fail{"subsets:panic:" + vx.PanicSite(perr), fmt.Sprintf("content %s: %s", desc(), perr)}
	}
	return
}

func c18Subsets(c *vx.Ctx, nkeys int, reported map[string]bool) {
	p := c.Part("stack-subsets")
	p.Bound("universe", c18SubsetUniverse[:nkeys])
	var pn []string
	for _, x := range c18SubsetPatterns {
		pn = append(pn, x.name)
	}
	p.Bound("value_patterns", pn)
	for subset := 0; subset < 1<<uint(nkeys); subset++ {
		if !c.Mine(int64(subset)) {
			continue
		}
		if subset&255 == 0 && c.Expired() {
			p.Incomplete("deadline")
			return
		}
		for pat := range c18SubsetPatterns {
			f, class := c18SubsetRun(nkeys, subset, pat)
			p.Evals++
			p.States++
			p.Traces += 3
			if f == nil {
				p.Outcome(class)
				if subset > 900 {
					k, v := c18SubsetCase(nkeys, subset, pat)
					p.Sample(fmt.Sprintf("%d keys %x.. pattern %s value0 %d bytes", len(k), k[0], c18SubsetPatterns[pat].name, len(v[0])))
				}
				continue
			}
			if reported[f.Key] {
				continue
			}
			reported[f.Key] = true
			// smallest failing sub-subset for this key
			best, bestPat := subset, pat
			for s2 := 0; s2 < subset; s2++ {
				if s2&subset != s2 {
					continue
				}
				if f2, _ := c18SubsetRun(nkeys, s2, pat); f2 != nil && f2.Key == f.Key {
					if c18Bits(s2) < c18Bits(best) {
						best = s2
					}
				}
			}
			bf, _ := c18SubsetRun(nkeys, best, bestPat)
			if bf == nil || bf.Key != f.Key {
				best, bf = subset, f
			}
			if c.Confirm(bf.Desc, func() string {
				if x, _ := c18SubsetRun(nkeys, best, bestPat); x != nil {
					return x.Key
				}
				return ""
			}) {
				c.Violate("stack-subsets", bf.Key, bf.Desc, c18Replay{Part: "stack-subsets", Subset: best, Pattern: bestPat, NKeys: nkeys})
			}
		}
	}
}

func c18Bits(x int) int {
	n := 0
	for ; x != 0; x &= x - 1 {
		n++
	}
	return n
}

// ---------------------------------------------------------------------------------------------
// derivesha

type c18List struct {
	n, size, pattern int
}

func (l c18List) Len() int { return l.n }
func (l c18List) item(i int) []byte {
	b := make([]byte, l.size)
	for j := range b {
		switch l.pattern {
		case 0: // depends on the index
			b[j] = byte(i*7 + j*13 + 1)
		default: // all items identical
			b[j] = 0x5a
		}
	}
	return b
}
func (l c18List) EncodeIndex(i int, w *bytes.Buffer) { w.Write(l.item(i)) }

var c18DeriveSizes = []int{1, 31, 32, 33, 55, 56}

func c18DeriveRun(l c18List, reused *trie.StackTrie) (fail *c18Fail, class string) {
	perr := vx.Guard(func() {
		full, _ := trie.New(common.Hash{}, c18FreshDB())
		viaTrie := types.DeriveSha(l, full)
		viaStack := types.DeriveSha(l, trie.NewStackTrie(nil))
		// the full trie of the list, filled directly in index order
		direct, _ := trie.New(common.Hash{}, c18FreshDB())
		for i := 0; i < l.n; i++ {
			direct.TryUpdate(rlp.AppendUint64(nil, uint64(i)), l.item(i))
		}
		want := direct.Hash()
		bclass := "n<=127"
		if l.n == 0 {
			bclass = "n=0"
		} else if l.n > 128 {
			bclass = "n>128"
		} else if l.n == 128 {
			bclass = "n=128"
		}
		what := fmt.Sprintf("list of %d items of %d bytes (pattern %d)", l.n, l.size, l.pattern)
		switch {
		case viaStack != viaTrie:
			fail = &c18Fail{"derivesha:stacktrie-vs-trie:" + bclass, fmt.Sprintf("%s: DeriveSha with StackTrie = %x, with Trie = %x", what, viaStack, viaTrie)}
		case viaTrie != want:
			fail = &c18Fail{"derivesha:vs-content:" + bclass, fmt.Sprintf("%s: DeriveSha = %x, a trie filled with {rlp(i): item i} = %x", what, viaTrie, want)}
		}
		if fail == nil && reused != nil {
			if r := types.DeriveSha(l, reused); r != want {
				fail = &c18Fail{"derivesha:reused-hasher:" + bclass, fmt.Sprintf("%s: DeriveSha with a StackTrie that already hashed other lists = %x, want %x", what, r, want)}
			}
		}
		class = fmt.Sprintf("%s/size=%d/root-shape=%s", bclass, l.size, c18ShapeClass(trie.VerifC18Shape(direct)))
	})
	if perr != "" {
		fail = &c18Fail{"derivesha:panic:" + vx.PanicSite(perr), fmt.Sprintf("list n=%d size=%d pattern=%d: %s", l.n, l.size, l.pattern, perr)}
	}
	return
}

func c18Derive(c *vx.Ctx, maxLen int, reported map[string]bool) {
	p := c.Part("derivesha")
	p.Bound("lengths", fmt.Sprintf("0..%d", maxLen))
	p.Bound("item_sizes", c18DeriveSizes)
	p.Bound("patterns", []string{"index-dependent", "all-identical"})
	reused := trie.NewStackTrie(nil)
	for n := 0; n <= maxLen; n++ {
		if !c.Mine(int64(n)) {
			continue
		}
		if c.Expired() {
			p.Incomplete("deadline")
			return
		}
		for _, size := range c18DeriveSizes {
			for pat := 0; pat < 2; pat++ {
				l := c18List{n, size, pat}
				f, class := c18DeriveRun(l, reused)
				p.Evals++
				p.States++
				p.Traces += 3
				if f == nil {
					p.Outcome(class)
					if n >= 127 {
						p.Sample(fmt.Sprintf("n=%d size=%d pattern=%d", n, size, pat))
					}
					continue
				}
				reused = trie.NewStackTrie(nil)
				if reported[f.Key] {
					continue
				}
				reported[f.Key] = true
				if c.Confirm(f.Desc, func() string {
					if x, _ := c18DeriveRun(l, nil); x != nil {
						return x.Key
					}
					if x, _ := c18DeriveRun(l, c18Warm(l)); x != nil {
						return x.Key
					}
					return ""
				}) {
					c.Violate("derivesha", f.Key, f.Desc, c18Replay{Part: "derivesha", N: n, Size: size, Pattern: pat})
				}
			}
		}
	}
}

// a StackTrie that has already been used for a (different) list
func c18Warm(l c18List) *trie.StackTrie {
	st := trie.NewStackTrie(nil)
	types.DeriveSha(c18List{l.n + 3, l.size, l.pattern}, st)
	return st
}

// ---------------------------------------------------------------------------------------------
// replay

func replayC18(c *vx.Ctx, v vx.Violation) string {
	raw, _ := jsonMarshal(v.Replay)
	var rp c18Replay
	if err := jsonUnmarshal(raw, &rp); err != nil {
		return "bad replay: " + err.Error()
	}
	switch rp.Part {
	case "histories":
		var in *c18Inst
		for _, x := range []*c18Inst{c18RawInst(), c18SecureInst(), c18FanInst()} {
			if x.Name == rp.Inst {
				in = x
			}
		}
		if in == nil {
			return "bad replay: unknown instance " + rp.Inst
		}
		coarse := c18Coarse(v.Key)
		lvl := c18Level{proofs: strings.Contains(coarse, ":proof:"), flips: strings.Contains(coarse, ":proof:flip")}
		var other string
		for i := 0; i <= len(rp.Hist); i++ {
			fails := in.run(rp.Hist[:i], lvl, nil, nil)
			if f := c18Has(fails, coarse); f != nil {
				return f.Desc
			}
			for _, f := range fails {
				// a different observer failing on the same history is still worth showing; the
				// separately keyed empty-trie proof class is not "this" violation
				if other == "" && f.Key != "trie:proof:absent:empty-trie" {
					other = f.Key + ": " + f.Desc
				}
			}
		}
		return other
	case "stack-subsets":
		if f, _ := c18SubsetRun(rp.NKeys, rp.Subset, rp.Pattern); f != nil {
			return f.Key + ": " + f.Desc
		}
	case "derivesha":
		l := c18List{rp.N, rp.Size, rp.Pattern}
		if f, _ := c18DeriveRun(l, nil); f != nil {
			return f.Key + ": " + f.Desc
		}
		if f, _ := c18DeriveRun(l, c18Warm(l)); f != nil {
			return f.Key + ": " + f.Desc
		}
	default:
		return "bad replay: unknown part " + rp.Part
	}
	return ""
}
