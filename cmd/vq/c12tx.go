package main

// C12 part "tx": whole transactions through the block processor's applyTransaction.
//   tx-call         : the transaction's top-level frame fails (REVERT / INVALID / out of gas)
//   tx-parentrevert : the callee completes, then the top-level frame reverts
//   tx-inner        : the transaction succeeds, an inner frame fails
// Reference: the same world with only the transaction envelope applied (sender nonce + 1; the gas
// payment is normalised away on both sides) resp. the same transaction with an inner frame that
// gets no gas at all.

import (
	"fmt"
	"math/big"
	"strings"

	"github.com/dominant-strategies/go-quai/common"
	"github.com/dominant-strategies/go-quai/core"
	"github.com/dominant-strategies/go-quai/core/types"
	"github.com/dominant-strategies/go-quai/core/vm"
	"github.com/dominant-strategies/go-quai/verifshim/vx"
)

const c12tGasLimit = uint64(50_000_000)

type c12tResult struct {
	receipt *types.Receipt
	err     error
}

func (w *c12fWorld) applyTx(to common.Address, data []byte, gasLimit uint64) c12tResult {
	bk := c12fBk
	al := w.b.accessList(w.watch)
	nonce := w.s.GetNonce(c12IAof(bk.S))
	tx := types.NewTx(&types.QuaiTx{ChainID: big.NewInt(1), Nonce: nonce, GasPrice: big.NewInt(1), Gas: gasLimit, To: &to, Value: new(big.Int), Data: data, AccessList: al,
		V: new(big.Int), R: new(big.Int), S: new(big.Int)})
	h := tx.Hash(0, 0)
	msg := types.NewMessage(bk.S, &to, nonce, new(big.Int), gasLimit, big.NewInt(1), data, al, false)
	w.s.Prepare(h, 0)
	gp := new(types.GasPool).AddGas(1_000_000_000)
	var usedGas, usedState uint64
	rl, pl := uint64(1_000_000_000), uint64(1_000_000_000)
	r, _, err := core.VerifC12ApplyTransaction(msg, c12fCfg, gp, w.s, big.NewInt(c12fBlock), common.Hash{}, tx, &usedGas, &usedState, w.evm, &rl, &pl, c12fLg)
	return c12tResult{r, err}
}

func c12tReceiptLine(r *types.Receipt) string {
	return fmt.Sprintf("receipt=logs:%d etxs:%d lockup-hashes:%d lockups:%d", len(r.Logs), len(r.OutboundEtxs), len(r.CoinbaseLockupDeletedHashes), len(r.CoinbaseLockupsDeleted))
}

func c12tRun(cs c12fCase) (o c12fOutcome) {
	c12fInit()
	bk := c12fBk
	p := c12fMakePlan(c12fCase{Kind: "frame", Call: "call", Frags: cs.Frags, Term: cs.Term})
	b := c12fBaseFor(p.codeT)
	fr := b.world(p.watch, nil, false)
	rf := b.world(p.watch, nil, false)
	S := c12IAof(bk.S)
	gasLimit := c12tGasLimit
	norm := func(w *c12fWorld, r *types.Receipt) { // give the gas payment back: "apart from gas consumption"
		w.s.AddBalance(S, new(big.Int).SetUint64(r.GasUsed))
		w.s.Finalize(true)
	}
	var frRes, rfRes c12tResult
	switch cs.Call {
	case "tx-call":
		if cs.Gas != 0 {
			gasLimit = cs.Gas
		}
		frRes = fr.applyTx(bk.T, nil, gasLimit)
	case "tx-parentrevert":
		frRes = fr.applyTx(bk.Wcall, append(c12Word(c12fBigGas), c12Word(1)...), gasLimit)
	case "tx-inner":
		g := cs.Gas
		if g == 0 {
			g = c12fBigGas
		}
		frRes = fr.applyTx(bk.Wcall, append(c12Word(g), c12Word(0)...), gasLimit)
		rfRes = rf.applyTx(bk.Wcall, append(c12Word(0), c12Word(0)...), gasLimit)
	default:
		panic("c12: unknown tx kind " + cs.Call)
	}
	if frRes.err != nil {
		return c12fOutcome{skipped: "tx-rejected:" + c12ErrClass(frRes.err)}
	}
	failedTx := frRes.receipt.Status == types.ReceiptStatusFailed
	o.res = c12fResult{failed: true, class: fmt.Sprintf("status=%d", frRes.receipt.Status)}
	var want, got []string
	if cs.Call == "tx-inner" {
		if rfRes.err != nil || rfRes.receipt.Status != types.ReceiptStatusSuccessful || failedTx {
			return c12fOutcome{skipped: "not-applicable"}
		}
		norm(fr, frRes.receipt)
		norm(rf, rfRes.receipt)
		want = append([]string{c12tReceiptLine(rfRes.receipt)}, rf.dump()...)
	} else {
		if !failedTx {
			return c12fOutcome{skipped: "not-failed"}
		}
		norm(fr, frRes.receipt)
		// envelope only
		rf.s.Prepare(frRes.receipt.TxHash, 0)
		t := bk.T
		if cs.Call == "tx-parentrevert" {
			t = bk.Wcall
		}
		rf.s.PrepareAccessList(bk.S, &t, vm.ActivePrecompiles(c12fCfg.Rules(big.NewInt(c12fBlock)), c12Loc), b.accessList(p.watch), false)
		rf.s.SetNonce(S, rf.s.GetNonce(S)+1)
		rf.s.Finalize(true)
		want = append([]string{"receipt=logs:0 etxs:0 lockup-hashes:0 lockups:0"}, rf.dump()...)
	}
	got = append([]string{c12tReceiptLine(frRes.receipt)}, fr.dump()...)
	o.field, o.desc = c12Diff(want, got)
	return
}

func runC12Tx(c *vx.Ctx, seen map[string]bool) {
	expiredT := c12Slice(c, 0.10)
	p := c.Part("tx")
	depth := 1
	if c.Thorough() {
		depth = 2
	}
	p.Bound("fragments_per_frame", depth)
	p.Bound("kinds", "tx-call (REVERT, INVALID, gas limit one short / half), tx-parentrevert, tx-inner (REVERT, INVALID)")
	var idx int64
	exec := func(cs c12fCase) (used uint64) {
		o := c12fRunGuarded(cs)
		if o.skipped != "" {
			p.Outcome("skipped:" + strings.SplitN(o.skipped, ":", 2)[0])
			return
		}
		p.Transitions++
		p.Traces++
		p.Outcome(cs.Call + "/" + cs.Term + "/" + o.res.class)
		if o.field != "" {
			c12fReport(c, "tx", cs, o, seen)
		} else {
			p.Sample(cs.String())
		}
		return
	}
	c12FragSeqs(depth, func(fr []string) {
		idx++
		if !c.Mine(idx) {
			return
		}
		if expiredT() {
			p.Incomplete("time share used up")
			return
		}
		for _, t := range []string{"revert", "invalid"} {
			exec(c12fCase{Kind: "tx", Call: "tx-call", Frags: fr, Term: t})
			exec(c12fCase{Kind: "tx", Call: "tx-inner", Frags: fr, Term: t})
		}
		exec(c12fCase{Kind: "tx", Call: "tx-parentrevert", Frags: fr, Term: "stop"})
		// out of gas at transaction level: find the gas a successful run uses, then give less
		pl := c12fMakePlan(c12fCase{Kind: "frame", Call: "call", Frags: fr, Term: "stop"})
		w := c12fBaseFor(pl.codeT).world(pl.watch, nil, false)
		if r := w.applyTx(c12fBk.T, nil, c12tGasLimit); r.err == nil && r.receipt.Status == types.ReceiptStatusSuccessful {
			u := r.receipt.GasUsed
			for _, g := range []uint64{u - 1, 21000 + (u-21000)/2, 21000 + (u-21000)*9/10} {
				exec(c12fCase{Kind: "tx", Call: "tx-call", Frags: fr, Term: "stop", Gas: g})
			}
		}
	})
	p.MaxDepth = int64(depth)
}
