package main

// C05 part "block": "the outbound set committed by a block is exactly the set recorded by its
// successful, non-reverted operations, in execution order" - judged on whole blocks. All arrival
// sequences of up to three ETX-emitting transactions (two senders, two nonces of one sender) are put
// into the pool of a real node; the block its worker assembles is run through the real Process (one
// EVM shared by all transactions of the block). Oracle: every receipt lists exactly the ETXs of ITS
// transaction (originating hash, indices 0..n-1); the block's emitted list, the body's declared list
// and the concatenation of the receipts' lists (in transaction order) coincide on the non-coinbase
// ETXs; a successful conversion emits exactly one ETX carrying the transaction's value.
// Runs last in the check: it scales the protocol constants of the mininode.

import (
	"fmt"
	"math/big"
	"strings"

	"github.com/dominant-strategies/go-quai/core"
	"github.com/dominant-strategies/go-quai/core/types"
	"github.com/dominant-strategies/go-quai/verifshim/vx"
)

type c05BlockCase struct {
	Mempool []int `json:"mempool"` // 0 = k0 converts (nonce n), 1 = k1 converts, 2 = k0 converts again (nonce n+1)
}

func c05BlockTx(s *scen, which int) *types.Transaction {
	price := new(big.Int).Mul(scenPrice, big.NewInt(3))
	q := func(n int64) *big.Int { return new(big.Int).Mul(big.NewInt(1e18), big.NewInt(n)) }
	switch which {
	case 0:
		to := s.q[1].Addr
		return s.n.QuaiTx(s.k[0], s.nonce(s.k[0]), &to, q(20), 400000, price, nil)
	case 1:
		to := s.q[2].Addr
		return s.n.QuaiTx(s.k[1], s.nonce(s.k[1]), &to, q(30), 400000, price, nil)
	case 2:
		to := s.q[2].Addr
		return s.n.QuaiTx(s.k[0], s.nonce(s.k[0])+1, &to, q(40), 400000, price, nil)
	}
	return nil
}

func c05BlockRun(cs c05BlockCase) (key, desc, outcome, harness string) {
	s, err := newScen(3, true, nil)
	if err != nil {
		return "", "", "", err.Error()
	}
	defer s.close()
	if err := s.runWord(scenPrefixes["C14"]); err != nil {
		return "", "", "", "prefix: " + err.Error()
	}
	for _, w := range cs.Mempool {
		if tx := c05BlockTx(s, w); tx != nil {
			s.n.AddTxs(tx)
		}
	}
	blk, err := s.n.Build(core.VBuildOpts{Order: 2, Fill: true})
	if err != nil {
		return "", "", "", "build: " + err.Error()
	}
	receipts, emitted, perr := s.n.VProcessOutputs(blk)
	if perr != nil {
		// the node refuses the block its own worker made: C07's statement; here it means the outputs
		// of the two executions of the same transactions differ
		return "block:process-refuses-own-block:" + c07ErrClass(perr), fmt.Sprintf("mempool %v: Process refuses the block the node's worker assembled from it: %v", cs.Mempool, perr), "", ""
	}
	txs := blk.Transactions()
	if len(receipts) != len(txs) {
		return "block:receipt-count", fmt.Sprintf("mempool %v: %d receipts for %d transactions", cs.Mempool, len(receipts), len(txs)), "", ""
	}
	nonCoinbase := func(l []*types.Transaction) []string {
		var out []string
		for _, e := range l {
			if e.EtxType() != types.CoinbaseType {
				out = append(out, fmt.Sprintf("%x:%d/%v", e.OriginatingTxHash().Bytes()[:4], e.ETXIndex(), e.Value()))
			}
		}
		return out
	}
	var concat []*types.Transaction
	emitting := 0
	for i, tx := range txs {
		r := receipts[i]
		if tx.Type() != types.QuaiTxType {
			if r.Status == types.ReceiptStatusSuccessful {
				concat = append(concat, r.OutboundEtxs...)
			}
			continue
		}
		for j, e := range r.OutboundEtxs {
			if e.OriginatingTxHash() != tx.Hash() {
				return "block:receipt-lists-another-transactions-etx", fmt.Sprintf("mempool %v: the receipt of transaction %d (%x) lists an ETX that originates from %x (value %v)", cs.Mempool, i, tx.Hash().Bytes()[:4], e.OriginatingTxHash().Bytes()[:4], e.Value()), "", ""
			}
			if int(e.ETXIndex()) != j {
				return "block:receipt-etx-index", fmt.Sprintf("mempool %v: ETX %d in the receipt of transaction %d carries index %d", cs.Mempool, j, i, e.ETXIndex()), "", ""
			}
		}
		if r.Status == types.ReceiptStatusSuccessful {
			concat = append(concat, r.OutboundEtxs...)
			if tx.To() != nil && tx.To().IsInQiLedgerScope() {
				emitting++
				if len(r.OutboundEtxs) != 1 || r.OutboundEtxs[0].Value().Cmp(tx.Value()) != 0 {
					return "block:conversion-receipt", fmt.Sprintf("mempool %v: successful conversion %d of %v lists %d ETXs %v", cs.Mempool, i, tx.Value(), len(r.OutboundEtxs), nonCoinbase(r.OutboundEtxs)), "", ""
				}
			}
		} else if len(r.OutboundEtxs) != 0 {
			return "block:failed-transaction-lists-etxs", fmt.Sprintf("mempool %v: failed transaction %d lists %d ETXs", cs.Mempool, i, len(r.OutboundEtxs)), "", ""
		}
	}
	a, b, d := strings.Join(nonCoinbase(concat), " "), strings.Join(nonCoinbase(emitted), " "), strings.Join(nonCoinbase(blk.OutboundEtxs()), " ")
	if a != b || b != d {
		return "block:outbound-set-differs-from-receipts", fmt.Sprintf("mempool %v: non-coinbase ETXs recorded by the receipts in execution order [%s]; emitted by Process [%s]; declared by the block [%s]", cs.Mempool, a, b, d), "", ""
	}
	return "", "", fmt.Sprintf("%d-emitting-transactions", emitting), ""
}

func c05BlockCases() []c05BlockCase {
	var out []c05BlockCase
	var rec func(cur []int)
	rec = func(cur []int) {
		if len(cur) > 0 {
			out = append(out, c05BlockCase{append([]int{}, cur...)})
		}
		if len(cur) == 3 {
			return
		}
		for i := 0; i < 3; i++ {
			dup := false
			for _, c := range cur {
				dup = dup || c == i
			}
			if !dup {
				rec(append(cur, i))
			}
		}
	}
	rec(nil)
	return out
}

func c05RunBlock(c *vx.Ctx) {
	core.VScaleParams(core.VR1)
	p := c.Part("block")
	cases := c05BlockCases()
	p.Bound("mempools", len(cases))
	for i, cs := range cases {
		if !c.Mine(int64(i)) {
			continue
		}
		if c.Expired() {
			p.Incomplete("deadline")
			return
		}
		key, desc, oc, harness := c05BlockRun(cs)
		if harness != "" {
			c.HarnessError(fmt.Sprintf("block %v: %s", cs.Mempool, harness))
			return
		}
		p.Transitions++
		p.Traces++
		if key == "" {
			p.Outcome(oc)
			p.Sample(cs)
			continue
		}
		p.Outcome("VIOLATED:" + key)
		cs := cs
		if c.Confirm(desc, func() string { k, _, _, _ := c05BlockRun(cs); return k }) {
			c.Violate("block", key, desc, cs)
		}
	}
	if c.Shard == 0 {
		p.States = int64(len(cases))
	}
}
