package main

// C03 part 1 — Quai (ECDSA) transactions: sender attribution under mutation, signature value
// validation and the per-object sender cache.

import (
	"fmt"
	"math/big"
	"strings"

	"github.com/dominant-strategies/go-quai/common"
	"github.com/dominant-strategies/go-quai/core/types"
	"github.com/dominant-strategies/go-quai/verifshim/vx"
	"google.golang.org/protobuf/proto"
)

// ---------------------------------------------------------------- templates

type c03Tmpl struct {
	Name  string
	Build func(chain *big.Int, loc common.Location) *types.QuaiTx
}

func c03Addr(loc common.Location, seed byte, qi bool) common.Address {
	b := make([]byte, 20)
	for i := range b {
		b[i] = seed + byte(i)*7
	}
	b[0] = byte(loc[0])<<4 | byte(loc[1])
	if qi {
		b[1] |= 0x80
	} else {
		b[1] &= 0x7f
	}
	return common.BytesToAddress(b, loc)
}

func c03Hash(seed byte) common.Hash {
	var h common.Hash
	for i := range h {
		h[i] = seed ^ byte(i*13+1)
	}
	return h
}

func c03Templates() []c03Tmpl {
	return []c03Tmpl{
		{"call", func(chain *big.Int, loc common.Location) *types.QuaiTx {
			to := c03Addr(loc, 0x11, false)
			return &types.QuaiTx{ChainID: chain, Nonce: 7, GasPrice: big.NewInt(1_000_000_007), Gas: 21000, To: &to, Value: new(big.Int).Exp(big.NewInt(10), big.NewInt(18), nil), Data: nil, AccessList: types.AccessList{}}
		}},
		{"create", func(chain *big.Int, loc common.Location) *types.QuaiTx {
			return &types.QuaiTx{ChainID: chain, Nonce: 0, GasPrice: big.NewInt(2), Gas: 100000, To: nil, Value: big.NewInt(0), Data: []byte{0x60, 0x00, 0x60, 0x00}, AccessList: types.AccessList{}}
		}},
		{"call-data", func(chain *big.Int, loc common.Location) *types.QuaiTx {
			to := c03Addr(loc, 0x22, false)
			d := make([]byte, 36)
			copy(d, []byte{0xa9, 0x05, 0x9c, 0xbb})
			d[35] = 1
			return &types.QuaiTx{ChainID: chain, Nonce: 255, GasPrice: big.NewInt(256), Gas: 65535, To: &to, Value: big.NewInt(1), Data: d, AccessList: types.AccessList{}}
		}},
		{"call-accesslist", func(chain *big.Int, loc common.Location) *types.QuaiTx {
			to := c03Addr(loc, 0x33, false)
			a1, a2 := c03Addr(loc, 0x44, false), c03Addr(loc, 0x55, false)
			return &types.QuaiTx{ChainID: chain, Nonce: 1, GasPrice: big.NewInt(3_000_000_000), Gas: 90000, To: &to, Value: big.NewInt(12345), Data: []byte{0x01},
				AccessList: types.AccessList{{Address: a1, StorageKeys: []common.Hash{c03Hash(1), c03Hash(2)}}, {Address: a2, StorageKeys: []common.Hash{}}}}
		}},
		{"call-workfields", func(chain *big.Int, loc common.Location) *types.QuaiTx {
			to := c03Addr(loc, 0x66, false)
			ph, mh := c03Hash(7), c03Hash(8)
			wn := types.EncodeNonce(77)
			return &types.QuaiTx{ChainID: chain, Nonce: 3, GasPrice: big.NewInt(5), Gas: 30000, To: &to, Value: big.NewInt(9), Data: []byte{}, AccessList: types.AccessList{},
				ParentHash: &ph, MixHash: &mh, WorkNonce: &wn}
		}},
	}
}

// ---------------------------------------------------------------- content (reference reading)

// c03Field is one named piece of decoded content. Signed fields are those of the property
// statement; v/r/s are the signature.
type c03Field struct{ Name, Val string }

var c03UnsignedNames = map[string]bool{"parent_hash": true, "mix_hash": true, "work_nonce": true}

// c03QuaiContent reads a decoded transaction back through the public getters only.
func c03QuaiContent(tx *types.Transaction) []c03Field {
	f := []c03Field{{"type", fmt.Sprint(tx.Type())}}
	if tx.Type() != types.QuaiTxType {
		return f
	}
	to := "nil"
	if tx.To() != nil {
		to = c03Hex(tx.To().Bytes())
	}
	var al strings.Builder
	for _, t := range tx.AccessList() {
		al.WriteString(c03Hex(t.Address.Bytes()))
		al.WriteString("[")
		for _, k := range t.StorageKeys {
			al.WriteString(c03Hex(k.Bytes()))
			al.WriteString(",")
		}
		al.WriteString("];")
	}
	v, r, s := tx.GetEcdsaSignatureValues()
	f = append(f,
		c03Field{"chain_id", tx.ChainId().String()},
		c03Field{"nonce", fmt.Sprint(tx.Nonce())},
		c03Field{"gas", fmt.Sprint(tx.Gas())},
		c03Field{"gas_price", tx.GasPrice().String()},
		c03Field{"to", to},
		c03Field{"value", tx.Value().String()},
		c03Field{"data", c03Hex(tx.Data())},
		c03Field{"access_list", al.String()},
		c03Field{"v", v.String()}, c03Field{"r", r.String()}, c03Field{"s", s.String()},
	)
	if h := tx.ParentHash(); h != nil {
		f = append(f, c03Field{"parent_hash", c03Hex(h.Bytes())})
	}
	if h := tx.MixHash(); h != nil {
		f = append(f, c03Field{"mix_hash", c03Hex(h.Bytes())})
	}
	if n := tx.WorkNonce(); n != nil {
		f = append(f, c03Field{"work_nonce", fmt.Sprint(n.Uint64())})
	}
	return f
}

// c03Diff returns the names of signed/signature fields that differ and of unsigned ones.
func c03Diff(a, b []c03Field) (changed, unsignedChanged []string) {
	am, bm := map[string]string{}, map[string]string{}
	for _, x := range a {
		am[x.Name] = x.Val
	}
	for _, x := range b {
		bm[x.Name] = x.Val
	}
	seen := map[string]bool{}
	add := func(n string) {
		if seen[n] {
			return
		}
		seen[n] = true
		if c03UnsignedNames[n] {
			unsignedChanged = append(unsignedChanged, n)
		} else {
			changed = append(changed, n)
		}
	}
	for n, v := range am {
		if w, ok := bm[n]; !ok || w != v {
			add(n)
		}
	}
	for n := range bm {
		if _, ok := am[n]; !ok {
			add(n)
		}
	}
	if am["type"] != bm["type"] {
		return []string{"type"}, nil
	}
	return changed, unsignedChanged
}

// ---------------------------------------------------------------- decode helpers (guarded)

func c03DecodeWire(raw []byte, loc common.Location) (tx *types.Transaction, err error) {
	perr := vx.Guard(func() {
		p := new(types.ProtoTransaction)
		if e := proto.Unmarshal(raw, p); e != nil {
			err = e
			return
		}
		t := new(types.Transaction)
		if e := t.ProtoDecode(p, loc); e != nil {
			err = e
			return
		}
		tx = t
	})
	if perr != "" {
		return nil, fmt.Errorf("panic in decode at %s", vx.PanicSite(perr))
	}
	return tx, err
}

func c03DecodeRLP(raw []byte) (tx *types.Transaction, err error) {
	perr := vx.Guard(func() {
		t := new(types.Transaction)
		if e := t.UnmarshalBinary(raw); e != nil {
			err = e
			return
		}
		tx = t
	})
	if perr != "" {
		return nil, fmt.Errorf("panic in decode at %s", vx.PanicSite(perr))
	}
	return tx, err
}

func c03Sender(s types.Signer, tx *types.Transaction) (addr [20]byte, err error) {
	perr := vx.Guard(func() {
		a, e := types.Sender(s, tx)
		if e != nil {
			err = e
			return
		}
		addr = a.Bytes20()
	})
	if perr != "" {
		return addr, fmt.Errorf("panic in Sender at %s", vx.PanicSite(perr))
	}
	return addr, err
}

// ---------------------------------------------------------------- signed baselines

type c03Signed struct {
	Idx     int
	Key     *c03Key
	Tmpl    string
	Chain   int64
	Loc     common.Location
	Wire    []byte
	Proto   *types.ProtoTransaction
	Content []c03Field
	Hash    common.Hash
}

func (b *c03Signed) String() string {
	return fmt.Sprintf("key%d/%s/chain%d/loc%s", b.Key.Idx, b.Tmpl, b.Chain, c03LocName(b.Loc))
}

func c03SignBaseline(k *c03Key, t c03Tmpl, chain int64, loc common.Location) (*c03Signed, error) {
	signer := types.NewSigner(big.NewInt(chain), loc)
	tx, err := types.SignTx(types.NewTx(t.Build(big.NewInt(chain), loc)), signer, k.EC)
	if err != nil {
		return nil, err
	}
	p, err := tx.ProtoEncode()
	if err != nil {
		return nil, err
	}
	raw, err := proto.Marshal(p)
	if err != nil {
		return nil, err
	}
	dec, err := c03DecodeWire(raw, loc)
	if err != nil {
		return nil, fmt.Errorf("baseline does not decode: %v", err)
	}
	b := &c03Signed{Key: k, Tmpl: t.Name, Chain: chain, Loc: loc, Wire: raw, Proto: p, Content: c03QuaiContent(dec)}
	got, err := c03Sender(signer, dec)
	if err != nil || got != k.Addr {
		return nil, fmt.Errorf("baseline %s: sender=%x err=%v, want %x", b, got, err, k.Addr)
	}
	dec2, _ := c03DecodeWire(raw, loc)
	b.Hash = dec2.Hash()
	return b, nil
}

func c03AllBaselines(keys []*c03Key, c *vx.Ctx) []*c03Signed {
	var out []*c03Signed
	for _, t := range c03Templates() {
		for _, k := range keys {
			for _, ch := range c03ChainIDs {
				for _, loc := range c03Locs {
					b, err := c03SignBaseline(k, t, ch, loc)
					if err != nil {
						c.HarnessError(err.Error())
						continue
					}
					b.Idx = len(out)
					out = append(out, b)
				}
			}
		}
	}
	return out
}

// ---------------------------------------------------------------- the judge

// c03JudgeQuai evaluates the statement on one presented transaction object (fresh, uncached).
// base is the content that was really signed by key k for signChain.
func c03JudgeQuai(tx *types.Transaction, base []c03Field, k *c03Key, signChain, verChain int64, verLoc common.Location) (outcome, vkey, desc string) {
	changed, unsignedCh := c03Diff(base, c03QuaiContent(tx))
	cs := "none"
	if len(changed) > 0 {
		cs = c03SortedJoin(changed)
	} else if len(unsignedCh) > 0 {
		cs = "unsigned-only"
	}
	chain := "same-chain"
	if verChain != signChain {
		chain = "other-chain"
	}
	authorised := len(changed) == 0 && verChain == signChain
	got, err := c03Sender(types.NewSigner(big.NewInt(verChain), verLoc), tx)
	switch {
	case err != nil:
		outcome = fmt.Sprintf("changed=%s|%s|reject:%s", cs, chain, c03ErrClass(err))
	case got == k.Addr:
		outcome = fmt.Sprintf("changed=%s|%s|original-sender", cs, chain)
		if !authorised {
			what := cs
			if len(changed) == 0 {
				what = "verifier-chain-only"
			}
			vkey = "quai:original-sender-returned:changed=" + what
			desc = fmt.Sprintf("types.Sender(signer chain %d loc %s) attributes the ORIGINAL sender %x to a transaction whose %s differs from what key%d signed for chain %d", verChain, c03LocName(verLoc), got, what, k.Idx, signChain)
		}
	default:
		outcome = fmt.Sprintf("changed=%s|%s|other-sender", cs, chain)
	}
	return
}

// ---------------------------------------------------------------- mutation menu

type c03WireMut struct {
	Name string
	Raw  []byte
}

func c03BigVariants(b []byte) map[string][]byte {
	v := new(big.Int).SetBytes(b)
	out := map[string][]byte{
		"+1":        new(big.Int).Add(v, big.NewInt(1)).Bytes(),
		"zero":      {},
		"zero-byte": {0},
		"padded":    append([]byte{0}, b...),
		"x256":      append(append([]byte{}, b...), 0),
		"max256":    c03Two256m1.Bytes(),
		"+2^64":     new(big.Int).Add(v, new(big.Int).Lsh(big.NewInt(1), 64)).Bytes(),
		"+2^256":    new(big.Int).Add(v, new(big.Int).Lsh(big.NewInt(1), 256)).Bytes(),
		"absent":    nil,
	}
	if v.Sign() > 0 {
		out["-1"] = new(big.Int).Sub(v, big.NewInt(1)).Bytes()
	}
	if len(b) > 0 {
		f := append([]byte{}, b...)
		f[0] ^= 0x80
		out["flip-hi"] = f
	}
	return out
}

func c03BytesVariants(b []byte) map[string][]byte {
	out := map[string][]byte{
		"absent": nil,
		"empty":  {},
		"append": append(append([]byte{}, b...), 0),
		"prefix": append([]byte{1}, b...),
	}
	if len(b) > 0 {
		out["drop-last"] = append([]byte{}, b[:len(b)-1]...)
		out["drop-first"] = append([]byte{}, b[1:]...)
		f := append([]byte{}, b...)
		f[0] ^= 1
		out["flip-first"] = f
		l := append([]byte{}, b...)
		l[len(l)-1] ^= 0x80
		out["flip-last"] = l
	}
	return out
}

func c03U64Variants(p *uint64) map[string]*uint64 {
	u := func(x uint64) *uint64 { return &x }
	v := uint64(0)
	if p != nil {
		v = *p
	}
	out := map[string]*uint64{"+1": u(v + 1), "zero": u(0), "max": u(^uint64(0)), "+2^32": u(v + 1<<32), "absent": nil}
	if v > 0 {
		out["-1"] = u(v - 1)
	}
	return out
}

func c03SortedKeys[T any](m map[string]T) []string {
	ks := make([]string, 0, len(m))
	for k := range m {
		ks = append(ks, k)
	}
	// insertion sort (tiny)
	for i := 1; i < len(ks); i++ {
		for j := i; j > 0 && ks[j] < ks[j-1]; j-- {
			ks[j], ks[j-1] = ks[j-1], ks[j]
		}
	}
	return ks
}

// c03QuaiMenu lists every single-field menu mutation of a signed Quai transaction's wire form.
func c03QuaiMenu(b *c03Signed) []c03WireMut {
	var out []c03WireMut
	emit := func(name string, f func(p *types.ProtoTransaction)) {
		p := proto.Clone(b.Proto).(*types.ProtoTransaction)
		f(p)
		raw, err := proto.Marshal(p)
		if err != nil {
			return
		}
		out = append(out, c03WireMut{name, raw})
	}
	emit("identity", func(p *types.ProtoTransaction) {})
	// type
	for _, t := range []uint64{1, 2, 3, 255} {
		t := t
		emit(fmt.Sprintf("type=%d", t), func(p *types.ProtoTransaction) { p.Type = &t })
	}
	emit("type=absent", func(p *types.ProtoTransaction) { p.Type = nil })
	// chain id: every other menu chain id and the generic big-int variants
	for _, ch := range c03ChainIDs {
		if ch != b.Chain {
			ch := ch
			emit(fmt.Sprintf("chain_id=%d", ch), func(p *types.ProtoTransaction) { p.ChainId = big.NewInt(ch).Bytes() })
		}
	}
	bigField := func(name string, get func(p *types.ProtoTransaction) *[]byte) {
		vs := c03BigVariants(*get(b.Proto))
		for _, k := range c03SortedKeys(vs) {
			v := vs[k]
			emit(name+":"+k, func(p *types.ProtoTransaction) { *get(p) = v })
		}
	}
	bigField("chain_id", func(p *types.ProtoTransaction) *[]byte { return &p.ChainId })
	bigField("gas_price", func(p *types.ProtoTransaction) *[]byte { return &p.GasPrice })
	bigField("value", func(p *types.ProtoTransaction) *[]byte { return &p.Value })
	bigField("v", func(p *types.ProtoTransaction) *[]byte { return &p.V })
	bigField("r", func(p *types.ProtoTransaction) *[]byte { return &p.R })
	bigField("s", func(p *types.ProtoTransaction) *[]byte { return &p.S })
	for _, v := range []int64{0, 1, 2, 27, 28} {
		v := v
		emit(fmt.Sprintf("v=%d", v), func(p *types.ProtoTransaction) { p.V = big.NewInt(v).Bytes() })
	}
	// the malleable twin (r, N-s, v^1) and (r, N-s, v)
	{
		s := new(big.Int).SetBytes(b.Proto.S)
		v := new(big.Int).SetBytes(b.Proto.V)
		tw := new(big.Int).Sub(c03N, s)
		emit("s=N-s,v^1", func(p *types.ProtoTransaction) {
			p.S = tw.Bytes()
			p.V = new(big.Int).Xor(v, big.NewInt(1)).Bytes()
		})
		emit("s=N-s", func(p *types.ProtoTransaction) { p.S = tw.Bytes() })
		emit("swap-r-s", func(p *types.ProtoTransaction) { p.R, p.S = p.S, p.R })
	}
	u64Field := func(name string, get func(p *types.ProtoTransaction) **uint64) {
		vs := c03U64Variants(*get(b.Proto))
		for _, k := range c03SortedKeys(vs) {
			v := vs[k]
			emit(name+":"+k, func(p *types.ProtoTransaction) { *get(p) = v })
		}
	}
	u64Field("nonce", func(p *types.ProtoTransaction) **uint64 { return &p.Nonce })
	u64Field("gas", func(p *types.ProtoTransaction) **uint64 { return &p.Gas })
	u64Field("work_nonce", func(p *types.ProtoTransaction) **uint64 { return &p.WorkNonce })
	emit("swap-nonce-gas", func(p *types.ProtoTransaction) { p.Nonce, p.Gas = p.Gas, p.Nonce })
	emit("swap-value-gasprice", func(p *types.ProtoTransaction) { p.Value, p.GasPrice = p.GasPrice, p.Value })
	// to
	toBase := b.Proto.To
	if toBase == nil {
		toBase = c03Addr(b.Loc, 0x11, false).Bytes()
		emit("to:set", func(p *types.ProtoTransaction) { p.To = toBase })
		emit("to:set-zero", func(p *types.ProtoTransaction) { p.To = make([]byte, 20) })
		emit("to:set-empty", func(p *types.ProtoTransaction) { p.To = []byte{} })
	} else {
		vs := c03BytesVariants(toBase)
		for _, k := range c03SortedKeys(vs) {
			v := vs[k]
			emit("to:"+k, func(p *types.ProtoTransaction) { p.To = v })
		}
		emit("to:sender", func(p *types.ProtoTransaction) { p.To = append([]byte{}, b.Key.Addr[:]...) })
		emit("to:zero", func(p *types.ProtoTransaction) { p.To = make([]byte, 20) })
	}
	// data
	{
		vs := c03BytesVariants(b.Proto.Data)
		for _, k := range c03SortedKeys(vs) {
			v := vs[k]
			emit("data:"+k, func(p *types.ProtoTransaction) { p.Data = v })
		}
		emit("swap-data-to", func(p *types.ProtoTransaction) { p.Data, p.To = p.To, p.Data })
	}
	// access list
	emit("al:absent", func(p *types.ProtoTransaction) { p.AccessList = nil })
	emit("al:empty", func(p *types.ProtoTransaction) { p.AccessList = &types.ProtoAccessList{} })
	emit("al:add-tuple", func(p *types.ProtoTransaction) {
		p.AccessList.AccessTuples = append(p.AccessList.AccessTuples, &types.ProtoAccessTuple{Address: c03Addr(b.Loc, 0x77, false).Bytes()})
	})
	emit("al:add-empty-tuple", func(p *types.ProtoTransaction) {
		p.AccessList.AccessTuples = append(p.AccessList.AccessTuples, &types.ProtoAccessTuple{})
	})
	nt := 0
	if b.Proto.AccessList != nil {
		nt = len(b.Proto.AccessList.AccessTuples)
	}
	for i := 0; i < nt; i++ {
		i := i
		emit(fmt.Sprintf("al:drop-tuple%d", i), func(p *types.ProtoTransaction) {
			t := p.AccessList.AccessTuples
			p.AccessList.AccessTuples = append(append([]*types.ProtoAccessTuple{}, t[:i]...), t[i+1:]...)
		})
		emit(fmt.Sprintf("al:dup-tuple%d", i), func(p *types.ProtoTransaction) {
			t := p.AccessList.AccessTuples
			p.AccessList.AccessTuples = append(t, proto.Clone(t[i]).(*types.ProtoAccessTuple))
		})
		vs := c03BytesVariants(b.Proto.AccessList.AccessTuples[i].Address)
		for _, k := range c03SortedKeys(vs) {
			v := vs[k]
			emit(fmt.Sprintf("al:tuple%d.addr:%s", i, k), func(p *types.ProtoTransaction) { p.AccessList.AccessTuples[i].Address = v })
		}
		emit(fmt.Sprintf("al:tuple%d.add-key", i), func(p *types.ProtoTransaction) {
			t := p.AccessList.AccessTuples[i]
			t.StorageKey = append(t.StorageKey, c03Hash(9).ProtoEncode())
		})
		emit(fmt.Sprintf("al:tuple%d.add-zero-key", i), func(p *types.ProtoTransaction) {
			t := p.AccessList.AccessTuples[i]
			t.StorageKey = append(t.StorageKey, &common.ProtoHash{})
		})
		nk := len(b.Proto.AccessList.AccessTuples[i].StorageKey)
		for j := 0; j < nk; j++ {
			j := j
			emit(fmt.Sprintf("al:tuple%d.drop-key%d", i, j), func(p *types.ProtoTransaction) {
				t := p.AccessList.AccessTuples[i]
				t.StorageKey = append(append([]*common.ProtoHash{}, t.StorageKey[:j]...), t.StorageKey[j+1:]...)
			})
			vs := c03BytesVariants(b.Proto.AccessList.AccessTuples[i].StorageKey[j].Value)
			for _, k := range c03SortedKeys(vs) {
				v := vs[k]
				emit(fmt.Sprintf("al:tuple%d.key%d:%s", i, j, k), func(p *types.ProtoTransaction) { p.AccessList.AccessTuples[i].StorageKey[j].Value = v })
			}
			if i+1 < nt {
				emit(fmt.Sprintf("al:move-key%d.%d-to-next", i, j), func(p *types.ProtoTransaction) {
					t, n := p.AccessList.AccessTuples[i], p.AccessList.AccessTuples[i+1]
					n.StorageKey = append(n.StorageKey, t.StorageKey[j])
					t.StorageKey = append(append([]*common.ProtoHash{}, t.StorageKey[:j]...), t.StorageKey[j+1:]...)
				})
			}
		}
		if nk >= 2 {
			emit(fmt.Sprintf("al:tuple%d.swap-keys", i), func(p *types.ProtoTransaction) {
				t := p.AccessList.AccessTuples[i]
				t.StorageKey[0], t.StorageKey[1] = t.StorageKey[1], t.StorageKey[0]
			})
		}
	}
	if nt >= 2 {
		emit("al:swap-tuples", func(p *types.ProtoTransaction) {
			t := p.AccessList.AccessTuples
			t[0], t[1] = t[1], t[0]
		})
		emit("al:swap-addresses", func(p *types.ProtoTransaction) {
			t := p.AccessList.AccessTuples
			t[0].Address, t[1].Address = t[1].Address, t[0].Address
		})
	}
	// unsigned work fields and fields of other transaction kinds
	h := c03Hash(0x5a).ProtoEncode()
	emit("parent_hash:set", func(p *types.ProtoTransaction) { p.ParentHash = h })
	emit("parent_hash:absent", func(p *types.ProtoTransaction) { p.ParentHash = nil })
	emit("mix_hash:set", func(p *types.ProtoTransaction) { p.MixHash = h })
	emit("mix_hash:absent", func(p *types.ProtoTransaction) { p.MixHash = nil })
	emit("foreign:etx_sender", func(p *types.ProtoTransaction) { p.EtxSender = append([]byte{}, b.Key.Addr[:]...) })
	emit("foreign:etx_fields", func(p *types.ProtoTransaction) {
		i, t := uint32(0), uint64(0)
		p.OriginatingTxHash, p.EtxIndex, p.EtxType = h, &i, &t
	})
	emit("foreign:signature", func(p *types.ProtoTransaction) { p.Signature = make([]byte, 64) })
	out = append(out, c03WireMut{"unknown-field", append(append([]byte{}, b.Wire...), 0xf8, 0x07, 0x01)})
	out = append(out, c03WireMut{"duplicate-message", append(append([]byte{}, b.Wire...), b.Wire...)})
	return out
}

// ---------------------------------------------------------------- part quai-mutate

func c03RunQuaiMutate(c *vx.Ctx, keys []*c03Key) {
	p := c.Part("quai-mutate")
	bits := []uint{0, 7}
	if c.Thorough() {
		bits = []uint{0, 1, 2, 3, 4, 5, 6, 7}
	}
	p.Bound("keys", len(keys))
	p.Bound("templates", []string{"call", "create", "call-data", "call-accesslist", "call-workfields"})
	p.Bound("sign_and_verify_chain_ids", c03ChainIDs)
	p.Bound("signing_locations", []string{"0-0", "0-1", "1-0"})
	p.Bound("verifier_locations_per_mutant", map[bool]int{false: 2, true: 3}[c.Thorough()])
	p.Bound("bit_flips_per_wire_byte", len(bits))
	p.Bound("also", "every proper prefix of the wire bytes")
	bases := c03AllBaselines(keys, c)
	seen := map[string]bool{}
	menuNames := map[string]bool{}
	for _, b := range bases {
		if !c.Mine(int64(b.Idx)) {
			continue
		}
		if c.Expired() {
			p.Incomplete("deadline")
			break
		}
		muts := c03QuaiMenu(b)
		for _, m := range muts {
			menuNames[strings.SplitN(m.Name, "=", 2)[0]] = true
		}
		for i := range b.Wire {
			for _, bit := range bits {
				raw := append([]byte{}, b.Wire...)
				raw[i] ^= 1 << bit
				muts = append(muts, c03WireMut{fmt.Sprintf("bitflip@%d.%d", i, bit), raw})
			}
		}
		for n := 0; n < len(b.Wire); n++ {
			muts = append(muts, c03WireMut{fmt.Sprintf("truncate@%d", n), append([]byte{}, b.Wire[:n]...)})
		}
		for _, m := range muts {
			p.States++
			c03QuaiMutant(c, p, b, m, seen)
		}
		p.Sample(map[string]any{"baseline": b.String(), "wire": c03Hex(b.Wire), "sender": c03Hex(b.Key.Addr[:]), "mutants": len(muts)})
	}
	p.Bound("menu_mutation_kinds", len(menuNames))
	p.MaxDepth = 1
}

func c03QuaiMutant(c *vx.Ctx, p *vx.Part, b *c03Signed, m c03WireMut, seen map[string]bool) {
	isIdentity := m.Name == "identity"
	hashChecked := false
	locs := c03Locs
	if !c.Thorough() { // quick: the signer's own location and the next one
		for i, l := range c03Locs {
			if l.Equal(b.Loc) {
				locs = []common.Location{l, c03Locs[(i+1)%len(c03Locs)]}
			}
		}
	}
	for _, loc := range locs {
		probe, derr := c03DecodeWire(m.Raw, loc)
		if derr != nil {
			p.Transitions++
			p.Outcome("reject-at-decode:" + c03ErrClass(derr))
			if isIdentity {
				c.HarnessError("identity wire form does not decode: " + derr.Error())
			}
			continue
		}
		// hash-keyed sender caches (pool senders LRU / Process senders map) attribute by tx.Hash()
		if !hashChecked {
			hashChecked = true
			changed, _ := c03Diff(b.Content, c03QuaiContent(probe))
			if len(changed) > 0 && probe.Type() == types.QuaiTxType {
				var h common.Hash
				if perr := vx.Guard(func() { h = probe.Hash() }); perr == "" && h == b.Hash {
					cs := c03SortedJoin(changed)
					c03Report(c, "quai-mutate", c03Viol{
						Key:    "quai:hash-collision:changed=" + cs,
						Desc:   fmt.Sprintf("a transaction whose %s differs from the signed one (%s, mutation %s) has the same tx.Hash() %x, so the hash-keyed sender caches attribute the original sender to it", cs, b, m.Name, h),
						Replay: c03Replay{Kind: "quai-sender", Wire: c03Hex(m.Raw), BaseWire: c03Hex(b.Wire), Signer: b.Key.Idx, SignChain: b.Chain, VerChain: b.Chain, VerLoc: loc, Expect: "hash", Note: m.Name},
					}, seen)
				}
			}
		}
		for _, vch := range c03ChainIDs {
			tx, _ := c03DecodeWire(m.Raw, loc) // fresh object: no cached sender
			p.Transitions++
			p.Traces++
			outcome, vkey, desc := c03JudgeQuai(tx, b.Content, b.Key, b.Chain, vch, loc)
			p.Outcome(outcome)
			if isIdentity && vch == b.Chain && !strings.HasSuffix(outcome, "original-sender") {
				c.HarnessError(fmt.Sprintf("unmutated %s not attributed to its signer under loc %s: %s", b, c03LocName(loc), outcome))
			}
			if vkey != "" {
				c03Report(c, "quai-mutate", c03Viol{Key: vkey, Desc: desc + fmt.Sprintf(" [baseline %s, mutation %s]", b, m.Name),
					Replay: c03Replay{Kind: "quai-sender", Wire: c03Hex(m.Raw), BaseWire: c03Hex(b.Wire), Signer: b.Key.Idx, SignChain: b.Chain, VerChain: vch, VerLoc: loc, Note: m.Name}}, seen)
			}
		}
	}
}

// c03ReplayQuaiSender re-executes one presented transaction (wire / rlp / in-memory) against the
// content that was really signed.
func c03ReplayQuaiSender(rp c03Replay) (string, string) {
	keys := c03Keys()
	if rp.Signer < 0 || rp.Signer >= len(keys) {
		return "", ""
	}
	k := keys[rp.Signer]
	loc := common.Location(rp.VerLoc)
	baseTx, err := c03DecodeWire(c03UnHex(rp.BaseWire), loc)
	if err != nil {
		return "", ""
	}
	base := c03QuaiContent(baseTx)
	var tx *types.Transaction
	path := "proto"
	switch {
	case rp.Wire != "":
		tx, err = c03DecodeWire(c03UnHex(rp.Wire), loc)
	case rp.RLP != "":
		path = "rlp"
		tx, err = c03DecodeRLP(c03UnHex(rp.RLP))
	case len(rp.VRS) == 3:
		path = "inmem"
		tx = c03InMem(baseTx, c03BigHex(rp.VRS[0]), c03BigHex(rp.VRS[1]), c03BigHex(rp.VRS[2]))
	}
	if err != nil || tx == nil {
		return "", ""
	}
	if rp.Expect == "hash" {
		changed, _ := c03Diff(base, c03QuaiContent(tx))
		baseTx2, _ := c03DecodeWire(c03UnHex(rp.BaseWire), loc)
		if len(changed) > 0 && tx.Hash() == baseTx2.Hash() {
			cs := c03SortedJoin(changed)
			return "quai:hash-collision:changed=" + cs, "same tx.Hash() although " + cs + " differs"
		}
		return "", ""
	}
	if rp.Expect == "sigvalue" {
		_, vk, d := c03JudgeSigValue(tx, base, k, rp.SignChain, loc, path)
		return vk, d
	}
	_, vkey, desc := c03JudgeQuai(tx, base, k, rp.SignChain, rp.VerChain, loc)
	return vkey, desc
}

func c03BigHex(s string) *big.Int {
	v, _ := new(big.Int).SetString(s, 16)
	if v == nil {
		v = new(big.Int)
	}
	return v
}

// ---------------------------------------------------------------- part quai-sigvalues

// c03InMem builds a transaction object directly (no decoder in between) with the given signature.
func c03InMem(base *types.Transaction, v, r, s *big.Int) *types.Transaction {
	return types.NewTx(&types.QuaiTx{ChainID: base.ChainId(), Nonce: base.Nonce(), GasPrice: base.GasPrice(), Gas: base.Gas(), To: base.To(), Value: base.Value(),
		Data: base.Data(), AccessList: base.AccessList(), V: v, R: r, S: s, ParentHash: base.ParentHash(), MixHash: base.MixHash(), WorkNonce: base.WorkNonce()})
}

// c03SigClass names the reason a (v,r,s) triple must be rejected according to the statement
// ("zero, out-of-range and high-S signature values are rejected"), or "".
func c03SigClass(v, r, s *big.Int) string {
	switch {
	case r.Sign() == 0:
		return "zero-r"
	case s.Sign() == 0:
		return "zero-s"
	case r.Cmp(c03N) >= 0:
		return "r-out-of-range"
	case s.Cmp(c03N) >= 0:
		return "s-out-of-range"
	case s.Cmp(c03HalfN) > 0:
		return "high-s"
	case !(v.Sign() == 0 || v.Cmp(big.NewInt(1)) == 0):
		return "v-out-of-range"
	}
	return ""
}

// c03JudgeSigValue: verifier = the signing chain. Invalid values must be rejected; any other value
// different from the real signature must not yield the original sender.
func c03JudgeSigValue(tx *types.Transaction, base []c03Field, k *c03Key, chain int64, loc common.Location, path string) (outcome, vkey, desc string) {
	if tx.Type() != types.QuaiTxType {
		return "not-quai", "", ""
	}
	v, r, s := tx.GetEcdsaSignatureValues()
	class := c03SigClass(v, r, s)
	changed, _ := c03Diff(base, c03QuaiContent(tx))
	label := class
	if label == "" {
		label = "in-range"
		if len(changed) == 0 {
			label = "real-signature"
		}
	}
	got, err := c03Sender(types.NewSigner(big.NewInt(chain), loc), tx)
	if err != nil {
		return path + "|" + label + "|reject:" + c03ErrClass(err), "", ""
	}
	if got == k.Addr {
		outcome = path + "|" + label + "|original-sender"
	} else {
		outcome = path + "|" + label + "|other-sender"
	}
	if class != "" {
		return outcome, "quai:invalid-sigvalue-accepted:" + class + "@" + path,
			fmt.Sprintf("types.Sender accepted a %s signature (v=%s r=%x s=%x) on the %s ingest path and returned sender %x", class, v, r, s, path, got)
	}
	if len(changed) > 0 && got == k.Addr {
		cs := c03SortedJoin(changed)
		return outcome, "quai:original-sender-returned:changed=" + cs, fmt.Sprintf("signature changed (%s; v=%s r=%x s=%x, path %s) but the original sender %x is still returned", cs, v, r, s, path, got)
	}
	return outcome, "", ""
}

func c03SigMenus(b *c03Signed) (vs, rs, ss []*big.Int) {
	bi := func(x int64) *big.Int { return big.NewInt(x) }
	r0, s0, v0 := new(big.Int).SetBytes(b.Proto.R), new(big.Int).SetBytes(b.Proto.S), new(big.Int).SetBytes(b.Proto.V)
	two64 := new(big.Int).Lsh(bi(1), 64)
	two256 := new(big.Int).Lsh(bi(1), 256)
	vs = []*big.Int{v0, new(big.Int).Xor(v0, bi(1)), bi(2), bi(26), bi(27), bi(28), bi(229), bi(255), bi(256), bi(257), two64, new(big.Int).Add(two64, bi(1))}
	common := func(x *big.Int) []*big.Int {
		out := []*big.Int{x, bi(0), bi(1), new(big.Int).Sub(c03N, bi(1)), c03N, new(big.Int).Add(c03N, bi(1)), c03HalfN, new(big.Int).Add(c03HalfN, bi(1)),
			new(big.Int).Sub(c03N, x), new(big.Int).Add(c03N, x), c03P, c03Two256m1, two256, new(big.Int).Add(two256, x)}
		for _, pos := range []uint{0, 1, 7, 8, 127, 128, 254, 255} {
			f := new(big.Int).Set(x)
			f.SetBit(f, int(pos), f.Bit(int(pos))^1)
			out = append(out, f)
		}
		return out
	}
	return vs, common(r0), common(s0)
}

func c03RunQuaiSigValues(c *vx.Ctx, keys []*c03Key) {
	p := c.Part("quai-sigvalues")
	tmpls := c03Templates()
	type cfg struct {
		t   c03Tmpl
		ch  int64
		loc common.Location
	}
	var cfgs []cfg
	if c.Thorough() {
		for _, t := range tmpls {
			for _, ch := range c03ChainIDs {
				cfgs = append(cfgs, cfg{t, ch, c03Locs[int(ch)%3]})
			}
		}
	} else {
		cfgs = []cfg{{tmpls[0], 9000, c03Locs[0]}, {tmpls[4], 1, c03Locs[1]}}
	}
	paths := []string{"proto", "rlp", "inmem"}
	p.Bound("ingest_paths", paths)
	p.Note("the rlp ingest path is exercised with the call-workfields template only (UnmarshalBinary rejects a QuaiTx without ParentHash/MixHash/WorkNonce)")
	p.Bound("baselines", len(cfgs)*len(keys))
	seen := map[string]bool{}
	var item int64
	for _, cf := range cfgs {
		for _, k := range keys {
			b, err := c03SignBaseline(k, cf.t, cf.ch, cf.loc)
			if err != nil {
				c.HarnessError(err.Error())
				continue
			}
			baseTx, _ := c03DecodeWire(b.Wire, cf.loc)
			vs, rs, ss := c03SigMenus(b)
			p.Bound("menu_sizes_v_r_s", []int{len(vs), len(rs), len(ss)})
			for _, path := range paths {
				if path == "rlp" && cf.t.Name != "call-workfields" {
					continue // the typed-RLP decoder only accepts transactions that carry the work fields
				}
				for _, v := range vs {
					item++
					if !c.Mine(item) {
						continue
					}
					if c.Expired() {
						p.Incomplete("deadline")
						return
					}
					for _, r := range rs {
						for _, s := range ss {
							p.States++
							p.Transitions++
							rp := c03Replay{Kind: "quai-sender", BaseWire: c03Hex(b.Wire), Signer: k.Idx, SignChain: cf.ch, VerChain: cf.ch, VerLoc: cf.loc, Expect: "sigvalue"}
							var tx *types.Transaction
							var derr error
							switch path {
							case "proto":
								pm := proto.Clone(b.Proto).(*types.ProtoTransaction)
								pm.V, pm.R, pm.S = v.Bytes(), r.Bytes(), s.Bytes()
								raw, _ := proto.Marshal(pm)
								rp.Wire = c03Hex(raw)
								tx, derr = c03DecodeWire(raw, cf.loc)
							case "rlp":
								raw, e := c03InMem(baseTx, v, r, s).MarshalBinary()
								if e != nil {
									derr = e
									break
								}
								rp.RLP = c03Hex(raw)
								tx, derr = c03DecodeRLP(raw)
							case "inmem":
								rp.VRS = []string{v.Text(16), r.Text(16), s.Text(16)}
								tx = c03InMem(baseTx, v, r, s)
							}
							class := c03SigClass(v, r, s)
							if class == "" {
								class = "in-range"
							}
							if derr != nil {
								p.Outcome(path + "|" + class + "|reject-at-decode:" + c03ErrClass(derr))
								continue
							}
							p.Traces++
							outcome, vkey, desc := c03JudgeSigValue(tx, b.Content, k, cf.ch, cf.loc, path)
							p.Outcome(outcome)
							if strings.Contains(outcome, "|real-signature|") && !strings.HasSuffix(outcome, "original-sender") {
								c.HarnessError(fmt.Sprintf("real signature of %s not accepted on path %s: %s", b, path, outcome))
							}
							if vkey != "" {
								c03Report(c, "quai-sigvalues", c03Viol{Key: vkey, Desc: desc + " [baseline " + b.String() + "]", Replay: rp}, seen)
							}
						}
					}
				}
			}
			p.Sample(map[string]any{"baseline": b.String(), "r": c03Hex(b.Proto.R), "s": c03Hex(b.Proto.S), "v": c03Hex(b.Proto.V)})
		}
	}
	p.MaxDepth = 3
}

// ---------------------------------------------------------------- part quai-cache

type c03CacheOp struct {
	Name  string
	Chain int64
	Loc   common.Location
}

func c03CacheOps() []c03CacheOp {
	var ops []c03CacheOp
	for _, ch := range c03ChainIDs {
		for _, loc := range c03Locs {
			ops = append(ops, c03CacheOp{fmt.Sprintf("Sender(chain=%d,loc=%s)", ch, c03LocName(loc)), ch, loc})
		}
	}
	ops = append(ops, c03CacheOp{Name: "Hash()"}, c03CacheOp{Name: "FromChain()"})
	return ops
}

// c03ExecCache runs one op sequence on ONE fresh object and judges every Sender result.
func c03ExecCache(wire []byte, decodeLoc common.Location, k *c03Key, signChain int64, seq []c03CacheOp, p *vx.Part) (string, string) {
	tx, err := c03DecodeWire(wire, decodeLoc)
	if err != nil {
		return "", ""
	}
	txChain := tx.ChainId().Int64()
	var trace []string
	returned := map[int64][20]byte{} // chain id of the signer -> sender it was given on this object
	for _, op := range seq {
		switch op.Name {
		case "Hash()":
			vx.Guard(func() { tx.Hash() })
			trace = append(trace, "Hash()")
			continue
		case "FromChain()":
			vx.Guard(func() { tx.FromChain(decodeLoc) })
			trace = append(trace, "FromChain()")
			continue
		}
		got, serr := c03Sender(types.NewSigner(big.NewInt(op.Chain), op.Loc), tx)
		res := "err:" + c03ErrClass(serr)
		if serr == nil {
			res = "other"
			if got == k.Addr {
				res = "orig"
			}
		}
		trace = append(trace, op.Name+"="+res)
		if p != nil {
			p.Traces++
		}
		// statement: a sender cached for one chain id is never returned for another
		if serr == nil {
			for ch, a := range returned {
				if ch != op.Chain && a == got {
					return "quai:cache-returns-sender-for-other-chain", fmt.Sprintf("on one object (tx chain id %d, signed by key%d for chain %d) the call sequence %v made Sender with a chain-%d signer return %x, the sender obtained before with a chain-%d signer", txChain, k.Idx, signChain, trace, op.Chain, got, ch)
				}
			}
			returned[op.Chain] = got
		}
		// statement: the attributed sender is the key that signed exactly this payload
		if op.Chain == signChain && txChain == signChain && (serr != nil || got != k.Addr) {
			return "quai:cache-wrong-sender", fmt.Sprintf("call sequence %v on one object: the chain-%d signer does not obtain the real signer %x (got %x, err %v)", trace, op.Chain, k.Addr, got, serr)
		}
		if txChain != signChain && serr == nil && got == k.Addr {
			return "quai:original-sender-returned:changed=chain_id", fmt.Sprintf("call sequence %v: original sender returned for a transaction whose chain id was changed to %d", trace, txChain)
		}
	}
	return "", ""
}

func c03RunQuaiCache(c *vx.Ctx, keys []*c03Key) {
	p := c.Part("quai-cache")
	depth := 2
	if c.Thorough() {
		depth = 3
	}
	ops := c03CacheOps()
	p.Bound("depth", depth)
	p.Bound("ops", len(ops))
	bases := c03AllBaselines(keys, c)
	seen := map[string]bool{}
	outc := func(k string) string {
		if k == "" {
			return "consistent"
		}
		return "violation"
	}
	for _, b := range bases {
		if !c.Mine(int64(b.Idx)) {
			continue
		}
		if c.Expired() {
			p.Incomplete("deadline")
			break
		}
		// the object under test: the signed tx itself, and the tx with its chain id rewritten
		wires := [][]byte{b.Wire}
		for _, ch := range c03ChainIDs {
			if ch != b.Chain {
				pm := proto.Clone(b.Proto).(*types.ProtoTransaction)
				pm.ChainId = big.NewInt(ch).Bytes()
				raw, _ := proto.Marshal(pm)
				wires = append(wires, raw)
			}
		}
		for wi, wire := range wires {
			p.States++
			var rec func(seq []c03CacheOp)
			rec = func(seq []c03CacheOp) {
				if len(seq) > 0 {
					p.Transitions++
					vkey, desc := c03ExecCache(wire, b.Loc, b.Key, b.Chain, seq, p)
					names := []string{}
					for _, o := range seq {
						names = append(names, o.Name)
					}
					kind := "signed-tx"
					if wi > 0 {
						kind = "chain-rewritten-tx"
					}
					last := seq[len(seq)-1]
					rel := "n/a"
					if last.Chain != 0 {
						rel = "signer=tx-chain"
						if last.Chain != b.Chain {
							rel = "signer=other-chain"
						}
					}
					p.Outcome(fmt.Sprintf("%s|len%d|last:%s|%s", kind, len(seq), rel, outc(vkey)))
					if vkey != "" {
						c03Report(c, "quai-cache", c03Viol{Key: vkey, Desc: desc + " [baseline " + b.String() + "]",
							Replay: c03Replay{Kind: "quai-cache", BaseWire: c03Hex(wire), Signer: b.Key.Idx, SignChain: b.Chain, VerLoc: b.Loc, Ops: names}}, seen)
					}
				}
				if len(seq) == depth {
					return
				}
				for _, o := range ops {
					rec(append(append([]c03CacheOp{}, seq...), o))
				}
			}
			rec(nil)
		}
	}
	p.MaxDepth = int64(depth)
	p.Sample(map[string]any{"ops": func() []string {
		n := []string{}
		for _, o := range ops {
			n = append(n, o.Name)
		}
		return n
	}()})
}

func c03ReplayQuaiCache(rp c03Replay) (string, string) {
	keys := c03Keys()
	if rp.Signer < 0 || rp.Signer >= len(keys) {
		return "", ""
	}
	all := c03CacheOps()
	var seq []c03CacheOp
	for _, n := range rp.Ops {
		for _, o := range all {
			if o.Name == n {
				seq = append(seq, o)
			}
		}
	}
	return c03ExecCache(c03UnHex(rp.BaseWire), common.Location(rp.VerLoc), keys[rp.Signer], rp.SignChain, seq, nil)
}
