package main

// C06 part "trim-race": the cooperative scheduler of part "trim-schedules" decides only at
// synchronisation operations, and its hand-offs are happens-before edges; an access to shared data
// OUTSIDE any lock is therefore invisible to it. This part closes that gap the standard way: the same
// scenario body (the real Process call on the block that trims six outputs with one goroutine per
// denomination) is run free, many times, in a binary built with the race detector (vqr, see
// checks.d/C06.sh). A data race whose stacks lie in block processing is a violation ("regardless of
// goroutine scheduling" cannot hold for unsynchronised shared state); so is a run whose result differs
// from the first one. This pass samples interleavings: it is reported as NOT exhaustive.

import (
	"bufio"
	"encoding/json"
	"fmt"
	"os"
	"os/exec"
	"path/filepath"
	"regexp"
	"sort"
	"strings"
	"time"

	"github.com/dominant-strategies/go-quai/core"
	"github.com/dominant-strategies/go-quai/verifshim/vx"
)

func init() {
	register(vx.CheckSpec{ID: "c06race", Shards: 1, Run: runC06RaceChild})
}

type c06RaceOut struct {
	Runs     int      `json:"runs"`
	Outcomes []string `json:"distinct_outcomes"`
	Differ   string   `json:"differ,omitempty"`
	Harness  string   `json:"harness,omitempty"`
	Trimmed  int      `json:"trimmed_outputs"`
}

func runC06RaceChild(c *vx.Ctx) {
	core.VScaleParams(core.VR1)
	out := c06RaceOut{}
	defer func() {
		raw, _ := json.Marshal(out)
		fmt.Println("C06RACE-RESULT " + string(raw))
		p := c.Part("child")
		p.States, p.Transitions = 1, int64(out.Runs)
		p.Outcome("x")
		p.Outcome("y")
	}()
	s, blk, err := c06SchedScenario()
	if err != nil {
		out.Harness = err.Error()
		return
	}
	defer s.close()
	runs := 300
	if c.Thorough() {
		runs = 3000
	}
	deadline := time.Now().Add(60 * time.Second)
	if c.Thorough() {
		deadline = time.Now().Add(8 * time.Minute)
	}
	seen := map[string]bool{}
	ref := ""
	for i := 0; i < runs && time.Now().Before(deadline); i++ {
		fp, perr := s.n.VProcessFingerprintWithDeletes(blk)
		if perr != nil {
			fp = "ERROR:" + perr.Error()
		}
		out.Runs++
		if ref == "" {
			ref = fp
			out.Trimmed = strings.Count(fp, "del:")
		}
		if !seen[fp] {
			seen[fp] = true
			k := fp
			if len(k) > 160 {
				k = k[:160]
			}
			out.Outcomes = append(out.Outcomes, k)
		}
		if fp != ref && out.Differ == "" {
			out.Differ = fmt.Sprintf("run %d of the same Process call differs from run 0:\n run 0: %s\n run %d: %s", i, ref, i, fp)
		}
	}
	sort.Strings(out.Outcomes)
}

var c06RaceFrame = regexp.MustCompile(`^\s+(github\.com/dominant-strategies/go-quai/[^\s(]+(?:\([^)]*\))?[^\s(]*)\(`)

// c06ParseRaces groups the detector's reports: key = innermost go-quai frame of each of the two
// accesses; only reports with a block-processing frame in one of the stacks are relevant here.
func c06ParseRaces(dir string) (map[string]string, int) {
	relevant := map[string]string{}
	other := 0
	files, _ := filepath.Glob(filepath.Join(dir, "racelog*"))
	for _, f := range files {
		fh, err := os.Open(f)
		if err != nil {
			continue
		}
		sc := bufio.NewScanner(fh)
		sc.Buffer(make([]byte, 1<<20), 1<<24)
		var block []string
		flush := func() {
			if len(block) == 0 {
				return
			}
			text := strings.Join(block, "\n")
			block = nil
			// split into stacks: "Write at", "Previous read at", ... up to "Goroutine N (...) created at"
			var tops []string
			inAccess := false
			gotTop := false
			processing := false
			for _, l := range strings.Split(text, "\n") {
				t := strings.TrimSpace(l)
				switch {
				case strings.HasPrefix(t, "Write at") || strings.HasPrefix(t, "Read at") || strings.HasPrefix(t, "Previous write at") || strings.HasPrefix(t, "Previous read at") || strings.HasPrefix(t, "Atomic") || strings.HasPrefix(t, "Previous atomic"):
					inAccess, gotTop = true, false
				case strings.HasPrefix(t, "Goroutine "):
					inAccess = false
				}
				if strings.Contains(l, "headerchain_validation.go") || strings.Contains(l, "core.(*StateProcessor).Process") || strings.Contains(l, "core.(*HeaderChain).Finalize") || strings.Contains(l, "core.(*HeaderChain).TrimBlock") {
					processing = true
				}
				if inAccess && !gotTop {
					if m := c06RaceFrame.FindStringSubmatch(l); m != nil {
						fn := strings.TrimPrefix(m[1], "github.com/dominant-strategies/go-quai/")
						if !strings.HasPrefix(fn, "verif") {
							tops = append(tops, fn)
							gotTop = true
						}
					}
				}
			}
			if !processing {
				other++
				return
			}
			sort.Strings(tops)
			key := strings.Join(tops, "|")
			if key == "" {
				key = "unattributed"
			}
			if _, ok := relevant[key]; !ok {
				if len(text) > 6000 {
					text = text[:6000] + "\n…"
				}
				relevant[key] = text
			}
		}
		for sc.Scan() {
			l := sc.Text()
			if strings.HasPrefix(l, "WARNING: DATA RACE") {
				flush()
				block = []string{l}
				continue
			}
			if strings.HasPrefix(l, "==================") {
				flush()
				continue
			}
			if block != nil {
				block = append(block, l)
			}
		}
		flush()
		fh.Close()
	}
	return relevant, other
}

// c06Race (parent side): run the -race build of the scenario as a sub-process.
func c06Race(c *vx.Ctx) {
	if !c.Wants("trim-race") || c.Shard != 0 {
		return
	}
	p := c.Part("trim-race")
	p.Sampling("free-running pass under the race detector: interleavings are chosen by the Go scheduler, not enumerated")
	bin := os.Getenv("VQ_BIN_vqr")
	if bin == "" {
		p.Incomplete("-race build (vqr) not available: part skipped")
		return
	}
	res, races, other, tail, err := c06RunRace(bin, c.Tier)
	if res == nil {
		c.HarnessError(fmt.Sprintf("-race sub-process gave no result (%v): %s", err, tail))
		return
	}
	if res.Harness != "" {
		c.HarnessError("-race sub-process: " + res.Harness)
		return
	}
	if res.Trimmed < 6 {
		c.HarnessError(fmt.Sprintf("-race scenario is vacuous: %d trimmed outputs", res.Trimmed))
		return
	}
	p.States = int64(len(res.Outcomes))
	p.Transitions, p.Traces, p.Evals = int64(res.Runs), int64(res.Runs), int64(res.Runs)
	p.Bound("free_running_executions_of_Process", res.Runs)
	p.Bound("GOMAXPROCS", 8)
	p.Bound("race_reports_outside_block_processing_ignored", other)
	p.Outcome(fmt.Sprintf("distinct-results=%d", len(res.Outcomes)))
	p.Outcome(fmt.Sprintf("race-reports-in-block-processing=%d", len(races)))
	var keys []string
	for k := range races {
		keys = append(keys, k)
	}
	sort.Strings(keys)
	for _, k := range keys {
		k := k
		desc := "data race in block processing (free-running Process on the block that trims six outputs with one goroutine per denomination, race detector):\n" + races[k]
		if c.ConfirmSampling(desc, func() string {
			_, r2, _, _, _ := c06RunRace(bin, c.Tier)
			if _, ok := r2[k]; ok {
				return "trim-race:race:" + k
			}
			return ""
		}) {
			c.Violate("trim-race", "trim-race:race:"+k, desc, map[string]any{"race": k})
		}
	}
	if res.Differ != "" {
		c.Violate("trim-race", "trim-race:schedule-dependent", res.Differ, map[string]any{"race": "differ"})
	}
}

func c06RunRace(bin, tier string) (*c06RaceOut, map[string]string, int, string, error) {
	dir, err := os.MkdirTemp("", "vq-c06race")
	if err != nil {
		return nil, nil, 0, "", err
	}
	defer os.RemoveAll(dir)
	cmd := exec.Command(bin, "c06race", "--tier", tier)
	cmd.Env = append(os.Environ(), "VX_SHARD=", "VERIF_OUT="+filepath.Join(dir, "out"), "GOMAXPROCS=8",
		"GORACE=exitcode=0 halt_on_error=0 history_size=4 log_path="+filepath.Join(dir, "racelog"))
	raw, err := cmd.CombinedOutput()
	var res c06RaceOut
	found := false
	for _, l := range strings.Split(string(raw), "\n") {
		if strings.HasPrefix(l, "C06RACE-RESULT ") {
			if json.Unmarshal([]byte(strings.TrimPrefix(l, "C06RACE-RESULT ")), &res) == nil {
				found = true
			}
		}
	}
	tail := string(raw)
	if len(tail) > 1500 {
		tail = tail[len(tail)-1500:]
	}
	if !found {
		return nil, nil, 0, tail, err
	}
	races, other := c06ParseRaces(dir)
	return &res, races, other, tail, nil
}

func replayC06Race(c *vx.Ctx) string {
	bin := os.Getenv("VQ_BIN_vqr")
	if bin == "" {
		return "harness: -race build (vqr) not available"
	}
	res, races, _, tail, err := c06RunRace(bin, "quick")
	if res == nil {
		return fmt.Sprintf("harness: -race sub-process gave no result (%v): %s", err, tail)
	}
	var out []string
	for k, v := range races {
		out = append(out, "trim-race:race:"+k+"\n"+v)
	}
	if res.Differ != "" {
		out = append(out, res.Differ)
	}
	sort.Strings(out)
	return strings.Join(out, "\n")
}
