package main

// C19 part "race": drives cmd/vqrace (the same overlay built with -race, see checks.d/C19.sh).
// Each worker runs the race binary on its share of the event sequences and folds the JSON result
// into the part. NOT exhaustive: the Go scheduler picks the interleavings.

import (
	"bytes"
	"encoding/json"
	"fmt"
	"os"
	"os/exec"
	"path/filepath"
	"time"

	"github.com/dominant-strategies/go-quai/verifshim/vx"
)

type c19RaceViol struct {
	Key  string  `json:"key"`
	Desc string  `json:"desc"`
	Seq  []c19Ev `json:"seq"`
}

type c19RaceResult struct {
	Sequences int64            `json:"sequences"`
	Total     int64            `json:"total"`
	Depth     int              `json:"depth"`
	Alphabet  int              `json:"alphabet"`
	Outcomes  map[string]int64 `json:"outcomes"`
	Quiescent int              `json:"distinct_quiescent_states"`
	Viols     []c19RaceViol    `json:"viols"`
	Done      bool             `json:"done"`
	Next      int64            `json:"next"`
	Samples   []any            `json:"samples"`
	Err       string           `json:"err"`
}

var errC19RaceKilled = fmt.Errorf("race binary killed at its time limit")

func c19RunRaceBin(dir string, limit time.Duration, args ...string) (*c19RaceResult, string, error) {
	bin := os.Getenv("VQ_BIN_vqrace")
	if bin == "" {
		return nil, "", fmt.Errorf("VQ_BIN_vqrace is not set (checks.d/C19.sh did not build the -race binary)")
	}
	progress := filepath.Join(dir, fmt.Sprintf("progress-%d.json", time.Now().UnixNano()))
	args = append([]string{"-progress", progress}, args...)
	cmd := exec.Command(bin, args...)
	racelog := filepath.Join(dir, "racelog")
	cmd.Env = append(os.Environ(), "GORACE=exitcode=66 halt_on_error=0 log_path="+racelog, "C19_RACELOG="+racelog, "GOMAXPROCS=4")
	cmd.Dir = "/repo"
	var out, errb bytes.Buffer
	cmd.Stdout, cmd.Stderr = &out, &errb
	if err := cmd.Start(); err != nil {
		return nil, "", err
	}
	done := make(chan error, 1)
	go func() { done <- cmd.Wait() }()
	var werr error
	select {
	case werr = <-done:
	case <-time.After(limit):
		cmd.Process.Kill()
		<-done
		// fold in what it had done so far
		var res c19RaceResult
		if b, err := os.ReadFile(progress); err == nil && json.Unmarshal(b, &res) == nil {
			res.Done = false
			return &res, errb.String(), errC19RaceKilled
		}
		return &c19RaceResult{}, errb.String(), errC19RaceKilled
	}
	var res c19RaceResult
	if err := json.Unmarshal(bytes.TrimSpace(out.Bytes()), &res); err != nil {
		tail := errb.String()
		if len(tail) > 2000 {
			tail = tail[len(tail)-2000:]
		}
		return nil, tail, fmt.Errorf("race binary produced no result (%v): %s", werr, tail)
	}
	if res.Err != "" {
		return nil, "", fmt.Errorf("race binary: %s", res.Err)
	}
	return &res, errb.String(), nil
}

func c19Race(c *vx.Ctx, stopAt time.Time) {
	p := c.Part("race")
	p.Sampling("by construction: the Go scheduler picks the interleavings of the 3 goroutines and of the pool's own goroutines; sequences are enumerated, schedules are sampled")
	var found []c19RaceViol
	dir, err := os.MkdirTemp("/dev/shm", "vq-c19-race-")
	if err != nil {
		dir, err = os.MkdirTemp("", "vq-c19-race-")
	}
	if err == nil {
		defer os.RemoveAll(dir)
	}
	// runs on every exit path: the other workers wait for this worker's list of findings
	defer func() { c19RaceConfirm(c, dir, found) }()
	if err != nil {
		c.HarnessError(err.Error())
		return
	}
	// a minimum slice even if the sections parts overran theirs
	if min := time.Now().Add(14 * time.Second); stopAt.Before(min) {
		stopAt = min
	}
	type pass struct {
		depth int
		full  bool
	}
	passes := []pass{{3, false}}
	if c.Thorough() {
		passes = []pass{{3, true}, {4, false}}
	}
	seen := map[string]bool{}
	for pi, ps := range passes {
		from := int64(0)
		for restarts := 0; restarts < 4; restarts++ {
			if time.Now().After(stopAt) {
				p.Note("pass depth=%d full=%v: no time left", ps.depth, ps.full)
				break
			}
			limit := time.Until(stopAt) + 25*time.Second
			args := []string{"-depth", fmt.Sprint(ps.depth), "-shard", fmt.Sprintf("%d/%d", c.Shard, c.NShards), "-from", fmt.Sprint(from), "-stop", fmt.Sprint(stopAt.Unix())}
			if ps.full {
				args = append(args, "-full")
			}
			res, _, err := c19RunRaceBin(dir, limit, args...)
			if err == errC19RaceKilled {
				p.Note("pass depth=%d full=%v: the race binary was still running %v after its deadline and was killed (machine overloaded?); partial result used", ps.depth, ps.full, 25*time.Second)
				p.Outcome("race-binary-killed-at-deadline")
			} else if err != nil {
				c.HarnessError(err.Error())
				return
			}
			p.Evals += res.Sequences
			p.Traces += res.Sequences
			for k, v := range res.Outcomes {
				for i := int64(0); i < v; i++ {
					p.Outcome(k)
				}
			}
			for _, s := range res.Samples {
				p.Sample(s)
			}
			p.Bound(fmt.Sprintf("pass%d", pi), fmt.Sprintf("all %d^%d sequences of public-API events, 3 goroutines, universe full=%v", res.Alphabet, res.Depth, ps.full))
			for _, v := range res.Viols {
				if !seen[v.Key] {
					seen[v.Key] = true
					found = append(found, v)
				}
			}
			if res.Done || err == errC19RaceKilled {
				break
			}
			if !res.Done && res.Next > 0 && len(res.Viols) > 0 && time.Now().Before(stopAt) {
				from = res.Next // the binary gave up after a stall/panic: continue behind it
				continue
			}
			p.Note("pass depth=%d full=%v: at least one worker stopped at the deadline before finishing its share of the sequences", ps.depth, ps.full)
			break
		}
	}
}

// c19RaceConfirm: every worker publishes the keys it found; a key is confirmed (5 fresh processes,
// started together, each re-running the sequence until the finding shows) and reported by the
// lowest-numbered worker that found it.
func c19RaceConfirm(c *vx.Ctx, dir string, found []c19RaceViol) {
	mine := map[string]bool{}
	for _, v := range found {
		mine[v.Key] = true
	}
	if c.NShards > 1 {
		share := c19ShareDir(c) + "-race"
		os.MkdirAll(share, 0o755)
		var keys []string
		for k := range mine {
			keys = append(keys, k)
		}
		raw, _ := json.Marshal(keys)
		if err := c19WriteAtomic(filepath.Join(share, fmt.Sprintf("found.S%02d", c.Shard)), raw); err != nil {
			c.HarnessError(err.Error())
			return
		}
		giveUp := time.Now().Add(3 * time.Minute)
		for s := 0; s < c.Shard; s++ {
			b, err := c19WaitRead(filepath.Join(share, fmt.Sprintf("found.S%02d", s)), giveUp)
			if err != nil {
				// a slower worker on a loaded machine: keep our own findings (a key may then be confirmed twice)
				c.Transient("race part: " + err.Error())
				continue
			}
			var ks []string
			json.Unmarshal(b, &ks)
			for _, k := range ks {
				delete(mine, k) // a lower-numbered worker takes care of it
			}
		}
		// worker 0 removes the directory once every worker has finished confirming
		defer func() {
			c19WriteAtomic(filepath.Join(share, fmt.Sprintf("confirmed.S%02d", c.Shard)), nil)
			if c.Shard == 0 {
				giveUp := time.Now().Add(4 * time.Minute)
				for s := 0; s < c.NShards; s++ {
					c19WaitRead(filepath.Join(share, fmt.Sprintf("confirmed.S%02d", s)), giveUp)
				}
				os.RemoveAll(share)
			}
		}()
	}
	for _, v := range found {
		if !mine[v.Key] {
			continue
		}
		v := v
		results := make(chan string, 5)
		for i := 0; i < 5; i++ {
			go func() { results <- c19RaceRecheck(dir, v.Seq, v.Key) }()
		}
		if c.ConfirmSampling(v.Desc, func() string { return <-results }) {
			c.Violate("race", v.Key, v.Desc, c19Replay{Part: "race", Seq: v.Seq})
		}
	}
}

// c19RaceRecheck re-runs one sequence (up to 60 executions) and reports whether the same
// finding shows again.
func c19RaceRecheck(dir string, seq []c19Ev, key string) string {
	raw, _ := json.Marshal(seq)
	f := filepath.Join(dir, fmt.Sprintf("replay-%d.json", time.Now().UnixNano()))
	if err := os.WriteFile(f, raw, 0o644); err != nil {
		return ""
	}
	defer os.Remove(f)
	res, _, err := c19RunRaceBin(dir, 5*time.Minute, "-replay", f, "-repeat", "60", "-until", key)
	if err != nil {
		return ""
	}
	for _, v := range res.Viols {
		if v.Key == key {
			return key
		}
	}
	return ""
}

func c19RaceReplay(c *vx.Ctx, v vx.Violation, r c19Replay) string {
	dir, err := os.MkdirTemp("/dev/shm", "vq-c19-race-")
	if err != nil {
		return "harness: " + err.Error()
	}
	defer os.RemoveAll(dir)
	raw, _ := json.Marshal(r.Seq)
	f := filepath.Join(dir, "replay.json")
	os.WriteFile(f, raw, 0o644)
	res, _, err := c19RunRaceBin(dir, 10*time.Minute, "-replay", f, "-repeat", "200", "-until", v.Key)
	if err != nil {
		return "harness: " + err.Error()
	}
	for _, x := range res.Viols {
		if x.Key == v.Key {
			return "key=" + x.Key + "\n  " + x.Desc
		}
	}
	return ""
}
