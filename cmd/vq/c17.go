package main

// C17 — all storage backends are interchangeable.
//
// Explicit-state BFS over operation histories applied in lock-step to the REAL engines
// (leveldb, pebble, memorydb behind the rawdb wrapper, the rawdb table wrapper) and to a boring Go
// map model. A state is the history that reaches it; the successor is computed by replaying the
// history in a fresh key namespace on the (long-lived) engines and applying one more operation.
// States are deduplicated on the canonical MODEL state (store content, batch op list, tracking
// flag, second-batch op list) — two histories with the same model state have the same futures in
// the model, and every engine is compared with the model after every transition, so merging them
// cannot hide an engine divergence that a longer history through the merged state would not show.
// After every transition ALL observers are evaluated (Get/Has on every key, every
// (prefix,start) iteration, GetPending on every key, ValueSize sanity).

import (
	"bytes"
	"fmt"
	"os"
	"sort"
	"strings"
	"time"

	"github.com/dominant-strategies/go-quai/common"
	"github.com/dominant-strategies/go-quai/core/rawdb"
	"github.com/dominant-strategies/go-quai/ethdb"
	"github.com/dominant-strategies/go-quai/ethdb/leveldb"
	"github.com/dominant-strategies/go-quai/ethdb/pebble"
	"github.com/dominant-strategies/go-quai/verifshim/vx"
	"github.com/sirupsen/logrus"
	"io"
)

func init() {
	register(vx.CheckSpec{ID: "C17", Shards: 8, QuickBudget: 100 * time.Second, ThoroughBudg: 20 * time.Minute, Run: runC17, ReplayFn: replayC17})
}

// The key universe is switched per part (parts run one after the other in a process).
type c17Universe struct {
	Name     string
	Keys     []string
	Prefixes []string
	Starts   []string
	NoNS     bool // keys are used without a per-history namespace (needed for all-0xff prefixes)
}

var c17Universes = map[string]c17Universe{
	"lockstep": {Name: "lockstep", Keys: []string{"a", "ab", "b"}, Prefixes: []string{"", "a", "ab", "c"}, Starts: []string{"", "a", "ab", "b", "c"}},
	// prefixes that END in 0xff: the exclusive upper bound of such a prefix needs a carry ("a\xff" -> "b")
	"edge-bytes": {Name: "edge-bytes", Keys: []string{"a\xff", "a\xff\xff", "b"}, Prefixes: []string{"", "a", "a\xff", "a\xff\xff", "b"}, Starts: []string{"", "\xff", "b"}},
	// prefixes made of 0xff only have NO upper bound; they can only be formed without a namespace
	"edge-bytes-root": {Name: "edge-bytes-root", Keys: []string{"\xff", "\xff\xff", "\xff\xff\x00"}, Prefixes: []string{"\xff", "\xff\xff"}, Starts: []string{"", "\x00", "\xff"}, NoNS: true},
}

var c17U = c17Universes["lockstep"]
var c17Keys = c17U.Keys
var c17Vals = []string{"v1", "v2", ""}

func c17Use(name string) {
	c17U = c17Universes[name]
	c17Keys = c17U.Keys
}

type c17Op struct {
	Kind string // put del bput bdel track bwrite breset replaydb replayb2 b2write
	K    string
	V    string
}

// c17OpJSON is the artefact form of an operation: keys may hold bytes that are not UTF-8, so they
// travel in hex (millions of c17Op values are alive during the search: no extra field there).
type c17OpJSON struct {
	Kind string `json:"op"`
	V    string `json:"v,omitempty"`
	KHex string `json:"k_hex,omitempty"`
	OldK string `json:"k,omitempty"`
}

func (o c17Op) MarshalJSON() ([]byte, error) {
	return jsonMarshal(c17OpJSON{Kind: o.Kind, V: o.V, KHex: fmt.Sprintf("%x", o.K)})
}

func (o *c17Op) UnmarshalJSON(b []byte) error {
	var q c17OpJSON
	if err := jsonUnmarshal(b, &q); err != nil {
		return err
	}
	o.Kind, o.V, o.K = q.Kind, q.V, q.OldK
	if q.KHex != "" {
		var raw []byte
		fmt.Sscanf(q.KHex, "%x", &raw)
		o.K = string(raw)
	}
	return nil
}

func (o c17Op) String() string {
	switch o.Kind {
	case "put", "bput":
		return fmt.Sprintf("%s(%q,%q)", o.Kind, o.K, o.V)
	case "del", "bdel":
		return fmt.Sprintf("%s(%q)", o.Kind, o.K)
	}
	return o.Kind
}

func c17Alphabet() []c17Op {
	var ops []c17Op
	for _, k := range c17Keys {
		for _, v := range c17Vals {
			ops = append(ops, c17Op{Kind: "put", K: k, V: v})
		}
	}
	for _, k := range c17Keys {
		ops = append(ops, c17Op{Kind: "del", K: k})
	}
	for _, k := range c17Keys {
		for _, v := range c17Vals {
			ops = append(ops, c17Op{Kind: "bput", K: k, V: v})
		}
	}
	for _, k := range c17Keys {
		ops = append(ops, c17Op{Kind: "bdel", K: k})
	}
	for _, k := range []string{"track", "bwrite", "breset", "replaydb", "replayb2", "b2write"} {
		ops = append(ops, c17Op{Kind: k})
	}
	return ops
}

// ---- reference model ----
type kvop struct {
	del  bool
	k, v string
}
type c17Model struct {
	store    map[string]string
	batch    []kvop
	tracking bool
	pending  map[string]kvop // ops issued while tracking
	written  bool            // batch committed and not yet reset: only reset is enabled
	b2       []kvop
	b2writ   bool
}

func newC17Model() *c17Model {
	return &c17Model{store: map[string]string{}, pending: map[string]kvop{}}
}

func (m *c17Model) enabled(o c17Op) bool {
	switch o.Kind {
	case "bput", "bdel", "bwrite", "replaydb", "replayb2":
		if m.written {
			return false
		}
		if o.Kind == "replayb2" && m.b2writ {
			return false
		}
		if (o.Kind == "replaydb" || o.Kind == "replayb2" || o.Kind == "bwrite") && len(m.batch) == 0 {
			return o.Kind == "bwrite" // writing an empty batch is legal and interesting once
		}
		return true
	case "track":
		// tracking is switched on right after creation/reset, as the block processor does
		return !m.written && len(m.batch) == 0 && !m.tracking
	case "b2write":
		return !m.b2writ && len(m.b2) > 0
	}
	return true
}

func applyKV(store map[string]string, ops []kvop) {
	for _, o := range ops {
		if o.del {
			delete(store, o.k)
		} else {
			store[o.k] = o.v
		}
	}
}

func (m *c17Model) step(o c17Op) {
	switch o.Kind {
	case "put":
		m.store[o.K] = o.V
	case "del":
		delete(m.store, o.K)
	case "bput":
		m.batch = append(m.batch, kvop{false, o.K, o.V})
		if m.tracking {
			m.pending[o.K] = kvop{false, o.K, o.V}
		}
	case "bdel":
		m.batch = append(m.batch, kvop{true, o.K, ""})
		if m.tracking {
			m.pending[o.K] = kvop{true, o.K, ""}
		}
	case "track":
		m.tracking = true
		m.pending = map[string]kvop{}
	case "bwrite":
		applyKV(m.store, m.batch)
		m.written = true
		m.tracking = false
		m.pending = map[string]kvop{}
	case "breset":
		m.batch = nil
		m.written = false
		m.tracking = false
		m.pending = map[string]kvop{}
	case "replaydb":
		applyKV(m.store, m.batch)
	case "replayb2":
		m.b2 = append(m.b2, m.batch...)
	case "b2write":
		applyKV(m.store, m.b2)
		m.b2writ = true
	}
}

func (m *c17Model) key() string {
	var sb strings.Builder
	ks := make([]string, 0, len(m.store))
	for k := range m.store {
		ks = append(ks, k)
	}
	sort.Strings(ks)
	for _, k := range ks {
		fmt.Fprintf(&sb, "%s=%q;", k, m.store[k])
	}
	sb.WriteString("|B:")
	for _, o := range m.batch {
		fmt.Fprintf(&sb, "%v/%s/%q;", o.del, o.k, o.v)
	}
	fmt.Fprintf(&sb, "|t=%v w=%v|P:", m.tracking, m.written)
	pk := make([]string, 0, len(m.pending))
	for k := range m.pending {
		pk = append(pk, k)
	}
	sort.Strings(pk)
	for _, k := range pk {
		fmt.Fprintf(&sb, "%s:%v/%q;", k, m.pending[k].del, m.pending[k].v)
	}
	sb.WriteString("|B2:")
	for _, o := range m.b2 {
		fmt.Fprintf(&sb, "%v/%s/%q;", o.del, o.k, o.v)
	}
	fmt.Fprintf(&sb, "|w2=%v", m.b2writ)
	return sb.String()
}

// ---- engines ----
type c17Engine struct {
	name string
	db   ethdb.Database
}

func c17Logger() *logrus.Logger {
	l := logrus.New()
	l.SetOutput(io.Discard)
	l.ExitFunc = func(int) { panic("logger.Fatal called") }
	return l
}

func c17Open(dir string) ([]c17Engine, func(), error) {
	lg := c17Logger()
	loc := common.Location{0, 0}
	ldb, err := leveldb.New(dir+"/ldb", 16, 16, "", false, lg, loc)
	if err != nil {
		return nil, nil, err
	}
	pdb, err := pebble.New(dir+"/pdb", 16, 16, "", false, lg, loc)
	if err != nil {
		return nil, nil, err
	}
	mem := rawdb.NewMemoryDatabase(lg)
	tblBase := rawdb.NewMemoryDatabase(lg)
	tbl := rawdb.NewTable(tblBase, "tbl-", loc, lg)
	tblL := rawdb.NewTable(rawdb.NewDatabase(ldb), "T/", loc, lg) // table over leveldb shares the leveldb store under a disjoint prefix
	engs := []c17Engine{
		{"leveldb", rawdb.NewDatabase(ldb)},
		{"pebble", rawdb.NewDatabase(pdb)},
		{"memorydb", mem},
		{"table(memorydb)", tbl},
		{"table(leveldb)", tblL},
	}
	return engs, func() { ldb.Close(); pdb.Close(); mem.Close(); tblBase.Close() }, nil
}

// one path on one engine
type c17Run struct {
	e  c17Engine
	ns string
	b  ethdb.Batch
	b2 ethdb.Batch
}

func (r *c17Run) key(k string) []byte { return []byte(r.ns + k) }

func (r *c17Run) apply(o c17Op) error {
	switch o.Kind {
	case "put":
		return r.e.db.Put(r.key(o.K), []byte(o.V))
	case "del":
		return r.e.db.Delete(r.key(o.K))
	case "bput":
		return r.b.Put(r.key(o.K), []byte(o.V))
	case "bdel":
		return r.b.Delete(r.key(o.K))
	case "track":
		r.b.SetPending(true)
	case "bwrite":
		return r.b.Write()
	case "breset":
		r.b.Reset()
	case "replaydb":
		return r.b.Replay(r.e.db)
	case "replayb2":
		return r.b.Replay(r.b2)
	case "b2write":
		return r.b2.Write()
	}
	return nil
}

// observe returns a canonical rendering of everything observable through the interface.
func (r *c17Run) observe(sizeBefore int, o c17Op) string {
	var sb strings.Builder
	for _, k := range c17Keys {
		v, err := r.e.db.Get(r.key(k))
		has, herr := r.e.db.Has(r.key(k))
		if herr != nil {
			fmt.Fprintf(&sb, "has(%q)=ERR;", k)
		}
		if err != nil {
			fmt.Fprintf(&sb, "get(%q)=absent has=%v;", k, has)
		} else {
			fmt.Fprintf(&sb, "get(%q)=%q has=%v;", k, v, has)
		}
	}
	for _, pre := range c17U.Prefixes {
		for _, st := range c17U.Starts {
			it := r.e.db.NewIterator([]byte(r.ns+pre), []byte(st))
			fmt.Fprintf(&sb, "it(%q,%q)=[", pre, st)
			for it.Next() {
				k := it.Key()
				if !bytes.HasPrefix(k, []byte(r.ns)) {
					fmt.Fprintf(&sb, "FOREIGN-KEY %q,", k)
					continue
				}
				fmt.Fprintf(&sb, "%q=%q,", k[len(r.ns):], it.Value())
			}
			if it.Error() != nil {
				sb.WriteString("ERR")
			}
			it.Release()
			sb.WriteString("];")
		}
	}
	for _, k := range c17Keys {
		del, data := r.b.GetPending(r.key(k))
		fmt.Fprintf(&sb, "pend(%q)=%v,nil=%v,%q;", k, del, data == nil, data)
	}
	// ValueSize: the unit is engine-defined; the interface-level facts are 0 for a fresh/reset
	// batch and monotone growth while operations are queued.
	sz := r.b.ValueSize()
	switch o.Kind {
	case "breset":
		fmt.Fprintf(&sb, "size0=%v;", sz == 0)
	case "bput", "bdel":
		fmt.Fprintf(&sb, "sizemono=%v;", sz >= sizeBefore)
	}
	return sb.String()
}

func (m *c17Model) observe(o c17Op) string {
	var sb strings.Builder
	for _, k := range c17Keys {
		if v, ok := m.store[k]; ok {
			fmt.Fprintf(&sb, "get(%q)=%q has=true;", k, v)
		} else {
			fmt.Fprintf(&sb, "get(%q)=absent has=false;", k)
		}
	}
	ks := make([]string, 0, len(m.store))
	for k := range m.store {
		ks = append(ks, k)
	}
	sort.Strings(ks)
	for _, pre := range c17U.Prefixes {
		for _, st := range c17U.Starts {
			fmt.Fprintf(&sb, "it(%q,%q)=[", pre, st)
			for _, k := range ks {
				if strings.HasPrefix(k, pre) && k >= pre+st {
					fmt.Fprintf(&sb, "%q=%q,", k, m.store[k])
				}
			}
			sb.WriteString("];")
		}
	}
	for _, k := range c17Keys {
		if p, ok := m.pending[k]; ok && m.tracking {
			if p.del {
				fmt.Fprintf(&sb, "pend(%q)=true,nil=true,%q;", k, "")
			} else {
				fmt.Fprintf(&sb, "pend(%q)=false,nil=false,%q;", k, p.v)
			}
		} else {
			fmt.Fprintf(&sb, "pend(%q)=false,nil=true,%q;", k, "")
		}
	}
	switch o.Kind {
	case "breset":
		sb.WriteString("size0=true;")
	case "bput", "bdel":
		sb.WriteString("sizemono=true;")
	}
	return sb.String()
}

// execHistory replays hist on every engine in a fresh namespace and compares every step's
// observation with the model. It returns "" or a description of the first divergence.
type c17Div struct{ key, desc string }

func c17Exec(engs []c17Engine, nsid int64, hist []c17Op, p *vx.Part) (divs []c17Div) {
	ns := fmt.Sprintf("n%09d|", nsid)
	if c17U.NoNS {
		ns = ""
	}
	m := newC17Model()
	runs := make([]*c17Run, len(engs))
	for i, e := range engs {
		runs[i] = &c17Run{e: e, ns: ns, b: e.db.NewBatch(), b2: e.db.NewBatch()}
	}
	defer func() {
		for _, r := range runs {
			for _, k := range c17Keys {
				r.e.db.Delete(r.key(k))
			}
		}
	}()
	for step, o := range hist {
		m.step(o)
		want := m.observe(o)
		last := step == len(hist)-1
		for _, r := range runs {
			sizeBefore := r.b.ValueSize()
			var aerr error
			perr := vx.Guard(func() { aerr = r.apply(o) })
			if perr != "" {
				divs = append(divs, c17Div{fmt.Sprintf("%s:panic:%s", r.e.name, o.Kind), fmt.Sprintf("engine %s panicked at step %d (%v) of %v: %s", r.e.name, step, o, hist, perr)})
				return divs
			}
			if aerr != nil {
				divs = append(divs, c17Div{fmt.Sprintf("%s:error:%s", r.e.name, o.Kind), fmt.Sprintf("engine %s returned error at step %d (%v) of %v: %v", r.e.name, step, o, hist, aerr)})
				return divs
			}
			if !last {
				continue // prefixes were compared when they were frontier states themselves
			}
			got := r.observe(sizeBefore, o)
			if p != nil {
				p.Traces++
			}
			if got != want {
				divs = append(divs, c17Div{fmt.Sprintf("%s:%s", r.e.name, c17DiffClass(want, got)), fmt.Sprintf("engine %s diverges from the reference model after %v\n first difference: %s", r.e.name, hist, c17Diff(want, got))})
			}
		}
	}
	return divs
}

func c17Diff(want, got string) string {
	w, g := strings.Split(want, ";"), strings.Split(got, ";")
	for i := range w {
		if i >= len(g) || w[i] != g[i] {
			gg := "<missing>"
			if i < len(g) {
				gg = g[i]
			}
			return fmt.Sprintf("model %s / engine %s", w[i], gg)
		}
	}
	return "length"
}

// c17DiffClass names the observer that diverged (stable across inputs => usable as finding key).
func c17DiffClass(want, got string) string {
	d := c17Diff(want, got)
	d = strings.TrimPrefix(d, "model ")
	if i := strings.IndexAny(d, "(="); i > 0 {
		return d[:i]
	}
	return "obs"
}

func runC17(c *vx.Ctx) {
	c.Rule = "BFS over operation histories (alphabet of 30 DB/batch operations on three keys; three key universes: a/ab/b, keys and iterator prefixes ending in 0xff, un-namespaced all-0xff prefixes) deduplicated on the canonical reference-model state; every successor is executed on the 5 real engine configurations and all observers are compared with the model; outcome class = operation kind x observation shape"
	c.Assume("ValueSize units are engine-defined: only 'zero after reset' and monotone growth are compared")
	c.Assume("a committed batch is only reset afterwards (double Write / Put-after-Write are outside the interface contract: pebble panics by design)")
	c.Assume("pending tracking is switched on on an empty batch, as the block processor and the worker do")
	depth := 4
	if c.Thorough() {
		// depth 6 does not fit: every worker keeps the whole frontier of distinct model states and
		// eight of them outgrow the machine's memory (62 GB) before the level is finished
		depth = 5
	}
	dir, err := os.MkdirTemp("/dev/shm", "vq-c17-")
	if err != nil {
		dir, err = os.MkdirTemp("", "vq-c17-")
	}
	if err != nil {
		c.HarnessError(err.Error())
		return
	}
	defer os.RemoveAll(dir)
	engs, closeAll, err := c17Open(dir)
	if err != nil {
		c.HarnessError("open engines: " + err.Error())
		return
	}
	defer closeAll()

	unis := []struct {
		name  string
		depth int
	}{{"lockstep", depth}, {"edge-bytes", depth - 1}, {"edge-bytes-root", depth - 1}}
	// (the edge-byte universes are about the observers - iterator bounds - and run one level shallower)
	for _, u := range unis {
		if !c.Wants(u.name) {
			continue
		}
		c17Use(u.name)
		c17BFS(c, u.name, u.depth, engs)
	}
	c17Use("lockstep")
}

type c17Replay struct {
	Universe string  `json:"universe"`
	Hist     []c17Op `json:"history"`
}

func c17BFS(c *vx.Ctx, part string, depth int, engs []c17Engine) {
	p := c.Part(part)
	p.Bound("depth", depth)
	p.Bound("keys", fmt.Sprintf("%q", c17Keys))
	p.Bound("iterator_prefixes", fmt.Sprintf("%q", c17U.Prefixes))
	p.Bound("iterator_starts", fmt.Sprintf("%q", c17U.Starts))
	p.Bound("values", c17Vals)
	names := []string{}
	for _, e := range engs {
		names = append(names, e.name)
	}
	p.Bound("engines", names)
	alpha := c17Alphabet()

	type node struct{ hist []c17Op }
	seen := map[string]bool{newC17Model().key(): true}
	frontier := []node{{nil}}
	var nsid int64
	reported := map[string]bool{}
	p.States = 1
	for d := 1; d <= depth && len(frontier) > 0; d++ {
		var next []node
		for _, nd := range frontier {
			if c.Expired() {
				p.Incomplete(fmt.Sprintf("deadline at depth %d", d))
				return
			}
			// model state at nd
			m := newC17Model()
			for _, o := range nd.hist {
				m.step(o)
			}
			for _, o := range alpha {
				if !m.enabled(o) {
					continue
				}
				m2 := newC17Model()
				hist := append(append([]c17Op{}, nd.hist...), o)
				for _, x := range hist {
					m2.step(x)
				}
				k := m2.key()
				nsid++
				// every transition is executed on the engines by exactly one shard
				if c.Mine(nsid) {
					p.Transitions++
					divs := c17Exec(engs, nsid, hist, p)
					p.Outcome(o.Kind + fmt.Sprintf("/store%d/batch%d/track=%v", len(m2.store), len(m2.batch), m2.tracking))
					for _, dv := range divs {
						if reported[dv.key] {
							continue
						}
						reported[dv.key] = true
						id := nsid
						dv := dv
						if c.Confirm(dv.desc, func() string {
							id += 1 << 30
							for _, x := range c17Exec(engs, id, hist, nil) {
								if x.key == dv.key {
									return x.key
								}
							}
							return ""
						}) {
							c.Violate(part, dv.key, dv.desc, c17Replay{Universe: part, Hist: hist})
						}
					}
					if len(divs) == 0 && len(hist) == depth {
						p.Sample(fmt.Sprint(hist))
					}
				}
				if !seen[k] {
					seen[k] = true
					next = append(next, node{hist})
				}
			}
		}
		p.MaxDepth = int64(d)
		frontier = next
	}
	if c.Shard == 0 {
		p.States = int64(len(seen))
	} else {
		p.States = 0
	}
}

func replayC17(c *vx.Ctx, v vx.Violation) string {
	raw, _ := jsonMarshal(v.Replay)
	var hist []c17Op
	var rp c17Replay
	if err := jsonUnmarshal(raw, &rp); err == nil && rp.Universe != "" {
		hist = rp.Hist
		c17Use(rp.Universe)
		defer c17Use("lockstep")
	} else if err := jsonUnmarshal(raw, &hist); err != nil {
		return "bad replay: " + err.Error()
	}
	dir, _ := os.MkdirTemp("/dev/shm", "vq-c17-")
	defer os.RemoveAll(dir)
	engs, closeAll, err := c17Open(dir)
	if err != nil {
		return "harness: " + err.Error()
	}
	defer closeAll()
	// compare at every prefix
	for i := 1; i <= len(hist); i++ {
		for _, d := range c17Exec(engs, int64(i), hist[:i], nil) {
			if d.key == v.Key {
				return d.desc
			}
		}
	}
	return ""
}
