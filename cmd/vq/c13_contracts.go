package main

// C13 part "contracts": contract-held coinbase lockups.
//
// Two forwarding contracts X and Y (runtime: CALL the lockup precompile with the calldata) are
// deployed on a real 3-level node. For every assignment of miner kinds {plain, via X lock 0, via X
// lock 1, via Y lock 0} to K blocks, rewards travel to the zone and are accumulated by the real
// AddNewLock; at three later heights EVERY (contract, lock byte, epoch) claim is issued — twice in
// the same block — through the real transaction path. A model of the lockup ledger
// (key (contract, miner, byte, epoch) -> balance, elements, tranche unlock height) is stepped with
// every executed coinbase ETX and every claim:
//   accumulate:  after every block the scan of the lockup prefix equals the model;
//   claim:       a claim emits an ETX iff the model has the record, the epoch is closed and the
//                tranche height is reached; it pays exactly the accumulated balance to the named
//                recipient, removes the record, and the same claim repeated emits nothing;
//                a claim through the other contract never touches X's records.

import (
	"encoding/binary"
	"fmt"
	"math/big"
	"os"
	"sort"

	"github.com/dominant-strategies/go-quai/common"
	"github.com/dominant-strategies/go-quai/core"
	"github.com/dominant-strategies/go-quai/core/types"
	"github.com/dominant-strategies/go-quai/crypto"
	"github.com/dominant-strategies/go-quai/params"
	"github.com/dominant-strategies/go-quai/verifshim/vx"
)

var c13CKinds = []string{"plain", "X-lock0", "X-lock1", "Y-lock0"}

const c13CPattern = "zpzzpzpzpzpzpzpzzpzzpzzzpzzz"
const c13COffset = 5 // assigned blocks start here (contracts are deployed in blocks 3 and 4)

type c13Rec struct {
	bal    *big.Int
	elems  uint16
	unlock uint32
}

func c13LockKey(owner, miner common.Address, lb byte, epoch uint32) string {
	return fmt.Sprintf("%x/%x/%d/%d", owner.Bytes(), miner.Bytes(), lb, epoch)
}

// forwarding contract: init code returning the runtime; a trailing salt grinds the address
func c13ForwarderInit(precompile common.Address, from common.Address, nonce uint64) ([]byte, common.Address) {
	rt := []byte{0x36, 0x60, 0x00, 0x60, 0x00, 0x37, 0x60, 0x00, 0x60, 0x00, 0x36, 0x60, 0x00, 0x60, 0x00, 0x73}
	rt = append(rt, precompile.Bytes()...)
	rt = append(rt, 0x5a, 0xf1, 0x60, 0x00, 0x52, 0x60, 0x20, 0x60, 0x00, 0xf3)
	// init: PUSH1 len PUSH1 off PUSH1 0 CODECOPY PUSH1 len PUSH1 0 RETURN
	initHdr := []byte{0x60, byte(len(rt)), 0x60, 12, 0x60, 0x00, 0x39, 0x60, byte(len(rt)), 0x60, 0x00, 0xf3}
	base := append(initHdr, rt...)
	for salt := 0; salt < 1<<20; salt++ {
		code := append(append([]byte{}, base...), byte(salt>>16), byte(salt>>8), byte(salt))
		a := crypto.CreateAddress(from, nonce, code, core.VZoneLoc)
		b := a.Bytes()
		if b[0] == 0 && b[1]&0x80 == 0 {
			return code, a
		}
	}
	panic("harness: cannot grind forwarder address")
}

// c13Siblings: every block of the history is first followed as b1 and then reorganised away in
// favour of its sibling b2 (scen.forkAll): rewards, lockups, unlocks and claims of every block are
// rolled back once before they count. Set per execution by the part loops.
var c13Siblings bool

func c13CRun(kinds []int) (string, string, string) {
	u := c13Universe()
	s, err := newScen(3, false, nil)
	if err == nil {
		s.forkAll = c13Siblings
	}
	if err != nil {
		return "harness", err.Error(), ""
	}
	defer s.close()
	pre := core.VLockupPrecompile()
	var X, Y common.Address
	model := map[string]*c13Rec{}
	type keyParts struct {
		owner, miner common.Address
		lb           byte
		epoch        uint32
	}
	parts := map[string]keyParts{}
	recipient := s.k[1].Addr
	claimHeights := map[uint64]bool{17: true, 21: true, 25: true}
	claimsOK, claimsNo := 0, 0
	for i := 0; i < len(c13CPattern); i++ {
		o := core.VBuildOpts{Fill: true}
		switch c13CPattern[i] {
		case 'z':
			o.Order = 2
		case 'p':
			o.Order = 0
		}
		cb := u.m[2].Addr
		kind := 0
		if i >= c13COffset && i < c13COffset+len(kinds) {
			kind = kinds[i-c13COffset]
			cb = u.m[0].Addr
		}
		o.Coinbase = &cb
		switch c13CKinds[kind] {
		case "X-lock0":
			o.CoinbaseData = append([]byte{0}, X.Bytes()...)
		case "X-lock1":
			o.CoinbaseData = append([]byte{1}, X.Bytes()...)
			o.LockByte = 1
		case "Y-lock0":
			o.CoinbaseData = append([]byte{0}, Y.Bytes()...)
		}
		h := s.n.Heads[2].NumberU64(2) + 1
		// deployments
		if i == 2 || i == 3 {
			n := s.nonce(s.k[1])
			code, addr := c13ForwarderInit(pre, s.k[1].Addr, n)
			tx := s.n.QuaiTxAL(s.k[1], n, nil, big.NewInt(0), 1000000, scenPrice, code, types.AccessList{{Address: addr}})
			if errs := s.n.AddTxs(tx); errs[0] != nil {
				return "harness", "deploy refused: " + errs[0].Error(), ""
			}
			if i == 2 {
				X = addr
			} else {
				Y = addr
			}
		}
		// claims: every (contract, byte, epoch) twice
		type claim struct {
			tx  *types.Transaction
			key string
		}
		var claims []claim
		if claimHeights[h] {
			n := s.nonce(s.k[0])
			latest := uint32(h/params.CoinbaseEpochBlocks) + 1
			for _, owner := range []common.Address{X, Y} {
				for _, lb := range []byte{0, 1} {
					for ep := uint32(1); ep <= latest; ep++ {
						for rep := 0; rep < 2; rep++ {
							in := append(append([]byte{}, u.m[0].Addr.Bytes()...), recipient.Bytes()...)
							in = append(in, lb)
							eb := make([]byte, 4)
							binary.BigEndian.PutUint32(eb, ep)
							in = append(in, eb...)
							gb := make([]byte, 8)
							binary.BigEndian.PutUint64(gb, 21000)
							in = append(in, gb...)
							to := owner
							tx := s.n.QuaiTxAL(s.k[0], n, &to, big.NewInt(0), 150000, scenPrice, in, types.AccessList{{Address: pre}}) // opCall demands the callee in the access list
							n++
							claims = append(claims, claim{tx, c13LockKey(owner, u.m[0].Addr, lb, ep)})
						}
					}
				}
			}
			var txs []*types.Transaction
			for _, c := range claims {
				txs = append(txs, c.tx)
			}
			for j, e := range s.n.AddTxs(txs...) {
				if e != nil {
					return "harness", fmt.Sprintf("claim tx %d refused by the pool: %v", j, e), ""
				}
			}
		}
		blk, err := s.mine(o)
		if err != nil {
			return "own-block-rejected", fmt.Sprintf("kinds %v step %d: %v", kinds, i, err), ""
		}
		if (i == 2 || i == 3) && len(blk.Transactions()) == 0 {
			return "harness", "deployment not included", ""
		}
		if i == 2 || i == 3 {
			addr := X
			if i == 3 {
				addr = Y
			}
			if len(s.n.VCode(addr)) == 0 {
				rs := s.n.VReceipts(blk)
				st := "?"
				if len(rs) > 0 {
					st = fmt.Sprintf("status=%d gas=%d", rs[len(rs)-1].Status, rs[len(rs)-1].GasUsed)
				}
				return "harness", fmt.Sprintf("forwarder deployment left no code at %s (%s)", addr.Hex(), st), ""
			}
		}
		// ---- model step 1: executed coinbase ETXs with contract data, claims, in block order
		emittedBy := map[common.Hash][]*types.Transaction{}
		for _, e := range blk.OutboundEtxs() {
			if e.EtxType() == types.CoinbaseLockupType {
				emittedBy[e.OriginatingTxHash()] = append(emittedBy[e.OriginatingTxHash()], e)
			}
		}
		if os.Getenv("VQ_TRACE") != "" && len(claims) > 0 {
			for _, e := range blk.OutboundEtxs() {
				fmt.Printf("   out etx type=%d origin=%x idx=%d val=%v to=%x\n", e.EtxType(), e.OriginatingTxHash().Bytes()[:5], e.ETXIndex(), e.Value(), e.To().Bytes()[:3])
			}
			rs := s.n.VReceipts(blk)
			for j, t := range blk.Transactions() {
				if j < len(rs) && t.Type() == types.QuaiTxType {
					fmt.Printf("   tx %x status=%d gas=%d etxs=%d\n", t.Hash().Bytes()[:5], rs[j].Status, rs[j].GasUsed, len(rs[j].OutboundEtxs))
				}
			}
		}
		claimByHash := map[common.Hash]claim{}
		for _, c := range claims {
			claimByHash[c.tx.Hash()] = c
		}
		included := 0
		for _, t := range blk.Transactions() {
			if t.Type() == types.ExternalTxType && types.IsCoinBaseTx(t) && len(t.Data()) == 1+common.AddressLength+common.HashLength && t.To().IsInQuaiLedgerScope() {
				lb := t.Data()[0]
				owner := common.BytesToAddress(t.Data()[1:21], core.VZoneLoc)
				if !owner.Equal(X) && !owner.Equal(Y) {
					continue
				}
				depth := params.LockupByteToBlockDepth[lb]
				epoch := uint32(h/params.CoinbaseEpochBlocks) + 1
				k := c13LockKey(owner, *t.To(), lb, epoch)
				val := params.CalculateCoinbaseValueWithLockup(t.Value(), lb, h)
				r := model[k]
				if r == nil {
					ul := h + depth
					r = &c13Rec{bal: new(big.Int), unlock: uint32(ul - ul%params.CoinbaseEpochBlocks)}
					model[k] = r
					parts[k] = keyParts{owner, *t.To(), lb, epoch}
				}
				r.bal.Add(r.bal, val)
				r.elems++
			}
			if c, ok := claimByHash[t.Hash()]; ok {
				included++
				r := model[c.key]
				latest := uint32(h/params.CoinbaseEpochBlocks) + 1
				expect := r != nil && parts[c.key].epoch < latest && uint64(r.unlock) <= h
				got := emittedBy[t.Hash()]
				if expect && len(got) != 1 {
					return "claim:refused-although-due", fmt.Sprintf("kinds %v: at height %d the claim of record %s (balance %v, unlock %d) emitted %d ETXs", kinds, h, c.key, r.bal, r.unlock, len(got)), ""
				}
				if !expect && len(got) != 0 {
					why := "no such record"
					if r != nil {
						why = fmt.Sprintf("record has unlock %d / epoch %d at height %d", r.unlock, parts[c.key].epoch, h)
					}
					return "claim:paid-although-not-due", fmt.Sprintf("kinds %v: at height %d a claim on %s emitted an ETX of %v (%s)", kinds, h, c.key, got[0].Value(), why), ""
				}
				if expect {
					if got[0].Value().Cmp(r.bal) != 0 {
						return "claim:amount", fmt.Sprintf("kinds %v: claim of %s pays %v, accumulated balance is %v", kinds, c.key, got[0].Value(), r.bal), ""
					}
					if !got[0].To().Equal(recipient) {
						return "claim:recipient", fmt.Sprintf("claim of %s pays %s", c.key, got[0].To().Hex()), ""
					}
					delete(model, c.key)
					claimsOK++
				} else {
					claimsNo++
				}
			}
		}
		if len(claims) > 0 && included != len(claims) {
			return "harness", fmt.Sprintf("only %d of %d claim txs were included at height %d", included, len(claims), h), ""
		}
		// ---- accumulate: scan == model
		scan, err := core.VScanLockups(s.n.DB[2], core.VZoneLoc)
		if err != nil {
			return "harness", err.Error(), ""
		}
		got := map[string]string{}
		for _, l := range scan {
			got[c13LockKey(l.Owner, l.Miner, l.LockByte, l.Epoch)] = fmt.Sprintf("%v/%d/%d", l.Balance, l.Elements, l.Unlock)
		}
		want := map[string]string{}
		for k, r := range model {
			want[k] = fmt.Sprintf("%v/%d/%d", r.bal, r.elems, r.unlock)
		}
		if d := c01MapDiff(got, want); d != "" {
			return "accumulate:ledger-differs", fmt.Sprintf("kinds %v: after block %d the stored lockup records differ from the model: %s", kinds, h, d), ""
		}
	}
	var ks []string
	for k := range model {
		ks = append(ks, k)
	}
	sort.Strings(ks)
	return "", "", fmt.Sprintf("claims-paid=%d,claims-refused=%d,records-left=%d", claimsOK, claimsNo, len(ks))
}

func c13Contracts(c *vx.Ctx) {
	p := c.Part("contracts")
	k := 3
	if c.Thorough() {
		k = 4
	}
	p.Bound("assigned_blocks", k)
	p.Bound("kinds", c13CKinds)
	p.Bound("pattern", c13CPattern)
	p.Bound("variants", "plain history; every block as two siblings (b1 followed, then reorganised away for b2)")
	var as [][]int
	var rec func(cur []int)
	rec = func(cur []int) {
		if len(cur) == k {
			as = append(as, append([]int{}, cur...))
			return
		}
		for i := range c13CKinds {
			rec(append(cur, i))
		}
	}
	rec(nil)
	// plus the histories in which EVERY block from the offset on is mined through one contract and
	// lock byte: rewards of several blocks then arrive together and accumulate into a tranche that an
	// earlier block opened (two and more updates of one record inside one block)
	for kind := 1; kind < len(c13CKinds); kind++ {
		long := make([]int, len(c13CPattern)-c13COffset)
		for i := range long {
			long[i] = kind
		}
		as = append(as, long)
	}
	if c.Shard == 0 {
		p.States = int64(len(as))
	}
	for i, a := range as {
		if !c.Mine(int64(i)) {
			continue
		}
		if c.Expired() {
			p.Incomplete("deadline")
			return
		}
		plainKey := ""
		for _, sib := range []bool{false, true} {
			sib := sib
			run := func() (k, d, cl string) {
				c13Siblings = sib
				defer func() { c13Siblings = false }()
				if perr := vx.Guard(func() { k, d, cl = c13CRun(a) }); perr != "" {
					k, d = "panic:"+vx.PanicSite(perr), fmt.Sprintf("kinds %v: %s", a, perr)
				}
				return
			}
			key, desc, cls := run()
			if key == "harness" {
				c.HarnessError(fmt.Sprintf("contracts %v (siblings=%v): %s", a, sib, desc))
				return
			}
			p.Transitions += int64(len(c13CPattern))
			p.Traces++
			tag := ""
			if sib {
				tag = "siblings:"
				if key != "" && key == plainKey {
					p.Outcome("siblings:same-failure-as-plain-history")
					continue
				}
			} else {
				plainKey = key
			}
			if key != "" {
				p.Outcome("VIOLATED:" + tag + key)
				a := a
				if sib {
					desc = "every block first followed as b1, then reorganised away for its sibling b2: " + desc
				}
				if c.Confirm(desc, func() string { k, _, _ := run(); return k }) {
					c.Violate("contracts", "contracts:"+tag+key, desc, map[string]any{"kinds": a, "siblings": sib})
				}
				continue
			}
			p.Outcome(tag + cls)
			if i%11 == 0 && !sib {
				var names []string
				for _, x := range a {
					names = append(names, c13CKinds[x])
				}
				p.Sample(map[string]any{"kinds": names, "result": cls})
			}
		}
	}
}

func init() {
	register(vx.CheckSpec{ID: "c13cdbg", Shards: 1, Run: func(c *vx.Ctx) {
		core.VScaleParams(core.VR1)
		core.VScaleLockBytes()
		p := c.Part("dbg")
		p.States = 1
		k, d, cls := c13CRun([]int{0, 2, 0})
		fmt.Println("RESULT", k, d, cls)
	}})
}
