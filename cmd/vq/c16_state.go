package main

import (
	"encoding/binary"
	"fmt"
	"math/big"
	"os"
	"regexp"
	"runtime/pprof"

	"github.com/dominant-strategies/go-quai/common"
	"github.com/dominant-strategies/go-quai/core"
	"github.com/dominant-strategies/go-quai/core/rawdb"
	"github.com/dominant-strategies/go-quai/core/state"
	"github.com/dominant-strategies/go-quai/core/vm"
	"github.com/dominant-strategies/go-quai/crypto"
	"github.com/dominant-strategies/go-quai/params"
	"github.com/dominant-strategies/go-quai/trie"
	"github.com/dominant-strategies/go-quai/verifshim/vx"
	"github.com/holiman/uint256"
	"github.com/sirupsen/logrus"
)

// ---- operations ----

type c16Op struct {
	K string `json:"op"`
	A string `json:"arg,omitempty"` // address class / program name / salt name
}

func (o c16Op) String() string {
	if o.A == "" {
		return o.K
	}
	return o.K + "(" + o.A + ")"
}

type c16StateCase struct {
	Loc    []int   `json:"node_location"`
	Regime string  `json:"regime"`
	Hist   []c16Op `json:"history"`
}

var c16DirectKinds = []string{"AddBalance1", "AddBalance0", "SubBalance0", "SetBalance", "SetNonce", "SetCode", "SetState", "CreateAccount", "Suicide", "GetOrNewStateObject"}

// tiny init code: returns the 1-byte runtime code 0x00
var c16InitCode = []byte{0x60, 0x00, 0x60, 0x00, 0x53, 0x60, 0x01, 0x60, 0x00, 0xf3}

// init code that reverts
var c16InitRevert = []byte{0x60, 0x00, 0x60, 0x00, 0xfd}

type c16World struct {
	loc     common.Location
	regime  string
	lg      *logrus.Logger
	cfg     *params.ChainConfig
	db      state.Database
	etxDb   state.Database
	base    common.Hash
	cls     map[string][20]byte // address classes
	clsOrd  []string
	forged  map[string]common.Address // Address objects whose kind contradicts their bytes (built by the real BytesToAddress)
	forgOrd []string
	progs   map[string][20]byte // pre-installed contracts
	progOrd []string
	salts   map[string][32]byte
	saltOrd []string
	alpha   []c16Op
	block   uint64
	known   map[common.Hash][20]byte
}

func c16Push20(a [20]byte) []byte { return append([]byte{0x73}, a[:]...) }

func c16CodeSuicide(a [20]byte) []byte { return append(c16Push20(a), 0xff) }
func c16CodeCall(a [20]byte, value byte) []byte {
	c := []byte{0x60, 0x00, 0x60, 0x00, 0x60, 0x00, 0x60, 0x00, 0x60, value}
	c = append(c, c16Push20(a)...)
	return append(c, 0x5a, 0xf1, 0x00)
}
func c16CodeCreate() []byte {
	c := append([]byte{0x69}, c16InitCode...) // PUSH10 initcode
	return append(c, 0x60, 0x00, 0x52, 0x60, 0x0a, 0x60, 0x16, 0x60, 0x00, 0xf0, 0x00)
}
func c16CodeCreate2(salt [32]byte) []byte {
	c := append([]byte{0x69}, c16InitCode...)
	c = append(c, 0x60, 0x00, 0x52, 0x7f)
	c = append(c, salt[:]...)
	return append(c, 0x60, 0x0a, 0x60, 0x16, 0x60, 0x00, 0xf5, 0x00)
}

// reference derivation of the CREATE2 address (only used to pick salts of each class)
func c16RefCreate2(caller [20]byte, salt [32]byte, init []byte) []byte {
	return crypto.Keccak256([]byte{0xff}, caller[:], salt[:], crypto.Keccak256(init))[12:]
}

func c16AddrClass(b []byte, loc common.Location) string {
	if len(b) != 20 {
		return fmt.Sprintf("len%d", len(b))
	}
	z, l := "foreign", "quai"
	if c16RefInternal(b, loc) {
		z = "in-zone"
	}
	if c16RefQi(b) {
		l = "qi"
	}
	return z + "-" + l
}

func c16NewWorld(loc common.Location, regime string) (*c16World, error) {
	w := &c16World{loc: loc, regime: regime, lg: c16Logger(), cls: map[string][20]byte{}, forged: map[string]common.Address{}, progs: map[string][20]byte{}, salts: map[string][32]byte{}, known: map[common.Hash][20]byte{}}
	cfg := *params.TestChainConfig
	cfg.Location = loc
	w.cfg = &cfg
	w.block = 1
	if regime == "post-forks" {
		w.block = 50_000_000
	}
	vm.InitializePrecompiles(loc)
	pre := loc[0]<<4 | loc[1]
	oth := pre ^ 0x10
	mk := func(b0, b1, fill byte) (a [20]byte) {
		a[0], a[1] = b0, b1
		for i := 2; i < 20; i++ {
			a[i] = fill
		}
		return a
	}
	add := func(n string, a [20]byte) { w.cls[n] = a; w.clsOrd = append(w.clsOrd, n) }
	add("inQuaiA", mk(pre, 0x00, 0xa1))
	add("inQuaiB", mk(pre, 0x7f, 0xb2))
	add("inQi", mk(pre, 0x80, 0xc3))
	add("forQuai", mk(oth, 0x00, 0xd4))
	add("forQi", mk(oth, 0xff, 0xe5))
	add("zero", [20]byte{})
	// Address objects as the real constructors hand them out for over-long wire input: the kind is
	// taken from the first (cropped) byte, the bytes held are the last 20.
	fq, iq := w.cls["forQuai"], w.cls["inQuaiB"]
	w.forged["forged-internal(forQuai)"] = common.BytesToAddress(append([]byte{pre}, fq[:]...), loc)
	w.forged["forged-external(inQuaiB)"] = common.BytesToAddress(append([]byte{oth}, iq[:]...), loc)
	w.forgOrd = []string{"forged-internal(forQuai)", "forged-external(inQuaiB)"}

	w.db = state.NewDatabaseWithConfig(rawdb.NewMemoryDatabase(w.lg), &trie.Config{Preimages: true})
	w.etxDb = state.NewDatabaseWithConfig(rawdb.NewMemoryDatabase(w.lg), &trie.Config{Preimages: true})
	s, err := state.New(common.Hash{}, common.Hash{}, new(big.Int), w.db, w.etxDb, nil, loc, w.lg)
	if err != nil {
		return nil, err
	}
	caller := common.InternalAddress(w.cls["inQuaiA"])
	s.AddBalance(caller, new(big.Int).Exp(big.NewInt(10), big.NewInt(30), nil))
	// salts: one per class of the resulting CREATE2 address, for the EOA caller and for the program
	idx := byte(0)
	prog := func(name string, code []byte) [20]byte {
		idx++
		a := mk(pre, 0x01, idx)
		w.progs[name] = a
		w.progOrd = append(w.progOrd, name)
		s.SetCode(common.InternalAddress(a), code)
		s.SetNonce(common.InternalAddress(a), 1)
		s.AddBalance(common.InternalAddress(a), big.NewInt(1000))
		return a
	}
	for _, n := range w.clsOrd {
		prog("suicide->"+n, c16CodeSuicide(w.cls[n]))
	}
	for _, n := range w.clsOrd {
		prog("call1->"+n, c16CodeCall(w.cls[n], 1))
	}
	prog("create", c16CodeCreate())
	findSalt := func(caller [20]byte, want string) (salt [32]byte) {
		for i := uint64(0); i < 1<<20; i++ {
			binary.BigEndian.PutUint64(salt[24:], i)
			if c16AddrClass(c16RefCreate2(caller, salt, c16InitCode), loc) == want {
				return salt
			}
		}
		panic("no salt found")
	}
	for _, want := range []string{"in-zone-quai", "in-zone-qi", "foreign-quai"} {
		w.salts[want] = findSalt(w.cls["inQuaiA"], want)
		w.saltOrd = append(w.saltOrd, want)
		// the program's own address is the CREATE2 caller
		idx++
		pa := mk(pre, 0x01, idx)
		idx--
		prog("create2->"+want, c16CodeCreate2(findSalt(pa, want)))
	}
	w.learn(s)
	root, err := s.Commit(true)
	if err != nil {
		return nil, err
	}
	w.base = root
	// alphabet, simplest first
	for _, k := range c16DirectKinds {
		for _, n := range w.clsOrd {
			w.alpha = append(w.alpha, c16Op{k, n})
		}
	}
	for _, k := range []string{"Call0", "Call1"} {
		for _, n := range append(append([]string{}, w.clsOrd...), w.forgOrd...) {
			w.alpha = append(w.alpha, c16Op{k, n})
		}
	}
	for _, n := range append(append([]string{}, w.clsOrd...), w.forgOrd...) {
		w.alpha = append(w.alpha, c16Op{"Create", n})
	}
	w.alpha = append(w.alpha, c16Op{"CreateRevert", "inQuaiA"})
	for _, n := range w.saltOrd {
		w.alpha = append(w.alpha, c16Op{"Create2", n})
	}
	w.alpha = append(w.alpha, c16Op{"Create2From", "forQuai"}, c16Op{"Create2From", "inQi"}, c16Op{"Create2From", "forged-internal(forQuai)"})
	for _, n := range w.progOrd {
		w.alpha = append(w.alpha, c16Op{"Run", n})
	}
	for _, k := range []string{"Snapshot", "Revert", "Finalize", "IntermediateRoot", "Commit"} {
		w.alpha = append(w.alpha, c16Op{K: k})
	}
	return w, nil
}

func (w *c16World) open(root common.Hash) (*state.StateDB, error) {
	s, err := state.New(root, common.Hash{}, new(big.Int), w.db, w.etxDb, nil, w.loc, w.lg)
	if err != nil {
		return nil, err
	}
	s.ConfigureAccessListChecks(false)
	return s, nil
}

func (w *c16World) addr(name string) common.Address {
	if a, ok := w.forged[name]; ok {
		return a
	}
	return common.Bytes20ToAddress(w.cls[name], w.loc)
}

func (w *c16World) evm(s *state.StateDB) *vm.EVM {
	bc := vm.BlockContext{
		CanTransfer:         core.CanTransfer,
		Transfer:            core.Transfer,
		GetHash:             func(uint64) common.Hash { return common.Hash{} },
		CheckIfEtxEligible:  func(common.Hash, common.Location) bool { return true },
		PrimaryCoinbase:     w.addr("inQuaiA"),
		GasLimit:            30_000_000,
		BlockNumber:         new(big.Int).SetUint64(w.block),
		Time:                big.NewInt(1_700_000_000),
		Difficulty:          big.NewInt(1000),
		BaseFee:             big.NewInt(1),
		QuaiStateSize:       big.NewInt(0),
		PrimeTerminusNumber: w.block,
	}
	tc := vm.TxContext{Origin: w.addr("inQuaiA"), GasPrice: big.NewInt(1), Hash: common.BytesToHash([]byte{0x16})}
	return vm.NewEVM(bc, tc, s, w.cfg, vm.Config{}, nil)
}

var c16ErrNorm = regexp.MustCompile(`0x[0-9a-fA-F]+|[0-9a-f]{8,}|\d+`)

func c16ErrClass(err error) string {
	if err == nil {
		return "ok"
	}
	s := c16ErrNorm.ReplaceAllString(err.Error(), "#")
	if len(s) > 70 {
		s = s[:70]
	}
	return "err:" + s
}

const c16Gas = 5_000_000

// apply executes one operation. It returns the (possibly re-opened) state, a result class, whether
// the operation was enabled, whether the state is terminal, and violations of the Create oracles.
func (w *c16World) apply(s *state.StateDB, o c16Op) (ns *state.StateDB, res string, enabled, terminal bool, divs []c16Div) {
	ns, enabled = s, true
	// result class of a direct mutator: did the account come to exist (for the caller's view)?
	var target common.InternalAddress
	if b, ok := w.cls[o.A]; ok {
		target = common.InternalAddress(b)
	}
	direct := func() string {
		if s.Exist(target) {
			return "ok"
		}
		if state.VerifC16DbErr(s) != nil {
			return "refused"
		}
		return "no-account"
	}
	createOracle := func(kind string, a common.Address, err error) {
		if err != nil {
			return
		}
		if _, e := a.InternalAndQuaiAddress(); e != nil || !c16RefInZoneQuai(a.Bytes(), w.loc) {
			divs = append(divs, c16Div{kind + ":returns-" + c16AddrClass(a.Bytes(), w.loc), fmt.Sprintf("%s at node %s returned address %x (%s, InternalAndQuaiAddress err=%v) without an error", o, c16LocName(w.loc), a.Bytes(), c16AddrClass(a.Bytes(), w.loc), e)})
		}
	}
	callerRef := vm.AccountRef(w.addr("inQuaiA"))
	switch o.K {
	case "AddBalance1":
		s.AddBalance(common.InternalAddress(w.cls[o.A]), big.NewInt(1))
		res = direct()
	case "AddBalance0":
		s.AddBalance(common.InternalAddress(w.cls[o.A]), new(big.Int))
		res = direct()
	case "SubBalance0":
		s.SubBalance(common.InternalAddress(w.cls[o.A]), new(big.Int))
		res = direct()
	case "SetBalance":
		s.SetBalance(common.InternalAddress(w.cls[o.A]), big.NewInt(7))
		res = direct()
	case "SetNonce":
		s.SetNonce(common.InternalAddress(w.cls[o.A]), 3)
		res = direct()
	case "SetCode":
		s.SetCode(common.InternalAddress(w.cls[o.A]), []byte{0x00})
		res = direct()
	case "SetState":
		s.SetState(common.InternalAddress(w.cls[o.A]), common.BytesToHash([]byte{1}), common.BytesToHash([]byte{2}))
		res = direct()
	case "CreateAccount":
		s.CreateAccount(common.InternalAddress(w.cls[o.A]))
		res = direct()
	case "Suicide":
		if s.Suicide(common.InternalAddress(w.cls[o.A])) {
			res = "ok"
		} else {
			res = "no-account"
		}
	case "GetOrNewStateObject":
		s.GetOrNewStateObject(common.InternalAddress(w.cls[o.A]))
		res = direct()
	case "Call0", "Call1":
		v := new(big.Int)
		if o.K == "Call1" {
			v = big.NewInt(1)
		}
		_, _, _, err := w.evm(s).Call(callerRef, w.addr(o.A), nil, c16Gas, v)
		res = c16ErrClass(err)
	case "Create":
		_, a, _, _, err := w.evm(s).Create(vm.AccountRef(w.addr(o.A)), c16InitCode, c16Gas, new(big.Int))
		res = c16ErrClass(err)
		createOracle("Create", a, err)
	case "CreateRevert":
		_, a, _, _, err := w.evm(s).Create(vm.AccountRef(w.addr(o.A)), c16InitRevert, c16Gas, new(big.Int))
		res = c16ErrClass(err)
		createOracle("Create", a, err)
	case "Create2":
		salt := w.salts[o.A]
		_, a, _, _, err := w.evm(s).Create2(callerRef, c16InitCode, c16Gas, new(big.Int), new(uint256.Int).SetBytes(salt[:]))
		res = c16ErrClass(err)
		createOracle("Create2", a, err)
	case "Create2From":
		_, a, _, _, err := w.evm(s).Create2(vm.AccountRef(w.addr(o.A)), c16InitCode, c16Gas, new(big.Int), uint256.NewInt(0))
		res = c16ErrClass(err)
		createOracle("Create2", a, err)
	case "Run":
		_, _, _, err := w.evm(s).Call(callerRef, common.Bytes20ToAddress(w.progs[o.A], w.loc), nil, c16Gas, new(big.Int))
		res = c16ErrClass(err)
	case "Snapshot":
		s.Snapshot()
		res = "ok"
	case "Revert":
		id, ok := state.VerifC16LastRevision(s)
		if !ok {
			return s, "", false, false, nil
		}
		s.RevertToSnapshot(id)
		res = "ok"
	case "Finalize":
		s.Finalize(true)
		res = "ok"
	case "IntermediateRoot":
		s.IntermediateRoot(true)
		res = "ok"
	case "Commit":
		root, err := s.Commit(true)
		if err != nil {
			return s, "refused(memoised-error)", true, true, nil
		}
		r, err := w.open(root)
		if err != nil {
			panic("reopen after commit: " + err.Error())
		}
		return r, "ok", true, false, nil
	default:
		panic("unknown op " + o.K)
	}
	return ns, res, true, false, divs
}

// invariants: the account state (live objects, and the trie after finalising a copy) holds only
// in-zone Quai accounts.
func (w *c16World) invariants(s *state.StateDB, via c16Op) (divs []c16Div) {
	for _, a := range state.VerifC16Live(s) {
		if !c16RefInZoneQuai(a[:], w.loc) {
			divs = append(divs, c16Div{"account:" + c16AddrClass(a[:], w.loc) + ":live:via-" + via.K, fmt.Sprintf("after %s the StateDB of node %s holds a live account object for %x (%s)", via, c16LocName(w.loc), a[:], c16AddrClass(a[:], w.loc))})
		}
	}
	w.learn(s)
	cp := s.Copy()
	cp.IntermediateRoot(true)
	hashed, pre := state.VerifC16TrieAccounts(cp)
	for i, h := range hashed {
		k := pre[i]
		if len(k) == 0 {
			kk, ok := w.known[h]
			if !ok {
				panic(fmt.Sprintf("harness: trie leaf %x has no known preimage", h))
			}
			k = kk[:]
		} else if crypto.Keccak256Hash(k) != h {
			panic("harness: trie preimage does not hash to the leaf key")
		}
		if !c16RefInZoneQuai(k, w.loc) {
			divs = append(divs, c16Div{"account:" + c16AddrClass(k, w.loc) + ":trie:via-" + via.K, fmt.Sprintf("after %s, finalising the state of node %s puts account %x (%s) into the account trie", via, c16LocName(w.loc), k, c16AddrClass(k, w.loc))})
		}
	}
	return divs
}

// learn records the hash of every live account (an account can only enter the trie through a live
// object of some StateDB of this world, so this resolves every leaf).
func (w *c16World) learn(s *state.StateDB) {
	for _, a := range state.VerifC16Live(s) {
		w.known[crypto.Keccak256Hash(a[:])] = a
	}
}

type c16StateResult struct {
	digest   string
	res      string
	enabled  bool
	terminal bool
	divs     []c16Div
	accounts int
}

// run replays hist from the base state; the oracles are evaluated after the last operation only
// (every prefix was itself a frontier state) unless all is set (replay).
func (w *c16World) run(hist []c16Op, all bool) (r c16StateResult) {
	s, err := w.open(w.base)
	if err != nil {
		panic("open base: " + err.Error())
	}
	r.enabled = true
	for i, o := range hist {
		last := i == len(hist)-1
		var res string
		var en, term bool
		var divs []c16Div
		perr := vx.Guard(func() { s, res, en, term, divs = w.apply(s, o) })
		if perr != "" {
			r.divs = append(r.divs, c16Div{"panic:" + o.K + "@" + vx.PanicSite(perr), fmt.Sprintf("%v at node %s panicked in %s: %s", hist[:i+1], c16LocName(w.loc), o, perr)})
			r.terminal = true
			return r
		}
		if !en {
			r.enabled = false
			return r
		}
		w.learn(s)
		if last || all {
			r.divs = append(r.divs, divs...)
			perr := vx.Guard(func() { r.divs = append(r.divs, w.invariants(s, o)...) })
			if perr != "" {
				panic(perr) // harness problem, not a finding
			}
		}
		if last {
			r.res, r.terminal = res, term
		}
		if term {
			return r
		}
	}
	r.digest = state.VerifC16Digest(s)
	r.accounts = len(state.VerifC16Live(s))
	return r
}

func c16StateReplay(cs c16StateCase) []c16Div {
	loc := make(common.Location, len(cs.Loc))
	for i, v := range cs.Loc {
		loc[i] = byte(v)
	}
	w, err := c16NewWorld(loc, cs.Regime)
	if err != nil {
		return []c16Div{{"harness", err.Error()}}
	}
	r := w.run(cs.Hist, true)
	for i := range r.divs {
		r.divs[i].Desc = fmt.Sprintf("history %v (%s): %s", cs.Hist, cs.Regime, r.divs[i].Desc)
	}
	return r.divs
}

func c16State(c *vx.Ctx) {
	p := c.Part("state")
	if f := os.Getenv("C16_PROF"); f != "" && c.Shard == 0 {
		if fh, err := os.Create(f); err == nil {
			pprof.StartCPUProfile(fh)
			defer pprof.StopCPUProfile()
		}
	}
	type cfg struct {
		loc    common.Location
		regime string
	}
	// plans: per level, "full" = whole alphabet, "ctx" = the context-building subset; each plan lists
	// the configurations (node location / fork regime) it runs on
	type plan struct {
		levels []string
		cfgs   []cfg
	}
	A, B := cfg{common.Location{1, 2}, "post-forks"}, cfg{common.Location{0, 0}, "pre-forks"}
	C, D := cfg{common.Location{0, 0}, "post-forks"}, cfg{common.Location{15, 15}, "pre-forks"}
	plansT := []plan{{[]string{"full", "full"}, []cfg{A, B}}, {[]string{"ctx", "ctx", "full"}, []cfg{A, B}}}
	if c.Thorough() {
		plansT = []plan{
			{[]string{"full", "full"}, []cfg{A, B, C, D}},
			{[]string{"ctx", "ctx", "ctx", "full"}, []cfg{A, B}},
			{[]string{"full", "full", "full"}, []cfg{A}},
		}
	}
	var plans []string
	cfgSeen := map[string]bool{}
	var cfgs []cfg
	for _, pl := range plansT {
		var on []string
		for _, g := range pl.cfgs {
			on = append(on, c16LocName(g.loc)+"/"+g.regime)
			if !cfgSeen[on[len(on)-1]] {
				cfgSeen[on[len(on)-1]] = true
				cfgs = append(cfgs, g)
			}
		}
		plans = append(plans, fmt.Sprintf("%v on %v", pl.levels, on))
	}
	p.Bound("plans(level alphabets)", plans)
	var cn []string
	for _, g := range cfgs {
		cn = append(cn, c16LocName(g.loc)+"/"+g.regime)
	}
	p.Bound("configurations", cn)
	p.Bound("address_classes", []string{"inQuaiA (funded caller)", "inQuaiB", "inQi", "forQuai", "forQi", "zero", "forged-internal(forQuai) = BytesToAddress(prefix||foreign20)", "forged-external(inQuaiB) = BytesToAddress(other||inzone20)"})
	reported := map[string]bool{}
	var item int64
	worlds := map[string]*c16World{}
	for _, g := range cfgs {
		w, err := c16NewWorld(g.loc, g.regime)
		if err != nil {
			c.HarnessError("state world: " + err.Error())
			return
		}
		worlds[c16LocName(g.loc)+"/"+g.regime] = w
		// the base state itself must satisfy the invariant, otherwise nothing below means anything
		if base, _ := w.open(w.base); len(w.invariants(base, c16Op{K: "base"})) > 0 {
			c.HarnessError("base state violates the invariant")
			return
		}
	}
	for _, pl := range plansT {
		plan := pl.levels
		for _, g := range pl.cfgs {
			w := worlds[c16LocName(g.loc)+"/"+g.regime]
			var an, cx []string
			for _, o := range w.alpha {
				an = append(an, o.String())
			}
			ctx := w.ctxAlphabet()
			for _, o := range ctx {
				cx = append(cx, o.String())
			}
			p.Bound("alphabet_full", an)
			p.Bound("alphabet_ctx", cx)
			{
				depth := len(plan)
				seen := map[string]bool{}
				frontier := [][]c16Op{nil}
				for d := 1; d <= depth; d++ {
					last := d == depth
					ops := w.alpha
					if plan[d-1] == "ctx" {
						ops = ctx
					}
					var next [][]c16Op
					for _, pre := range frontier {
						for _, o := range ops {
							// the last (largest) level is distributed over the workers; the shallow levels are
							// recomputed by every worker (deterministically identical) and counted once
							if last {
								item++
								if !c.Mine(item) {
									continue
								}
							}
							if c.Expired() {
								p.Incomplete(fmt.Sprintf("deadline at depth %d of plan %v, %s/%s", d, plan, c16LocName(g.loc), g.regime))
								return
							}
							hist := append(append(make([]c16Op, 0, len(pre)+1), pre...), o)
							r := w.run(hist, false)
							if !r.enabled {
								continue
							}
							count := last || c.Shard == 0
							if count {
								p.Transitions++
								p.Traces++
								p.Outcome(o.K + ":" + c16OpArgClass(w, o) + ":" + r.res)
							}
							for _, dv := range r.divs {
								if reported[dv.Key] {
									continue
								}
								reported[dv.Key] = true
								dv := dv
								cs := c16StateCase{Loc: c16LocInts(g.loc), Regime: g.regime, Hist: hist}
								if c.Confirm(dv.Desc, func() string {
									for _, x := range c16StateReplay(cs) {
										if x.Key == dv.Key {
											return x.Key
										}
									}
									return ""
								}) {
									c.Violate("state", dv.Key, fmt.Sprintf("history %v (%s): %s", hist, g.regime, dv.Desc), c16Replay{Part: "state", State: &cs})
								}
							}
							if len(r.divs) == 0 && last && r.accounts >= 3 && o.K != "Commit" {
								p.Sample(fmt.Sprintf("%s/%s %v -> %s; %d live account objects, account trie all in-zone Quai", c16LocName(g.loc), g.regime, hist, r.res, r.accounts))
							}
							if r.terminal || seen[r.digest] {
								continue
							}
							seen[r.digest] = true
							if count {
								p.States++
							}
							if !last {
								next = append(next, hist)
							}
						}
					}
					if int64(d) > p.MaxDepth {
						p.MaxDepth = int64(d)
					}
					frontier = next
				}
			}
		}
	}
	if c.Shard == 0 {
		// aftermath (informational, outside the C16 oracle): what a value transfer to an Address object whose
		// kind contradicts its bytes (as BytesToAddress builds it from a 21-byte wire field) does to the state
		for _, g := range cfgs[:1] {
			w := worlds[c16LocName(g.loc)+"/"+g.regime]
			s0, _ := w.open(w.base)
			caller := common.InternalAddress(w.cls["inQuaiA"])
			before := new(big.Int).Set(s0.GetBalance(caller))
			_, _, _, err := w.evm(s0).Call(vm.AccountRef(w.addr("inQuaiA")), w.addr("forged-internal(forQuai)"), nil, c16Gas, big.NewInt(1))
			delta := new(big.Int).Sub(before, s0.GetBalance(caller))
			_, cerr := s0.Commit(true)
			p.Note("aftermath (outside C16): evm.Call with value 1 to %s at %s returns err=%v, caller balance decreases by %s, no account is created (createObject refuses), and the following StateDB.Commit returns: %v", "forged-internal(forQuai)", c16LocName(g.loc), err, delta, cerr)
		}
	}
	p.Note("states = distinct StateDB digests; shallow levels are counted once, the last level per worker (a digest reached in two workers at the last level is counted twice)")
}

// ctxAlphabet is the subset of operations that build interesting contexts for a following
// operation (journal, finalisation, commit, account life cycle on in-zone accounts and one
// refused operation that memoises an error).
func (w *c16World) ctxAlphabet() []c16Op {
	return []c16Op{
		{K: "Snapshot"}, {K: "Revert"}, {K: "Finalize"}, {K: "IntermediateRoot"}, {K: "Commit"},
		{"CreateAccount", "inQuaiB"}, {"AddBalance1", "inQuaiB"}, {"SetCode", "inQuaiB"}, {"Suicide", "inQuaiA"}, {"Suicide", "inQuaiB"},
		{"AddBalance1", "inQi"}, {"Call1", "forQuai"}, {"Run", "suicide->inQuaiB"}, {"Create2", "in-zone-quai"},
	}
}

func c16OpArgClass(w *c16World, o c16Op) string {
	if b, ok := w.cls[o.A]; ok {
		return c16AddrClass(b[:], w.loc)
	}
	return o.A
}
