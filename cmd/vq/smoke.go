package main

import (
	"fmt"
	"math/big"
	"time"

	"github.com/dominant-strategies/go-quai/common"
	"github.com/dominant-strategies/go-quai/core"
	"github.com/dominant-strategies/go-quai/verifshim/vx"
)

func init() {
	register(vx.CheckSpec{ID: "smoke", Shards: 1, Run: runSmoke})
}

func runSmoke(c *vx.Ctx) {
	core.VScaleParams(core.VR1)
	p := c.Part("smoke")
	for _, levels := range []int{1, 3} {
		t0 := time.Now()
		a1 := common.HexToAddress("0x0011111111111111111111111111111111111111", core.VZoneLoc)
		n, err := core.VNewNode(core.VNodeConfig{Levels: levels, Alloc: map[common.Address]*big.Int{a1: big.NewInt(1e18)}})
		if err != nil {
			c.HarnessError(err.Error())
			return
		}
		orders := []int{2, 2, 1, 2, 0, 2, 1, 2, 2, 0, 2, 2}
		for i, o := range orders {
			blk, err := n.Mine(core.VBuildOpts{Order: o, Fill: true})
			if err != nil {
				c.HarnessError(fmt.Sprintf("levels %d step %d order %d: %v", levels, i, o, err))
				return
			}
			fmt.Printf("L%d step %d order %d num=%v txs=%d etxs=%d\n", levels, i, o, blk.NumberArray(), len(blk.Transactions()), len(blk.OutboundEtxs()))
			p.Transitions++
		}
		n.Close()
		fmt.Println("levels", levels, "took", time.Since(t0))
	}
	p.States = 1
	p.Outcome("a")
	p.Outcome("b")
}

func init() {
	register(vx.CheckSpec{ID: "smoke2", Shards: 1, Run: runSmoke2})
}

func runSmoke2(c *vx.Ctx) {
	core.VScaleParams(core.VR1)
	p := c.Part("smoke")
	k1 := core.VGrindKey(1, 0, 0, false)
	k2 := core.VGrindKey(2, 0, 0, false)
	n, err := core.VNewNode(core.VNodeConfig{Levels: 3, Alloc: map[common.Address]*big.Int{k1.Addr: new(big.Int).Mul(big.NewInt(1e18), big.NewInt(1000000))}})
	if err != nil {
		c.HarnessError(err.Error())
		return
	}
	orders := []int{2, 2, 1, 2, 0, 2, 1, 2, 2, 0, 2, 2, 1, 2, 0, 2, 2, 0, 2, 1, 0, 2, 2, 2, 0, 2, 2, 2}
	nonce := uint64(0)
	for i, o := range orders {
		if i >= 1 {
			to := k2.Addr
			tx := n.QuaiTx(k1, nonce, &to, big.NewInt(1000), 21000, big.NewInt(2e15), nil)
			errs := n.AddTxs(tx)
			fmt.Println("  add tx:", errs)
			if errs[0] == nil {
				nonce++
			}
		}
		blk, err := n.Mine(core.VBuildOpts{Order: o, Fill: true, QiMiner: i%2 == 1})
		if err != nil {
			c.HarnessError(fmt.Sprintf("step %d order %d: %v", i, o, err))
			return
		}
		cerr := n.VCheckCommitments(blk)
		ut, _ := core.VScanUtxos(n.DB[2])
		fmt.Printf("step %d order %d num=%v txs=%d etxs=%d utxos=%d commitments=%v basefee=%v cb=%x\n", i, o, blk.NumberArray(), len(blk.Transactions()), len(blk.OutboundEtxs()), len(ut), cerr, blk.BaseFee(), blk.PrimaryCoinbase().Bytes()[:2])
		for _, t := range blk.Transactions() {
			if t.Type() == 1 {
				fmt.Printf("      inbound etx type=%d to=%x value=%v\n", t.EtxType(), t.To().Bytes()[:2], t.Value())
			}
		}
		p.Transitions++
	}
	p.States = 1
	p.Outcome("a")
	p.Outcome("b")
}

func init() { register(vx.CheckSpec{ID: "smoke3", Shards: 1, Run: runSmoke3}) }

func runSmoke3(c *vx.Ctx) {
	core.VScaleParams(core.VR1)
	p := c.Part("smoke")
	p.States = 1
	p.Outcome("a")
	p.Outcome("b")
	s, err := newScen(3, true, nil)
	if err != nil {
		c.HarnessError(err.Error())
		return
	}
	t0 := time.Now()
	if err := s.runWord(scenPrefixes["C14"]); err != nil {
		c.HarnessError(err.Error())
		return
	}
	fmt.Println("prefix took", time.Since(t0))
	ut, _ := core.VScanUtxos(s.n.DB[2])
	for _, u := range ut {
		fmt.Println("  utxo", u)
	}
	for _, m := range scenMenu() {
		tx := m.Make(s)
		if tx == nil {
			fmt.Println(m.Name, "n/a")
			continue
		}
		fmt.Println(m.Name, s.n.AddTxs(tx))
	}
	blk, err := s.mine(core.VBuildOpts{Order: 2, Fill: true})
	fmt.Println("mined", err, len(blk.Transactions()), len(blk.OutboundEtxs()))
	for _, t := range blk.Transactions() {
		fmt.Printf("   tx type %d hash %x\n", t.Type(), t.Hash().Bytes()[:4])
	}
	fmt.Println("commit:", s.n.VCheckCommitments(blk))
}
