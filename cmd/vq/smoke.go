package main

import (
	"fmt"
	"math/big"
	"time"

	"github.com/dominant-strategies/go-quai/common"
	"github.com/dominant-strategies/go-quai/core"
	"github.com/dominant-strategies/go-quai/verifshim/vx"
)

func init() {
	register(vx.CheckSpec{ID: "smoke", Shards: 1, Run: runSmoke})
}

func runSmoke(c *vx.Ctx) {
	core.VScaleParams(core.VR1)
	p := c.Part("smoke")
	for _, levels := range []int{1, 3} {
		t0 := time.Now()
		a1 := common.HexToAddress("0x0011111111111111111111111111111111111111", core.VZoneLoc)
		n, err := core.VNewNode(core.VNodeConfig{Levels: levels, Alloc: map[common.Address]*big.Int{a1: big.NewInt(1e18)}})
		if err != nil {
			c.HarnessError(err.Error())
			return
		}
		orders := []int{2, 2, 1, 2, 0, 2, 1, 2, 2, 0, 2, 2}
		for i, o := range orders {
			blk, err := n.Mine(core.VBuildOpts{Order: o, Fill: true})
			if err != nil {
				c.HarnessError(fmt.Sprintf("levels %d step %d order %d: %v", levels, i, o, err))
				return
			}
			fmt.Printf("L%d step %d order %d num=%v txs=%d etxs=%d\n", levels, i, o, blk.NumberArray(), len(blk.Transactions()), len(blk.OutboundEtxs()))
			p.Transitions++
		}
		n.Close()
		fmt.Println("levels", levels, "took", time.Since(t0))
	}
	p.States = 1
	p.Outcome("a")
	p.Outcome("b")
}
