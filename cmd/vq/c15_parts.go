package main

// C15 part drivers for the decoder side: bytes, struct, text, rawdb.

import (
	"bytes"
	"encoding/hex"
	"fmt"
	"sort"
	"strings"
	"time"

	"github.com/dominant-strategies/go-quai/common"
	"github.com/dominant-strategies/go-quai/core/rawdb"
	"github.com/dominant-strategies/go-quai/core/state"
	"github.com/dominant-strategies/go-quai/core/types"
	"github.com/dominant-strategies/go-quai/ethdb"
	"github.com/dominant-strategies/go-quai/rlp"
	"github.com/dominant-strategies/go-quai/verifshim/vx"
)

// c15AllBaselines: protobuf baselines + donor-chain raw encodings + RLP encodings, as (kind,data).
func c15AllBaselines(env *c15Env, thorough bool) []c15Baseline {
	out := c15ProtoBaselines(env.node.Blocks, thorough)
	for _, d := range c15DonorBaselines() {
		n := strings.ToLower(d.Pow.String())
		out = append(out, c15Baseline{Name: "donor/header/" + n, Kind: "donor-header-" + n, Data: d.Header})
		out = append(out, c15Baseline{Name: "donor/block/" + n, Kind: "donor-block-" + n, Data: d.Block})
		out = append(out, c15Baseline{Name: "donor/coinbase/" + n, Kind: "donor-coinbase", Data: d.Coinbase})
		out = append(out, c15Baseline{Name: "donor/scriptsig/" + n, Kind: "donor-scriptsig", Data: types.ExtractScriptSigFromCoinbaseTx(d.Coinbase)})
	}
	enc := func(name, kind string, v interface{}) {
		b, err := rlp.EncodeToBytes(v)
		if err != nil {
			panic(fmt.Sprintf("rlp baseline %s: %v", name, err))
		}
		out = append(out, c15Baseline{Name: "rlp/" + name, Kind: kind, Data: b})
	}
	enc("tx-quai", "rlp-Transaction", c15QuaiTx(0, true))
	enc("tx-qi", "rlp-Transaction", c15QiTx())
	enc("tx-etx", "rlp-Transaction", c15EtxTx())
	enc("txs", "rlp-Transactions", types.Transactions{c15QuaiTx(0, true), c15QiTx(), c15EtxTx()})
	lg := &types.Log{Address: common.HexToAddress("0x0000000000000000000000000000000000000002", c15Loc), Topics: []common.Hash{c15H(1), c15H(2)}, Data: []byte{1, 2, 3}}
	enc("log", "rlp-Log", lg)
	enc("logstorage", "rlp-LogForStorage", (*types.LogForStorage)(lg))
	rc := &types.Receipt{Type: 0, Status: 1, CumulativeGasUsed: 21000, Logs: []*types.Log{lg}, OutboundEtxs: []*types.Transaction{c15EtxTx()}}
	rc.Bloom = types.CreateBloom(types.Receipts{rc})
	enc("receipt", "rlp-Receipt", rc)
	enc("receiptstorage", "rlp-ReceiptForStorage", (*types.ReceiptForStorage)(rc))
	enc("accesslist", "rlp-AccessList", c15QuaiTx(0, true).AccessList())
	enc("hashes", "rlp-Hashes", []common.Hash{c15H(3), c15H(4)})
	enc("account", "rlp-Account", state.Account{Nonce: 1, Balance: bigOne(), Root: c15H(5), CodeHash: c15H(6).Bytes()})
	enc("txins", "rlp-TxIns", c15QiTx().TxIn())
	enc("txouts", "rlp-TxOuts", c15QiTx().TxOut())
	// every RLP baseline is additionally fed to every RLP target type (type confusion)
	n := len(out)
	for i := 0; i < n; i++ {
		if len(out[i].Kind) > 4 && out[i].Kind[:4] == "rlp-" {
			out = append(out, c15Baseline{Name: out[i].Name + "@any", Kind: "rlp-any", Data: out[i].Data})
		}
	}
	return out
}

// c15QuickSkipBytes: the quick tier's byte-level bound (documented in evidence bounds).
func c15QuickSkipBytes(b c15Baseline, e *c15Entry) bool {
	switch b.Kind {
	case "rlp-any": // cross-type RLP feeding: thorough only
		return true
	case "shareview":
		return !(b.Name == "shareview/Scrypt" || b.Name == "shareview/node-head")
	case "blockview":
		return b.Name != "blockview/node-head"
	case "headerview":
		return b.Name == "headerview/prefork"
	case "quaimsg":
		return b.Name == "response/blocks"
	case "wo-any":
		return !(e.Name == "types.WorkObject.ProtoDecode[BlockObject]" || e.Name == "types.WorkObject.ProtoDecode[WorkShareObject]" || e.Name == "types.WorkObject.ProtoDecode[WorkShareTxObject]" || e.Name == "rpc.workshare_receiveSubWorkshare")
	}
	return false
}

func (x *c15Ctx) expired(p *vx.Part, dl time.Time, what string) bool {
	if x.c.Expired() || time.Now().After(dl) {
		p.Incomplete("deadline during " + what)
		return true
	}
	return false
}

// ---------------------------------------------------------------------------------------------
// bytes
// ---------------------------------------------------------------------------------------------

func c15PartBytes(x *c15Ctx, env *c15Env, dl time.Time) {
	p := x.c.Part("bytes")
	bases := c15AllBaselines(env, x.c.Thorough())
	sort.SliceStable(bases, func(i, j int) bool { return len(bases[i].Data) < len(bases[j].Data) }) // simplest first
	p.Bound("byte_menu", "every truncation length; every position := 0x00, 0xff, +1; at every position each of 9 boundary length encodings written over the following bytes (compact-size fd/fe/ff, protobuf varint 2^63 and 2^64-1; quick tier: baselines up to 768 bytes)")
	p.Bound("quick_tier_omits", "cross-type RLP feeding; byte-set deviations of RLP baselines above 1 KiB (truncations kept); share views other than Scrypt and node-head; block views other than node-head; prefork header view; response/blocks frame; wo/block into the HeaderObject/PEtxObject/BlockObjects decoders (all covered by thorough; the struct part still visits every baseline with k=1)")
	p.Bound("baselines", len(bases))
	nEntries := map[string]bool{}
	var total int64
	for _, b := range bases {
		es := env.forKind(b.Kind)
		if len(es) == 0 {
			continue
		}
		// rlp-any cross feeding: only the target types that differ from the native one
		for _, e := range es {
			e := e
			b := b
			if b.Kind == "rlp-any" && len(e.Kinds) > 0 && "rlp/"+e.Kinds[0][4:] == b.Name[:len(b.Name)-4] {
				continue
			}
			if !x.c.Thorough() && c15QuickSkipBytes(b, e) {
				continue
			}
			nEntries[e.Name] = true
			// baseline itself first (0 deviations)
			if x.mine() {
				o := c15Run(e, b.Data)
				p.Evals++
				p.Outcome(e.Name + " -> " + o.class)
				if o.key != "" {
					cs := c15Case{Kind: "decode", Entry: e.Name, Baseline: b.Name, Mutation: "none", InputHex: hex.EncodeToString(b.Data)}
					in := append([]byte{}, b.Data...)
					x.report("bytes", o, cs, func() c15Obs { return c15Run(e, in) })
				}
			}
			stop := false
			c15ByteMutsOpt(b.Data, x.c.Thorough() || len(b.Data) <= c15SpanLimit, func(m c15ByteMut, in []byte) bool {
				if !x.c.Thorough() && m.Kind == "set" && len(b.Data) > 1024 && len(b.Kind) > 4 && b.Kind[:4] == "rlp-" {
					return true
				}
				total++
				if !x.mine() {
					return true
				}
				if total%512 == 0 && x.expired(p, dl, b.Name) {
					stop = true
					return false
				}
				o := c15Run(e, in)
				p.Transitions++
				p.Traces++
				p.Outcome(e.Name + " -> " + o.class)
				if o.key != "" {
					inc := append([]byte{}, in...)
					cs := c15Case{Kind: "decode", Entry: e.Name, Baseline: b.Name, Mutation: m.String(), InputHex: hex.EncodeToString(inc)}
					x.report("bytes", o, cs, func() c15Obs { return c15Run(e, inc) })
				} else if m.Kind == "set" && m.Pos == len(b.Data)/2 && m.Val == 0xff {
					p.Sample(fmt.Sprintf("%s <- %s %s => %s", e.Name, b.Name, m, o.class))
				}
				return true
			})
			if stop {
				return
			}
		}
	}
	p.Bound("entry_points", len(nEntries))
	if x.c.Shard == 0 {
		p.States = total
	}
}

// ---------------------------------------------------------------------------------------------
// struct
// ---------------------------------------------------------------------------------------------

func c15PartStruct(x *c15Ctx, env *c15Env, dl time.Time) {
	p := x.c.Part("struct")
	bases := c15ProtoBaselines(env.node.Blocks, x.c.Thorough())
	sort.SliceStable(bases, func(i, j int) bool { return len(bases[i].Data) < len(bases[j].Data) }) // simplest first
	p.Bound("k1_menu", "absent, empty/zero, short(-1 byte), long(+1 byte), big(+4096 bytes), lenover(length prefix beyond buffer), wiretype, max(varint 2^64-1), dup(sub-message repeated), tx type=0..3, tx swap=quai|qi|etx")
	// pairs: quick = reduced menu {absent, empty, short, long, type=*, swap=*} on the compact
	// baselines; thorough = reduced menu on every baseline + full menu on the compact ones
	compact := map[string]bool{"auxtemplate": true, "woheader/kawpow": true, "tx/quai": true, "tx/qi": true, "tx/etx": true,
		"request/block/byhash": true, "request/hash/bynumber": true, "response/hash": true, "auxpow/Scrypt": true, "auxpow/Kawpow": true, "hash": true}
	// thorough additionally enumerates pairs (reduced menu) on these
	medium := map[string]bool{"headerview/kawpow": true, "wo/petx": true, "header": true,
		"woheader/prefork": true, "woheader/Scrypt": true, "auxpow/SHA_BTC": true, "auxpow/SHA_BCH": true, "request/blocks/bynumber": true}
	p.Bound("k2_quick", "all pairs over the reduced menu {absent, empty, short, long, tx type=*, tx swap=*} on the compact baselines (wo header, the three txs, aux template, aux pow, request/response frames)")
	p.Bound("k2_thorough", "compact baselines: all pairs over the full menu; kawpow header view, PEtx work object, header, further wo headers / aux pows: all pairs over the reduced menu; full block views / block responses: k=1 only")
	var total int64
	maxK := int64(1)
	for pass := 1; pass <= 2; pass++ { // pass 1: k=1 everywhere (cheap, most valuable), pass 2: pairs
		for _, b := range bases {
			if b.Desc == nil {
				continue
			}
			es := env.forKind(b.Kind)
			if len(es) == 0 {
				continue
			}
			tree, err := c15ParseMsg(b.Data, b.Desc, "")
			if err != nil {
				x.c.HarnessError("baseline " + b.Name + " does not parse: " + err.Error())
				continue
			}
			if !x.c.Thorough() && b.Name == "response/blocks" {
				continue // quick: the two-block response frame is left to the thorough tier
			}
			k, full := 1, false
			if pass == 2 {
				k = 2
				if x.c.Thorough() {
					full = compact[b.Name]
					if !compact[b.Name] && !medium[b.Name] {
						continue
					}
				} else if !compact[b.Name] {
					continue
				}
			}
			stop := false
			b := b
			c15StructMuts(tree, k, full, func(devs []c15PDev, in []byte) bool {
				if len(devs) != pass { // k=1 cases were done in pass 1
					return true
				}
				for _, e := range es {
					total++
					if !x.mine() {
						continue
					}
					if total%256 == 0 && x.expired(p, dl, fmt.Sprintf("%s k=%d", b.Name, pass)) {
						stop = true
						return false
					}
					e := e
					o := c15Run(e, in)
					p.Transitions++
					p.Traces++
					p.Outcome(e.Name + " -> " + o.class)
					if o.key != "" {
						inc := append([]byte{}, in...)
						cs := c15Case{Kind: "decode", Entry: e.Name, Baseline: b.Name, Mutation: c15DevsString(devs), InputHex: hex.EncodeToString(inc)}
						x.report("struct", o, cs, func() c15Obs { return c15Run(e, inc) })
					} else if len(devs) == 2 && total%9973 == 0 {
						p.Sample(fmt.Sprintf("%s <- %s {%s} => %s", e.Name, b.Name, c15DevsString(devs), o.class))
					}
				}
				return true
			})
			if stop {
				p.MaxDepth = maxK
				return
			}
		}
		maxK = int64(pass)
	}
	p.MaxDepth = maxK
	if x.c.Shard == 0 {
		p.States = total
	}
}

// ---------------------------------------------------------------------------------------------
// text: hex / JSON argument types
// ---------------------------------------------------------------------------------------------

func c15PartText(x *c15Ctx, env *c15Env, dl time.Time) {
	p := x.c.Part("text")
	ents := c15TextEntries()
	bases := c15JSONBaselines()
	p.Bound("baselines", len(bases))
	var total int64
	for _, b := range bases {
		for _, e := range ents[b.Name] {
			e := e
			env.byName[e.Name] = e
			if x.mine() {
				o := c15Run(e, b.Data)
				p.Evals++
				p.Outcome(e.Name + " -> " + o.class)
				if o.key != "" {
					in := append([]byte{}, b.Data...)
					x.report("text", o, c15Case{Kind: "decode", Entry: e.Name, Baseline: "json/" + b.Name, Mutation: "none", InputHex: hex.EncodeToString(in)}, func() c15Obs { return c15Run(e, in) })
				}
			}
			stop := false
			c15ByteMutsOpt(b.Data, false, func(m c15ByteMut, in []byte) bool {
				total++
				if !x.mine() {
					return true
				}
				if total%512 == 0 && x.expired(p, dl, b.Name) {
					stop = true
					return false
				}
				o := c15Run(e, in)
				p.Transitions++
				p.Traces++
				p.Outcome(e.Name + " -> " + o.class)
				if o.key != "" {
					inc := append([]byte{}, in...)
					x.report("text", o, c15Case{Kind: "decode", Entry: e.Name, Baseline: "json/" + b.Name, Mutation: m.String(), InputHex: hex.EncodeToString(inc)}, func() c15Obs { return c15Run(e, inc) })
				}
				return true
			})
			if stop {
				return
			}
		}
	}
	if x.c.Shard == 0 {
		p.States = total
	}
}

// c15RegisterTextEntries makes the text entries resolvable by name (replay).
func c15RegisterTextEntries(env *c15Env) {
	for _, es := range c15TextEntries() {
		for _, e := range es {
			env.byName[e.Name] = e
		}
	}
}

// ---------------------------------------------------------------------------------------------
// rawdb: every stored value the chain readers touch, corrupted
// ---------------------------------------------------------------------------------------------

// c15DB wraps the node's database: records the keys a reader touches, or substitutes ONE value.
type c15DB struct {
	ethdb.Database
	rec    map[string]bool
	subKey []byte
	subVal []byte
}

func (d *c15DB) Get(k []byte) ([]byte, error) {
	if d.rec != nil {
		d.rec[string(k)] = true
	}
	if d.subKey != nil && bytes.Equal(k, d.subKey) {
		return append([]byte{}, d.subVal...), nil
	}
	return d.Database.Get(k)
}

func (d *c15DB) Has(k []byte) (bool, error) {
	if d.rec != nil {
		d.rec[string(k)] = true
	}
	return d.Database.Has(k)
}

type c15Reader struct {
	Name string
	Fn   func(db ethdb.Database) string
}

func c15Readers(env *c15Env) []c15Reader {
	var rs []c15Reader
	cfg := env.node.Core.Config()
	nilness := func(isNil bool) string {
		if isNil {
			return "nil"
		}
		return "value"
	}
	blocks := append([]*types.WorkObject{}, env.node.Blocks...)
	for i, b := range blocks {
		h, n := b.Hash(), b.NumberU64(common.ZONE_CTX)
		tag := fmt.Sprintf("[block%d]", i+1)
		add := func(name string, fn func(db ethdb.Database) string) {
			rs = append(rs, c15Reader{"rawdb." + name + tag, fn})
		}
		add("ReadCanonicalHash", func(db ethdb.Database) string { return nilness(rawdb.ReadCanonicalHash(db, n) == common.Hash{}) })
		add("ReadHeaderNumber", func(db ethdb.Database) string { return nilness(rawdb.ReadHeaderNumber(db, h) == nil) })
		add("ReadHeader", func(db ethdb.Database) string { return nilness(rawdb.ReadHeader(db, n, h) == nil) })
		add("ReadWorkObject", func(db ethdb.Database) string {
			return nilness(rawdb.ReadWorkObject(db, n, h, types.BlockObject) == nil)
		})
		add("ReadWorkObjectWithWorkShares", func(db ethdb.Database) string { return nilness(rawdb.ReadWorkObjectWithWorkShares(db, n, h) == nil) })
		add("ReadWorkObjectHeaderOnly", func(db ethdb.Database) string {
			return nilness(rawdb.ReadWorkObjectHeaderOnly(db, n, h, types.BlockObject) == nil)
		})
		add("ReadTermini", func(db ethdb.Database) string { return nilness(rawdb.ReadTermini(db, h) == nil) })
		add("ReadReceipts", func(db ethdb.Database) string { return nilness(rawdb.ReadReceipts(db, h, n, cfg) == nil) })
		add("ReadPendingEtxs", func(db ethdb.Database) string { return nilness(rawdb.ReadPendingEtxs(db, h) == nil) })
		add("ReadPendingEtxsRollup", func(db ethdb.Database) string { return nilness(rawdb.ReadPendingEtxsRollup(db, h) == nil) })
		add("ReadManifest", func(db ethdb.Database) string { return nilness(rawdb.ReadManifest(db, h) == nil) })
		add("ReadInterlinkHashes", func(db ethdb.Database) string { return nilness(rawdb.ReadInterlinkHashes(db, h) == nil) })
		add("ReadBloom", func(db ethdb.Database) string { return nilness(rawdb.ReadBloom(db, h) == nil) })
		add("ReadInboundEtxs", func(db ethdb.Database) string { return nilness(rawdb.ReadInboundEtxs(db, h) == nil) })
		add("ReadMultiSet", func(db ethdb.Database) string { return nilness(rawdb.ReadMultiSet(db, h) == nil) })
		add("ReadTokenChoicesSet", func(db ethdb.Database) string { return nilness(rawdb.ReadTokenChoicesSet(db, h) == nil) })
		add("ReadSpentUTXOs", func(db ethdb.Database) string { _, err := rawdb.ReadSpentUTXOs(db, h); return c15ErrClass(err) })
		add("ReadTrimmedUTXOs", func(db ethdb.Database) string { _, err := rawdb.ReadTrimmedUTXOs(db, h); return c15ErrClass(err) })
		add("ReadCreatedUTXOKeys", func(db ethdb.Database) string { _, err := rawdb.ReadCreatedUTXOKeys(db, h); return c15ErrClass(err) })
		add("ReadCreatedCoinbaseLockupKeys", func(db ethdb.Database) string {
			_, err := rawdb.ReadCreatedCoinbaseLockupKeys(db, h)
			return c15ErrClass(err)
		})
		add("ReadDeletedCoinbaseLockups", func(db ethdb.Database) string {
			_, err := rawdb.ReadDeletedCoinbaseLockups(db, h)
			return c15ErrClass(err)
		})
		add("ReadUTXOSetSize", func(db ethdb.Database) string { return fmt.Sprint(rawdb.ReadUTXOSetSize(db, h) > 0) })
		add("ReadLastTrimmedBlock", func(db ethdb.Database) string { return fmt.Sprint(rawdb.ReadLastTrimmedBlock(db, h) > 0) })
		add("ReadSupplyAnalyticsForBlock", func(db ethdb.Database) string {
			_, _, _, _, _, _, err := rawdb.ReadSupplyAnalyticsForBlock(db, h)
			return c15ErrClass(err)
		})
		add("ReadProcessedState", func(db ethdb.Database) string { return fmt.Sprint(rawdb.ReadProcessedState(db, h)) })
	}
	g := func(name string, fn func(db ethdb.Database) string) { rs = append(rs, c15Reader{"rawdb." + name, fn}) }
	g("ReadHeadHeaderHash", func(db ethdb.Database) string { return nilness(rawdb.ReadHeadHeaderHash(db) == common.Hash{}) })
	g("ReadHeadBlockHash", func(db ethdb.Database) string { return nilness(rawdb.ReadHeadBlockHash(db) == common.Hash{}) })
	g("ReadHeadBlock", func(db ethdb.Database) string { return nilness(rawdb.ReadHeadBlock(db) == nil) })
	g("ReadBestPendingHeader", func(db ethdb.Database) string { return nilness(rawdb.ReadBestPendingHeader(db) == nil) })
	g("ReadHeadsHashes", func(db ethdb.Database) string { return nilness(rawdb.ReadHeadsHashes(db) == nil) })
	g("ReadBadHashesList", func(db ethdb.Database) string { return nilness(rawdb.ReadBadHashesList(db) == nil) })
	g("ReadGenesisHashes", func(db ethdb.Database) string { return nilness(rawdb.ReadGenesisHashes(db) == nil) })
	g("ReadPbBodyKeys", func(db ethdb.Database) string { return nilness(rawdb.ReadPbBodyKeys(db) == nil) })
	g("ReadChainConfig", func(db ethdb.Database) string { return nilness(rawdb.ReadChainConfig(db, env.node.Gen) == nil) })
	g("ReadDatabaseVersion", func(db ethdb.Database) string { return nilness(rawdb.ReadDatabaseVersion(db) == nil) })
	return rs
}

func c15RawdbReader(env *c15Env, name string) *c15Reader {
	for _, r := range c15Readers(env) {
		if r.Name == name {
			r := r
			return &r
		}
	}
	return nil
}

// c15RawdbRun executes one reader with one substituted value under the oracle.
func c15RawdbRun(env *c15Env, cs c15Case, val []byte) c15Obs {
	r := c15RawdbReader(env, cs.Entry)
	if r == nil {
		return c15Obs{}
	}
	k, _ := hex.DecodeString(cs.Key)
	db := &c15DB{Database: env.node.Db, subKey: k, subVal: val}
	e := &c15Entry{Name: r.Name, Fn: func([]byte) string { return r.Fn(db) }}
	return c15Run(e, val)
}

func c15PartRawdb(x *c15Ctx, env *c15Env, dl time.Time) {
	p := x.c.Part("rawdb")
	readers := c15Readers(env)
	// which stored keys does each reader touch on the intact store?
	type kr struct {
		key     string
		readers []int
	}
	byKey := map[string][]int{}
	for i, r := range readers {
		db := &c15DB{Database: env.node.Db, rec: map[string]bool{}}
		if perr := vx.Guard(func() { r.Fn(db) }); perr != "" {
			x.c.HarnessError("rawdb reader " + r.Name + " fails on the intact store: " + c15Trunc(perr, 400))
			continue
		}
		for k := range db.rec {
			if v, err := env.node.Db.Get([]byte(k)); err == nil && len(v) > 0 {
				byKey[k] = append(byKey[k], i)
			}
		}
	}
	keys := make([]string, 0, len(byKey))
	for k := range byKey {
		keys = append(keys, k)
	}
	sort.Strings(keys)
	p.Bound("readers", len(readers))
	p.Bound("quick_tier_omits", "per-block readers on block 2; byte-set deviations of stored values larger than 1 KiB (truncations are kept)")
	p.Bound("stored_values_reached", len(keys))
	var total int64
	for _, k := range keys {
		val, _ := env.node.Db.Get([]byte(k))
		for _, ri := range byKey[k] {
			r := readers[ri]
			db := &c15DB{Database: env.node.Db, subKey: []byte(k)}
			e := &c15Entry{Name: r.Name, Fn: func(in []byte) string { db.subVal = in; return r.Fn(db) }}
			stop := false
			quickBlock2 := !x.c.Thorough() && len(r.Name) > 8 && r.Name[len(r.Name)-8:] == "[block2]"
			if quickBlock2 {
				continue // quick: per-block readers on block 1 only
			}
			c15ByteMutsOpt(val, x.c.Thorough() || len(val) <= c15SpanLimit, func(m c15ByteMut, in []byte) bool {
				if !x.c.Thorough() && m.Kind == "set" && len(val) > 1024 {
					return true // quick: values above 1 KiB get every truncation only
				}
				total++
				if !x.mine() {
					return true
				}
				if total%256 == 0 && x.expired(p, dl, r.Name) {
					stop = true
					return false
				}
				o := c15Run(e, in)
				p.Transitions++
				p.Traces++
				p.Outcome(r.Name[:len(r.Name)-c15TagLen(r.Name)] + " -> " + o.class)
				if o.key != "" {
					inc := append([]byte{}, in...)
					cs := c15Case{Kind: "rawdb", Entry: r.Name, Baseline: fmt.Sprintf("stored value of key %x…", c15KeyPrefix(k)), Mutation: m.String(), InputHex: hex.EncodeToString(inc), Key: hex.EncodeToString([]byte(k))}
					o.key = c15StripTag(o.key)
					x.report("rawdb", o, cs, func() c15Obs { oo := c15Run(e, inc); oo.key = c15StripTag(oo.key); return oo })
				}
				return true
			})
			if stop {
				return
			}
		}
	}
	if x.c.Shard == 0 {
		p.States = total
	}
}

func c15KeyPrefix(k string) []byte {
	if len(k) > 6 {
		return []byte(k[:6])
	}
	return []byte(k)
}

// reader names carry a "[blockN]" tag; violation keys must not depend on which block it was.
func c15TagLen(name string) int {
	if i := bytes.LastIndexByte([]byte(name), '['); i > 0 && name[len(name)-1] == ']' {
		return len(name) - i
	}
	return 0
}

func c15StripTag(key string) string {
	for _, t := range []string{"[block1]", "[block2]", "[block3]"} {
		key = replaceAll(key, t, "")
	}
	return key
}

func replaceAll(s, old, new string) string {
	return string(bytes.ReplaceAll([]byte(s), []byte(old), []byte(new)))
}
