package main

// C12 — a failed or reverted call frame leaves no trace.
//
// Part "statedb"  (c12.go)      : bounded-exhaustive op sequences on a real core/state.StateDB:
//                                 prefix ; Snapshot ; body (with nested Snapshot/Revert) ; Revert
//                                 must be observationally equal to prefix alone.
// Part "siblings" (c12.go)      : prefix ; [Snapshot ; body ; Revert] ; S2  ==  prefix ; S2
// Part "frames"   (c12frames.go): real vm.EVM frames assembled from a fragment menu that end in
//                                 REVERT / INVALID / out-of-gas at every instruction / depth /
//                                 create failures, incl. the lockup precompile and ETXs.
// Part "tx"       (c12frames.go): whole failed transactions through core.applyTransaction.
//
// Oracle (differential, no expected constants): the complete observable dump of the state after
// the failed frame equals the dump at frame entry; effects of earlier successful siblings stay.

import (
	"fmt"
	"io"
	"math/big"
	"os"
	"runtime/pprof"
	"sort"
	"strconv"
	"strings"
	"time"

	"github.com/dominant-strategies/go-quai/common"
	"github.com/dominant-strategies/go-quai/core/rawdb"
	"github.com/dominant-strategies/go-quai/core/state"
	"github.com/dominant-strategies/go-quai/core/types"
	"github.com/dominant-strategies/go-quai/verifshim/vx"
	"github.com/sirupsen/logrus"
)

func init() {
	register(vx.CheckSpec{ID: "C12", Shards: 16, QuickBudget: 170 * time.Second, ThoroughBudg: 13 * time.Minute, Run: runC12, ReplayFn: replayC12})
}

var c12Loc = common.Location{0, 0}

func c12Logger() *logrus.Logger {
	l := logrus.New()
	l.SetOutput(io.Discard)
	l.ExitFunc = func(int) { panic("logger.Fatal called") }
	return l
}

func c12IA(hex string) common.InternalAddress {
	ia, err := common.HexToAddress(hex, c12Loc).InternalAndQuaiAddress()
	if err != nil {
		panic("c12: bad harness address " + hex + ": " + err.Error())
	}
	return ia
}

// ---------------------------------------------------------------------------------------------
// Part (a): StateDB level
// ---------------------------------------------------------------------------------------------

// account universe: existing contract with storage, funded EOA, fresh address, RIPEMD precompile
// address (the journal has a special case for it).
var (
	c12aNames = []string{"C", "E", "F", "R"}
	c12aAddrs = []common.InternalAddress{
		c12IA("0x00010000000000000000000000000000000000c1"),
		c12IA("0x00010000000000000000000000000000000000e1"),
		c12IA("0x00010000000000000000000000000000000000f1"),
		c12IA("0x0000000000000000000000000000000000000003"),
	}
	c12aKeys  = []common.Hash{common.BigToHash(big.NewInt(1)), common.BigToHash(big.NewInt(2))}
	c12aCode1 = []byte{0x60, 0x00, 0x60, 0x00, 0xf3}
	c12aCode2 = []byte{0x60, 0x01, 0x60, 0x00, 0xf3, 0x00}
)

// c12Op is one StateDB operation (JSON-able: it is the replay artefact).
type c12Op struct {
	K string `json:"op"`
	A int    `json:"a,omitempty"` // index into the account universe
	S int    `json:"k,omitempty"` // storage key index / nested snapshot index
	V int    `json:"v,omitempty"`
}

func (o c12Op) String() string {
	switch o.K {
	case "add", "sub", "setbal":
		return fmt.Sprintf("%s(%s,%d)", o.K, c12aNames[o.A], o.V)
	case "nonce", "code", "suicide", "create", "aladdr":
		return fmt.Sprintf("%s(%s)", o.K, c12aNames[o.A])
	case "sstore", "tstore":
		return fmt.Sprintf("%s(%s,k%d,%d)", o.K, c12aNames[o.A], o.S+1, o.V)
	case "alslot":
		return fmt.Sprintf("alslot(%s,k%d)", c12aNames[o.A], o.S+1)
	case "refund+", "refund-":
		return fmt.Sprintf("%s%d", o.K, o.V)
	case "revert":
		return fmt.Sprintf("revert#%d", o.S)
	}
	return o.K
}

func c12Ops(hist []c12Op) string {
	s := make([]string, len(hist))
	for i, o := range hist {
		s[i] = o.String()
	}
	return "[" + strings.Join(s, " ") + "]"
}

// data operations (allowed everywhere), simplest first
func c12aDataOps() []c12Op {
	var ops []c12Op
	for a := 0; a < 3; a++ {
		ops = append(ops, c12Op{K: "add", A: a, V: 1})
	}
	for a := 0; a < 4; a++ {
		ops = append(ops, c12Op{K: "add", A: a, V: 0}) // zero-value transfer: the "touch" path
	}
	ops = append(ops, c12Op{K: "sub", A: 0, V: 1}, c12Op{K: "sub", A: 1, V: 1}, c12Op{K: "setbal", A: 1, V: 7})
	for a := 0; a < 3; a++ {
		ops = append(ops, c12Op{K: "nonce", A: a})
	}
	ops = append(ops, c12Op{K: "code", A: 0}, c12Op{K: "code", A: 2})
	for _, a := range []int{0, 2} {
		for k := 0; k < 2; k++ {
			for v := 0; v < 3; v++ {
				ops = append(ops, c12Op{K: "sstore", A: a, S: k, V: v})
			}
		}
	}
	for a := 0; a < 3; a++ {
		ops = append(ops, c12Op{K: "suicide", A: a})
	}
	for a := 0; a < 3; a++ {
		ops = append(ops, c12Op{K: "create", A: a})
	}
	ops = append(ops, c12Op{K: "log"}, c12Op{K: "refund+", V: 3}, c12Op{K: "refund-", V: 1})
	ops = append(ops, c12Op{K: "aladdr", A: 2}, c12Op{K: "alslot", A: 0, S: 0}, c12Op{K: "alslot", A: 2, S: 1})
	for _, a := range []int{0, 2} {
		for _, v := range []int{1, 0} {
			ops = append(ops, c12Op{K: "tstore", A: a, S: 0, V: v})
		}
	}
	return ops
}

// transaction-boundary operations: only legal outside a snapshot (Finalize invalidates revisions)
func c12aBoundaryOps() []c12Op { return []c12Op{{K: "txend"}, {K: "iroot"}} }

type c12aBase struct {
	db, etxdb state.Database
	root      common.Hash
	size      *big.Int
	lg        *logrus.Logger
}

func c12aNewBase() (*c12aBase, error) {
	lg := c12Logger()
	b := &c12aBase{db: state.NewDatabase(rawdb.NewMemoryDatabase(lg)), etxdb: state.NewDatabase(rawdb.NewMemoryDatabase(lg)), lg: lg}
	s, err := state.New(common.Hash{}, common.Hash{}, new(big.Int), b.db, b.etxdb, nil, c12Loc, lg)
	if err != nil {
		return nil, err
	}
	C, E := c12aAddrs[0], c12aAddrs[1]
	s.SetCode(C, c12aCode1)
	s.SetNonce(C, 1)
	s.AddBalance(C, big.NewInt(10))
	s.SetState(C, c12aKeys[0], common.BigToHash(big.NewInt(1)))
	s.AddBalance(E, big.NewInt(10))
	root, err := s.Commit(true)
	if err != nil {
		return nil, err
	}
	b.root, b.size = root, new(big.Int).Set(s.GetQuaiTrieSize())
	if s.GetSize(C).Sign() == 0 {
		return nil, fmt.Errorf("base state: contract C has storage-size counter 0 after commit")
	}
	return b, nil
}

type c12aWorld struct {
	s     *state.StateDB
	txn   int
	inner []int // live nested snapshot ids (inside the frame)
}

func c12aTxHash(n int) common.Hash { return common.BigToHash(big.NewInt(int64(0xa0 + n))) }

func (b *c12aBase) world() *c12aWorld {
	s, err := state.New(b.root, common.Hash{}, new(big.Int).Set(b.size), b.db, b.etxdb, nil, c12Loc, b.lg)
	if err != nil {
		panic("c12: cannot reopen base state: " + err.Error())
	}
	s.Prepare(c12aTxHash(0), 0)
	return &c12aWorld{s: s}
}

// apply executes one op; ok=false means the op is not enabled in this state (the sequence is
// outside the StateDB's contract, e.g. SubRefund below zero panics by design).
func (w *c12aWorld) apply(o c12Op) (ok bool) {
	s := w.s
	var a common.InternalAddress
	if o.A >= 0 && o.A < len(c12aAddrs) {
		a = c12aAddrs[o.A]
	}
	switch o.K {
	case "add":
		s.AddBalance(a, big.NewInt(int64(o.V)))
	case "sub":
		if s.GetBalance(a).Cmp(big.NewInt(int64(o.V))) < 0 {
			return false
		}
		s.SubBalance(a, big.NewInt(int64(o.V)))
	case "setbal":
		s.SetBalance(a, big.NewInt(int64(o.V)))
	case "nonce":
		s.SetNonce(a, s.GetNonce(a)+1)
	case "code":
		s.SetCode(a, c12aCode2)
	case "sstore":
		s.SetState(a, c12aKeys[o.S], common.BigToHash(big.NewInt(int64(o.V))))
	case "suicide":
		s.Suicide(a)
	case "create":
		s.CreateAccount(a)
	case "log":
		s.AddLog(&types.Log{Address: common.Bytes20ToAddress(c12aAddrs[0].Bytes20(), c12Loc), Data: []byte{byte(w.txn)}})
	case "refund+":
		s.AddRefund(uint64(o.V))
	case "refund-":
		if s.GetRefund() < uint64(o.V) {
			return false
		}
		s.SubRefund(uint64(o.V))
	case "aladdr":
		s.AddAddressToAccessList(a.Bytes20())
	case "alslot":
		s.AddSlotToAccessList(a.Bytes20(), c12aKeys[o.S])
	case "tstore":
		s.SetTransientState(a, c12aKeys[o.S], common.BigToHash(big.NewInt(int64(o.V))))
	case "snap":
		w.inner = append(w.inner, s.Snapshot())
	case "revert":
		if o.S < 0 || o.S >= len(w.inner) {
			return false
		}
		s.RevertToSnapshot(w.inner[o.S])
		w.inner = w.inner[:o.S]
	case "txend": // what the block processor does between two transactions
		s.Finalize(true)
		w.txn++
		s.Prepare(c12aTxHash(w.txn), w.txn)
	case "iroot":
		s.IntermediateRoot(true)
	default:
		panic("c12: unknown op " + o.K)
	}
	return true
}

// c12aDump is the complete observable rendering of a StateDB. It is DESTRUCTIVE (it ends the
// transaction), so every dump is taken on an instance built for that purpose.
// mode "g": getters on the live state first, then IntermediateRoot, then getters again.
// mode "r": IntermediateRoot first (pure "state commitment"), then getters.
func c12aDump(s *state.StateDB, mode string) []string {
	var out []string
	add := func(k, f string, a ...any) { out = append(out, k+"="+fmt.Sprintf(f, a...)) }
	getters := func(tag string) {
		for i, a := range c12aAddrs {
			n := c12aNames[i]
			add(tag+"exist("+n+")", "%v/empty=%v", s.Exist(a), s.Empty(a))
			add(tag+"balance("+n+")", "%v", s.GetBalance(a))
			add(tag+"nonce("+n+")", "%d", s.GetNonce(a))
			add(tag+"code("+n+")", "%x/%x/%d", s.GetCodeHash(a).Bytes()[:4], s.GetCode(a), s.GetCodeSize(a))
			add(tag+"size("+n+")", "%v", s.GetSize(a))
			add(tag+"suicided("+n+")", "%v", s.HasSuicided(a))
			for ki, k := range c12aKeys {
				add(fmt.Sprintf("%sstorage(%s,k%d)", tag, n, ki+1), "%x/committed=%x", s.GetState(a, k).Bytes()[31:], s.GetCommittedState(a, k).Bytes()[31:])
			}
			root, sui, del, ok := state.VerifC12Object(s, a)
			add(tag+"object("+n+")", "%v/%x/s=%v/d=%v", ok, root[:4], sui, del)
		}
		add(tag+"refund", "%d", s.GetRefund())
		add(tag+"logs", "%s/next=%d", state.VerifC12Logs(s), state.VerifC12LogSize(s))
		add(tag+"accesslist", "%s", state.VerifC12AccessList(s))
		add(tag+"transient", "%s", state.VerifC12Transient(s))
	}
	if mode == "g" {
		getters("live.")
	}
	var rootStr string
	if perr := vx.Guard(func() { rootStr = fmt.Sprintf("%x", s.IntermediateRoot(true)) }); perr != "" {
		rootStr = "PANIC@" + vx.PanicSite(perr) + " " + strings.SplitN(perr, "\n", 2)[0]
	}
	add("root", "%s", rootStr)
	add("quaisize", "%v", s.GetQuaiTrieSize())
	if !strings.HasPrefix(rootStr, "PANIC") {
		getters("post.")
	}
	return out
}

func c12Diff(want, got []string) (field, desc string) {
	for i := range want {
		if i >= len(got) || want[i] != got[i] {
			g := "<missing>"
			if i < len(got) {
				g = got[i]
			}
			f := want[i]
			if j := strings.IndexAny(f, "(="); j > 0 {
				f = f[:j]
			}
			f = strings.TrimPrefix(strings.TrimPrefix(f, "live."), "post.")
			d := fmt.Sprintf("at entry %s / after the reverted frame %s", want[i], g)
			if os.Getenv("C12_FULLDIFF") != "" { // replay aid: list every differing line
				for j := i + 1; j < len(want) && j < len(got); j++ {
					if want[j] != got[j] {
						d += fmt.Sprintf("\n   also: at entry %s / after %s", want[j], got[j])
					}
				}
			}
			return f, d
		}
	}
	if len(got) != len(want) {
		return "len", "dump length differs"
	}
	return "", ""
}

// c12aCase is the replay artefact of parts statedb/siblings.
type c12aCase struct {
	Kind   string  `json:"kind"` // "statedb"
	Prefix []c12Op `json:"prefix"`
	Body   []c12Op `json:"body"`
	After  []c12Op `json:"after,omitempty"` // sibling ops executed after the revert
	Mode   string  `json:"dump"`
}

// run builds the framed execution and its reference and compares the dumps.
// ran=false: some op was not enabled. field=="" : equal.
func (b *c12aBase) run(cs c12aCase) (ran bool, field, desc string) {
	ref := b.world()
	for _, o := range cs.Prefix {
		if !ref.apply(o) {
			return false, "", ""
		}
	}
	w := b.world()
	for _, o := range cs.Prefix {
		w.apply(o)
	}
	id := w.s.Snapshot()
	for _, o := range cs.Body {
		if !w.apply(o) {
			return false, "", ""
		}
	}
	w.s.RevertToSnapshot(id)
	w.inner = nil
	for _, o := range cs.After {
		okR := ref.apply(o)
		okW := w.apply(o)
		if okR != okW {
			return true, "enabledness", fmt.Sprintf("sibling op %v enabled=%v without the reverted frame but %v after it", o, okR, okW)
		}
		if !okR {
			return false, "", ""
		}
	}
	field, desc = c12Diff(c12aDump(ref.s, cs.Mode), c12aDump(w.s, cs.Mode))
	return true, field, desc
}

func (b *c12aBase) runGuarded(cs c12aCase) (ran bool, field, desc string) {
	perr := vx.Guard(func() { ran, field, desc = b.run(cs) })
	if perr != "" {
		return true, "panic@" + vx.PanicSite(perr), perr
	}
	return
}

// shrink removes ops while the same field keeps failing, so that the reported key names the
// smallest responsible op set.
func (b *c12aBase) shrink(cs c12aCase, field string) c12aCase {
	try := func(c c12aCase) bool {
		ran, f, _ := b.runGuarded(c)
		return ran && f == field
	}
	del := func(xs []c12Op, i int) []c12Op {
		r := append([]c12Op{}, xs[:i]...)
		return append(r, xs[i+1:]...)
	}
	for changed := true; changed; {
		changed = false
		for i := 0; i < len(cs.Prefix); i++ {
			c := cs
			c.Prefix = del(cs.Prefix, i)
			if try(c) {
				cs, changed = c, true
				break
			}
		}
		for i := 0; i < len(cs.After) && !changed; i++ {
			c := cs
			c.After = del(cs.After, i)
			if try(c) {
				cs, changed = c, true
			}
		}
		for i := 0; i < len(cs.Body) && !changed; i++ {
			c := cs
			c.Body = del(cs.Body, i)
			// keep nested revert indices meaningful: a body whose reverts dangle is "not ran"
			if try(c) {
				cs, changed = c, true
			}
		}
	}
	return cs
}

func c12aOpKind(o c12Op) string {
	k := o.K
	if k == "add" && o.V == 0 {
		k = "touch"
	}
	if o.A == 3 {
		k += "(R)"
	}
	return k
}

// key = statedb : first differing field : op kinds of the minimal reverted body
//
//	[: then-<sibling op>] [: after-iroot when a mid-life IntermediateRoot is needed]
func c12aKey(cs c12aCase, field string) string {
	kinds := map[string]bool{}
	for _, o := range cs.Body {
		kinds[c12aOpKind(o)] = true
	}
	ks := make([]string, 0, len(kinds))
	for k := range kinds {
		ks = append(ks, k)
	}
	sort.Strings(ks)
	key := "statedb:" + field + ":" + strings.Join(ks, "+")
	if len(cs.After) > 0 {
		key += ":then-" + c12aOpKind(cs.After[0])
	}
	for _, o := range cs.Prefix {
		if o.K == "iroot" {
			key += ":after-iroot"
			break
		}
	}
	return key
}

var c12aSingleMemo = map[string]string{}

// single: does  Snapshot ; o ; Revert  on the untouched base state already leave a trace? (memoised)
func (b *c12aBase) single(o c12Op) (field string) {
	k := o.String()
	if f, ok := c12aSingleMemo[k]; ok {
		return f
	}
	_, f, _ := b.runGuarded(c12aCase{Kind: "statedb", Body: []c12Op{o}, Mode: "g"})
	c12aSingleMemo[k] = f
	return f
}

func (b *c12aBase) report(c *vx.Ctx, part string, cs c12aCase, field, desc string, seen map[string]bool) {
	// a body op that leaves a trace all by itself explains the failure (the class is reported once)
	for _, o := range cs.Body {
		if o.K == "snap" || o.K == "revert" {
			continue
		}
		if f := b.single(o); f != "" {
			cs = c12aCase{Kind: "statedb", Body: []c12Op{o}, Mode: "g"}
			field = f
			break
		}
	}
	// prefer the plain form (no sibling op, getters first) when it fails too
	if len(cs.After) > 0 || cs.Mode != "g" {
		plain := c12aCase{Kind: "statedb", Prefix: cs.Prefix, Body: cs.Body, Mode: "g"}
		if ran, f, _ := b.runGuarded(plain); ran && f != "" {
			cs, field = plain, f
		}
	}
	small := b.shrink(cs, field)
	key := c12aKey(small, field)
	if seen[key] {
		return
	}
	seen[key] = true
	_, _, d2 := b.runGuarded(small)
	if d2 != "" {
		desc = d2
	}
	full := fmt.Sprintf("StateDB: prefix %s ; Snapshot ; %s ; RevertToSnapshot ; %s  differs from  prefix ; %s (dump mode %s)\n %s: %s",
		c12Ops(small.Prefix), c12Ops(small.Body), c12Ops(small.After), c12Ops(small.After), small.Mode, field, desc)
	if c.Confirm(full, func() string { _, f, _ := b.runGuarded(small); return f }) {
		c.Violate(part, key, full, small)
	}
}

// enumerate all sequences over alpha of length <= n (shortest first), calling f.
func c12Seqs(alpha []c12Op, n int, f func([]c12Op) bool) {
	var rec func(cur []c12Op, left int) bool
	for l := 0; l <= n; l++ {
		rec = func(cur []c12Op, left int) bool {
			if left == 0 {
				return f(cur)
			}
			for _, o := range alpha {
				if !rec(append(cur, o), left-1) {
					return false
				}
			}
			return true
		}
		if !rec(make([]c12Op, 0, n), l) {
			return
		}
	}
}

// bodies: all sequences of length 1..n over data ops + nested snap/revert with a well-formed
// snapshot stack.
func c12Bodies(data []c12Op, n int, f func([]c12Op) bool) {
	var rec func(cur []c12Op, left, live int) bool
	rec = func(cur []c12Op, left, live int) bool {
		if left == 0 {
			return f(cur)
		}
		for _, o := range data {
			if !rec(append(cur, o), left-1, live) {
				return false
			}
		}
		if left >= 2 { // a nested snapshot as last op is covered by the shorter body
			if !rec(append(cur, c12Op{K: "snap"}), left-1, live+1) {
				return false
			}
		}
		for j := 0; j < live; j++ {
			if !rec(append(cur, c12Op{K: "revert", S: j}), left-1, j) {
				return false
			}
		}
		return true
	}
	for l := 1; l <= n; l++ {
		if !rec(make([]c12Op, 0, n), l, 0) {
			return
		}
	}
}

func c12aOutcome(body []c12Op) string {
	last := body[len(body)-1].K
	nested := ""
	for _, o := range body {
		if o.K == "revert" {
			nested = "/nested-revert"
		}
	}
	return "reverted:" + last + nested
}

func runC12StateDB(c *vx.Ctx) {
	b, err := c12aNewBase()
	if err != nil {
		c.HarnessError("c12 base state: " + err.Error())
		return
	}
	data := c12aDataOps()
	prefAlpha := append(append([]c12Op{}, data...), c12aBoundaryOps()...)

	// tiers: disjoint (prefix length range, body length range) boxes, each explored exhaustively
	type plan struct {
		Name             string
		PreMin, PreMax   int
		BodyMin, BodyMax int
		NestedOnly       bool // only bodies that contain a nested Snapshot
		Modes            []string
		// TxSplit: instead of all sequences, the prefixes are exactly [d1 ; txend ; d2] for all pairs
		// of data ops: one effect made in an earlier transaction of the block (so it sits in the
		// objects' pending layer, the journal is empty) and one made in the current transaction
		TxSplit bool
	}
	both, gOnly := []string{"g", "r"}, []string{"g"}
	plans := []plan{
		{"prefix<=1,body<=2", 0, 1, 1, 2, false, both, false},
		{"prefix==2,body==1", 2, 2, 1, 1, false, gOnly, false},
		{"prefix<=1,body==3 with nested snapshot", 0, 1, 3, 3, true, gOnly, false},
		{"prefix==d1;txend;d2,body==1", 3, 3, 1, 1, false, gOnly, true},
	}
	if c.Thorough() {
		plans = []plan{
			{"prefix<=1,body<=3", 0, 1, 1, 3, false, both, false},
			{"prefix==2,body<=2", 2, 2, 1, 2, false, gOnly, false},
			{"prefix==d1;txend;d2,body==1", 3, 3, 1, 1, false, gOnly, true},
		}
	}
	p := c.Part("statedb")
	p.Bound("accounts", "C=committed contract with code+storage(k1=1), E=funded EOA, F=fresh, R=ripemd address")
	p.Bound("data_ops", len(data))
	p.Bound("prefix_ops", len(prefAlpha))
	pn := []string{}
	for _, pl := range plans {
		pn = append(pn, fmt.Sprintf("%s modes=%v", pl.Name, pl.Modes))
	}
	p.Bound("plans", pn)
	p.Bound("dump_modes", "g=getters,root,getters  r=root,getters")
	seen := map[string]bool{}
	states := map[string]bool{}
	var idx int64
	nBig := 0
	for _, pl := range plans {
		if !pl.TxSplit {
			nBig++
		}
	}
	for _, pl := range plans {
		stop := false
		// every plan gets its own share of the statedb time; the transaction-split plan is small
		share := 0.24 / float64(nBig)
		if pl.TxSplit {
			share = 0.08
		}
		expiredA := c12Slice(c, share)
		// prefixes of this plan, most telling first: those ending in a transaction boundary
		// (finalised / pending objects, cleared journal) before the plain ones
		var prefixes [][]c12Op
		if pl.TxSplit {
			for _, d1 := range data {
				for _, d2 := range data {
					prefixes = append(prefixes, []c12Op{d1, {K: "txend"}, d2})
				}
			}
		} else {
			c12Seqs(prefAlpha, pl.PreMax, func(pre []c12Op) bool {
				if len(pre) >= pl.PreMin {
					prefixes = append(prefixes, append([]c12Op{}, pre...))
				}
				return true
			})
		}
		sort.SliceStable(prefixes, func(i, j int) bool {
			bi := len(prefixes[i]) > 0 && (prefixes[i][len(prefixes[i])-1].K == "txend" || prefixes[i][len(prefixes[i])-1].K == "iroot")
			bj := len(prefixes[j]) > 0 && (prefixes[j][len(prefixes[j])-1].K == "txend" || prefixes[j][len(prefixes[j])-1].K == "iroot")
			if len(prefixes[i]) != len(prefixes[j]) {
				return len(prefixes[i]) < len(prefixes[j])
			}
			return bi && !bj
		})
		forEach := func(f func(pre []c12Op) bool) {
			for _, pre := range prefixes {
				if !f(pre) {
					return
				}
			}
		}
		forEach(func(pre []c12Op) bool {
			idx++
			if !c.Mine(idx) {
				return true
			}
			if expiredA() {
				p.Incomplete("time share used up in plan " + pl.Name)
				stop = true
				return false
			}
			// is the prefix itself executable?
			w := b.world()
			for _, o := range pre {
				if !w.apply(o) {
					p.Outcome("prefix-not-enabled")
					return true
				}
			}
			states[strings.Join(c12aDump(w.s, "g"), "|")] = true
			prefix := append([]c12Op{}, pre...)
			nb := 0
			c12Bodies(data, pl.BodyMax, func(body []c12Op) bool {
				if len(body) < pl.BodyMin {
					return true
				}
				if pl.NestedOnly {
					nested := false
					for _, o := range body {
						nested = nested || o.K == "snap"
					}
					if !nested {
						return true
					}
				}
				if nb++; nb%512 == 0 && expiredA() {
					p.Incomplete("time share used up in plan " + pl.Name)
					stop = true
					return false
				}
				for _, mode := range pl.Modes {
					cs := c12aCase{Kind: "statedb", Prefix: prefix, Body: append([]c12Op{}, body...), Mode: mode}
					ran, field, desc := b.runGuarded(cs)
					if !ran {
						p.Outcome("body-not-enabled")
						break
					}
					p.Transitions++
					p.Traces++
					if int64(len(pre)+len(body)+2) > p.MaxDepth {
						p.MaxDepth = int64(len(pre) + len(body) + 2)
					}
					if mode == "g" {
						p.Outcome(c12aOutcome(body))
					}
					if field != "" {
						b.report(c, "statedb", cs, field, desc, seen)
					} else if len(pre) == pl.PreMax && len(body) == pl.BodyMax && mode == "g" {
						p.Sample(fmt.Sprintf("%s ; snapshot ; %s ; revert == prefix", c12Ops(prefix), c12Ops(body)))
					}
				}
				return true
			})
			return true
		})
		if stop && c.Expired() {
			break // the whole run is out of time; otherwise the next plan still has its own share
		}
	}
	p.States = int64(len(states)) // distinct prefix states seen by this shard (dumps differ per shard => summed)

	// ---- siblings: prefix ; [snapshot ; body ; revert] ; S2 == prefix ; S2 ----
	expiredS := c12Slice(c, 0.12)
	ps := c.Part("siblings")
	preD, bodyD := 1, 1
	if c.Thorough() {
		preD, bodyD = 1, 2
	}
	ps.Bound("prefix_depth", preD)
	ps.Bound("body_depth", bodyD)
	ps.Bound("after", "every single op of the prefix alphabet (incl. txend, iroot)")
	idx = 0
	c12Seqs(prefAlpha, preD, func(pre []c12Op) bool {
		prefix := append([]c12Op{}, pre...)
		stop := false
		c12Bodies(data, bodyD, func(body []c12Op) bool {
			idx++
			if !c.Mine(idx) {
				return true
			}
			if expiredS() {
				ps.Incomplete("time share used up")
				stop = true
				return false
			}
			for _, s2 := range prefAlpha {
				cs := c12aCase{Kind: "statedb", Prefix: prefix, Body: append([]c12Op{}, body...), After: []c12Op{s2}, Mode: "r"}
				ran, field, desc := b.runGuarded(cs)
				if !ran {
					ps.Outcome("not-enabled")
					continue
				}
				ps.Transitions++
				ps.Traces++
				ps.Outcome("then:" + s2.K)
				if field != "" {
					b.report(c, "siblings", cs, field, desc, seen)
				} else if len(pre) == preD && len(body) == bodyD {
					ps.Sample(fmt.Sprintf("%s ; [snapshot ; %s ; revert] ; %v", c12Ops(prefix), c12Ops(body), s2))
				}
			}
			return true
		})
		return !stop
	})
	ps.MaxDepth = int64(preD + bodyD + 3)
}

// c12Slice gives a part its own share of the tier budget, so that a slow machine starves no part
// completely: expired() is true when the share (or the whole run's deadline) is used up.
func c12Slice(c *vx.Ctx, frac float64) (expired func() bool) {
	total := 150 * time.Second
	if c.Thorough() {
		total = 13 * time.Minute
	}
	if f, err := strconv.ParseFloat(os.Getenv("C12_BUDGET_SCALE"), 64); err == nil && f > 0 {
		total = time.Duration(float64(total) * f) // for overloaded machines, together with --budget
	}
	end := time.Now().Add(time.Duration(float64(total) * frac))
	return func() bool { return c.Expired() || time.Now().After(end) }
}

func runC12(c *vx.Ctx) {
	if pf := os.Getenv("C12_CPUPROFILE"); pf != "" && c.Shard == 0 {
		if f, err := os.Create(pf); err == nil {
			pprof.StartCPUProfile(f)
			defer pprof.StopCPUProfile()
		}
	}
	c.Rule = "(statedb/siblings) every op sequence 'prefix; Snapshot; body incl. nested Snapshot/Revert; Revert [; sibling op]' over a 43-op alphabet on 4 accounts up to the stated depths, each executed on a fresh real StateDB and compared (complete dump incl. IntermediateRoot) with the same history without the frame; (frames/tx) every program from the fragment menu x call kind x failure kind (REVERT, INVALID, out-of-gas before every instruction, depth, create failures) executed on a real vm.EVM / core.applyTransaction; outcome class = failure kind x effect kind"
	c.Assume("dumps are taken on instances built for that purpose (IntermediateRoot ends the transaction); state snapshots (snaps) are disabled as in a default node config")
	c.Assume("gas consumption, the creator's nonce bump performed by CREATE/CREATE2 before the new frame is entered, and the transaction envelope (sender nonce, gas purchase/refund) are outside the failed frame")
	c.Assume("StateDB.SupplyAdded/SupplyRemoved analytics counters and SHA3 preimages are not in the property's list and are not compared")
	c12fInit() // silences log.Global before anything can log into <cwd>/nodelogs
	t0 := time.Now()
	if c.Wants("statedb") || c.Wants("siblings") {
		runC12StateDB(c)
	}
	t1 := time.Now()
	if c.Wants("frames") || c.Wants("tx") {
		runC12Frames(c)
	}
	if os.Getenv("C12_TIMING") != "" {
		fmt.Fprintf(os.Stderr, "c12 shard %d: statedb+siblings %v, frames+tx %v\n", c.Shard, t1.Sub(t0).Round(time.Millisecond), time.Since(t1).Round(time.Millisecond))
	}
}

func replayC12(c *vx.Ctx, v vx.Violation) string {
	c12fInit()
	raw, _ := jsonMarshal(v.Replay)
	var kind struct {
		Kind string `json:"kind"`
	}
	if err := jsonUnmarshal(raw, &kind); err != nil {
		return "bad replay: " + err.Error()
	}
	switch kind.Kind {
	case "statedb":
		var cs c12aCase
		if err := jsonUnmarshal(raw, &cs); err != nil {
			return "bad replay: " + err.Error()
		}
		b, err := c12aNewBase()
		if err != nil {
			return "harness: " + err.Error()
		}
		ran, field, desc := b.runGuarded(cs)
		if !ran {
			return "harness: replay sequence not enabled"
		}
		if field == "" {
			return ""
		}
		return fmt.Sprintf("StateDB: prefix %s ; Snapshot ; %s ; Revert ; %s: %s: %s", c12Ops(cs.Prefix), c12Ops(cs.Body), c12Ops(cs.After), field, desc)
	default:
		return replayC12Frames(c, kind.Kind, raw)
	}
}
