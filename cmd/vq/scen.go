package main

// Shared scenario machinery for the mininode-based checks: a funded universe of keys, named chain
// prefixes and a transaction menu whose members are built against the node's current state.

import (
	"fmt"
	"math/big"
	"os"

	"github.com/dominant-strategies/go-quai/common"
	"github.com/dominant-strategies/go-quai/core"
	"github.com/dominant-strategies/go-quai/core/types"
	"github.com/dominant-strategies/go-quai/crypto"
)

type scen struct {
	n      *core.VNode
	k      [3]*core.VKey // Quai-ledger keys in zone 0-0 (k[0], k[1] funded)
	q      [3]*core.VKey // Qi-ledger keys in zone 0-0 (q[0] is the miner's Qi coinbase)
	blocks []*types.WorkObject
	// extra: transactions the next block gets from a FOREIGN miner (core.VBuildOpts.ExtraTxs); set by
	// block-content operations, consumed by opts()
	extra []*types.Transaction
	// forkPrimes: every prime-order block is mined as TWO siblings (same parents and content, other
	// seal); the node makes the first its head, then switches to the second, which stays canonical.
	// Whatever prime computes for a block (roll-ups, conversion repricing) is thereby computed twice.
	forkPrimes bool
	// forkAll: the same for EVERY block (zone-, region- and prime-order): each block of the history
	// is first followed as b1 and then reorganised away in favour of its sibling b2. The history the
	// node ends up with is content-wise the plain one, but every block's effects were rolled back once.
	forkAll bool
}

// opts hands the pending foreign transactions to the next build.
func (s *scen) opts(o core.VBuildOpts) core.VBuildOpts {
	o.ExtraTxs, s.extra = s.extra, nil
	return o
}

var (
	scenFund  = new(big.Int).Mul(big.NewInt(1e18), big.NewInt(1000000))
	scenPrice = big.NewInt(2e15)
)

func scenKeys() (k, q [3]*core.VKey) {
	for i := 0; i < 3; i++ {
		k[i] = core.VGrindKey(i+1, 0, 0, false)
		q[i] = core.VGrindKey(i+1, 0, 0, true)
	}
	return
}

func newScen(levels int, index bool, cfgMod func(*core.VNodeConfig)) (*scen, error) {
	s := &scen{}
	s.k, s.q = scenKeys()
	cfg := core.VNodeConfig{Levels: levels, IndexUtxos: index,
		Alloc:        map[common.Address]*big.Int{s.k[0].Addr: scenFund, s.k[1].Addr: scenFund},
		QuaiCoinbase: s.k[2].Addr, QiCoinbase: s.q[0].Addr}
	if cfgMod != nil {
		cfgMod(&cfg)
	}
	n, err := core.VNewNode(cfg)
	if err != nil {
		return nil, err
	}
	s.n = n
	return s, nil
}

func (s *scen) close() { s.n.Close() }

// mine appends one block of the given order built by the node's own worker.
func (s *scen) mine(o core.VBuildOpts) (*types.WorkObject, error) {
	if (s.forkAll || (s.forkPrimes && o.Order == 0)) && s.n.Cfg.Levels == 3 {
		o1, o2 := o, o
		o1.Salt, o2.Salt = o.Salt+1011, o.Salt+2023
		p1, err := s.n.Build(o1)
		if err != nil {
			return nil, err
		}
		p2, err := s.n.Build(o2)
		if err != nil {
			return nil, err
		}
		if p1.Hash() == p2.Hash() {
			return nil, fmt.Errorf("harness: sibling prime blocks are identical")
		}
		if r := s.n.Append(p1); r.Err() != nil {
			return p1, core.VOwnBlockRejected{Err: r.Err()}
		}
		if r := s.n.Append(p2); r.Err() != nil {
			return p2, core.VOwnBlockRejected{Err: fmt.Errorf("switch to the sibling block: %w", r.Err())}
		}
		s.blocks = append(s.blocks, p2)
		return p2, nil
	}
	blk, err := s.n.Mine(o)
	if err != nil {
		return nil, err
	}
	s.blocks = append(s.blocks, blk)
	return blk, nil
}

// scenPrefixes: named block-order words. 'z','r','p' = zone/region/prime order with a Quai
// coinbase; upper case = Qi coinbase (effective once the controller kicked in).
var scenPrefixes = map[string]string{
	"P2":  "zz",
	"P5":  "zzrzp",
	"P16": "zzrzpzrZzpZzRzpZ", // coinbase ETXs have travelled zone->prime->zone and Qi outputs exist
	"P22": "zzrzpzrZzpZzRzpZzpzRpZ",
	"C14": "zpczpzpzzzzz", // a conversion travels to prime and back; its Qi outputs unlock
}

func (s *scen) runWord(word string) error {
	for i, ch := range word {
		if ch == 'c' { // inject a Quai->Qi conversion paying to the Qi key q[0]
			to := s.q[0].Addr
			amt := new(big.Int).Mul(big.NewInt(1e18), big.NewInt(5000))
			tx := s.n.QuaiTx(s.k[0], s.nonce(s.k[0]), &to, amt, 400000, new(big.Int).Mul(scenPrice, big.NewInt(3)), nil)
			if errs := s.n.AddTxs(tx); errs[0] != nil {
				return fmt.Errorf("prefix step %d: conversion tx refused: %w", i, errs[0])
			}
			continue
		}
		o := core.VBuildOpts{Fill: true}
		switch ch {
		case 'z', 'Z':
			o.Order = 2
		case 'r', 'R':
			o.Order = 1
		case 'p', 'P':
			o.Order = 0
		}
		o.QiMiner = ch == 'Z' || ch == 'R' || ch == 'P'
		blk, err := s.mine(o)
		if err != nil {
			return fmt.Errorf("prefix step %d (%c): %w", i, ch, err)
		}
		if os.Getenv("VQ_TRACE") != "" {
			fmt.Printf("  [%d %c] num=%v txs=%d out=%d\n", i, ch, blk.NumberArray(), len(blk.Transactions()), len(blk.OutboundEtxs()))
			for _, t := range blk.Transactions() {
				if t.Type() == types.ExternalTxType {
					fmt.Printf("      in-etx type=%d to=%x val=%v gas=%d\n", t.EtxType(), t.To().Bytes()[:2], t.Value(), t.Gas())
				} else {
					fmt.Printf("      tx type=%d\n", t.Type())
				}
			}
			for _, t := range blk.OutboundEtxs() {
				fmt.Printf("      out-etx type=%d to=%x val=%v gas=%d\n", t.EtxType(), t.To().Bytes()[:2], t.Value(), t.Gas())
			}
			for _, r := range s.n.VReceipts(blk) {
				fmt.Printf("      receipt status=%d gas=%d\n", r.Status, r.GasUsed)
			}
		}
	}
	return nil
}

func (s *scen) nonce(k *core.VKey) uint64 {
	return s.n.VNonce(k.Addr)
}

// ---- transaction menu -------------------------------------------------------------------------

type scenTx struct {
	Name string
	Make func(s *scen) *types.Transaction // nil result = not applicable in this state
}

// simple init code: SSTORE(0, 42); returns empty runtime code. A trailing salt is ground so that
// the created address is an in-zone Quai address.
func scenCreateData(from common.Address, nonce uint64) []byte {
	base := []byte{0x60, 0x2a, 0x60, 0x00, 0x55, 0x00}
	for salt := 0; salt < 1<<20; salt++ {
		code := append(append([]byte{}, base...), byte(salt>>16), byte(salt>>8), byte(salt))
		a := crypto.CreateAddress(from, nonce, code, core.VZoneLoc)
		b := a.Bytes()
		if b[0] == 0 && b[1]&0x80 == 0 {
			return code
		}
	}
	panic("harness: cannot grind contract address")
}

// scenGrind appends a salt to init code until the created address is an in-zone Quai address.
func scenGrind(base []byte, from common.Address, nonce uint64) []byte {
	for salt := 0; salt < 1<<20; salt++ {
		code := append(append([]byte{}, base...), byte(salt>>16), byte(salt>>8), byte(salt))
		b := crypto.CreateAddress(from, nonce, code, core.VZoneLoc).Bytes()
		if b[0] == 0 && b[1]&0x80 == 0 {
			return code
		}
	}
	panic("harness: cannot grind contract address")
}

// init code: SSTORE(1,1) SSTORE(2,2) SSTORE(3,3), empty runtime code
var scenStoreThree = []byte{0x60, 0x01, 0x60, 0x01, 0x55, 0x60, 0x02, 0x60, 0x02, 0x55, 0x60, 0x03, 0x60, 0x03, 0x55, 0x00}

func scenMenu() []scenTx {
	ten := new(big.Int).Mul(big.NewInt(1e18), big.NewInt(20))
	return []scenTx{
		{"A:k0->k1 n+0", func(s *scen) *types.Transaction {
			to := s.k[1].Addr
			return s.n.QuaiTx(s.k[0], s.nonce(s.k[0]), &to, big.NewInt(1000), 21000, scenPrice, nil)
		}},
		{"B:k0->k1 n+1", func(s *scen) *types.Transaction {
			to := s.k[1].Addr
			return s.n.QuaiTx(s.k[0], s.nonce(s.k[0])+1, &to, big.NewInt(2000), 21000, scenPrice, nil)
		}},
		{"C:k1->k0 n+0 pricier", func(s *scen) *types.Transaction {
			to := s.k[0].Addr
			return s.n.QuaiTx(s.k[1], s.nonce(s.k[1]), &to, big.NewInt(3000), 21000, new(big.Int).Mul(scenPrice, big.NewInt(2)), nil)
		}},
		{"D:k1 create n+0/1", func(s *scen) *types.Transaction {
			// uses nonce n+1 so that it depends on C being present
			nn := s.nonce(s.k[1]) + 1
			code := scenCreateData(s.k[1].Addr, nn)
			// the address of the new contract must be in the access list, otherwise creation fails
			return s.n.QuaiTxAL(s.k[1], nn, nil, big.NewInt(0), 300000, scenPrice, code, types.AccessList{{Address: crypto.CreateAddress(s.k[1].Addr, nn, code, core.VZoneLoc)}})
		}},
		{"E:k0 convert Quai->Qi n+0", func(s *scen) *types.Transaction {
			to := s.q[1].Addr
			return s.n.QuaiTx(s.k[0], s.nonce(s.k[0]), &to, ten, 400000, new(big.Int).Mul(scenPrice, big.NewInt(3)), nil)
		}},
		{"F:q0 Qi spend", func(s *scen) *types.Transaction {
			return s.qiSpend(0)
		}},
		{"G:k1 create whose init code reverts (charged, fails)", func(s *scen) *types.Transaction {
			nn := s.nonce(s.k[1])
			code := scenGrind([]byte{0x60, 0x2a, 0x60, 0x00, 0x55, 0x60, 0x00, 0x60, 0x00, 0xfd}, s.k[1].Addr, nn) // SSTORE then REVERT
			return s.n.QuaiTxAL(s.k[1], nn, nil, big.NewInt(0), 300000, new(big.Int).Mul(scenPrice, big.NewInt(4)), code, types.AccessList{{Address: crypto.CreateAddress(s.k[1].Addr, nn, code, core.VZoneLoc)}})
		}},
		// a second ETX-emitting transaction from another sender: with E the block carries two
		// transactions whose outbound lists live side by side (shared EVM of Process vs fresh EVM of the worker)
		{"H:k1 convert Quai->Qi n+0", func(s *scen) *types.Transaction {
			to := s.q[2].Addr
			amt := new(big.Int).Mul(big.NewInt(1e18), big.NewInt(30))
			return s.n.QuaiTx(s.k[1], s.nonce(s.k[1]), &to, amt, 400000, new(big.Int).Mul(scenPrice, big.NewInt(3)), nil)
		}},
		// K + L: a contract is deployed at an address that already holds an account (paid by K earlier in
		// the same block): createObject replaces an existing object, the path on which the state
		// snapshot layer and the tries are consulted differently
		{"K:k0 pays the address of k1's next creation (priced to run first)", func(s *scen) *types.Transaction {
			nn := s.nonce(s.k[1])
			code := scenGrind(scenStoreThree, s.k[1].Addr, nn)
			to := crypto.CreateAddress(s.k[1].Addr, nn, code, core.VZoneLoc)
			return s.n.QuaiTx(s.k[0], s.nonce(s.k[0]), &to, big.NewInt(777), 100000, new(big.Int).Mul(scenPrice, big.NewInt(6)), nil) // a transfer that creates the account costs more than 21000
		}},
		{"L:k1 create n+0 with three SSTOREs", func(s *scen) *types.Transaction {
			nn := s.nonce(s.k[1])
			code := scenGrind(scenStoreThree, s.k[1].Addr, nn)
			return s.n.QuaiTxAL(s.k[1], nn, nil, big.NewInt(0), 400000, scenPrice, code, types.AccessList{{Address: crypto.CreateAddress(s.k[1].Addr, nn, code, core.VZoneLoc)}})
		}},
	}
}

// qiSpend spends the idx-th spendable (unlocked, owned by q[0]) output of the current ledger to
// q[1] in the next smaller denomination (the difference is the fee).
func (s *scen) qiSpend(idx int) *types.Transaction {
	utxos, err := core.VScanUtxos(s.n.DB[2])
	if err != nil {
		return nil
	}
	height := s.n.Heads[2].NumberU64(2) + 1
	cnt := 0
	for _, u := range utxos {
		if string(u.Entry.Address) != string(s.q[0].Addr.Bytes()) {
			continue
		}
		if u.Entry.Lock != nil && u.Entry.Lock.Uint64() > height {
			continue
		}
		if u.Entry.Denomination == 0 {
			continue
		}
		if cnt == idx {
			outs := []core.VQiOut{{Denom: u.Entry.Denomination - 1, Addr: s.q[1].Addr}}
			return core.VQiTx(s.n.ChainID(), core.VZoneLoc, []core.VQiIn{{Hash: u.Hash, Index: u.Index, Key: s.q[0]}}, outs, nil, s.q[0])
		}
		cnt++
	}
	return nil
}

// qiSpendDenom spends the nth unlocked output of denomination d owned by key `owner` into one
// output of denomination outDenom paid to toAddr (the difference is the fee). nil if none.
func (s *scen) qiSpendDenom(owner *core.VKey, d uint8, nth int, toAddr []byte, outDenom uint8) *types.Transaction {
	utxos, err := core.VScanUtxos(s.n.DB[2])
	if err != nil {
		return nil
	}
	height := s.n.Heads[2].NumberU64(2) + 1
	cnt := 0
	for _, u := range utxos {
		if string(u.Entry.Address) != string(owner.Addr.Bytes()) || u.Entry.Denomination != d {
			continue
		}
		if u.Entry.Lock != nil && u.Entry.Lock.Uint64() > height {
			continue
		}
		if cnt == nth {
			to := common.BytesToAddress(toAddr, core.VZoneLoc)
			outs := []core.VQiOut{{Denom: outDenom, Addr: to}}
			return core.VQiTx(s.n.ChainID(), core.VZoneLoc, []core.VQiIn{{Hash: u.Hash, Index: u.Index, Key: owner}}, outs, nil, owner)
		}
		cnt++
	}
	return nil
}

// qiSpendSplit spends the first unlocked output of denomination d owned by `owner` into two outputs.
func (s *scen) qiSpendSplit(owner *core.VKey, d uint8, to1 common.Address, d1 uint8, to2 common.Address, d2 uint8) *types.Transaction {
	utxos, err := core.VScanUtxos(s.n.DB[2])
	if err != nil {
		return nil
	}
	height := s.n.Heads[2].NumberU64(2) + 1
	for _, u := range utxos {
		if string(u.Entry.Address) != string(owner.Addr.Bytes()) || u.Entry.Denomination != d {
			continue
		}
		if u.Entry.Lock != nil && u.Entry.Lock.Uint64() > height {
			continue
		}
		return core.VQiTx(s.n.ChainID(), core.VZoneLoc, []core.VQiIn{{Hash: u.Hash, Index: u.Index, Key: owner}},
			[]core.VQiOut{{Denom: d1, Addr: to1}, {Denom: d2, Addr: to2}}, nil, owner)
	}
	return nil
}
