package main

// C08 part (c): merge-mined (AuxPoW) proofs. Baselines are real, node-accepted objects of regime R2:
// the kawpow block (its own donor proof is checked by the real verifyHeader) and its four uncles, one per
// merge-mined PoW kind (checked by the real VerifyUncles). Every single-part substitution of the proof
// is applied - raw, and "re-committed" (the donor merkle root is recomputed over the changed coinbase /
// branch and, for SHA/Scrypt, the donor nonce is re-mined, so that ONLY the check under test can
// refuse it) - and the verdict is compared with the statement evaluated by an independent little
// reference implementation:
//
//	accepted => P1 coinbase commits to exactly this header's seal hash (scrypt: aux merkle root of it)
//	        and P2 coinbase lies under the donor header's merkle root (double-sha256 chain, index 0)
//	        and P3 the template signature is valid (= none of the signed parts moved; signatures
//	               cannot be forged, so an unchanged signature over a changed message is invalid)

import (
	"bytes"
	"crypto/sha256"
	"encoding/binary"
	"fmt"
	"math/big"
	"sync/atomic"

	"github.com/dominant-strategies/go-quai/common"
	"github.com/dominant-strategies/go-quai/core/types"
	"github.com/dominant-strategies/go-quai/verifshim/vx"
)

type c08CCase struct {
	Kind     string `json:"kind"`    // Kawpow | SHA_BTC | SHA_BCH | Scrypt
	Carrier  string `json:"carrier"` // block (verifyHeader) | uncle (VerifyUncles)
	Part     string `json:"part"`    // tx | branch | sig | auxpow2 | powid | donor | quai
	Index    int    `json:"index"`
	Op       string `json:"op"`
	Recommit bool   `json:"recommit"`
}

func c08Dsha(b []byte) [32]byte {
	a := sha256.Sum256(b)
	return sha256.Sum256(a[:])
}

// ---- independent coinbase parser (reference model) ----
type c08Coinbase struct {
	ok                             bool
	why                            string
	version                        uint32
	nIn                            uint64
	prevTxid                       []byte
	prevIdx, sequence              uint32
	script                         []byte
	pushes                         [][]byte
	out                            []byte // outputs + locktime
	scriptStart, scriptEnd, outPos int
}

func c08ReadVarInt(b []byte, p int) (uint64, int, bool) {
	if p >= len(b) {
		return 0, 0, false
	}
	switch b[p] {
	case 0xfd:
		if p+3 > len(b) {
			return 0, 0, false
		}
		return uint64(binary.LittleEndian.Uint16(b[p+1:])), 3, true
	case 0xfe:
		if p+5 > len(b) {
			return 0, 0, false
		}
		return uint64(binary.LittleEndian.Uint32(b[p+1:])), 5, true
	case 0xff:
		if p+9 > len(b) {
			return 0, 0, false
		}
		return binary.LittleEndian.Uint64(b[p+1:]), 9, true
	}
	return uint64(b[p]), 1, true
}

func c08ParseCoinbase(tx []byte) (c c08Coinbase) {
	fail := func(s string) c08Coinbase { c.why = s; return c }
	if len(tx) < 4 {
		return fail("short")
	}
	c.version = binary.LittleEndian.Uint32(tx)
	p := 4
	n, k, ok := c08ReadVarInt(tx, p)
	if !ok {
		return fail("incount")
	}
	c.nIn = n
	p += k
	if p+36 > len(tx) {
		return fail("prevout")
	}
	c.prevTxid = tx[p : p+32]
	c.prevIdx = binary.LittleEndian.Uint32(tx[p+32:])
	p += 36
	sl, k, ok := c08ReadVarInt(tx, p)
	if !ok {
		return fail("scriptlen")
	}
	p += k
	if sl > uint64(len(tx)-p) {
		return fail("script bounds")
	}
	c.scriptStart, c.scriptEnd = p, p+int(sl)
	c.script = tx[p : p+int(sl)]
	p += int(sl)
	if p+4 > len(tx) {
		return fail("sequence")
	}
	c.sequence = binary.LittleEndian.Uint32(tx[p:])
	p += 4
	c.outPos = p
	c.out = tx[p:]
	// direct pushes only (opcodes 0..75)
	q := 0
	for q < len(c.script) {
		op := int(c.script[q])
		if op > 75 || q+1+op > len(c.script) {
			break
		}
		c.pushes = append(c.pushes, c.script[q+1:q+1+op])
		q += 1 + op
	}
	c.ok = true
	return c
}

func c08DecodeHeight(b []byte) (uint32, bool) {
	if len(b) > 5 {
		return 0, false
	}
	var h uint32
	n := len(b)
	if n > 1 && b[n-1] == 0 {
		n--
	}
	for i := 0; i < n && i < 4; i++ {
		h |= uint32(b[i]) << (8 * uint(i))
	}
	return h, true
}

// c08Signed is the tuple the 2-of-3 template signature covers, extracted independently.
func c08Signed(ap *types.AuxPow) string {
	cb := c08ParseCoinbase(ap.Transaction())
	if !cb.ok || len(cb.pushes) < 4 || len(cb.pushes[3]) != 4 {
		return "unparsable:" + cb.why
	}
	h := ap.Header()
	ver := uint32(h.Version())
	if ap.PowID() == types.SHA_BTC || ap.PowID() == types.SHA_BCH {
		ver &= 0xE0000000 // version-rolling bits are outside the signed message on SHA chains
	}
	height := h.Height()
	if ap.PowID() != types.Kawpow {
		hh, ok := c08DecodeHeight(cb.pushes[0])
		if !ok {
			return "unparsable:height"
		}
		height = hh
	}
	var sb bytes.Buffer
	fmt.Fprintf(&sb, "%d|%x|%x|%d|%d|%x|%d|%x|", ap.PowID(), h.PrevBlock(), ap.AuxPow2(), ver, h.Bits(), cb.pushes[3], height, cb.out)
	for _, s := range ap.MerkleBranch() {
		fmt.Fprintf(&sb, "%x,", s)
	}
	fmt.Fprintf(&sb, "|%x", ap.Signature())
	return sb.String()
}

type c08Model struct{ p1, p2, p3, wellFormed bool }

func c08EvalModel(wh *types.WorkObjectHeader, baseSigned string) (m c08Model) {
	ap := wh.AuxPow()
	if ap == nil || ap.Header() == nil {
		return
	}
	cb := c08ParseCoinbase(ap.Transaction())
	if !cb.ok || len(cb.pushes) < 2 || len(cb.pushes[1]) != 44 || !bytes.Equal(cb.pushes[1][:4], []byte{0xfa, 0xbe, 0x6d, 0x6d}) {
		return
	}
	m.wellFormed = true
	commit := cb.pushes[1][4:36]
	seal := wh.SealHash()
	switch ap.PowID() {
	case types.Scrypt:
		if len(ap.AuxPow2()) == 32 && !bytes.Equal(ap.AuxPow2(), make([]byte, 32)) {
			// merged-mining tree of size 2: slot(chain 98)=doge, slot(chain 9)=quai; leaves reversed, root reversed
			slot := func(id uint32) uint32 {
				r := uint32(0)*1103515245 + 12345
				r += id
				r = r*1103515245 + 12345
				return r % 2
			}
			leaves := [2][]byte{make([]byte, 32), make([]byte, 32)}
			rev := func(b []byte) []byte {
				o := make([]byte, len(b))
				for i := range b {
					o[i] = b[len(b)-1-i]
				}
				return o
			}
			leaves[slot(98)] = rev(ap.AuxPow2())
			leaves[slot(9)] = rev(seal.Bytes())
			root := c08Dsha(append(append([]byte{}, leaves[0]...), leaves[1]...))
			m.p1 = bytes.Equal(commit, rev(root[:])) && binary.LittleEndian.Uint32(cb.pushes[1][36:40]) == 2 && binary.LittleEndian.Uint32(cb.pushes[1][40:44]) == 0
		}
	default:
		m.p1 = bytes.Equal(commit, seal.Bytes())
	}
	h := c08Dsha(ap.Transaction())
	for _, sib := range ap.MerkleBranch() {
		var s [32]byte
		copy(s[:], sib)
		h = c08Dsha(append(append([]byte{}, h[:]...), s[:]...))
	}
	mr := ap.Header().MerkleRoot()
	m.p2 = h == mr
	m.p3 = c08Signed(ap) == baseSigned
	return
}

// ---- substitutions ----

type c08Sub struct {
	part, op string
	index    int
}

func c08SubList(kind types.PowID, ap *types.AuxPow, thorough bool) []c08Sub {
	var subs []c08Sub
	bitsOf := func() []string {
		if thorough {
			return []string{"^01", "^02", "^04", "^08", "^10", "^20", "^40", "^80"}
		}
		return []string{"^01"}
	}
	for i := range ap.Transaction() {
		for _, b := range bitsOf() {
			subs = append(subs, c08Sub{"tx", b, i})
		}
	}
	subs = append(subs, c08Sub{"tx", "drop-last-byte", 0}, c08Sub{"tx", "append-00", 0}, c08Sub{"tx", "empty", 0},
		c08Sub{"tx", "commit-other-seal", 0}, c08Sub{"tx", "commit-zero", 0}, c08Sub{"tx", "two-inputs", 0})
	for i := range ap.MerkleBranch() {
		for _, op := range []string{"^01@0", "^80@31", "drop", "duplicate", "zero", "truncate"} {
			subs = append(subs, c08Sub{"branch", op, i})
		}
	}
	subs = append(subs, c08Sub{"branch", "append", 0}, c08Sub{"branch", "swap01", 0}, c08Sub{"branch", "clear", 0})
	for i := range ap.Signature() {
		for _, b := range bitsOf() {
			subs = append(subs, c08Sub{"sig", b, i})
		}
	}
	subs = append(subs, c08Sub{"sig", "empty", 0}, c08Sub{"sig", "truncate", 0}, c08Sub{"sig", "zero", 0}, c08Sub{"sig", "append-00", 0}, c08Sub{"sig", "other-message", 0})
	for _, op := range []string{"flip", "zero32", "empty", "truncate", "other32"} {
		subs = append(subs, c08Sub{"auxpow2", op, 0})
	}
	for _, k := range []types.PowID{types.Progpow, types.Kawpow, types.SHA_BTC, types.SHA_BCH, types.Scrypt, 5} {
		if k != kind {
			subs = append(subs, c08Sub{"powid", fmt.Sprintf("->%d", k), int(k)})
		}
	}
	// the proof stays, the quai header it was made for changes (seal reuse for other content)
	for _, op := range []string{"time+1", "coinbase", "data", "txhash", "lock+1", "parenthash", "headerhash"} {
		subs = append(subs, c08Sub{"quai", op, 0})
	}
	n := len(ap.Header().Bytes())
	for i := 0; i < n; i++ {
		for _, b := range bitsOf() {
			subs = append(subs, c08Sub{"donor", b, i})
		}
	}
	return subs
}

func c08Bit(op string) (byte, bool) {
	var x byte
	if len(op) == 3 && op[0] == '^' {
		fmt.Sscanf(op[1:], "%02x", &x)
		return x, true
	}
	return 0, false
}

// c08ApplySub mutates wh's AuxPoW in place; returns false when not applicable.
func c08ApplySub(w *c08World, wh *types.WorkObjectHeader, s c08Sub, recommit bool) bool {
	ap := wh.AuxPow()
	kind := ap.PowID()
	switch s.part {
	case "tx":
		tx := append([]byte{}, ap.Transaction()...)
		if x, ok := c08Bit(s.op); ok {
			if s.index >= len(tx) {
				return false
			}
			tx[s.index] ^= x
		} else {
			cb := c08ParseCoinbase(tx)
			switch s.op {
			case "drop-last-byte":
				tx = tx[:len(tx)-1]
			case "append-00":
				tx = append(tx, 0)
			case "empty":
				tx = []byte{}
			case "commit-other-seal", "commit-zero":
				// the commitment of ANOTHER quai header (same header, different coinbase address)
				other := types.CopyWorkObjectHeader(wh)
				other.SetTime(other.Time() + 1)
				root := other.SealHash()
				if kind == types.Scrypt {
					root = types.CreateAuxMerkleRoot(common.BytesToHash(ap.AuxPow2()), other.SealHash())
				}
				if s.op == "commit-zero" {
					root = common.Hash{}
				}
				if !cb.ok || len(cb.pushes) < 2 {
					return false
				}
				off := cb.scriptStart + 1 + len(cb.pushes[0]) + 1 + 4
				copy(tx[off:off+32], root.Bytes())
			case "two-inputs":
				if !cb.ok {
					return false
				}
				// declare two inputs and insert a second, ordinary input after the coinbase input
				extra := append(bytes.Repeat([]byte{0x11}, 32), 0, 0, 0, 0, 0, 0xff, 0xff, 0xff, 0xff)
				n := append([]byte{}, tx[:4]...)
				n = append(n, 2)
				n = append(n, tx[5:cb.outPos]...)
				n = append(n, extra...)
				n = append(n, tx[cb.outPos:]...)
				tx = n
			default:
				return false
			}
		}
		ap.SetTransaction(tx)
	case "branch":
		br := make([][]byte, len(ap.MerkleBranch()))
		for i, b := range ap.MerkleBranch() {
			br[i] = append([]byte{}, b...)
		}
		switch s.op {
		case "^01@0":
			br[s.index][0] ^= 1
		case "^80@31":
			br[s.index][31] ^= 0x80
		case "drop":
			br = append(br[:s.index], br[s.index+1:]...)
		case "duplicate":
			br = append(br[:s.index+1], br[s.index:]...)
		case "zero":
			br[s.index] = make([]byte, 32)
		case "truncate":
			br[s.index] = br[s.index][:31]
		case "append":
			br = append(br, c08Bytes32(0x77))
		case "swap01":
			if len(br) < 2 {
				return false
			}
			br[0], br[1] = br[1], br[0]
		case "clear":
			if len(br) == 0 {
				return false
			}
			br = [][]byte{}
		default:
			return false
		}
		ap.SetMerkleBranch(br)
	case "sig":
		sg := append([]byte{}, ap.Signature()...)
		if x, ok := c08Bit(s.op); ok {
			sg[s.index] ^= x
		} else {
			switch s.op {
			case "empty":
				sg = []byte{}
			case "truncate":
				sg = sg[:63]
			case "zero":
				sg = make([]byte, 64)
			case "append-00":
				sg = append(sg, 0)
			case "other-message":
				// a VALID signature of the same signers over a different template (other signature time)
				t2, err := c08Template(kind, 0)
				if err != nil {
					return false
				}
				sg = t2.Sigs()
			default:
				return false
			}
		}
		ap.SetSignature(sg)
	case "auxpow2":
		a := append([]byte{}, ap.AuxPow2()...)
		switch s.op {
		case "flip":
			if len(a) == 0 {
				return false
			}
			a[0] ^= 1
		case "zero32":
			a = make([]byte, 32)
		case "empty":
			if len(a) == 0 {
				return false
			}
			a = []byte{}
		case "truncate":
			if len(a) == 0 {
				return false
			}
			a = a[:len(a)-1]
		case "other32":
			a = c08Bytes32(0x21)
		default:
			return false
		}
		ap.SetAuxPow2(a)
		if recommit && kind == types.Scrypt && len(a) == 32 {
			// commit the coinbase to the new aux merkle root as a miner would
			tx := append([]byte{}, ap.Transaction()...)
			cb := c08ParseCoinbase(tx)
			if cb.ok && len(cb.pushes) >= 2 {
				off := cb.scriptStart + 1 + len(cb.pushes[0]) + 1 + 4
				root := types.CreateAuxMerkleRoot(common.BytesToHash(a), wh.SealHash())
				copy(tx[off:off+32], root.Bytes())
				ap.SetTransaction(tx)
			}
		}
	case "quai":
		switch s.op {
		case "time+1":
			wh.SetTime(wh.Time() + 1)
		case "coinbase":
			b := append([]byte{}, wh.PrimaryCoinbase().Bytes()...)
			b[19] ^= 1
			wh.SetPrimaryCoinbase(common.BytesToAddress(b, w.Env.Loc))
		case "data":
			wh.SetData(append(append([]byte{}, wh.Data()...), 0))
		case "txhash":
			h := wh.TxHash()
			h[31] ^= 1
			wh.SetTxHash(h)
		case "lock+1":
			wh.SetLock(wh.Lock() + 1)
		case "parenthash":
			h := wh.ParentHash()
			h[31] ^= 1
			wh.SetParentHash(h)
		case "headerhash":
			h := wh.HeaderHash()
			h[31] ^= 1
			wh.SetHeaderHash(h)
		default:
			return false
		}
		return true
	case "powid":
		ap.SetPowID(types.PowID(s.index))
	case "donor":
		raw := ap.Header().Bytes()
		x, ok := c08Bit(s.op)
		if !ok || s.index >= len(raw) {
			return false
		}
		raw[s.index] ^= x
		// re-decode through the AuxPoW wire form
		pa := ap.ProtoEncode()
		pa.Header = raw
		n := &types.AuxPow{}
		if err := n.ProtoDecode(pa); err != nil {
			return false
		}
		wh.SetAuxPow(n)
		return true // a donor-header change is never re-committed: it IS the sealed object
	default:
		return false
	}
	if recommit {
		// recompute the donor merkle root over the (changed) coinbase and branch, keep everything else
		var mr [32]byte
		if perr := vx.Guard(func() { mr = types.CalculateMerkleRoot(ap.PowID(), ap.Transaction(), ap.MerkleBranch()) }); perr != "" {
			return false
		}
		old := ap.Header()
		if old == nil {
			return false
		}
		nh := types.NewBlockHeader(ap.PowID(), old.Version(), old.PrevBlock(), mr, old.Timestamp(), old.Bits(), old.Nonce(), old.Height())
		if nh == nil {
			return false
		}
		if ap.PowID() == types.Kawpow {
			nh.SetNonce64(old.Nonce64())
			nh.SetMixHash(old.MixHash())
		}
		ap.SetHeader(nh)
		if fixed := c08PinDonorTime(ap, old.Timestamp()); fixed != ap {
			wh.SetAuxPow(fixed)
			ap = fixed
		}
		switch ap.PowID() {
		case types.SHA_BTC, types.SHA_BCH:
			if wh.ShaDiffAndCount() != nil && wh.ShaDiffAndCount().Difficulty() != nil && wh.ShaDiffAndCount().Difficulty().Sign() > 0 {
				c08MineDonor(ap, wh.ShaDiffAndCount().Difficulty(), 1<<22)
			}
		case types.Scrypt:
			if wh.ScryptDiffAndCount() != nil && wh.ScryptDiffAndCount().Difficulty() != nil && wh.ScryptDiffAndCount().Difficulty().Sign() > 0 {
				c08MineDonor(ap, wh.ScryptDiffAndCount().Difficulty(), 1<<16)
			}
		}
	}
	return true
}

type c08CResult struct{ class, key, bad string }

// c08IsExt: the share's primary coinbase is not an internal address of the node's zone.
func c08IsExt(u *types.WorkObjectHeader) bool {
	_, err := u.PrimaryCoinbase().InternalAddress()
	return err != nil
}

func c08KindOf(s string) types.PowID {
	return map[string]types.PowID{"Kawpow": types.Kawpow, "SHA_BTC": types.SHA_BTC, "SHA_BCH": types.SHA_BCH, "Scrypt": types.Scrypt}[s]
}

// c08EvalC applies one substitution to a fresh copy of the baseline and asks the real validation.
func c08EvalC(w *c08World, cs c08CCase) c08CResult {
	kind := c08KindOf(cs.Kind)
	loc := w.Env.Loc
	blk := c08DeepCopy(w.Kaw, loc)
	var wh *types.WorkObjectHeader
	ui := -1
	if cs.Carrier == "block" {
		wh = blk.WorkObjectHeader()
	} else {
		for i, u := range blk.Uncles() {
			if u.AuxPow() != nil && u.AuxPow().PowID() == kind && c08IsExt(u) == (cs.Carrier == "uncle-ext") {
				wh, ui = u, i
			}
		}
	}
	if wh == nil || wh.AuxPow() == nil {
		return c08CResult{class: "harness:no-baseline"}
	}
	baseSigned := c08Signed(wh.AuxPow())
	baseKernel := c08KernelInput(wh)
	baseWire, _ := c08Wire(blk)
	if base := c08EvalModel(wh, baseSigned); !(base.p1 && base.p2 && base.p3) {
		return c08CResult{class: fmt.Sprintf("harness:model-rejects-baseline:%+v", base)}
	}
	s := c08Sub{cs.Part, cs.Op, cs.Index}
	applied := false
	if perr := vx.Guard(func() { applied = c08ApplySub(w, wh, s, cs.Recommit) }); perr != "" {
		return c08CResult{class: "n/a(substitution panicked in harness helper: " + c08PanicSite(perr) + ")"}
	}
	if !applied {
		return c08CResult{class: "n/a"}
	}
	raw, err := c08Wire(blk)
	if err != nil {
		return c08CResult{class: "unencodable"}
	}
	if bytes.Equal(raw, baseWire) {
		return c08CResult{class: "wire-noop"}
	}
	got, err := c08Unwire(raw, loc)
	if err != nil {
		return c08CResult{class: "reject:decode:" + c08ErrClass(err.Error())}
	}
	if r2, _ := c08Wire(got); bytes.Equal(r2, baseWire) {
		return c08CResult{class: "wire-noop(decode-normalises)"}
	}
	gwh := got.WorkObjectHeader()
	if ui >= 0 {
		gwh = got.Uncles()[ui]
	}
	if gwh.AuxPow() == nil {
		return c08CResult{class: "reject:decode:auxpow-dropped"}
	}
	var m c08Model
	if perr := vx.Guard(func() { m = c08EvalModel(gwh, baseSigned) }); perr != "" {
		m = c08Model{}
	}
	w.Env.PurgeCaches()
	var verr error
	perr := vx.Guard(func() {
		if cs.Carrier == "block" {
			verr = w.Env.VerifyHeader(got, w.KawP, false)
		} else {
			verr = w.Env.VerifyUncles(got)
		}
	})
	if perr != "" {
		return c08CResult{class: "panic:" + c08PanicSite(perr)}
	}
	if verr != nil {
		return c08CResult{class: "reject:" + c08ErrClass(verr.Error())}
	}
	if m.p1 && m.p2 && m.p3 {
		tag := "same-work"
		if c08KernelInput(gwh) != baseKernel {
			tag = "new-work"
		}
		return c08CResult{class: "accept:miner-free(" + cs.Part + "," + tag + ")"}
	}
	missing := ""
	if !m.p1 {
		missing += "+seal-hash-commitment"
	}
	if !m.p2 {
		missing += "+merkle-root"
	}
	if !m.p3 {
		missing += "+template-signature"
	}
	rc := "raw"
	if cs.Recommit {
		rc = "recommitted"
	}
	check := "verifyHeader"
	if cs.Carrier != "block" {
		check = "VerifyUncles"
	}
	return c08CResult{class: "ACCEPT-without" + missing, key: fmt.Sprintf("auxpow:%s:accepted-without%s", cs.Carrier, missing),
		bad: fmt.Sprintf("%s accepted a %s %s whose AuxPoW had %s[%d] %s (%s): reference evaluation of the statement: seal-hash commitment=%v, under donor merkle root=%v, signed parts unchanged=%v", check, cs.Kind, cs.Carrier, cs.Part, cs.Index, cs.Op, rc, m.p1, m.p2, m.p3)}
}

func check(carrier string) string {
	if carrier == "block" {
		return "verifyHeader"
	}
	return "VerifyUncles"
}

func c08RunC(c *vx.Ctx, w *c08World, idx *int64) {
	if w.Regime != "R2" {
		return
	}
	p := c.Part("auxpow")
	reported := map[string]bool{}
	type carrier struct {
		kind    types.PowID
		carrier string
		wh      *types.WorkObjectHeader
	}
	cars := []carrier{{types.Kawpow, "block", w.Kaw.WorkObjectHeader()}}
	for _, u := range w.Kaw.Uncles() {
		if u.AuxPow() != nil {
			name := "uncle"
			if c08IsExt(u) {
				name = "uncle-ext"
			}
			cars = append(cars, carrier{u.AuxPow().PowID(), name, u})
		}
	}
	p.Bound("carriers", len(cars))
	if err := w.Env.VerifyUncles(c08DeepCopy(w.Kaw, w.Env.Loc)); err != nil {
		c.HarnessError("auxpow baseline block fails VerifyUncles: " + err.Error())
		return
	}
	total := 0
	for _, car := range cars {
		subs := c08SubList(car.kind, car.wh.AuxPow(), c.Thorough())
		total += len(subs)
		for _, s := range subs {
			for _, rc := range []bool{false, true} {
				if rc && (s.part == "donor" || s.part == "powid" || s.part == "sig" || s.part == "quai") {
					continue // re-committing changes nothing for these parts
				}
				// scrypt re-mining costs ~0.1 s per case: in the quick tier only the structured substitutions
				if rc && car.kind == types.Scrypt && !c.Thorough() {
					if _, bit := c08Bit(s.op); bit && s.part == "tx" && s.index%4 != 0 {
						continue
					}
				}
				*idx++
				atomic.AddInt64(&c08Progress, 1)
				if !c.Mine(*idx) {
					continue
				}
				if c.Expired() {
					p.Incomplete("deadline")
					return
				}
				cs := c08CCase{Kind: car.kind.String(), Carrier: car.carrier, Part: s.part, Index: s.index, Op: s.op, Recommit: rc}
				r := c08EvalC(w, cs)
				p.Transitions++
				p.Traces++
				rcs := "raw"
				if rc {
					rcs = "recommit"
				}
				p.Outcome(car.carrier + ":" + cs.Kind + ":" + s.part + ":" + rcs + ":" + c08ShortClass(r.class))
				if len(r.class) > 8 && r.class[:8] == "harness:" {
					c.HarnessError(fmt.Sprintf("auxpow %+v: %s", cs, r.class))
					return
				}
				if len(r.class) > 6 && r.class[:6] == "panic:" && !reported["note:"+r.class] {
					reported["note:"+r.class] = true
					p.Note("panic inside %s at %s for a %s share - nothing is accepted, so not a C08 violation (robustness, see C15); example under bounds.panic_example", check(cs.Carrier), r.class[6:], cs.Kind)
					p.Bound("panic_example:"+cs.Kind+"@"+r.class[6:], cs)
				}
				if r.bad != "" && !reported[r.key] {
					reported[r.key] = true
					if c.Confirm(r.bad, func() string { return c08EvalC(w, cs).key }) {
						c.Violate("auxpow", r.key, r.bad, c08Replay{Part: "auxpow", C: &cs})
					}
				} else if r.bad == "" && p.Transitions%211 == 1 {
					p.Sample(map[string]any{"case": cs, "outcome": r.class})
				}
			}
		}
	}
	if c.Shard == 0 {
		p.States += int64(total)
	}
	_ = big.NewInt
}
