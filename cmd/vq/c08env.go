package main

// C08 environment: the two fork regimes, scaled protocol parameters and the baseline blocks every
// part mutates. All blocks are produced by the repository's own worker on a real zone core.Slice
// and accepted by its real Append (state processing included); the harness only chooses the PoW
// solution (injected engine), signs merge-mining templates with harness MuSig2 keys and mines the
// 32-bit donor nonce of SHA/Scrypt shares with the real kernels at a scaled-down share difficulty.

import (
	"fmt"
	"math/big"
	"os"
	"runtime"
	"strings"
	"sync/atomic"
	"time"

	"github.com/dominant-strategies/go-quai/common"
	"github.com/dominant-strategies/go-quai/core"
	"github.com/dominant-strategies/go-quai/core/types"
	"github.com/dominant-strategies/go-quai/params"
)

type c08World struct {
	Regime string // R0 = before the KawPow fork, R2 = KawPow/AuxPoW active (transition window open)
	Env    *core.VerifC08Env
	// Baselines (all appended to the chain, i.e. accepted by the real node):
	Prog   *types.WorkObject // progpow-sealed block (no AuxPoW) carrying work-share uncles where the regime allows it
	ProgP  *types.WorkObject // its parent
	Kaw    *types.WorkObject // R2 only: kawpow block carrying one uncle per merge-mined PoW kind
	KawP   *types.WorkObject // its parent
	Tmpl   map[types.PowID]*types.AuxTemplate
	Scaled map[string]string
}

var c08SavedParams struct {
	fork, transition, blocksPerMonth uint64
	shaMul, shaTime, scrMul, scrTime *big.Int
	keys                             []string
	saved                            bool
}

// c08SetRegime assigns the package-level protocol variables for a regime. Only constants change;
// the code under test is the repository's.
func c08SetRegime(reg string) map[string]string {
	if !c08SavedParams.saved {
		c08SavedParams.fork, c08SavedParams.transition, c08SavedParams.blocksPerMonth = params.KawPowForkBlock, params.KawPowTransitionPeriod, params.BlocksPerMonth
		c08SavedParams.shaMul, c08SavedParams.shaTime = params.InitialShaDiffMultiple, params.ShaBlockTime
		c08SavedParams.scrMul, c08SavedParams.scrTime = params.InitialScryptDiffMultiple, params.ScryptBlockTime
		c08SavedParams.keys = params.MuSig2PublicKeys
		c08SavedParams.saved = true
	}
	sc := map[string]string{}
	// the header lock byte is pinned to 0 for the first 2*BlocksPerMonth blocks; shrink the window
	// so that lock is a free consensus field on the harness chain as it is on mainnet today
	params.BlocksPerMonth = 1
	sc["BlocksPerMonth"] = "1"
	switch reg {
	case "R0":
		params.KawPowForkBlock = c08SavedParams.fork
		params.KawPowTransitionPeriod = c08SavedParams.transition
		sc["KawPowForkBlock"] = fmt.Sprint(params.KawPowForkBlock)
	case "R2":
		// fork active from genesis; a zone-only chain keeps primeTerminusNumber = 0 = fork block,
		// so the share difficulty/targets are the fork-block initial values
		params.KawPowForkBlock = 0
		params.KawPowTransitionPeriod = 1 << 40 // progpow blocks (no AuxPoW) stay legal next to kawpow ones
		// initial SHA / Scrypt share difficulty = parentDiff/DurationLimit*multiple*blockTime/3; scaled
		// to 200 so that the real sha256d / scrypt kernels can be mined in-process
		params.InitialShaDiffMultiple = big.NewInt(1)
		params.ShaBlockTime = big.NewInt(3)
		params.InitialScryptDiffMultiple = big.NewInt(1)
		params.ScryptBlockTime = big.NewInt(3)
		sc["KawPowForkBlock"] = "0"
		sc["KawPowTransitionPeriod"] = "2^40"
		sc["InitialShaDiffMultiple,ShaBlockTime,InitialScryptDiffMultiple,ScryptBlockTime"] = "1,3,1,3"
	}
	c08InstallKeys()
	sc["MuSig2PublicKeys"] = "three harness keys (sha256(\"verif-c08-musig2-key-i\"))"
	return sc
}

// c08SealProg writes a progpow-style solution: the injected engine reports MixHash as the PoW hash.
func c08SealProg(wo *types.WorkObject, hash *big.Int) {
	wo.WorkObjectHeader().SetAuxPow(nil)
	wo.WorkObjectHeader().SetMixHash(common.BigToHash(hash))
}

func c08Target(d *big.Int) *big.Int { return new(big.Int).Div(common.Big2e256, d) }

// c08NewWorld builds the chain for a regime: 5 plain blocks, then work shares on top of block 5,
// then block 6 (progpow) / in R2 additionally a second world branch is not needed: block 6 is the
// kawpow block with 4 merge-mined uncles and block 7 a progpow transition block with a progpow share.
func c08NewWorld(reg string) (*c08World, error) {
	w := &c08World{Regime: reg, Tmpl: map[types.PowID]*types.AuxTemplate{}}
	w.Scaled = c08SetRegime(reg)
	env, err := core.VerifC08NewEnv(reg, 5)
	if err != nil {
		return nil, fmt.Errorf("%s: %v", reg, err)
	}
	w.Env = env
	if reg == "R2" {
		for _, k := range []types.PowID{types.Kawpow, types.SHA_BTC, types.SHA_BCH, types.Scrypt} {
			t, err := c08Template(k, 1)
			if err != nil {
				return nil, err
			}
			w.Tmpl[k] = t
		}
		// ---- block 6: kawpow block with one uncle of every merge-mined kind ----
		ph, err := env.Pending(env.Head())
		if err != nil {
			return nil, err
		}
		for _, k := range []types.PowID{types.Kawpow, types.SHA_BTC, types.SHA_BCH, types.Scrypt} {
			ws := types.CopyWorkObjectHeader(ph.WorkObjectHeader())
			ws.SetTime(ws.Time() + uint64(k)) // distinct seal hashes
			if err := c08SealShare(ws, w.Tmpl[k]); err != nil {
				return nil, err
			}
			if v := env.Classify(ws); v != types.Valid {
				return nil, fmt.Errorf("baseline %v share classified %v", k, v)
			}
			if err := env.AddWorkShare(ws); err != nil {
				return nil, fmt.Errorf("AddWorkShare %v: %v", k, err)
			}
		}
		// ... and one SHA/Scrypt share each whose primary coinbase is not an address of this zone
		// (VerifyUncles treats those specially: IsShaOrScryptShareWithInvalidAddress)
		for _, k := range []types.PowID{types.SHA_BTC, types.SHA_BCH, types.Scrypt} {
			ws := types.CopyWorkObjectHeader(ph.WorkObjectHeader())
			ws.SetTime(ws.Time() + 10 + uint64(k))
			ws.SetPrimaryCoinbase(common.BytesToAddress([]byte{0x10, 0, 0, 0, 0, 0, 0, 0, 0, 0, 0, 0, 0, 0, 0, 0, 0, 0, 0, byte(k)}, env.Loc))
			if _, e := ws.PrimaryCoinbase().InternalAddress(); e == nil {
				return nil, fmt.Errorf("harness: external test address is internal")
			}
			if err := c08SealShare(ws, w.Tmpl[k]); err != nil {
				return nil, err
			}
			if err := env.AddWorkShare(ws); err != nil {
				return nil, fmt.Errorf("AddWorkShare ext %v: %v", k, err)
			}
		}
		ph, err = env.Pending(env.Head())
		if err != nil {
			return nil, err
		}
		if len(ph.Uncles()) != 7 {
			return nil, fmt.Errorf("worker included %d uncles, want 7", len(ph.Uncles()))
		}
		c08SortUncles(ph)
		c08AttachAuxPow(ph.WorkObjectHeader(), w.Tmpl[types.Kawpow])
		ph.AuxPow().Header().SetNonce64(42)
		ph.AuxPow().Header().SetMixHash(common.BigToHash(new(big.Int).Sub(c08Target(ph.Difficulty()), big.NewInt(77))))
		w.KawP = env.Head()
		if w.Kaw, err = env.AppendBlock(ph); err != nil {
			return nil, fmt.Errorf("append kawpow block: %v", err)
		}
	}
	// ---- progpow block with a progpow work share (legal in R0 and in the R2 transition window) ----
	ph, err := env.Pending(env.Head())
	if err != nil {
		return nil, err
	}
	for i := 0; i < 2; i++ {
		ws := types.CopyWorkObjectHeader(ph.WorkObjectHeader())
		ws.SetTime(ws.Time() + uint64(i))
		ws.SetAuxPow(nil)
		// above the block target, inside the work-share threshold (2^WorkSharesThresholdDiff * target)
		ws.SetMixHash(common.BigToHash(new(big.Int).Add(c08Target(ws.Difficulty()), big.NewInt(int64(5+i)))))
		if v := env.Classify(ws); v != types.Valid {
			return nil, fmt.Errorf("baseline progpow share classified %v", v)
		}
		if err := env.AddWorkShare(ws); err != nil {
			return nil, fmt.Errorf("AddWorkShare progpow: %v", err)
		}
	}
	ph, err = env.Pending(env.Head())
	if err != nil {
		return nil, err
	}
	if len(ph.Uncles()) != 2 {
		return nil, fmt.Errorf("worker included %d progpow uncles, want 2", len(ph.Uncles()))
	}
	c08SortUncles(ph)
	c08SealProg(ph, new(big.Int).Sub(c08Target(ph.Difficulty()), big.NewInt(9)))
	w.ProgP = env.Head()
	if w.Prog, err = env.AppendBlock(ph); err != nil {
		return nil, fmt.Errorf("append progpow block: %v", err)
	}
	return w, nil
}

// c08SealShare commits the template to ws and solves the donor PoW so that ws is a VALID share:
// kawpow - injected engine, hash between block target and share target; SHA/Scrypt - real kernel.
func c08SealShare(ws *types.WorkObjectHeader, t *types.AuxTemplate) error {
	c08AttachAuxPow(ws, t)
	switch t.PowID() {
	case types.Kawpow:
		ws.AuxPow().Header().SetNonce64(7)
		ws.AuxPow().Header().SetMixHash(common.BigToHash(new(big.Int).Add(c08Target(ws.Difficulty()), big.NewInt(5))))
	case types.Scrypt:
		if _, ok := c08MineDonor(ws.AuxPow(), ws.ScryptDiffAndCount().Difficulty(), 1<<16); !ok {
			return fmt.Errorf("no scrypt donor nonce below 2^16")
		}
	default:
		if _, ok := c08MineDonor(ws.AuxPow(), ws.ShaDiffAndCount().Difficulty(), 1<<22); !ok {
			return fmt.Errorf("no sha donor nonce below 2^22")
		}
	}
	return nil
}

// Close stops the node; Slice.Stop waits for the node's own goroutines, so it is given two seconds
// and abandoned otherwise (the process is short-lived).
func (w *c08World) Close() {
	if w == nil || w.Env == nil {
		return
	}
	done := make(chan struct{})
	go func() { defer close(done); w.Env.Close() }()
	select {
	case <-done:
	case <-time.After(2 * time.Second):
	}
}

var c08Progress int64

// c08Watchdog turns a stuck shard (a node operation that never returns) into a diagnosable harness
// failure instead of a silent hang: after `quiet` without progress it prints the harness goroutines.
func c08Watchdog(quiet time.Duration) {
	go func() {
		last, since := atomic.LoadInt64(&c08Progress), time.Now()
		for {
			time.Sleep(2 * time.Second)
			if cur := atomic.LoadInt64(&c08Progress); cur != last {
				last, since = cur, time.Now()
				continue
			}
			if time.Since(since) > quiet {
				buf := make([]byte, 1<<22)
				n := runtime.Stack(buf, true)
				for _, g := range strings.Split(string(buf[:n]), "\n\n") {
					if strings.Contains(g, "main.c08") || strings.Contains(g, "VerifC08") {
						n := 0
						for _, ln := range strings.Split(g, "\n") { // function lines only, innermost 30 frames
							if !strings.HasPrefix(ln, "\t") && n < 30 {
								if len(ln) > 110 {
									ln = ln[:110]
								}
								fmt.Fprintln(os.Stderr, ln)
								n++
							}
						}
						fmt.Fprintln(os.Stderr)
					}
				}
				fmt.Fprintf(os.Stderr, "C08 watchdog: no progress for %v (progress counter %d)\n", quiet, last)
				os.Exit(3)
			}
		}
	}()
}
