package main

import "github.com/dominant-strategies/go-quai/verifshim/vx"

// c06Sched: controlled-scheduler exploration of Finalize's trimming goroutines (filled in by the
// vsched engine; until then the part is reported as not built).
func c06Sched(c *vx.Ctx) {}
