package main

// C06 part "trim-schedules": Finalize trims expired outputs with one goroutine per denomination,
// all appending to shared slices under one mutex. In a second binary (vqs) the file's "sync" import
// is the scheduler shim, so every Lock/Unlock/Done/Wait is a decision point. On a block at whose
// height three denominations with two trimmable outputs each expire, ALL interleavings with at
// most B preemptions (B = 0,1,2, then unbounded up to a cap) of the real Process call are
// executed; multiset hash, set size, every other output of Process and the SET of database keys
// deleted by trimming must be identical in every schedule, and no schedule may deadlock.

import (
	"encoding/json"
	"fmt"
	"os"
	"os/exec"
	"sort"
	"strings"

	"github.com/dominant-strategies/go-quai/core"
	"github.com/dominant-strategies/go-quai/core/types"
	"github.com/dominant-strategies/go-quai/verifshim/vsync"
	"github.com/dominant-strategies/go-quai/verifshim/vx"
)

func init() {
	register(vx.CheckSpec{ID: "c06sched", Shards: 1, Run: runC06SchedChild})
}

type c06SchedOut struct {
	Executions int64    `json:"executions"`
	Points     int64    `json:"points"`
	MaxThreads int      `json:"max_threads"`
	Bound      int      `json:"preemption_bound_completed"`
	Unbounded  bool     `json:"unbounded_completed"`
	Outcomes   []string `json:"distinct_outcomes"`
	Violation  string   `json:"violation,omitempty"`
	Schedule   []int    `json:"schedule,omitempty"`
	Harness    string   `json:"harness,omitempty"`
	Trimmed    int      `json:"trimmed_outputs"`
	Sample     []string `json:"sample_schedule"`
}

// c06SchedScenario: prefix + blocks creating two lock-free outputs of denominations 3, 2 and 1 at
// heights h-5, h-4, h-3, so that the block at height h trims all six with three goroutines.
func c06SchedScenario() (*scen, *types.WorkObject, error) {
	s, err := newScen(3, false, nil)
	if err != nil {
		return nil, nil, err
	}
	if err := s.runWord(scenPrefixes["C14"] + "zzz"); err != nil {
		return nil, nil, err
	}
	split := func(d uint8, nth int, out uint8) error {
		utxos, _ := core.VScanUtxos(s.n.DB[2])
		for _, u := range utxos {
			if string(u.Entry.Address) != string(s.q[0].Addr.Bytes()) || u.Entry.Denomination != d {
				continue
			}
			if nth > 0 {
				nth--
				continue
			}
			tx := core.VQiTx(s.n.ChainID(), core.VZoneLoc, []core.VQiIn{{Hash: u.Hash, Index: u.Index, Key: s.q[0]}},
				[]core.VQiOut{{Denom: out, Addr: s.q[1].Addr}, {Denom: out, Addr: s.q[2].Addr}}, nil, s.q[0])
			if errs := s.n.AddTxs(tx); errs[0] != nil {
				return fmt.Errorf("pool refused split d%d->2xd%d: %v", d, out, errs[0])
			}
			blk, err := s.mine(core.VBuildOpts{Order: 2, Fill: true})
			if err != nil {
				return err
			}
			if len(blk.Transactions()) == 0 {
				return fmt.Errorf("split d%d not included", d)
			}
			return nil
		}
		return fmt.Errorf("no denomination-%d output", d)
	}
	if err := split(6, 0, 3); err != nil { // height h-5: two d3 outputs (trim depth 5)
		return nil, nil, err
	}
	if err := split(6, 0, 2); err != nil { // h-4: two d2 (depth 4)
		return nil, nil, err
	}
	if err := split(4, 0, 1); err != nil { // h-3: two d1 (depth 3)
		return nil, nil, err
	}
	if err := s.runWord("zz"); err != nil {
		return nil, nil, err
	}
	blk, err := s.n.Build(s.opts(core.VBuildOpts{Order: 2, Fill: true}))
	return s, blk, err
}

func runC06SchedChild(c *vx.Ctx) {
	core.VScaleParams(core.VR1)
	// only the three denominations that have outputs to trim in this scenario get a goroutine
	// (idle goroutines would only multiply the schedules by their commuting Done operations)
	types.TrimDepths = map[uint8]uint64{1: 3, 2: 4, 3: 5}
	out := c06SchedOut{}
	defer func() {
		raw, _ := json.Marshal(out)
		fmt.Println("C06SCHED-RESULT " + string(raw))
		p := c.Part("child")
		p.States, p.Transitions = 1, out.Executions
		p.Outcome("x")
		p.Outcome("y")
	}()
	s, blk, err := c06SchedScenario()
	if err != nil {
		out.Harness = err.Error()
		return
	}
	defer s.close()
	runOne := func(prefix []int) (*vsync.Sched, string) {
		var fp string
		var perr error
		sc := vsync.Run(prefix, func() {
			fp, perr = s.n.VProcessFingerprintWithDeletes(blk)
		})
		if perr != nil {
			return sc, "ERROR:" + perr.Error()
		}
		return sc, fp
	}
	var ref string
	outcomes := map[string]bool{}
	capExec := int64(20000)
	if c.Thorough() {
		capExec = 400000
	}
	var explore func(prefix []int, bound int) bool
	explore = func(prefix []int, bound int) bool {
		if out.Executions >= capExec {
			return false
		}
		sc, fp := runOne(prefix)
		out.Executions++
		out.Points += int64(len(sc.Points))
		if sc.Diverged != "" {
			out.Harness = "replay divergence: " + sc.Diverged
			return false
		}
		nthreads := 0
		for _, pt := range sc.Points {
			for _, id := range pt.Enabled {
				if id+1 > nthreads {
					nthreads = id + 1
				}
			}
		}
		if nthreads > out.MaxThreads {
			out.MaxThreads = nthreads
		}
		choices := make([]int, len(sc.Points))
		for i, pt := range sc.Points {
			choices[i] = pt.Chosen
		}
		if sc.Deadlock {
			out.Violation, out.Schedule = "deadlock", choices
			return false
		}
		if n := strings.Count(fp, "del:"); n > out.Trimmed {
			out.Trimmed = n
		}
		if ref == "" {
			ref = fp
			for _, pt := range sc.Points {
				out.Sample = append(out.Sample, pt.Ops[pt.Chosen])
			}
		}
		outcomes[fp] = true
		if fp != ref {
			out.Violation = fmt.Sprintf("schedule-dependent result:\n default schedule: %s\n this schedule:    %s", ref, fp)
			out.Schedule = choices
			return false
		}
		// iterate alternatives beyond the prefix within the preemption bound
		pre := 0
		for i := 0; i < len(sc.Points); i++ {
			pt := sc.Points[i]
			if i >= len(prefix) {
				for alt := 1; alt < len(pt.Enabled); alt++ {
					cost := pre
					if pt.RunningEnabled {
						cost++
					}
					if bound >= 0 && cost > bound {
						continue
					}
					np := append(append([]int{}, choices[:i]...), alt)
					if !explore(np, bound) {
						return false
					}
				}
			}
			if pt.Chosen != 0 && pt.RunningEnabled {
				pre++
			}
		}
		return true
	}
	perms := []int{0, 1}
	if c.Thorough() {
		perms = []int{0, 1, 2, 3, 4, 5}
	}
	okAll := true
	for b := 0; b <= 2 && okAll; b++ {
		for _, pm := range perms {
			vsync.SetPerm(pm)
			if !explore(nil, b) {
				okAll = false
				break
			}
		}
		if okAll {
			out.Bound = b
		}
	}
	vsync.SetPerm(0)
	if out.Violation == "" && out.Harness == "" && out.Executions < capExec {
		if explore(nil, -1) && out.Executions < capExec {
			out.Unbounded = true
		}
	}
	for k := range outcomes {
		if len(k) > 160 {
			k = k[:160]
		}
		out.Outcomes = append(out.Outcomes, k)
	}
	sort.Strings(out.Outcomes)
}

// c06Sched (parent side, in the plain vq binary): run the scheduler build as a sub-process.
func c06Sched(c *vx.Ctx) {
	if !c.Wants("trim-schedules") || c.Shard != 0 {
		return
	}
	p := c.Part("trim-schedules")
	bin := os.Getenv("VQ_BIN_vqs")
	if bin == "" {
		p.Incomplete("scheduler build (vqs) not available: part skipped")
		return
	}
	cmd := exec.Command(bin, "c06sched", "--tier", c.Tier)
	cmd.Env = append(os.Environ(), "VX_SHARD=", "VERIF_OUT="+os.TempDir()+"/vq-c06sched")
	raw, err := cmd.CombinedOutput()
	var res c06SchedOut
	found := false
	for _, l := range strings.Split(string(raw), "\n") {
		if strings.HasPrefix(l, "C06SCHED-RESULT ") {
			if json.Unmarshal([]byte(strings.TrimPrefix(l, "C06SCHED-RESULT ")), &res) == nil {
				found = true
			}
		}
	}
	os.RemoveAll(os.TempDir() + "/vq-c06sched")
	if !found {
		tail := string(raw)
		if len(tail) > 1500 {
			tail = tail[len(tail)-1500:]
		}
		c.HarnessError(fmt.Sprintf("scheduler sub-process gave no result (%v): %s", err, tail))
		return
	}
	if res.Harness != "" {
		c.HarnessError("scheduler sub-process: " + res.Harness)
		return
	}
	p.States = int64(len(res.Outcomes))
	if p.States == 0 {
		p.States = 1
	}
	p.Transitions = res.Points
	p.Traces = res.Executions
	p.Evals = res.Executions
	p.Bound("preemption_bound_completed", res.Bound)
	p.Bound("unbounded_completed", res.Unbounded)
	p.Bound("threads", res.MaxThreads)
	p.Bound("trimmed_outputs_in_scenario", res.Trimmed)
	p.Sample(map[string]any{"default_schedule": res.Sample})
	p.Outcome(fmt.Sprintf("schedules=%d", res.Executions))
	p.Outcome(fmt.Sprintf("distinct-results=%d", len(res.Outcomes)))
	if !res.Unbounded {
		p.Incomplete(fmt.Sprintf("unbounded exploration capped; complete up to %d preemptions", res.Bound))
	}
	// the vacuity guard speaks for runs without a violation: a schedule in which the spawner does not
	// wait for the trimmers at all trims nothing - that IS the schedule dependence being reported
	if res.Violation == "" && (res.MaxThreads < 4 || res.Trimmed < 6) {
		c.HarnessError(fmt.Sprintf("scheduler scenario is vacuous: %d threads, %d trimmed outputs", res.MaxThreads, res.Trimmed))
		return
	}
	if res.Violation != "" {
		key := "trim-schedules:schedule-dependent"
		if res.Violation == "deadlock" {
			key = "trim-schedules:deadlock"
		}
		c.Violate("trim-schedules", key, res.Violation, map[string]any{"schedule": res.Schedule})
	}
}
