package main

// C08 - a block is sealed only by work on exactly its contents.
//
// Bounded-exhaustive exploration of the REAL seal verification (core/headerchain_validation.go
// verifySeal / verifyHeader / VerifyUncles, core/poem.go CalcOrder / CheckIfValidWorkShare,
// core/headerchain.go UncleWorkShareClassification, core/block_validator.go ValidateBody,
// core/types SealHash / Header.Hash / AuxPoW helpers) on a real zone core.Slice whose chain was
// produced by the repository's own worker and accepted by its own Append.
//
//	threshold  difficulty x PoW-hash boundary grid                      (c08a.go)
//	binding    every single-field change of every header / body part    (c08b.go)
//	auxpow     every single-part substitution of a merge-mined proof    (c08c.go)
//	twin       operation sequences over a sealed block and its twins    (c08d.go)
//
// in both fork regimes (R0 before the KawPow fork, R2 after it).

import (
	"fmt"
	"io"
	"time"

	"github.com/dominant-strategies/go-quai/core/types"
	"github.com/dominant-strategies/go-quai/log"
	"github.com/dominant-strategies/go-quai/verifshim/vx"
)

func init() {
	register(vx.CheckSpec{ID: "C08", Shards: 12, QuickBudget: 80 * time.Second, ThoroughBudg: 13 * time.Minute, Run: runC08, ReplayFn: replayC08})
}

type c08Replay struct {
	Part string        `json:"part"`
	A    *c08ACase     `json:"threshold,omitempty"`
	B    *c08BCase     `json:"binding,omitempty"`
	C    *c08CCase     `json:"auxpow,omitempty"`
	D    *c08DCase     `json:"twin,omitempty"`
	K    *c08kCase     `json:"real_kernels,omitempty"`
	KP   *c08kPairCase `json:"real_kernels_pair,omitempty"`
}

func runC08(c *vx.Ctx) {
	c.Rule = "threshold: every (difficulty, powHash) of a boundary menu through verifySeal/CalcOrder/work-share classification/VerifyUncles via an injected engine; binding: every field of WorkObjectHeader/Header (reflection) and every body list x per-type single-change menu, judged on the wire form; auxpow: every byte/element/part substitution of a valid proof per PoW kind, raw and re-committed; twin: every operation sequence up to the depth over a sealed block and its same-proof twins. Outcome class = regime x entry point x verdict/error class"
	c.Assume("PoW kernels (progpow, kawpow) are replaced by an injected engine that reports a harness-chosen hash; the kernels are trusted as hash functions. SHA-256d / scrypt donor hashes are the real kernels")
	c.Assume("fork regimes and scaled constants are package variables assigned by the harness (listed per part); the code is unchanged")
	c.Assume("template signatures are made with three harness MuSig2 keys installed in params.MuSig2PublicKeys; a signature cannot be forged, so 'unchanged signature over a changed signed part' is modelled as invalid")
	log.Global.SetOutput(io.Discard) // the package-global logger would otherwise write nodelogs/ under the cwd
	c08Watchdog(150 * time.Second)
	c08RunKernels(c)
	var idx int64
	for _, reg := range []string{"R0", "R2"} {
		w, err := c08NewWorld(reg)
		if err != nil {
			c.HarnessError("world " + reg + ": " + err.Error())
			return
		}
		if c.Shard == 0 {
			c.Part("threshold").Bound("scaled_"+reg, w.Scaled)
		}
		// every shard builds its own copy of the world; the enumeration is only a partition of ONE case list
		// if those copies are identical - the fingerprint makes a divergence visible (two notes instead of one)
		c.Part("threshold").Note("world %s: head %s (block %d)", reg, w.Env.Head().Hash().Hex(), len(w.Env.Blocks)-1)
		for _, part := range []struct {
			name string
			run  func(*vx.Ctx, *c08World, *int64)
		}{{"threshold", c08RunA}, {"binding", c08RunB}, {"auxpow", c08RunC}, {"twin", c08RunD}} {
			if !c.Wants(part.name) {
				continue
			}
			t0 := time.Now()
			part.run(c, w, &idx)
			if c.Shard == 0 {
				c.Part(part.name).Bound("shard0_seconds_"+reg, float64(time.Since(t0).Milliseconds())/1000)
			}
		}
		w.Close()
	}
}

func replayC08(c *vx.Ctx, v vx.Violation) string {
	raw, _ := jsonMarshal(v.Replay)
	var r c08Replay
	if err := jsonUnmarshal(raw, &r); err != nil {
		return "bad replay: " + err.Error()
	}
	log.Global.SetOutput(io.Discard)
	if r.K != nil {
		return c08kReplay(*r.K, v.Key)
	}
	if r.KP != nil {
		h, err := c08kSeal(r.KP.Kernel)
		if err != nil {
			return "harness: " + err.Error()
		}
		_, d, _ := c08kRunPair(map[string]*types.WorkObjectHeader{r.KP.Kernel: h}, *r.KP)
		return d
	}
	reg := "R2"
	switch {
	case r.A != nil:
		reg = r.A.Regime
	case r.B != nil:
		reg = r.B.Regime
	}
	w, err := c08NewWorld(reg)
	if err != nil {
		return "harness: " + err.Error()
	}
	defer w.Close()
	switch {
	case r.A != nil:
		var res c08AResult
		switch r.A.Fn {
		case "classify-donor":
			res = c08EvalADonor(w, *r.A)
		case "verifyUncles":
			res = c08EvalAUncle(w, *r.A)
		default:
			res = c08EvalA(w, *r.A)
		}
		return res.bad
	case r.B != nil:
		if r.B.Struct == "Body" {
			return c08EvalBBody(w, *r.B).bad
		}
		return c08EvalBHeader(w, *r.B).bad
	case r.C != nil:
		return c08EvalC(w, *r.C).bad
	case r.D != nil:
		return c08ReplayD(*r.D, v.Key)
	}
	return fmt.Sprintf("replay artefact has no case: %s", raw)
}
