//go:build verifmap

package main

import "runtime"

// Built only into the vqm binary (runtime overlay of gen/runtime_maporder.py).
const mapIterAvail = true

func setMapIter(on bool, v uint64) { runtime.VerifSetMapIter(on, v) }
