package main

// C08 part "real-kernels". The other parts replace the progpow / kawpow kernels by an injected engine;
// here the real engines run (test-mode caches). For each kernel a header is really sealed at a small
// difficulty; the honest header and each single change of it (digest bytes, nonce, every sealed field)
// are then offered - as fresh wire-decoded objects - to EVERY sequence of up to 3 calls over
// {VerifySeal, ComputePowHash, CheckIfValidWorkShare, ComputePowLight} on the SAME object. Oracle:
//   * the honest header verifies; every changed header is refused by VerifySeal and ComputePowHash
//     (its digest no longer belongs to its contents, or its work is above target) - for kawpow, whose
//     work is done on the donor header, this is demanded of donor-level changes (digest, nonce) only:
//     Quai-field changes are bound through the AuxPoW commitment, which part "auxpow" covers;
//   * memoisation is transparent: the verdict of a call does not depend on the calls made before it on
//     the same object (compared with the verdict on a fresh object and a fresh engine).

import (
	"fmt"
	"math/big"
	"strings"

	"github.com/dominant-strategies/go-quai/common"
	"github.com/dominant-strategies/go-quai/core"
	"github.com/dominant-strategies/go-quai/core/types"
	"github.com/dominant-strategies/go-quai/params"
	"github.com/dominant-strategies/go-quai/verifshim/vx"
)

var c08kLoc = common.Location{0, 0}

type c08kCase struct {
	Kernel  string   `json:"kernel"`
	Variant string   `json:"variant"`
	Ops     []string `json:"ops"`
}

func c08kBase(kernel string) *types.WorkObjectHeader {
	wh := &types.WorkObjectHeader{}
	wh.SetHeaderHash(common.HexToHash("0x11aa"))
	wh.SetParentHash(common.HexToHash("0x22bb"))
	wh.SetNumber(big.NewInt(7))
	wh.SetDifficulty(big.NewInt(8))
	wh.SetTxHash(common.HexToHash("0x33cc"))
	wh.SetLock(0)
	wh.SetTime(1700000000)
	wh.SetLocation(c08kLoc)
	wh.SetPrimaryCoinbase(common.HexToAddress("0x0000000000000000000000000000000000000001", c08kLoc))
	wh.SetData([]byte{0})
	if kernel == "progpow" {
		wh.SetPrimeTerminusNumber(big.NewInt(5))
		return wh
	}
	wh.SetPrimeTerminusNumber(new(big.Int).SetUint64(params.KawPowForkBlock + 5))
	wh.SetShaDiffAndCount(types.NewPowShareDiffAndCount(big.NewInt(1000), big.NewInt(1), big.NewInt(0)))
	wh.SetScryptDiffAndCount(types.NewPowShareDiffAndCount(big.NewInt(1000), big.NewInt(1), big.NewInt(0)))
	wh.SetShaShareTarget(big.NewInt(1))
	wh.SetScryptShareTarget(big.NewInt(1))
	wh.SetKawpowDifficulty(big.NewInt(1000))
	return wh
}

func c08kWire(wh *types.WorkObjectHeader) (*types.WorkObjectHeader, error) {
	p, err := wh.ProtoEncode()
	if err != nil {
		return nil, err
	}
	out := new(types.WorkObjectHeader)
	if err := out.ProtoDecode(p, c08kLoc); err != nil {
		return nil, err
	}
	return out, nil
}

// c08kSeal really mines the base header of the kernel: returns the sealed header.
func c08kSeal(kernel string) (*types.WorkObjectHeader, error) {
	// the search for a nonce asks a FRESH chain object (fresh engines) about every candidate: the
	// harness' own miner must not depend on the memoisation it is about to examine
	wh := c08kBase(kernel)
	target := new(big.Int).Div(common.Big2e256, wh.Difficulty())
	if kernel == "kawpow" {
		// the template signature plays no part in the seal check: the repository's default template as is
		t := types.DefaultKawpowAuxTemplate()
		t.SetMerkleBranch([][]byte{c08Bytes32(0x51), c08Bytes32(0x52)})
		t.SetSignatureTime(2)
		c08AttachAuxPow(wh, t)
	}
	for n := uint64(0); n < 4096; n++ {
		if kernel == "progpow" {
			cand := types.CopyWorkObjectHeader(wh)
			cand.SetNonce(types.EncodeNonce(n))
			mix, pow := core.VerifC08KernelChain().GetEngineForHeader(cand).ComputePowLight(cand)
			if new(big.Int).SetBytes(pow.Bytes()).Cmp(target) <= 0 {
				wh.SetNonce(types.EncodeNonce(n))
				wh.SetMixHash(mix)
				return wh, nil
			}
			continue
		}
		wh.AuxPow().Header().SetNonce64(n)
		cand, err := c08kWire(wh)
		if err != nil {
			return nil, err
		}
		mix, pow := core.VerifC08KernelChain().GetEngineForHeader(cand).ComputePowLight(cand)
		if new(big.Int).SetBytes(pow.Bytes()).Cmp(target) <= 0 {
			wh.AuxPow().Header().SetMixHash(mix)
			return wh, nil
		}
	}
	return nil, fmt.Errorf("could not seal the %s header", kernel)
}

type c08kVariant struct {
	Name  string
	Apply func(wh *types.WorkObjectHeader, kernel string)
}

func c08kFlip(h common.Hash, i int) common.Hash { h[i] ^= 0x01; return h }

func c08kVariants() []c08kVariant {
	setMix := func(wh *types.WorkObjectHeader, kernel string, f func(common.Hash) common.Hash) {
		if kernel == "progpow" {
			wh.SetMixHash(f(wh.MixHash()))
		} else {
			wh.AuxPow().Header().SetMixHash(f(wh.AuxPow().Header().MixHash()))
		}
	}
	return []c08kVariant{
		{"honest", func(*types.WorkObjectHeader, string) {}},
		{"digest-first-byte", func(wh *types.WorkObjectHeader, k string) {
			setMix(wh, k, func(h common.Hash) common.Hash { return c08kFlip(h, 0) })
		}},
		{"digest-last-byte", func(wh *types.WorkObjectHeader, k string) {
			setMix(wh, k, func(h common.Hash) common.Hash { return c08kFlip(h, 31) })
		}},
		{"digest-zero", func(wh *types.WorkObjectHeader, k string) {
			setMix(wh, k, func(common.Hash) common.Hash { return common.Hash{} })
		}},
		{"nonce+1", func(wh *types.WorkObjectHeader, k string) {
			if k == "progpow" {
				wh.SetNonce(types.EncodeNonce(wh.NonceU64() + 1))
			} else {
				wh.AuxPow().Header().SetNonce64(wh.AuxPow().Header().Nonce64() + 1)
			}
		}},
		{"number+1", func(wh *types.WorkObjectHeader, k string) { wh.SetNumber(new(big.Int).Add(wh.Number(), common.Big1)) }},
		{"txHash-flip", func(wh *types.WorkObjectHeader, k string) { wh.SetTxHash(c08kFlip(wh.TxHash(), 3)) }},
		{"parentHash-flip", func(wh *types.WorkObjectHeader, k string) { wh.SetParentHash(c08kFlip(wh.ParentHash(), 3)) }},
		{"headerHash-flip", func(wh *types.WorkObjectHeader, k string) { wh.SetHeaderHash(c08kFlip(wh.HeaderHash(), 3)) }},
		{"time+1", func(wh *types.WorkObjectHeader, k string) { wh.SetTime(wh.Time() + 1) }},
		{"lock+1", func(wh *types.WorkObjectHeader, k string) { wh.SetLock(wh.Lock() + 1) }},
		{"data-changed", func(wh *types.WorkObjectHeader, k string) { wh.SetData([]byte{1}) }},
		{"difficulty*4096", func(wh *types.WorkObjectHeader, k string) {
			wh.SetDifficulty(new(big.Int).Mul(wh.Difficulty(), big.NewInt(4096)))
		}},
	}
}

var c08kOps = []string{"VerifySeal", "ComputePowHash", "CheckIfValidWorkShare", "ComputePowLight"}

func c08kCall(hc *core.HeaderChain, op string, h *types.WorkObjectHeader) (verdict string) {
	if perr := vx.Guard(func() {
		switch op {
		case "VerifySeal":
			ph, err := hc.VerifySeal(h)
			verdict = fmt.Sprintf("%x/%v", ph[:4], err)
		case "ComputePowHash":
			ph, err := hc.ComputePowHash(h)
			verdict = fmt.Sprintf("%x/%v", ph[:4], err)
		case "CheckIfValidWorkShare":
			verdict = fmt.Sprint(hc.CheckIfValidWorkShare(h))
		case "ComputePowLight":
			mix, pow := hc.GetEngineForHeader(h).ComputePowLight(h)
			verdict = fmt.Sprintf("%x/%x", mix[:4], pow[:4])
		}
	}); perr != "" {
		verdict = "panic:" + vx.PanicSite(perr)
	}
	return verdict
}

func c08kSeqs(max int) [][]string {
	out := [][]string{}
	var rec func(cur []string)
	rec = func(cur []string) {
		if len(cur) > 0 {
			out = append(out, append([]string{}, cur...))
		}
		if len(cur) == max {
			return
		}
		for _, o := range c08kOps {
			rec(append(cur, o))
		}
	}
	rec(nil)
	return out
}

// c08kRun executes one case; returns (key, desc, outcome).
func c08kRun(sealed map[string]*types.WorkObjectHeader, k c08kCase) (string, string, string) {
	var v *c08kVariant
	for i, x := range c08kVariants() {
		if x.Name == k.Variant {
			v = &c08kVariants()[i]
		}
	}
	if v == nil {
		return "harness", "unknown variant " + k.Variant, ""
	}
	mk := func() (*types.WorkObjectHeader, error) {
		base, err := c08kWire(sealed[k.Kernel]) // private copy (AuxPoW included)
		if err != nil {
			return nil, err
		}
		v.Apply(base, k.Kernel)
		return c08kWire(base)
	}
	obj, err := mk()
	if err != nil {
		return "harness", "wire: " + err.Error(), ""
	}
	hc := core.VerifC08KernelChain()
	var got []string
	for _, op := range k.Ops {
		got = append(got, c08kCall(hc, op, obj))
	}
	for i, op := range k.Ops {
		fresh, err := mk()
		if err != nil {
			return "harness", "wire: " + err.Error(), ""
		}
		want := c08kCall(core.VerifC08KernelChain(), op, fresh)
		if got[i] != want {
			return fmt.Sprintf("real-kernels:%s:verdict-depends-on-earlier-calls:%s-after-%s", k.Kernel, op, strings.Join(k.Ops[:i], "+")),
				fmt.Sprintf("%s header, variant %s: call %d (%s) after %v on the same object answers %q; on a fresh object and engine it answers %q", k.Kernel, k.Variant, i, op, k.Ops[:i], got[i], want), ""
		}
		accepted := (op == "VerifySeal" || op == "ComputePowHash") && strings.HasSuffix(got[i], "/<nil>")
		if op == "CheckIfValidWorkShare" {
			accepted = got[i] == fmt.Sprint(types.Valid)
		}
		if k.Variant == "honest" && (op == "VerifySeal" || op == "ComputePowHash") && !accepted {
			return "real-kernels:" + k.Kernel + ":honest-seal-refused:" + op, fmt.Sprintf("%s: the really sealed header is refused by %s: %s", k.Kernel, op, got[i]), ""
		}
		// kawpow work is done on the donor header: a change of a Quai header field is caught by the
		// AuxPoW commitment check (part "auxpow"), not by the seal check; only donor-level changes
		// (digest, nonce) must be refused here
		donorLevel := strings.HasPrefix(k.Variant, "digest-") || k.Variant == "nonce+1"
		if k.Variant != "honest" && k.Variant != "difficulty*4096" && accepted && op != "CheckIfValidWorkShare" && (k.Kernel == "progpow" || donorLevel) {
			return "real-kernels:" + k.Kernel + ":changed-header-accepted:" + k.Variant + ":" + op, fmt.Sprintf("%s: the seal of the honest header is accepted by %s for a header whose %s differs: %s", k.Kernel, op, k.Variant, got[i]), ""
		}
		if k.Variant == "difficulty*4096" && op == "VerifySeal" && accepted {
			return "real-kernels:" + k.Kernel + ":work-above-target-accepted", fmt.Sprintf("%s: VerifySeal accepts work done for difficulty 8 on a header declaring 32768: %s", k.Kernel, got[i]), ""
		}
	}
	last := got[len(got)-1]
	if i := strings.Index(last, "/"); i >= 0 && !strings.HasPrefix(k.Ops[len(k.Ops)-1], "ComputePowLight") {
		last = last[i+1:]
	} else if k.Ops[len(k.Ops)-1] == "ComputePowLight" {
		last = "computed"
	}
	return "", "", fmt.Sprintf("%s:%s:%s=>%s", k.Kernel, k.Variant, k.Ops[len(k.Ops)-1], last)
}

// c08kPair: two different headers (variants A and B of the sealed header) examined one after the
// other on ONE chain object: the verdict about B must not depend on A having been examined before
// ("no accepted seal can be reused for different content" includes reuse through a cache).
type c08kPairCase struct {
	Kernel   string `json:"kernel"`
	VariantA string `json:"variant_a"`
	OpA      string `json:"op_a"`
	VariantB string `json:"variant_b"`
	OpB      string `json:"op_b"`
}

var c08kPairOpsB = []string{"VerifySeal", "ComputePowHash", "CheckIfValidWorkShare"}

func c08kVariantByName(name string) *c08kVariant {
	vs := c08kVariants()
	for i := range vs {
		if vs[i].Name == name {
			return &vs[i]
		}
	}
	return nil
}

func c08kRunPair(sealed map[string]*types.WorkObjectHeader, k c08kPairCase) (string, string, string) {
	va, vb := c08kVariantByName(k.VariantA), c08kVariantByName(k.VariantB)
	if va == nil || vb == nil {
		return "harness", "unknown variant", ""
	}
	mk := func(v *c08kVariant) (*types.WorkObjectHeader, error) {
		base, err := c08kWire(sealed[k.Kernel])
		if err != nil {
			return nil, err
		}
		v.Apply(base, k.Kernel)
		return c08kWire(base)
	}
	a, err := mk(va)
	if err != nil {
		return "harness", "wire: " + err.Error(), ""
	}
	b, err := mk(vb)
	if err != nil {
		return "harness", "wire: " + err.Error(), ""
	}
	hc := core.VerifC08KernelChain()
	c08kCall(hc, k.OpA, a)
	got := c08kCall(hc, k.OpB, b)
	b2, err := mk(vb)
	if err != nil {
		return "harness", "wire: " + err.Error(), ""
	}
	want := c08kCall(core.VerifC08KernelChain(), k.OpB, b2)
	if got != want {
		return fmt.Sprintf("real-kernels:%s:verdict-depends-on-another-header-seen-before:%s-after-%s", k.Kernel, k.OpB, k.OpA),
			fmt.Sprintf("%s: %s of the header variant %q answers %q on a chain object that has answered %s for the variant %q before; on a fresh chain object it answers %q", k.Kernel, k.OpB, k.VariantB, got, k.OpA, k.VariantA, want), ""
	}
	verdict := got
	if i := strings.Index(verdict, "/"); i >= 0 {
		verdict = verdict[i+1:]
	}
	return "", "", fmt.Sprintf("%s:pair:%s=>%s", k.Kernel, k.OpB, verdict)
}

func c08RunKernelPairs(c *vx.Ctx, p *vx.Part, sealed map[string]*types.WorkObjectHeader, idx *int64, reported map[string]bool) {
	vs := c08kVariants()
	var n int64
	for _, kn := range []string{"progpow", "kawpow"} {
		for _, va := range vs {
			for _, vb := range vs {
				if va.Name == vb.Name {
					continue
				}
				for _, oa := range c08kOps {
					for _, ob := range c08kPairOpsB {
						*idx++
						n++
						if !c.Mine(*idx) {
							continue
						}
						if c.Expired() {
							p.Incomplete("deadline (pairs)")
							return
						}
						k := c08kPairCase{Kernel: kn, VariantA: va.Name, OpA: oa, VariantB: vb.Name, OpB: ob}
						key, desc, oc := c08kRunPair(sealed, k)
						if key == "harness" {
							c.HarnessError("real-kernels: " + desc)
							return
						}
						p.Transitions += 2
						p.Traces++
						if key == "" {
							p.Outcome(oc)
							continue
						}
						p.Outcome(kn + ":pair=>VIOLATION")
						if reported[key] {
							continue
						}
						reported[key] = true
						if c.Confirm(desc, func() string { k2, _, _ := c08kRunPair(sealed, k); return k2 }) {
							c.Violate("real-kernels", key, desc, c08Replay{Part: "real-kernels", KP: &k})
						}
					}
				}
			}
		}
	}
	p.Bound("pairs_of_different_headers_on_one_chain_object", n)
}

func c08RunKernels(c *vx.Ctx) {
	if !c.Wants("real-kernels") {
		return
	}
	p := c.Part("real-kernels")
	depth := 2
	if c.Thorough() {
		depth = 3
	}
	p.Bound("call_sequence_depth", depth)
	p.Bound("calls", c08kOps)
	sealed := map[string]*types.WorkObjectHeader{}
	for _, kn := range []string{"progpow", "kawpow"} {
		h, err := c08kSeal(kn)
		if err != nil {
			c.HarnessError("real-kernels: " + err.Error())
			return
		}
		sealed[kn] = h
	}
	seqs := c08kSeqs(depth)
	var idx int64
	reported := map[string]bool{}
	for _, kn := range []string{"progpow", "kawpow"} {
		for _, v := range c08kVariants() {
			for _, ops := range seqs {
				idx++
				if !c.Mine(idx) {
					continue
				}
				if c.Expired() {
					p.Incomplete("deadline")
					return
				}
				k := c08kCase{Kernel: kn, Variant: v.Name, Ops: ops}
				key, desc, oc := c08kRun(sealed, k)
				if key == "harness" {
					c.HarnessError("real-kernels: " + desc)
					return
				}
				p.Transitions += int64(len(ops))
				p.Traces++
				if key == "" {
					p.Outcome(oc)
					continue
				}
				p.Outcome(kn + ":" + v.Name + "=>VIOLATION")
				if reported[key] {
					continue
				}
				reported[key] = true
				if c.Confirm(desc, func() string { k2, _, _ := c08kRun(sealed, k); return k2 }) {
					c.Violate("real-kernels", key, desc, c08Replay{Part: "real-kernels", K: &k})
				}
			}
		}
	}
	c08RunKernelPairs(c, p, sealed, &idx, reported)
	if c.Shard == 0 {
		p.States = int64(2 * len(c08kVariants()))
		p.MaxDepth = int64(depth)
	}
}

func c08kReplay(k c08kCase, key string) string {
	sealed := map[string]*types.WorkObjectHeader{}
	h, err := c08kSeal(k.Kernel)
	if err != nil {
		return "harness: " + err.Error()
	}
	sealed[k.Kernel] = h
	k2, d, _ := c08kRun(sealed, k)
	if k2 == key {
		return d
	}
	if k2 != "" {
		return "different failure now: " + k2 + "\n" + d
	}
	return ""
}
