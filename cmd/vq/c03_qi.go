package main

// C03 part 2 — Qi (UTXO) transactions: Schnorr / MuSig2 authorisation through the REAL
// core.ProcessQiTx(checkSig=true) and the pool validators, on a memory UTXO DB.

import (
	"fmt"
	"math/big"
	"sort"
	"strings"

	"github.com/btcsuite/btcd/btcec/v2"
	"github.com/btcsuite/btcd/btcec/v2/schnorr"
	"github.com/btcsuite/btcd/btcec/v2/schnorr/musig2"
	"github.com/dominant-strategies/go-quai/common"
	"github.com/dominant-strategies/go-quai/consensus"
	"github.com/dominant-strategies/go-quai/core"
	"github.com/dominant-strategies/go-quai/core/rawdb"
	"github.com/dominant-strategies/go-quai/core/types"
	"github.com/dominant-strategies/go-quai/crypto"
	"github.com/dominant-strategies/go-quai/ethdb"
	"github.com/dominant-strategies/go-quai/params"
	"github.com/dominant-strategies/go-quai/verifshim/vx"
	"google.golang.org/protobuf/proto"
)

// ---------------------------------------------------------------- environment

type c03Chain struct{ pt *types.WorkObject }

func (m *c03Chain) Engine(*types.WorkObjectHeader) consensus.Engine          { return nil }
func (m *c03Chain) GetHeaderOrCandidateByHash(common.Hash) *types.WorkObject { return m.pt }
func (m *c03Chain) NodeCtx() int                                             { return common.ZONE_CTX }
func (m *c03Chain) IsGenesisHash(common.Hash) bool                           { return false }
func (m *c03Chain) GetHeaderByHash(common.Hash) *types.WorkObject            { return m.pt }
func (m *c03Chain) GetBlockByHash(common.Hash) *types.WorkObject             { return m.pt }
func (m *c03Chain) CheckIfEtxIsEligible(common.Hash, common.Location) bool   { return true }
func (m *c03Chain) CheckInCalcOrderCache(common.Hash) (*big.Int, int, bool)  { return nil, 0, false }
func (m *c03Chain) AddToCalcOrderCache(common.Hash, int, *big.Int)           {}
func (m *c03Chain) CalcBaseFee(*types.WorkObject) *big.Int                   { return big.NewInt(1) }
func (m *c03Chain) CalcOrder(*types.WorkObject) (*big.Int, int, error) {
	return big.NewInt(0), common.ZONE_CTX, nil
}

const c03QiSlots = 3
const c03QiInDenom = 10
const c03QiOutDenom = 5

type c03QiEnv struct {
	loc    common.Location
	db     ethdb.Database
	header *types.WorkObject
	chain  *c03Chain
	keys   []*c03Key
}

// c03UtxoHash is the (realistic) hash of the transaction that created UTXO [key][slot]: Qi tx
// hashes of zone 0-0 carry the origin 0x00 in bytes 0 and 2 and the Qi bit in bytes 1 and 3.
func c03UtxoHash(key, slot int) common.Hash {
	h := common.BytesToHash(crypto.Keccak256([]byte(fmt.Sprintf("c03-utxo-%d-%d", key, slot))))
	h[0], h[2] = 0, 0
	h[1] |= 0x80
	h[3] |= 0x80
	return h
}

var c03QiEnvCache *c03QiEnv

func c03NewQiEnv(keys []*c03Key) (*c03QiEnv, error) {
	if c03QiEnvCache != nil {
		return c03QiEnvCache, nil
	}
	loc := common.Location{0, 0}
	e := &c03QiEnv{loc: loc, keys: keys}
	e.db = rawdb.NewMemoryDatabase(c03Logger())
	for _, k := range keys {
		for s := 0; s < c03QiSlots; s++ {
			u := types.NewUtxoEntry(types.NewTxOut(c03QiInDenom, append([]byte{}, k.Addr[:]...), big.NewInt(0)))
			if err := rawdb.CreateUTXO(e.db, c03UtxoHash(k.Idx, s), uint16(s), u); err != nil {
				return nil, err
			}
		}
	}
	mk := func() *types.WorkObject {
		wo := types.EmptyZoneWorkObject()
		wo.WorkObjectHeader().SetLocation(loc)
		wo.WorkObjectHeader().SetNumber(big.NewInt(100))
		wo.WorkObjectHeader().SetPrimeTerminusNumber(big.NewInt(10))
		wo.WorkObjectHeader().SetDifficulty(big.NewInt(1_000_000_000))
		wo.Header().SetGasLimit(50_000_000)
		wo.Header().SetBaseFee(big.NewInt(1))
		wo.Header().SetExchangeRate(new(big.Int).Set(params.ExchangeRate))
		wo.Header().SetPrimeTerminusHash(c03Hash(0x99))
		wo.Header().SetMinerDifficulty(big.NewInt(1_000_000_000))
		return wo
	}
	e.header = mk()
	e.chain = &c03Chain{pt: mk()}
	c03QiEnvCache = e
	return e, nil
}

// c03QiRun hands one decoded transaction to the real verification path.
func (e *c03QiEnv) run(path string, tx *types.Transaction, nodeChain int64, checkSig bool) (err error) {
	signer := types.NewSigner(big.NewInt(nodeChain), e.loc)
	chainID := *big.NewInt(nodeChain)
	etxR, etxP := params.ETXRLimitMin, params.ETXPLimitMin
	perr := vx.Guard(func() {
		switch path {
		case "process":
			gp := new(types.GasPool).AddGas(e.header.GasLimit())
			used := uint64(0)
			ucd := &core.UtxosCreatedDeleted{AddressOutpointsToAddMap: map[[20]byte][]*types.OutpointAndDenomination{}, AddressOutpointsToRemoveMap: map[[20]byte][]*types.OutPoint{}}
			_, _, _, err, _ = core.ProcessQiTx(tx, e.chain, checkSig, false, e.header, e.db.NewBatch(), e.db, gp, &used, signer, e.loc, chainID, 1.0, &etxR, &etxP, ucd, new(big.Int), new(big.Int), false)
		case "pool":
			var in *big.Int
			in, err = core.ValidateQiTxInputs(tx, e.chain, e.db, e.header, signer, e.loc, chainID)
			if err != nil {
				return
			}
			_, err = core.ValidateQiTxOutputsAndSignature(tx, e.chain, in, e.header, signer, e.loc, chainID, 1.0, etxR, etxP)
		}
	})
	if perr != "" {
		return fmt.Errorf("panic at %s", vx.PanicSite(perr))
	}
	return err
}

// ---------------------------------------------------------------- transaction description

type c03QiOut struct {
	Denom uint32 `json:"d"`
	Addr  string `json:"a"` // hex
	Lock  string `json:"l,omitempty"`
}

// c03QiSpec describes a Qi spend over the fixed UTXO table: input i consumes UTXO
// [Owners[i]][Slots[i]] and carries the public key of key Pub[i] in wire encoding Enc.
type c03QiSpec struct {
	Owners []int      `json:"owners"`
	Slots  []int      `json:"slots"`
	Pub    []int      `json:"pub"`
	Enc    string     `json:"enc"`
	Chain  int64      `json:"chain"`
	Outs   []c03QiOut `json:"outs"`
	Data   string     `json:"data,omitempty"`
	HashX  int        `json:"hashx,omitempty"` // flip a bit of input 0's outpoint hash (non-existent UTXO)
}

func (s c03QiSpec) clone() c03QiSpec {
	c := s
	c.Owners = append([]int{}, s.Owners...)
	c.Slots = append([]int{}, s.Slots...)
	c.Pub = append([]int{}, s.Pub...)
	c.Outs = append([]c03QiOut{}, s.Outs...)
	return c
}

func c03QiOutAddr(seed byte) string {
	return c03Hex(c03Addr(common.Location{0, 0}, seed, true).Bytes())
}

func c03QiBaseSpec(owners, pub []int, enc string, chain int64, data string) c03QiSpec {
	s := c03QiSpec{Owners: owners, Pub: pub, Enc: enc, Chain: chain, Data: data}
	for i := range owners {
		s.Slots = append(s.Slots, i)
	}
	s.Outs = []c03QiOut{{c03QiOutDenom, c03QiOutAddr(0xa1), ""}, {c03QiOutDenom, c03QiOutAddr(0xb2), ""}}
	return s
}

func c03PubEnc(k *c03Key, enc string) []byte {
	switch enc {
	case "compressed":
		return append([]byte{}, k.PubC...)
	case "hybrid":
		b := append([]byte{}, k.Pub...)
		b[0] = 0x06 | (b[64] & 1)
		return b
	}
	return append([]byte{}, k.Pub...)
}

func (e *c03QiEnv) proto(s c03QiSpec, sig []byte) *types.ProtoTransaction {
	t := uint64(types.QiTxType)
	p := &types.ProtoTransaction{Type: &t, ChainId: big.NewInt(s.Chain).Bytes(), Signature: sig, Data: c03UnHex(s.Data), TxIns: &types.ProtoTxIns{}, TxOuts: &types.ProtoTxOuts{}}
	if p.Data == nil {
		p.Data = []byte{}
	}
	for i := range s.Owners {
		h := c03UtxoHash(s.Owners[i], s.Slots[i])
		if i == 0 && s.HashX != 0 {
			h[31] ^= 1
		}
		idx := uint32(s.Slots[i])
		p.TxIns.TxIns = append(p.TxIns.TxIns, &types.ProtoTxIn{PreviousOutPoint: &types.ProtoOutPoint{Hash: h.ProtoEncode(), Index: &idx}, PubKey: c03PubEnc(e.keys[s.Pub[i]], s.Enc)})
	}
	for _, o := range s.Outs {
		d := o.Denom
		lock := []byte{}
		if o.Lock != "" {
			lock = c03UnHex(o.Lock)
		}
		p.TxOuts.TxOuts = append(p.TxOuts.TxOuts, &types.ProtoTxOut{Denomination: &d, Address: c03UnHex(o.Addr), Lock: lock})
	}
	return p
}

func (e *c03QiEnv) wire(s c03QiSpec, sig []byte) []byte {
	raw, _ := proto.Marshal(e.proto(s, sig))
	return raw
}

// digest is what the REAL signer hashes for the transaction an honest wallet would sign: the
// decoded form of the spec's wire bytes (signature field zero).
func (e *c03QiEnv) digest(s c03QiSpec) ([32]byte, error) {
	tx, err := c03DecodeWire(e.wire(s, make([]byte, 64)), e.loc)
	if err != nil {
		return [32]byte{}, &c03DecodeRefused{err}
	}
	var h common.Hash
	if perr := vx.Guard(func() { h = types.NewSigner(big.NewInt(s.Chain), e.loc).Hash(tx) }); perr != "" {
		return [32]byte{}, fmt.Errorf("panic in signer.Hash")
	}
	return h, nil
}

// c03DecodeRefused: the node's decoder (ProtoDecode) refuses the transaction the wallet wants to
// sign. For a non-canonical (hybrid) key encoding that refusal IS the desired rejection.
type c03DecodeRefused struct{ err error }

func (d *c03DecodeRefused) Error() string { return "decoder refuses the transaction: " + d.err.Error() }

func c03RefusedAtDecode(err error) (string, bool) {
	if d, ok := err.(*c03DecodeRefused); ok {
		return c03ErrClass(d.err), true
	}
	return "", false
}

type c03DetRand struct {
	seed []byte
	n    int
}

func (r *c03DetRand) Read(p []byte) (int, error) {
	for i := range p {
		if r.n%32 == 0 {
			r.seed = crypto.Keccak256(r.seed)
		}
		p[i] = r.seed[r.n%32]
		r.n++
	}
	return len(p), nil
}

// c03QiSign produces the Schnorr signature of the ordered signing list over msg: plain BIP-340
// for one key, a complete MuSig2 session (deterministic nonces) for several.
func c03QiSign(keys []*c03Key, list []int, msg [32]byte) ([]byte, error) {
	if len(list) == 1 {
		sig, err := schnorr.Sign(keys[list[0]].BT, msg[:])
		if err != nil {
			return nil, err
		}
		return sig.Serialize(), nil
	}
	set := make([]*btcec.PublicKey, len(list))
	for i, k := range list {
		set[i] = keys[k].BTP
	}
	sess := make([]*musig2.Session, len(list))
	for i, k := range list {
		ctx, err := musig2.NewContext(keys[k].BT, false, musig2.WithKnownSigners(set))
		if err != nil {
			return nil, err
		}
		n, err := musig2.GenNonces(musig2.WithPublicKey(keys[k].BTP), musig2.WithCustomRand(&c03DetRand{seed: append([]byte(fmt.Sprintf("nonce-%d-%v-", i, list)), msg[:]...)}))
		if err != nil {
			return nil, err
		}
		sess[i], err = ctx.NewSession(musig2.WithPreGeneratedNonce(n))
		if err != nil {
			return nil, err
		}
	}
	for i := range sess {
		for j := range sess {
			if i != j {
				if _, err := sess[i].RegisterPubNonce(sess[j].PublicNonce()); err != nil {
					return nil, err
				}
			}
		}
	}
	for i := range sess {
		ps, err := sess[i].Sign(msg)
		if err != nil {
			return nil, err
		}
		if i != 0 {
			if _, err := sess[0].CombineSig(ps); err != nil {
				return nil, err
			}
		}
	}
	fs := sess[0].FinalSig()
	if fs == nil {
		return nil, fmt.Errorf("musig2: no final signature")
	}
	return fs.Serialize(), nil
}

// ---------------------------------------------------------------- content (reference reading)

func c03QiContent(tx *types.Transaction) []c03Field {
	f := []c03Field{{"type", fmt.Sprint(tx.Type())}}
	if tx.Type() != types.QiTxType {
		return f
	}
	var ins, outs strings.Builder
	for _, in := range tx.TxIn() {
		pk := "raw:" + c03Hex(in.PubKey)
		if k, err := btcec.ParsePubKey(in.PubKey); err == nil {
			pk = c03Hex(k.SerializeUncompressed())
		}
		fmt.Fprintf(&ins, "%x:%d:%s;", in.PreviousOutPoint.TxHash.Bytes(), in.PreviousOutPoint.Index, pk)
	}
	for _, o := range tx.TxOut() {
		l := "0"
		if o.Lock != nil {
			l = o.Lock.String()
		}
		fmt.Fprintf(&outs, "%d:%x:%s;", o.Denomination, o.Address, l)
	}
	sig := "nil"
	if s := tx.GetSchnorrSignature(); s != nil {
		sig = c03Hex(s.Serialize())
	}
	f = append(f, c03Field{"chain_id", tx.ChainId().String()}, c03Field{"inputs", ins.String()}, c03Field{"outputs", outs.String()},
		c03Field{"data", c03Hex(tx.Data())}, c03Field{"signature", sig})
	if h := tx.ParentHash(); h != nil {
		f = append(f, c03Field{"parent_hash", c03Hex(h.Bytes())})
	}
	if h := tx.MixHash(); h != nil {
		f = append(f, c03Field{"mix_hash", c03Hex(h.Bytes())})
	}
	if n := tx.WorkNonce(); n != nil {
		f = append(f, c03Field{"work_nonce", fmt.Sprint(n.Uint64())})
	}
	return f
}

// ---------------------------------------------------------------- variants

type c03QiVariant struct {
	Name  string
	Field string
	Apply func(s *c03QiSpec) bool
}

func c03QiVariants() []c03QiVariant {
	quaiAddr := c03Hex(c03Addr(common.Location{0, 0}, 0x31, false).Bytes())
	return []c03QiVariant{
		{"identity", "", func(s *c03QiSpec) bool { return true }},
		{"chain+1", "chain_id", func(s *c03QiSpec) bool { s.Chain++; return true }},
		{"chain=other", "chain_id", func(s *c03QiSpec) bool {
			for _, ch := range c03ChainIDs {
				if ch != s.Chain {
					s.Chain = ch
					return true
				}
			}
			return false
		}},
		{"in0=other-utxo-same-owner", "inputs", func(s *c03QiSpec) bool { s.Slots[0] = 2; return true }},
		{"in0=missing-utxo", "inputs", func(s *c03QiSpec) bool { s.HashX = 1; return true }},
		{"swap-inputs", "inputs", func(s *c03QiSpec) bool {
			if len(s.Owners) < 2 {
				return false
			}
			s.Owners[0], s.Owners[1] = s.Owners[1], s.Owners[0]
			s.Slots[0], s.Slots[1] = s.Slots[1], s.Slots[0]
			s.Pub[0], s.Pub[1] = s.Pub[1], s.Pub[0]
			return true
		}},
		{"drop-in1", "inputs", func(s *c03QiSpec) bool {
			if len(s.Owners) < 2 {
				return false
			}
			s.Owners, s.Slots, s.Pub = s.Owners[:1], s.Slots[:1], s.Pub[:1]
			s.Outs = s.Outs[:1]
			return true
		}},
		{"out0.denom-1", "outputs", func(s *c03QiSpec) bool { s.Outs[0].Denom--; return true }},
		{"out0.addr=attacker", "outputs", func(s *c03QiSpec) bool { s.Outs[0].Addr = c03QiOutAddr(0xee); return true }},
		{"add-output", "outputs", func(s *c03QiSpec) bool {
			s.Outs = append(s.Outs, c03QiOut{c03QiOutDenom - 1, c03QiOutAddr(0xc3), ""})
			return true
		}},
		{"drop-output", "outputs", func(s *c03QiSpec) bool { s.Outs = s.Outs[:len(s.Outs)-1]; return true }},
		{"swap-outputs", "outputs", func(s *c03QiSpec) bool { s.Outs[0], s.Outs[1] = s.Outs[1], s.Outs[0]; return true }},
		{"out0.lock=1", "outputs", func(s *c03QiSpec) bool { s.Outs[0].Lock = "01"; return true }},
		{"data-toggle", "data", func(s *c03QiSpec) bool {
			if s.Data == "" {
				s.Data = quaiAddr
			} else {
				s.Data = ""
			}
			return true
		}},
	}
}

// ---------------------------------------------------------------- judge

type c03QiCase struct {
	P, Q     c03QiSpec // presented / signed
	SignList []int
	Path     string
	Sig      []byte
}

// c03QiAuthorised: the statement's condition — signed exactly this content, by exactly the keys
// that own the consumed outputs.
func c03QiAuthorised(e *c03QiEnv, pc, qc []c03Field, owners, list []int) (bool, []string) {
	var why []string
	strip := func(f []c03Field) []c03Field {
		var o []c03Field
		for _, x := range f {
			if x.Name != "signature" {
				o = append(o, x)
			}
		}
		return o
	}
	ch, _ := c03Diff(strip(qc), strip(pc))
	if len(ch) > 0 {
		why = append(why, "signed-other-"+c03SortedJoin(ch))
	}
	a, b := append([]int{}, owners...), append([]int{}, list...)
	sort.Ints(a)
	sort.Ints(b)
	if fmt.Sprint(a) != fmt.Sprint(b) {
		why = append(why, "signers-not-owners")
	}
	return len(why) == 0, why
}

func (e *c03QiEnv) execCase(cs c03QiCase) (outcome, vkey, desc string) {
	ptx, err := c03DecodeWire(e.wire(cs.P, cs.Sig), e.loc)
	if err != nil {
		return "reject-at-decode:" + c03ErrClass(err), "", ""
	}
	qtx, err := c03DecodeWire(e.wire(cs.Q, cs.Sig), e.loc)
	if err != nil {
		return "signed-tx-undecodable", "", ""
	}
	auth, why := c03QiAuthorised(e, c03QiContent(ptx), c03QiContent(qtx), cs.P.Owners, cs.SignList)
	verr := e.run(cs.Path, ptx, cs.P.Chain, true)
	tag := "authorised"
	if !auth {
		tag = strings.Join(why, ",")
	}
	if verr != nil {
		return fmt.Sprintf("%s|%s|reject:%s", cs.Path, tag, c03ErrClass(verr)), "", ""
	}
	outcome = fmt.Sprintf("%s|%s|ACCEPT", cs.Path, tag)
	if !auth {
		vkey = fmt.Sprintf("qi:accepted-unauthorised:%s@enc=%s@%s", strings.Join(why, ","), cs.P.Enc, cs.Path)
		desc = fmt.Sprintf("%s path accepts a %d-input Qi spend (utxo owners key%v, pubkey fields key%v, encoding %s) although %s: the signature was made by key%v over a transaction that differs from the presented one", cs.Path, len(cs.P.Owners), cs.P.Owners, cs.P.Pub, cs.P.Enc, strings.Join(why, ","), cs.SignList)
	}
	return
}

func c03QiLists(nKeys, maxLen int) [][]int {
	var out [][]int
	var rec func(cur []int)
	rec = func(cur []int) {
		if len(cur) > 0 {
			out = append(out, append([]int{}, cur...))
		}
		if len(cur) == maxLen {
			return
		}
		for k := 0; k < nKeys; k++ {
			rec(append(cur, k))
		}
	}
	rec(nil)
	sort.SliceStable(out, func(i, j int) bool { return len(out[i]) < len(out[j]) })
	return out
}

func c03Tuples(nKeys, n int) [][]int {
	out := [][]int{{}}
	for i := 0; i < n; i++ {
		var nx [][]int
		for _, t := range out {
			for k := 0; k < nKeys; k++ {
				nx = append(nx, append(append([]int{}, t...), k))
			}
		}
		out = nx
	}
	return out
}

func c03Ints(a []int) string { return strings.Trim(strings.ReplaceAll(fmt.Sprint(a), " ", ","), "[]") }

// ---------------------------------------------------------------- part qi-auth

func c03RunQiAuth(c *vx.Ctx, keys []*c03Key) {
	p := c.Part("qi-auth")
	e, err := c03NewQiEnv(keys)
	if err != nil {
		c.HarnessError("qi env: " + err.Error())
		return
	}
	maxList := 2
	encs := []string{"compressed"}
	if c.Thorough() {
		maxList = 3
		encs = []string{"compressed", "uncompressed"}
	}
	vars := c03QiVariants()
	lists := c03QiLists(len(keys), maxList)
	p.Bound("inputs", []int{1, 2})
	p.Bound("owner_assignments_2in", map[bool]string{false: "(0,1),(1,0),(1,1),(0,2)", true: "all 9"}[c.Thorough()])
	p.Bound("keys", len(keys))
	p.Bound("signing_lists", len(lists))
	p.Bound("signing_list_max_len", map[bool]string{false: "2", true: "3 (compressed encoding), 2 (uncompressed)"}[c.Thorough()])
	p.Bound("variants", len(vars))
	p.Bound("pairs", map[bool]string{false: "(baseline,variant) and (variant,baseline) and (baseline,baseline)", true: "all ordered (variant,variant) pairs"}[c.Thorough()])
	p.Bound("paths", []string{"process", "pool"})
	p.Bound("pubkey_encodings", encs)
	seen := map[string]bool{}
	var item int64
	for _, enc := range encs {
		for _, n := range []int{1, 2} {
			for _, pub := range c03Tuples(len(keys), n) {
				for _, list := range lists {
					if enc != "compressed" && len(list) > 2 {
						continue // 3-key signing lists only with the canonical wire encoding
					}
					item++
					if !c.Mine(item) {
						continue
					}
					if c.Expired() {
						p.Incomplete("deadline")
						return
					}
					// signatures by this list over every variant (they do not depend on the owners)
					type sv struct {
						spec c03QiSpec
						sig  []byte
						ok   bool
					}
					mkSpec := func(owners []int, v c03QiVariant) (c03QiSpec, bool) {
						s := c03QiBaseSpec(append([]int{}, owners...), append([]int{}, pub...), enc, 9000, "")
						ok := v.Apply(&s)
						return s, ok
					}
					ownerSets := c03Tuples(len(keys), n)
					if n == 2 && !c.Thorough() {
						// quick: 4 of the 9 owner pairs (all 9 pubkey pairs and all signing lists are kept, so every
						// match/mismatch pattern pubkey-vs-owner and signer-vs-owner still occurs)
						ownerSets = [][]int{{0, 1}, {1, 0}, {1, 1}, {0, 2}}
					}
					for _, owners := range ownerSets {
						p.States++
						specs := make([]sv, len(vars))
						for vi, v := range vars {
							s, ok := mkSpec(owners, v)
							specs[vi] = sv{spec: s, ok: ok}
							if !ok {
								continue
							}
							d, derr := e.digest(s)
							if derr != nil {
								specs[vi].ok = false
								continue
							}
							sig, serr := c03QiSign(keys, list, d)
							if serr != nil {
								c.HarnessError("sign: " + serr.Error())
								specs[vi].ok = false
								continue
							}
							specs[vi].sig = sig
						}
						for pi := range vars {
							for qi := range vars {
								if !c.Thorough() && pi != 0 && qi != 0 {
									continue
								}
								if !specs[pi].ok || !specs[qi].ok {
									continue
								}
								for _, path := range []string{"process", "pool"} {
									cs := c03QiCase{P: specs[pi].spec, Q: specs[qi].spec, SignList: list, Path: path, Sig: specs[qi].sig}
									p.Transitions++
									p.Traces++
									outcome, vkey, desc := e.execCase(cs)
									p.Outcome(fmt.Sprintf("in%d|%s", n, outcome))
									canonical := pi == 0 && qi == 0 && c03Ints(owners) == c03Ints(pub) && c03Ints(list) == c03Ints(pub)
									if canonical && !strings.HasSuffix(outcome, "ACCEPT") {
										c.HarnessError(fmt.Sprintf("canonical %d-input spend by its owners key%v is not accepted: %s", n, owners, outcome))
									}
									if canonical {
										p.Sample(map[string]any{"owners": owners, "pub": pub, "signing_list": list, "wire": c03Hex(e.wire(cs.P, cs.Sig)), "verdict": outcome})
									}
									if vkey != "" {
										c03Report(c, "qi-auth", c03Viol{Key: vkey, Desc: desc + fmt.Sprintf(" [presented variant %s, signed variant %s]", vars[pi].Name, vars[qi].Name),
											Replay: c03Replay{Kind: "qi", Wire: c03Hex(e.wire(cs.P, cs.Sig)), BaseWire: c03Hex(e.wire(cs.Q, cs.Sig)), Owners: cs.P.Owners, Ops: []string{c03Ints(list)}, NodeChain: cs.P.Chain, Path: path, Note: "enc=" + enc}}, seen)
									}
								}
							}
						}
					}
				}
			}
		}
	}
	p.MaxDepth = 2
}

// c03ReplayQi: Wire = presented tx, BaseWire = tx that was signed, Ops[0] = signing list.
func c03ReplayQi(rp c03Replay) (string, string) {
	keys := c03Keys()
	e, err := c03NewQiEnv(keys)
	if err != nil {
		return "", ""
	}
	ptx, perr := c03DecodeWire(c03UnHex(rp.Wire), e.loc)
	qtx, err := c03DecodeWire(c03UnHex(rp.BaseWire), e.loc)
	if err != nil {
		return "", ""
	}
	if rp.Expect == "wire" {
		_, vk, d := e.judgeWire(c03UnHex(rp.Wire), c03QiContent(qtx), strings.TrimPrefix(rp.Note, "enc="), rp.NodeChain, rp.Path)
		return vk, d
	}
	if perr != nil {
		return "", ""
	}
	var list []int
	if len(rp.Ops) > 0 {
		for _, x := range strings.Split(rp.Ops[0], ",") {
			var k int
			if _, err := fmt.Sscan(x, &k); err == nil {
				list = append(list, k)
			}
		}
	}
	auth, why := c03QiAuthorised(e, c03QiContent(ptx), c03QiContent(qtx), rp.Owners, list)
	if auth {
		return "", ""
	}
	if verr := e.run(rp.Path, ptx, rp.NodeChain, true); verr != nil {
		return "", ""
	}
	enc := strings.TrimPrefix(rp.Note, "enc=")
	return fmt.Sprintf("qi:accepted-unauthorised:%s@enc=%s@%s", strings.Join(why, ","), enc, rp.Path),
		fmt.Sprintf("%s path accepts the presented Qi spend although %s", rp.Path, strings.Join(why, ","))
}

// ---------------------------------------------------------------- part qi-wire

func c03SchnorrMenu(sig []byte) map[string][]byte {
	r, s := new(big.Int).SetBytes(sig[:32]), new(big.Int).SetBytes(sig[32:])
	mk := func(r, s *big.Int) []byte {
		out := make([]byte, 64)
		r.FillBytes(out[:32])
		s.FillBytes(out[32:])
		return out
	}
	one := big.NewInt(1)
	out := map[string][]byte{
		"zero":     make([]byte, 64),
		"r=0":      mk(new(big.Int), s),
		"s=0":      mk(r, new(big.Int)),
		"r=1":      mk(one, s),
		"s=1":      mk(r, one),
		"r=P-1":    mk(new(big.Int).Sub(c03P, one), s),
		"r=P":      mk(c03P, s),
		"r=max":    mk(c03Two256m1, s),
		"s=N-1":    mk(r, new(big.Int).Sub(c03N, one)),
		"s=N":      mk(r, c03N),
		"s=max":    mk(r, c03Two256m1),
		"s=N-s":    mk(r, new(big.Int).Sub(c03N, s)),
		"r=P-r":    mk(new(big.Int).Sub(c03P, r), s),
		"swap-r-s": append(append([]byte{}, sig[32:]...), sig[:32]...),
		"short":    append([]byte{}, sig[:63]...),
		"long":     append(append([]byte{}, sig...), 0),
		"empty":    {},
		"absent":   nil,
	}
	for _, pos := range []int{0, 31, 32, 63} {
		f := append([]byte{}, sig...)
		f[pos] ^= 1
		out[fmt.Sprintf("flip@%d", pos)] = f
	}
	return out
}

func c03QiWireMenu(e *c03QiEnv, base *types.ProtoTransaction, spec c03QiSpec, wireBytes []byte) []c03WireMut {
	var out []c03WireMut
	emit := func(name string, f func(p *types.ProtoTransaction)) {
		p := proto.Clone(base).(*types.ProtoTransaction)
		f(p)
		raw, err := proto.Marshal(p)
		if err != nil {
			return
		}
		out = append(out, c03WireMut{name, raw})
	}
	emit("identity", func(p *types.ProtoTransaction) {})
	for _, t := range []uint64{0, 1, 3} {
		t := t
		emit(fmt.Sprintf("type=%d", t), func(p *types.ProtoTransaction) { p.Type = &t })
	}
	emit("type=absent", func(p *types.ProtoTransaction) { p.Type = nil })
	cv := c03BigVariants(base.ChainId)
	for _, k := range c03SortedKeys(cv) {
		v := cv[k]
		emit("chain_id:"+k, func(p *types.ProtoTransaction) { p.ChainId = v })
	}
	for _, ch := range c03ChainIDs {
		ch := ch
		emit(fmt.Sprintf("chain_id=%d", ch), func(p *types.ProtoTransaction) { p.ChainId = big.NewInt(ch).Bytes() })
	}
	dv := c03BytesVariants(base.Data)
	dv["quai-addr"] = c03Addr(e.loc, 0x31, false).Bytes()
	dv["quai-addr2"] = c03Addr(e.loc, 0x32, false).Bytes()
	for _, k := range c03SortedKeys(dv) {
		v := dv[k]
		emit("data:"+k, func(p *types.ProtoTransaction) { p.Data = v })
	}
	sm := c03SchnorrMenu(base.Signature)
	for _, k := range c03SortedKeys(sm) {
		v := sm[k]
		emit("signature:"+k, func(p *types.ProtoTransaction) { p.Signature = v })
	}
	// inputs
	emit("ins:absent", func(p *types.ProtoTransaction) { p.TxIns = nil })
	emit("ins:empty", func(p *types.ProtoTransaction) { p.TxIns = &types.ProtoTxIns{} })
	for i := range base.TxIns.TxIns {
		i := i
		owner := spec.Owners[i]
		emit(fmt.Sprintf("in%d:drop", i), func(p *types.ProtoTransaction) {
			t := p.TxIns.TxIns
			p.TxIns.TxIns = append(append([]*types.ProtoTxIn{}, t[:i]...), t[i+1:]...)
		})
		emit(fmt.Sprintf("in%d:dup", i), func(p *types.ProtoTransaction) {
			p.TxIns.TxIns = append(p.TxIns.TxIns, proto.Clone(p.TxIns.TxIns[i]).(*types.ProtoTxIn))
		})
		emit(fmt.Sprintf("in%d:add-same-owner-utxo", i), func(p *types.ProtoTransaction) {
			idx := uint32(2)
			p.TxIns.TxIns = append(p.TxIns.TxIns, &types.ProtoTxIn{PreviousOutPoint: &types.ProtoOutPoint{Hash: c03UtxoHash(owner, 2).ProtoEncode(), Index: &idx}, PubKey: p.TxIns.TxIns[i].PubKey})
		})
		emit(fmt.Sprintf("in%d:outpoint=other-utxo-same-owner", i), func(p *types.ProtoTransaction) {
			idx := uint32(2)
			p.TxIns.TxIns[i].PreviousOutPoint = &types.ProtoOutPoint{Hash: c03UtxoHash(owner, 2).ProtoEncode(), Index: &idx}
		})
		for ok := range e.keys {
			if ok == owner {
				continue
			}
			ok := ok
			emit(fmt.Sprintf("in%d:outpoint=utxo-of-key%d", i, ok), func(p *types.ProtoTransaction) {
				idx := uint32(spec.Slots[i])
				p.TxIns.TxIns[i].PreviousOutPoint = &types.ProtoOutPoint{Hash: c03UtxoHash(ok, spec.Slots[i]).ProtoEncode(), Index: &idx}
			})
			emit(fmt.Sprintf("in%d:pubkey=key%d", i, ok), func(p *types.ProtoTransaction) { p.TxIns.TxIns[i].PubKey = c03PubEnc(e.keys[ok], spec.Enc) })
			emit(fmt.Sprintf("in%d:utxo+pubkey=key%d", i, ok), func(p *types.ProtoTransaction) {
				idx := uint32(spec.Slots[i])
				p.TxIns.TxIns[i].PreviousOutPoint = &types.ProtoOutPoint{Hash: c03UtxoHash(ok, spec.Slots[i]).ProtoEncode(), Index: &idx}
				p.TxIns.TxIns[i].PubKey = c03PubEnc(e.keys[ok], spec.Enc)
			})
		}
		hv := c03BytesVariants(base.TxIns.TxIns[i].PreviousOutPoint.Hash.Value)
		for _, k := range c03SortedKeys(hv) {
			v := hv[k]
			emit(fmt.Sprintf("in%d:hash:%s", i, k), func(p *types.ProtoTransaction) { p.TxIns.TxIns[i].PreviousOutPoint.Hash.Value = v })
		}
		emit(fmt.Sprintf("in%d:hash=absent-msg", i), func(p *types.ProtoTransaction) { p.TxIns.TxIns[i].PreviousOutPoint.Hash = nil })
		emit(fmt.Sprintf("in%d:outpoint=absent", i), func(p *types.ProtoTransaction) { p.TxIns.TxIns[i].PreviousOutPoint = nil })
		for _, d := range []uint32{1, 2, 65535, 65536, 65537, 1 << 31} {
			d := d
			emit(fmt.Sprintf("in%d:index+%d", i, d), func(p *types.ProtoTransaction) {
				x := *p.TxIns.TxIns[i].PreviousOutPoint.Index + d
				p.TxIns.TxIns[i].PreviousOutPoint.Index = &x
			})
		}
		emit(fmt.Sprintf("in%d:index=absent", i), func(p *types.ProtoTransaction) { p.TxIns.TxIns[i].PreviousOutPoint.Index = nil })
		pk := e.keys[spec.Pub[i]]
		for _, enc := range []string{"compressed", "uncompressed", "hybrid"} {
			enc := enc
			emit(fmt.Sprintf("in%d:pubkey-reencode=%s", i, enc), func(p *types.ProtoTransaction) { p.TxIns.TxIns[i].PubKey = c03PubEnc(pk, enc) })
		}
		pv := c03BytesVariants(base.TxIns.TxIns[i].PubKey)
		{
			neg := append([]byte{}, base.TxIns.TxIns[i].PubKey...)
			neg[0] ^= 1 // other parity / wrong hybrid tag
			pv["parity"] = neg
			w := append([]byte{}, base.TxIns.TxIns[i].PubKey...)
			w[0] = 0x05
			pv["tag=05"] = w
			pv["zero33"] = make([]byte, 33)
			pv["zero65"] = make([]byte, 65)
		}
		for _, k := range c03SortedKeys(pv) {
			v := pv[k]
			emit(fmt.Sprintf("in%d:pubkey:%s", i, k), func(p *types.ProtoTransaction) { p.TxIns.TxIns[i].PubKey = v })
		}
	}
	if len(base.TxIns.TxIns) >= 2 {
		emit("ins:swap", func(p *types.ProtoTransaction) {
			t := p.TxIns.TxIns
			t[0], t[1] = t[1], t[0]
		})
		emit("ins:swap-pubkeys", func(p *types.ProtoTransaction) {
			t := p.TxIns.TxIns
			t[0].PubKey, t[1].PubKey = t[1].PubKey, t[0].PubKey
		})
		emit("ins:swap-outpoints", func(p *types.ProtoTransaction) {
			t := p.TxIns.TxIns
			t[0].PreviousOutPoint, t[1].PreviousOutPoint = t[1].PreviousOutPoint, t[0].PreviousOutPoint
		})
	}
	// outputs
	emit("outs:absent", func(p *types.ProtoTransaction) { p.TxOuts = nil })
	emit("outs:empty", func(p *types.ProtoTransaction) { p.TxOuts = &types.ProtoTxOuts{} })
	emit("outs:add", func(p *types.ProtoTransaction) {
		d := uint32(c03QiOutDenom - 1)
		p.TxOuts.TxOuts = append(p.TxOuts.TxOuts, &types.ProtoTxOut{Denomination: &d, Address: c03UnHex(c03QiOutAddr(0xc3)), Lock: []byte{}})
	})
	for i := range base.TxOuts.TxOuts {
		i := i
		emit(fmt.Sprintf("out%d:drop", i), func(p *types.ProtoTransaction) {
			t := p.TxOuts.TxOuts
			p.TxOuts.TxOuts = append(append([]*types.ProtoTxOut{}, t[:i]...), t[i+1:]...)
		})
		for _, d := range []uint32{0, 1, c03QiOutDenom - 1, c03QiOutDenom + 1, 14, 15, 255, 256 + c03QiOutDenom, 1<<32 - 1} {
			d := d
			emit(fmt.Sprintf("out%d:denom=%d", i, d), func(p *types.ProtoTransaction) { p.TxOuts.TxOuts[i].Denomination = &d })
		}
		emit(fmt.Sprintf("out%d:denom=absent", i), func(p *types.ProtoTransaction) { p.TxOuts.TxOuts[i].Denomination = nil })
		av := c03BytesVariants(base.TxOuts.TxOuts[i].Address)
		av["attacker"] = c03UnHex(c03QiOutAddr(0xee))
		av["other-zone"] = c03Addr(common.Location{0, 1}, 0xa1, true).Bytes()
		av["quai-ledger"] = c03Addr(e.loc, 0xa1, false).Bytes()
		for _, k := range c03SortedKeys(av) {
			v := av[k]
			emit(fmt.Sprintf("out%d:addr:%s", i, k), func(p *types.ProtoTransaction) { p.TxOuts.TxOuts[i].Address = v })
		}
		lv := map[string][]byte{"absent": nil, "zero-byte": {0}, "one": {1}, "big": {1, 0, 0, 0, 0}}
		for _, k := range c03SortedKeys(lv) {
			k, v := k, lv[k]
			emit(fmt.Sprintf("out%d:lock:%s", i, k), func(p *types.ProtoTransaction) { p.TxOuts.TxOuts[i].Lock = v })
		}
	}
	if len(base.TxOuts.TxOuts) >= 2 {
		emit("outs:swap", func(p *types.ProtoTransaction) {
			t := p.TxOuts.TxOuts
			t[0], t[1] = t[1], t[0]
		})
		emit("outs:swap-addresses", func(p *types.ProtoTransaction) {
			t := p.TxOuts.TxOuts
			t[0].Address, t[1].Address = t[1].Address, t[0].Address
		})
	}
	h := c03Hash(0x5a).ProtoEncode()
	emit("parent_hash:set", func(p *types.ProtoTransaction) { p.ParentHash = h })
	emit("mix_hash:set", func(p *types.ProtoTransaction) { p.MixHash = h })
	emit("work_nonce:set", func(p *types.ProtoTransaction) { n := uint64(5); p.WorkNonce = &n })
	emit("foreign:quai-fields", func(p *types.ProtoTransaction) {
		n := uint64(1)
		p.Nonce, p.Gas, p.To, p.Value = &n, &n, make([]byte, 20), []byte{1}
	})
	out = append(out, c03WireMut{"unknown-field", append(append([]byte{}, wireBytes...), 0xf8, 0x07, 0x01)})
	out = append(out, c03WireMut{"duplicate-message", append(append([]byte{}, wireBytes...), wireBytes...)})
	return out
}

type c03QiWireBase struct {
	Name string
	Spec c03QiSpec
	List []int
}

func c03QiWireBases(thorough bool) []c03QiWireBase {
	quaiAddr := c03Hex(c03Addr(common.Location{0, 0}, 0x31, false).Bytes())
	var out []c03QiWireBase
	type ow struct{ o []int }
	ows := [][]int{{0}, {0, 1}}
	if thorough {
		ows = [][]int{{0}, {1}, {2}, {0, 1}, {2, 0}, {1, 1}}
	}
	for _, enc := range []string{"compressed", "uncompressed", "hybrid"} {
		for _, o := range ows {
			for _, data := range []string{"", quaiAddr} {
				if data != "" && !thorough && len(o) == 2 {
					continue
				}
				s := c03QiBaseSpec(append([]int{}, o...), append([]int{}, o...), enc, 9000, data)
				d := "nodata"
				if data != "" {
					d = "data20"
				}
				out = append(out, c03QiWireBase{fmt.Sprintf("in%d/owners=%s/%s/%s", len(o), c03Ints(o), enc, d), s, append([]int{}, o...)})
			}
		}
	}
	return out
}

// c03JudgeQiWire: a presented wire form may be accepted only if its decoded content is the signed one.
func (e *c03QiEnv) judgeWire(raw []byte, base []c03Field, enc string, nodeChain int64, path string) (outcome, vkey, desc string) {
	tx, err := c03DecodeWire(raw, e.loc)
	if err != nil {
		return "reject-at-decode:" + c03ErrClass(err), "", ""
	}
	if tx.Type() != types.QiTxType {
		return "reject:decoded-as-other-type", "", ""
	}
	changed, unsignedCh := c03Diff(base, c03QiContent(tx))
	cs := "none"
	if len(changed) > 0 {
		cs = c03SortedJoin(changed)
	} else if len(unsignedCh) > 0 {
		cs = "unsigned-only"
	}
	verr := e.run(path, tx, nodeChain, true)
	if verr != nil {
		return fmt.Sprintf("%s|changed=%s|reject:%s", path, cs, c03ErrClass(verr)), "", ""
	}
	outcome = fmt.Sprintf("%s|changed=%s|ACCEPT", path, cs)
	if len(changed) > 0 {
		vkey = fmt.Sprintf("qi:accepted-although-changed:%s@enc=%s@%s", cs, enc, path)
		desc = fmt.Sprintf("%s path (node chain id %d) accepts a Qi transaction whose %s differs from the transaction its signature was made for", path, nodeChain, cs)
	}
	return
}

func c03RunQiWire(c *vx.Ctx, keys []*c03Key) {
	p := c.Part("qi-wire")
	e, err := c03NewQiEnv(keys)
	if err != nil {
		c.HarnessError("qi env: " + err.Error())
		return
	}
	bits := []uint{0, 7}
	if c.Thorough() {
		bits = []uint{0, 1, 2, 3, 4, 5, 6, 7}
	}
	bases := c03QiWireBases(c.Thorough())
	p.Bound("baselines", len(bases))
	p.Bound("bit_flips_per_wire_byte", len(bits))
	p.Bound("node_chain_ids", c03ChainIDs)
	p.Bound("paths", []string{"process", "pool"})
	seen := map[string]bool{}
	var item int64
	for _, b := range bases {
		d, derr := e.digest(b.Spec)
		if derr != nil {
			if class, refused := c03RefusedAtDecode(derr); refused && b.Spec.Enc == "hybrid" {
				// the decoder does not let a hybrid-key transaction in at all: nothing can be signed,
				// replayed or mutated -> recorded as a rejection (the case stays enumerated, so a tree
				// that decodes such keys again is explored in full below)
				item++
				if c.Mine(item) {
					p.States++
					p.Transitions++
					p.Traces++
					p.Outcome("baseline-refused-at-decode:" + class + "|enc=hybrid")
				}
				continue
			}
			c.HarnessError("digest: " + derr.Error())
			continue
		}
		sig, serr := c03QiSign(keys, b.List, d)
		if serr != nil {
			c.HarnessError("sign: " + serr.Error())
			continue
		}
		bp := e.proto(b.Spec, sig)
		wireBytes, _ := proto.Marshal(bp)
		btx, err := c03DecodeWire(wireBytes, e.loc)
		if err != nil {
			c.HarnessError("baseline undecodable: " + err.Error())
			continue
		}
		content := c03QiContent(btx)
		muts := c03QiWireMenu(e, bp, b.Spec, wireBytes)
		nMenu := len(muts)
		for i := range wireBytes {
			for _, bit := range bits {
				raw := append([]byte{}, wireBytes...)
				raw[i] ^= 1 << bit
				muts = append(muts, c03WireMut{fmt.Sprintf("bitflip@%d.%d", i, bit), raw})
			}
		}
		for n := 0; n < len(wireBytes); n++ {
			muts = append(muts, c03WireMut{fmt.Sprintf("truncate@%d", n), append([]byte{}, wireBytes[:n]...)})
		}
		if c.Shard == 0 {
			p.Sample(map[string]any{"baseline": b.Name, "wire": c03Hex(wireBytes), "menu_mutations": nMenu, "all_mutations": len(muts)})
		}
		for _, m := range muts {
			item++
			if !c.Mine(item) {
				continue
			}
			if c.Expired() {
				p.Incomplete("deadline")
				return
			}
			p.States++
			for _, path := range []string{"process", "pool"} {
				for _, nodeChain := range c03ChainIDs {
					if nodeChain != b.Spec.Chain && !strings.HasPrefix(m.Name, "chain_id") && m.Name != "identity" {
						continue // other node chains only matter for chain-id mutations and the replay of the untouched tx
					}
					p.Transitions++
					p.Traces++
					outcome, vkey, desc := e.judgeWire(m.Raw, content, b.Spec.Enc, nodeChain, path)
					p.Outcome(outcome)
					if m.Name == "identity" && nodeChain == b.Spec.Chain && !strings.HasSuffix(outcome, "ACCEPT") {
						c.HarnessError(fmt.Sprintf("baseline %s not accepted on %s: %s", b.Name, path, outcome))
					}
					if vkey != "" {
						c03Report(c, "qi-wire", c03Viol{Key: vkey, Desc: desc + fmt.Sprintf(" [baseline %s, mutation %s]", b.Name, m.Name),
							Replay: c03Replay{Kind: "qi", Expect: "wire", Wire: c03Hex(m.Raw), BaseWire: c03Hex(wireBytes), NodeChain: nodeChain, Path: path, Note: "enc=" + b.Spec.Enc}}, seen)
					}
				}
			}
		}
	}
	p.MaxDepth = 1
}

// ---------------------------------------------------------------- part hash-cache

// The pool records the hash of every Qi transaction it validated (tx_pool.go addQiTxs ->
// sendersCh); StateProcessor.Process looks every block transaction up by tx.Hash() and calls
// ProcessQiTx with checkSig=false on a hit (state_processor.go, "senders" map). The two real
// verifiers are driven here; only that lookup is modelled.

type c03HCTx struct {
	Name       string
	Enc        string
	Wire       []byte
	Authorised bool
}

func c03HashCacheTxs(e *c03QiEnv, keys []*c03Key) ([]c03HCTx, error) {
	var out []c03HCTx
	for _, enc := range []string{"compressed", "uncompressed", "hybrid"} {
		refused := false
		sign := func(s c03QiSpec, list []int) ([]byte, error) {
			d, err := e.digest(s)
			if err != nil {
				if _, r := c03RefusedAtDecode(err); r && enc == "hybrid" {
					// no digest exists for a transaction the decoder refuses; the wire form is still
					// submitted (with the signature of its canonical twin) and must be turned away
					refused = true
					c := s.clone()
					c.Enc = "uncompressed"
					if d, err = e.digest(c); err != nil {
						return nil, err
					}
				} else {
					return nil, err
				}
			}
			return c03QiSign(keys, list, d)
		}
		own0 := c03QiBaseSpec([]int{0}, []int{0}, enc, 9000, "")
		sig0, err := sign(own0, []int{0})
		if err != nil {
			return nil, err
		}
		own1 := c03QiBaseSpec([]int{1}, []int{1}, enc, 9000, "")
		sig1, err := sign(own1, []int{1})
		if err != nil {
			return nil, err
		}
		// key1 (attacker) spends another UTXO of key0 using key0's public key, paying itself
		forged := c03QiBaseSpec([]int{0}, []int{0}, enc, 9000, "")
		forged.Slots[0] = 1
		forged.Outs[0].Addr, forged.Outs[1].Addr = c03QiOutAddr(0xee), c03QiOutAddr(0xef)
		sigF, err := sign(forged, []int{1})
		if err != nil {
			return nil, err
		}
		redirected := own0.clone()
		redirected.Outs[0].Addr = c03QiOutAddr(0xee)
		badsig := append([]byte{}, sig0...)
		badsig[40] ^= 1
		out = append(out,
			c03HCTx{"key0-spends-own/" + enc, enc, e.wire(own0, sig0), !refused},
			c03HCTx{"key1-spends-own/" + enc, enc, e.wire(own1, sig1), !refused},
			c03HCTx{"key1-spends-key0-utxo-signed-by-key1/" + enc, enc, e.wire(forged, sigF), false},
			c03HCTx{"key1-spends-key0-utxo-zero-signature/" + enc, enc, e.wire(forged, make([]byte, 64)), false},
			c03HCTx{"key0-tx-output-redirected-old-signature/" + enc, enc, e.wire(redirected, sig0), false},
			c03HCTx{"key0-tx-signature-bit-flipped/" + enc, enc, e.wire(own0, badsig), false},
		)
	}
	return out, nil
}

// c03ExecHashCache: pool-validate every tx of pool (in order), then block-process b the way
// Process does. Returns whether b was accepted and whether the signature check was skipped.
func (e *c03QiEnv) execHashCache(pool [][]byte, b []byte, nodeChain int64) (accepted, skipped bool, trace []string) {
	senders := map[common.Hash]bool{}
	for _, w := range pool {
		tx, err := c03DecodeWire(w, e.loc)
		if err != nil {
			trace = append(trace, "pool:undecodable")
			continue
		}
		if verr := e.run("pool", tx, nodeChain, true); verr != nil {
			trace = append(trace, "pool:reject:"+c03ErrClass(verr))
			continue
		}
		var h common.Hash
		vx.Guard(func() { h = tx.Hash() })
		senders[h] = true
		trace = append(trace, fmt.Sprintf("pool:accept(hash %x)", h[:6]))
	}
	tx, err := c03DecodeWire(b, e.loc)
	if err != nil {
		return false, false, append(trace, "block:undecodable")
	}
	var h common.Hash
	vx.Guard(func() { h = tx.Hash() })
	checkSig := !senders[h]
	verr := e.run("process", tx, nodeChain, checkSig)
	trace = append(trace, fmt.Sprintf("block:hash %x checkSig=%v -> %s", h[:6], checkSig, c03ErrClass(verr)))
	return verr == nil, !checkSig, trace
}

func c03RunHashCache(c *vx.Ctx, keys []*c03Key) {
	p := c.Part("hash-cache")
	e, err := c03NewQiEnv(keys)
	if err != nil {
		c.HarnessError("qi env: " + err.Error())
		return
	}
	txs, err := c03HashCacheTxs(e, keys)
	if err != nil {
		c.HarnessError("hash-cache txs: " + err.Error())
		return
	}
	depth := 2
	if c.Thorough() {
		depth = 3
	}
	p.Bound("transactions", len(txs))
	p.Bound("history", fmt.Sprintf("%d pool submissions then one block transaction", depth-1))
	seen := map[string]bool{}
	var item int64
	for _, pool := range c03Tuples(len(txs), depth-1) {
		for bi, b := range txs {
			item++
			if !c.Mine(item) {
				continue
			}
			if c.Expired() {
				p.Incomplete("deadline")
				return
			}
			var pw [][]byte
			var pn []string
			for _, i := range pool {
				pw = append(pw, txs[i].Wire)
				pn = append(pn, txs[i].Name)
			}
			p.States++
			p.Transitions += int64(depth)
			p.Traces += int64(depth)
			acc, skipped, trace := e.execHashCache(pw, b.Wire, 9000)
			verdict := fmt.Sprintf("accepted=%v", acc)
			if len(trace) > 0 && trace[len(trace)-1] == "block:undecodable" {
				verdict = "refused-at-decode"
			}
			p.Outcome(fmt.Sprintf("block-tx-authorised=%v|sig-check-skipped=%v|%s", b.Authorised, skipped, verdict))
			if bi == 0 && len(pool) == 1 && pool[0] == 0 {
				p.Sample(map[string]any{"pool": pn, "block_tx": b.Name, "trace": trace})
			}
			if acc && !b.Authorised {
				var hx []string
				for _, w := range pw {
					hx = append(hx, c03Hex(w))
				}
				c03Report(c, "hash-cache", c03Viol{
					Key:    fmt.Sprintf("qi:unauthorised-accepted-via-hash-keyed-sender-cache:enc=%s", b.Enc),
					Desc:   fmt.Sprintf("after the pool validated %v, block processing accepts %q although it carries no signature by the owner of the spent UTXO (signature check skipped=%v): %v", pn, b.Name, skipped, trace),
					Replay: c03Replay{Kind: "hash-cache", Ops: hx, Wire: c03Hex(b.Wire), NodeChain: 9000, Expect: "unauthorised", Note: "enc=" + b.Enc}}, seen)
			}
		}
	}
	p.MaxDepth = int64(depth)
}

func c03ReplayHashCache(rp c03Replay) (string, string) {
	e, err := c03NewQiEnv(c03Keys())
	if err != nil || rp.Expect != "unauthorised" {
		return "", ""
	}
	var pw [][]byte
	for _, h := range rp.Ops {
		pw = append(pw, c03UnHex(h))
	}
	acc, skipped, trace := e.execHashCache(pw, c03UnHex(rp.Wire), rp.NodeChain)
	if !acc {
		return "", ""
	}
	// differential confirmation: the same transaction is refused when its signature is checked
	tx, _ := c03DecodeWire(c03UnHex(rp.Wire), e.loc)
	full := e.run("process", tx, rp.NodeChain, true)
	return "qi:unauthorised-accepted-via-hash-keyed-sender-cache:" + rp.Note,
		fmt.Sprintf("block processing accepted the transaction (signature check skipped=%v, trace %v); with checkSig=true the same transaction gives: %v", skipped, trace, full)
}
