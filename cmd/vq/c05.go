package main

// C05 — sending value off-chain is all-or-nothing at the origin.
//
// Bounded exhaustive argument grids over the REAL interpreter / evm.Call / lockup precompile:
//   etx      single ETX opcode              (destination x value x etx gas x tip x cap x access-list blob x balance x gas x regime)
//   convert  single CONVERT opcode          (destination x value x etx gas x gas price x balance x gas x regime)
//   call     evm.Call / CALL opcode to out-of-scope addresses (CreateETX, incl. Quai->Qi conversion by plain call)
//   unwrap   lockup precompile UnwrapQi     (wrapped balance x value x etx gas x beneficiary x via x regime)
//   claim    lockup precompile ClaimCoinbaseLockup (record kind x destination x etx gas x via x regime)
//   tx       whole transactions through the real applyTransaction: programs of ETX / CONVERT / CALL-out /
//            unwrap / claim operations in frames that succeed, revert or abort; the committed outbound set
//            (receipt.OutboundEtxs) must be exactly the successful non-reverted operations in execution order
//            and the debits must be exactly theirs.
// Every part also runs with a pre-filled outbound cache (2 and 65536 entries) so that the "fresh
// index" and the index-overflow exits are exercised.
//
// The oracle is the statement read as a predicate over (status, debit, new ETXs):
//   reports success  => debit == stated value + prepaid fee  AND exactly one new ETX carrying that value
//                       at index == previous length;
//   reports failure  => debit == 0 AND no new ETX            (failure = status word 0 or an aborted frame);
//   an opcode that completes must leave a status word (stack height as after a CALL).
// It never predicts WHETHER an operation succeeds.

import (
	"fmt"
	"math/big"
	"strings"
	"time"

	"github.com/dominant-strategies/go-quai/common"
	"github.com/dominant-strategies/go-quai/core"
	"github.com/dominant-strategies/go-quai/core/rawdb"
	"github.com/dominant-strategies/go-quai/core/state"
	"github.com/dominant-strategies/go-quai/core/types"
	"github.com/dominant-strategies/go-quai/core/vm"
	"github.com/dominant-strategies/go-quai/crypto"
	"github.com/dominant-strategies/go-quai/ethdb"
	"github.com/dominant-strategies/go-quai/params"
	"github.com/dominant-strategies/go-quai/rlp"
	"github.com/dominant-strategies/go-quai/verifshim/vx"
	"github.com/holiman/uint256"
)

func init() {
	register(vx.CheckSpec{ID: "C05", Shards: 8, QuickBudget: 70 * time.Second, ThoroughBudg: 12 * time.Minute, Run: runC05, ReplayFn: replayC05})
}

// ---- case description (also the replay artefact) ---------------------------------------------

type c05Case struct {
	Part     string `json:"part"`   // etx convert call unwrap claim
	Regime   string `json:"regime"` // regime name
	Via      string `json:"via"`    // opcode | direct
	Dest     string `json:"dest"`   // symbolic address name
	Value    string `json:"value"`  // decimal
	EtxGas   string `json:"etx_gas,omitempty"`
	Tip      string `json:"tip,omitempty"`
	Cap      string `json:"cap,omitempty"`
	Blob     string `json:"blob,omitempty"`      // access-list blob kind
	DataLen  int    `json:"data_len,omitempty"`  // ETX payload bytes
	Balance  string `json:"balance"`             // balance of the acting account
	Gas      uint64 `json:"gas"`                 // gas given to the frame / call
	Prefill  int    `json:"prefill"`             // ETXs already in the cache
	GasPrice string `json:"gas_price,omitempty"` // tx gas price (CONVERT fee)
	Wrapped  string `json:"wrapped,omitempty"`   // wrapped-Qi balance of the owner (unwrap)
	Epoch    uint32 `json:"epoch,omitempty"`     // lockup record selector (claim)
	Caller   string `json:"caller,omitempty"`    // call part: S (EOA) or A (contract)
}

func (k c05Case) String() string {
	raw, _ := jsonMarshal(k)
	return string(raw)
}

func c05Big(s string) *big.Int {
	if s == "" {
		return new(big.Int)
	}
	v, ok := new(big.Int).SetString(s, 10)
	if !ok {
		panic("bad decimal " + s)
	}
	return v
}

func c05AddrByName(n string) common.Address {
	for hex, name := range c02Nam {
		if name == n {
			return common.HexToAddress(hex, c02Loc)
		}
	}
	panic("unknown address name " + n)
}

// ---- fixed programs: arguments come from calldata so that one committed world serves a grid ----

// c05ArgLoader: copy calldata[32*n:] to memory[0:], push n calldata words (word 0 deepest), run op, STOP.
func c05ArgLoader(n int, op vm.OpCode) []byte {
	a := &c02Asm{}
	a.Push(uint64(32*n)).Op(vm.CALLDATASIZE, vm.SUB) // size = CALLDATASIZE - 32n
	a.Push(uint64(32 * n)).Push(0).Op(vm.CALLDATACOPY)
	for i := 0; i < n; i++ {
		a.Push(uint64(32 * i)).Op(vm.CALLDATALOAD)
	}
	a.Op(op, vm.STOP)
	return a.Bytes()
}

func c05Words(ws ...*big.Int) []byte {
	var out []byte
	for _, w := range ws {
		b := c02U256(w).Bytes32()
		out = append(out, b[:]...)
	}
	return out
}

var (
	c05CodeETX     = c05ArgLoader(10, vm.ETX)
	c05CodeConvert = c05ArgLoader(4, vm.CONVERT)
	c05CodeCall    = c05ArgLoader(7, vm.CALL)
)

// ---- blobs -----------------------------------------------------------------------------------

func c05Blob(kind string) (blob []byte, size, off *big.Int) {
	switch kind {
	case "none":
		return nil, big.NewInt(0), big.NewInt(0)
	case "empty-list":
		return []byte{0xc0}, big.NewInt(1), big.NewInt(0)
	case "one-entry":
		al := types.AccessList{{Address: c02X, StorageKeys: []common.Hash{common.HexToHash("0x01")}}}
		b, err := rlp.EncodeToBytes(al)
		if err != nil {
			panic(err)
		}
		return b, big.NewInt(int64(len(b))), big.NewInt(0)
	case "malformed":
		return []byte{0xff, 0x01, 0x02}, big.NewInt(3), big.NewInt(0)
	case "zeros": // size > 0 pointing at untouched (zero) memory
		return nil, big.NewInt(3), big.NewInt(64)
	case "huge-offset": // far-away offset (1 MiB; the ETX opcode does not charge for memory expansion, larger values exhaust the host)
		return []byte{0xc0}, big.NewInt(1), new(big.Int).Lsh(big.NewInt(1), 20)
	case "overflow-offset":
		return []byte{0xc0}, big.NewInt(1), new(big.Int).Set(c02Max256)
	}
	panic("blob kind " + kind)
}

// ---- tracer: status word / stack height after the watched opcode of the outermost frame --------

type c05Tracer struct {
	watch      vm.OpCode
	seen       bool
	depth      int
	pc         uint64
	before     int
	after      int // -1 unknown
	top        *uint256.Int
	faulted    bool
	faultClass string
}

func (t *c05Tracer) CaptureStart(*vm.EVM, common.Address, common.Address, bool, []byte, uint64, *big.Int) {
}
func (t *c05Tracer) CaptureEnd([]byte, uint64, time.Duration, error) {}
func (t *c05Tracer) CaptureState(env *vm.EVM, pc uint64, op vm.OpCode, gas, cost uint64, scope *vm.ScopeContext, rData []byte, depth int, err error, loc common.Location) {
	if err != nil { // reported from the deferred handler: the step failed before execution
		if t.seen && t.after < 0 && depth == t.depth {
			t.faulted = true
		}
		return
	}
	if !t.seen && op == t.watch && depth == 1 {
		t.seen, t.depth, t.pc, t.before, t.after = true, depth, pc, len(scope.Stack.Data()), -1
		return
	}
	if t.seen && t.after < 0 && depth == t.depth && pc == t.pc+1 {
		d := scope.Stack.Data()
		t.after = len(d)
		if len(d) > 0 {
			t.top = new(uint256.Int).Set(&d[len(d)-1])
		}
	}
}
func (t *c05Tracer) CaptureFault(env *vm.EVM, pc uint64, op vm.OpCode, gas, cost uint64, scope *vm.ScopeContext, depth int, err error) {
	if t.seen && t.after < 0 && depth == t.depth && pc == t.pc {
		t.faulted = true
	}
}

// ---- worlds ----------------------------------------------------------------------------------

var (
	c05Ample = new(big.Int).Exp(big.NewInt(10), big.NewInt(30), nil)
	c05Small = big.NewInt(100_000)
)

type c05Worlds struct{ m map[string]*c02World }

func c05WrappedKey(owner common.Address) common.Hash {
	ia := c02Int(owner)
	return common.BytesToHash(ia[:])
}

// c05LockupRecords: records of owner with miner M, lockup byte 1.
// epoch 0,1: claimable; 2: zero elements; 3: not yet unlocked; 4..11 claimable (used by the tx part).
func c05LockupRecords(owner common.Address) []c02Lockup {
	var out []c02Lockup
	for e := uint32(0); e < 12; e++ {
		l := c02Lockup{Owner: owner, Miner: c02M, Delegate: common.Zero, LockupByte: 1, Epoch: e, Balance: big.NewInt(int64(700 + e)), UnlockHeight: 5, Elements: 1}
		if e == 2 {
			l.Elements = 0
		}
		if e == 3 {
			l.UnlockHeight = 4_000_000_000
		}
		out = append(out, l)
	}
	return out
}

func (ws *c05Worlds) get(part, balance, wrapped string) (*c02World, error) {
	key := part + "|" + balance + "|" + wrapped
	if w, ok := ws.m[key]; ok {
		return w, nil
	}
	var code []byte
	switch part {
	case "etx":
		code = c05CodeETX
	case "convert":
		code = c05CodeConvert
	default:
		code = c05CodeCall
	}
	bal := c05Big(balance)
	lk := c02Account{Addr: c02LK, Storage: map[common.Hash]common.Hash{}}
	if wrapped != "" && wrapped != "0" {
		lk.Storage[c05WrappedKey(c02A)] = common.BigToHash(c05Big(wrapped))
	}
	accts := []c02Account{
		{Addr: c02S, Balance: bal},
		{Addr: c02A, Balance: bal, Nonce: 1, Code: code},
		{Addr: c02B, Balance: big.NewInt(1000), Nonce: 1, Code: []byte{byte(vm.STOP)}},
		{Addr: c02CB, Balance: big.NewInt(1)},
		lk,
	}
	w, err := c02BuildWorld(accts, c05LockupRecords(c02A))
	if err != nil {
		return nil, err
	}
	ws.m[key] = w
	return w, nil
}

// ---- execution of one single-operation case ----------------------------------------------------

type c05Obs struct {
	CallErr    error // error returned by evm.Call (frame aborted / call refused)
	Seen       bool  // opcode via: the watched opcode was reached
	Completed  bool  // opcode via: the opcode ran to completion
	HeightOK   bool
	Status     int // 1, 0, -1 (nothing / not applicable)
	Debit      *big.Int
	NewEtxs    []*types.Transaction
	PrefixKept bool
	PreLen     int
	LeftGas    uint64
	Stated     *big.Int // stated value
	Fee        *big.Int // prepaid fee (balance part)
	Note       string
}

var c05Prefills = map[int][]*types.Transaction{}

func c05Prefill(n int) []*types.Transaction {
	if n == 0 {
		return make([]*types.Transaction, 0)
	}
	if p, ok := c05Prefills[n]; ok {
		return p[:n:n]
	}
	to := c02X
	one := types.NewTx(&types.ExternalTx{Value: big.NewInt(0), To: &to, Sender: c02B, EtxType: types.DefaultType, OriginatingTxHash: c02TxHash, Gas: 21000})
	p := make([]*types.Transaction, n)
	for i := range p {
		p[i] = one
	}
	c05Prefills[n] = p
	// len == cap: an append by the code under test reallocates, the shared prefix is never written
	return p[:n:n]
}

func c05EnvByName(envs []*c02Env, name string) *c02Env {
	for _, e := range envs {
		if e.Regime.Name == name {
			return e
		}
	}
	return nil
}

func c05Exec(envs []*c02Env, ws *c05Worlds, k c05Case) (*c05Obs, error) {
	env := c05EnvByName(envs, k.Regime)
	if env == nil {
		return nil, fmt.Errorf("unknown regime %q", k.Regime)
	}
	w, err := ws.get(k.Part, k.Balance, k.Wrapped)
	if err != nil {
		return nil, err
	}
	st, batch, err := w.Open()
	if err != nil {
		return nil, err
	}
	value := c05Big(k.Value)
	obs := &c05Obs{Status: -1, Stated: value, Fee: new(big.Int)}
	gasPrice := c05Big(k.GasPrice)
	if k.GasPrice == "" {
		gasPrice = new(big.Int).Set(c02GasPrice)
	}
	tr := &c05Tracer{}
	cfg := vm.Config{}
	if k.Via == "opcode" {
		cfg = vm.Config{Debug: true, Tracer: tr}
	}
	evm := vm.NewEVM(env.BlockCtx, vm.TxContext{Origin: c02S, GasPrice: gasPrice, Hash: c02TxHash}, st, env.Cfg, cfg, batch)
	pre := c05Prefill(k.Prefill)
	evm.ETXCache = pre
	obs.PreLen = len(pre)

	// the acting account and the measured quantity
	actor := c02A
	var input []byte
	var target common.Address
	dest := common.Address{}
	if k.Dest != "" {
		dest = c05AddrByName(k.Dest)
	}
	destWord := func(a common.Address) *big.Int { return new(big.Int).SetBytes(a.Bytes()) }
	var measure func() *big.Int
	balanceOf := func(a common.Address) func() *big.Int {
		ia := c02Int(a)
		return func() *big.Int { return new(big.Int).Set(st.GetBalance(ia)) }
	}
	lkInt := c02Int(c02LK)
	wantHeightDelta := 0
	var expPops int

	switch k.Part {
	case "etx":
		blob, bsize, boff := c05Blob(k.Blob)
		data := make([]byte, k.DataLen)
		for i := range data {
			data[i] = byte(0xd0 + i)
		}
		etxGas, tip, cap := c05Big(k.EtxGas), c05Big(k.Tip), c05Big(k.Cap)
		obs.Fee = new(big.Int).Mul(new(big.Int).Add(tip, cap), etxGas)
		// memory layout: blob at 0, payload at 128
		mem := make([]byte, 128+len(data))
		copy(mem, blob)
		copy(mem[128:], data)
		input = append(c05Words(bsize, boff, big.NewInt(int64(len(data))), big.NewInt(128), cap, tip, etxGas, value, destWord(dest), big.NewInt(0)), mem...)
		tr.watch, expPops = vm.ETX, 10
		target = c02A
		measure = balanceOf(c02A)
	case "convert":
		etxGas := c05Big(k.EtxGas)
		obs.Fee = new(big.Int).Mul(gasPrice, etxGas)
		input = c05Words(etxGas, value, destWord(dest), big.NewInt(0))
		tr.watch, expPops = vm.CONVERT, 4
		target = c02A
		measure = balanceOf(c02A)
	case "call":
		data := make([]byte, k.DataLen)
		if k.Via == "opcode" {
			input = append(c05Words(big.NewInt(0), big.NewInt(0), big.NewInt(int64(len(data))), big.NewInt(0), value, destWord(dest), c05Big(k.EtxGas)), data...)
			tr.watch, expPops = vm.CALL, 7
			target = c02A
			measure = balanceOf(c02A)
		} else {
			actor = c02S
			input = data
			target = dest
			measure = balanceOf(c02S)
		}
	case "unwrap":
		in := make([]byte, 60)
		copy(in[:20], dest.Bytes())
		vb := c02U256(value).Bytes32()
		copy(in[20:52], vb[:])
		eg := c05Big(k.EtxGas).Uint64()
		for i := 0; i < 8; i++ {
			in[52+i] = byte(eg >> (8 * uint(7-i)))
		}
		measure = func() *big.Int {
			return st.GetState(lkInt, c05WrappedKey(c02A)).Big()
		}
		if k.Via == "opcode" {
			input = append(c05Words(big.NewInt(0), big.NewInt(0), big.NewInt(60), big.NewInt(0), big.NewInt(0), destWord(c02LK), c05Big("10000000")), in...)
			tr.watch, expPops = vm.CALL, 7
			target = c02A
		} else {
			input = in
			target = c02LK
		}
	case "claim":
		in := make([]byte, 53)
		copy(in[:20], c02M.Bytes())
		copy(in[20:40], dest.Bytes())
		in[40] = 1
		in[41], in[42], in[43], in[44] = byte(k.Epoch>>24), byte(k.Epoch>>16), byte(k.Epoch>>8), byte(k.Epoch)
		eg := c05Big(k.EtxGas).Uint64()
		for i := 0; i < 8; i++ {
			in[45+i] = byte(eg >> (8 * uint(7-i)))
		}
		ep := k.Epoch
		// the "balance" of a lockup record: its amount while it exists, 0 once deleted
		measure = func() *big.Int {
			bal, h, _, _ := rawdb.ReadCoinbaseLockup(st.UnderlyingDatabase(), batch, c02A, c02M, 1, ep)
			if h == 0 {
				return new(big.Int)
			}
			return bal
		}
		if k.Via == "opcode" {
			input = append(c05Words(big.NewInt(0), big.NewInt(0), big.NewInt(53), big.NewInt(0), big.NewInt(0), destWord(c02LK), c05Big("10000000")), in...)
			tr.watch, expPops = vm.CALL, 7
			target = c02A
		} else {
			input = in
			target = c02LK
		}
	default:
		return nil, fmt.Errorf("unknown part %q", k.Part)
	}
	wantHeightDelta = 1 - expPops

	// what TransitionDb does before the top-level call
	st.PrepareAccessList(c02S, &target, vm.ActivePrecompiles(env.Cfg.Rules(env.BlockCtx.BlockNumber), c02Loc),
		types.AccessList{{Address: c02A}, {Address: c02B}, {Address: c02LK}, {Address: c02X}, {Address: c02X2}, {Address: c02XQ}, {Address: c02Q}, {Address: c02N}}, false)

	before := measure()
	if k.Part == "claim" {
		obs.Stated = new(big.Int).Set(before) // a claim sends the whole record
	}
	caller := vm.AccountRef(c02S)
	callValue := new(big.Int)
	if k.Via == "direct" {
		caller = vm.AccountRef(actor)
		if k.Part == "call" {
			callValue = value
		}
	}
	var left uint64
	var cerr error
	perr := vx.Guard(func() { _, left, _, cerr = evm.Call(caller, target, input, k.Gas, callValue) })
	if perr != "" {
		obs.Note = perr
		obs.CallErr = fmt.Errorf("PANIC")
	} else {
		obs.CallErr = cerr
	}
	obs.LeftGas = left
	after := measure()
	obs.Debit = new(big.Int).Sub(before, after)
	if len(evm.ETXCache) >= len(pre) {
		obs.NewEtxs = append([]*types.Transaction{}, evm.ETXCache[len(pre):]...)
		obs.PrefixKept = true
		for i := range pre {
			if evm.ETXCache[i] != pre[i] {
				obs.PrefixKept = false
			}
		}
	} else {
		obs.PrefixKept = false
	}
	if k.Via == "opcode" {
		obs.Seen = tr.seen
		obs.Completed = tr.seen && tr.after >= 0 && !tr.faulted
		if obs.Completed {
			obs.HeightOK = tr.after-tr.before == wantHeightDelta
			if obs.HeightOK && tr.top != nil {
				if tr.top.IsZero() {
					obs.Status = 0
				} else {
					obs.Status = 1
				}
			}
		}
	}
	return obs, nil
}

// ---- the oracle ------------------------------------------------------------------------------

func c05OpName(k c05Case) string {
	switch k.Part {
	case "etx":
		return "opETX"
	case "convert":
		return "opConvert"
	case "call":
		if k.Via == "opcode" {
			return "opCall->CreateETX"
		}
		return "CreateETX"
	case "unwrap":
		return "unwrapQi"
	case "claim":
		return "claimCoinbaseLockup"
	}
	return k.Part
}

// c05ExitClass names the input class of a failing exit from the attributes of the case
// (attributes are tested in the order the code under test consults them).
func c05ExitClass(k c05Case, env *c02Env) string {
	if k.Part == "etx" && (k.Blob == "malformed" || k.Blob == "zeros" || k.Blob == "huge-offset") {
		return "malformed-accesslist" // non-empty blob that does not decode ("huge-offset" points at zero memory)
	}
	if k.Prefill > 65535 {
		if k.Part == "unwrap" && env.BlockCtx.PrimeTerminusNumber < params.ShaEquivalentDifficultyForkBlock {
			return "index-overflow:pre-sha-fork"
		}
		return "index-overflow"
	}
	if (k.Part == "etx" || k.Part == "call") && k.Dest != "" {
		d := c05AddrByName(k.Dest)
		if !common.IsInChainScope(d.Bytes(), c02Loc) && !env.BlockCtx.CheckIfEtxEligible(env.BlockCtx.EtxEligibleSlices, *d.Location()) {
			return "ineligible-destination"
		}
	}
	return "unclassified-exit"
}

// c05Judge returns (outcome class, violation key, description). key == "" means the statement holds.
func c05Judge(k c05Case, env *c02Env, o *c05Obs) (outcome, key, desc string) {
	op := c05OpName(k)
	nNew := len(o.NewEtxs)
	want := new(big.Int).Add(o.Stated, o.Fee)
	if k.Part == "unwrap" || k.Part == "claim" || k.Part == "call" {
		want = new(big.Int).Set(o.Stated) // the destination fee of these paths is prepaid in gas, not in balance
	}
	describe := func(what string) string {
		return fmt.Sprintf("%s: %s\n case=%s\n observed: callErr=%v completed=%v heightOK=%v status=%d debit=%s newETXs=%d (cache before=%d) stated=%s fee=%s %s",
			op, what, k.String(), o.CallErr, o.Completed, o.HeightOK, o.Status, o.Debit, nNew, o.PreLen, o.Stated, o.Fee, o.Note)
	}
	if o.CallErr != nil && o.CallErr.Error() == "PANIC" {
		return "panic", op + ":panic", describe("the code under test panicked")
	}
	if !o.PrefixKept {
		return "prefix-damaged", op + ":earlier-etxs-disturbed", describe("ETXs recorded earlier were removed or replaced")
	}
	success, failure := false, false
	kind := ""
	if k.Via == "opcode" {
		switch {
		case !o.Seen:
			failure, kind = true, "frame-error-before-op:"+c02ErrClass(o.CallErr)
		case !o.Completed:
			failure, kind = true, "op-aborts-frame:"+c02ErrClass(o.CallErr)
		case !o.HeightOK:
			// the opcode completed without leaving a status word: it reported neither outcome
			kind = "no-status-word"
		case o.Status == 1:
			success, kind = true, "status1"
		default:
			failure, kind = true, "status0"
		}
		if o.Completed && o.CallErr != nil {
			// cannot happen with "<op> STOP": the frame ended with an error after a completed op
			return "late-frame-error", op + ":harness-late-frame-error", describe("frame failed after the watched opcode completed")
		}
	} else {
		if o.CallErr == nil {
			success, kind = true, "call-ok"
		} else {
			failure, kind = true, "call-error:"+c02ErrClass(o.CallErr)
		}
	}
	outcome = op + "/" + kind
	switch {
	case success:
		if o.Debit.Cmp(want) != 0 {
			sub := "success-debit-mismatch"
			preFork := env.BlockCtx.PrimeTerminusNumber < params.SelfDestructRefundForkBlock
			if preFork && (k.Part == "etx" || k.Part == "convert") && want.Cmp(c02Max256) > 0 {
				sub = "pre-fork-uint256-wrap"
			}
			return outcome + "/VIOLATION", op + ":" + sub, describe(fmt.Sprintf("reported success but the sender was debited %s instead of value+fee=%s", o.Debit, want))
		}
		if nNew != 1 {
			return outcome + "/VIOLATION", op + ":success-etx-count", describe(fmt.Sprintf("reported success but %d ETXs were recorded", nNew))
		}
		e := o.NewEtxs[0]
		if e.Value().Cmp(o.Stated) != 0 {
			return outcome + "/VIOLATION", op + ":success-etx-value", describe(fmt.Sprintf("the recorded ETX carries %s instead of %s", e.Value(), o.Stated))
		}
		if int(e.ETXIndex()) != o.PreLen {
			return outcome + "/VIOLATION", op + ":success-stale-index", describe(fmt.Sprintf("the recorded ETX has index %d, previous cache length %d", e.ETXIndex(), o.PreLen))
		}
		return outcome, "", ""
	case failure:
		if o.Debit.Sign() != 0 || nNew != 0 {
			return outcome + "/VIOLATION", op + ":" + c05ExitClass(k, env), describe(fmt.Sprintf("reported failure (%s) but debit=%s and %d ETX recorded", kind, o.Debit, nNew))
		}
		return outcome, "", ""
	default: // completed without a status word
		what := fmt.Sprintf("the opcode completed without pushing a status word (stack height differs from the CALL protocol); debit=%s, %d ETX recorded", o.Debit, nNew)
		return outcome + "/VIOLATION", op + ":" + c05ExitClass(k, env), describe(what)
	}
}

// ---- grids -----------------------------------------------------------------------------------

func c05Dec(v *big.Int) string { return v.String() }

var (
	c05Two64  = new(big.Int).Lsh(big.NewInt(1), 64)
	c05Two255 = new(big.Int).Lsh(big.NewInt(1), 255)
)

func c05Values(bal *big.Int, extra ...*big.Int) []string {
	vs := []*big.Int{big.NewInt(0), big.NewInt(1), new(big.Int).Set(bal), new(big.Int).Add(bal, big.NewInt(1)), c02Max256}
	vs = append(vs, extra...)
	seen := map[string]bool{}
	var out []string
	for _, v := range vs {
		if !seen[v.String()] {
			seen[v.String()] = true
			out = append(out, v.String())
		}
	}
	return out
}

type c05Gen func(yield func(c05Case))

func c05GridETX(thorough bool) c05Gen {
	return func(yield func(c05Case)) {
		etxGas := []string{"0", "20999", "21000", c05Dec(new(big.Int).Sub(c05Two64, big.NewInt(1))), c05Dec(c05Two64)}
		fees := []string{"0", "1", c05Dec(c05Two255)}
		blobs := []string{"none", "empty-list", "one-entry", "malformed", "zeros", "huge-offset", "overflow-offset"}
		bals := []*big.Int{big.NewInt(0), c05Small, c05Ample}
		dests := []string{"X", "X2", "XQ", "B", "Q"}
		for _, rg := range c02Regimes {
			for _, bal := range bals {
				for _, d := range dests {
					for _, v := range c05Values(bal) {
						for _, g := range etxGas {
							for _, tip := range fees {
								for _, cap := range fees {
									for _, bl := range blobs {
										for _, gas := range []uint64{20_000, 10_000_000} {
											if !thorough && gas == 20_000 && (tip != "0" || cap != "0") {
												continue // quick tier: the out-of-gas frame is crossed with the fee menu only in thorough
											}
											yield(c05Case{Part: "etx", Regime: rg.Name, Via: "opcode", Dest: d, Value: v, EtxGas: g, Tip: tip, Cap: cap, Blob: bl, Balance: bal.String(), Gas: gas})
										}
									}
								}
							}
						}
					}
				}
			}
		}
		// pre-filled cache (fresh index / index overflow) and payload, as <=1 extra deviation of a sub-grid
		for _, rg := range c02Regimes {
			for _, pf := range []int{2, 65535, 65536} {
				for _, d := range dests {
					for _, v := range []string{"1", c05Ample.String()} {
						for _, tip := range []string{"0", "1"} {
							for _, bl := range []string{"none", "one-entry", "malformed"} {
								for _, dl := range []int{0, 4} {
									yield(c05Case{Part: "etx", Regime: rg.Name, Via: "opcode", Dest: d, Value: v, EtxGas: "21000", Tip: tip, Cap: "0", Blob: bl, DataLen: dl, Balance: c05Ample.String(), Gas: 10_000_000, Prefill: pf})
								}
							}
						}
					}
				}
			}
		}
	}
}

func c05GridConvert(thorough bool) c05Gen {
	return func(yield func(c05Case)) {
		min := params.MinQuaiConversionAmount
		etxGas := []string{"0", "20999", "21000", c05Dec(new(big.Int).Sub(c05Two64, big.NewInt(1))), c05Dec(c05Two64)}
		bals := []*big.Int{big.NewInt(0), new(big.Int).Set(min), c05Ample}
		for _, rg := range c02Regimes {
			for _, bal := range bals {
				for _, d := range []string{"Q", "XQ", "B", "X"} {
					for _, v := range c05Values(bal, new(big.Int).Sub(min, big.NewInt(1)), min, new(big.Int).Add(min, big.NewInt(1))) {
						for _, g := range etxGas {
							for _, gp := range []string{"1", c02GasPrice.String(), c05Dec(c05Two255), c05Dec(c02Max256)} {
								for _, gas := range []uint64{20_000, 10_000_000} {
									for _, pf := range []int{0, 2, 65536} {
										if pf != 0 && (gas != 10_000_000 || gp != c02GasPrice.String()) {
											continue
										}
										yield(c05Case{Part: "convert", Regime: rg.Name, Via: "opcode", Dest: d, Value: v, EtxGas: g, Balance: bal.String(), Gas: gas, GasPrice: gp, Prefill: pf})
									}
								}
							}
						}
					}
				}
			}
		}
	}
}

func c05GridCall(thorough bool) c05Gen {
	return func(yield func(c05Case)) {
		min := params.MinQuaiConversionAmount
		bals := []*big.Int{big.NewInt(0), new(big.Int).Set(min), c05Ample}
		for _, rg := range c02Regimes {
			for _, via := range []string{"direct", "opcode"} {
				for _, bal := range bals {
					for _, d := range []string{"X", "X2", "XQ", "Q"} {
						for _, v := range c05Values(bal, new(big.Int).Sub(min, big.NewInt(1)), min) {
							for _, g := range []uint64{0, 20_999, 21_000, 41_999, 42_000, 1_000_000} {
								for _, dl := range []int{0, 4} {
									for _, pf := range []int{0, 2, 65536} {
										k := c05Case{Part: "call", Regime: rg.Name, Via: via, Dest: d, Value: v, Balance: bal.String(), DataLen: dl, Prefill: pf}
										if via == "opcode" && (pf != 0 || dl != 0) {
											continue
										}
										if via == "direct" {
											k.Gas = g
										} else {
											k.Gas = 5_000_000
											k.EtxGas = fmt.Sprint(g) // gas argument of the CALL opcode
										}
										yield(k)
									}
								}
							}
						}
					}
				}
			}
		}
	}
}

func c05GridUnwrap(thorough bool) c05Gen {
	return func(yield func(c05Case)) {
		for _, rg := range c02Regimes {
			for _, via := range []string{"direct", "opcode"} {
				for _, wr := range []string{"0", "5", c02Max256.String()} {
					for _, v := range []string{"0", "1", "5", "6", c02Max256.String()} {
						for _, eg := range []string{"0", "21000", "60000"} {
							for _, d := range []string{"Q", "N", "XQ", "X"} {
								for _, pf := range []int{0, 2, 65536} {
									yield(c05Case{Part: "unwrap", Regime: rg.Name, Via: via, Dest: d, Value: v, EtxGas: eg, Balance: c05Small.String(), Wrapped: wr, Gas: 50_000, Prefill: pf})
								}
							}
						}
					}
				}
			}
		}
	}
}

func c05GridClaim(thorough bool) c05Gen {
	return func(yield func(c05Case)) {
		for _, rg := range c02Regimes {
			for _, via := range []string{"direct", "opcode"} {
				for _, ep := range []uint32{0, 1, 2, 3, 20, 4_000_000} {
					for _, eg := range []string{"0", "21000", "60000"} {
						for _, d := range []string{"N", "X", "X2", "Q"} {
							for _, pf := range []int{0, 2, 65536} {
								yield(c05Case{Part: "claim", Regime: rg.Name, Via: via, Dest: d, Value: "0", EtxGas: eg, Balance: c05Small.String(), Epoch: ep, Gas: 50_000, Prefill: pf})
							}
						}
					}
				}
			}
		}
	}
}

// ---- driver ----------------------------------------------------------------------------------

func c05MakeEnvs() ([]*c02Env, error) {
	c02Init()
	var envs []*c02Env
	for _, rg := range c02Regimes {
		e, err := c02NewEnv(rg)
		if err != nil {
			return nil, err
		}
		envs = append(envs, e)
	}
	return envs, nil
}

func runC05(c *vx.Ctx) {
	c.Rule = "full argument grids (finite menus per argument, all combinations) for the ETX and CONVERT opcodes, evm.Call/CALL to out-of-scope addresses and the lockup precompile (UnwrapQi, ClaimCoinbaseLockup), each in 3 fork regimes and with an empty / 2-entry / 65535 / 65536-entry outbound cache; plus all short multi-frame programs of such operations run through the real applyTransaction; outcome class = operation x reported result (status word / error class); block: all arrival sequences of <=3 ETX-emitting transactions assembled by a real node and run through the real Process"
	c.Assume("the prepaid destination fee of opETX is (gasTipCap+gasFeeCap)*etxGasLimit and of opConvert gasPrice*etxGasLimit (the formulas of the code under test); CALL-created ETXs, UnwrapQi and ClaimCoinbaseLockup prepay in gas, not in balance")
	c.Assume("an aborted frame (error returned by the interpreter) counts as 'reports failure'")
	c.Assume("the 65535/65536-entry outbound cache is installed directly on the EVM; part 'reach' shows such a cache is reachable by one transaction under the 50M gas ceiling")
	c.Assume("fork regimes are selected through the header (prime terminus / zone number) relative to the fork heights in package params")
	defer c02Prof()()
	envs, err := c05MakeEnvs()
	if err != nil {
		c.HarnessError("environment: " + err.Error())
		return
	}
	ws := &c05Worlds{m: map[string]*c02World{}}
	parts := []struct {
		name string
		gen  c05Gen
	}{
		{"etx", c05GridETX(c.Thorough())},
		{"convert", c05GridConvert(c.Thorough())},
		{"call", c05GridCall(c.Thorough())},
		{"unwrap", c05GridUnwrap(c.Thorough())},
		{"claim", c05GridClaim(c.Thorough())},
	}
	var idx int64
	reported := map[string]bool{}
	for _, pt := range parts {
		if !c.Wants(pt.name) {
			continue
		}
		p := c.Part(pt.name)
		p.Bound("regimes", c02Regimes)
		stop := false
		pt.gen(func(k c05Case) {
			idx++
			if stop || !c.Mine(idx) {
				return
			}
			if c.Expired() {
				p.Incomplete("deadline")
				stop = true
				return
			}
			obs, err := c05Exec(envs, ws, k)
			if err != nil {
				c.HarnessError("exec: " + err.Error())
				stop = true
				return
			}
			env := c05EnvByName(envs, k.Regime)
			outcome, key, desc := c05Judge(k, env, obs)
			p.Transitions++
			p.Traces++
			p.Outcome(c05Short(k.Regime) + "/" + outcome)
			if key != "" && !reported[key] {
				reported[key] = true
				kk := k
				if c.Confirm(desc, func() string {
					o2, err := c05Exec(envs, ws, kk)
					if err != nil {
						return "harness:" + err.Error()
					}
					_, k2, _ := c05Judge(kk, env, o2)
					return k2
				}) {
					c.Violate(pt.name, key, desc, k)
				}
			} else if obs.Status == 1 || (k.Via == "direct" && obs.CallErr == nil) {
				p.Sample(k)
			}
		})
		p.MaxDepth = 1
	}
	if c.Wants("tx") {
		c05RunTx(c, envs)
	}
	if c.Wants("reach") && (c.Thorough() || c.Only == "reach") {
		c05RunReach(c, envs) // 65537 real precompile calls (~7 s per run, x6 when a violation is confirmed): thorough tier only
	}
	if c.Wants("block") {
		c05RunBlock(c) // last: scales the mininode's protocol constants
	}
}

func c05Short(regime string) string {
	if i := strings.Index(regime, "-"); i > 0 {
		return regime[:i]
	}
	return regime
}

func replayC05(c *vx.Ctx, v vx.Violation) string {
	envs, err := c05MakeEnvs()
	if err != nil {
		return "harness: " + err.Error()
	}
	raw, _ := jsonMarshal(v.Replay)
	if v.Part == "block" {
		core.VScaleParams(core.VR1)
		var b c05BlockCase
		if err := jsonUnmarshal(raw, &b); err != nil {
			return "bad replay: " + err.Error()
		}
		_, d, _, h := c05BlockRun(b)
		if h != "" {
			return "harness: " + h
		}
		return d
	}
	if v.Part == "tx" {
		var t c05TxCase
		if err := jsonUnmarshal(raw, &t); err != nil {
			return "bad replay: " + err.Error()
		}
		for _, f := range c05TxRun(envs, t) {
			if f.key == v.Key {
				return f.desc
			}
		}
		return ""
	}
	if v.Part == "reach" {
		_, key, desc := c05ReachRun(envs)
		if key == v.Key {
			return desc
		}
		return ""
	}
	var k c05Case
	if err := jsonUnmarshal(raw, &k); err != nil {
		return "bad replay: " + err.Error()
	}
	ws := &c05Worlds{m: map[string]*c02World{}}
	obs, err := c05Exec(envs, ws, k)
	if err != nil {
		return "harness: " + err.Error()
	}
	_, key, desc := c05Judge(k, c05EnvByName(envs, k.Regime), obs)
	if key == v.Key {
		return desc
	}
	if key != "" {
		return "different violation on replay: " + key + "\n" + desc
	}
	return ""
}

// ---- part "tx": multi-frame programs through the real applyTransaction --------------------------

// items: E = ETX opcode to X, C = CONVERT to Q, K = CALL to X with value, U = UnwrapQi, L = ClaimCoinbaseLockup,
// I = ETX opcode to the ineligible zone X2, B = CALL contract B (A only)
type c05TxCase struct {
	Regime string `json:"regime"`
	A      string `json:"a_items"`
	ATerm  string `json:"a_term"` // stop revert
	B      string `json:"b_items"`
	BTerm  string `json:"b_term"` // stop revert invalid
	// how A enters B's program: "" / "call" (CALL contract B), "delegatecall", "callcode" (B's code in
	// A's context), "create" (B's program is the init code of a contract created by A with an endowment)
	Via string `json:"via,omitempty"`
}

var c05Vias = []string{"call", "delegatecall", "callcode", "create"}

var c05Endowment = new(big.Int).Mul(big.NewInt(4), new(big.Int).Add(params.MinQuaiConversionAmount, big.NewInt(1_000_000_000)))

// c05ChildInit pads init (dead bytes after its terminating opcode) until the address the interpreter
// derives for a contract created by A (nonce 1) is an in-zone Quai address, so that the creation does
// not depend on address grinding.
var c05ChildCache = map[string][]byte{}

func c05ChildInit(init []byte) ([]byte, common.Address) {
	code, ok := c05ChildCache[string(init)]
	if !ok {
		for n := 0; n < 1<<16; n++ {
			code = append(append([]byte{}, init...), 0x00, byte(n>>8), byte(n))
			if _, err := crypto.CreateAddress(c02A, 1, code, c02Loc).InternalAndQuaiAddress(); err == nil {
				break
			}
		}
		if len(c05ChildCache) > 4096 {
			c05ChildCache = map[string][]byte{}
		}
		c05ChildCache[string(init)] = code
	}
	addr := crypto.CreateAddress(c02A, 1, code, c02Loc)
	if _, err := addr.InternalAndQuaiAddress(); err != nil {
		panic("harness: no in-zone child address found")
	}
	return code, addr
}

type c05TxOp struct {
	Kind  byte
	Owner common.Address // frame (contract) that executes it
	ID    int            // slot = ID+1
	Value *big.Int
	Fee   *big.Int
	Dest  common.Address
	Epoch uint32
}

const c05TxEtxGas = 21000

func c05TxOpCode(a *c02Asm, o c05TxOp, via string, codeB []byte) {
	switch o.Kind {
	case 'E', 'I':
		// accessListSize, accessListOffset, inSize, inOffset, gasFeeCap, gasTipCap, etxGasLimit, value, addr, temp
		a.Push(0).Push(0).Push(0).Push(0).Push(2).Push(1).Push(c05TxEtxGas).PushBig(o.Value).PushAddr(o.Dest).Push(0).Op(vm.ETX)
	case 'C':
		a.Push(c05TxEtxGas).PushBig(o.Value).PushAddr(o.Dest).Push(0).Op(vm.CONVERT)
	case 'K':
		a.Push(0).Push(0).Push(0).Push(0).PushBig(o.Value).PushAddr(o.Dest).Push(100_000).Op(vm.CALL)
	case 'U':
		in := make([]byte, 60)
		copy(in[:20], o.Dest.Bytes())
		vb := c02U256(o.Value).Bytes32()
		copy(in[20:52], vb[:])
		a.MStoreBytes(0, in)
		a.Push(0).Push(0).Push(60).Push(0).Push(0).PushAddr(c02LK).Push(100_000).Op(vm.CALL)
	case 'L':
		in := make([]byte, 53)
		copy(in[:20], c02M.Bytes())
		copy(in[20:40], o.Dest.Bytes())
		in[40] = 1
		in[41], in[42], in[43], in[44] = byte(o.Epoch>>24), byte(o.Epoch>>16), byte(o.Epoch>>8), byte(o.Epoch)
		a.MStoreBytes(0, in)
		a.Push(0).Push(0).Push(53).Push(0).Push(0).PushAddr(c02LK).Push(100_000).Op(vm.CALL)
	case 'B':
		switch via {
		case "delegatecall":
			a.Push(0).Push(0).Push(0).Push(0).PushAddr(c02B).Push(2_000_000).Op(vm.DELEGATECALL)
		case "callcode":
			a.Push(0).Push(0).Push(0).Push(0).Push(0).PushAddr(c02B).Push(2_000_000).Op(vm.CALLCODE)
		case "create":
			a.MStoreBytes(0, codeB)
			a.Push(uint64(len(codeB))).Push(0).PushBig(c05Endowment).Op(vm.CREATE)
		default:
			a.Push(0).Push(0).Push(0).Push(0).Push(0).PushAddr(c02B).Push(2_000_000).Op(vm.CALL)
		}
	}
	a.Push(uint64(o.ID + 1)).Op(vm.SSTORE)
}

func c05TxOps(items string, owner common.Address, base int) []c05TxOp {
	var ops []c05TxOp
	for i := 0; i < len(items); i++ {
		id := base + i
		o := c05TxOp{Kind: items[i], Owner: owner, ID: id, Fee: new(big.Int)}
		switch items[i] {
		case 'E':
			o.Value, o.Dest = big.NewInt(int64(100+id)), c02X
			o.Fee = big.NewInt(3 * c05TxEtxGas)
		case 'I':
			o.Value, o.Dest = big.NewInt(int64(100+id)), c02X2
			o.Fee = big.NewInt(3 * c05TxEtxGas)
		case 'C':
			o.Value, o.Dest = new(big.Int).Add(params.MinQuaiConversionAmount, big.NewInt(int64(id))), c02Q
			o.Fee = new(big.Int).Mul(c02GasPrice, big.NewInt(c05TxEtxGas))
		case 'K':
			o.Value, o.Dest = big.NewInt(int64(200+id)), c02X
		case 'U':
			o.Value, o.Dest = big.NewInt(int64(1+id)), c02Q
		case 'L':
			o.Epoch, o.Dest = uint32(4+id), c02N
			o.Value = big.NewInt(int64(700 + o.Epoch))
		case 'B':
			o.Value = new(big.Int)
		}
		ops = append(ops, o)
	}
	return ops
}

func c05TxProgram(ops []c05TxOp, term string, via string, codeB []byte) []byte {
	a := &c02Asm{}
	for _, o := range ops {
		c05TxOpCode(a, o, via, codeB)
	}
	switch term {
	case "revert":
		a.Push(0).Push(0).Op(vm.REVERT)
	case "invalid":
		a.Raw([]byte{0xfe})
	default:
		a.Op(vm.STOP)
	}
	return a.Bytes()
}

type c05Finding struct{ key, desc, outcome string }

func c05TxRun(envs []*c02Env, t c05TxCase) []c05Finding {
	env := c05EnvByName(envs, t.Regime)
	opsA := c05TxOps(t.A, c02A, 0)
	// the frame that executes B's items: contract B, A itself (delegatecall / callcode), or the child
	ownerB := c02B
	switch t.Via {
	case "delegatecall", "callcode":
		ownerB = c02A
	}
	opsB := c05TxOps(t.B, ownerB, 4)
	codeB := c05TxProgram(opsB, t.BTerm, "", nil)
	child := common.Address{}
	if t.Via == "create" {
		codeB, child = c05ChildInit(codeB)
		for i := range opsB {
			opsB[i].Owner = child
		}
	}
	codeA := c05TxProgram(opsA, t.ATerm, t.Via, codeB)
	wrapped := big.NewInt(1000)
	lk := c02Account{Addr: c02LK, Storage: map[common.Hash]common.Hash{c05WrappedKey(c02A): common.BigToHash(wrapped), c05WrappedKey(c02B): common.BigToHash(wrapped)}}
	accts := []c02Account{
		{Addr: c02S, Balance: c05Ample},
		{Addr: c02A, Balance: c05Ample, Nonce: 1, Code: codeA},
		{Addr: c02B, Balance: c05Ample, Nonce: 1, Code: codeB},
		{Addr: c02CB, Balance: big.NewInt(1)},
		lk,
	}
	w, err := c02BuildWorld(accts, append(c05LockupRecords(c02A), c05LockupRecords(c02B)...))
	if err != nil {
		return []c05Finding{{key: "harness", desc: err.Error()}}
	}
	st, batch, err := w.Open()
	if err != nil {
		return []c05Finding{{key: "harness", desc: err.Error()}}
	}
	al := types.AccessList{{Address: c02A}, {Address: c02B}, {Address: c02LK}, {Address: c02X}, {Address: c02X2}, {Address: c02Q}, {Address: c02N}}
	if t.Via == "create" {
		al = append(al, types.AccessTuple{Address: child})
	}
	to := c02A
	msg := types.NewMessage(c02S, &to, 0, new(big.Int), 8_000_000, new(big.Int).Set(c02GasPrice), nil, al, false)
	evm := vm.NewEVM(env.BlockCtx, vm.TxContext{}, st, env.Cfg, vm.Config{}, batch)
	gp := new(types.GasPool).AddGas(c02BlockGasLimit)
	rl, pl := uint64(1)<<60, uint64(1)<<60
	tx := types.NewTx(&types.QuaiTx{})
	balA0, balB0 := new(big.Int).Set(st.GetBalance(c02Int(c02A))), new(big.Int).Set(st.GetBalance(c02Int(c02B)))
	if t.Via == "create" && st.GetBalance(c02Int(child)).Sign() != 0 {
		return []c05Finding{{key: "harness", desc: "child address already funded"}}
	}
	var receipt *types.Receipt
	var aerr error
	if perr := vx.Guard(func() {
		receipt, _, aerr = core.VerifApplyTransaction(msg, env.Parent, env.Cfg, env.Chain, gp, st, env.BlockCtx.BlockNumber, c02BlockHash, tx, evm, &rl, &pl, c02Logger)
	}); perr != "" {
		return []c05Finding{{key: "tx:panic", desc: "applyTransaction panicked on " + fmt.Sprint(t) + "\n" + perr}}
	}
	if aerr != nil {
		return []c05Finding{{key: "harness", desc: "applyTransaction error: " + aerr.Error()}}
	}
	// execution order and surviving status words
	var order []c05TxOp
	for _, o := range opsA {
		order = append(order, o)
		if o.Kind == 'B' {
			order = append(order, opsB...)
		}
	}
	status := func(o c05TxOp) int {
		v := st.GetState(c02Int(o.Owner), common.BigToHash(big.NewInt(int64(o.ID+1))))
		if v == (common.Hash{}) {
			return 0
		}
		return 1
	}
	var expect []c05TxOp
	debit := map[common.Address]*big.Int{c02A: new(big.Int), c02B: new(big.Int), child: new(big.Int)}
	unwrapped := map[common.Address]*big.Int{c02A: new(big.Int), c02B: new(big.Int), child: new(big.Int)}
	for _, o := range order { // programs contain at most one CALL B, so B's status slots are written once
		if o.Kind == 'B' {
			continue
		}
		if status(o) != 1 {
			continue
		}
		expect = append(expect, o)
		switch o.Kind {
		case 'E', 'I', 'C', 'K':
			debit[o.Owner].Add(debit[o.Owner], new(big.Int).Add(o.Value, o.Fee))
		case 'U':
			unwrapped[o.Owner].Add(unwrapped[o.Owner], o.Value)
		}
	}
	desc := func(what string) string {
		var got []string
		for _, e := range receipt.OutboundEtxs {
			got = append(got, fmt.Sprintf("{to=%s value=%s idx=%d type=%d}", c02Name(*e.To()), e.Value(), e.ETXIndex(), e.EtxType()))
		}
		var exp []string
		for _, o := range expect {
			exp = append(exp, fmt.Sprintf("{%c by %s value=%s}", o.Kind, c02Name(o.Owner), o.Value))
		}
		return fmt.Sprintf("tx: %s\n case=%+v (items: E=ETX C=CONVERT K=CALL-out U=unwrap L=claim I=ETX-to-ineligible B=enter B's program via CALL / DELEGATECALL / CALLCODE / CREATE)\n receipt status=%d committed outbound set=%v\n operations whose status word 1 survived, in execution order=%v", what, t, receipt.Status, got, exp)
	}
	var out []c05Finding
	oc := fmt.Sprintf("status%d/etxs%d", receipt.Status, len(receipt.OutboundEtxs))
	// (1) committed set == surviving successes in order
	mismatch := len(receipt.OutboundEtxs) != len(expect)
	if !mismatch {
		for i, e := range receipt.OutboundEtxs {
			o := expect[i]
			if e.Value().Cmp(o.Value) != 0 || !e.To().Equal(o.Dest) || int(e.ETXIndex()) != i {
				mismatch = true
			}
		}
	}
	if mismatch {
		out = append(out, c05Finding{key: "tx:outbound-set-differs-from-successful-operations", desc: desc("the committed outbound set is not the list of successful non-reverted operations in execution order")})
	}
	// (2) debits are exactly those of the surviving successes
	for _, who := range []common.Address{c02A, c02B} {
		b0 := balA0
		if who == c02B {
			b0 = balB0
		}
		got := new(big.Int).Sub(b0, st.GetBalance(c02Int(who)))
		want := new(big.Int).Set(debit[who])
		if who == c02A && t.Via == "create" {
			// the endowment moves between A and its child: the pair is debited what its operations paid
			got.Sub(got, st.GetBalance(c02Int(child)))
			want.Add(want, debit[child])
		}
		if got.Cmp(want) != 0 {
			key := "tx:debit-differs-from-successful-operations"
			if strings.ContainsRune(t.A+t.B, 'I') {
				key = "tx:opETX:ineligible-destination"
			}
			out = append(out, c05Finding{key: key, desc: desc(fmt.Sprintf("%s was debited %s, the successful operations account for %s", c02Name(who), got, want))})
		}
		wgot := new(big.Int).Sub(wrapped, st.GetState(c02Int(c02LK), c05WrappedKey(who)).Big())
		if wgot.Cmp(unwrapped[who]) != 0 {
			out = append(out, c05Finding{key: "tx:unwrapQi:wrapped-balance-debit-differs", desc: desc(fmt.Sprintf("wrapped Qi of %s went down by %s, successful unwraps account for %s", c02Name(who), wgot, unwrapped[who]))})
		}
	}
	if t.Via == "create" && (unwrapped[child].Sign() != 0 || st.GetState(c02Int(c02LK), c05WrappedKey(child)) != (common.Hash{})) {
		out = append(out, c05Finding{key: "tx:unwrapQi:wrapped-balance-debit-differs", desc: desc("the created contract owns no wrapped Qi but an unwrap succeeded or its wrapped balance changed")})
	}
	// (3) lockup records: deleted iff a surviving successful claim
	for _, o := range order {
		if o.Kind != 'L' || (t.Via == "create" && o.Owner == child) { // the child owns no lockup records
			continue
		}
		_, h, _, _ := rawdb.ReadCoinbaseLockup(st.UnderlyingDatabase(), batch, o.Owner, c02M, 1, o.Epoch)
		deleted := h == 0
		claimed := false
		for _, e := range expect {
			if e.ID == o.ID && e.Owner == o.Owner {
				claimed = true
			}
		}
		if deleted && !claimed {
			out = append(out, c05Finding{key: "tx:claimCoinbaseLockup:reverted-frame-keeps-deletion", desc: desc(fmt.Sprintf("the lockup record (owner %s epoch %d) is deleted in the block batch although no successful claim survived and no ETX pays it out", c02Name(o.Owner), o.Epoch))})
		}
		if !deleted && claimed {
			out = append(out, c05Finding{key: "tx:claimCoinbaseLockup:claimed-record-still-present", desc: desc(fmt.Sprintf("the lockup record (owner %s epoch %d) was claimed successfully but still exists", c02Name(o.Owner), o.Epoch))})
		}
	}
	if len(out) == 0 {
		out = append(out, c05Finding{outcome: oc})
	} else {
		for i := range out {
			out[i].outcome = oc + "/VIOLATION"
		}
	}
	return out
}

func c05Seqs(alpha string, maxLen int, atMostOne byte) []string {
	out := []string{""}
	frontier := []string{""}
	for l := 1; l <= maxLen; l++ {
		var next []string
		for _, s := range frontier {
			for i := 0; i < len(alpha); i++ {
				if alpha[i] == atMostOne && strings.IndexByte(s, atMostOne) >= 0 {
					continue
				}
				next = append(next, s+string(alpha[i]))
			}
		}
		out = append(out, next...)
		frontier = next
	}
	return out
}

func c05RunTx(c *vx.Ctx, envs []*c02Env) {
	p := c.Part("tx")
	maxA, maxB := 2, 2
	if c.Thorough() {
		maxA, maxB = 3, 3
	}
	p.Bound("max_items_A", maxA)
	p.Bound("max_items_B", maxB)
	p.Bound("items", "E C K U L I (+B in A)")
	aSeqs := c05Seqs("ECKULIB", maxA, 'B')
	bSeqs := c05Seqs("ECKULI", maxB, 0)
	var idx int64
	reported := map[string]bool{}
	for _, rg := range c02Regimes[1:] { // conversions do not exist in the genesis-era regime
		for _, as := range aSeqs {
			if as == "" {
				continue
			}
			for _, at := range []string{"stop", "revert"} {
				bs := []string{""}
				bt := []string{"stop"}
				vias := []string{""}
				if strings.IndexByte(as, 'B') >= 0 {
					bs, bt, vias = bSeqs, []string{"stop", "revert", "invalid"}, c05Vias
				}
				for _, via := range vias {
					for _, b := range bs {
						for _, btm := range bt {
							idx++
							if !c.Mine(idx) {
								continue
							}
							if c.Expired() {
								p.Incomplete("deadline")
								return
							}
							t := c05TxCase{Regime: rg.Name, A: as, ATerm: at, B: b, BTerm: btm, Via: via}
							fs := c05TxRun(envs, t)
							p.Transitions++
							p.Traces++
							if len(as)+len(b) > int(p.MaxDepth) {
								p.MaxDepth = int64(len(as) + len(b))
							}
							for _, f := range fs {
								p.Outcome(c05Short(rg.Name) + "/" + via + "/" + f.outcome)
								if f.key == "harness" {
									c.HarnessError(f.desc)
									return
								}
								if f.key != "" && !reported[f.key] {
									reported[f.key] = true
									f := f
									if c.Confirm(f.desc, func() string {
										for _, g := range c05TxRun(envs, t) {
											if g.key == f.key {
												return g.key
											}
										}
										return ""
									}) {
										c.Violate("tx", f.key, f.desc, t)
									}
								} else if len(as)+len(b) >= 3 {
									p.Sample(t)
								}
							}
						}
					}
				}
			}
		}
	}
}

// ---- part "reach": is a 65536-entry outbound cache reachable below the gas ceiling? ------------

// One transaction: a loop of 65536 UnwrapQi(value 0, etx gas 0) calls, then one ETX opcode (value 7).
func c05ReachRun(envs []*c02Env) (outcome, key, desc string) {
	env := envs[len(envs)-1]
	a := &c02Asm{}
	in := make([]byte, 60)
	copy(in[:20], c02Q.Bytes())
	a.MStoreBytes(0, in)
	a.Push(65536) // counter
	loop := len(a.b)
	a.Op(vm.JUMPDEST)
	a.Push(0).Push(0).Push(60).Push(0).Push(0).PushAddr(c02LK).Op(vm.GAS, vm.CALL, vm.POP)
	a.Push(1).Op(vm.SWAP1, vm.SUB, vm.DUP1) // counter-1, dup
	a.Push(uint64(loop)).Op(vm.JUMPI)
	a.Op(vm.POP)
	a.Push(0).Push(0).Push(0).Push(0).Push(0).Push(0).Push(21000).Push(7).PushAddr(c02X).Push(0).Op(vm.ETX)
	a.Push(1).Op(vm.SSTORE, vm.STOP)
	lk := c02Account{Addr: c02LK, Storage: map[common.Hash]common.Hash{c05WrappedKey(c02A): common.BigToHash(big.NewInt(5))}}
	w, err := c02BuildWorld([]c02Account{{Addr: c02S, Balance: c05Ample}, {Addr: c02A, Balance: big.NewInt(1000), Nonce: 1, Code: a.Bytes()}, {Addr: c02CB, Balance: big.NewInt(1)}, lk}, nil)
	if err != nil {
		return "", "harness", err.Error()
	}
	st, batch, _ := w.Open()
	al := types.AccessList{{Address: c02A}, {Address: c02LK}, {Address: c02X}, {Address: c02Q}}
	to := c02A
	gasLimit := params.GasCeil - 1_000_000
	msg := types.NewMessage(c02S, &to, 0, new(big.Int), gasLimit, new(big.Int).Set(c02GasPrice), nil, al, false)
	evm := vm.NewEVM(env.BlockCtx, vm.TxContext{}, st, env.Cfg, vm.Config{}, batch)
	gp := new(types.GasPool).AddGas(params.GasCeil)
	rl, pl := uint64(1)<<60, uint64(1)<<60
	bal0 := new(big.Int).Set(st.GetBalance(c02Int(c02A)))
	var receipt *types.Receipt
	var aerr error
	if perr := vx.Guard(func() {
		receipt, _, aerr = core.VerifApplyTransaction(msg, env.Parent, env.Cfg, env.Chain, gp, st, env.BlockCtx.BlockNumber, c02BlockHash, types.NewTx(&types.QuaiTx{}), evm, &rl, &pl, c02Logger)
	}); perr != "" {
		return "", "reach:panic", perr
	}
	if aerr != nil {
		return "", "harness", aerr.Error()
	}
	debit := new(big.Int).Sub(bal0, st.GetBalance(c02Int(c02A)))
	statusWord := st.GetState(c02Int(c02A), common.BigToHash(big.NewInt(1)))
	hasETX := false
	for _, e := range receipt.OutboundEtxs {
		if e.EtxType() == types.DefaultType && e.Value().Cmp(big.NewInt(7)) == 0 {
			hasETX = true
		}
	}
	outcome = fmt.Sprintf("status%d/etxs%d/gas%dM/debit%s/statusword%s/etx7=%v", receipt.Status, len(receipt.OutboundEtxs), receipt.GasUsed/1_000_000, debit, statusWord.Big(), hasETX)
	if receipt.Status == types.ReceiptStatusSuccessful && len(receipt.OutboundEtxs) >= 65536 && debit.Sign() != 0 && !hasETX {
		return outcome, "opETX:index-overflow", fmt.Sprintf("one transaction (gas used %d <= gas ceiling %d) recorded %d outbound ETXs through UnwrapQi(0) and then executed ETX(value 7): status word %x, contract debited %s, but no ETX of value 7 is in the committed outbound set", receipt.GasUsed, params.GasCeil, len(receipt.OutboundEtxs), statusWord.Big(), debit)
	}
	return outcome, "", ""
}

func c05RunReach(c *vx.Ctx, envs []*c02Env) {
	p := c.Part("reach")
	if !c.Mine(0) {
		return
	}
	outcome, key, desc := c05ReachRun(envs)
	p.Transitions++
	p.Traces++
	p.MaxDepth = 65537
	p.Outcome(outcome)
	if key == "harness" {
		c.HarnessError(desc)
		return
	}
	if key != "" {
		if c.Confirm(desc, func() string { _, k, _ := c05ReachRun(envs); return k }) {
			c.Violate("reach", key, desc, map[string]any{"program": "65536 x UnwrapQi(0) then ETX(7)"})
		}
	}
	p.Sample(outcome)
}

var _ = state.New
var _ ethdb.Batch
