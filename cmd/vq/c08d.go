package main

// C08 part (d): twins. After the KawPow fork the identity of a merge-mined block is
// WorkObjectHeader.Hash() = blake3(AuxPoW) - it names the donor proof, not the quai header. A TWIN of
// a sealed block B is B with one quai-header field changed and the SAME donor proof: it has the same
// hash, a different seal hash, and the proof's coinbase does not commit to it. The database, the
// calc-order cache, the pow-hash cache and VerifyHeader's "already known" shortcut are all keyed by
// that hash, so this part explores every operation sequence (up to the depth) over B and a twin T on
// a fresh real node and checks after every step that nothing is accepted for T and that what the
// node stores under B's hash is the content the proof commits to.
//
//	W:x  write x as a candidate body (Slice.WriteBlock)        P:x  Slice.Append(x) (body read back from the DB)
//	A:x  W:x then P:x (what Core.WriteBlock/InsertChain do)     C:x  CalcOrder(x)      V:x  VerifyHeader(x)

import (
	"fmt"
	"math/big"
	"strings"
	"sync/atomic"
	"time"

	"github.com/dominant-strategies/go-quai/common"
	"github.com/dominant-strategies/go-quai/core"
	"github.com/dominant-strategies/go-quai/core/types"
	"github.com/dominant-strategies/go-quai/verifshim/vx"
)

type c08DCase struct {
	Field string   `json:"field"`
	Ops   []string `json:"ops"`
}

var c08TwinFields = []string{"time+1", "coinbase", "lock+1", "txhash", "data", "difficulty*1000", "number+1", "headerhash"}
var c08TwinOps = []string{"C:B", "C:T", "V:B", "V:T", "W:B", "W:T", "P:B", "P:T", "A:B", "A:T"}

// c08TwinPair builds, on top of the world's head, a fresh sealed kawpow block B (not yet given to
// the node) and its twin for the field.
func c08TwinPair(w *c08World, field string) (b, t *types.WorkObject, err error) {
	ph, err := w.Env.Pending(w.Env.Head())
	if err != nil {
		return nil, nil, err
	}
	c08AttachAuxPow(ph.WorkObjectHeader(), w.Tmpl[types.Kawpow])
	ph.AuxPow().Header().SetNonce64(99)
	ph.AuxPow().Header().SetMixHash(common.BigToHash(new(big.Int).Sub(c08Target(ph.Difficulty()), big.NewInt(31))))
	ph.WorkObjectHeader().SetHeaderHash(ph.Header().Hash())
	b = c08DeepCopy(ph, w.Env.Loc)
	t = c08DeepCopy(ph, w.Env.Loc)
	wh := t.WorkObjectHeader()
	switch field {
	case "time+1":
		wh.SetTime(wh.Time() + 1)
	case "coinbase":
		x := append([]byte{}, wh.PrimaryCoinbase().Bytes()...)
		x[19] ^= 1
		wh.SetPrimaryCoinbase(common.BytesToAddress(x, w.Env.Loc))
	case "lock+1":
		wh.SetLock(wh.Lock() + 1)
	case "txhash":
		h := wh.TxHash()
		h[31] ^= 1
		wh.SetTxHash(h)
	case "data":
		wh.SetData(append(append([]byte{}, wh.Data()...), 0))
	case "difficulty*1000":
		wh.SetDifficulty(new(big.Int).Mul(wh.Difficulty(), big.NewInt(1000)))
	case "number+1":
		wh.SetNumber(new(big.Int).Add(wh.Number(), big.NewInt(1)))
	case "headerhash":
		h := wh.HeaderHash()
		h[31] ^= 1
		wh.SetHeaderHash(h)
	default:
		return nil, nil, fmt.Errorf("unknown twin field %s", field)
	}
	t = c08DeepCopy(t, w.Env.Loc)
	if t.Hash() != b.Hash() {
		return nil, nil, fmt.Errorf("twin(%s) does not share the block hash", field)
	}
	if t.SealHash() == b.SealHash() {
		return nil, nil, fmt.Errorf("twin(%s) has the same seal hash", field)
	}
	return b, t, nil
}

// c08EvalD runs one sequence on w (which must be fresh). It returns the per-step outcome classes and
// the first violation (key, description); onlyKey restricts reporting to that key (replay).
var c08PairCache = map[string][2]*types.WorkObject{}

func c08EvalD(w0 *c08World, cs c08DCase, onlyKey string) (classes []string, key, bad string) {
	// the pair depends only on the (deterministic) chain: built once per field from the base world
	pair, ok := c08PairCache[cs.Field]
	if !ok {
		b0, t0, err := c08TwinPair(w0, cs.Field)
		if err != nil {
			return []string{"harness:" + err.Error()}, "", ""
		}
		pair = [2]*types.WorkObject{b0, t0}
		c08PairCache[cs.Field] = pair
	}
	b, t := pair[0], pair[1]
	renv, err := core.VerifC08Replica(w0.Env)
	if err != nil {
		return []string{"harness:" + err.Error()}, "", ""
	}
	w := &c08World{Regime: w0.Regime, Env: renv, Tmpl: w0.Tmpl}
	clean := true
	defer func() {
		if clean {
			w.Close() // a node that panicked or hung mid-operation may hold its locks: it is abandoned instead
		}
	}()
	pick := func(x string) *types.WorkObject {
		if x == "T" {
			return c08DeepCopy(t, w.Env.Loc)
		}
		return c08DeepCopy(b, w.Env.Loc)
	}
	committed := b.SealHash()
	flag := func(k, d string) {
		if key == "" && (onlyKey == "" || onlyKey == k) {
			key, bad = k, d
		}
	}
	for i, op := range cs.Ops {
		who := op[2:]
		x := pick(who)
		var res string
		perr, hung := c08WithTimeout(20*time.Second, func() {
			switch op[0] {
			case 'W':
				w.Env.WriteBlock(x)
				res = "written"
			case 'C':
				_, ord, err := w.Env.CalcOrder(x)
				if err != nil {
					res = "reject:" + c08ErrClass(err.Error())
				} else {
					res = fmt.Sprintf("accept:order%d", ord)
				}
			case 'V':
				if err := w.Env.VerifyHeaderPublic(x); err != nil {
					res = "reject:" + c08ErrClass(err.Error())
				} else {
					res = "accept"
				}
			case 'A', 'P':
				if op[0] == 'A' {
					w.Env.WriteBlock(x)
				}
				if err := w.Env.Append(x); err != nil {
					res = "reject:" + c08ErrClass(err.Error())
				} else {
					res = "accept"
				}
			}
		})
		if hung {
			clean = false
			classes = append(classes, op[:1]+":"+who+":HANG(>20s)")
			return
		}
		if perr != "" {
			clean = false
			res = "panic:" + c08PanicSite(perr)
			classes = append(classes, op[:1]+":"+who+":"+res)
			return // locks may be held by the panicked operation: the rest of the sequence is not executable
		}
		classes = append(classes, op[:1]+":"+who+":"+res)
		seq := strings.Join(cs.Ops[:i+1], " ; ")
		accepted := strings.HasPrefix(res, "accept")
		if who == "T" && accepted {
			switch op[0] {
			case 'C':
				// CalcOrder only vouches for the threshold
				h := new(big.Int).SetBytes(x.AuxPow().Header().MixHash().Bytes())
				if !c08ModelBlock(x.Difficulty(), h) {
					flag("twin:CalcOrder-cache", fmt.Sprintf("after [%s] CalcOrder returned %s for the twin (%s) of a sealed kawpow block: declared difficulty %s implies target %s, the donor PoW hash is %s. The calc-order cache is keyed by WorkObjectHeader.Hash() = hash of the AuxPoW, which does not cover the difficulty", seq, res, cs.Field, c08Hex(x.Difficulty()), c08TargetStr(x.Difficulty()), c08Hex(h)))
				}
			case 'V':
				flag("twin:VerifyHeader-known-hash", fmt.Sprintf("after [%s] VerifyHeader accepted the twin (%s): its seal hash %s is not the one the donor coinbase commits to (%s). VerifyHeader returns nil for any header whose Hash() is already known, and after the fork Hash() names only the AuxPoW", seq, cs.Field, x.SealHash().Hex(), committed.Hex()))
			case 'A', 'P':
				flag("twin:Append-accepts-twin", fmt.Sprintf("after [%s] Slice.Append accepted the twin (%s) whose seal hash %s is not committed by its donor proof (%s)", seq, cs.Field, x.SealHash().Hex(), committed.Hex()))
			}
		}
		if (op[0] == 'A' || op[0] == 'P') && accepted {
			// what does the node now hold under the accepted hash?
			st := w.Env.ReadBlock(x.Hash(), x.NumberU64(common.ZONE_CTX))
			switch {
			case st == nil:
				classes = append(classes, "stored:none")
			case st.SealHash() != committed:
				classes = append(classes, "stored:TWIN")
				flag("twin:Append-stores-twin", fmt.Sprintf("after [%s] the node appended hash %s but the block it stores (and processed) under that hash has seal hash %s (the twin, %s), not %s which the donor proof commits to: Append verifies the header object it is handed and then re-reads the block from the database by hash", seq, x.Hash().Hex(), st.SealHash().Hex(), cs.Field, committed.Hex()))
			default:
				classes = append(classes, "stored:sealed-content")
			}
		}
	}
	return
}

// c08WithTimeout runs f guarded in its own goroutine and gives up after d.
func c08WithTimeout(d time.Duration, f func()) (perr string, hung bool) {
	done := make(chan string, 1)
	go func() { done <- vx.Guard(f) }()
	select {
	case perr = <-done:
		return perr, false
	case <-time.After(d):
		return "", true
	}
}

func c08PanicSite(perr string) string {
	for _, l := range strings.Split(perr, "\n") {
		l = strings.TrimSpace(l)
		if !strings.HasPrefix(l, "/") || strings.Contains(l, "zz_verif") || strings.Contains(l, "verifshim") || strings.Contains(l, "verifcmd") {
			continue
		}
		j := strings.Index(l, "/repo/")
		if j < 0 {
			continue
		}
		l = l[j+len("/repo/"):]
		if i := strings.Index(l, " "); i > 0 {
			l = l[:i]
		}
		return l
	}
	return vx.PanicSite(perr)
}

func c08Seqs(depth int) [][]string {
	var out [][]string
	var rec func(cur []string)
	frontier := [][]string{{}}
	for d := 1; d <= depth; d++ {
		var next [][]string
		for _, s := range frontier {
			for _, op := range c08TwinOps {
				n := append(append([]string{}, s...), op)
				next = append(next, n)
				out = append(out, n)
			}
		}
		frontier = next
	}
	_ = rec
	return out
}

func c08RunD(c *vx.Ctx, w0 *c08World, idx *int64) {
	if w0.Regime != "R2" {
		return
	}
	p := c.Part("twin")
	depth := 2
	if c.Thorough() {
		depth = 3
	}
	p.Bound("depth", depth)
	p.Bound("ops", c08TwinOps)
	p.Bound("twin_fields", c08TwinFields)
	seqs := c08Seqs(depth)
	reported := map[string]bool{}
	for _, seq := range seqs { // shortest sequences first => shortest counterexample per key
		for _, f := range c08TwinFields {
			*idx++
			atomic.AddInt64(&c08Progress, 1)
			if !c.Mine(*idx) {
				continue
			}
			if c.Expired() {
				p.Incomplete(fmt.Sprintf("deadline (sequences are enumerated shortest first; reached length %d)", len(seq)))
				return
			}
			// a sequence without any step on the twin says nothing about twins
			hasT := false
			for _, op := range seq {
				if op[2:] == "T" {
					hasT = true
				}
			}
			if !hasT {
				continue
			}
			cs := c08DCase{Field: f, Ops: seq}
			classes, key, bad := c08EvalD(w0, cs, "")
			p.Transitions += int64(len(seq))
			p.Traces++
			p.States++
			if int64(len(seq)) > p.MaxDepth {
				p.MaxDepth = int64(len(seq))
			}
			for _, cl := range classes {
				if strings.HasPrefix(cl, "harness:") {
					c.HarnessError("twin " + f + ": " + cl)
					return
				}
				p.Outcome(c08ShortClass(cl))
			}
			if bad != "" && !reported[key] {
				reported[key] = true
				if c.Confirm(bad, func() string { _, k, _ := c08EvalD(w0, cs, key); return k }) {
					c.Violate("twin", key, bad, c08Replay{Part: "twin", D: &cs})
				}
			} else if bad == "" && p.Traces%53 == 1 {
				p.Sample(map[string]any{"case": cs, "outcome": classes})
			}
		}
	}
}

func c08ReplayD(cs c08DCase, key string) string {
	w, err := c08NewWorld("R2")
	if err != nil {
		return "harness: " + err.Error()
	}
	defer w.Close()
	_, _, bad := c08EvalD(w, cs, key)
	return bad
}
